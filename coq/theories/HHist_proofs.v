(* Model H, property C04 over API histories: for every sequence of API calls that follows the
   ownership rules ([legal]), no call faults (no touch of a released item or buffer, no double
   release, no failed assertion, no NULL or mistyped dereference), the reference-count accounting
   invariant [Inv] of HRef_proofs is maintained with the client's ownership function updated by
   [own_after], and once the client has dropped all its references nothing obtained from the
   allocator remains.

   Contents
     1.  accounting lemmas: a container takes a reference ([Inv_link_same] = Inv_add_kid), with
         growth of its data block ([Inv_link_grown] = Inv_set_dblock), exchange ([Inv_relink2])
     2.  per-operation results in weakest-precondition form (wp m w Q: m returns, never faults, and
         Q holds of the result); cbor_decref simulated on two heaps ([drain_sim]) for the general
         cbor_array_replace, which may release the overwritten element
     3.  [readable]: the items the serializer can traverse = those whose abstraction exists
     3b. [caps]: the capacity metadata of every container is consistent; preserved by every API
         call without any side condition ([step_caps]), so it is not part of the rules
     4.  client state, [legal], [own_after], C04_step (all 26 constructors of HHist.op)
     5.  histories: C04_history, C04_history_no_leak (final heap assumed acyclic)
     7.  the no-cycle rule [below_rule]; acyclicity is preserved ([step_acyclic]);
         C04_history_no_leak_acyclic (nothing assumed of the final heap)
     6.  a concrete history that follows all the rules ([ex_rules]), and one that does not *)
From CB Require Import Word Word_proofs PMem PMem_proofs PItem PItem_proofs HHeap HItems HOps HHist.
From CB Require Import HRef_proofs HCont_proofs HRead_proofs HLoad_proofs HCopy_proofs.
From Coq Require Import Lia ZArith ZifyBool ZifyN ZifyNat List.
Import ListNotations.
Local Open Scope N_scope.
Ltac Zify.zify_post_hook ::= Z.div_mod_to_equations.

Notation olist := HRef_proofs.opt_list.
Notation dblocks := HRef_proofs.dblocks.

Ltac eqb := repeat match goal with
  | |- context [N.eqb ?x ?y] => destruct (N.eqb_spec x y); subst
  | H : context [N.eqb ?x ?y] |- _ => destruct (N.eqb_spec x y); subst end.

(* ------------------------------------------------------------------------------------------ *)
(* 1. accounting lemmas                                                                        *)
(* ------------------------------------------------------------------------------------------ *)

(* cbor_incref, described pointwise: the client gains one reference *)
Lemma Inv_incr_pw own ownd w w' x rc n :
  Inv own ownd [] w -> heap w x = Some (CItem rc n) ->
  (forall b, heap w' b = upd (heap w) x (Some (CItem (rc + 1) n)) b) -> next w' = next w ->
  Inv (own1 own x) ownd [] w'.
Proof.
  intros I E Hh Hn.
  set (g := ghost (upd (heap w) x (Some (CItem (rc + 1) n))) (next w)).
  assert (Ig : Inv (own1 own x) ownd [] g).
  { unfold own1. eapply step_incr; [exact I|exact E|reflexivity|reflexivity]. }
  eapply Inv_heq; [exact Ig|exact Hh|cbn [next g ghost]; lia].
Qed.

(* a live item takes over the references [xs] from the client; its data blocks stay *)
Lemma Inv_link_same ownM own ownd g w' a rc n n' xs :
  Inv ownM ownd [] g -> heap g a = Some (CItem rc n) ->
  (forall y, ownM y = own y + cnt y xs) ->
  heap w' a = Some (CItem rc n') -> (forall b, b <> a -> heap w' b = heap g b) -> next w' = next g ->
  (forall y, cnt y (kids n') = cnt y (kids n) + cnt y xs) ->
  (forall y, cnt y (dblocks n') = cnt y (dblocks n)) ->
  Inv own ownd [] w'.
Proof.
  intros I E O Ea Ho Hn K D.
  eapply (Inv_relink ownM ownd own ownd g w' a rc n n' xs [] [] I E).
  - intros b. unfold upd. destruct (N.eqb_spec b a) as [->|Hne]; [exact Ea|apply Ho, Hne].
  - exact Hn.
  - exact K.
  - intros y. cbn [cnt]. rewrite D. lia.
  - intros y. rewrite O. lia.
  - intros y. cbn [cnt]. lia.
Qed.

(* ... and its data block [d] is replaced by a fresh block at [next g] (realloc): [Inv_set_dblock] *)
Lemma Inv_link_grown ownM own ownd g w' a rc n n' xs d sz :
  Inv ownM ownd [] g -> heap g a = Some (CItem rc n) ->
  (forall y, ownM y = own y + cnt y xs) ->
  (forall o, d = Some o -> In o (dblocks n)) ->
  heap w' a = Some (CItem rc n') -> heap w' (next g) = Some (CData sz) ->
  (forall o, d = Some o -> heap w' o = None) ->
  (forall b, b <> a -> b <> next g -> d <> Some b -> heap w' b = heap g b) ->
  next w' = next g + 1 ->
  (forall y, cnt y (kids n') = cnt y (kids n) + cnt y xs) ->
  (forall y, cnt y (dblocks n') + cnt y (olist d) = cnt y (dblocks n) + cnt y [next g]) ->
  Inv own ownd [] w'.
Proof.
  intros I E O Hd Ea En Eo Ho Hn K D.
  pose proof (live_lt _ _ _ _ _ _ I E) as La.
  pose proof (Inv_nil_pos _ _ _ _ _ _ I E) as Hrc.
  (* the fresh block, owned by the client for a moment *)
  set (g2 := ghost (upd (heap g) (next g) (Some (CData sz))) (next g + 1)).
  assert (I2 : Inv ownM (fun x => ownd x + (if x =? next g then 1 else 0)) [] g2).
  { eapply (Inv_alloc_data_pw ownM ownd g g2 sz I); reflexivity. }
  (* the item takes the references and the new block, and hands the old block to the client *)
  set (g3 := ghost (upd (heap g2) a (Some (CItem rc n'))) (next g + 1)).
  assert (E2 : heap g2 a = Some (CItem rc n)).
  { cbn [heap g2 ghost]. rewrite upd_other by lia. exact E. }
  assert (I3 : Inv own (fun y => ownd y + cnt y (olist d)) [] g3).
  { eapply (Inv_relink ownM _ own _ g2 g3 a rc n n' xs (olist d) [next g] I2 E2).
    - intros b. reflexivity.
    - reflexivity.
    - exact K.
    - exact D.
    - intros y. rewrite O. lia.
    - intros y. cbn [cnt]. eqb; lia. }
  destruct d as [o|].
  - (* the old block is released *)
    specialize (Hd o eq_refl).
    destruct (Inv_dblock_live ownM ownd [] g a rc n o I E ltac:(lia) Hd) as ((szo & Edo) & _ & _ & Oo & _).
    pose proof (live_lt _ _ _ _ _ _ I Edo) as Lo.
    assert (Hoa : o <> a) by (intros ->; rewrite E in Edo; discriminate).
    assert (E3 : heap g3 o = Some (CData szo)).
    { cbn [heap g3 g2 ghost]. rewrite !upd_other by lia. exact Edo. }
    eapply (Inv_free_data own _ ownd g3 w' o szo I3 E3).
    + cbn [olist cnt]. rewrite N.eqb_refl, Oo. reflexivity.
    + intros b. cbn [heap g3 g2 ghost]. unfold upd.
      destruct (N.eqb_spec b o) as [->|Hbo]; [apply Eo; reflexivity|].
      destruct (N.eqb_spec b a) as [->|Hba]; [exact Ea|].
      destruct (N.eqb_spec b (next g)) as [->|Hbn]; [exact En|].
      apply Ho; [exact Hba|exact Hbn|]. intros H. injection H as H. congruence.
    + rewrite Hn. reflexivity.
    + intros y. cbn [olist cnt]. eqb; lia.
  - eapply Inv_own_ext; [eapply (Inv_heq _ _ _ g3 w' I3)| |].
    + intros b. cbn [heap g3 g2 ghost]. unfold upd.
      destruct (N.eqb_spec b a) as [->|Hba]; [exact Ea|].
      destruct (N.eqb_spec b (next g)) as [->|Hbn]; [exact En|].
      apply Ho; [exact Hba|exact Hbn|discriminate].
    + rewrite Hn. cbn [next g3 ghost]. lia.
    + reflexivity.
    + intros y. cbn [olist cnt]. lia.
Qed.

(* a live item exchanges references with the client: it takes over [xs] and hands back [gs] *)
Lemma Inv_relink2 own ownd own' w w' a rc n n' xs gs :
  Inv own ownd [] w -> heap w a = Some (CItem rc n) ->
  (forall b, heap w' b = upd (heap w) a (Some (CItem rc n')) b) -> next w' = next w ->
  (forall x, cnt x (kids n') + cnt x gs = cnt x (kids n) + cnt x xs) ->
  (forall x, cnt x (dblocks n') = cnt x (dblocks n)) ->
  (forall x, own' x + cnt x xs = own x + cnt x gs) ->
  Inv own' ownd [] w'.
Proof.
  intros I E Hh Hn K D O.
  pose proof (live_lt _ _ _ _ _ _ I E) as Ha. pose proof (Inv_nil_pos _ _ _ _ _ _ I E) as Hrc.
  destruct I as [H1 H2].
  assert (ID : forall sel x, refs sel (heap w') (next w') x + cnt x (sel n) =
                             refs sel (heap w) (next w) x + cnt x (sel n')).
  { intros sel x. rewrite Hn.
    rewrite (refs_heq sel (upd (heap w) a (Some (CItem rc n'))) (heap w') (next w) (next w) x Hh (N.le_refl _)).
    2:{ intros b Hb. unfold upd. destruct (N.eqb_spec b a); [lia|]. apply H1. exact Hb. }
    pose proof (refs_upd sel (heap w) (next w) a (Some (CItem rc n')) x Ha) as P.
    rewrite E in P. cbn [selc] in P. destruct (N.eqb_spec rc 0); [lia|]. exact P. }
  split.
  - intros x Hx. rewrite Hh. rewrite Hn in Hx. unfold upd. destruct (N.eqb_spec x a); [lia|]. apply H1; assumption.
  - intros x. specialize (H2 x). pose proof (ID kids x) as IK. pose proof (ID dblocks x) as IDb.
    specialize (K x). specialize (D x). specialize (O x).
    unfold okcell, indeg, dindeg in *. cbn [pend tofree] in *.
    set (K' := refs kids (heap w') (next w') x) in *. set (D' := refs dblocks (heap w') (next w') x) in *.
    set (K0 := refs kids (heap w) (next w) x) in *. set (D0 := refs dblocks (heap w) (next w) x) in *.
    clearbody K' D' K0 D0. rewrite Hh. unfold upd. destruct (N.eqb_spec x a) as [->|Hne].
    + rewrite E in H2. lia.
    + destruct (heap w x) as [[rcx nx|sz]|]; lia.
Qed.

(* the world only enters [Inv] through its heap (pointwise) and its bump pointer *)
Lemma Inv_same own ownd w w' :
  Inv own ownd [] w -> (forall b, heap w' b = heap w b) -> next w <= next w' -> Inv own ownd [] w'.
Proof. apply Inv_heq. Qed.

Lemma own1_fresh own ownd w a :
  Inv own ownd [] w -> next w <= a -> forall x, (if x =? a then 1 else own x) = own1 own a x.
Proof.
  intros I Ha x. destruct (Inv_dead_own _ _ _ _ a I (Inv_wf _ _ _ _ I a Ha)) as [Oa _].
  unfold own1. destruct (N.eqb_spec x a) as [->|]; lia.
Qed.

(* reference counts are size_t values: a count can take one more reference *)
Definition rc_room (w : world) (x : addr) : Prop :=
  forall rc n, heap w x = Some (CItem rc n) -> rc + 1 < W64.

(* ---- cbor_incref / cbor_decref ---- *)

Lemma incref_Inv own ownd p w :
  Inv own ownd [] w -> 0 < own p -> rc_room w p ->
  wp (incref p) w (fun _ w' => Inv (own1 own p) ownd [] w').
Proof.
  intros I O R. destruct (Inv_owned_item _ _ _ _ I O) as (rc & n & E & _).
  destruct (incref_preserves own ownd p w rc n I E (R rc n E)) as (w' & H & _ & _ & _ & I').
  eapply wp_eq; [exact H|exact I'].
Qed.

Definition own_dec (own : addr -> N) (a : addr) : addr -> N :=
  fun x => own x - (if x =? a then 1 else 0).

Lemma decref_Inv own ownd p w :
  Inv own ownd [] w -> 0 < own p ->
  wp (decref p) w (fun _ w' => Inv (own_dec own p) ownd [] w' /\ subgraph w w' /\ next w' = next w).
Proof.
  intros I O.
  destruct (decref_ok (own_dec own p) own ownd p w) as (w' & H & I' & _).
  { intros x. unfold own_dec. destruct (N.eqb_spec x p) as [->|]; lia. }
  { exact I. }
  eapply wp_eq; [exact H|]. split; [exact I'|].
  unfold decref in H.
  destruct (drain_region 0 _ _ _ _ H) as (_ & _ & S & Hn).
  - repeat constructor. cbn [task_ge]. lia.
  - intros b rc n _ E. destruct (Inv_kids_lt _ _ _ _ _ _ I E) as [K D].
    split; intros k Hk; [specialize (K k Hk)|specialize (D k Hk)]; lia.
  - split; assumption.
Qed.


(* ---- operations that do not allocate ---- *)

(* the postcondition of a call that returns a new reference (NULL: nothing changes hands) *)
Definition ctor_Inv (own ownd : addr -> N) (r : option addr) (w' : world) : Prop :=
  Inv (match r with Some a => own1 own a | None => own end) ownd [] w'.

(* ---- a container takes one more reference (array_push, add_chunk) ---- *)

(* outcome of a push of [x] into the container [m] (count [rc], data block [d]); [nodeof d' c'] is
   the container's new node *)
Definition gpush_post (m : addr) (rc : N) (nodeof : option addr -> N -> node)
    (capinv : option addr -> N -> Prop)
    (w : world) (x : addr) (d : option addr) (rcx : N) (nx : node) (ok : bool) (w' : world) : Prop :=
  if ok then
    exists d' c', capinv d' c' /\
      heap w' m = Some (CItem rc (nodeof d' c')) /\
      heap w' x = Some (CItem (wrap64 (rcx + 1)) nx) /\
      ((d' = d /\ next w' = next w /\ forall b, b <> m -> b <> x -> heap w' b = heap w b) \/
       (d' = Some (next w) /\ next w' = next w + 1 /\ (exists sz, heap w' (next w) = Some (CData sz)) /\
        (forall o, d = Some o -> heap w' o = None) /\
        forall b, b <> m -> b <> x -> b <> next w -> d <> Some b -> heap w' b = heap w b))
  else (forall b, heap w' b = heap w b) /\ next w' = next w.

(* [Inv_add_kid]: the container gains one occurrence of [x] among its kids while the count of [x]
   goes up by one (and possibly its data block is replaced): same client ownership *)
Lemma gpush_Inv own ownd m rc n nodeof capinv w x d rcx nx ok w' extra :
  Inv own ownd [] w -> m <> x ->
  heap w m = Some (CItem rc n) -> heap w x = Some (CItem rcx nx) -> rcx + 1 < W64 ->
  dblocks n = olist d ++ extra ->
  (forall d' c' y, cnt y (kids (nodeof d' c')) = cnt y (kids n) + cnt y [x]) ->
  (forall d' c', dblocks (nodeof d' c') = olist d' ++ extra) ->
  gpush_post m rc nodeof capinv w x d rcx nx ok w' -> Inv own ownd [] w'.
Proof.
  intros I Hmx Em Ex Hr Dn K Dn' P. destruct ok; cbn [gpush_post] in P.
  2:{ destruct P as [Hh Hn]. eapply Inv_same; [exact I|exact Hh|lia]. }
  destruct P as (d' & c' & _ & Em' & Ex' & P).
  rewrite wrap64_small in Ex' by exact Hr.
  set (g := ghost (upd (heap w) x (Some (CItem (rcx + 1) nx))) (next w)).
  assert (Ig : Inv (own1 own x) ownd [] g).
  { eapply (Inv_incr_pw own ownd w g x rcx nx I Ex); reflexivity. }
  assert (Eg : heap g m = Some (CItem rc n)).
  { cbn [heap g ghost]. rewrite upd_other by exact Hmx. exact Em. }
  assert (OM : forall y, own1 own x y = own y + cnt y [x]).
  { intros y. unfold own1. cbn [cnt]. eqb; lia. }
  assert (Hg : forall b, b <> x -> heap g b = heap w b).
  { intros b Hb. cbn [heap g ghost]. apply upd_other. exact Hb. }
  assert (Hgx : heap g x = Some (CItem (rcx + 1) nx)).
  { cbn [heap g ghost]. apply upd_same. }
  destruct P as [(-> & Hn & Ho)|(-> & Hn & (sz & En) & Eo & Ho)].
  - eapply (Inv_link_same (own1 own x) own ownd g w' m rc n (nodeof d c') [x] Ig Eg OM Em').
    + intros b Hb. destruct (N.eq_dec b x) as [->|Hbx]; [rewrite Hgx; exact Ex'|].
      rewrite Hg by exact Hbx. apply Ho; assumption.
    + exact Hn.
    + apply K.
    + intros y. rewrite Dn', Dn. reflexivity.
  - eapply (Inv_link_grown (own1 own x) own ownd g w' m rc n (nodeof (Some (next w)) c') [x] d sz Ig Eg OM).
    + intros o ->. rewrite Dn. cbn [olist app]. left. reflexivity.
    + exact Em'.
    + exact En.
    + exact Eo.
    + intros b B1 B2 B3. cbn [next g ghost] in B2.
      destruct (N.eq_dec b x) as [->|Hbx]; [rewrite Hgx; exact Ex'|].
      rewrite Hg by exact Hbx. apply Ho; assumption.
    + exact Hn.
    + apply K.
    + intros y. rewrite Dn', Dn, !cnt_app. cbn [next g ghost olist cnt]. lia.
Qed.

(* the data blocks of a live item are live data blocks, each listed once *)
Lemma Inv_blocks own ownd w p rc n :
  Inv own ownd [] w -> heap w p = Some (CItem rc n) ->
  forall b, In b (dblocks n) -> is_data w b /\ cnt b (dblocks n) = 1.
Proof.
  intros I E b Hb. pose proof (Inv_nil_pos _ _ _ _ _ _ I E) as Hrc.
  destruct (Inv_dblock_live own ownd [] w p rc n b I E ltac:(lia) Hb) as (Hd & Hc & _). split; assumption.
Qed.

Lemma kids_map_snoc indef d c d' c' l k v y :
  cnt y (kids (NMap indef d' c' (l ++ [(k, Some v)]))) = cnt y (kids (NMap indef d c l)) + cnt y [k; v].
Proof. cbn [kids]. rewrite flat_map_app, cnt_app. reflexivity. Qed.

(* ---- tags ---- *)

Lemma tag_set_Inv own ownd p q w rc v :
  Inv own ownd [] w -> heap w p = Some (CItem rc (NTag v None)) -> 0 < own q -> rc_room w q -> p <> q ->
  wp (tag_set_item p q) w (fun _ w' => Inv own ownd [] w').
Proof.
  intros I Ep Oq Rq Hpq. destruct (Inv_owned_item _ _ _ _ I Oq) as (rcq & nq & Eq & _).
  unfold tag_set_item. apply wp_bind. eapply wp_eq; [apply incref_spec; exact Eq|].
  set (w1 := w_incref q rcq nq w).
  assert (E1 : heap w1 p = Some (CItem rc (NTag v None))).
  { subst w1. wsimpl. rewrite upd_other by exact Hpq. exact Ep. }
  apply wp_bind. eapply wp_eq; [apply rd_item_spec; exact E1|]. cbn [fst snd].
  eapply wp_eq; [eapply wr_item_spec; wsimpl; exact E1|].
  set (g := ghost (upd (heap w) q (Some (CItem (rcq + 1) nq))) (next w)).
  assert (Ig : Inv (own1 own q) ownd [] g).
  { eapply (Inv_incr_pw own ownd w g q rcq nq I Eq); reflexivity. }
  eapply (Inv_link_same (own1 own q) own ownd g _ p rc (NTag v None) (NTag v (Some q)) [q] Ig).
  - cbn [heap g ghost]. rewrite upd_other by exact Hpq. exact Ep.
  - intros y. unfold own1. cbn [cnt]. eqb; lia.
  - wsimpl. apply upd_same.
  - intros b Hb. subst w1. wsimpl. rewrite upd_other by exact Hb. cbn [heap g ghost].
    rewrite wrap64_small by (eapply Rq; exact Eq). reflexivity.
  - reflexivity.
  - intros y. reflexivity.
  - intros y. reflexivity.
Qed.

Lemma tag_item_Inv own ownd p w rc v x :
  Inv own ownd [] w -> heap w p = Some (CItem rc (NTag v (Some x))) -> rc_room w x ->
  wp (tag_item p) w (fun r w' => r = x /\ Inv (own1 own x) ownd [] w').
Proof.
  intros I Ep Rx. pose proof (Inv_nil_pos _ _ _ _ _ _ I Ep) as Hrc.
  destruct (Inv_kid_live own ownd [] w p rc _ x I Ep ltac:(lia) ltac:(left; reflexivity)) as (rcx & nx & Ex & _).
  unfold tag_item. apply wp_bind. eapply wp_eq; [apply rd_item_spec; exact Ep|]. cbn [fst snd].
  eapply wp_eq; [apply incref_spec; wsimpl; exact Ex|]. split; [reflexivity|].
  eapply (Inv_incr_pw own ownd w _ x rcx nx I Ex).
  - intros b. wsimpl. rewrite wrap64_small by (eapply Rx; exact Ex). reflexivity.
  - reflexivity.
Qed.

(* ---- cbor_array_get ---- *)

Lemma array_get_Inv own ownd p i w rc indef d c l :
  Inv own ownd [] w -> heap w p = Some (CItem rc (NArr indef d c l)) -> capinvA indef d c l ->
  (forall e, nth_error l (N.to_nat i) = Some e -> rc_room w e) ->
  wp (array_get p i) w (ctor_Inv own ownd).
Proof.
  intros I Ep Cap Re. pose proof (Inv_nil_pos _ _ _ _ _ _ I Ep) as Hrc.
  destruct (N.le_gt_cases (len l) i) as [L|L].
  - eapply wp_eq; [eapply get_out_of_range; [exact Ep|exact L]|].
    unfold ctor_Inv. eapply Inv_same; [exact I|reflexivity|wsimpl; lia].
  - assert (Hd : exists o, d = Some o).
    { destruct indef; cbn [capinvA] in Cap; [|exact Cap]. destruct Cap as (C1 & C2 & C3).
      destruct d as [o|]; [eauto|]. specialize (C1 eq_refl). lia. }
    destruct Hd as [o ->].
    destruct (Inv_blocks _ _ _ _ _ _ I Ep o ltac:(left; reflexivity)) as [(sz & Eo) _].
    destruct (nth_error_in_range l i L) as [e He].
    destruct (Inv_kid_live own ownd [] w p rc _ e I Ep ltac:(lia) (nth_error_In _ _ He)) as (rce & ne & Ee & _).
    eapply wp_eq; [eapply get_in_range; eassumption|].
    unfold ctor_Inv. eapply (Inv_incr_pw own ownd w _ e rce ne I Ee).
    + intros b. wsimpl. rewrite wrap64_small by (eapply Re; [exact He|exact Ee]). reflexivity.
    + reflexivity.
Qed.

Lemma cnt_set_nth (l : list addr) v : forall i old y,
  nth_error l i = Some old -> cnt y (set_nth l i v) + cnt y [old] = cnt y l + cnt y [v].
Proof.
  induction l as [|z l IH]; intros i old y H; [destruct i; discriminate H|].
  destruct i as [|j]; cbn [nth_error] in H.
  - injection H as ->. cbn [set_nth cnt]. lia.
  - cbn [set_nth cnt]. specialize (IH j old y H). cbn [cnt] in IH. lia.
Qed.

Lemma len_set_nth {X} (l : list X) v : forall i, len (set_nth l i v) = len l.
Proof.
  unfold len. induction l as [|z l IH]; intros i; [reflexivity|].
  destruct i; cbn [set_nth length]; [reflexivity|]. specialize (IH i). lia.
Qed.

(* ------------------------------------------------------------------------------------------ *)
(* cbor_decref run on two heaps that differ in the node of one client-owned item [p] and in    *)
(* the count of one client-owned item [q] held by [p]: the two runs proceed in lockstep         *)
(* ------------------------------------------------------------------------------------------ *)
Section Sim.
Variables own ownd : addr -> N.
Variables p q : addr.
Variables n1 n2 nq : node.
Hypothesis Hpq : p <> q.
Hypothesis Op : 0 < own p.
Hypothesis Oq : 0 < own q.
Hypothesis Kq : In q (kids n1).

Definition simR (w1 w2 : world) : Prop :=
  next w2 = next w1 /\
  (forall b, b <> p -> b <> q -> heap w2 b = heap w1 b) /\
  (exists rcp, heap w1 p = Some (CItem rcp n1) /\ heap w2 p = Some (CItem rcp n2)) /\
  (exists rcq, heap w1 q = Some (CItem (rcq + 1) nq) /\ heap w2 q = Some (CItem rcq nq)).

Lemma sim_p_facts ts w1 rcp : Inv own ownd ts w1 -> heap w1 p = Some (CItem rcp n1) ->
  0 < rcp /\ tofree p ts = 0 /\ pend p ts < rcp.
Proof.
  intros [_ H2] E. specialize (H2 p). unfold okcell in H2. rewrite E in H2.
  destruct H2 as (_ & _ & [H|H]); lia.
Qed.

Lemma sim_q_facts ts w1 rcp rcq : Inv own ownd ts w1 ->
  heap w1 p = Some (CItem rcp n1) -> heap w1 q = Some (CItem (rcq + 1) nq) ->
  tofree q ts = 0 /\ pend q ts + 2 <= rcq + 1.
Proof.
  intros I Ep Eq. destruct (sim_p_facts ts w1 rcp I Ep) as (Hp & _ & _).
  pose proof (live_lt _ _ _ _ _ _ I Ep) as Lp. destruct I as [_ H2].
  pose proof (refs_ge kids (heap w1) (next w1) p q Lp) as G. rewrite Ep in G. cbn [selc] in G.
  destruct (N.eqb_spec rcp 0); [lia|]. apply cnt_pos_in in Kq.
  specialize (H2 q). unfold okcell, indeg in H2. rewrite Eq in H2.
  destruct H2 as (_ & _ & [H|H]); lia.
Qed.

Lemma drain_sim : forall fuel ts w1 w2 w1',
  Inv own ownd ts w1 -> simR w1 w2 -> drain fuel ts w1 = Ret tt w1' ->
  exists w2', drain fuel ts w2 = Ret tt w2' /\ simR w1' w2'.
Proof.
  induction fuel as [|f IH]; intros ts w1 w2 w1' I R H.
  { destruct ts; cbn [drain] in *; [|discriminate H]. unfold ret in H. injection H as <-. eauto. }
  destruct ts as [|t r].
  { rewrite drain_nil in *. injection H as <-. eauto. }
  pose proof R as (Rn & Ro & (rcp & Ep1 & Ep2) & (rcq & Eq1 & Eq2)).
  destruct (sim_p_facts _ _ _ I Ep1) as (Pp & Tp & Dp).
  destruct (sim_q_facts _ _ _ _ I Ep1 Eq1) as (Tq & Dq).
  destruct t as [a|[a|]|a].
  - (* TDecref a *)
    cbn [pend] in Dp, Dq.
    destruct (N.eq_dec a p) as [->|Hap]; [|destruct (N.eq_dec a q) as [->|Haq]].
    + rewrite N.eqb_refl in Dp.
      rewrite (drain_decref_eq f p r w1 rcp n1 Ep1 Pp) in H.
      rewrite (drain_decref_eq f p r w2 rcp n2 Ep2 Pp).
      destruct (N.eqb_spec rcp 1); [lia|].
      eapply IH; [|.. |exact H].
      * eapply (step_gt1 own ownd p r w1 _ rcp n1 I Ep1); [lia|reflexivity|reflexivity].
      * unfold simR, w_wr, w_rd. cbn [heap next]. split; [exact Rn|]. split.
        { intros b B1 B2. rewrite !upd_other by exact B1. apply Ro; assumption. }
        split.
        { exists (rcp - 1). rewrite !upd_same. auto. }
        { exists rcq. rewrite !upd_other by congruence. auto. }
    + rewrite N.eqb_refl in Dq.
      assert (Hq1 : 0 < rcq + 1) by lia. assert (Hq2 : 0 < rcq) by lia.
      rewrite (drain_decref_eq f q r w1 (rcq + 1) nq Eq1 Hq1) in H.
      rewrite (drain_decref_eq f q r w2 rcq nq Eq2 Hq2).
      destruct (N.eqb_spec (rcq + 1) 1); [lia|]. destruct (N.eqb_spec rcq 1); [lia|].
      eapply IH; [|.. |exact H].
      * eapply (step_gt1 own ownd q r w1 _ (rcq + 1) nq I Eq1); [lia|reflexivity|reflexivity].
      * unfold simR, w_wr, w_rd. cbn [heap next]. split; [exact Rn|]. split.
        { intros b B1 B2. rewrite !upd_other by exact B2. apply Ro; assumption. }
        split.
        { exists rcp. rewrite !upd_other by congruence. auto. }
        { exists (rcq - 1). rewrite !upd_same. split; [|reflexivity]. do 2 f_equal. lia. }
    + destruct (head_decref_live _ _ _ _ _ I) as (rc & n & E1 & Hrc).
      assert (E2 : heap w2 a = Some (CItem rc n)) by (rewrite Ro by assumption; exact E1).
      rewrite (drain_decref_eq f a r w1 rc n E1 Hrc) in H.
      rewrite (drain_decref_eq f a r w2 rc n E2 Hrc).
      assert (RR : forall c, simR (w_wr a c (w_rd a w1)) (w_wr a c (w_rd a w2))).
      { intros c. unfold simR, w_wr, w_rd. cbn [heap next]. split; [exact Rn|]. split.
        { intros b B1 B2. unfold upd. destruct (N.eqb_spec b a); [reflexivity|]. apply Ro; assumption. }
        split.
        { exists rcp. rewrite !upd_other by congruence. auto. }
        { exists rcq. rewrite !upd_other by congruence. auto. } }
      destruct (N.eqb_spec rc 1) as [->|Hne].
      * eapply IH; [|apply RR|exact H].
        eapply (step_eq1 own ownd a r w1 _ n I E1); reflexivity.
      * eapply IH; [|apply RR|exact H].
        eapply (step_gt1 own ownd a r w1 _ rc n I E1); [lia|reflexivity|reflexivity].
  - (* TFreeData (Some a) *)
    assert (T : forall x, tofree x (TFreeData (Some a) :: r) = (if a =? x then 1 else 0) + tofree x r) by reflexivity.
    destruct (head_free_live _ _ _ _ _ _ T I) as [c E1].
    assert (Hap : a <> p) by (intros ->; rewrite T, N.eqb_refl in Tp; lia).
    assert (Haq : a <> q) by (intros ->; rewrite T, N.eqb_refl in Tq; lia).
    assert (E2 : heap w2 a = Some c) by (rewrite Ro by assumption; exact E1).
    rewrite (drain_free_data_eq f a r w1 c E1) in H. rewrite (drain_free_data_eq f a r w2 c E2).
    eapply IH; [| |exact H].
    + eapply (step_free own ownd _ a r w1); [|exact T|exact I|reflexivity|reflexivity]. reflexivity.
    + unfold simR, HRef_proofs.w_free. cbn [heap next]. split; [exact Rn|]. split.
      { intros b B1 B2. unfold upd. destruct (N.eqb_spec b a); [reflexivity|]. apply Ro; assumption. }
      split.
      { exists rcp. rewrite !upd_other by congruence. auto. }
      { exists rcq. rewrite !upd_other by congruence. auto. }
  - (* TFreeData None *)
    rewrite drain_free_none_eq in H. rewrite drain_free_none_eq.
    eapply IH; [| |exact H].
    + eapply Inv_ext; [| | | |exact I]; reflexivity.
    + unfold simR, HRef_proofs.w_free. cbn [heap next]. split; [exact Rn|]. split; [exact Ro|]. split; eauto.
  - (* TFreeItem a *)
    assert (T : forall x, tofree x (TFreeItem a :: r) = (if a =? x then 1 else 0) + tofree x r) by reflexivity.
    destruct (head_free_live _ _ _ _ _ _ T I) as [c E1].
    assert (Hap : a <> p) by (intros ->; rewrite T, N.eqb_refl in Tp; lia).
    assert (Haq : a <> q) by (intros ->; rewrite T, N.eqb_refl in Tq; lia).
    assert (E2 : heap w2 a = Some c) by (rewrite Ro by assumption; exact E1).
    rewrite (drain_free_item_eq f a r w1 c E1) in H. rewrite (drain_free_item_eq f a r w2 c E2).
    eapply IH; [| |exact H].
    + eapply (step_free own ownd _ a r w1); [|exact T|exact I|reflexivity|reflexivity]. reflexivity.
    + unfold simR, HRef_proofs.w_free. cbn [heap next]. split; [exact Rn|]. split.
      { intros b B1 B2. unfold upd. destruct (N.eqb_spec b a); [reflexivity|]. apply Ro; assumption. }
      split.
      { exists rcp. rewrite !upd_other by congruence. auto. }
      { exists rcq. rewrite !upd_other by congruence. auto. }
Qed.

End Sim.

(* cbor_decref never raises a count and never changes a node *)
Definition heap_le (w w' : world) : Prop :=
  forall a rc' n, heap w' a = Some (CItem rc' n) -> exists rc, heap w a = Some (CItem rc n) /\ rc' <= rc.

Lemma heap_le_refl w : heap_le w w.
Proof. intros a rc n E. exists rc. split; [exact E|lia]. Qed.
Lemma heap_le_trans w1 w2 w3 : heap_le w1 w2 -> heap_le w2 w3 -> heap_le w1 w3.
Proof.
  intros H1 H2 a rc3 n E3. destruct (H2 _ _ _ E3) as (rc2 & E2 & L2). destruct (H1 _ _ _ E2) as (rc1 & E1 & L1).
  exists rc1. split; [exact E1|lia].
Qed.

Lemma drain_le : forall fuel ts w w', drain fuel ts w = Ret tt w' -> heap_le w w'.
Proof.
  induction fuel as [|f IH]; intros ts w w' H.
  { destruct ts; cbn [drain] in H; [|discriminate H]. injection H as <-. apply heap_le_refl. }
  destruct ts as [|[a|p|a] r]; cbn [drain] in H.
  - injection H as <-. apply heap_le_refl.
  - apply bind_inv in H. destruct H as ([rc n] & w1 & E1 & H). apply rd_item_ret in E1. destruct E1 as [Ea ->].
    cbn [fst snd] in H. apply bind_inv in H. destruct H as (u & w2 & E2 & H).
    destruct (N.ltb_spec 0 rc) as [Hrc|]; cbn [assert_] in E2; [|discriminate E2]. injection E2 as _ <-.
    assert (St : forall rc1, rc1 <= rc -> forall w3, heap w3 = upd (heap w) a (Some (CItem rc1 n)) -> heap_le w w3).
    { intros rc1 L1 w3 H3 b rcb nb Eb. rewrite H3 in Eb. unfold upd in Eb. destruct (N.eqb_spec b a) as [->|].
      - injection Eb as <- <-. eauto.
      - exists rcb. split; [exact Eb|lia]. }
    destruct (rc =? 1).
    + apply bind_inv in H. destruct H as ([] & w3 & E3 & H). apply wr_item_ret in E3. destruct E3 as [_ ->].
      eapply heap_le_trans; [|eapply IH; exact H]. apply (St 0); [lia|reflexivity].
    + apply bind_inv in H. destruct H as ([] & w3 & E3 & H). apply wr_item_ret in E3. destruct E3 as [_ ->].
      eapply heap_le_trans; [|eapply IH; exact H]. apply (St (sub64 rc 1)); [rewrite sub64_le by lia; lia|reflexivity].
  - apply bind_inv in H. destruct H as (u & w1 & E1 & H).
    eapply heap_le_trans; [|eapply IH; exact H].
    intros b rcb nb Eb. unfold free in E1. destruct p as [d|].
    + destruct (heap w d); [|discriminate E1]. injection E1 as _ <-. cbn [heap] in Eb. unfold upd in Eb.
      destruct (N.eqb_spec b d); [discriminate Eb|]. exists rcb. split; [exact Eb|lia].
    + injection E1 as _ <-. exists rcb. split; [exact Eb|lia].
  - apply bind_inv in H. destruct H as (u & w1 & E1 & H).
    eapply heap_le_trans; [|eapply IH; exact H].
    intros b rcb nb Eb. unfold free in E1.
    destruct (heap w a); [|discriminate E1]. injection E1 as _ <-. cbn [heap] in Eb. unfold upd in Eb.
    destruct (N.eqb_spec b a); [discriminate Eb|]. exists rcb. split; [exact Eb|lia].
Qed.

Lemma drain_fuel_same w1 w2 :
  next w2 = next w1 ->
  (forall b, match heap w2 b with Some (CItem _ n) => 4 + node_links n | _ => 0 end =
             match heap w1 b with Some (CItem _ n) => 4 + node_links n | _ => 0 end) ->
  drain_fuel w2 = drain_fuel w1.
Proof.
  intros Hn H. apply Nat2N.inj. rewrite !drain_fuel_eq, Hn. f_equal. apply sumN_ext. intros b _. apply H.
Qed.

Lemma in_set_nth {X} (l : list X) v : forall i, (i < length l)%nat -> In v (set_nth l i v).
Proof.
  induction l as [|z l IH]; intros i Hi; [cbn in Hi; lia|].
  destruct i; cbn [set_nth]; [left; reflexivity|right; apply IH; cbn in Hi; lia].
Qed.

(* ------------------------------------------------------------------------------------------ *)
(* references between items: vocabulary for the no-cycle rule (section 7)                      *)
(* ------------------------------------------------------------------------------------------ *)

(* [a] holds a reference to [k] *)
Definition edge (w : world) (a k : addr) : Prop :=
  exists rc n, heap w a = Some (CItem rc n) /\ rc <> 0 /\ In k (kids n).
(* [rank] is a topological order of the containment graph *)
Definition ranks (w : world) (rank : addr -> nat) : Prop :=
  forall a k, edge w a k -> (rank k < rank a)%nat.

Lemma acyclic_ranks w : acyclic w <-> exists rank, ranks w rank.
Proof.
  split; intros [rank H]; exists rank.
  - intros a k (rc & n & E & R & K). eapply H; eassumption.
  - intros a rc n E R k K. apply H. exists rc, n. auto.
Qed.

(* every reference of [w'] is a reference of [w] or one of [New] *)
Definition edges_sub (New : addr -> addr -> Prop) (w w' : world) : Prop :=
  forall a k, edge w' a k -> edge w a k \/ New a k.
Definition no_new : addr -> addr -> Prop := fun _ _ => False.

Lemma ranks_sub New w w' rank :
  ranks w rank -> edges_sub New w w' -> (forall a k, New a k -> (rank k < rank a)%nat) -> ranks w' rank.
Proof. intros H S N a k E. destruct (S a k E) as [E0|E0]; [apply H, E0|apply N, E0]. Qed.

Lemma edges_sub_heq New w w1 w' :
  (forall b, heap w1 b = heap w b) -> edges_sub New w1 w' -> edges_sub New w w'.
Proof.
  intros Hh S a k E. destruct (S a k E) as [(rc & n & E0 & R & K)|E0]; [left|right; exact E0].
  exists rc, n. rewrite <- Hh. auto.
Qed.

Lemma edges_sub_same w w' : (forall b, heap w' b = heap w b) -> edges_sub no_new w w'.
Proof. intros Hh a k (rc & n & E & R & K). left. exists rc, n. rewrite <- Hh. auto. Qed.

Lemma edges_sub_weaken (N1 N2 : addr -> addr -> Prop) w w' :
  edges_sub N1 w w' -> (forall a k, N1 a k -> N2 a k) -> edges_sub N2 w w'.
Proof. intros S H a k E. destruct (S a k E); [left|right]; auto. Qed.

Lemma edges_sub_trans N1 N2 w w1 w2 :
  edges_sub N1 w w1 -> edges_sub N2 w1 w2 -> edges_sub (fun a k => N1 a k \/ N2 a k) w w2.
Proof.
  intros S1 S2 a k E. destruct (S2 a k E) as [E1|E1]; [|right; right; exact E1].
  destruct (S1 a k E1) as [E0|E0]; [left; exact E0|right; left; exact E0].
Qed.

(* only the count of [x] changes *)
Lemma edges_sub_rc w w' x rc rc' n :
  heap w x = Some (CItem rc n) -> rc <> 0 ->
  (forall b, heap w' b = upd (heap w) x (Some (CItem rc' n)) b) -> edges_sub no_new w w'.
Proof.
  intros Ex R Hh a k (rca & na & E & Ra & K). left. rewrite Hh in E. unfold upd in E.
  destruct (N.eqb_spec a x) as [->|_].
  - injection E as <- <-. exists rc, n. auto.
  - exists rca, na. auto.
Qed.

(* cbor_decref: nodes are kept or released *)
Lemma edges_sub_subgraph own ownd w w' :
  Inv own ownd [] w -> subgraph w w' -> edges_sub no_new w w'.
Proof.
  intros I S a k (rc & n & E & R & K). left. destruct (S _ _ _ E) as [rc0 E0].
  exists rc0, n. split; [exact E0|]. split; [|exact K].
  pose proof (Inv_nil_pos _ _ _ _ _ _ I E0). lia.
Qed.

(* a fresh item with no references; data blocks hold none *)
Lemma edges_sub_fresh1 w w' n : wf w -> kids n = [] ->
  (forall b, heap w' b = upd (heap w) (next w) (Some (CItem 1 n)) b) -> edges_sub no_new w w'.
Proof.
  intros Hwf K Hh a k (rc & na & E & R & Ka). left. rewrite Hh in E. unfold upd in E.
  destruct (N.eqb_spec a (next w)) as [->|_].
  - injection E as <- <-. rewrite K in Ka. destruct Ka.
  - exists rc, na. auto.
Qed.

Lemma edges_sub_fresh2 w w' n sz : wf w -> kids n = [] ->
  (forall b, heap w' b = upd (upd (heap w) (next w) (Some (CItem 1 n))) (next w + 1) (Some (CData sz)) b) ->
  edges_sub no_new w w'.
Proof.
  intros Hwf K Hh a k (rc & na & E & R & Ka). left. rewrite Hh in E. unfold upd in E.
  destruct (N.eqb_spec a (next w + 1)) as [->|_]; [discriminate E|].
  destruct (N.eqb_spec a (next w)) as [->|_].
  - injection E as <- <-. rewrite K in Ka. destruct Ka.
  - exists rc, na. auto.
Qed.

Lemma in_set_nth_inv {X} (l : list X) v : forall i k, In k (set_nth l i v) -> k = v \/ In k l.
Proof.
  induction l as [|z l IH]; intros i k H; [destruct i; destruct H|].
  destruct i; cbn [set_nth In] in *.
  - destruct H as [<-|H]; auto.
  - destruct H as [<-|H]; [auto|]. destruct (IH _ _ H); auto.
Qed.

(* cbor_array_replace in general: the overwritten element may be released by the call *)
Lemma array_replace_full own ownd p i q w rc indef d c l :
  Inv own ownd [] w -> heap w p = Some (CItem rc (NArr indef d c l)) -> capinvA indef d c l ->
  0 < own p -> 0 < own q -> rc_room w q -> p <> q ->
  (forall old, nth_error l (N.to_nat i) = Some old -> old <> p) ->
  wp (array_replace p i q) w (fun _ w' => Inv own ownd [] w' /\ edges_sub (fun a k => a = p /\ k = q) w w').
Proof.
  intros I Ep Cap Op Oq Rq Hpq Hself. pose proof (Inv_nil_pos _ _ _ _ _ _ I Ep) as Hrc.
  destruct (Inv_owned_item _ _ _ _ I Oq) as (rcq & nq & Eq & Pq).
  destruct (N.le_gt_cases (len l) i) as [L|L].
  { eapply wp_eq; [eapply replace_out_of_range; [exact Ep|exact L]|]. split.
    - eapply Inv_same; [exact I|reflexivity|wsimpl; lia].
    - eapply edges_sub_weaken; [apply edges_sub_same; reflexivity|intros ? ? []]. }
  assert (Hd : exists o, d = Some o).
  { destruct indef; cbn [capinvA] in Cap; [|exact Cap]. destruct Cap as (C1 & C2 & C3).
    destruct d as [o|]; [eauto|]. specialize (C1 eq_refl). lia. }
  destruct Hd as [o ->].
  destruct (Inv_blocks _ _ _ _ _ _ I Ep o ltac:(left; reflexivity)) as [(sz & Eo) _].
  destruct (nth_error_in_range l i L) as [old Hold].
  pose proof (Hself old Hold) as Hop.
  set (n1 := NArr indef (Some o) c l) in *.
  set (n2 := NArr indef (Some o) c (set_nth l (N.to_nat i) q)).
  (* the world in which the store and the incref have already happened *)
  set (g1 := ghost (upd (heap w) q (Some (CItem (rcq + 1) nq))) (next w)).
  assert (I1 : Inv (own1 own q) ownd [] g1).
  { eapply (Inv_incr_pw own ownd w g1 q rcq nq I Eq); reflexivity. }
  set (gx := ghost (upd (heap g1) p (Some (CItem rc n2))) (next w)).
  assert (Ix : Inv (own1 own old) ownd [] gx).
  { eapply (Inv_relink2 (own1 own q) ownd (own1 own old) g1 gx p rc n1 n2 [q] [old] I1).
    - cbn [heap g1 ghost]. rewrite upd_other by exact Hpq. exact Ep.
    - intros b. reflexivity.
    - reflexivity.
    - intros y. subst n1 n2. cbn [kids]. apply cnt_set_nth. exact Hold.
    - intros y. reflexivity.
    - intros y. unfold own1. cbn [cnt]. eqb; lia. }
  destruct (decref_ok own (own1 own old) ownd old gx ltac:(intros y; reflexivity) Ix) as (gx' & D & Ix' & _).
  (* the real world at the time of the cbor_decref *)
  set (w0 := w_log (AccR o) (w_log (AccR p) w)).
  assert (Kq : In q (kids n2)).
  { subst n2. cbn [kids]. apply in_set_nth. unfold len in L. lia. }
  assert (R0 : simR p q n2 n1 nq gx w0).
  { unfold simR. subst gx g1 w0. cbn [heap next ghost]. wsimpl. split; [reflexivity|]. split.
    - intros b B1 B2. rewrite !upd_other by assumption. reflexivity.
    - split.
      + exists rc. rewrite upd_same. auto.
      + exists rcq. rewrite upd_other by congruence. rewrite upd_same. auto. }
  assert (Fu : drain_fuel w0 = drain_fuel gx).
  { apply drain_fuel_same; [reflexivity|]. intros b. subst gx g1 w0. cbn [heap ghost]. wsimpl. unfold upd.
    destruct (N.eqb_spec b p) as [->|]; [rewrite Ep; subst n1 n2; cbn [node_links]; rewrite len_set_nth; reflexivity|].
    destruct (N.eqb_spec b q) as [->|]; [rewrite Eq; reflexivity|reflexivity]. }
  unfold decref in D.
  destruct (drain_sim own ownd p q n2 n1 nq Hpq Op Oq Kq _ _ gx w0 gx'
              (Inv_give own (own1 own old) ownd old gx ltac:(intros y; reflexivity) Ix) R0 D) as (w1 & D0 & R1).
  rewrite <- Fu in D0.
  destruct R1 as (Rn & Ro & (rcp' & Ep1 & Ep2) & (rcq' & Eq1 & Eq2)).
  (* counts have not grown *)
  destruct (drain_le _ _ _ _ D q _ _ Eq1) as (rcq0 & Eq0 & Lq).
  assert (Hq0 : rcq0 = rcq + 1).
  { subst gx g1. cbn [heap ghost] in Eq0. rewrite upd_other in Eq0 by congruence. rewrite upd_same in Eq0. congruence. }
  assert (Wq : wrap64 (rcq' + 1) = rcq' + 1).
  { apply wrap64_small. pose proof (Rq _ _ Eq). lia. }
  (* the array's block is still there *)
  destruct (Inv_blocks _ _ _ _ _ _ Ix' Ep1 o ltac:(left; reflexivity)) as [(sz' & Eo') _].
  assert (Eo1 : heap w1 o = Some (CData sz')).
  { rewrite Ro; [exact Eo'| |]; intros ->; congruence. }
  (* run *)
  unfold array_replace. apply wp_bind. eapply wp_eq; [apply rd_item_spec; exact Ep|]. cbn [fst snd].
  subst n1. cbn iota. destruct (N.leb_spec (len l) i) as [|_]; [lia|].
  apply wp_bind. eapply wp_eq; [eapply touch_data_spec; wsimpl; exact Eo|].
  rewrite Hold.
  apply wp_bind. eapply wp_eq; [exact D0|].
  apply wp_bind. eapply wp_eq; [apply incref_spec; exact Eq2|].
  apply wp_bind. eapply wp_eq.
  { apply rd_item_spec. wsimpl. rewrite upd_other by exact Hpq. exact Ep2. }
  cbn [fst snd].
  apply wp_bind. eapply wp_eq.
  { eapply touch_data_spec. wsimpl. rewrite upd_other; [exact Eo1|]. intros ->. congruence. }
  apply wp_bind. eapply wp_eq.
  { eapply wr_item_spec. wsimpl. rewrite upd_other by exact Hpq. exact Ep2. }
  apply wp_ret.
  match goal with |- Inv _ _ _ ?w3 /\ _ => set (wf3 := w3) end.
  assert (Hfin : forall b, heap wf3 b = heap gx' b).
  { intros b. subst wf3. wsimpl. unfold upd.
    destruct (N.eqb_spec b p) as [->|Hbp]; [symmetry; exact Ep1|].
    destruct (N.eqb_spec b q) as [->|Hbq]; [rewrite Wq; symmetry; exact Eq1|].
    apply Ro; assumption. }
  split.
  - eapply (Inv_same own ownd gx' _ Ix'); [exact Hfin|]. subst wf3. wsimpl. lia.
  - intros a k (rca & na & E & Ra & Ka). rewrite Hfin in E.
    destruct (drain_le _ _ _ _ D a _ _ E) as (rc0 & E0 & L0).
    subst gx g1. cbn [heap ghost] in E0. unfold upd in E0.
    destruct (N.eqb_spec a p) as [->|_].
    { injection E0 as <- <-. subst n2. cbn [kids] in Ka. destruct (in_set_nth_inv _ _ _ _ Ka) as [->|Hk]; [right; auto|].
      left. exists rc, (NArr indef (Some o) c l). split; [exact Ep|]. split; [lia|exact Hk]. }
    destruct (N.eqb_spec a q) as [->|_].
    { injection E0 as _ <-. left. exists rcq, nq. split; [exact Eq|]. split; [lia|exact Ka]. }
    left. exists rc0, na. split; [exact E0|]. split; [lia|exact Ka].
Qed.

Corollary array_replace_Inv_gen own ownd p i q w rc indef d c l :
  Inv own ownd [] w -> heap w p = Some (CItem rc (NArr indef d c l)) -> capinvA indef d c l ->
  0 < own p -> 0 < own q -> rc_room w q -> p <> q ->
  (forall old, nth_error l (N.to_nat i) = Some old -> old <> p) ->
  wp (array_replace p i q) w (fun _ w' => Inv own ownd [] w').
Proof.
  intros I Ep Cap Op Oq Rq Hpq Hself.
  eapply wp_mono; [eapply array_replace_full; eassumption|]. intros u w' [H _]. exact H.
Qed.

(* ------------------------------------------------------------------------------------------ *)
(* 2. per-operation results                                                                    *)
(* ------------------------------------------------------------------------------------------ *)

Section Ops.
Variable refuse : N -> N -> bool.

(* ---- constructors ---- *)


Lemma ctor1_Inv own ownd sz n w :
  Inv own ownd [] w -> kids n = [] -> dblocks n = [] ->
  wp (malloc refuse sz (CItem 1 n)) w (ctor_Inv own ownd).
Proof.
  intros I K D. eapply wp_mono; [apply wp_malloc_item|]. intros r w' P. unfold ctor_Inv.
  destruct r as [a|]; cbn [ctor1_post] in P.
  - destruct P as (-> & Hn & Hh). eapply Inv_alloc_item_pw; eassumption.
  - destruct P as [Hh Hn]. eapply Inv_same; [exact I|exact Hh|lia].
Qed.

Lemma ctor2_Inv own ownd n1 w r w' :
  Inv own ownd [] w -> kids n1 = [] -> dblocks n1 = [next w + 1] ->
  ctor2_post w n1 r w' -> ctor_Inv own ownd r w'.
Proof.
  intros I K D [Hle P]. unfold ctor_Inv. destruct r as [a|].
  - destruct P as (-> & Hn & sz & Hh). eapply Inv_built; eassumption.
  - eapply Inv_same; [exact I|exact P|exact Hle].
Qed.

Lemma build_string_Inv own ownd text bytes w :
  Inv own ownd [] w -> wp (build_string refuse text bytes) w (ctor_Inv own ownd).
Proof.
  intros I. eapply wp_mono; [apply wp_build_string; eapply Inv_wf; exact I|].
  intros r w' (r0 & P & _). eapply ctor2_Inv; [exact I| | |exact P]; reflexivity.
Qed.

Lemma new_indefinite_string_Inv own ownd text w :
  Inv own ownd [] w -> wp (new_indefinite_string refuse text) w (ctor_Inv own ownd).
Proof.
  intros I. eapply wp_mono; [apply wp_new_indefinite_string; eapply Inv_wf; exact I|].
  intros r w' P. eapply ctor2_Inv; [exact I| | |exact P]; reflexivity.
Qed.

Lemma new_definite_array_Inv own ownd n w :
  Inv own ownd [] w -> wp (new_definite_array refuse n) w (ctor_Inv own ownd).
Proof.
  intros I. eapply wp_mono; [apply wp_new_definite_array; eapply Inv_wf; exact I|].
  intros r w' P. eapply ctor2_Inv; [exact I| | |exact P]; reflexivity.
Qed.

Lemma new_definite_map_Inv own ownd n w :
  Inv own ownd [] w -> wp (new_definite_map refuse n) w (ctor_Inv own ownd).
Proof.
  intros I. eapply wp_mono; [apply wp_new_definite_map; eapply Inv_wf; exact I|].
  intros r w' P. eapply ctor2_Inv; [exact I| | |exact P]; reflexivity.
Qed.

Lemma array_push_gen indef m w x d c l rc rcx nx :
  wf w -> heap w m = Some (CItem rc (NArr indef d c l)) ->
  (forall b, d = Some b -> is_data w b) ->
  capinvA indef d c l -> heap w x = Some (CItem rcx nx) -> m <> x ->
  wp (array_push refuse m x) w
     (gpush_post m rc (fun d' c' => NArr indef d' c' (l ++ [x]))
                 (fun d' c' => capinvA indef d' c' (l ++ [x])) w x d rcx nx).
Proof.
  intros Hwf Em Hb Cap Ex Hmx. destruct indef; cbn [capinvA] in Cap.
  - destruct Cap as (C1 & C2 & C3).
    assert (BI : block_inv w d c).
    { destruct d as [o|]; [|apply C1; reflexivity]. apply Hb. reflexivity. }
    destruct (push_indefinite refuse m x w rc d c l rcx nx Hwf Em BI Ex Hmx C2) as [Room Full].
    destruct (N.lt_ge_cases (len l) c) as [L|L].
    + destruct (Room L) as (w' & E & A1 & A2 & A3 & A4 & _). eapply wp_eq; [exact E|].
      exists d, c. split; [|split; [exact A1|split; [exact A2|]]].
      * cbn [capinvA]. rewrite len_app. change (len [x]) with 1. split; [exact C1|]. split; [exact C2|lia].
      * left. split; [reflexivity|]. split; [exact A4|]. intros b B1 B2. apply A3. cbn [In]. intros [H|[H|[]]]; congruence.
    + specialize (Full L). destruct (grow_req SZ_PTR c) as [[c' bytes]|].
      * destruct Full as (G1 & G2 & G3 & G4 & Full). destruct (refuse (nreq w) bytes).
        -- destruct Full as (w' & E & [S1 S2] & _). eapply wp_eq; [exact E|]. split; [intros b; rewrite S1; reflexivity|exact S2].
        -- destruct Full as (w' & E & A1 & A2 & A3 & A4 & A5 & A6 & _). eapply wp_eq; [exact E|].
           exists (Some (next w)), c'. split; [|split; [exact A1|split; [exact A2|]]].
           ++ cbn [capinvA]. rewrite len_app. change (len [x]) with 1. split; [discriminate|]. split; lia.
           ++ right. split; [reflexivity|]. split; [exact A6|]. split; [eauto|]. split; [exact A4|].
              intros b B1 B2 B3 B4. apply A5. cbn [In]. intros [H|[H|[H|H]]]; try congruence.
              destruct d as [o|]; cbn [HCont_proofs.opt_list In] in H; [|exact H].
              destruct H as [H|[]]. apply B4. rewrite H. reflexivity.
      * destruct Full as (w' & E & [S1 S2] & _). eapply wp_eq; [exact E|]. split; [intros b; rewrite S1; reflexivity|exact S2].
  - destruct Cap as [o ->].
    destruct (Hb o eq_refl) as (sz & Eo).
    destruct (push_definite refuse m x w rc o sz c l rcx nx Em Eo Ex Hmx) as (w' & Full & Room).
    destruct (N.le_gt_cases c (len l)) as [L|L].
    + destruct (Full L) as (E & [S1 S2] & _). eapply wp_eq; [exact E|]. split; [intros b; rewrite S1; reflexivity|exact S2].
    + destruct (Room L) as (E & A1 & A2 & A3 & A4 & _). eapply wp_eq; [exact E|].
      exists (Some o), c. split; [eexists; reflexivity|]. split; [exact A1|]. split; [exact A2|].
      left. split; [reflexivity|]. split; [exact A4|]. intros b B1 B2. apply A3. cbn [In]. intros [H|[H|[]]]; congruence.
Qed.

Lemma chunk_ok_str text dq bq : chunk_ok text (NStr text dq bq).
Proof. unfold chunk_ok. destruct text; [exact I|eauto]. Qed.

Lemma add_chunk_gen text hdr m w x d c l rc rcx nx :
  wf w -> heap w m = Some (CItem rc (NChunked text hdr d c l)) ->
  is_data w hdr -> (forall b, d = Some b -> is_data w b) -> d <> Some hdr ->
  capinvC d c l -> heap w x = Some (CItem rcx nx) -> chunk_ok text nx -> m <> x ->
  wp (add_chunk refuse m x) w
     (gpush_post m rc (fun d' c' => NChunked text hdr d' c' (l ++ [x]))
                 (fun d' c' => capinvC d' c' (l ++ [x])) w x d rcx nx).
Proof.
  intros Hwf Em (hsz & Eh) Hb Hdh (C1 & C2 & C3) Ex Hkx Hmx.
  assert (BI : block_inv w d c).
  { destruct d as [o|]; [|apply C1; reflexivity]. apply Hb. reflexivity. }
  destruct (add_chunk_spec refuse m x w rc text hdr hsz d c l rcx nx Hwf Em Eh BI Hdh Ex Hkx Hmx C2) as [Room Full].
  destruct (N.eq_dec (len l) c) as [L|L].
  - specialize (Full L). destruct (grow_req SZ_PTR c) as [[c' bytes]|].
    + destruct Full as (G1 & G2 & G3 & G4 & Full). destruct (refuse (nreq w) bytes).
      * destruct Full as (w' & E & [S1 S2] & _). eapply wp_eq; [exact E|]. split; [intros b; rewrite S1; reflexivity|exact S2].
      * destruct Full as (w' & E & A1 & A2 & A3 & A4 & A5 & A6 & _). eapply wp_eq; [exact E|].
        exists (Some (next w)), c'. split; [|split; [exact A1|split; [exact A2|]]].
        -- unfold capinvC. rewrite len_app. change (len [x]) with 1. split; [discriminate|]. split; lia.
        -- right. split; [reflexivity|]. split; [exact A6|]. split; [eauto|]. split; [exact A4|].
           intros b B1 B2 B3 B4. apply A5. cbn [In]. intros [H|[H|[H|H]]]; try congruence.
           destruct d as [o|]; cbn [HCont_proofs.opt_list In] in H; [|exact H].
           destruct H as [H|[]]. apply B4. rewrite H. reflexivity.
    + destruct Full as (w' & E & [S1 S2] & _). eapply wp_eq; [exact E|]. split; [intros b; rewrite S1; reflexivity|exact S2].
  - destruct (Room L ltac:(lia)) as (w' & E & A1 & A2 & A3 & A4 & _). eapply wp_eq; [exact E|].
    exists d, c. split; [|split; [exact A1|split; [exact A2|]]].
    + unfold capinvC. rewrite len_app. change (len [x]) with 1. split; [exact C1|]. split; [exact C2|lia].
    + left. split; [reflexivity|]. split; [exact A4|]. intros b B1 B2. apply A3. cbn [In]. intros [H|[H|[]]]; congruence.
Qed.

Lemma array_push_Inv own ownd p q w rc indef d c l :
  Inv own ownd [] w -> heap w p = Some (CItem rc (NArr indef d c l)) -> capinvA indef d c l ->
  0 < own q -> rc_room w q -> p <> q ->
  wp (array_push refuse p q) w (fun _ w' => Inv own ownd [] w').
Proof.
  intros I Ep Cap Oq Rq Hpq. destruct (Inv_owned_item _ _ _ _ I Oq) as (rcq & nq & Eq & _).
  eapply wp_mono.
  - eapply (array_push_gen indef p w q d c l rc rcq nq (Inv_wf _ _ _ _ I) Ep); [|exact Cap|exact Eq|exact Hpq].
    intros b ->. apply (Inv_blocks _ _ _ _ _ _ I Ep). left. reflexivity.
  - intros ok w' P. eapply (gpush_Inv own ownd p rc _ _ _ w q d rcq nq ok w' [] I Hpq Ep Eq (Rq _ _ Eq)); [| | |exact P].
    + cbn [dblocks]. rewrite app_nil_r. reflexivity.
    + intros d' c' y. cbn [kids]. apply cnt_app.
    + intros d' c'. cbn [dblocks]. rewrite app_nil_r. reflexivity.
Qed.

Lemma add_chunk_Inv own ownd p q w rc text hdr d c l :
  Inv own ownd [] w -> heap w p = Some (CItem rc (NChunked text hdr d c l)) -> capinvC d c l ->
  0 < own q -> rc_room w q -> p <> q ->
  (exists rcq dq bq, heap w q = Some (CItem rcq (NStr text dq bq))) ->
  wp (add_chunk refuse p q) w (fun _ w' => Inv own ownd [] w').
Proof.
  intros I Ep Cap Oq Rq Hpq Hkq. destruct (Inv_owned_item _ _ _ _ I Oq) as (rcq & nq & Eq & _).
  assert (Hk : chunk_ok text nq).
  { destruct Hkq as (rcq' & dq & bq & Eq'). rewrite Eq in Eq'. injection Eq' as _ ->. apply chunk_ok_str. }
  pose proof (Inv_blocks _ _ _ _ _ _ I Ep) as Hb. cbn [dblocks] in Hb.
  destruct (Hb hdr ltac:(apply in_or_app; right; left; reflexivity)) as [Hh Ch].
  assert (Hdh : d <> Some hdr).
  { intros ->. cbn [olist app cnt] in Ch. rewrite N.eqb_refl in Ch. lia. }
  eapply wp_mono.
  - eapply (add_chunk_gen text hdr p w q d c l rc rcq nq (Inv_wf _ _ _ _ I) Ep Hh); [|exact Hdh|exact Cap|exact Eq|exact Hk|exact Hpq].
    intros b ->. apply Hb. left. reflexivity.
  - intros ok w' P. eapply (gpush_Inv own ownd p rc _ _ _ w q d rcq nq ok w' [hdr] I Hpq Ep Eq (Rq _ _ Eq)); [| | |exact P].
    + reflexivity.
    + intros d' c' y. cbn [kids]. apply cnt_app.
    + intros d' c'. reflexivity.
Qed.

(* ---- maps: the container takes two references (key and value) ---- *)

Definition mpush_post (indef : bool) (m : addr) (rc : N) (w : world) (k v : addr) (d : option addr)
    (l : list (addr * option addr)) (rck : N) (nk : node) (rcv : N) (nv : node) (ok : bool) (w' : world) : Prop :=
  if ok then
    exists d' c', capinvM indef d' c' (l ++ [(k, Some v)]) /\
      heap w' m = Some (CItem rc (NMap indef d' c' (l ++ [(k, Some v)]))) /\
      heap w' k = Some (CItem (wrap64 (rck + 1)) nk) /\
      heap w' v = Some (CItem (wrap64 (rcv + 1)) nv) /\
      ((d' = d /\ next w' = next w /\ forall b, b <> m -> b <> k -> b <> v -> heap w' b = heap w b) \/
       (d' = Some (next w) /\ next w' = next w + 1 /\ (exists sz, heap w' (next w) = Some (CData sz)) /\
        (forall o, d = Some o -> heap w' o = None) /\
        forall b, b <> m -> b <> k -> b <> v -> b <> next w -> d <> Some b -> heap w' b = heap w b))
  else (forall b, heap w' b = heap w b) /\ next w' = next w.

Lemma map_add_gen indef m w k v d c l rc rck nk rcv nv :
  wf w -> heap w m = Some (CItem rc (NMap indef d c l)) ->
  (forall b, d = Some b -> is_data w b) ->
  capinvM indef d c l -> heap w k = Some (CItem rck nk) -> heap w v = Some (CItem rcv nv) ->
  m <> k -> m <> v -> k <> v ->
  wp (map_add refuse m k v) w (mpush_post indef m rc w k v d l rck nk rcv nv).
Proof.
  intros Hwf Em Hb Cap Ek Ev Hmk Hmv Hkv. destruct indef; cbn [capinvM] in Cap.
  - destruct Cap as (C1 & C2 & C3).
    assert (BI : block_inv w d c).
    { destruct d as [o|]; [|apply C1; reflexivity]. apply Hb. reflexivity. }
    destruct (map_add_indefinite refuse m k v w rc d c l rck nk rcv nv Hwf Em BI Ek Ev Hmk Hmv Hkv C2) as [Room Full].
    destruct (N.lt_ge_cases (len l) c) as [L|L].
    + destruct (Room L) as (w' & E & A1 & A2 & A2' & A3 & A4 & _). eapply wp_eq; [exact E|].
      exists d, c. split; [|split; [exact A1|split; [exact A2|split; [exact A2'|]]]].
      * cbn [capinvM]. rewrite len_app. change (len [(k, Some v)]) with 1. split; [exact C1|]. split; [exact C2|lia].
      * left. split; [reflexivity|]. split; [exact A4|]. intros b B1 B2 B3. apply A3. cbn [In].
        intros [H|[H|[H|[]]]]; congruence.
    + specialize (Full L). destruct (grow_req SZ_PAIR c) as [[c' bytes]|].
      * destruct Full as (G1 & G2 & G3 & G4 & Full). destruct (refuse (nreq w) bytes).
        -- destruct Full as (w' & E & [S1 S2] & _). eapply wp_eq; [exact E|]. split; [intros b; rewrite S1; reflexivity|exact S2].
        -- destruct Full as (w' & E & A1 & A2 & A2' & A3 & A4 & A5 & A6 & _). eapply wp_eq; [exact E|].
           exists (Some (next w)), c'. split; [|split; [exact A1|split; [exact A2|split; [exact A2'|]]]].
           ++ cbn [capinvM]. rewrite len_app. change (len [(k, Some v)]) with 1. split; [discriminate|]. split; lia.
           ++ right. split; [reflexivity|]. split; [exact A6|]. split; [eauto|]. split; [exact A4|].
              intros b B1 B2 B3 B4 B5. apply A5. cbn [In]. intros [H|[H|[H|[H|H]]]]; try congruence.
              destruct d as [o|]; cbn [HCont_proofs.opt_list In] in H; [|exact H].
              destruct H as [H|[]]. apply B5. rewrite H. reflexivity.
      * destruct Full as (w' & E & [S1 S2] & _). eapply wp_eq; [exact E|]. split; [intros b; rewrite S1; reflexivity|exact S2].
  - destruct Cap as [o ->].
    destruct (Hb o eq_refl) as (sz & Eo).
    destruct (map_add_definite refuse m k v w rc o sz c l rck nk rcv nv Em Eo Ek Ev Hmk Hmv Hkv) as (w' & Full & Room).
    destruct (N.le_gt_cases c (len l)) as [L|L].
    + destruct (Full L) as (E & [S1 S2] & _). eapply wp_eq; [exact E|]. split; [intros b; rewrite S1; reflexivity|exact S2].
    + destruct (Room L) as (E & A1 & A2 & A2' & A3 & A4 & _). eapply wp_eq; [exact E|].
      exists (Some o), c. split; [eexists; reflexivity|]. split; [exact A1|]. split; [exact A2|]. split; [exact A2'|].
      left. split; [reflexivity|]. split; [exact A4|]. intros b B1 B2 B3. apply A3. cbn [In].
      intros [H|[H|[H|[]]]]; congruence.
Qed.

Lemma map_add_Inv own ownd p q r w rc indef d c l :
  Inv own ownd [] w -> heap w p = Some (CItem rc (NMap indef d c l)) -> capinvM indef d c l ->
  0 < own q -> 0 < own r -> rc_room w q -> rc_room w r -> p <> q -> p <> r -> q <> r ->
  wp (map_add refuse p q r) w (fun _ w' => Inv own ownd [] w').
Proof.
  intros I Ep Cap Oq Or Rq Rr Hpq Hpr Hqr.
  destruct (Inv_owned_item _ _ _ _ I Oq) as (rcq & nq & Eq & _).
  destruct (Inv_owned_item _ _ _ _ I Or) as (rcr & nr & Er & _).
  eapply wp_mono.
  - eapply (map_add_gen indef p w q r d c l rc rcq nq rcr nr (Inv_wf _ _ _ _ I) Ep); try assumption.
    intros b ->. apply (Inv_blocks _ _ _ _ _ _ I Ep). left. reflexivity.
  - intros ok w' P. destruct ok; cbn [mpush_post] in P.
    2:{ destruct P as [Hh Hn]. eapply Inv_same; [exact I|exact Hh|lia]. }
    destruct P as (d' & c' & _ & Ep' & Eq' & Er' & P).
    rewrite wrap64_small in Eq' by (eapply Rq; exact Eq).
    rewrite wrap64_small in Er' by (eapply Rr; exact Er).
    set (g1 := ghost (upd (heap w) q (Some (CItem (rcq + 1) nq))) (next w)).
    assert (I1 : Inv (own1 own q) ownd [] g1).
    { eapply (Inv_incr_pw own ownd w g1 q rcq nq I Eq); reflexivity. }
    assert (Er1 : heap g1 r = Some (CItem rcr nr)).
    { cbn [heap g1 ghost]. rewrite upd_other by congruence. exact Er. }
    set (g := ghost (upd (heap g1) r (Some (CItem (rcr + 1) nr))) (next w)).
    assert (Ig : Inv (own1 (own1 own q) r) ownd [] g).
    { eapply (Inv_incr_pw _ ownd g1 g r rcr nr I1 Er1); reflexivity. }
    assert (Eg : heap g p = Some (CItem rc (NMap indef d c l))).
    { cbn [heap g g1 ghost]. rewrite !upd_other by congruence. exact Ep. }
    assert (OM : forall y, own1 (own1 own q) r y = own y + cnt y [q; r]).
    { intros y. unfold own1. cbn [cnt]. eqb; lia. }
    assert (Hg : forall b, b <> q -> b <> r -> heap g b = heap w b).
    { intros b B1 B2. cbn [heap g g1 ghost]. rewrite !upd_other by assumption. reflexivity. }
    assert (Hgq : heap g q = Some (CItem (rcq + 1) nq)).
    { cbn [heap g g1 ghost]. rewrite upd_other by exact Hqr. apply upd_same. }
    assert (Hgr : heap g r = Some (CItem (rcr + 1) nr)).
    { cbn [heap g ghost]. apply upd_same. }
    assert (Hother : forall b, (b <> p -> b <> q -> b <> r -> heap w' b = heap w b) -> b <> p -> heap w' b = heap g b).
    { intros b H Hb. destruct (N.eq_dec b q) as [->|Hbq]; [rewrite Hgq; exact Eq'|].
      destruct (N.eq_dec b r) as [->|Hbr]; [rewrite Hgr; exact Er'|].
      rewrite Hg by assumption. apply H; assumption. }
    destruct P as [(-> & Hn & Ho)|(-> & Hn & (sz & En) & Eo & Ho)].
    + eapply (Inv_link_same _ own ownd g w' p rc _ _ [q; r] Ig Eg OM Ep').
      * intros b Hb. apply Hother; [apply Ho|exact Hb].
      * exact Hn.
      * intros y. apply kids_map_snoc.
      * intros y. reflexivity.
    + eapply (Inv_link_grown _ own ownd g w' p rc _ _ [q; r] d sz Ig Eg OM).
      * intros o ->. cbn [dblocks olist]. left. reflexivity.
      * exact Ep'.
      * exact En.
      * exact Eo.
      * intros b B1 B2 B3. cbn [next g ghost] in B2. apply Hother; [|exact B1].
        intros C1 C2 C3. apply Ho; assumption.
      * exact Hn.
      * intros y. apply kids_map_snoc.
      * intros y. cbn [dblocks next g ghost olist cnt]. lia.
Qed.

(* ---- cbor_map_add with the same item as key and value: the map takes two references to it ---- *)

Definition msame_post (indef : bool) (m : addr) (rc : N) (w : world) (q : addr) (d : option addr)
    (l : list (addr * option addr)) (rcq : N) (nq : node) (ok : bool) (w' : world) : Prop :=
  if ok then
    exists d' c',
      heap w' m = Some (CItem rc (NMap indef d' c' (l ++ [(q, Some q)]))) /\
      heap w' q = Some (CItem (wrap64 (wrap64 (rcq + 1) + 1)) nq) /\
      ((d' = d /\ next w' = next w /\ forall b, b <> m -> b <> q -> heap w' b = heap w b) \/
       (d' = Some (next w) /\ next w' = next w + 1 /\ (exists sz, heap w' (next w) = Some (CData sz)) /\
        (forall o, d = Some o -> heap w' o = None) /\
        forall b, b <> m -> b <> q -> b <> next w -> d <> Some b -> heap w' b = heap w b))
  else (forall b, heap w' b = heap w b) /\ next w' = next w.

Lemma map_add_same_room indef m w q o sz c l rc rcq nq :
  heap w m = Some (CItem rc (NMap indef (Some o) c l)) -> heap w o = Some (CData sz) ->
  heap w q = Some (CItem rcq nq) -> m <> q -> len l < c ->
  wp (map_add refuse m q q) w (msame_post indef m rc w q (Some o) l rcq nq).
Proof.
  intros Em Eo Eq Hmq Room. unfold map_add. apply wp_bind.
  eapply wp_eq; [eapply (add_key_room refuse indef m q w rc o sz c l rcq nq); eassumption|].
  set (nd1 := NMap indef (Some o) c (l ++ [(q, None)])).
  destruct (w_push_props m rc nd1 o q rcq nq w Hmq) as (P1 & P2 & P3 & P4 & _).
  set (w1 := w_push m rc nd1 o q rcq nq w) in *.
  assert (Eo1 : heap w1 o = Some (CData sz)).
  { rewrite P3; [exact Eo|]. cbn [In]. intros [E|[E|[]]]; subst o; congruence. }
  eapply wp_eq; [eapply (add_value_spec m q w1 rc indef o sz c l q None _ nq P1 Eo1 P2 Hmq)|].
  set (nd2 := NMap indef (Some o) c (l ++ [(q, Some q)])).
  destruct (w_addval_props m rc nd2 o q (wrap64 (rcq + 1)) nq w1 Hmq) as (Q1 & Q2 & Q3 & Q4 & _).
  exists (Some o), c. split; [exact Q1|]. split; [exact Q2|]. left. split; [reflexivity|].
  split; [rewrite Q4; exact P4|]. intros b B1 B2.
  rewrite Q3 by (cbn [In]; intros [E|[E|[]]]; congruence).
  apply P3. cbn [In]. intros [E|[E|[]]]; congruence.
Qed.

Lemma map_add_same_granted m w q d c l rc rcq nq c' bytes :
  wf w -> heap w m = Some (CItem rc (NMap true d c l)) -> data_ok w d ->
  heap w q = Some (CItem rcq nq) -> m <> q -> c <= len l ->
  grow_req SZ_PAIR c = Some (c', bytes) -> refuse (nreq w) bytes = false ->
  wp (map_add refuse m q q) w (msame_post true m rc w q d l rcq nq).
Proof.
  intros Hwf Em Hd Eq Hmq Full G Rf. unfold map_add. apply wp_bind.
  eapply wp_eq; [eapply (add_key_granted refuse m q w rc d c l c' bytes rcq nq); eassumption|].
  set (nd1 := NMap true (Some (next w)) c' (l ++ [(q, None)])).
  assert (Hd' : forall o, d = Some o -> is_data w o) by (intros o ->; exact Hd).
  destruct (w_push_grown_props m rc nd1 d bytes q rcq nq w rc _ Hwf Em Eq Hmq Hd')
    as (P1 & P2 & P3 & P4 & P5 & P6 & _ & _ & P9).
  set (w1 := w_push_grown m rc nd1 d bytes q rcq nq w) in *.
  eapply wp_eq; [eapply (add_value_spec m q w1 rc true (next w) bytes c' l q None _ nq P1 P3 P2 Hmq)|].
  set (nd2 := NMap true (Some (next w)) c' (l ++ [(q, Some q)])).
  destruct (w_addval_props m rc nd2 (next w) q (wrap64 (rcq + 1)) nq w1 Hmq) as (Q1 & Q2 & Q3 & Q4 & _).
  pose proof (wf_item_neq_next w m _ Hwf Em) as Nm. pose proof (wf_item_neq_next w q _ Hwf Eq) as Nq.
  exists (Some (next w)), c'. split; [exact Q1|]. split; [exact Q2|]. right. split; [reflexivity|].
  split; [rewrite Q4; exact P6|]. split.
  { exists bytes. rewrite Q3; [exact P3|]. cbn [In]. intros [E|[E|[]]]; congruence. }
  split.
  { intros o Ho. destruct (Hd' o Ho) as (szo & Eo).
    rewrite Q3; [apply P4; exact Ho|]. cbn [In]. intros [E|[E|[]]]; subst o; congruence. }
  intros b B1 B2 B3 B4.
  rewrite Q3 by (cbn [In]; intros [E|[E|[]]]; congruence).
  apply P5. cbn [In]. intros [E|[E|[E|E]]]; try congruence.
  destruct d as [o|]; cbn [HCont_proofs.opt_list In] in E; [|exact E].
  destruct E as [E|[]]. apply B4. rewrite E. reflexivity.
Qed.

Lemma map_add_same_gen indef m w q d c l rc rcq nq :
  wf w -> heap w m = Some (CItem rc (NMap indef d c l)) ->
  (forall b, d = Some b -> is_data w b) ->
  capinvM indef d c l -> heap w q = Some (CItem rcq nq) -> m <> q ->
  wp (map_add refuse m q q) w (msame_post indef m rc w q d l rcq nq).
Proof.
  intros Hwf Em Hb Cap Eq Hmq. destruct indef; cbn [capinvM] in Cap.
  - destruct Cap as (C1 & C2 & C3).
    destruct (N.lt_ge_cases (len l) c) as [L|L].
    + destruct d as [o|]; [|specialize (C1 eq_refl); lia].
      destruct (Hb o eq_refl) as (sz & Eo).
      eapply map_add_same_room; eassumption.
    + assert (Hd : data_ok w d) by (destruct d as [o|]; [apply Hb; reflexivity|exact I]).
      destruct (grow_req SZ_PAIR c) as [[c' bytes]|] eqn:G.
      * destruct (refuse (nreq w) bytes) eqn:Rf.
        -- eapply wp_eq; [eapply map_add_refused; eassumption|]. split; [reflexivity|reflexivity].
        -- eapply map_add_same_granted; eassumption.
      * eapply wp_eq; [eapply map_add_guard; eassumption|]. split; reflexivity.
  - destruct Cap as [o ->]. destruct (Hb o eq_refl) as (sz & Eo).
    destruct (N.le_gt_cases c (len l)) as [L|L].
    + eapply wp_eq; [eapply map_add_definite_full; eassumption|]. split; reflexivity.
    + eapply map_add_same_room; eassumption.
Qed.

Lemma map_add_same_Inv own ownd p q w rc indef d c l :
  Inv own ownd [] w -> heap w p = Some (CItem rc (NMap indef d c l)) -> capinvM indef d c l ->
  0 < own q -> (forall rcq nq, heap w q = Some (CItem rcq nq) -> rcq + 2 < W64) -> p <> q ->
  wp (map_add refuse p q q) w (fun _ w' => Inv own ownd [] w').
Proof.
  intros I Ep Cap Oq Rq Hpq.
  destruct (Inv_owned_item _ _ _ _ I Oq) as (rcq & nq & Eq & _). specialize (Rq _ _ Eq).
  eapply wp_mono.
  - eapply (map_add_same_gen indef p w q d c l rc rcq nq (Inv_wf _ _ _ _ I) Ep); try assumption.
    intros b ->. apply (Inv_blocks _ _ _ _ _ _ I Ep). left. reflexivity.
  - intros ok w' P. destruct ok; cbn [msame_post] in P.
    2:{ destruct P as [Hh Hn]. eapply Inv_same; [exact I|exact Hh|lia]. }
    destruct P as (d' & c' & Ep' & Eq' & P).
    rewrite (wrap64_small (rcq + 1)) in Eq' by lia. rewrite wrap64_small in Eq' by lia.
    set (g1 := ghost (upd (heap w) q (Some (CItem (rcq + 1) nq))) (next w)).
    assert (I1 : Inv (own1 own q) ownd [] g1).
    { eapply (Inv_incr_pw own ownd w g1 q rcq nq I Eq); reflexivity. }
    assert (Eq1 : heap g1 q = Some (CItem (rcq + 1) nq)) by (cbn [heap g1 ghost]; apply upd_same).
    set (g := ghost (upd (heap g1) q (Some (CItem (rcq + 1 + 1) nq))) (next w)).
    assert (Ig : Inv (own1 (own1 own q) q) ownd [] g).
    { eapply (Inv_incr_pw _ ownd g1 g q (rcq + 1) nq I1 Eq1); reflexivity. }
    assert (Eg : heap g p = Some (CItem rc (NMap indef d c l))).
    { cbn [heap g g1 ghost]. rewrite !upd_other by congruence. exact Ep. }
    assert (OM : forall y, own1 (own1 own q) q y = own y + cnt y [q; q]).
    { intros y. unfold own1. cbn [cnt]. eqb; lia. }
    assert (Hother : forall b, (b <> p -> b <> q -> heap w' b = heap w b) -> b <> p -> heap w' b = heap g b).
    { intros b H Hb. cbn [heap g g1 ghost]. unfold upd. destruct (N.eqb_spec b q) as [->|Hbq]; [exact Eq'|].
      apply H; assumption. }
    destruct P as [(-> & Hn & Ho)|(-> & Hn & (sz & En) & Eo & Ho)].
    + eapply (Inv_link_same _ own ownd g w' p rc _ _ [q; q] Ig Eg OM Ep').
      * intros b Hb. apply Hother; [apply Ho|exact Hb].
      * exact Hn.
      * intros y. apply kids_map_snoc.
      * intros y. reflexivity.
    + eapply (Inv_link_grown _ own ownd g w' p rc _ _ [q; q] d sz Ig Eg OM).
      * intros o ->. cbn [dblocks olist]. left. reflexivity.
      * exact Ep'.
      * exact En.
      * exact Eo.
      * intros b B1 B2 B3. cbn [next g ghost] in B2. apply Hother; [|exact B1].
        intros C1 C2. apply Ho; assumption.
      * exact Hn.
      * intros y. apply kids_map_snoc.
      * intros y. cbn [dblocks next g ghost olist cnt]. lia.
Qed.

Lemma build_tag_Inv own ownd v q w :
  Inv own ownd [] w -> 0 < own q -> rc_room w q -> wp (build_tag refuse v q) w (ctor_Inv own ownd).
Proof.
  intros I Oq Rq. destruct (Inv_owned_item _ _ _ _ I Oq) as (rcq & nq & Eq & _).
  pose proof (live_lt _ _ _ _ _ _ I Eq) as Lq.
  unfold build_tag, new_tag. apply wp_bind. eapply wp_mono; [apply wp_malloc_item|].
  intros r w1 P. destruct r as [t|]; cbn [ctor1_post] in P.
  - destruct P as (-> & Hn & Hh).
    assert (I1 : Inv (own1 own (next w)) ownd [] w1).
    { eapply (Inv_alloc_item_pw own ownd w w1 (NTag v None) I); [reflexivity|reflexivity|exact Hh|exact Hn]. }
    assert (Et : heap w1 (next w) = Some (CItem 1 (NTag v None))) by (rewrite Hh; apply upd_same).
    assert (Hq1 : heap w1 q = heap w q) by (rewrite Hh; apply upd_other; lia).
    apply wp_bind. eapply wp_mono.
    + eapply (tag_set_Inv (own1 own (next w)) ownd (next w) q w1 1 v I1 Et).
      * unfold own1. lia.
      * intros rc n E. rewrite Hq1 in E. eapply Rq. exact E.
      * lia.
    + intros u w2 I2. apply wp_ret. exact I2.
  - destruct P as [Hh Hn]. apply wp_ret. unfold ctor_Inv. eapply Inv_same; [exact I|exact Hh|lia].
Qed.

(* ---- cbor_copy, cbor_load ---- *)

Lemma copy_h_Inv own ownd p w :
  Inv own ownd [] w -> shaped (abs_fuel w) (heap w) p -> wp (copy_h refuse p) w (ctor_Inv own ownd).
Proof.
  intros I Sh. destruct (copy_h_spec refuse p w own ownd I Sh) as (r & w' & E & _ & P).
  eapply wp_eq; [exact E|]. unfold ctor_Inv. destruct r as [a'|].
  - destruct P as (Ha & _ & I'). eapply Inv_own_ext; [exact I'| |reflexivity].
    intros x. symmetry. eapply own1_fresh; eassumption.
  - apply P.
Qed.

Lemma load_h_Inv L own ownd buf w :
  Inv own ownd [] w -> bytes_ok buf -> len buf < SIZE_MAX ->
  wp (load_h refuse L buf) w (fun r w' => ctor_Inv own ownd (fst (fst (fst r))) w').
Proof.
  intros I Hb Hl. pose proof (Inv_wf _ _ _ _ I) as Hwf.
  destruct (load_h_never_faults refuse L own ownd buf w Hb Hl Hwf I) as ([[[oa code] pos] rd] & w' & E).
  eapply wp_eq; [exact E|]. cbn [fst]. unfold ctor_Inv. destruct oa as [a|].
  - destruct (load_h_success refuse L own ownd buf w a code pos rd w' Hb Hl Hwf I E) as (_ & _ & _ & _ & _ & I' & _).
    exact I'.
  - destruct (load_h_clean_failure refuse L own ownd buf w code pos rd w' Hb Hl Hwf I E) as (_ & _ & _ & I' & _).
    exact I'.
Qed.

(* ---- cbor_array_set ---- *)

Lemma array_set_Inv own ownd p i q w rc indef d c l :
  Inv own ownd [] w -> heap w p = Some (CItem rc (NArr indef d c l)) -> capinvA indef d c l ->
  0 < own p -> 0 < own q -> rc_room w q -> p <> q ->
  (forall old, nth_error l (N.to_nat i) = Some old -> old <> p) ->
  wp (array_set refuse p i q) w (fun _ w' => Inv own ownd [] w').
Proof.
  intros I Ep Cap Op Oq Rq Hpq Sh.
  set (w1 := w_log (AccR p) w).
  assert (I1 : Inv own ownd [] w1) by (eapply Inv_same; [exact I|reflexivity|unfold w1; wsimpl; lia]).
  destruct (N.lt_trichotomy i (len l)) as [Lt|[Eq|Gt]].
  - unfold wp. rewrite (set_in_range refuse p i q w rc indef d c l Ep Lt).
    apply (array_replace_Inv_gen own ownd p i q w1 rc indef d c l I1); assumption.
  - subst i. unfold wp. rewrite (set_at_end refuse p q w rc indef d c l Ep).
    apply (array_push_Inv own ownd p q w1 rc indef d c l I1); assumption.
  - eapply wp_eq; [eapply set_out_of_range; [exact Ep|exact Gt]|]. exact I1.
Qed.

End Ops.

(* ------------------------------------------------------------------------------------------ *)
(* 3. the items the serializer can traverse                                                    *)
(* ------------------------------------------------------------------------------------------ *)

(* [readable f h a]: the item [a] of heap [h] is a complete tree of depth < f: every tag has its
   item, every map pair its value, the chunks of an indefinite string are definite strings, and
   the data block of every non-empty string / array / map / chunk list is there.  This is exactly
   what [abs] (hence cbor_serialized_size / cbor_serialize / cbor_serialize_alloc) dereferences. *)
Definition str_ok (h : addr -> option cell) (text : bool) (c : addr) : Prop :=
  exists rc data bytes, h c = Some (CItem rc (NStr text data bytes)) /\
    (len bytes = 0 \/ data_live h data).

Fixpoint readable (f : nat) (h : addr -> option cell) (a : addr) : Prop :=
  match f with
  | O => False
  | S f' =>
    exists rc n, h a = Some (CItem rc n) /\
      match n with
      | NInt _ _ _ | NFloat _ _ | NCtrl _ => True
      | NStr _ data bytes => len bytes = 0 \/ data_live h data
      | NChunked text hdr arr _ chunks =>
          data_live h (Some hdr) /\ (chunks = [] \/ data_live h arr) /\ Forall (str_ok h text) chunks
      | NArr _ data _ elems => (elems = [] \/ data_live h data) /\ Forall (readable f' h) elems
      | NMap _ data _ pairs =>
          (pairs = [] \/ data_live h data) /\
          Forall (fun kv => readable f' h (fst kv) /\ exists v, snd kv = Some v /\ readable f' h v) pairs
      | NTag _ child => exists x, child = Some x /\ readable f' h x
      end
  end.

(* [m] returns (never faults) and keeps the heap, from any world whose heap is [h] *)
Definition tot {A} (h : addr -> option cell) (m : M A) : Prop :=
  forall w, heap w = h -> exists a w', m w = Ret a w' /\ heap w' = h.

Lemma tot_ret {A} h (a : A) : tot h (ret a).
Proof. intros w E. exists a, w. split; [reflexivity|exact E]. Qed.

Lemma tot_bind {A B} h (m : M A) (f : A -> M B) : tot h m -> (forall a, tot h (f a)) -> tot h (bind m f).
Proof.
  intros Hm Hf w E. destruct (Hm w E) as (a & w1 & E1 & H1). destruct (Hf a w1 H1) as (b & w2 & E2 & H2).
  exists b, w2. split; [|exact H2]. unfold bind. rewrite E1. exact E2.
Qed.

Lemma tot_rd {B} h a rc n (f : N * node -> M B) :
  h a = Some (CItem rc n) -> tot h (f (rc, n)) -> tot h (bind (rd_item a) f).
Proof.
  intros Ea Hf w E. destruct (Hf (w_log (AccR a) w) E) as (b & w2 & E2 & H2).
  exists b, w2. split; [|exact H2]. rewrite (bind_Ret _ _ _ _ _ (rd_item_spec a w rc n ltac:(rewrite E; exact Ea))).
  exact E2.
Qed.

Lemma tot_touch h p : data_live h p -> tot h (touch_data false p).
Proof.
  intros (d & sz & -> & Ed) w E. exists tt, (w_log (AccR d) w). split; [|exact E].
  apply (touch_data_spec false d w sz). rewrite E. exact Ed.
Qed.

Lemma tot_guard {X} h (l : list X) p :
  l = [] \/ data_live h p -> tot h (match l with [] => ret tt | _ => touch_data false p end).
Proof. intros [->|H]; [apply tot_ret|]. destruct l; [apply tot_ret|apply tot_touch, H]. Qed.

Lemma tot_str_guard h (bytes : list N) p :
  len bytes = 0 \/ data_live h p -> tot h (if len bytes =? 0 then ret tt else touch_data false p).
Proof.
  intros [E|H]; [rewrite E; apply tot_ret|]. destruct (len bytes =? 0); [apply tot_ret|apply tot_touch, H].
Qed.

Lemma tot_mapM {X Y} h (g : X -> M Y) l : Forall (fun x => tot h (g x)) l -> tot h (mapM g l).
Proof.
  induction 1 as [|x r Hx _ IH]; cbn [mapM]; [apply tot_ret|].
  apply tot_bind; [exact Hx|]. intros y. apply tot_bind; [exact IH|]. intros ys. apply tot_ret.
Qed.

Lemma str_ok_tot h text c : str_ok h text c -> tot h (chunk_bytes text c).
Proof.
  intros (rc & data & bytes & Ec & G). unfold chunk_bytes.
  eapply tot_rd; [exact Ec|]. cbn [snd]. rewrite Bool.eqb_reflx. apply tot_bind; [apply tot_str_guard, G|]. intros _. apply tot_ret.
Qed.

Lemma readable_abs h : forall f a, readable f h a -> tot h (abs f a).
Proof.
  induction f as [|f IH]; intros a; [intros []|].
  intros (rc & n & Ea & R). rewrite abs_unfold. eapply tot_rd; [exact Ea|]. cbn [snd].
  destruct n as [neg iw v|fw bits|v|text data bytes|text hdr arr cap chunks|indef data al elems|indef data al pairs|v c].
  - apply tot_ret.
  - apply tot_ret.
  - apply tot_ret.
  - apply tot_bind; [apply tot_str_guard, R|]. intros _. apply tot_ret.
  - destruct R as (Rh & Ra & Rc).
    apply tot_bind; [apply tot_touch, Rh|]. intros _.
    apply tot_bind; [apply tot_guard, Ra|]. intros _.
    apply tot_bind; [|intros cs; apply tot_ret].
    apply tot_mapM. eapply Forall_impl; [|exact Rc]. intros c0. apply str_ok_tot.
  - destruct R as (Rd & Re).
    apply tot_bind; [apply tot_guard, Rd|]. intros _.
    apply tot_bind; [|intros xs; apply tot_ret].
    apply tot_mapM. eapply Forall_impl; [|exact Re]. intros x. apply IH.
  - destruct R as (Rd & Rp).
    apply tot_bind; [apply tot_guard, Rd|]. intros _.
    apply tot_bind; [|intros xs; apply tot_ret].
    apply tot_mapM. eapply Forall_impl; [|exact Rp]. intros [k ov] (Rk & v & Ev & Rv). cbn [fst snd] in *.
    subst ov. apply tot_bind; [apply IH, Rk|]. intros k'.
    apply tot_bind; [apply IH, Rv|]. intros v'. apply tot_ret.
  - destruct R as (x & -> & Rx). apply tot_bind; [apply IH, Rx|]. intros x'. apply tot_ret.
Qed.

(* conversely: whatever [abs] can read is readable, so [readable f (heap w) a] is exactly
   "the abstraction of [a] exists" *)
Theorem abs_readable : forall f a w t w', abs f a w = Ret t w' -> readable f (heap w) a.
Proof.
  induction f as [|f IH]; intros a w t w' H; [discriminate H|].
  cbn [abs] in H. apply bind_inv in H. destruct H as ([rc n] & w1 & E1 & H).
  unfold rd_item in E1. destruct (heap w a) as [[rc0 n0|sz]|] eqn:Ea; try discriminate E1.
  injection E1 as -> -> <-. cbn [snd] in H.
  assert (IH' : forall x wa ta wb, heap wa = heap w -> abs f x wa = Ret ta wb -> readable f (heap w) x).
  { intros x wa ta wb Hh Hx. rewrite <- Hh. eapply IH. exact Hx. }
  exists rc, n. split; [exact Ea|].
  destruct n as [neg iw v|fw bits|v|text data bytes|text hdr arr cap chunks|indef data al elems|indef data al pairs|v [x|]].
  - exact I. - exact I. - exact I.
  - apply bind_inv in H. destruct H as (u & w2 & E2 & _). apply str_guard_inv in E2. apply E2.
  - apply bind_inv in H. destruct H as (u & w2 & E2 & H). apply touch_inv in E2. destruct E2 as [H2 G2].
    apply bind_inv in H. destruct H as (u3 & w3 & E3 & H). apply guard_inv in E3. destruct E3 as [H3 G3].
    apply bind_inv in H. destruct H as (cs & w4 & E4 & _).
    split; [exact G2|]. split; [cbn [heap] in G3; rewrite H2 in G3; exact G3|].
    destruct (mapM_each (chunk_bytes text) (chunk_bytes_keeps text) _ _ _ _ E4) as [_ F].
    eapply Forall_impl; [|exact F]. intros c (wa & y & wb & Ha & Ec).
    assert (Hh : heap wa = heap w) by (rewrite Ha, H3, H2; reflexivity).
    unfold chunk_bytes in Ec. apply bind_inv in Ec. destruct Ec as ([rcc nc] & wc & Ec1 & Ec).
    unfold rd_item in Ec1. rewrite Hh in Ec1. destruct (heap w c) as [[rc1 n1|sz]|] eqn:Ecc; try discriminate Ec1.
    injection Ec1 as -> -> <-. cbn [snd] in Ec.
    destruct nc as [| | |text0 data bytes|text0 ? ? ? ?| | |]; try discriminate Ec;
      destruct (Bool.eqb_spec text0 text) as [->|Ne]; try discriminate Ec.
    apply bind_inv in Ec. destruct Ec as (u5 & w5 & E5 & _). apply str_guard_inv in E5. cbn [heap] in E5.
    exists rcc, data, bytes. split; [exact Ecc|]. apply E5.
  - apply bind_inv in H. destruct H as (u & w2 & E2 & H). apply guard_inv in E2. destruct E2 as [H2 G2].
    apply bind_inv in H. destruct H as (xs & w3 & E3 & _).
    destruct (mapM_each (abs f) (abs_keeps f) _ _ _ _ E3) as [_ F]. split; [exact G2|].
    eapply Forall_impl; [|exact F]. intros e (wa & y & wb & Ha & Ee).
    eapply IH'; [|exact Ee]. rewrite Ha, H2. reflexivity.
  - apply bind_inv in H. destruct H as (u & w2 & E2 & H). apply guard_inv in E2. destruct E2 as [H2 G2].
    apply bind_inv in H. destruct H as (xs & w3 & E3 & _).
    match type of E3 with mapM ?g _ _ = _ => assert (Hg : forall x wx y wy, g x wx = Ret y wy -> heap wy = heap wx) end.
    { intros [k0 ov] wx y wy Hx. cbn [fst snd] in Hx. apply bind_inv in Hx. destruct Hx as (kt & wk & Ek & Hx).
      pose proof (abs_keeps _ _ _ _ _ Ek) as Hk. destruct ov as [v0|]; [|discriminate Hx].
      apply bind_inv in Hx. destruct Hx as (vt & wv & Ev & Hx). pose proof (abs_keeps _ _ _ _ _ Ev) as Hv.
      unfold ret in Hx. injection Hx as _ <-. congruence. }
    destruct (mapM_each _ Hg _ _ _ _ E3) as [_ F]. split; [exact G2|].
    eapply Forall_impl; [|exact F]. intros [k0 ov] (wa & y & wb & Ha & Ee). cbn [fst snd] in *.
    assert (Hh : heap wa = heap w) by (rewrite Ha, H2; reflexivity).
    apply bind_inv in Ee. destruct Ee as (kt & wk & Ek & Ee). pose proof (abs_keeps _ _ _ _ _ Ek) as Hk.
    split; [eapply IH'; [exact Hh|exact Ek]|]. destruct ov as [v0|]; [|discriminate Ee].
    apply bind_inv in Ee. destruct Ee as (vt & wv & Ev & _).
    exists v0. split; [reflexivity|]. eapply IH'; [|exact Ev]. congruence.
  - apply bind_inv in H. destruct H as (xt & wx & Ex & _). exists x. split; [reflexivity|].
    eapply IH'; [|exact Ex]. reflexivity.
  - discriminate H.
Qed.

Corollary readable_iff_abs f a w : readable f (heap w) a <-> exists t w', abs f a w = Ret t w'.
Proof.
  split.
  - intros R. destruct (readable_abs (heap w) f a R w eq_refl) as (t & w' & E & _). eauto.
  - intros (t & w' & E). eapply abs_readable. exact E.
Qed.

Lemma abs_of_tot w a : readable (abs_fuel w) (heap w) a -> exists t w', abs_of a w = Ret t w' /\ heap w' = heap w /\ next w' = next w.
Proof.
  intros R. destruct (readable_abs (heap w) _ a R w eq_refl) as (t & w' & E & H).
  exists t, w'. split; [exact E|]. split; [exact H|].
  destruct (abs_readonly _ _ _ _ _ E) as (_ & Hn & _). exact Hn.
Qed.

Section SerOps.
Variable refuse : N -> N -> bool.

Lemma ser_size_Inv own ownd p w :
  Inv own ownd [] w -> readable (abs_fuel w) (heap w) p ->
  wp (serialized_size_h p) w (fun _ w' => Inv own ownd [] w').
Proof.
  intros I R. destruct (abs_of_tot w p R) as (t & w1 & E & Hh & Hn).
  unfold serialized_size_h. apply wp_bind. eapply wp_eq; [exact E|]. apply wp_ret.
  eapply Inv_same; [exact I|intros b; rewrite Hh; reflexivity|lia].
Qed.

Lemma serialize_Inv own ownd p n w :
  Inv own ownd [] w -> readable (abs_fuel w) (heap w) p ->
  wp (serialize_h p n) w (fun r w' => r <> None /\ Inv own ownd [] w').
Proof.
  intros I R. destruct (abs_of_tot w p R) as (t & w1 & E & Hh & Hn).
  unfold serialize_h. apply wp_bind. eapply wp_eq; [exact E|]. apply wp_ret.
  split.
  - destruct (C07_into_all t n) as (rt & out & Es & _). rewrite Es. discriminate.
  - eapply Inv_same; [exact I|intros b; rewrite Hh; reflexivity|lia].
Qed.

(* cbor_serialize_alloc followed by the client's free of the buffer *)
Definition ser_alloc_free {X} (k : N -> list N -> X) (p : addr) : M X :=
  r <- serialize_alloc_h refuse p ;;
  match r with
  | (wr, Some buf, bytes) => free (Some buf) ;;; ret (k wr bytes)
  | (wr, None, bytes) => ret (k wr bytes)
  end.

Lemma ser_alloc_Inv {X} (k : N -> list N -> X) own ownd p w :
  Inv own ownd [] w -> readable (abs_fuel w) (heap w) p ->
  wp (ser_alloc_free k p) w (fun _ w' => Inv own ownd [] w').
Proof.
  intros I R. destruct (abs_of_tot w p R) as (t & w1 & E & Hh & Hn).
  pose proof (Inv_wf _ _ _ _ I) as Hwf.
  assert (I1 : Inv own ownd [] w1) by (eapply Inv_same; [exact I|intros b; rewrite Hh; reflexivity|lia]).
  unfold ser_alloc_free, serialize_alloc_h. apply wp_bind. apply wp_bind. eapply wp_eq; [exact E|].
  destruct (ssize t =? 0).
  { apply wp_ret. apply wp_ret. exact I1. }
  apply wp_bind. destruct (refuse (nreq w1) (ssize t)) eqn:Rf.
  - eapply wp_eq; [apply malloc_refused; exact Rf|]. apply wp_ret. apply wp_ret.
    eapply Inv_same; [exact I1|reflexivity|wsimpl; lia].
  - eapply wp_eq; [apply malloc_granted; exact Rf|].
    destruct (C07_into_all t (ssize t)) as (rt & out & Es & _). rewrite Es. apply wp_ret.
    apply wp_bind. eapply wp_eq.
    + eapply free_spec. wsimpl. apply upd_same.
    + apply wp_ret. eapply Inv_same; [exact I1| |wsimpl; lia].
      intros b. wsimpl. unfold upd. destruct (N.eqb_spec b (next w1)) as [->|]; [|reflexivity].
      symmetry. rewrite Hh. apply Hwf. lia.
Qed.

End SerOps.

(* ------------------------------------------------------------------------------------------ *)
(* 3b. the capacity metadata of containers is consistent: an invariant of every API function  *)
(* ------------------------------------------------------------------------------------------ *)

Definition node_ok (n : node) : Prop :=
  match n with
  | NArr indef d c l => capinvA indef d c l
  | NMap indef d c l => capinvM indef d c l
  | NChunked _ _ d c l => capinvC d c l
  | _ => True
  end.
Definition cell_ok (c : cell) : Prop := match c with CItem _ n => node_ok n | CData _ => True end.
Definition caps (w : world) : Prop := forall a rc n, heap w a = Some (CItem rc n) -> node_ok n.

Lemma caps_world0 : caps world0.
Proof. intros a rc n E. discriminate E. Qed.

(* partial-correctness triples with [caps] as the invariant: if [m] returns, [caps] still holds
   and the result satisfies [Q] *)
Definition keepsQ {A} (m : M A) (Q : A -> Prop) : Prop :=
  forall w r w', caps w -> m w = Ret r w' -> caps w' /\ Q r.
Notation keeps m := (keepsQ m (fun _ => True)).

Lemma kq_ret {A} (a : A) (Q : A -> Prop) : Q a -> keepsQ (ret a) Q.
Proof. intros H w r w' C E. unfold ret in E. injection E as <- <-. auto. Qed.
Lemma kq_fail {A} k (Q : A -> Prop) : keepsQ (fail k) Q.
Proof. intros w r w' C E. discriminate E. Qed.
Lemma kq_bind {A B} (m : M A) (f : A -> M B) (Q : A -> Prop) (R : B -> Prop) :
  keepsQ m Q -> (forall a, Q a -> keepsQ (f a) R) -> keepsQ (bind m f) R.
Proof.
  intros Hm Hf w r w' C E. apply bind_inv in E. destruct E as (a & w1 & E1 & E2).
  destruct (Hm _ _ _ C E1) as [C1 Qa]. exact (Hf a Qa _ _ _ C1 E2).
Qed.
Lemma kq_bindT {A B} (m : M A) (f : A -> M B) (R : B -> Prop) :
  keeps m -> (forall a, keepsQ (f a) R) -> keepsQ (bind m f) R.
Proof. intros Hm Hf. eapply kq_bind; [exact Hm|]. intros a _. apply Hf. Qed.
Lemma kq_weaken {A} (m : M A) (Q Q' : A -> Prop) : keepsQ m Q -> (forall a, Q a -> Q' a) -> keepsQ m Q'.
Proof. intros H HQ w r w' C E. destruct (H _ _ _ C E) as [C' q]. auto. Qed.
Lemma kq_true {A} (m : M A) (Q : A -> Prop) : keepsQ m Q -> keeps m.
Proof. intros H. eapply kq_weaken; [exact H|auto]. Qed.

Lemma caps_same w w' : caps w -> heap w' = heap w -> caps w'.
Proof. intros C H a rc n E. rewrite H in E. eapply C. exact E. Qed.
Lemma caps_upd w w' a c : caps w -> heap w' = upd (heap w) a c ->
  (forall rc n, c = Some (CItem rc n) -> node_ok n) -> caps w'.
Proof.
  intros C H Hc b rc n E. rewrite H in E. unfold upd in E. destruct (N.eqb_spec b a) as [->|_].
  - eapply Hc. exact E.
  - eapply C. exact E.
Qed.

Lemma kq_rd a : keepsQ (rd_item a) (fun c => node_ok (snd c)).
Proof.
  intros w r w' C E. unfold rd_item in E. destruct (heap w a) as [[rc n|sz]|] eqn:Ea; try discriminate E.
  injection E as <- <-. split; [eapply caps_same; [exact C|reflexivity]|]. cbn [snd]. eapply C. exact Ea.
Qed.
Lemma kq_bind_rd {B} a (f : N * node -> M B) (R : B -> Prop) :
  (forall rc n, node_ok n -> keepsQ (f (rc, n)) R) -> keepsQ (bind (rd_item a) f) R.
Proof. intros H. eapply kq_bind; [apply kq_rd|]. intros [rc n] Hn. apply H. exact Hn. Qed.
Lemma kq_wr a rc n : node_ok n -> keeps (wr_item a rc n).
Proof.
  intros Hn w r w' C E. unfold wr_item in E. destruct (heap w a) as [[rc0 n0|sz]|]; try discriminate E.
  injection E as _ <-. split; [|exact I]. eapply caps_upd; [exact C|reflexivity|].
  intros rc1 n1 H. injection H as _ <-. exact Hn.
Qed.
Lemma kq_touch wr p : keeps (touch_data wr p).
Proof.
  intros w r w' C E. unfold touch_data in E. destruct p as [d|]; [|discriminate E].
  destruct (heap w d) as [[rc n|sz]|]; try discriminate E. injection E as _ <-.
  split; [eapply caps_same; [exact C|reflexivity]|exact I].
Qed.
Lemma kq_assert id b : keeps (assert_ id b).
Proof. destruct b; [apply kq_ret; exact I|apply kq_fail]. Qed.
Lemma kq_free p : keeps (free p).
Proof.
  intros w r w' C E. unfold free in E. destruct p as [a|].
  - destruct (heap w a); [|discriminate E]. injection E as _ <-. split; [|exact I].
    eapply caps_upd; [exact C|reflexivity|]. intros rc n H. discriminate H.
  - injection E as _ <-. split; [eapply caps_same; [exact C|reflexivity]|exact I].
Qed.

Section K.
Variable refuse : N -> N -> bool.

Lemma kq_malloc sz c : cell_ok c -> keeps (malloc refuse sz c).
Proof.
  intros Hc w r w' C E. unfold malloc in E. destruct (refuse (nreq w) sz); injection E as _ <-; (split; [|exact I]).
  - eapply caps_same; [exact C|reflexivity].
  - eapply caps_upd; [exact C|reflexivity|]. intros rc n H. injection H as ->. exact Hc.
Qed.
Lemma kq_realloc old sz : keeps (realloc refuse old sz).
Proof.
  intros w r w' C E. unfold realloc in E. destruct (realloc_bad old w); [discriminate E|].
  destruct (refuse (nreq w) sz); injection E as _ <-; (split; [|exact I]).
  - eapply caps_same; [exact C|reflexivity].
  - intros b rc n H. cbn [heap] in H. unfold upd in H. destruct (N.eqb_spec b (next w)); [discriminate H|].
    destruct old as [o|]; [|eapply C; exact H]. unfold upd in H. destruct (N.eqb_spec b o); [discriminate H|].
    eapply C; exact H.
Qed.

Lemma kq_incref a : keeps (incref a).
Proof.
  unfold incref. apply kq_bind_rd. intros rc n Hn. cbn [fst snd].
  apply kq_bindT; [apply kq_wr; exact Hn|]. intros _. apply kq_ret. exact I.
Qed.
Lemma kq_move a : keeps (move a).
Proof.
  unfold move. apply kq_bind_rd. intros rc n Hn. cbn [fst snd].
  apply kq_bindT; [apply kq_wr; exact Hn|]. intros _. apply kq_ret. exact I.
Qed.

Lemma kq_drain : forall fuel ts, keeps (drain fuel ts).
Proof.
  induction fuel as [|f IH]; intros ts; cbn [drain].
  - destruct ts; [apply kq_ret; exact I|apply kq_fail].
  - destruct ts as [|[a|p|a] r]; [apply kq_ret; exact I| | |].
    + apply kq_bind_rd. intros rc n Hn. cbn [fst snd].
      apply kq_bindT; [apply kq_assert|]. intros _.
      destruct (rc =? 1); (apply kq_bindT; [apply kq_wr; exact Hn|]); intros _; apply IH.
    + apply kq_bindT; [apply kq_free|]. intros _. apply IH.
    + apply kq_bindT; [apply kq_free|]. intros _. apply IH.
Qed.
Lemma kq_decref a : keeps (decref a).
Proof. intros w r w' C E. unfold decref in E. eapply kq_drain; eassumption. Qed.

(* growth: the new capacity is larger and still a size_t *)
Lemma kq_grow data isz al : isz < 2 ^ 64 -> al < 2 ^ 64 ->
  keepsQ (grow refuse data isz al)
         (fun g => match g with None => True | Some (c', _) => al < c' /\ c' < 2 ^ 64 end).
Proof.
  intros Hs Ha. unfold grow.
  destruct (grow_capacity 64 al) as [c0|] eqn:G; [|apply kq_ret; exact I].
  destruct (alloc_multiple_req 64 isz c0) as [b0|] eqn:A; [|apply kq_ret; exact I].
  destruct (grow_spec 64 al c0 ltac:(lia) Ha G) as (Hc & Hlt & Hc64).
  apply kq_bindT; [apply kq_realloc|]. intros [d|]; apply kq_ret; [split; assumption|exact I].
Qed.

Lemma len_snoc {X} (l : list X) x : len (l ++ [x]) = len l + 1.
Proof. rewrite len_app. reflexivity. Qed.

Lemma kq_array_push a x : keeps (array_push refuse a x).
Proof.
  unfold array_push. apply kq_bind_rd. intros rc n Hn. cbn [fst snd].
  destruct n as [neg iw v|fw bits|v|text data bytes|text hdr arr cap chunks|indef data al elems|indef data al pairs|v c];
    try apply kq_fail.
  destruct indef; cbn [node_ok capinvA] in Hn.
  - destruct Hn as (C1 & C2 & C3).
    eapply kq_bind with (Q := fun st => match st with None => True | Some (d', c') => capinvA true d' c' (elems ++ [x]) end).
    + destruct (N.leb_spec al (len elems)) as [Le|Gt].
      * eapply kq_bind; [apply (kq_grow data SZ_PTR al); [reflexivity|exact C2]|].
        intros [[c' d']|] Hg; apply kq_ret; [|exact I].
        cbn [capinvA]. rewrite len_snoc. split; [discriminate|]. split; lia.
      * apply kq_ret. cbn [capinvA]. rewrite len_snoc. split; [exact C1|]. split; [exact C2|lia].
    + intros [[d' c']|] Hst; [|apply kq_ret; exact I].
      apply kq_bindT; [apply kq_touch|]. intros _.
      apply kq_bindT; [apply kq_wr; exact Hst|]. intros _.
      apply kq_bindT; [apply kq_incref|]. intros _. apply kq_ret. exact I.
  - destruct (al <=? len elems); [apply kq_ret; exact I|].
    apply kq_bindT; [apply kq_touch|]. intros _.
    apply kq_bindT; [apply kq_wr; exact Hn|]. intros _.
    apply kq_bindT; [apply kq_incref|]. intros _. apply kq_ret. exact I.
Qed.

Lemma kq_add_chunk a x : keeps (add_chunk refuse a x).
Proof.
  unfold add_chunk. apply kq_bind_rd. intros rc n Hn. cbn [fst snd].
  destruct n as [neg iw v|fw bits|v|text data bytes|text hdr arr cap chunks|indef data al elems|indef data al pairs|v c];
    try apply kq_fail.
  cbn [node_ok] in Hn. destruct Hn as (C1 & C2 & C3).
  apply kq_bindT.
  { unfold chunk_assert. destruct text; [apply kq_ret; exact I|]. apply kq_bind_rd. intros rcx nx _. cbn [snd].
    destruct nx as [| | |[|] ? ?|[|] ? ? ? ?| | |]; first [apply kq_ret; exact I|apply kq_fail]. }
  intros _.
  apply kq_bindT; [apply kq_touch|]. intros _.
  eapply kq_bind with (Q := fun st => match st with None => True | Some (d', c') => capinvC d' c' (chunks ++ [x]) end).
  - destruct (N.eqb_spec (len chunks) cap) as [Eq|Ne].
    + eapply kq_bind; [apply (kq_grow arr SZ_PTR cap); [reflexivity|exact C2]|].
      intros [[c' d']|] Hg; [|apply kq_ret; exact I].
      apply kq_bindT; [apply kq_touch|]. intros _. apply kq_ret.
      unfold capinvC. rewrite len_snoc. split; [discriminate|]. split; lia.
    + apply kq_ret. unfold capinvC. rewrite len_snoc. split; [exact C1|]. split; [exact C2|lia].
  - intros [[d' c']|] Hst; [|apply kq_ret; exact I].
    apply kq_bindT; [apply kq_incref|]. intros _.
    apply kq_bindT; [apply kq_touch|]. intros _.
    apply kq_bindT; [apply kq_touch|]. intros _.
    apply kq_bindT; [apply kq_wr; exact Hst|]. intros _. apply kq_ret. exact I.
Qed.

Lemma kq_map_add_key a k : keeps (map_add_key refuse a k).
Proof.
  unfold map_add_key. apply kq_bind_rd. intros rc n Hn. cbn [fst snd].
  destruct n as [neg iw v|fw bits|v|text data bytes|text hdr arr cap chunks|indef data al elems|indef data al pairs|v c];
    try apply kq_fail.
  destruct indef; cbn [node_ok capinvM] in Hn.
  - destruct Hn as (C1 & C2 & C3).
    eapply kq_bind with (Q := fun st => match st with None => True | Some (d', c') => capinvM true d' c' (pairs ++ [(k, None)]) end).
    + destruct (N.leb_spec al (len pairs)) as [Le|Gt].
      * eapply kq_bind; [apply (kq_grow data SZ_PAIR al); [reflexivity|exact C2]|].
        intros [[c' d']|] Hg; apply kq_ret; [|exact I].
        cbn [capinvM]. rewrite len_snoc. split; [discriminate|]. split; lia.
      * apply kq_ret. cbn [capinvM]. rewrite len_snoc. split; [exact C1|]. split; [exact C2|lia].
    + intros [[d' c']|] Hst; [|apply kq_ret; exact I].
      apply kq_bindT; [apply kq_touch|]. intros _.
      apply kq_bindT; [apply kq_wr; exact Hst|]. intros _.
      apply kq_bindT; [apply kq_incref|]. intros _. apply kq_ret. exact I.
  - destruct (al <=? len pairs); [apply kq_ret; exact I|].
    apply kq_bindT; [apply kq_touch|]. intros _.
    apply kq_bindT; [apply kq_wr; exact Hn|]. intros _.
    apply kq_bindT; [apply kq_incref|]. intros _. apply kq_ret. exact I.
Qed.

Lemma kq_map_add_value a v : keeps (map_add_value a v).
Proof.
  unfold map_add_value. apply kq_bindT; [apply kq_incref|]. intros _.
  apply kq_bind_rd. intros rc n Hn. cbn [fst snd].
  destruct n as [neg iw v0|fw bits|v0|text data bytes|text hdr arr cap chunks|indef data al elems|indef data al pairs|v0 c];
    try apply kq_fail.
  destruct (rev pairs) as [|[k o] rp] eqn:R; [apply kq_fail|].
  apply kq_bindT; [apply kq_touch|]. intros _.
  apply kq_bindT; [|intros _; apply kq_ret; exact I]. apply kq_wr.
  assert (Hl : len (rev rp ++ [(k, Some v)]) = len pairs).
  { rewrite <- (rev_involutive pairs), R. cbn [rev]. unfold len. rewrite !app_length. reflexivity. }
  cbn [node_ok] in *. destruct indef; cbn [capinvM] in *; [rewrite Hl|]; exact Hn.
Qed.

Lemma kq_map_add a k v : keeps (map_add refuse a k v).
Proof.
  unfold map_add. apply kq_bindT; [apply kq_map_add_key|]. intros [|]; [apply kq_map_add_value|apply kq_ret; exact I].
Qed.

Lemma kq_tag_set t x : keeps (tag_set_item t x).
Proof.
  unfold tag_set_item. apply kq_bindT; [apply kq_incref|]. intros _.
  apply kq_bind_rd. intros rc n Hn. cbn [fst snd].
  destruct n; try apply kq_fail. apply kq_wr. exact I.
Qed.
Lemma kq_tag_item t : keeps (tag_item t).
Proof.
  unfold tag_item. apply kq_bind_rd. intros rc n Hn. cbn [fst snd].
  destruct n as [| | | | | | |v [x|]]; try apply kq_fail. apply kq_incref.
Qed.
Lemma kq_build_tag v x : keeps (build_tag refuse v x).
Proof.
  unfold build_tag, new_tag. apply kq_bindT; [apply kq_malloc; exact I|].
  intros [t|]; [|apply kq_ret; exact I]. apply kq_bindT; [apply kq_tag_set|]. intros _. apply kq_ret. exact I.
Qed.

Lemma kq_array_get a i : keeps (array_get a i).
Proof.
  unfold array_get. apply kq_bind_rd. intros rc n Hn. cbn [fst snd].
  destruct n; try apply kq_fail. destruct (len elems <=? i); [apply kq_ret; exact I|].
  apply kq_bindT; [apply kq_touch|]. intros _.
  destruct (nth_error elems (N.to_nat i)); [|apply kq_fail].
  apply kq_bindT; [apply kq_incref|]. intros _. apply kq_ret. exact I.
Qed.

Lemma kq_array_replace a i v : keeps (array_replace a i v).
Proof.
  unfold array_replace. apply kq_bind_rd. intros rc n Hn. cbn [fst snd].
  destruct n as [neg iw v0|fw bits|v0|text data bytes|text hdr arr cap chunks|indef data al elems|indef data al pairs|v0 c];
    try apply kq_fail.
  destruct (len elems <=? i); [apply kq_ret; exact I|].
  apply kq_bindT; [apply kq_touch|]. intros _.
  destruct (nth_error elems (N.to_nat i)) as [old|]; [|apply kq_fail].
  apply kq_bindT; [apply kq_decref|]. intros _.
  apply kq_bindT; [apply kq_incref|]. intros _.
  apply kq_bind_rd. intros rc' n' _. cbn [fst snd].
  apply kq_bindT; [apply kq_touch|]. intros _.
  apply kq_bindT; [|intros _; apply kq_ret; exact I]. apply kq_wr.
  cbn [node_ok] in *. destruct indef; cbn [capinvA] in *; [rewrite len_set_nth|]; exact Hn.
Qed.

Lemma kq_array_set a i v : keeps (array_set refuse a i v).
Proof.
  unfold array_set. apply kq_bind_rd. intros rc n Hn. cbn [fst snd].
  destruct n; try apply kq_fail.
  destruct (i =? len elems); [apply kq_array_push|].
  destruct (i <? len elems); [apply kq_array_replace|apply kq_ret; exact I].
Qed.

(* constructors *)
Lemma kq_new_definite_string text : keeps (new_definite_string refuse text).
Proof. apply kq_malloc. exact I. Qed.

Lemma kq_build_string text bytes : keeps (build_string refuse text bytes).
Proof.
  unfold build_string. apply kq_bindT; [apply kq_new_definite_string|]. intros [a|]; [|apply kq_ret; exact I].
  apply kq_bindT; [apply kq_malloc; exact I|]. intros [d|].
  - apply kq_bindT; [apply kq_wr; exact I|]. intros _. apply kq_ret. exact I.
  - apply kq_bindT; [apply kq_free|]. intros _. apply kq_ret. exact I.
Qed.

Lemma kq_new_indefinite_string text : keeps (new_indefinite_string refuse text).
Proof.
  unfold new_indefinite_string. apply kq_bindT; [apply kq_malloc; exact I|]. intros [a|]; [|apply kq_ret; exact I].
  apply kq_bindT; [apply kq_malloc; exact I|]. intros [h|].
  - apply kq_bindT; [|intros _; apply kq_ret; exact I]. apply kq_wr. cbn [node_ok]. unfold capinvC.
    split; [reflexivity|]. split; [reflexivity|]. cbn. lia.
  - apply kq_bindT; [apply kq_free|]. intros _. apply kq_ret. exact I.
Qed.

Ltac caps_explicit C :=
  let b := fresh "b" in let rc := fresh "rc" in let n := fresh "n" in let H := fresh "H" in
  intros b rc n H; unfold w_fail1, w_fail_guard, w_fail2, w_built in H; wsimpl_in H; unfold upd in H;
  repeat match type of H with
  | context [N.eqb ?x ?y] => destruct (N.eqb_spec x y)
  end; try discriminate H; try (eapply C; exact H); try (injection H as _ <-).

(* the definite containers pass through a transient node without data block: atomically *)
Lemma kq_new_definite_array n : keeps (new_definite_array refuse n).
Proof.
  intros w r w' C E. rewrite new_definite_array_cases in E. cbv zeta in E. split; [|exact I].
  destruct (refuse (nreq w) SZ_ITEM); [injection E as _ <-; caps_explicit C|].
  destruct (alloc_multiple_req 64 SZ_PTR n) as [bytes|]; [|injection E as _ <-; caps_explicit C].
  destruct (refuse (nreq w + 1) bytes); injection E as _ <-; caps_explicit C.
  cbn [node_ok capinvA]. eauto.
Qed.
Lemma kq_new_definite_map n : keeps (new_definite_map refuse n).
Proof.
  intros w r w' C E. rewrite new_definite_map_cases in E. cbv zeta in E. split; [|exact I].
  destruct (refuse (nreq w) SZ_ITEM); [injection E as _ <-; caps_explicit C|].
  destruct (alloc_multiple_req 64 SZ_PAIR n) as [bytes|]; [|injection E as _ <-; caps_explicit C].
  destruct (refuse (nreq w + 1) bytes); injection E as _ <-; caps_explicit C.
  cbn [node_ok capinvM]. eauto.
Qed.
Lemma kq_new_indefinite_array : keeps (new_indefinite_array refuse).
Proof. apply kq_malloc. cbn [cell_ok node_ok capinvA]. split; [reflexivity|]. split; [reflexivity|]. cbn. lia. Qed.
Lemma kq_new_indefinite_map : keeps (new_indefinite_map refuse).
Proof. apply kq_malloc. cbn [cell_ok node_ok capinvM]. split; [reflexivity|]. split; [reflexivity|]. cbn. lia. Qed.
Lemma kq_new_tag v : keeps (new_tag refuse v).
Proof. apply kq_malloc. exact I. Qed.

End K.

Create HintDb kq.
#[export] Hint Resolve kq_touch kq_free kq_assert kq_incref kq_move kq_decref kq_array_push kq_add_chunk
  kq_map_add_key kq_map_add_value kq_map_add kq_tag_set kq_tag_item kq_build_tag kq_array_get
  kq_array_replace kq_array_set kq_new_definite_string kq_build_string kq_new_indefinite_string
  kq_new_definite_array kq_new_definite_map kq_new_indefinite_array kq_new_indefinite_map kq_new_tag
  kq_realloc : kq.

Ltac kq_go :=
  first
  [ solve [eauto with kq]
  | apply kq_ret; exact I
  | apply kq_fail
  | apply kq_bind_rd; intros ? ? ?; cbn [fst snd]; kq_go
  | apply kq_bindT; [ kq_go | intros ?; kq_go ]
  | match goal with |- keepsQ (if ?b then _ else _) _ => destruct b; kq_go end
  | match goal with |- keepsQ (match ?x with _ => _ end) _ => destruct x; kq_go end ].
Ltac kq_auto := solve [kq_go].

Section K2.
Variable refuse : N -> N -> bool.

Lemma kq_build_int neg iw v : keeps (build_int refuse neg iw v).
Proof. apply kq_malloc. exact I. Qed.
Lemma kq_build_float fw b : keeps (build_float refuse fw b).
Proof. apply kq_malloc. exact I. Qed.
Lemma kq_build_ctrl v : keeps (build_ctrl refuse v).
Proof. apply kq_malloc. exact I. Qed.
Hint Resolve kq_build_int kq_build_float kq_build_ctrl : kq.

Lemma kq_copy : forall f a, keeps (copy refuse f a).
Proof.
  induction f as [|f IH]; intros a; [apply kq_fail|].
  cbn [copy]. apply kq_bind_rd. intros rc n Hn. cbn [fst snd].
  destruct n as [neg iw v|fw bits|v|text data bytes|text hdr arr cap chunks|indef data al elems|indef data al pairs|v c].
  - kq_auto.
  - kq_auto.
  - kq_auto.
  - kq_auto.
  - apply kq_bindT; [eauto with kq|]. intros [res|]; [|kq_auto].
    change (keeps (chk_loop refuse f res chunks)). clear Hn.
    induction chunks as [|ch rest IHc]; cbn [chk_loop]; [kq_auto|].
    apply kq_bindT; [apply IH|]. intros [cc|]; [|kq_auto].
    apply kq_bindT; [eauto with kq|]. intros [|]; [|kq_auto].
    apply kq_bindT; [eauto with kq|]. intros _. apply IHc.
  - apply kq_bindT; [destruct indef; eauto with kq|]. intros [res|]; [|kq_auto].
    change (keeps (arr_loop refuse f res data elems)). clear Hn.
    induction elems as [|e rest IHc]; cbn [arr_loop]; [kq_auto|].
    apply kq_bindT; [eauto with kq|]. intros _.
    apply kq_bindT; [eauto with kq|]. intros _.
    apply kq_bindT; [eauto with kq|]. intros _.
    apply kq_bindT; [apply IH|]. intros [cc|]; [|kq_auto].
    apply kq_bindT; [eauto with kq|]. intros [|]; [|kq_auto].
    apply kq_bindT; [eauto with kq|]. intros _. apply IHc.
  - apply kq_bindT; [destruct indef; eauto with kq|]. intros [res|]; [|kq_auto].
    change (keeps (map_loop refuse f res data pairs)). clear Hn.
    induction pairs as [|[k ov] rest IHc]; cbn [map_loop]; [kq_auto|].
    apply kq_bindT; [eauto with kq|]. intros _.
    apply kq_bindT; [apply IH|]. intros [kc|]; [|kq_auto].
    destruct ov as [v0|]; [|kq_auto].
    apply kq_bindT; [apply IH|]. intros [vc|]; [|kq_auto].
    apply kq_bindT; [eauto with kq|]. intros [|]; [|kq_auto].
    apply kq_bindT; [eauto with kq|]. intros _.
    apply kq_bindT; [eauto with kq|]. intros _. apply IHc.
  - destruct c as [x|]; [|kq_auto].
    apply kq_bindT; [eauto with kq|]. intros _.
    apply kq_bindT; [eauto with kq|]. intros _.
    apply kq_bindT; [apply IH|]. intros [ic|]; [|kq_auto]. kq_auto.
Qed.

Lemma kq_copy_h a : keeps (copy_h refuse a).
Proof. intros w r w' C E. unfold copy_h in E. eapply kq_copy; eassumption. Qed.

Variable L : N.

Lemma kq_stack_pop r : keeps (stack_pop r).
Proof. apply kq_free. Qed.
Hint Resolve kq_stack_pop : kq.

Lemma kq_happend : forall stk it, keeps (happend refuse it stk).
Proof.
  induction stk as [|[[rec top] sub] rest IH]; intros it; cbn [happend]; [kq_auto|].
  apply kq_bind_rd. intros rc n Hn. cbn [fst snd].
  destruct n as [neg iw v|fw bits|v|text data bytes|text hdr arr cap chunks|indef data al elems|indef data al pairs|v c];
    kq_auto.
Qed.
Hint Resolve kq_happend : kq.

Lemma kq_malloc_data sz : keeps (malloc refuse sz (CData sz)).
Proof. apply kq_malloc. exact I. Qed.
Hint Resolve kq_malloc_data : kq.

Lemma kq_push_ctx res sub stk : keeps (push_ctx refuse L res sub stk).
Proof. unfold push_ctx. kq_auto. Qed.
Hint Resolve kq_push_ctx : kq.

Lemma kq_leaf_cb mk stk : keeps mk -> keeps (leaf_cb refuse mk stk).
Proof. intros H. unfold leaf_cb. apply kq_bindT; [exact H|]. intros [a|]; kq_auto. Qed.

Lemma kq_string_cb text d stk : keeps (string_cb refuse text d stk).
Proof.
  unfold string_cb. apply kq_bindT; [eauto with kq|]. intros [handle|]; [|kq_auto].
  apply kq_bindT; [eauto with kq|]. intros [chunk|]; [|kq_auto].
  apply kq_bindT; [apply kq_wr; exact I|]. intros _.
  destruct stk as [|[[rec top] sub] rest]; [kq_auto|].
  apply kq_bind_rd. intros rc n Hn. cbn [fst snd]. destruct n; kq_auto.
Qed.

Lemma kq_hcallback tk stk : keeps (hcallback refuse L tk stk).
Proof.
  destruct tk; cbn [hcallback]; try (apply kq_leaf_cb; eauto with kq); try apply kq_string_cb;
    try solve [kq_auto].
Qed.

Lemma kq_unwind : forall stk, keeps (unwind stk).
Proof.
  induction stk as [|[[rec top] sub] rest IH]; cbn [unwind]; [kq_auto|].
  apply kq_bindT; [eauto with kq|]. intros _. apply kq_bindT; [eauto with kq|]. intros _. apply IH.
Qed.
Hint Resolve kq_unwind kq_hcallback : kq.

Lemma kq_hload_loop : forall fuel buf read stk, keeps (hload_loop refuse L fuel buf read stk).
Proof.
  induction fuel as [|f IH]; intros buf read stk; cbn [hload_loop]; [apply kq_fail|].
  destruct (len buf <=? read); [kq_auto|].
  destruct (stream_decode (skipnN read buf)) as [|r e]; [kq_auto|].
  destruct (st r); kq_auto.
Qed.

Lemma kq_load_h buf : keeps (load_h refuse L buf).
Proof. unfold load_h. destruct (len buf =? 0); [kq_auto|apply kq_hload_loop]. Qed.

End K2.

Section K3.
Variable refuse : N -> N -> bool.
Variable L : N.

Lemma kq_abs_of a : keeps (abs_of a).
Proof.
  intros w r w' C E. unfold abs_of in E. destruct (abs_readonly _ _ _ _ _ E) as [H _].
  split; [eapply caps_same; [exact C|exact H]|exact I].
Qed.
Hint Resolve kq_abs_of kq_copy_h kq_load_h kq_build_int kq_build_float kq_build_ctrl kq_malloc_data : kq.

(* every API call keeps the capacity metadata consistent (no side condition) *)
Theorem step_caps s o : keeps (step refuse L s o).
Proof.
  destruct o; cbn [step]; unfold newh, with1, with1h, with2, serialized_size_h, serialize_h, serialize_alloc_h;
    kq_auto.
Qed.

End K3.

(* ------------------------------------------------------------------------------------------ *)
(* 4. the client, the ownership rules, one step                                                *)
(* ------------------------------------------------------------------------------------------ *)

(* The client's state is its handle table [s : cstate] together with [own : addr -> N], the number
   of references it holds to each item.  [own] is NOT a function of the handle table: a handle can
   be used again after cbor_incref / cbor_decref, several handles may denote the same item
   (cbor_array_get returns an item the client may already hold), and a handle whose reference has
   been given back stays in the table. *)

Definition new_handle (s' : cstate) : option addr := last (handles s') None.

Lemma new_handle_hpush s r : new_handle (hpush s r) = r.
Proof. unfold new_handle, hpush. cbn [handles]. apply last_last. Qed.

(* the ownership transition of one call: a call that returns a new reference (constructor, get,
   tag_item, copy, load) adds one for the returned item (nothing for NULL); incref +1; decref -1;
   every other call leaves the client's references as they are (a container that stores an item
   takes its own reference) *)
Definition own_after (s : cstate) (o : op) (own : addr -> N) (s' : cstate) : addr -> N :=
  match o with
  | OIncref h => match hget s h with Some a => own1 own a | None => own end
  | ODecref h => match hget s h with Some a => own_dec own a | None => own end
  | OPush _ _ | OSet _ _ _ | OReplace _ _ _ | OMapAdd _ _ _ | OAddChunk _ _ | OTagSet _ _
  | OSerSize _ | OSerialize _ _ | OSerAlloc _ => own
  | _ => match new_handle s' with Some a => own1 own a | None => own end
  end.

(* The rules.  A NULL operand handle makes the client skip the call (HHist.step), so every clause is
   conditional on the operand handles being non-NULL.
   - for each operand the client must hold a reference ([0 < own p]): an item is never used after
     the client's last reference to it has been given back;
   - an item that is about to receive one more reference must have room in its size_t count
     ([rc_room]; two more when cbor_map_add gets the same item as key and as value);
   - type preconditions of the accessors (cbor_isa_array, cbor_isa_map, indefinite string, tag)
     appear as the node shape of the operand;
   - the chunk given to cbor_bytestring_add_chunk / cbor_string_add_chunk is a DEFINITE string of
     the SAME kind as the chunked string (documented; the byte-string function asserts it,
     [chunk_assert] = FAssert 20 / 21; for text strings the next cbor_serialize_string asserts
     it, [chunk_bytes] = FAssert 73, AUDIT.md D3 / D3b);
   - an item is not inserted into itself ([p <> q]; part of the no-cycle rule), and
     cbor_array_replace / cbor_array_set do not overwrite a slot that holds the array itself;
   - cbor_tag_set_item only on a tag that has no item yet (the library does not release the old
     item: it would leak); cbor_tag_item only on a tag that has one (NULL dereference otherwise);
   - cbor_copy on complete trees ([shaped], HCopy_proofs), the serializers on complete trees
     ([readable] = "the abstraction [abs] of the item exists", readable_iff_abs);
   - cbor_load on byte strings shorter than SIZE_MAX.
   All 26 constructors of [op] are covered.  cbor_array_replace may overwrite (and thereby release)
   the last reference to the old element.  The consistency of the containers' capacity metadata
   needed by the per-operation lemmas of HCont_proofs is not a rule: it is the invariant [caps]. *)
Definition legal (s : cstate) (own : addr -> N) (w : world) (o : op) : Prop :=
  match o with
  | OBuildInt _ _ _ | OBuildFloat _ _ | OBuildCtrl _ | OBuildString _ _ | ONewIndefString _
  | ONewDefArray _ | ONewIndefArray | ONewDefMap _ | ONewIndefMap | ONewTag _ => True
  | OBuildTag _ x => forall q, hget s x = Some q -> 0 < own q /\ rc_room w q
  | OPush a x => forall p q, hget s a = Some p -> hget s x = Some q ->
      0 < own p /\ 0 < own q /\ p <> q /\ rc_room w q /\
      exists rc indef d c l, heap w p = Some (CItem rc (NArr indef d c l))
  | OGet a i => forall p, hget s a = Some p ->
      0 < own p /\
      exists rc indef d c l, heap w p = Some (CItem rc (NArr indef d c l)) /\
        forall e, nth_error l (N.to_nat i) = Some e -> rc_room w e
  | OSet a i x | OReplace a i x => forall p q, hget s a = Some p -> hget s x = Some q ->
      0 < own p /\ 0 < own q /\ p <> q /\ rc_room w q /\
      exists rc indef d c l, heap w p = Some (CItem rc (NArr indef d c l)) /\
        forall old, nth_error l (N.to_nat i) = Some old -> old <> p
  | OMapAdd m k v => forall p q r, hget s m = Some p -> hget s k = Some q -> hget s v = Some r ->
      0 < own p /\ 0 < own q /\ 0 < own r /\ p <> q /\ p <> r /\ rc_room w q /\ rc_room w r /\
      (q = r -> forall rc n, heap w q = Some (CItem rc n) -> rc + 2 < W64) /\
      exists rc indef d c l, heap w p = Some (CItem rc (NMap indef d c l))
  | OAddChunk c x => forall p q, hget s c = Some p -> hget s x = Some q ->
      0 < own p /\ 0 < own q /\ p <> q /\ rc_room w q /\
      exists rc text hdr d c l, heap w p = Some (CItem rc (NChunked text hdr d c l)) /\
        (* the chunk is a definite string of the same kind (asserted by cbor_bytestring_add_chunk) *)
        exists rcq dq bq, heap w q = Some (CItem rcq (NStr text dq bq))
  | OTagSet t x => forall p q, hget s t = Some p -> hget s x = Some q ->
      0 < own p /\ 0 < own q /\ p <> q /\ rc_room w q /\
      exists rc v, heap w p = Some (CItem rc (NTag v None))
  | OTagItem t => forall p, hget s t = Some p ->
      0 < own p /\ exists rc v x, heap w p = Some (CItem rc (NTag v (Some x))) /\ rc_room w x
  | OIncref h => forall p, hget s h = Some p -> 0 < own p /\ rc_room w p
  | ODecref h => forall p, hget s h = Some p -> 0 < own p
  | OCopy h => forall p, hget s h = Some p -> 0 < own p /\ shaped (abs_fuel w) (heap w) p
  | OLoad bytes => bytes_ok bytes /\ len bytes < SIZE_MAX
  | OSerSize h | OSerialize h _ | OSerAlloc h =>
      forall p, hget s h = Some p -> 0 < own p /\ readable (abs_fuel w) (heap w) p
  end.

Section Step.
Variable refuse : N -> N -> bool.
Variable L : N.

Definition step_post (s : cstate) (o : op) (own ownd : addr -> N) (r : cstate * out) (w' : world) : Prop :=
  Inv (own_after s o own (fst r)) ownd [] w'.

Lemma wp_newh s m w own ownd :
  wp m w (ctor_Inv own ownd) ->
  wp (newh s m) w (fun r w' => Inv (match new_handle (fst r) with Some a => own1 own a | None => own end) ownd [] w').
Proof.
  intros H. unfold newh. apply wp_bind. eapply wp_mono; [exact H|]. intros r w' P. apply wp_ret.
  cbn [fst]. rewrite new_handle_hpush. exact P.
Qed.

Lemma wp_skiph s w own ownd (o : out) :
  Inv own ownd [] w ->
  wp (ret (hpush s None, o)) w
     (fun r w' => Inv (match new_handle (fst r) with Some a => own1 own a | None => own end) ownd [] w').
Proof. intros I. apply wp_ret. cbn [fst]. rewrite new_handle_hpush. exact I. Qed.

(* C04, one call: a legal call returns (it never faults: no touch after release, no double
   release, no NULL or mistyped access, no failed assertion) and re-establishes the accounting
   invariant for the client's updated ownership *)
Theorem C04_step_wp s own ownd w o :
  Inv own ownd [] w -> caps w -> legal s own w o -> wp (step refuse L s o) w (step_post s o own ownd).
Proof.
  intros I Cw Lg. unfold step_post.
  destruct o as [neg iw v|fw bits|v|text bytes|text|n| |n| |v|v x|a x|a i|a i x|a i x|m k v|c x|t x|t|h|h|h|bytes|h|h n|h];
    cbn [step legal own_after] in *.
  - apply wp_newh. apply ctor1_Inv; [exact I|reflexivity|reflexivity].
  - apply wp_newh. apply ctor1_Inv; [exact I|reflexivity|reflexivity].
  - apply wp_newh. apply ctor1_Inv; [exact I|reflexivity|reflexivity].
  - apply wp_newh. apply build_string_Inv. exact I.
  - apply wp_newh. apply new_indefinite_string_Inv. exact I.
  - apply wp_newh. apply new_definite_array_Inv. exact I.
  - apply wp_newh. apply ctor1_Inv; [exact I|reflexivity|reflexivity].
  - apply wp_newh. apply new_definite_map_Inv. exact I.
  - apply wp_newh. apply ctor1_Inv; [exact I|reflexivity|reflexivity].
  - apply wp_newh. apply ctor1_Inv; [exact I|reflexivity|reflexivity].
  - (* OBuildTag *)
    unfold with1h. destruct (hget s x) as [q|]; [|apply wp_skiph; exact I].
    destruct (Lg q eq_refl) as [Oq Rq]. apply wp_newh. apply build_tag_Inv; assumption.
  - (* OPush *)
    unfold with2. destruct (hget s a) as [p|]; [|apply wp_ret; exact I].
    destruct (hget s x) as [q|]; [|apply wp_ret; exact I].
    destruct (Lg p q eq_refl eq_refl) as (Op & Oq & Hpq & Rq & rc & indef & d & c & l & Ep).
    pose proof (Cw _ _ _ Ep) as Cap. cbn [node_ok] in Cap.
    apply wp_bind. eapply wp_mono; [eapply array_push_Inv; eassumption|].
    intros b w' I'. apply wp_ret. exact I'.
  - (* OGet *)
    unfold with1h. destruct (hget s a) as [p|]; [|apply wp_skiph; exact I].
    destruct (Lg p eq_refl) as (Op & rc & indef & d & c & l & Ep & Re).
    pose proof (Cw _ _ _ Ep) as Cap. cbn [node_ok] in Cap.
    apply wp_newh. eapply array_get_Inv; eassumption.
  - (* OSet *)
    unfold with2. destruct (hget s a) as [p|]; [|apply wp_ret; exact I].
    destruct (hget s x) as [q|]; [|apply wp_ret; exact I].
    destruct (Lg p q eq_refl eq_refl) as (Op & Oq & Hpq & Rq & rc & indef & d & c & l & Ep & Sh).
    pose proof (Cw _ _ _ Ep) as Cap. cbn [node_ok] in Cap.
    apply wp_bind. eapply wp_mono; [eapply array_set_Inv; eassumption|].
    intros b w' I'. apply wp_ret. exact I'.
  - (* OReplace *)
    unfold with2. destruct (hget s a) as [p|]; [|apply wp_ret; exact I].
    destruct (hget s x) as [q|]; [|apply wp_ret; exact I].
    destruct (Lg p q eq_refl eq_refl) as (Op & Oq & Hpq & Rq & rc & indef & d & c & l & Ep & Sh).
    pose proof (Cw _ _ _ Ep) as Cap. cbn [node_ok] in Cap.
    apply wp_bind. eapply wp_mono; [eapply array_replace_Inv_gen; eassumption|].
    intros b w' I'. apply wp_ret. exact I'.
  - (* OMapAdd *)
    destruct (hget s v) as [r|]; [|apply wp_ret; exact I].
    unfold with2. destruct (hget s m) as [p|]; [|apply wp_ret; exact I].
    destruct (hget s k) as [q|]; [|apply wp_ret; exact I].
    destruct (Lg p q r eq_refl eq_refl eq_refl)
      as (Op & Oq & Or & Hpq & Hpr & Rq & Rr & R2 & rc & indef & d & c & l & Ep).
    pose proof (Cw _ _ _ Ep) as Cap. cbn [node_ok] in Cap.
    apply wp_bind. eapply wp_mono.
    { destruct (N.eq_dec q r) as [<-|Hqr].
      - eapply map_add_same_Inv; try eassumption. apply R2. reflexivity.
      - eapply map_add_Inv; eassumption. }
    intros b w' I'. apply wp_ret. exact I'.
  - (* OAddChunk *)
    unfold with2. destruct (hget s c) as [p|]; [|apply wp_ret; exact I].
    destruct (hget s x) as [q|]; [|apply wp_ret; exact I].
    destruct (Lg p q eq_refl eq_refl) as (Op & Oq & Hpq & Rq & rc & text & hdr & d & c0 & l & Ep & Eqk).
    pose proof (Cw _ _ _ Ep) as Cap. cbn [node_ok] in Cap.
    apply wp_bind. eapply wp_mono; [eapply add_chunk_Inv; eassumption|].
    intros b w' I'. apply wp_ret. exact I'.
  - (* OTagSet *)
    unfold with2. destruct (hget s t) as [p|]; [|apply wp_ret; exact I].
    destruct (hget s x) as [q|]; [|apply wp_ret; exact I].
    destruct (Lg p q eq_refl eq_refl) as (Op & Oq & Hpq & Rq & rc & v & Ep).
    apply wp_bind. eapply wp_mono; [eapply tag_set_Inv; eassumption|].
    intros b w' I'. apply wp_ret. exact I'.
  - (* OTagItem *)
    unfold with1h. destruct (hget s t) as [p|]; [|apply wp_skiph; exact I].
    destruct (Lg p eq_refl) as (Op & rc & v & x & Ep & Rx).
    apply wp_newh. apply wp_bind. eapply wp_mono; [eapply tag_item_Inv; eassumption|].
    intros r w' [-> I']. apply wp_ret. exact I'.
  - (* OIncref *)
    unfold with1. destruct (hget s h) as [p|]; [|apply wp_ret; exact I].
    destruct (Lg p eq_refl) as [Op Rp].
    apply wp_bind. eapply wp_mono; [eapply incref_Inv; eassumption|].
    intros b w' I'. apply wp_ret. exact I'.
  - (* ODecref *)
    unfold with1. destruct (hget s h) as [p|]; [|apply wp_ret; exact I].
    apply wp_bind. eapply wp_mono; [eapply decref_Inv; [exact I|exact (Lg p eq_refl)]|].
    intros b w' [I' _]. apply wp_ret. exact I'.
  - (* OCopy *)
    unfold with1h. destruct (hget s h) as [p|]; [|apply wp_skiph; exact I].
    destruct (Lg p eq_refl) as [Op Sh]. apply wp_newh. apply copy_h_Inv; assumption.
  - (* OLoad *)
    destruct Lg as [Hb Hl]. apply wp_bind. eapply wp_mono; [eapply load_h_Inv; eassumption|].
    intros [[[oa code] pos] rd] w' P. cbn [fst] in P. unfold ctor_Inv in P.
    destruct oa as [a|]; apply wp_ret; cbn [fst]; rewrite new_handle_hpush; exact P.
  - (* OSerSize *)
    unfold with1. destruct (hget s h) as [p|]; [|apply wp_ret; exact I].
    destruct (Lg p eq_refl) as [Op Rp].
    apply wp_bind. eapply wp_mono; [eapply ser_size_Inv; eassumption|].
    intros b w' I'. apply wp_ret. exact I'.
  - (* OSerialize *)
    unfold with1. destruct (hget s h) as [p|]; [|apply wp_ret; exact I].
    destruct (Lg p eq_refl) as [Op Rp].
    apply wp_bind. eapply wp_mono; [eapply serialize_Inv; eassumption|].
    intros r w' [Hr I']. destruct r as [[wr bytes]|]; [|congruence]. apply wp_ret. exact I'.
  - (* OSerAlloc *)
    unfold with1. destruct (hget s h) as [p|]; [|apply wp_ret; exact I].
    destruct (Lg p eq_refl) as [Op Rp].
    eapply wp_mono; [eapply (ser_alloc_Inv refuse (fun wr bytes => (s, OutBytes wr bytes)) own ownd p w I Rp)|].
    intros r w' I'. exact I'.
Qed.

(* the same in the form: Ret, never Fault *)
Theorem C04_step s own ownd w o :
  Inv own ownd [] w -> wf w -> caps w -> legal s own w o ->
  exists s' out w', step refuse L s o w = Ret (s', out) w' /\
    Inv (own_after s o own s') ownd [] w' /\ wf w' /\ caps w'.
Proof.
  intros I _ Cw Lg. destruct (C04_step_wp s own ownd w o I Cw Lg) as ([s' out] & w' & E & P).
  exists s', out, w'. split; [exact E|]. split; [exact P|]. split; [eapply Inv_wf; exact P|].
  eapply (step_caps refuse L s o); eassumption.
Qed.

Corollary C04_step_no_fault s own ownd w o k :
  Inv own ownd [] w -> caps w -> legal s own w o -> step refuse L s o w <> Fault k.
Proof.
  intros I Cw Lg. destruct (C04_step_wp s own ownd w o I Cw Lg) as (r & w' & E & _). rewrite E. discriminate.
Qed.

End Step.

(* ------------------------------------------------------------------------------------------ *)
(* 5. histories                                                                                *)
(* ------------------------------------------------------------------------------------------ *)

Section Histories.
Variable refuse : N -> N -> bool.
Variable L : N.

(* every call of the history is legal in the state in which it is issued *)
Fixpoint legal_history (ops : list op) (s : cstate) (own : addr -> N) (w : world) : Prop :=
  match ops with
  | [] => True
  | o :: r =>
      legal s own w o /\
      forall s' out w', step refuse L s o w = Ret (s', out) w' ->
        legal_history r s' (own_after s o own s') w'
  end.

(* the client's references after the history *)
Fixpoint own_hist (ops : list op) (s : cstate) (own : addr -> N) (w : world) : addr -> N :=
  match ops with
  | [] => own
  | o :: r =>
      match step refuse L s o w with
      | Ret (s', _) w' => own_hist r s' (own_after s o own s') w'
      | Fault _ => own
      end
  end.

Theorem C04_history_gen : forall ops s own ownd w acc,
  Inv own ownd [] w -> caps w -> legal_history ops s own w ->
  exists s' outs w', run_hist refuse L ops s acc w = Ret (s', outs) w' /\
    Inv (own_hist ops s own w) ownd [] w' /\ caps w'.
Proof.
  induction ops as [|o r IH]; intros s own ownd w acc I Cw Lg.
  - exists s, (rev acc), w. split; [reflexivity|]. split; [exact I|exact Cw].
  - destruct Lg as [Lo Lr].
    destruct (C04_step refuse L s own ownd w o I (Inv_wf _ _ _ _ I) Cw Lo) as (s1 & out & w1 & E & I1 & _ & C1).
    destruct (IH s1 (own_after s o own s1) ownd w1 (out :: acc) I1 C1 (Lr s1 out w1 E)) as (s' & outs & w' & E' & I').
    exists s', outs, w'. cbn [run_hist own_hist]. rewrite E. split; [|exact I'].
    unfold bind. rewrite E. cbn [fst snd]. exact E'.
Qed.

Definition s0 : cstate := mkcs [].
Definition own0 : addr -> N := fun _ => 0.

(* C04 for all API histories (every constructor of [op]): starting from the empty heap with an
   empty handle table, a history that follows the ownership rules runs to its end without a fault
   (no touch after release, no double release, no NULL or mistyped access, no failed assertion),
   and the accounting invariant holds at the end for the client's final references *)
Theorem C04_history : forall ops,
  legal_history ops s0 own0 world0 ->
  exists s' outs w', run_hist refuse L ops s0 [] world0 = Ret (s', outs) w' /\
    Inv (own_hist ops s0 own0 world0) own0 [] w'.
Proof.
  intros ops Lg.
  destruct (C04_history_gen ops s0 own0 own0 world0 [] Inv_world0 caps_world0 Lg) as (s' & outs & w' & E & I & _).
  eauto.
Qed.

(* ... and once the client has dropped all its references nothing obtained through the allocator
   remains (items, payloads, slot arrays, chunk headers, decoder records, output buffers) *)
Corollary C04_history_no_leak : forall ops s' outs w',
  legal_history ops s0 own0 world0 ->
  run_hist refuse L ops s0 [] world0 = Ret (s', outs) w' ->
  (forall a, own_hist ops s0 own0 world0 a = 0) -> acyclic w' ->
  forall a, heap w' a = None.
Proof.
  intros ops s' outs w' Lg E O AC.
  destruct (C04_history ops Lg) as (s1 & outs1 & w1 & E1 & I1).
  rewrite E in E1. injection E1 as <- <- <-.
  eapply no_leak; [exact I1|exact O|reflexivity|exact AC].
Qed.

Corollary C04_history_no_fault : forall ops k,
  legal_history ops s0 own0 world0 -> run_hist refuse L ops s0 [] world0 <> Fault k.
Proof.
  intros ops k Lg. destruct (C04_history ops Lg) as (s1 & outs1 & w1 & E1 & _). rewrite E1. discriminate.
Qed.

End Histories.


(* ------------------------------------------------------------------------------------------ *)
(* 7. the containment graph stays acyclic: every call that follows the no-cycle rule keeps it  *)
(*    so, and the no-leak conclusion needs no hypothesis on the final heap                     *)
(* ------------------------------------------------------------------------------------------ *)

(* push-like operations *)
Lemma gpush_edges m rc n nodeof capinv w x d rcx nx ok w' :
  wf w -> heap w m = Some (CItem rc n) -> heap w x = Some (CItem rcx nx) -> rcx <> 0 ->
  (forall d' c' k, In k (kids (nodeof d' c')) -> In k (kids n) \/ k = x) ->
  gpush_post m rc nodeof capinv w x d rcx nx ok w' ->
  edges_sub (fun a k => a = m /\ k = x) w w'.
Proof.
  intros Hwf Em Ex Rx K P. destruct ok; cbn [gpush_post] in P.
  2:{ destruct P as [Hh _]. eapply edges_sub_weaken; [apply edges_sub_same; exact Hh|intros ? ? []]. }
  destruct P as (d' & c' & _ & Em' & Ex' & P).
  intros a k (rca & na & E & Ra & Ka).
  destruct (N.eq_dec a m) as [->|Ham].
  { rewrite Em' in E. injection E as <- <-. destruct (K _ _ _ Ka) as [H| ->]; [left|right; auto].
    exists rc, n. auto. }
  destruct (N.eq_dec a x) as [->|Hax].
  { rewrite Ex' in E. injection E as _ <-. left. exists rcx, nx. auto. }
  left. exists rca, na. split; [|auto].
  destruct P as [(_ & _ & Ho)|(_ & _ & (sz & En) & Eo & Ho)].
  - rewrite <- Ho by assumption. exact E.
  - rewrite <- Ho; [exact E|exact Ham|exact Hax| |].
    + intros ->. rewrite En in E. discriminate E.
    + intros Hd. rewrite (Eo _ Hd) in E. discriminate E.
Qed.

Lemma mpush_edges indef m rc w q r d c l rcq nq rcr nr ok w' :
  wf w -> heap w m = Some (CItem rc (NMap indef d c l)) ->
  heap w q = Some (CItem rcq nq) -> rcq <> 0 -> heap w r = Some (CItem rcr nr) -> rcr <> 0 ->
  mpush_post indef m rc w q r d l rcq nq rcr nr ok w' ->
  edges_sub (fun a k => a = m /\ (k = q \/ k = r)) w w'.
Proof.
  intros Hwf Em Eq Rq Er Rr P. destruct ok; cbn [mpush_post] in P.
  2:{ destruct P as [Hh _]. eapply edges_sub_weaken; [apply edges_sub_same; exact Hh|intros ? ? []]. }
  destruct P as (d' & c' & _ & Em' & Eq' & Er' & P).
  intros a k (rca & na & E & Ra & Ka).
  destruct (N.eq_dec a m) as [->|Ham].
  { rewrite Em' in E. injection E as <- <-. cbn [kids] in Ka. rewrite flat_map_app in Ka.
    apply in_app_or in Ka. destruct Ka as [Ka|Ka].
    - left. exists rc, (NMap indef d c l). auto.
    - right. cbn in Ka. intuition. }
  destruct (N.eq_dec a q) as [->|Haq].
  { rewrite Eq' in E. injection E as _ <-. left. exists rcq, nq. auto. }
  destruct (N.eq_dec a r) as [->|Har].
  { rewrite Er' in E. injection E as _ <-. left. exists rcr, nr. auto. }
  left. exists rca, na. split; [|auto].
  destruct P as [(_ & _ & Ho)|(_ & _ & (sz & En) & Eo & Ho)].
  - rewrite <- Ho by assumption. exact E.
  - rewrite <- Ho; [exact E|exact Ham|exact Haq|exact Har| |].
    + intros ->. rewrite En in E. discriminate E.
    + intros Hd. rewrite (Eo _ Hd) in E. discriminate E.
Qed.

Lemma msame_edges indef m rc w q d c l rcq nq ok w' :
  wf w -> heap w m = Some (CItem rc (NMap indef d c l)) ->
  heap w q = Some (CItem rcq nq) -> rcq <> 0 ->
  msame_post indef m rc w q d l rcq nq ok w' ->
  edges_sub (fun a k => a = m /\ k = q) w w'.
Proof.
  intros Hwf Em Eq Rq P. destruct ok; cbn [msame_post] in P.
  2:{ destruct P as [Hh _]. eapply edges_sub_weaken; [apply edges_sub_same; exact Hh|intros ? ? []]. }
  destruct P as (d' & c' & Em' & Eq' & P).
  intros a k (rca & na & E & Ra & Ka).
  destruct (N.eq_dec a m) as [->|Ham].
  { rewrite Em' in E. injection E as <- <-. cbn [kids] in Ka. rewrite flat_map_app in Ka.
    apply in_app_or in Ka. destruct Ka as [Ka|Ka].
    - left. exists rc, (NMap indef d c l). auto.
    - right. cbn in Ka. intuition. }
  destruct (N.eq_dec a q) as [->|Haq].
  { rewrite Eq' in E. injection E as _ <-. left. exists rcq, nq. auto. }
  left. exists rca, na. split; [|auto].
  destruct P as [(_ & _ & Ho)|(_ & _ & (sz & En) & Eo & Ho)].
  - rewrite <- Ho by assumption. exact E.
  - rewrite <- Ho; [exact E|exact Ham|exact Haq| |].
    + intros ->. rewrite En in E. discriminate E.
    + intros Hd. rewrite (Eo _ Hd) in E. discriminate E.
Qed.

Lemma wp_and {A} (m : M A) w (Q1 Q2 : A -> world -> Prop) :
  wp m w Q1 -> wp m w Q2 -> wp m w (fun a w' => Q1 a w' /\ Q2 a w').
Proof.
  intros (a1 & w1 & E1 & H1) (a2 & w2 & E2 & H2). rewrite E1 in E2. injection E2 as <- <-.
  exists a1, w1. auto.
Qed.

Section OpsE.
Variable refuse : N -> N -> bool.

Lemma array_push_edges own ownd p q w rc indef d c l :
  Inv own ownd [] w -> heap w p = Some (CItem rc (NArr indef d c l)) -> capinvA indef d c l ->
  0 < own q -> p <> q ->
  wp (array_push refuse p q) w (fun _ w' => edges_sub (fun a k => a = p /\ k = q) w w').
Proof.
  intros I Ep Cap Oq Hpq. destruct (Inv_owned_item _ _ _ _ I Oq) as (rcq & nq & Eq & Pq).
  pose proof (Inv_wf _ _ _ _ I) as Hwf.
  eapply wp_mono.
  - eapply (array_push_gen refuse indef p w q d c l rc rcq nq Hwf Ep); [|exact Cap|exact Eq|exact Hpq].
    intros b ->. apply (Inv_blocks _ _ _ _ _ _ I Ep). left. reflexivity.
  - intros ok w' P. eapply (gpush_edges p rc _ _ _ w q d rcq nq ok w' Hwf Ep Eq); [lia| |exact P].
    intros d' c' k Hk. cbn [kids] in *. apply in_app_or in Hk. destruct Hk as [Hk|[<-|[]]]; auto.
Qed.

Lemma add_chunk_edges own ownd p q w rc text hdr d c l :
  Inv own ownd [] w -> heap w p = Some (CItem rc (NChunked text hdr d c l)) -> capinvC d c l ->
  0 < own q -> p <> q ->
  (exists rcq dq bq, heap w q = Some (CItem rcq (NStr text dq bq))) ->
  wp (add_chunk refuse p q) w (fun _ w' => edges_sub (fun a k => a = p /\ k = q) w w').
Proof.
  intros I Ep Cap Oq Hpq Hkq. destruct (Inv_owned_item _ _ _ _ I Oq) as (rcq & nq & Eq & Pq).
  assert (Hkx : chunk_ok text nq).
  { destruct Hkq as (rcq' & dq & bq & Eq'). rewrite Eq in Eq'. injection Eq' as _ ->. apply chunk_ok_str. }
  pose proof (Inv_wf _ _ _ _ I) as Hwf.
  pose proof (Inv_blocks _ _ _ _ _ _ I Ep) as Hb. cbn [dblocks] in Hb.
  destruct (Hb hdr ltac:(apply in_or_app; right; left; reflexivity)) as [Hh Ch].
  assert (Hdh : d <> Some hdr).
  { intros ->. cbn [olist app cnt] in Ch. rewrite N.eqb_refl in Ch. lia. }
  eapply wp_mono.
  - eapply (add_chunk_gen refuse text hdr p w q d c l rc rcq nq Hwf Ep Hh); [|exact Hdh|exact Cap|exact Eq|exact Hkx|exact Hpq].
    intros b ->. apply Hb. left. reflexivity.
  - intros ok w' P. eapply (gpush_edges p rc _ _ _ w q d rcq nq ok w' Hwf Ep Eq); [lia| |exact P].
    intros d' c' k Hk. cbn [kids] in *. apply in_app_or in Hk. destruct Hk as [Hk|[<-|[]]]; auto.
Qed.

Lemma map_add_edges own ownd p q r w rc indef d c l :
  Inv own ownd [] w -> heap w p = Some (CItem rc (NMap indef d c l)) -> capinvM indef d c l ->
  0 < own q -> 0 < own r -> p <> q -> p <> r ->
  wp (map_add refuse p q r) w (fun _ w' => edges_sub (fun a k => a = p /\ (k = q \/ k = r)) w w').
Proof.
  intros I Ep Cap Oq Or Hpq Hpr.
  destruct (Inv_owned_item _ _ _ _ I Oq) as (rcq & nq & Eq & Pq).
  destruct (Inv_owned_item _ _ _ _ I Or) as (rcr & nr & Er & Pr).
  pose proof (Inv_wf _ _ _ _ I) as Hwf.
  assert (Hb : forall b, d = Some b -> is_data w b).
  { intros b ->. apply (Inv_blocks _ _ _ _ _ _ I Ep). left. reflexivity. }
  destruct (N.eq_dec q r) as [<-|Hqr].
  - eapply wp_mono; [eapply (map_add_same_gen refuse indef p w q d c l rc rcq nq Hwf Ep Hb Cap Eq Hpq)|].
    intros ok w' P. eapply edges_sub_weaken.
    + eapply (msame_edges indef p rc w q d c l rcq nq ok w' Hwf Ep Eq); [lia|exact P].
    + intros a k [-> ->]. auto.
  - eapply wp_mono; [eapply (map_add_gen refuse indef p w q r d c l rc rcq nq rcr nr Hwf Ep Hb Cap Eq Er Hpq Hpr Hqr)|].
    intros ok w' P. eapply (mpush_edges indef p rc w q r d c l rcq nq rcr nr ok w' Hwf Ep Eq); [lia|exact Er|lia|exact P].
Qed.

End OpsE.

Lemma tag_set_edges own ownd p q w rc v :
  Inv own ownd [] w -> heap w p = Some (CItem rc (NTag v None)) -> 0 < own q -> p <> q ->
  wp (tag_set_item p q) w (fun _ w' => edges_sub (fun a k => a = p /\ k = q) w w').
Proof.
  intros I Ep Oq Hpq. destruct (Inv_owned_item _ _ _ _ I Oq) as (rcq & nq & Eq & Pq).
  unfold tag_set_item. apply wp_bind. eapply wp_eq; [apply incref_spec; exact Eq|].
  set (w1 := w_incref q rcq nq w).
  assert (E1 : heap w1 p = Some (CItem rc (NTag v None))).
  { subst w1. wsimpl. rewrite upd_other by exact Hpq. exact Ep. }
  apply wp_bind. eapply wp_eq; [apply rd_item_spec; exact E1|]. cbn [fst snd].
  eapply wp_eq; [eapply wr_item_spec; wsimpl; exact E1|].
  intros a k (rca & na & E & Ra & Ka). subst w1. wsimpl_in E. unfold upd in E.
  destruct (N.eqb_spec a p) as [->|_].
  { injection E as <- <-. cbn [kids] in Ka. destruct Ka as [<-|[]]. right. auto. }
  destruct (N.eqb_spec a q) as [->|_].
  { injection E as _ <-. left. exists rcq, nq. split; [exact Eq|]. split; [lia|exact Ka]. }
  left. exists rca, na. auto.
Qed.

Lemma incref_edges own ownd p w :
  Inv own ownd [] w -> 0 < own p -> wp (incref p) w (fun _ w' => edges_sub no_new w w').
Proof.
  intros I O. destruct (Inv_owned_item _ _ _ _ I O) as (rc & n & E & P).
  eapply wp_eq; [apply incref_spec; exact E|].
  eapply (edges_sub_rc w _ p rc _ n E); [lia|]. intros b. wsimpl. reflexivity.
Qed.

Lemma tag_item_edges own ownd p w rc v x :
  Inv own ownd [] w -> heap w p = Some (CItem rc (NTag v (Some x))) ->
  wp (tag_item p) w (fun _ w' => edges_sub no_new w w').
Proof.
  intros I Ep. pose proof (Inv_nil_pos _ _ _ _ _ _ I Ep) as Hrc.
  destruct (Inv_kid_live own ownd [] w p rc _ x I Ep ltac:(lia) ltac:(left; reflexivity)) as (rcx & nx & Ex & Px).
  unfold tag_item. apply wp_bind. eapply wp_eq; [apply rd_item_spec; exact Ep|]. cbn [fst snd].
  eapply wp_eq; [apply incref_spec; wsimpl; exact Ex|].
  eapply (edges_sub_rc w _ x rcx _ nx Ex); [lia|]. intros b. wsimpl. reflexivity.
Qed.

Lemma array_get_edges own ownd p i w rc indef d c l :
  Inv own ownd [] w -> heap w p = Some (CItem rc (NArr indef d c l)) -> capinvA indef d c l ->
  wp (array_get p i) w (fun _ w' => edges_sub no_new w w').
Proof.
  intros I Ep Cap. pose proof (Inv_nil_pos _ _ _ _ _ _ I Ep) as Hrc.
  destruct (N.le_gt_cases (len l) i) as [L|L].
  - eapply wp_eq; [eapply get_out_of_range; [exact Ep|exact L]|]. apply edges_sub_same. reflexivity.
  - assert (Hd : exists o, d = Some o).
    { destruct indef; cbn [capinvA] in Cap; [|exact Cap]. destruct Cap as (C1 & C2 & C3).
      destruct d as [o|]; [eauto|]. specialize (C1 eq_refl). lia. }
    destruct Hd as [o ->].
    destruct (Inv_blocks _ _ _ _ _ _ I Ep o ltac:(left; reflexivity)) as [(sz & Eo) _].
    destruct (nth_error_in_range l i L) as [e He].
    destruct (Inv_kid_live own ownd [] w p rc _ e I Ep ltac:(lia) (nth_error_In _ _ He)) as (rce & ne & Ee & Pe).
    eapply wp_eq; [eapply get_in_range; eassumption|].
    eapply (edges_sub_rc w _ e rce _ ne Ee); [lia|]. intros b. wsimpl. reflexivity.
Qed.

Lemma decref_edges own ownd p w :
  Inv own ownd [] w -> 0 < own p -> wp (decref p) w (fun _ w' => edges_sub no_new w w').
Proof.
  intros I O. eapply wp_mono; [apply (decref_Inv own ownd p w I O)|].
  intros u_ w' (_ & S & _). eapply edges_sub_subgraph; eassumption.
Qed.



(* a call that leaves the old cells alone and creates a region of fresh cells whose references go
   either to old cells or, decreasing along [rank_c], to fresh cells *)
Lemma acyclic_fresh own ownd w w' (rank_c : addr -> nat) :
  Inv own ownd [] w -> acyclic w ->
  (forall b, b < next w -> heap w' b = heap w b) ->
  (forall a k, next w <= a -> edge w' a k -> k < next w \/ (next w <= k /\ (rank_c k < rank_c a)%nat)) ->
  acyclic w'.
Proof.
  intros I AC Old Fresh. apply acyclic_ranks in AC. destruct AC as [rank HR]. apply acyclic_ranks.
  destruct (rank_bound rank (next w)) as [R HB].
  exists (fun b => if b <? next w then rank b else (S R + rank_c b)%nat).
  intros a k E. destruct (N.ltb_spec a (next w)) as [La|La].
  - assert (E0 : edge w a k).
    { destruct E as (rc & n & E & Rc & K). exists rc, n. rewrite <- Old by exact La. auto. }
    destruct E0 as (rc & n & E0 & Rc & K).
    destruct (Inv_kids_lt _ _ _ _ _ _ I E0) as [KL _]. specialize (KL k K).
    destruct (N.ltb_spec k (next w)); [|lia]. apply HR. exists rc, n. auto.
  - destruct (Fresh a k La E) as [Lk|[Lk Hk]].
    + destruct (N.ltb_spec k (next w)); [|lia]. specialize (HB k Lk). lia.
    + destruct (N.ltb_spec k (next w)); [lia|]. lia.
Qed.

Section OpsF.
Variable refuse : N -> N -> bool.

Lemma copy_h_acyclic own ownd p w :
  Inv own ownd [] w -> shaped (abs_fuel w) (heap w) p -> acyclic w ->
  wp (copy_h refuse p) w (fun _ w' => acyclic w').
Proof.
  intros I Sh AC. unfold copy_h.
  eapply wp_mono; [apply (copy_spec_wp refuse (abs_fuel w) p w own ownd I Sh)|].
  intros r w' [(Hle & Old & P) _]. destruct r as [a'|].
  - destruct P as (Ha & I' & (_ & Cl & rank & Rk & _) & _).
    eapply (acyclic_fresh own ownd w w' rank I AC Old).
    intros a k La (rc & n & E & Rc & K). right. destruct (Cl a rc n La E) as [CK _]. specialize (CK k K).
    split; [lia|]. eapply Rk; eassumption.
  - eapply (acyclic_fresh own ownd w w' (fun _ => O) I AC Old).
    intros a k La (rc & n & E & _). rewrite P in E by exact La. discriminate E.
Qed.

Lemma load_h_acyclic L own ownd buf w :
  Inv own ownd [] w -> bytes_ok buf -> len buf < SIZE_MAX -> acyclic w ->
  wp (load_h refuse L buf) w (fun _ w' => acyclic w').
Proof.
  intros I Hb Hl AC.
  destruct (load_h_res refuse L w own ownd buf Hb Hl I) as (r & w' & E & HR).
  eapply wp_eq; [exact E|].
  assert (Key : forall o od, Inv o od [] w' -> G w w' -> acyclic w').
  { intros o od I' Gw.
    eapply (acyclic_fresh own ownd w w' (fun b => N.to_nat (next w' - b)) I AC (g_old _ _ Gw)).
    intros a k La (rc & n & Ea & Rc & K). right.
    destruct (g_ord _ _ Gw a rc n La Ea) as [Ord _]. specialize (Ord k K).
    destruct (Inv_kids_lt _ _ _ _ _ _ I' Ea) as [KL _]. specialize (KL k K).
    split; lia. }
  destruct r as [[[[a|] code] pos] rd]; cbn [RES] in HR.
  - destruct HR as (_ & _ & I' & Gw & _). eapply Key; eassumption.
  - destruct HR as (_ & I' & Gw & _). eapply Key; eassumption.
Qed.

Lemma build_tag_acyclic own ownd v q w :
  Inv own ownd [] w -> 0 < own q -> acyclic w ->
  wp (build_tag refuse v q) w (fun _ w' => acyclic w').
Proof.
  intros I Oq AC. destruct (Inv_owned_item _ _ _ _ I Oq) as (rcq & nq & Eq & Pq).
  pose proof (live_lt _ _ _ _ _ _ I Eq) as Lq. pose proof (Inv_wf _ _ _ _ I) as Hwf.
  unfold build_tag, new_tag. apply wp_bind. eapply wp_mono; [apply wp_malloc_item|].
  intros r w1 P. destruct r as [t|]; cbn [ctor1_post] in P.
  - destruct P as (-> & Hn & Hh).
    assert (I1 : Inv (own1 own (next w)) ownd [] w1).
    { eapply (Inv_alloc_item_pw own ownd w w1 (NTag v None) I); [reflexivity|reflexivity|exact Hh|exact Hn]. }
    assert (Et : heap w1 (next w) = Some (CItem 1 (NTag v None))) by (rewrite Hh; apply upd_same).
    apply wp_bind. eapply wp_mono.
    + eapply (tag_set_edges (own1 own (next w)) ownd (next w) q w1 1 v I1 Et); [unfold own1; lia|lia].
    + intros u w2 S2. apply wp_ret.
      assert (S1 : edges_sub no_new w w1) by (eapply edges_sub_fresh1; [exact Hwf| |exact Hh]; reflexivity).
      pose proof (edges_sub_trans _ _ _ _ _ S1 S2) as SS.
      apply acyclic_ranks in AC. destruct AC as [rank HR]. apply acyclic_ranks.
      exists (fun b => if b =? next w then S (rank q) else rank b).
      intros a k E. destruct (SS a k E) as [E0|[[]|[-> ->]]].
      * destruct E0 as (rc & n & E0 & Rc & K).
        pose proof (live_lt _ _ _ _ _ _ I E0) as La.
        destruct (Inv_kids_lt _ _ _ _ _ _ I E0) as [KL _]. specialize (KL k K).
        destruct (N.eqb_spec a (next w)); [lia|]. destruct (N.eqb_spec k (next w)); [lia|].
        apply HR. exists rc, n. auto.
      * rewrite N.eqb_refl. destruct (N.eqb_spec q (next w)); lia.
  - destruct P as [Hh Hn]. apply wp_ret. apply acyclic_ranks in AC. destruct AC as [rank HR].
    apply acyclic_ranks. exists rank. eapply ranks_sub; [exact HR|apply edges_sub_same; exact Hh|intros ? ? []].
Qed.

End OpsF.

Section OpsG.
Variable refuse : N -> N -> bool.

Lemma ctor1_edges sz n w : wf w -> kids n = [] ->
  wp (malloc refuse sz (CItem 1 n)) w (fun _ w' => edges_sub no_new w w').
Proof.
  intros Hwf K. eapply wp_mono; [apply wp_malloc_item|]. intros r w' P.
  destruct r as [a|]; cbn [ctor1_post] in P.
  - destruct P as (_ & _ & Hh). eapply edges_sub_fresh1; eassumption.
  - destruct P as [Hh _]. apply edges_sub_same. exact Hh.
Qed.

Lemma ctor2_edges n1 w r w' : wf w -> kids n1 = [] -> ctor2_post w n1 r w' -> edges_sub no_new w w'.
Proof.
  intros Hwf K [_ P]. destruct r as [a|].
  - destruct P as (_ & _ & sz & Hh). eapply edges_sub_fresh2; eassumption.
  - apply edges_sub_same. exact P.
Qed.

Lemma array_set_edges own ownd p i q w rc indef d c l :
  Inv own ownd [] w -> heap w p = Some (CItem rc (NArr indef d c l)) -> capinvA indef d c l ->
  0 < own p -> 0 < own q -> rc_room w q -> p <> q ->
  (forall old, nth_error l (N.to_nat i) = Some old -> old <> p) ->
  wp (array_set refuse p i q) w (fun _ w' => edges_sub (fun a k => a = p /\ k = q) w w').
Proof.
  intros I Ep Cap Op Oq Rq Hpq Sh.
  set (w1 := w_log (AccR p) w).
  assert (I1 : Inv own ownd [] w1) by (eapply Inv_same; [exact I|reflexivity|unfold w1; wsimpl; lia]).
  assert (H1 : forall b, heap w1 b = heap w b) by reflexivity.
  destruct (N.lt_trichotomy i (len l)) as [Lt|[Eq|Gt]].
  - unfold wp. rewrite (set_in_range refuse p i q w rc indef d c l Ep Lt).
    eapply wp_mono; [apply (array_replace_full own ownd p i q w1 rc indef d c l I1); assumption|].
    intros u_ w' [_ S]. eapply edges_sub_heq; [exact H1|exact S].
  - subst i. unfold wp. rewrite (set_at_end refuse p q w rc indef d c l Ep).
    eapply wp_mono; [apply (array_push_edges refuse own ownd p q w1 rc indef d c l I1); assumption|].
    intros u_ w' S. eapply edges_sub_heq; [exact H1|exact S].
  - eapply wp_eq; [eapply set_out_of_range; [exact Ep|exact Gt]|].
    eapply edges_sub_weaken; [apply edges_sub_same; reflexivity|intros ? ? []].
Qed.

Lemma ser_size_same p w :
  readable (abs_fuel w) (heap w) p -> wp (serialized_size_h p) w (fun _ w' => forall b, heap w' b = heap w b).
Proof.
  intros R. destruct (abs_of_tot w p R) as (t & w1 & E & Hh & Hn).
  unfold serialized_size_h. apply wp_bind. eapply wp_eq; [exact E|]. apply wp_ret.
  intros b. rewrite Hh. reflexivity.
Qed.

Lemma serialize_same p n w :
  readable (abs_fuel w) (heap w) p -> wp (serialize_h p n) w (fun _ w' => forall b, heap w' b = heap w b).
Proof.
  intros R. destruct (abs_of_tot w p R) as (t & w1 & E & Hh & Hn).
  unfold serialize_h. apply wp_bind. eapply wp_eq; [exact E|]. apply wp_ret.
  intros b. rewrite Hh. reflexivity.
Qed.

Lemma ser_alloc_same {X} (k : N -> list N -> X) p w :
  wf w -> readable (abs_fuel w) (heap w) p ->
  wp (ser_alloc_free refuse k p) w (fun _ w' => forall b, heap w' b = heap w b).
Proof.
  intros Hwf R. destruct (abs_of_tot w p R) as (t & w1 & E & Hh & Hn).
  unfold ser_alloc_free, serialize_alloc_h. apply wp_bind. apply wp_bind. eapply wp_eq; [exact E|].
  destruct (ssize t =? 0).
  { apply wp_ret. apply wp_ret. intros b. rewrite Hh. reflexivity. }
  apply wp_bind. destruct (refuse (nreq w1) (ssize t)) eqn:Rf.
  - eapply wp_eq; [apply malloc_refused; exact Rf|]. apply wp_ret. apply wp_ret.
    intros b. wsimpl. rewrite Hh. reflexivity.
  - eapply wp_eq; [apply malloc_granted; exact Rf|].
    destruct (C07_into_all t (ssize t)) as (rt & out & Es & _). rewrite Es. apply wp_ret.
    apply wp_bind. eapply wp_eq.
    + eapply free_spec. wsimpl. apply upd_same.
    + apply wp_ret. intros b. wsimpl. unfold upd. destruct (N.eqb_spec b (next w1)) as [->|]; [|rewrite Hh; reflexivity].
      symmetry. apply Hwf. lia.
Qed.

End OpsG.

(* the no-cycle rule: the client can exhibit a topological order of the current containment graph
   in which every inserted item lies below the container that receives it (classically: the
   container is not reachable from the inserted item) *)
Definition below_rule (s : cstate) (w : world) (o : op) : Prop :=
  match o with
  | OPush a x | OSet a _ x | OReplace a _ x | OAddChunk a x | OTagSet a x =>
      forall p q, hget s a = Some p -> hget s x = Some q ->
        exists rank, ranks w rank /\ (rank q < rank p)%nat
  | OMapAdd m k v =>
      forall p q r, hget s m = Some p -> hget s k = Some q -> hget s v = Some r ->
        exists rank, ranks w rank /\ (rank q < rank p)%nat /\ (rank r < rank p)%nat
  | _ => True
  end.

Section StepA.
Variable refuse : N -> N -> bool.
Variable L : N.

Lemma acyclic_sub_new (New : addr -> addr -> Prop) w w' rank :
  ranks w rank -> (forall a k, New a k -> (rank k < rank a)%nat) -> edges_sub New w w' -> acyclic w'.
Proof. intros HR HN S. apply acyclic_ranks. exists rank. eapply ranks_sub; eassumption. Qed.

Lemma acyclic_sub w w' : acyclic w -> edges_sub no_new w w' -> acyclic w'.
Proof.
  intros AC S. apply acyclic_ranks in AC. destruct AC as [rank HR].
  eapply acyclic_sub_new; [exact HR| |exact S]. intros ? ? [].
Qed.

Lemma wp_newh_any s (m : M (option addr)) w (Q : world -> Prop) :
  wp m w (fun _ w' => Q w') -> wp (newh s m) w (fun _ w' => Q w').
Proof.
  intros H. unfold newh. apply wp_bind. eapply wp_mono; [exact H|]. intros r w' P. apply wp_ret. exact P.
Qed.

Theorem step_acyclic s own ownd w o :
  Inv own ownd [] w -> caps w -> legal s own w o -> acyclic w -> below_rule s w o ->
  wp (step refuse L s o) w (fun _ w' => acyclic w').
Proof.
  intros I Cw Lg AC Bl. pose proof (Inv_wf _ _ _ _ I) as Hwf.
  assert (Skip : forall (r : cstate * out), wp (ret r) w (fun _ w' => acyclic w')).
  { intros r. apply wp_ret. exact AC. }
  assert (Sub : forall {A} (m : M A), wp m w (fun _ w' => edges_sub no_new w w') -> wp m w (fun _ w' => acyclic w')).
  { intros A m H. eapply wp_mono; [exact H|]. intros u_ w' S. eapply acyclic_sub; eassumption. }
  destruct o as [neg iw v|fw bits|v|text bytes|text|n| |n| |v|v x|a x|a i|a i x|a i x|m k v|c x|t x|t|h|h|h|bytes|h|h n|h];
    cbn [step legal below_rule] in *.
  - apply wp_newh_any, Sub, ctor1_edges; [exact Hwf|reflexivity].
  - apply wp_newh_any, Sub, ctor1_edges; [exact Hwf|reflexivity].
  - apply wp_newh_any, Sub, ctor1_edges; [exact Hwf|reflexivity].
  - apply wp_newh_any, Sub. eapply wp_mono; [apply wp_build_string; exact Hwf|].
    intros r w' (r0 & P & _). eapply ctor2_edges; [exact Hwf| |exact P]. reflexivity.
  - apply wp_newh_any, Sub. eapply wp_mono; [apply wp_new_indefinite_string; exact Hwf|].
    intros r w' P. eapply ctor2_edges; [exact Hwf| |exact P]. reflexivity.
  - apply wp_newh_any, Sub. eapply wp_mono; [apply wp_new_definite_array; exact Hwf|].
    intros r w' P. eapply ctor2_edges; [exact Hwf| |exact P]. reflexivity.
  - apply wp_newh_any, Sub, ctor1_edges; [exact Hwf|reflexivity].
  - apply wp_newh_any, Sub. eapply wp_mono; [apply wp_new_definite_map; exact Hwf|].
    intros r w' P. eapply ctor2_edges; [exact Hwf| |exact P]. reflexivity.
  - apply wp_newh_any, Sub, ctor1_edges; [exact Hwf|reflexivity].
  - apply wp_newh_any, Sub, ctor1_edges; [exact Hwf|reflexivity].
  - (* OBuildTag *)
    unfold with1h. destruct (hget s x) as [q|]; [|apply Skip].
    destruct (Lg q eq_refl) as [Oq Rq]. apply wp_newh_any. eapply build_tag_acyclic; eassumption.
  - (* OPush *)
    unfold with2. destruct (hget s a) as [p|]; [|apply Skip]. destruct (hget s x) as [q|]; [|apply Skip].
    destruct (Lg p q eq_refl eq_refl) as (Op & Oq & Hpq & Rq & rc & indef & d & c & l & Ep).
    pose proof (Cw _ _ _ Ep) as Cap. cbn [node_ok] in Cap.
    destruct (Bl p q eq_refl eq_refl) as (rank & HR & Hlt).
    apply wp_bind. eapply wp_mono; [eapply array_push_edges; eassumption|].
    intros b w' S. apply wp_ret. eapply acyclic_sub_new; [exact HR| |exact S]. intros ? ? [-> ->]. exact Hlt.
  - (* OGet *)
    unfold with1h. destruct (hget s a) as [p|]; [|apply Skip].
    destruct (Lg p eq_refl) as (Op & rc & indef & d & c & l & Ep & Re).
    pose proof (Cw _ _ _ Ep) as Cap. cbn [node_ok] in Cap.
    apply wp_newh_any, Sub. eapply array_get_edges; eassumption.
  - (* OSet *)
    unfold with2. destruct (hget s a) as [p|]; [|apply Skip]. destruct (hget s x) as [q|]; [|apply Skip].
    destruct (Lg p q eq_refl eq_refl) as (Op & Oq & Hpq & Rq & rc & indef & d & c & l & Ep & Sh).
    pose proof (Cw _ _ _ Ep) as Cap. cbn [node_ok] in Cap.
    destruct (Bl p q eq_refl eq_refl) as (rank & HR & Hlt).
    apply wp_bind. eapply wp_mono; [eapply array_set_edges; eassumption|].
    intros b w' S. apply wp_ret. eapply acyclic_sub_new; [exact HR| |exact S]. intros ? ? [-> ->]. exact Hlt.
  - (* OReplace *)
    unfold with2. destruct (hget s a) as [p|]; [|apply Skip]. destruct (hget s x) as [q|]; [|apply Skip].
    destruct (Lg p q eq_refl eq_refl) as (Op & Oq & Hpq & Rq & rc & indef & d & c & l & Ep & Sh).
    pose proof (Cw _ _ _ Ep) as Cap. cbn [node_ok] in Cap.
    destruct (Bl p q eq_refl eq_refl) as (rank & HR & Hlt).
    apply wp_bind. eapply wp_mono; [eapply array_replace_full; eassumption|].
    intros b w' [_ S]. apply wp_ret. eapply acyclic_sub_new; [exact HR| |exact S]. intros ? ? [-> ->]. exact Hlt.
  - (* OMapAdd *)
    destruct (hget s v) as [r|]; [|apply Skip].
    unfold with2. destruct (hget s m) as [p|]; [|apply Skip]. destruct (hget s k) as [q|]; [|apply Skip].
    destruct (Lg p q r eq_refl eq_refl eq_refl)
      as (Op & Oq & Or & Hpq & Hpr & Rq & Rr & R2 & rc & indef & d & c & l & Ep).
    pose proof (Cw _ _ _ Ep) as Cap. cbn [node_ok] in Cap.
    destruct (Bl p q r eq_refl eq_refl eq_refl) as (rank & HR & Hq & Hr).
    apply wp_bind. eapply wp_mono; [eapply map_add_edges; eassumption|].
    intros b w' S. apply wp_ret. eapply acyclic_sub_new; [exact HR| |exact S].
    intros ? ? [-> [->| ->]]; assumption.
  - (* OAddChunk *)
    unfold with2. destruct (hget s c) as [p|]; [|apply Skip]. destruct (hget s x) as [q|]; [|apply Skip].
    destruct (Lg p q eq_refl eq_refl) as (Op & Oq & Hpq & Rq & rc & text & hdr & d & c0 & l & Ep & Eqk).
    pose proof (Cw _ _ _ Ep) as Cap. cbn [node_ok] in Cap.
    destruct (Bl p q eq_refl eq_refl) as (rank & HR & Hlt).
    apply wp_bind. eapply wp_mono; [eapply add_chunk_edges; eassumption|].
    intros b w' S. apply wp_ret. eapply acyclic_sub_new; [exact HR| |exact S]. intros ? ? [-> ->]. exact Hlt.
  - (* OTagSet *)
    unfold with2. destruct (hget s t) as [p|]; [|apply Skip]. destruct (hget s x) as [q|]; [|apply Skip].
    destruct (Lg p q eq_refl eq_refl) as (Op & Oq & Hpq & Rq & rc & v & Ep).
    destruct (Bl p q eq_refl eq_refl) as (rank & HR & Hlt).
    apply wp_bind. eapply wp_mono; [eapply tag_set_edges; eassumption|].
    intros b w' S. apply wp_ret. eapply acyclic_sub_new; [exact HR| |exact S]. intros ? ? [-> ->]. exact Hlt.
  - (* OTagItem *)
    unfold with1h. destruct (hget s t) as [p|]; [|apply Skip].
    destruct (Lg p eq_refl) as (Op & rc & v & x & Ep & Rx).
    apply wp_newh_any. apply wp_bind. eapply wp_mono; [apply Sub; eapply tag_item_edges; eassumption|].
    intros r w' AC'. apply wp_ret. exact AC'.
  - (* OIncref *)
    unfold with1. destruct (hget s h) as [p|]; [|apply Skip].
    destruct (Lg p eq_refl) as [Op Rp].
    apply wp_bind. eapply wp_mono; [apply Sub; eapply incref_edges; eassumption|].
    intros r w' AC'. apply wp_ret. exact AC'.
  - (* ODecref *)
    unfold with1. destruct (hget s h) as [p|]; [|apply Skip].
    apply wp_bind. eapply wp_mono; [apply Sub; eapply decref_edges; [exact I|exact (Lg p eq_refl)]|].
    intros r w' AC'. apply wp_ret. exact AC'.
  - (* OCopy *)
    unfold with1h. destruct (hget s h) as [p|]; [|apply Skip].
    destruct (Lg p eq_refl) as [Op Sh]. apply wp_newh_any. eapply copy_h_acyclic; eassumption.
  - (* OLoad *)
    destruct Lg as [Hb Hl]. apply wp_bind. eapply wp_mono; [eapply load_h_acyclic; eassumption|].
    intros [[[oa code] pos] rd] w' AC'. destruct oa as [a|]; apply wp_ret; exact AC'.
  - (* OSerSize *)
    unfold with1. destruct (hget s h) as [p|]; [|apply Skip].
    destruct (Lg p eq_refl) as [Op Rp].
    apply wp_bind. eapply wp_mono; [apply Sub; eapply wp_mono; [apply ser_size_same; exact Rp|]|].
    { intros r w' Hh. apply edges_sub_same. exact Hh. }
    intros r w' AC'. apply wp_ret. exact AC'.
  - (* OSerialize *)
    unfold with1. destruct (hget s h) as [p|]; [|apply Skip].
    destruct (Lg p eq_refl) as [Op Rp].
    apply wp_bind. eapply wp_mono; [eapply wp_and; [eapply serialize_Inv; eassumption|apply (serialize_same p n w Rp)]|].
    intros r w' [[Hr _] Hh]. destruct r as [[wr bytes]|]; [|congruence]. apply wp_ret.
    eapply acyclic_sub; [exact AC|apply edges_sub_same; exact Hh].
  - (* OSerAlloc *)
    unfold with1. destruct (hget s h) as [p|]; [|apply Skip].
    destruct (Lg p eq_refl) as [Op Rp].
    eapply wp_mono; [eapply (ser_alloc_same refuse (fun wr bytes => (s, OutBytes wr bytes)) p w Hwf Rp)|].
    intros r w' Hh. eapply acyclic_sub; [exact AC|apply edges_sub_same; exact Hh].
Qed.

End StepA.

Section HistoriesA.
Variable refuse : N -> N -> bool.
Variable L : N.

(* every call is legal and respects the no-cycle rule, in the state in which it is issued *)
Fixpoint rules_history (ops : list op) (s : cstate) (own : addr -> N) (w : world) : Prop :=
  match ops with
  | [] => True
  | o :: r =>
      legal s own w o /\ below_rule s w o /\
      forall s' out w', step refuse L s o w = Ret (s', out) w' ->
        rules_history r s' (own_after s o own s') w'
  end.

Lemma rules_legal : forall ops s own w, rules_history ops s own w -> legal_history refuse L ops s own w.
Proof.
  induction ops as [|o r IH]; intros s own w H; [exact I|].
  destruct H as (Lo & _ & Lr). split; [exact Lo|]. intros s' out w' E. apply IH. eapply Lr. exact E.
Qed.

Theorem C04_history_acyclic_gen : forall ops s own ownd w acc,
  Inv own ownd [] w -> caps w -> acyclic w -> rules_history ops s own w ->
  exists s' outs w', run_hist refuse L ops s acc w = Ret (s', outs) w' /\
    Inv (own_hist refuse L ops s own w) ownd [] w' /\ caps w' /\ acyclic w'.
Proof.
  induction ops as [|o r IH]; intros s own ownd w acc I Cw AC Lg.
  - exists s, (rev acc), w. split; [reflexivity|]. auto.
  - destruct Lg as (Lo & Bo & Lr).
    destruct (wp_and _ _ _ _ (C04_step_wp refuse L s own ownd w o I Cw Lo)
                             (step_acyclic refuse L s own ownd w o I Cw Lo AC Bo))
      as ([s1 out] & w1 & E & I1 & AC1).
    unfold step_post in I1. cbn [fst] in I1.
    pose proof (step_caps refuse L s o w _ w1 Cw E) as [C1 _].
    destruct (IH s1 (own_after s o own s1) ownd w1 (out :: acc) I1 C1 AC1 (Lr s1 out w1 E)) as (s' & outs & w' & E' & P).
    exists s', outs, w'. cbn [run_hist own_hist]. rewrite E. split; [|exact P].
    unfold bind. rewrite E. cbn [fst snd]. exact E'.
Qed.

Lemma acyclic_world0 : acyclic world0.
Proof. exists (fun _ => O). intros a rc n E. discriminate E. Qed.

(* C04, second half, without assuming anything of the final heap: after a history that follows the
   rules (ownership and no cycle), once the client has given back all its references nothing
   obtained from the allocator remains *)
Theorem C04_history_no_leak_acyclic : forall ops s' outs w',
  rules_history ops s0 own0 world0 ->
  run_hist refuse L ops s0 [] world0 = Ret (s', outs) w' ->
  (forall a, own_hist refuse L ops s0 own0 world0 a = 0) ->
  forall a, heap w' a = None.
Proof.
  intros ops s' outs w' Lg E O.
  destruct (C04_history_acyclic_gen ops s0 own0 own0 world0 [] Inv_world0 caps_world0 acyclic_world0 Lg)
    as (s1 & outs1 & w1 & E1 & I1 & _ & AC1).
  rewrite E in E1. injection E1 as <- <- <-.
  eapply no_leak; [exact I1|exact O|reflexivity|exact AC1].
Qed.

End HistoriesA.


(* ------------------------------------------------------------------------------------------ *)
(* 6. non-vacuity: a concrete history that follows the rules                                   *)
(* ------------------------------------------------------------------------------------------ *)

(* a definite array [7]: push, give the integer's reference back, get it again through the array,
   serialized size, copy, release everything *)
Definition ex_ops : list op :=
  [ONewDefArray 2; OBuildInt false I8 7; OPush 0 1; ODecref 1; OGet 0 0; ODecref 2;
   OSerSize 0; OCopy 0; ODecref 3; ODecref 0]%nat.

Ltac ex_next := intros ?s ?o ?w E; vm_compute in E; injection E as <- <- <-.
Ltac ex_room := let rc := fresh "rc" in let n := fresh "n" in let H := fresh "H" in
  intros rc n H; vm_compute in H; injection H as <- <-; vm_compute; reflexivity.
Ltac ex_h H := vm_compute in H; injection H as <-.

Example ex_rules : rules_history never 8 ex_ops s0 own0 world0.
Proof.
  unfold ex_ops.
  split; [exact I|]. split; [exact I|ex_next].
  split; [exact I|]. split; [exact I|ex_next].
  split.
  { intros p q Hp Hq. ex_h Hp. ex_h Hq.
    split; [vm_compute; reflexivity|]. split; [vm_compute; reflexivity|]. split; [discriminate|].
    split; [ex_room|]. vm_compute. repeat eexists. }
  split.
  { (* no reference exists yet: any order that puts the integer below the array will do *)
    intros p q Hp Hq. ex_h Hp. ex_h Hq.
    exists (fun x => if x =? 1 then 1%nat else 0%nat). split; [|vm_compute; lia].
    intros a k (rc & n & E & R & K). exfalso.
    destruct a as [|a]; [|do 3 (try destruct a as [a|a|])]; vm_compute in E; try discriminate E;
      injection E as <- <-; destruct K. }
  ex_next.
  split.
  { intros p Hp. ex_h Hp. vm_compute. reflexivity. }
  split; [exact I|ex_next].
  split.
  { intros p Hp. ex_h Hp. split; [vm_compute; reflexivity|].
    do 5 eexists. split; [vm_compute; reflexivity|].
    intros e He. vm_compute in He. injection He as <-. ex_room. }
  split; [exact I|ex_next].
  split.
  { intros p Hp. ex_h Hp. vm_compute. reflexivity. }
  split; [exact I|ex_next].
  split.
  { intros p Hp. ex_h Hp. split; [vm_compute; reflexivity|].
    eapply abs_readable. vm_compute. reflexivity. }
  split; [exact I|ex_next].
  split.
  { intros p Hp. ex_h Hp. split; [vm_compute; reflexivity|].
    apply shapedb_ok. vm_compute. reflexivity. }
  split; [exact I|ex_next].
  split.
  { intros p Hp. ex_h Hp. vm_compute. reflexivity. }
  split; [exact I|ex_next].
  split.
  { intros p Hp. ex_h Hp. vm_compute. reflexivity. }
  split; [exact I|ex_next].
  exact I.
Qed.

Corollary ex_legal : legal_history never 8 ex_ops s0 own0 world0.
Proof. apply rules_legal. exact ex_rules. Qed.

Example ex_runs :
  match run_hist never 8 ex_ops s0 [] world0 with
  | Ret (s', outs) w' =>
      handles s' = [Some 1; Some 3; Some 3; Some 4] /\
      outs = [OutHandle true; OutHandle true; OutBool true; OutUnit; OutHandle true; OutUnit;
              OutNum 2; OutHandle true; OutUnit; OutUnit] /\
      live_count w' = 0 /\
      map (own_hist never 8 ex_ops s0 own0 world0) [0; 1; 2; 3; 4; 5; 6; 7] = repeat 0 8
  | Fault _ => False
  end.
Proof. vm_compute. repeat split. Qed.

(* the rules are needed: a second cbor_decref through the same handle is not legal (the client
   holds no reference any more) and the model reports the touch of a released item *)
Example ex_double_decref_illegal :
  let ops := [OBuildInt false I8 7; ODecref 0; ODecref 0]%nat in
  run_hist never 8 ops s0 [] world0 = Fault (FUseAfterFree 1) /\ ~ legal_history never 8 ops s0 own0 world0.
Proof.
  split; [vm_compute; reflexivity|].
  intros (_ & H). specialize (H _ _ _ eq_refl). destruct H as (_ & H). specialize (H _ _ _ eq_refl).
  destruct H as (H & _). specialize (H 1 eq_refl). vm_compute in H. discriminate H.
Qed.

(* the rule "cbor_tag_set_item only on a tag without item" is needed: the library (and the model)
   overwrites the old item without releasing it, so after the client has given back every
   reference the first integer is still allocated *)
Example ex_tag_set_twice_leaks :
  let ops := [ONewTag 1; OBuildInt false I8 1; OBuildInt false I8 2; OTagSet 0 1; OTagSet 0 2;
              ODecref 1; ODecref 2; ODecref 0]%nat in
  match run_hist never 8 ops s0 [] world0 with
  | Ret _ w' => live_count w' = 1 /\ heap w' 2 = Some (CItem 1 (NInt false I8 1)) /\
                map (own_hist never 8 ops s0 own0 world0) [1; 2; 3] = [0; 0; 0]
  | Fault _ => False
  end.
Proof. vm_compute. repeat split. Qed.

Print Assumptions C04_step.
Print Assumptions C04_history.
Print Assumptions C04_history_no_leak.
Print Assumptions step_caps.
Print Assumptions step_acyclic.
Print Assumptions C04_history_no_leak_acyclic.
Print Assumptions ex_rules.
