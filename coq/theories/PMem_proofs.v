From CB Require Import Word Word_proofs PMem PItem SpecItem.
From Coq Require Import Lia ZArith ZifyBool ZifyN ZifyNat.
Local Open Scope N_scope.
Ltac Zify.zify_post_hook ::= Z.div_mod_to_equations.

(* Proofs about the size guards (src/cbor/internal/memory_utils.c), the encoded header size and
   cbor_serialized_size.  [w] is the width of size_t in bits. *)

(* ------------------------------------------------------------------ *)
(* generic arithmetic facts                                            *)

Lemma pow2_pos w : 0 < 2 ^ w.
Proof. apply N.neq_0_lt_0, N.pow_nonzero. discriminate. Qed.

Lemma wrap_cases M x : 0 < M -> x < 2 * M ->
  (x < M /\ x mod M = x) \/ (M <= x /\ x mod M = x - M).
Proof.
  intros HM Hx. destruct (N.lt_ge_cases x M) as [H|H].
  - left. split; [exact H|]. apply N.mod_small; exact H.
  - right. split; [exact H|].
    replace x with ((x - M) + 1 * M) at 1 by lia.
    rewrite N.mod_add by lia. apply N.mod_small. lia.
Qed.

Lemma pow2_ge2 w : 1 <= w -> 2 <= 2 ^ w.
Proof.
  intros H. replace w with (N.succ (w - 1)) by lia. rewrite N.pow_succ_r'.
  pose proof (pow2_pos (w - 1)). lia.
Qed.

Lemma pow2_ge4 w : 2 <= w -> 4 <= 2 ^ w.
Proof.
  intros H. replace w with (N.succ (N.succ (w - 2))) by lia. rewrite !N.pow_succ_r'.
  pose proof (pow2_pos (w - 2)). lia.
Qed.

(* ------------------------------------------------------------------ *)
(* 1. _cbor_highest_bit computes the bit length                        *)

Lemma hb_f_spec : forall fuel n bit, n < 2 ^ N.of_nat fuel ->
  exists k, highest_bit_f (S fuel) n bit = bit + k /\
            n < 2 ^ k /\ (0 < n -> 2 ^ (k - 1) <= n) /\ (n = 0 -> k = 0) /\ k <= N.of_nat fuel.
Proof.
  induction fuel as [|f IH]; intros n bit Hn.
  - change (2 ^ N.of_nat 0) with 1 in Hn. assert (n = 0) as -> by lia.
    exists 0. cbn [highest_bit_f]. rewrite N.eqb_refl.
    change (2 ^ 0) with 1. repeat split; lia.
  - rewrite Nat2N.inj_succ, N.pow_succ_r' in Hn.
    change (highest_bit_f (S (S f)) n bit)
      with (if n =? 0 then bit else highest_bit_f (S f) (n / 2) (bit + 1)).
    destruct (N.eqb_spec n 0) as [E|E].
    + exists 0. subst n. change (2 ^ 0) with 1. repeat split; lia.
    + assert (Hh : n / 2 < 2 ^ N.of_nat f) by lia.
      destruct (IH (n / 2) (bit + 1) Hh) as (k & Hk & Hlt & Hge & Hz & Hle).
      exists (k + 1). rewrite Hk. split; [lia|].
      split; [|split; [|split]].
      * rewrite N.add_1_r, N.pow_succ_r'. lia.
      * intros _. replace (k + 1 - 1) with k by lia.
        destruct (N.eq_dec k 0) as [K|K].
        -- subst k. change (2 ^ 0) with 1. lia.
        -- assert (Hp : 0 < n / 2).
           { destruct (N.eq_dec (n / 2) 0) as [Z|Z]; [exfalso; apply K, Hz, Z | lia]. }
           specialize (Hge Hp).
           replace k with (N.succ (k - 1)) at 1 by lia. rewrite N.pow_succ_r'. lia.
      * intros Z. contradiction.
      * lia.
Qed.

Theorem hb_spec : forall w a, a < 2 ^ w ->
  let h := highest_bit w a in a < 2 ^ h /\ (0 < a -> 2 ^ (h - 1) <= a) /\ h <= w.
Proof.
  intros w a Ha h. subst h. unfold highest_bit.
  destruct (hb_f_spec (N.to_nat w) a 0) as (k & Hk & Hlt & Hge & _ & Hle).
  { rewrite N2Nat.id. exact Ha. }
  rewrite Hk, N.add_0_l. rewrite N2Nat.id in Hle. repeat split; assumption.
Qed.

(* the bit length of 0 is 0 (used below, and needed to know the loop does nothing on 0) *)
Lemma hb_zero w : highest_bit w 0 = 0.
Proof.
  unfold highest_bit.
  destruct (hb_f_spec (N.to_nat w) 0 0 (pow2_pos _)) as (k & Hk & _ & _ & Hz & _).
  rewrite Hk, (Hz eq_refl). reflexivity.
Qed.

(* ------------------------------------------------------------------ *)
(* 2. _cbor_safe_to_multiply is sound                                  *)

Theorem mul_sound : forall w a b, a < 2 ^ w -> b < 2 ^ w ->
  safe_to_multiply w a b = true -> a * b < 2 ^ w.
Proof.
  intros w a b Ha Hb. unfold safe_to_multiply.
  destruct (N.leb_spec a 1) as [A|A]; [intros _; nia|].
  destruct (N.leb_spec b 1) as [B|B]; [intros _; nia|].
  cbn [orb]. intros H. apply N.leb_le in H.
  destruct (hb_spec w a Ha) as (Ha1 & _ & _).
  destruct (hb_spec w b Hb) as (Hb1 & _ & _).
  apply N.lt_le_trans with (2 ^ (highest_bit w a + highest_bit w b)).
  - rewrite N.pow_add_r. apply N.mul_lt_mono; assumption.
  - apply N.pow_le_mono_r; [discriminate | exact H].
Qed.

(* ------------------------------------------------------------------ *)
(* 3. _cbor_safe_to_add is exact                                       *)

Theorem add_iff : forall w a b, a < 2 ^ w -> b < 2 ^ w ->
  (safe_to_add w a b = true <-> a + b < 2 ^ w).
Proof.
  intros w a b Ha Hb. unfold safe_to_add, wrap.
  pose proof (pow2_pos w) as HM.
  destruct (wrap_cases (2 ^ w) (a + b) HM) as [[H1 H2]|[H1 H2]]; [lia| |]; rewrite H2.
  - split; [intros _; exact H1|]. intros _. apply andb_true_intro. split; apply N.leb_le; lia.
  - split; [|lia]. intros H. apply andb_prop in H. destruct H as [H3 H4].
    apply N.leb_le in H3. lia.
Qed.

(* ------------------------------------------------------------------ *)
(* 4. _cbor_safe_signaling_add                                         *)

Theorem sig_add_spec : forall w a b, a < 2 ^ w -> b < 2 ^ w ->
  safe_signaling_add w a b =
  if (a =? 0) || (b =? 0) then 0 else if a + b <? 2 ^ w then a + b else 0.
Proof.
  intros w a b Ha Hb. unfold safe_signaling_add.
  destruct ((a =? 0) || (b =? 0)); [reflexivity|].
  pose proof (add_iff w a b Ha Hb) as [H1 H2].
  destruct (N.ltb_spec (a + b) (2 ^ w)) as [L|L].
  - rewrite (H2 L). apply wrap_small. exact L.
  - destruct (safe_to_add w a b); [|reflexivity]. specialize (H1 eq_refl). lia.
Qed.

(* ------------------------------------------------------------------ *)
(* 5. _cbor_alloc_multiple / _cbor_realloc_multiple                    *)

Theorem alloc_multiple_exact : forall w s n r, s < 2 ^ w -> n < 2 ^ w ->
  alloc_multiple_req w s n = Some r -> r = s * n /\ r < 2 ^ w.
Proof.
  intros w s n r Hs Hn. unfold alloc_multiple_req.
  destruct (safe_to_multiply w s n) eqn:E; [|discriminate].
  intros H. injection H as <-.
  pose proof (mul_sound w s n Hs Hn E) as Hm.
  rewrite (wrap_small w _ Hm). split; [reflexivity | exact Hm].
Qed.

(* ------------------------------------------------------------------ *)
(* 6. container growth                                                 *)

(* exact side condition: the growth factor itself must fit size_t, i.e. 2 < 2^w, i.e. 2 <= w;
   for w = 1 the statement holds only for a = 0 (see grow_w1_counterexample) *)
Theorem grow_spec_gen : forall w a c, 1 <= w -> (2 <= w \/ a = 0) -> a < 2 ^ w ->
  grow_capacity w a = Some c -> c = N.max 1 (2 * a) /\ a < c /\ c < 2 ^ w.
Proof.
  intros w a c Hw Hside Ha. unfold grow_capacity, CBOR_BUFFER_GROWTH.
  destruct (safe_to_multiply w 2 a) eqn:E; [|discriminate].
  intros H. injection H as <-.
  destruct (N.eqb_spec a 0) as [Z|Z].
  - subst a. pose proof (pow2_ge2 w Hw). lia.
  - destruct Hside as [Hw2|]; [|contradiction].
    pose proof (pow2_ge4 w Hw2) as H4.
    assert (H2 : 2 < 2 ^ w) by lia.
    pose proof (mul_sound w 2 a H2 Ha E) as Hm.
    change (match a with 0 => 0 | N.pos q => N.pos q~0 end) with (2 * a).
    rewrite (wrap_small w _ Hm). lia.
Qed.

Theorem grow_spec : forall w a c, 2 <= w -> a < 2 ^ w ->
  grow_capacity w a = Some c -> c = N.max 1 (2 * a) /\ a < c /\ c < 2 ^ w.
Proof.
  intros w a c Hw. apply grow_spec_gen; [lia | left; exact Hw].
Qed.

(* with a 1-bit size_t the guard accepts 2 * 1 (because b <= 1) and the product wraps to 0 *)
Lemma grow_w1_counterexample : 1 < 2 ^ 1 /\ grow_capacity 1 1 = Some 0.
Proof. split; reflexivity. Qed.
(* and with w = 0 even a = 0 yields capacity 1 = 2^0 *)
Lemma grow_w0_counterexample : 0 < 2 ^ 0 /\ grow_capacity 0 0 = Some 1.
Proof. split; reflexivity. Qed.

(* ------------------------------------------------------------------ *)
(* 7. _cbor_encoded_header_size is the length of the RFC head (no bound on arg needed:
      every argument >= 2^32 gets the 8-byte form in both) *)

Lemma len_cons_be k x v : len (x :: be_bytes k v) = N.of_nat k + 1.
Proof. rewrite len_cons. unfold len. rewrite be_bytes_length. reflexivity. Qed.

Theorem header_size_head : forall mt arg, header_size arg = len (head mt arg).
Proof.
  intros mt arg. unfold header_size, head.
  change (2 ^ 8) with 256. change (2 ^ 16) with 65536. change (2 ^ 32) with 4294967296.
  destruct (N.ltb_spec arg 24) as [A|A].
  { destruct (N.leb_spec arg 23); [reflexivity | lia]. }
  destruct (N.leb_spec arg 23); [lia|].
  destruct (N.ltb_spec arg 256) as [B|B].
  { destruct (N.leb_spec arg 255); [reflexivity | lia]. }
  destruct (N.leb_spec arg 255); [lia|].
  destruct (N.ltb_spec arg 65536) as [C|C].
  { destruct (N.leb_spec arg 65535); [rewrite len_cons_be; reflexivity | lia]. }
  destruct (N.leb_spec arg 65535); [lia|].
  destruct (N.ltb_spec arg 4294967296) as [D|D].
  { destruct (N.leb_spec arg 4294967295); [rewrite len_cons_be; reflexivity | lia]. }
  destruct (N.leb_spec arg 4294967295); [lia|].
  rewrite len_cons_be; reflexivity.
Qed.

Lemma header_size_range arg : 1 <= header_size arg <= 9.
Proof.
  unfold header_size.
  destruct (arg <=? 23); [lia|]. destruct (arg <=? 255); [lia|].
  destruct (arg <=? 65535); [lia|]. destruct (arg <=? 4294967295); lia.
Qed.

(* ------------------------------------------------------------------ *)
(* 8. cbor_serialized_size is the exact encoded length, or 0 when that length does not fit
      size_t (64 bits) *)

(* induction principle for the nested inductive [item] *)
Section ItemInd.
Variable P : item -> Prop.
Hypothesis HUint : forall w v, P (IUint w v).
Hypothesis HNegint : forall w v, P (INegint w v).
Hypothesis HBytes : forall d, P (IBytes d).
Hypothesis HBytesI : forall cs, P (IBytesI cs).
Hypothesis HText : forall d, P (IText d).
Hypothesis HTextI : forall cs, P (ITextI cs).
Hypothesis HArray : forall i xs, Forall P xs -> P (IArray i xs).
Hypothesis HMap : forall i kvs, Forall (fun kv => P (fst kv) /\ P (snd kv)) kvs -> P (IMap i kvs).
Hypothesis HTag : forall v x, P x -> P (ITag v x).
Hypothesis HCtrl : forall v, P (ICtrl v).
Hypothesis HFloat : forall w b, P (IFloat w b).

Fixpoint item_ind' (t : item) : P t :=
  match t as t0 return P t0 with
  | IUint w v => HUint w v
  | INegint w v => HNegint w v
  | IBytes d => HBytes d
  | IBytesI cs => HBytesI cs
  | IText d => HText d
  | ITextI cs => HTextI cs
  | IArray i xs =>
      HArray i xs
        ((fix go (l : list item) : Forall P l :=
            match l as l0 return Forall P l0 with
            | [] => Forall_nil P
            | x :: r => Forall_cons x (item_ind' x) (go r)
            end) xs)
  | IMap i kvs =>
      HMap i kvs
        ((fix go (l : list (item * item)) : Forall (fun kv => P (fst kv) /\ P (snd kv)) l :=
            match l as l0 return Forall (fun kv => P (fst kv) /\ P (snd kv)) l0 with
            | [] => Forall_nil _
            | kv :: r =>
                Forall_cons kv
                  (match kv as p return P (fst p) /\ P (snd p) with
                   | (k, v) => conj (item_ind' k) (item_ind' v)
                   end) (go r)
            end) kvs)
  | ITag v x => HTag v x (item_ind' x)
  | ICtrl v => HCtrl v
  | IFloat w b => HFloat w b
  end.
End ItemInd.

(* wf_item on containers, in Forall form *)
Lemma wf_array i xs : wf_item (IArray i xs) <-> Forall wf_item xs /\ len xs < 2 ^ 64.
Proof.
  set (all := fix all (l : list item) : Prop :=
                match l with [] => True | x :: r => wf_item x /\ all r end).
  change (wf_item (IArray i xs)) with (all xs /\ len xs < 2 ^ 64).
  assert (H : all xs <-> Forall wf_item xs).
  { induction xs as [|x r IH].
    - split; [constructor | exact (fun _ => I)].
    - change (all (x :: r)) with (wf_item x /\ all r). rewrite IH.
      split; [intros [A B]; constructor; assumption | intros F; inversion F; split; assumption]. }
  rewrite H. reflexivity.
Qed.

Lemma wf_map i kvs :
  wf_item (IMap i kvs) <->
  Forall (fun kv => wf_item (fst kv) /\ wf_item (snd kv)) kvs /\ len kvs < 2 ^ 64.
Proof.
  set (all := fix all (l : list (item * item)) : Prop :=
                match l with [] => True | kv :: r => wf_item (fst kv) /\ wf_item (snd kv) /\ all r end).
  change (wf_item (IMap i kvs)) with (all kvs /\ len kvs < 2 ^ 64).
  assert (H : all kvs <-> Forall (fun kv => wf_item (fst kv) /\ wf_item (snd kv)) kvs).
  { induction kvs as [|x r IH].
    - split; [constructor | exact (fun _ => I)].
    - change (all (x :: r)) with (wf_item (fst x) /\ wf_item (snd x) /\ all r). rewrite IH.
      split; [intros (A & B & C); constructor; [split|]; assumption
             | intros F; inversion F as [|? ? [A B] C]; repeat split; assumption]. }
  rewrite H. reflexivity.
Qed.

(* "exact or zero" *)
Definition eoz (n : N) : N := if n <? 2 ^ 64 then n else 0.

Lemma eoz_small n : n < 2 ^ 64 -> eoz n = n.
Proof. intros H. unfold eoz. destruct (N.ltb_spec n (2 ^ 64)); [reflexivity | lia]. Qed.

Lemma eoz_lt n : eoz n < 2 ^ 64.
Proof. unfold eoz. destruct (N.ltb_spec n (2 ^ 64)); [assumption | reflexivity]. Qed.

(* ssadd is zero-absorbing; a sum that reached 2^64 stays there *)
Lemma ssadd_eoz A G : 1 <= A -> 1 <= G -> ssadd (eoz A) (eoz G) = eoz (A + G).
Proof.
  intros HA HG. unfold ssadd. rewrite sig_add_spec by apply eoz_lt.
  unfold eoz.
  destruct (N.ltb_spec A (2 ^ 64)) as [a|a].
  2:{ cbn [N.eqb orb]. destruct (N.ltb_spec (A + G) (2 ^ 64)); [lia | reflexivity]. }
  destruct (N.ltb_spec G (2 ^ 64)) as [g|g].
  2:{ cbn [N.eqb]. rewrite orb_true_r. destruct (N.ltb_spec (A + G) (2 ^ 64)); [lia | reflexivity]. }
  destruct (N.eqb_spec A 0); [lia|]. destruct (N.eqb_spec G 0); [lia|]. reflexivity.
Qed.

Definition sumN (l : list N) : N := fold_right N.add 0 l.

Lemma len_concat_map {X} (e : X -> list N) xs :
  len (concat (map e xs)) = sumN (map (fun x => len (e x)) xs).
Proof.
  induction xs as [|x r IH]; [reflexivity|].
  cbn [map concat sumN fold_right]. rewrite len_app, IH. reflexivity.
Qed.

Lemma fold_eoz {X} (f g : X -> N) xs :
  Forall (fun x => f x = eoz (g x) /\ 1 <= g x) xs ->
  forall A, 1 <= A ->
  fold_left (fun acc x => ssadd acc (f x)) xs (eoz A) = eoz (A + sumN (map g xs)).
Proof.
  induction 1 as [|x r [Hf Hg] _ IH]; intros A HA.
  - cbn [fold_left map sumN fold_right]. rewrite N.add_0_r. reflexivity.
  - cbn [fold_left map sumN fold_right]. rewrite Hf, ssadd_eoz by assumption.
    rewrite IH by lia. fold (sumN (map g r)). rewrite N.add_assoc. reflexivity.
Qed.

(* unfolding equations for ssize / encode_rfc on containers *)
Lemma ssize_array i xs :
  ssize (IArray i xs) =
  fold_left (fun acc x => ssadd acc (ssize x)) xs (if i then 2 else header_size (len xs)).
Proof. reflexivity. Qed.

Lemma ssize_map i kvs :
  ssize (IMap i kvs) =
  fold_left (fun acc kv => ssadd acc (ssadd (ssize (fst kv)) (ssize (snd kv)))) kvs
            (if i then 2 else header_size (len kvs)).
Proof. reflexivity. Qed.

Lemma enc_array i xs :
  encode_rfc (IArray i xs) =
  if i then [0x9F] ++ concat (map encode_rfc xs) ++ [0xFF]
  else head 4 (len xs) ++ concat (map encode_rfc xs).
Proof. destruct i; reflexivity. Qed.

Lemma enc_map i kvs :
  encode_rfc (IMap i kvs) =
  if i then [0xBF] ++ concat (map (fun kv => encode_rfc (fst kv) ++ encode_rfc (snd kv)) kvs) ++ [0xFF]
  else head 5 (len kvs) ++ concat (map (fun kv => encode_rfc (fst kv) ++ encode_rfc (snd kv)) kvs).
Proof. destruct i; reflexivity. Qed.

Lemma len_head_pos mt arg : 1 <= len (head mt arg) <= 9.
Proof. rewrite <- header_size_head. apply header_size_range. Qed.

(* every encoded item has at least one byte (no well-formedness needed) *)
Lemma enc_len_pos t : 1 <= len (encode_rfc t).
Proof.
  destruct t as [w v|w v|d|cs|d|cs|i xs|i kvs|v x|v|w b].
  - destruct w; cbn [encode_rfc head_w]; [destruct (v <? 24)|..]; rewrite len_cons; lia.
  - destruct w; cbn [encode_rfc head_w]; [destruct (v <? 24)|..]; rewrite len_cons; lia.
  - cbn [encode_rfc]. rewrite len_app. pose proof (len_head_pos 2 (len d)). lia.
  - cbn [encode_rfc app]. rewrite len_cons. lia.
  - cbn [encode_rfc]. rewrite len_app. pose proof (len_head_pos 3 (len d)). lia.
  - cbn [encode_rfc app]. rewrite len_cons. lia.
  - rewrite enc_array. destruct i.
    + cbn [app]. rewrite len_cons. lia.
    + rewrite len_app. pose proof (len_head_pos 4 (len xs)). lia.
  - rewrite enc_map. destruct i.
    + cbn [app]. rewrite len_cons. lia.
    + rewrite len_app. pose proof (len_head_pos 5 (len kvs)). lia.
  - cbn [encode_rfc]. rewrite len_app. pose proof (len_head_pos 6 v). lia.
  - cbn [encode_rfc]. destruct (v <? 24); rewrite len_cons; lia.
  - destruct w; cbn [encode_rfc]; rewrite len_cons; lia.
Qed.

(* definite strings *)
Lemma defstr_eoz mt d : len d < 2 ^ 64 ->
  defstr_size d = eoz (len (head mt (len d) ++ d)) /\ 1 <= len (head mt (len d) ++ d).
Proof.
  intros Hd. rewrite len_app, <- header_size_head.
  pose proof (header_size_range (len d)) as Hh.
  split; [|lia]. unfold defstr_size. cbv zeta.
  destruct (N.eqb_spec (len d) 0) as [Z|Z].
  - rewrite Z in *. rewrite N.add_0_r. symmetry. apply eoz_small.
    change (2 ^ 64) with 18446744073709551616. lia.
  - rewrite <- ssadd_eoz by lia.
    rewrite (eoz_small (len d)) by exact Hd.
    rewrite eoz_small; [reflexivity|]. change (2 ^ 64) with 18446744073709551616. lia.
Qed.

Lemma chunks_eoz mt cs : Forall (fun d => bytes_ok d /\ len d < 2 ^ 64) cs ->
  fold_left (fun acc c => ssadd acc (defstr_size c)) cs 2 =
  eoz (2 + len (concat (map (fun d => head mt (len d) ++ d) cs))).
Proof.
  intros F. rewrite len_concat_map.
  change 2 with (eoz 2) at 1.
  apply (fold_eoz defstr_size (fun d => len (head mt (len d) ++ d))); [|lia].
  induction F as [|d r [_ Hd] _ IH]; constructor; [apply defstr_eoz; exact Hd | exact IH].
Qed.

Lemma small_eoz n : n <= 9 -> n = eoz n.
Proof. intros H. symmetry. apply eoz_small. change (2 ^ 64) with 18446744073709551616. lia. Qed.

Lemma int_size_len mt w v : int_size w v = len (head_w mt w v).
Proof.
  destruct w; cbn [int_size head_w].
  - destruct (N.leb_spec v 23); destruct (N.ltb_spec v 24); try lia; reflexivity.
  - rewrite len_cons_be. reflexivity.
  - rewrite len_cons_be. reflexivity.
  - rewrite len_cons_be. reflexivity.
Qed.

Lemma int_size_le9 w v : int_size w v <= 9.
Proof. destruct w; cbn [int_size]; [destruct (v <=? 23)|..]; lia. Qed.

Lemma ssize_eoz : forall t, wf_item t -> ssize t = eoz (len (encode_rfc t)).
Proof.
  induction t as [w v|w v|d|cs|d|cs|i xs IH|i kvs IH|v x IH|v|w b] using item_ind'; intros WF.
  - (* IUint *)
    cbn [ssize encode_rfc]. rewrite <- (int_size_len 0). apply small_eoz, int_size_le9.
  - (* INegint *)
    cbn [ssize encode_rfc]. rewrite <- (int_size_len 1). apply small_eoz, int_size_le9.
  - (* IBytes *)
    cbn [wf_item] in WF. destruct WF as [_ Hd]. cbn [ssize encode_rfc]. apply defstr_eoz. exact Hd.
  - (* IBytesI *)
    cbn [wf_item] in WF. destruct WF as [F _]. cbn [ssize encode_rfc].
    rewrite (chunks_eoz 2 cs F). f_equal. cbn [app]. rewrite len_cons, len_app, len_cons, len_nil. lia.
  - cbn [wf_item] in WF. destruct WF as [_ Hd]. cbn [ssize encode_rfc]. apply defstr_eoz. exact Hd.
  - cbn [wf_item] in WF. destruct WF as [F _]. cbn [ssize encode_rfc].
    rewrite (chunks_eoz 3 cs F). f_equal. cbn [app]. rewrite len_cons, len_app, len_cons, len_nil. lia.
  - (* IArray *)
    apply wf_array in WF. destruct WF as [F _].
    rewrite ssize_array, enc_array.
    assert (FF : Forall (fun x => ssize x = eoz (len (encode_rfc x)) /\ 1 <= len (encode_rfc x)) xs).
    { clear -IH F. induction xs as [|x r IHr]; constructor.
      - inversion IH; inversion F; subst. split; [auto | apply enc_len_pos].
      - inversion IH; inversion F; subst. apply IHr; assumption. }
    destruct i.
    + change 2 with (eoz 2) at 1.
      rewrite (fold_eoz ssize (fun x => len (encode_rfc x)) xs FF) by lia.
      rewrite <- len_concat_map. f_equal.
      cbn [app]. rewrite len_cons, len_app, len_cons, len_nil. lia.
    + pose proof (header_size_range (len xs)) as Hh.
      rewrite (small_eoz (header_size (len xs))) at 1 by lia.
      rewrite (fold_eoz ssize (fun x => len (encode_rfc x)) xs FF) by lia.
      rewrite <- len_concat_map, len_app, <- header_size_head. reflexivity.
  - (* IMap *)
    apply wf_map in WF. destruct WF as [F _].
    rewrite ssize_map, enc_map.
    assert (FF : Forall (fun kv => ssadd (ssize (fst kv)) (ssize (snd kv))
                                   = eoz (len (encode_rfc (fst kv) ++ encode_rfc (snd kv)))
                                   /\ 1 <= len (encode_rfc (fst kv) ++ encode_rfc (snd kv))) kvs).
    { clear -IH F. induction kvs as [|x r IHr]; constructor.
      - inversion IH as [|? ? [I1 I2] ?]; inversion F as [|? ? [W1 W2] ?]; subst.
        rewrite len_app. pose proof (enc_len_pos (fst x)). pose proof (enc_len_pos (snd x)).
        split; [|lia]. rewrite (I1 W1), (I2 W2). apply ssadd_eoz; assumption.
      - inversion IH; inversion F; subst. apply IHr; assumption. }
    destruct i.
    + change 2 with (eoz 2) at 1.
      rewrite (fold_eoz (fun kv => ssadd (ssize (fst kv)) (ssize (snd kv)))
                        (fun kv => len (encode_rfc (fst kv) ++ encode_rfc (snd kv))) kvs FF) by lia.
      rewrite <- len_concat_map. f_equal.
      cbn [app]. rewrite len_cons, len_app, len_cons, len_nil. lia.
    + pose proof (header_size_range (len kvs)) as Hh.
      rewrite (small_eoz (header_size (len kvs))) at 1 by lia.
      rewrite (fold_eoz (fun kv => ssadd (ssize (fst kv)) (ssize (snd kv)))
                        (fun kv => len (encode_rfc (fst kv) ++ encode_rfc (snd kv))) kvs FF) by lia.
      rewrite <- len_concat_map, len_app, <- header_size_head. reflexivity.
  - (* ITag *)
    cbn [wf_item] in WF. destruct WF as [_ Wx]. cbn [ssize encode_rfc].
    pose proof (header_size_range v) as Hh.
    rewrite (IH Wx), len_app, <- header_size_head.
    rewrite (small_eoz (header_size v)) at 1 by lia.
    apply ssadd_eoz; [lia | apply enc_len_pos].
  - (* ICtrl: needs v < 256, which wf_item provides *)
    cbn [wf_item] in WF. cbn [ssize encode_rfc].
    assert (E : header_size v = len (if v <? 24 then [0xE0 + v] else [0xF8; v])).
    { unfold header_size.
      destruct (N.leb_spec v 23); destruct (N.ltb_spec v 24); try lia; [reflexivity|].
      destruct (N.leb_spec v 255); [reflexivity | lia]. }
    rewrite <- E. apply small_eoz, header_size_range.
  - (* IFloat: 3 / 5 / 9 bytes whatever the payload *)
    destruct w; cbn [ssize encode_rfc]; rewrite len_cons_be; reflexivity.
Qed.

Theorem ssize_exact_or_zero : forall t, wf_item t ->
  ssize t = let n := len (encode_rfc t) in if n <? 2 ^ 64 then n else 0.
Proof. exact ssize_eoz. Qed.

(* consequences in the form used by the properties C07 / C20 *)
Corollary ssize_zero_iff_overflow : forall t, wf_item t ->
  (ssize t = 0 <-> 2 ^ 64 <= len (encode_rfc t)).
Proof.
  intros t WF. rewrite (ssize_exact_or_zero t WF). cbv zeta.
  pose proof (enc_len_pos t).
  destruct (N.ltb_spec (len (encode_rfc t)) (2 ^ 64)); lia.
Qed.

Corollary ssize_nonzero_exact : forall t, wf_item t ->
  ssize t <> 0 -> ssize t = len (encode_rfc t) /\ ssize t < 2 ^ 64.
Proof.
  intros t WF. rewrite (ssize_exact_or_zero t WF). cbv zeta.
  destruct (N.ltb_spec (len (encode_rfc t)) (2 ^ 64)); [auto | congruence].
Qed.

Print Assumptions hb_spec.
Print Assumptions mul_sound.
Print Assumptions add_iff.
Print Assumptions sig_add_spec.
Print Assumptions alloc_multiple_exact.
Print Assumptions grow_spec_gen.
Print Assumptions grow_spec.
Print Assumptions header_size_head.
Print Assumptions ssize_exact_or_zero.
Print Assumptions ssize_zero_iff_overflow.
Print Assumptions ssize_nonzero_exact.
