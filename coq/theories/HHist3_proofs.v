(* Model H, the client calls of HHist3.v (third layer, outside the [op] type of HHist.v and the calls of
   HHist2.v):

     cbor_new_int8..64 / cbor_set_uint8..64 / cbor_mark_uint / cbor_mark_negint
     cbor_new_float2/4/8 / cbor_set_float2/4/8
     cbor_new_ctrl / cbor_set_ctrl / cbor_set_bool / cbor_build_bool / cbor_new_null / cbor_new_undef
     cbor_move, alone and in the idioms f(.., cbor_move(x)) for push / map_add / tag_set_item / build_tag
     cbor_intermediate_decref, cbor_build_string, the eight type-specific serializers,
     the predicates and the value getters

   For an ARBITRARY allocator oracle [refuse] each call preserves the invariants of C04_step (the
   reference-count accounting [Inv], [wf], [caps]) under its legality condition, never faults, and is
   atomic under refusal (a refused request leaves the heap as it was).  [C04_step3] is the summary over
   [HHist3.op3] (which also embeds the calls of the two earlier layers), [C04_history3] its closure under
   histories.  The examples at the end run concrete histories by computation. *)
From CB Require Import Word Word_proofs PMem PItem SpecItem HHeap HItems HOps HHist HHist2 HHist3.
From CB Require Import HRef_proofs HCont_proofs HRead_proofs HLoad_proofs HHist_proofs HHist2_proofs.
From CB Require Import HCopy_proofs PItem_proofs.
From Coq Require Import Lia ZArith ZifyBool ZifyN ZifyNat List.
Import ListNotations.
Local Open Scope N_scope.
Ltac Zify.zify_post_hook ::= Z.div_mod_to_equations.

(* ------------------------------------------------------------------------------------------ *)
(* 1. accounting lemmas                                                                        *)
(* ------------------------------------------------------------------------------------------ *)

(* a live item changes its node without changing the references and data blocks it holds: a store of
   a value, a change of type between UINT and NEGINT *)
Lemma Inv_renode own ownd w w' a rc n n' :
  Inv own ownd [] w -> heap w a = Some (CItem rc n) ->
  (forall b, heap w' b = upd (heap w) a (Some (CItem rc n')) b) -> next w' = next w ->
  kids n' = kids n -> dblocks n' = dblocks n ->
  Inv own ownd [] w'.
Proof.
  intros I E Hh Hn K D.
  eapply (Inv_relink2 own ownd own w w' a rc n n' [] [] I E Hh Hn).
  - intros x. rewrite K. reflexivity.
  - intros x. rewrite D. reflexivity.
  - intros x. reflexivity.
Qed.

(* cbor_move on an item that has another reference: the client gives one reference up and the count
   follows; nothing is released *)
Lemma Inv_move own ownd w w' a rc n :
  Inv own ownd [] w -> heap w a = Some (CItem rc n) -> 0 < own a -> 1 < rc ->
  (forall b, heap w' b = upd (heap w) a (Some (CItem (rc - 1) n)) b) -> next w' = next w ->
  Inv (own_dec own a) ownd [] w'.
Proof.
  intros I E O Hrc Hh Hn.
  assert (G : Inv (own_dec own a) ownd [TDecref a] w).
  { eapply (Inv_give (own_dec own a) own ownd a w); [|exact I].
    intros x. unfold own_dec. destruct (N.eqb_spec x a) as [->|]; lia. }
  set (g := ghost (upd (heap w) a (Some (CItem (rc - 1) n))) (next w)).
  assert (Ig : Inv (own_dec own a) ownd [] g).
  { eapply (step_gt1 (own_dec own a) ownd a [] w g rc n G E Hrc); reflexivity. }
  eapply Inv_heq; [exact Ig|exact Hh|cbn [next g ghost]; lia].
Qed.

Lemma own_dec_split own q : 0 < own q -> forall y, own y = own_dec own q y + cnt y [q].
Proof.
  intros O y. unfold own_dec. cbn [cnt].
  destruct (N.eqb_spec y q) as [E|E]; destruct (N.eqb_spec q y) as [E'|E']; subst; try congruence; lia.
Qed.

Lemma sub64_1 rc : 0 < rc -> sub64 rc 1 = rc - 1.
Proof. intros H. unfold sub64. destruct (N.leb_spec 1 rc); lia. Qed.

Lemma wrap64_pred_succ rc : 0 < rc -> rc < W64 -> wrap64 (rc - 1 + 1) = rc.
Proof. intros H1 H2. replace (rc - 1 + 1) with rc by lia. apply wrap64_small. exact H2. Qed.

(* the effect of cbor_move as a term *)
Definition w_move (a : addr) (rc : N) (n : node) (w : world) : world :=
  w_set a (CItem (sub64 rc 1) n) (w_log (AccR a) w).

Lemma move_spec a w rc n :
  heap w a = Some (CItem rc n) -> move a w = Ret a (w_move a rc n w).
Proof.
  intros H. unfold move.
  rewrite (bind_Ret _ _ _ _ _ (rd_item_spec a w rc n H)). cbn [fst snd].
  rewrite (bind_Ret _ _ _ tt (w_move a rc n w)); [reflexivity|].
  apply wr_item_spec with (rc0 := rc) (n0 := n). exact H.
Qed.

(* the side table: removing an address really removes it, and only it *)
Lemma memN_remN_same a l : memN a (remN a l) = false.
Proof.
  unfold memN, remN. induction l as [|x l IH]; [reflexivity|]. cbn [filter].
  destruct (N.eqb_spec x a) as [->|Hne]; cbn [negb]; [exact IH|].
  cbn [existsb]. rewrite IH. destruct (N.eqb_spec a x); [congruence|reflexivity].
Qed.
Lemma memN_remN_other a b l : a <> b -> memN b (remN a l) = memN b l.
Proof.
  intros Hab. unfold memN, remN. induction l as [|x l IH]; [reflexivity|]. cbn [filter existsb].
  destruct (N.eqb_spec x a) as [->|Hne]; cbn [negb].
  - rewrite IH. destruct (N.eqb_spec b a); [congruence|reflexivity].
  - cbn [existsb]. rewrite IH. reflexivity.
Qed.

(* ------------------------------------------------------------------------------------------ *)
(* 2. the calls                                                                                *)
(* ------------------------------------------------------------------------------------------ *)

Section Calls.
Variable refuse : N -> N -> bool.

(* ---- constructors of one block: cbor_new_int8..64, cbor_new_float2/4/8, cbor_new_ctrl ---- *)

(* always returns; refused -> NULL and the heap unchanged; granted -> a fresh item at the bump pointer
   with count 1, owned once by the client *)
Lemma alloc_item_step own ownd w sz n :
  Inv own ownd [] w -> caps w -> kids n = [] -> dblocks n = [] -> node_ok n ->
  exists r w', malloc refuse sz (CItem 1 n) w = Ret r w' /\
    Inv (match r with Some a => own1 own a | None => own end) ownd [] w' /\ wf w' /\ caps w' /\
    ((refuse (nreq w) sz = true /\ r = None /\
      heap w' = heap w /\ next w' = next w /\ alog w' = alog w /\ trace w' = EvMalloc sz None :: trace w)
     \/
     (refuse (nreq w) sz = false /\ r = Some (next w) /\ heap w (next w) = None /\ own (next w) = 0 /\
      heap w' = upd (heap w) (next w) (Some (CItem 1 n)) /\ next w' = next w + 1 /\
      alog w' = alog w /\ trace w' = EvMalloc sz (Some (next w)) :: trace w)).
Proof.
  intros I Cw K D Hn. pose proof (Inv_wf _ _ _ _ I) as W.
  destruct (refuse (nreq w) sz) eqn:R.
  - rewrite (malloc_refused refuse sz _ w R). eexists _, _. split; [reflexivity|].
    split; [eapply Inv_same; [exact I|reflexivity|cbn; lia]|].
    split; [exact W|]. split; [eapply caps_same; [exact Cw|reflexivity]|].
    left. repeat split; reflexivity.
  - rewrite (malloc_granted refuse sz _ w R). eexists _, _. split; [reflexivity|].
    assert (I' : Inv (own1 own (next w)) ownd [] (w_malloc sz (CItem 1 n) w)).
    { unfold own1. eapply (Inv_alloc_item_pw own ownd w _ n I K D); reflexivity. }
    split; [exact I'|]. split; [eapply Inv_wf; exact I'|].
    split; [eapply caps_upd; [exact Cw|reflexivity|]; intros rc n0 H; injection H as _ <-; exact Hn|].
    right. split; [reflexivity|]. split; [reflexivity|].
    split; [apply W; lia|].
    split; [apply (Inv_dead_own _ _ _ _ (next w) I); apply W; lia|].
    repeat split; reflexivity.
Qed.

(* the handle table after a call that returns a handle *)
Definition new_handle3 (s' : cstate3) : option addr := new_handle (base s').

Theorem new_int_step s own ownd w iw :
  Inv own ownd [] w -> caps w ->
  exists s' ok w', new_int refuse s iw w = Ret (s', Out (OutHandle ok)) w' /\
    Inv (match new_handle3 s' with Some a => own1 own a | None => own end) ownd [] w' /\ wf w' /\ caps w' /\
    ((refuse (nreq w) (SZ_ITEM + iw_bytes iw) = true /\ ok = false /\ s' = mkcs3 (hpush (base s) None) (unset s) /\
      heap w' = heap w /\ next w' = next w /\ trace w' = EvMalloc (SZ_ITEM + iw_bytes iw) None :: trace w)
     \/
     (refuse (nreq w) (SZ_ITEM + iw_bytes iw) = false /\ ok = true /\
      s' = mkcs3 (hpush (base s) (Some (next w))) (next w :: unset s) /\ heap w (next w) = None /\
      heap w' = upd (heap w) (next w) (Some (CItem 1 (NInt false iw 0))) /\ next w' = next w + 1 /\
      trace w' = EvMalloc (SZ_ITEM + iw_bytes iw) (Some (next w)) :: trace w)).
Proof.
  intros I Cw. unfold new_int.
  destruct (alloc_item_step own ownd w (SZ_ITEM + iw_bytes iw) (NInt false iw 0) I Cw eq_refl eq_refl Logic.I)
    as (r & w' & E & I' & W' & C' & [(R & -> & Hh & Hn & _ & T)|(R & -> & Dn & _ & Hh & Hn & _ & T)]);
    rewrite (bind_Ret _ _ _ _ _ E); rewrite ret_eq; eexists _, _, _; (split; [reflexivity|]);
    unfold new_handle3; cbn [base]; rewrite new_handle_hpush; (split; [exact I'|]); (split; [exact W'|]);
    (split; [exact C'|]).
  - left. repeat split; assumption.
  - right. repeat split; assumption.
Qed.

Theorem new_float_step s own ownd w fw :
  Inv own ownd [] w -> caps w ->
  exists s' ok w', new_float refuse s fw w = Ret (s', Out (OutHandle ok)) w' /\
    Inv (match new_handle3 s' with Some a => own1 own a | None => own end) ownd [] w' /\ wf w' /\ caps w' /\
    ((refuse (nreq w) (SZ_ITEM + fw_bytes fw) = true /\ ok = false /\ s' = mkcs3 (hpush (base s) None) (unset s) /\
      heap w' = heap w /\ next w' = next w /\ trace w' = EvMalloc (SZ_ITEM + fw_bytes fw) None :: trace w)
     \/
     (refuse (nreq w) (SZ_ITEM + fw_bytes fw) = false /\ ok = true /\
      s' = mkcs3 (hpush (base s) (Some (next w))) (next w :: unset s) /\ heap w (next w) = None /\
      heap w' = upd (heap w) (next w) (Some (CItem 1 (NFloat fw 0))) /\ next w' = next w + 1 /\
      trace w' = EvMalloc (SZ_ITEM + fw_bytes fw) (Some (next w)) :: trace w)).
Proof.
  intros I Cw. unfold new_float.
  destruct (alloc_item_step own ownd w (SZ_ITEM + fw_bytes fw) (NFloat fw 0) I Cw eq_refl eq_refl Logic.I)
    as (r & w' & E & I' & W' & C' & [(R & -> & Hh & Hn & _ & T)|(R & -> & Dn & _ & Hh & Hn & _ & T)]);
    rewrite (bind_Ret _ _ _ _ _ E); rewrite ret_eq; eexists _, _, _; (split; [reflexivity|]);
    unfold new_handle3; cbn [base]; rewrite new_handle_hpush; (split; [exact I'|]); (split; [exact W'|]);
    (split; [exact C'|]).
  - left. repeat split; assumption.
  - right. repeat split; assumption.
Qed.

(* ---- stores into an existing item: cbor_set_uintN, cbor_mark_*, cbor_set_floatN, cbor_set_ctrl, cbor_set_bool ---- *)

Lemma assert_true {A} id (k : M A) w : (assert_ id true ;;; k) w = k w.
Proof. reflexivity. Qed.

(* read the item, then write it back with a node that holds the same references and data blocks: no
   allocator event, the same count, every other cell untouched *)
Lemma store_step own ownd w a rc n n' :
  Inv own ownd [] w -> caps w -> heap w a = Some (CItem rc n) ->
  kids n' = kids n -> dblocks n' = dblocks n -> node_ok n' ->
  exists w', (c <- rd_item a ;; wr_item a (fst c) n') w = Ret tt w' /\
    Inv own ownd [] w' /\ wf w' /\ caps w' /\
    heap w' = upd (heap w) a (Some (CItem rc n')) /\
    next w' = next w /\ nreq w' = nreq w /\ trace w' = trace w.
Proof.
  intros I Cw E K D Hn.
  rewrite (bind_Ret _ _ _ _ _ (rd_item_spec a w _ _ E)). cbn [fst snd].
  set (w1 := w_log (AccR a) w).
  assert (E1 : heap w1 a = Some (CItem rc n)) by exact E.
  rewrite (wr_item_spec a rc n' w1 _ _ E1).
  set (w2 := w_set a (CItem rc n') w1).
  assert (I2 : Inv own ownd [] w2).
  { eapply (Inv_renode own ownd w w2 a rc n n' I E); [reflexivity|reflexivity|exact K|exact D]. }
  eexists. split; [reflexivity|]. split; [exact I2|]. split; [eapply Inv_wf; exact I2|].
  split; [eapply (caps_upd w w2 a); [exact Cw|reflexivity|intros rc' n0 H; injection H as _ <-; exact Hn]|].
  repeat split; reflexivity.
Qed.

Lemma iw_eqb_refl iw : iw_eqb iw iw = true.
Proof. destruct iw; reflexivity. Qed.
Lemma fw_eqb_refl fw : fw_eqb fw fw = true.
Proof. destruct fw; reflexivity. Qed.
Lemma iw_eqb_eq a b : iw_eqb a b = true -> a = b.
Proof. destruct a, b; cbn; congruence. Qed.
Lemma fw_eqb_eq a b : fw_eqb a b = true -> a = b.
Proof. destruct a, b; cbn; congruence. Qed.

(* cbor_set_uintN on an integer item of that width (either sign, value set or not): the value is
   stored modulo 2^N (the conversion of the argument), the item leaves the table of unset values *)
Theorem set_uint_step s own ownd w iw h v a rc neg v0 :
  Inv own ownd [] w -> caps w -> hget (base s) h = Some a ->
  heap w a = Some (CItem rc (NInt neg iw v0)) ->
  exists w', set_uint s iw h v w = Ret (mkcs3 (base s) (remN a (unset s)), Out OutUnit) w' /\
    Inv own ownd [] w' /\ wf w' /\ caps w' /\
    heap w' = upd (heap w) a (Some (CItem rc (NInt neg iw (wrap (iw_bits iw) v)))) /\
    next w' = next w /\ nreq w' = nreq w /\ trace w' = trace w.
Proof.
  intros I Cw Hh E.
  destruct (store_step own ownd w a rc _ (NInt neg iw (wrap (iw_bits iw) v)) I Cw E eq_refl eq_refl Logic.I)
    as (w' & R & P).
  exists w'. split; [|exact P].
  unfold set_uint. rewrite Hh.
  rewrite (bind_Ret _ _ _ _ _ (rd_item_spec a w _ _ E)). cbn [fst snd].
  rewrite iw_eqb_refl, assert_true.
  rewrite (bind_Ret _ _ _ _ _ (rd_item_spec a w _ _ E)) in R. cbn [fst snd] in R.
  rewrite (bind_Ret _ _ _ _ _ R). reflexivity.
Qed.

(* cbor_mark_uint / cbor_mark_negint: only the type changes *)
Theorem mark_int_step s own ownd w neg h a rc neg0 iw v0 :
  Inv own ownd [] w -> caps w -> hget (base s) h = Some a ->
  heap w a = Some (CItem rc (NInt neg0 iw v0)) ->
  exists w', mark_int s neg h w = Ret (s, Out OutUnit) w' /\
    Inv own ownd [] w' /\ wf w' /\ caps w' /\
    heap w' = upd (heap w) a (Some (CItem rc (NInt neg iw v0))) /\
    next w' = next w /\ nreq w' = nreq w /\ trace w' = trace w.
Proof.
  intros I Cw Hh E.
  destruct (store_step own ownd w a rc _ (NInt neg iw v0) I Cw E eq_refl eq_refl Logic.I) as (w' & R & P).
  exists w'. split; [|exact P].
  unfold mark_int. rewrite Hh.
  rewrite (bind_Ret _ _ _ _ _ (rd_item_spec a w _ _ E)). cbn [fst snd].
  rewrite (bind_Ret _ _ _ _ _ (rd_item_spec a w _ _ E)) in R. cbn [fst snd] in R.
  rewrite (bind_Ret _ _ _ _ _ R). reflexivity.
Qed.

(* cbor_set_float2/4/8 on a float item of that width *)
Theorem set_float_step s own ownd w fw h bits a rc b0 :
  Inv own ownd [] w -> caps w -> hget (base s) h = Some a ->
  heap w a = Some (CItem rc (NFloat fw b0)) ->
  exists w', set_float s fw h bits w = Ret (mkcs3 (base s) (remN a (unset s)), Out OutUnit) w' /\
    Inv own ownd [] w' /\ wf w' /\ caps w' /\
    heap w' = upd (heap w) a (Some (CItem rc (NFloat fw (wrap (fw_bits fw) bits)))) /\
    next w' = next w /\ nreq w' = nreq w /\ trace w' = trace w.
Proof.
  intros I Cw Hh E.
  destruct (store_step own ownd w a rc _ (NFloat fw (wrap (fw_bits fw) bits)) I Cw E eq_refl eq_refl Logic.I)
    as (w' & R & P).
  exists w'. split; [|exact P].
  unfold set_float. rewrite Hh.
  rewrite (bind_Ret _ _ _ _ _ (rd_item_spec a w _ _ E)). cbn [fst snd].
  rewrite fw_eqb_refl, assert_true.
  rewrite (bind_Ret _ _ _ _ _ (rd_item_spec a w _ _ E)) in R. cbn [fst snd] in R.
  rewrite (bind_Ret _ _ _ _ _ R). reflexivity.
Qed.

(* cbor_set_ctrl on a ctrl item: any value, stored modulo 256 *)
Lemma set_ctrl_at_step own ownd w a v rc v0 :
  Inv own ownd [] w -> caps w -> heap w a = Some (CItem rc (NCtrl v0)) ->
  exists w', set_ctrl_at a v w = Ret tt w' /\
    Inv own ownd [] w' /\ wf w' /\ caps w' /\
    heap w' = upd (heap w) a (Some (CItem rc (NCtrl (wrap 8 v)))) /\
    next w' = next w /\ nreq w' = nreq w /\ trace w' = trace w.
Proof.
  intros I Cw E.
  destruct (store_step own ownd w a rc _ (NCtrl (wrap 8 v)) I Cw E eq_refl eq_refl Logic.I) as (w' & R & P).
  exists w'. split; [|exact P].
  unfold set_ctrl_at.
  rewrite (bind_Ret _ _ _ _ _ (rd_item_spec a w _ _ E)). cbn [fst snd].
  rewrite (bind_Ret _ _ _ _ _ (rd_item_spec a w _ _ E)) in R. cbn [fst snd] in R. exact R.
Qed.

Theorem set_ctrl_step s own ownd w h v a rc v0 :
  Inv own ownd [] w -> caps w -> hget (base s) h = Some a ->
  heap w a = Some (CItem rc (NCtrl v0)) ->
  exists w', set_ctrl s h v w = Ret (s, Out OutUnit) w' /\
    Inv own ownd [] w' /\ wf w' /\ caps w' /\
    heap w' = upd (heap w) a (Some (CItem rc (NCtrl (wrap 8 v)))) /\
    next w' = next w /\ nreq w' = nreq w /\ trace w' = trace w.
Proof.
  intros I Cw Hh E.
  destruct (set_ctrl_at_step own ownd w a v rc v0 I Cw E) as (w' & R & P).
  exists w'. split; [|exact P]. unfold set_ctrl. rewrite Hh.
  rewrite (bind_Ret _ _ _ _ _ R). reflexivity.
Qed.

(* cbor_set_bool on a boolean (ctrl value 20 or 21) *)
Theorem set_bool_step s own ownd w h b a rc v0 :
  Inv own ownd [] w -> caps w -> hget (base s) h = Some a ->
  heap w a = Some (CItem rc (NCtrl v0)) -> v0 = 20 \/ v0 = 21 ->
  exists w', set_bool s h b w = Ret (s, Out OutUnit) w' /\
    Inv own ownd [] w' /\ wf w' /\ caps w' /\
    heap w' = upd (heap w) a (Some (CItem rc (NCtrl (if b then 21 else 20)))) /\
    next w' = next w /\ nreq w' = nreq w /\ trace w' = trace w.
Proof.
  intros I Cw Hh E Hv.
  destruct (store_step own ownd w a rc _ (NCtrl (if b then 21 else 20)) I Cw E eq_refl eq_refl Logic.I)
    as (w' & R & P).
  exists w'. split; [|exact P].
  unfold set_bool. rewrite Hh.
  rewrite (bind_Ret _ _ _ _ _ (rd_item_spec a w _ _ E)). cbn [fst snd].
  assert (B : (v0 =? 20) || (v0 =? 21) = true) by (destruct Hv as [->| ->]; reflexivity).
  rewrite B, assert_true.
  rewrite (bind_Ret _ _ _ _ _ (rd_item_spec a w _ _ E)) in R. cbn [fst snd] in R.
  rewrite (bind_Ret _ _ _ _ _ R). reflexivity.
Qed.

(* ---- constructors through the earlier layers' [newh]: cbor_new_ctrl, cbor_build_bool, cbor_new_null / undef,
        cbor_build_string ---- *)

Lemma lift3_newh_eq s (m : M (option addr)) w r w' :
  m w = Ret r w' ->
  lift3 s (newh (base s) m) w =
  Ret (mkcs3 (hpush (base s) r) (unset s), Out (OutHandle (match r with Some _ => true | None => false end))) w'.
Proof. intros E. unfold lift3, newh, bind. rewrite E. reflexivity. Qed.

Lemma new_handle3_push s r u : new_handle3 (mkcs3 (hpush (base s) r) u) = r.
Proof. unfold new_handle3. cbn [base]. apply new_handle_hpush. Qed.

Lemma wp_lift3_newh s m w (Q : option addr -> world -> Prop) :
  wp m w Q -> wp (lift3 s (newh (base s) m)) w (fun r w' => Q (new_handle3 (fst r)) w').
Proof.
  intros (r & w' & E & HQ). eapply wp_eq; [apply lift3_newh_eq; exact E|].
  cbn [fst]. rewrite new_handle3_push. exact HQ.
Qed.

Lemma wp_lift3 s (m : M (cstate * out)) w (Q : cstate -> world -> Prop) :
  wp m w (fun r w' => Q (fst r) w') -> wp (lift3 s m) w (fun r w' => Q (base (fst r)) w').
Proof.
  intros ([s1 o1] & w' & E & HQ). unfold lift3. apply wp_bind. eapply wp_eq; [exact E|]. apply wp_ret. exact HQ.
Qed.

Theorem new_ctrl_step s own ownd w :
  Inv own ownd [] w -> caps w ->
  exists s' ok w', new_ctrl refuse s w = Ret (s', Out (OutHandle ok)) w' /\
    Inv (match new_handle3 s' with Some a => own1 own a | None => own end) ownd [] w' /\ wf w' /\ caps w' /\
    ((refuse (nreq w) SZ_ITEM = true /\ ok = false /\ s' = mkcs3 (hpush (base s) None) (unset s) /\
      heap w' = heap w /\ next w' = next w)
     \/
     (refuse (nreq w) SZ_ITEM = false /\ ok = true /\ s' = mkcs3 (hpush (base s) (Some (next w))) (unset s) /\
      heap w' = upd (heap w) (next w) (Some (CItem 1 (NCtrl 0))) /\ next w' = next w + 1)).
Proof.
  intros I Cw. unfold new_ctrl, new_ctrl_item.
  destruct (alloc_item_step own ownd w SZ_ITEM (NCtrl 0) I Cw eq_refl eq_refl Logic.I)
    as (r & w' & E & I' & W' & C' & [(R & -> & Hh & Hn & _ & T)|(R & -> & Dn & _ & Hh & Hn & _ & T)]);
    rewrite (lift3_newh_eq s _ w _ w' E); eexists _, _, _; (split; [reflexivity|]);
    rewrite new_handle3_push; (split; [exact I'|]); (split; [exact W'|]); (split; [exact C'|]).
  - left. repeat split; assumption.
  - right. repeat split; assumption.
Qed.

Theorem build_bool_step s own ownd w b :
  Inv own ownd [] w -> caps w ->
  exists s' ok w', build_bool refuse s b w = Ret (s', Out (OutHandle ok)) w' /\
    Inv (match new_handle3 s' with Some a => own1 own a | None => own end) ownd [] w' /\ wf w' /\ caps w' /\
    ((refuse (nreq w) SZ_ITEM = true /\ ok = false /\ s' = mkcs3 (hpush (base s) None) (unset s) /\
      heap w' = heap w /\ next w' = next w)
     \/
     (refuse (nreq w) SZ_ITEM = false /\ ok = true /\ s' = mkcs3 (hpush (base s) (Some (next w))) (unset s) /\
      heap w' = upd (heap w) (next w) (Some (CItem 1 (NCtrl (if b then 21 else 20)))) /\ next w' = next w + 1)).
Proof.
  intros I Cw. unfold build_bool, build_ctrl.
  destruct (alloc_item_step own ownd w SZ_ITEM (NCtrl (if b then 21 else 20)) I Cw eq_refl eq_refl Logic.I)
    as (r & w' & E & I' & W' & C' & [(R & -> & Hh & Hn & _ & T)|(R & -> & Dn & _ & Hh & Hn & _ & T)]);
    rewrite (lift3_newh_eq s _ w _ w' E); eexists _, _, _; (split; [reflexivity|]);
    rewrite new_handle3_push; (split; [exact I'|]); (split; [exact W'|]); (split; [exact C'|]).
  - left. repeat split; assumption.
  - right. repeat split; assumption.
Qed.

(* cbor_new_null / cbor_new_undef (v = 22 / 23): cbor_new_ctrl then cbor_set_ctrl; a refused request
   leaves the heap as it was *)
Theorem new_ctrl_set_step s own ownd w v :
  Inv own ownd [] w -> caps w ->
  exists s' ok w', new_ctrl_set refuse s v w = Ret (s', Out (OutHandle ok)) w' /\
    Inv (match new_handle3 s' with Some a => own1 own a | None => own end) ownd [] w' /\ wf w' /\ caps w' /\
    ((refuse (nreq w) SZ_ITEM = true /\ ok = false /\ s' = mkcs3 (hpush (base s) None) (unset s) /\
      heap w' = heap w /\ next w' = next w)
     \/
     (refuse (nreq w) SZ_ITEM = false /\ ok = true /\ s' = mkcs3 (hpush (base s) (Some (next w))) (unset s) /\
      (forall b, heap w' b = upd (heap w) (next w) (Some (CItem 1 (NCtrl (wrap 8 v)))) b) /\ next w' = next w + 1)).
Proof.
  intros I Cw. unfold new_ctrl_set, new_ctrl_item.
  destruct (alloc_item_step own ownd w SZ_ITEM (NCtrl 0) I Cw eq_refl eq_refl Logic.I)
    as (r & w1 & E & I1 & W1 & C1 & [(R & -> & Hh & Hn & _ & T)|(R & -> & Dn & _ & Hh & Hn & _ & T)]).
  - erewrite lift3_newh_eq; [|rewrite (bind_Ret _ _ _ _ _ E); reflexivity].
    eexists _, _, _. split; [reflexivity|]. rewrite new_handle3_push.
    split; [exact I1|]. split; [exact W1|]. split; [exact C1|]. left. repeat split; assumption.
  - assert (E1 : heap w1 (next w) = Some (CItem 1 (NCtrl 0))) by (rewrite Hh; apply upd_same).
    destruct (set_ctrl_at_step (own1 own (next w)) ownd w1 (next w) v 1 0 I1 C1 E1)
      as (w2 & R2 & I2 & W2 & C2 & Hh2 & Hn2 & _).
    erewrite lift3_newh_eq;
      [|rewrite (bind_Ret _ _ _ _ _ E); rewrite (bind_Ret _ _ _ _ _ R2); reflexivity].
    eexists _, _, _. split; [reflexivity|]. rewrite new_handle3_push.
    split; [exact I2|]. split; [exact W2|]. split; [exact C2|]. right.
    split; [exact R|]. split; [reflexivity|]. split; [reflexivity|].
    split; [|rewrite Hn2; exact Hn].
    intros b. rewrite Hh2, Hh. unfold upd. destruct (N.eqb_spec b (next w)); reflexivity.
Qed.

(* cbor_build_string: the two-block constructor on the bytes before the first NUL *)
Lemma build_string0_Inv s own ownd w bytes :
  Inv own ownd [] w ->
  wp (build_string0 refuse s bytes) w
     (fun r w' => Inv (match new_handle3 (fst r) with Some a => own1 own a | None => own end) ownd [] w').
Proof.
  intros I. unfold build_string0.
  apply (wp_lift3_newh s _ w (ctor_Inv own ownd)). apply build_string_Inv. exact I.
Qed.

(* ---- cbor_move alone, cbor_intermediate_decref ---- *)

(* cbor_move on an item with another reference (the client holds two, or a container holds one): the
   client's reference is given up, nothing is released, no allocator event *)
Theorem move_step s own ownd w h a rc n :
  Inv own ownd [] w -> caps w -> hget (base s) h = Some a -> 0 < own a ->
  heap w a = Some (CItem rc n) -> 1 < rc ->
  exists w', move_op s h w = Ret (s, Out OutUnit) w' /\
    Inv (own_dec own a) ownd [] w' /\ wf w' /\ caps w' /\
    heap w' = upd (heap w) a (Some (CItem (rc - 1) n)) /\
    next w' = next w /\ nreq w' = nreq w /\ trace w' = trace w.
Proof.
  intros I Cw Hh O E Hrc. unfold move_op. rewrite Hh.
  rewrite (bind_Ret _ _ _ _ _ (move_spec a w rc n E)). rewrite ret_eq.
  set (w1 := w_move a rc n w).
  assert (H1 : heap w1 = upd (heap w) a (Some (CItem (rc - 1) n))).
  { subst w1. unfold w_move. wsimpl. rewrite sub64_1 by lia. reflexivity. }
  assert (I1 : Inv (own_dec own a) ownd [] w1).
  { eapply (Inv_move own ownd w w1 a rc n I E O Hrc); [intros b; rewrite H1; reflexivity|reflexivity]. }
  exists w1. split; [reflexivity|]. split; [exact I1|]. split; [eapply Inv_wf; exact I1|].
  split; [eapply (caps_upd w w1 a); [exact Cw|exact H1|intros rc' n0 H; injection H as _ <-; eapply Cw; exact E]|].
  split; [exact H1|]. repeat split; reflexivity.
Qed.

Lemma intermediate_decref_Inv s own ownd w h a :
  Inv own ownd [] w -> hget (base s) h = Some a -> 0 < own a ->
  wp (intermediate_decref s h) w (fun r w' => fst r = s /\ Inv (own_dec own a) ownd [] w' /\ next w' = next w).
Proof.
  intros I Hh O. unfold intermediate_decref. rewrite Hh.
  apply wp_bind. eapply wp_mono; [eapply decref_Inv; eassumption|].
  intros u w' (I' & _ & Hn). apply wp_ret. cbn [fst]. auto.
Qed.

(* ---- the idioms f(.., cbor_move(x)) ---- *)

(* what cbor_move leaves behind, whatever the count was: the same heap with the count of [q] one lower *)
Lemma moved_facts own ownd w q rcq nq :
  Inv own ownd [] w -> heap w q = Some (CItem rcq nq) ->
  let w1 := w_move q rcq nq w in
  0 < rcq /\ (forall b, heap w1 b = upd (heap w) q (Some (CItem (rcq - 1) nq)) b) /\ next w1 = next w /\ wf w1 /\
  heap w1 q = Some (CItem (rcq - 1) nq) /\ (forall b, b <> q -> heap w1 b = heap w b).
Proof.
  intros I Eq w1. pose proof (Inv_nil_pos _ _ _ _ _ _ I Eq) as Pq.
  assert (H1 : forall b, heap w1 b = upd (heap w) q (Some (CItem (rcq - 1) nq)) b).
  { intros b. subst w1. unfold w_move. wsimpl. rewrite sub64_1 by exact Pq. reflexivity. }
  split; [exact Pq|]. split; [exact H1|]. split; [reflexivity|]. split.
  { intros b Hb. rewrite H1. unfold upd. destruct (N.eqb_spec b q) as [->|_].
    - pose proof (live_lt _ _ _ _ _ _ I Eq). change (next w1) with (next w) in Hb. lia.
    - apply (Inv_wf _ _ _ _ I). exact Hb. }
  split; [rewrite H1; apply upd_same|]. intros b Hb. rewrite H1. apply upd_other. exact Hb.
Qed.

(* cbor_array_push(p, cbor_move(q)): if the push succeeds the array has taken over the client's
   reference (the count of q is what it was); if it fails (full definite array, refused growth) nothing
   but the count of q has changed: it is one lower and the client's reference is gone *)
Lemma push_move_wp own ownd p q w rc indef d c l rcq nq :
  Inv own ownd [] w -> heap w p = Some (CItem rc (NArr indef d c l)) -> capinvA indef d c l ->
  0 < own q -> heap w q = Some (CItem rcq nq) -> rcq < W64 -> p <> q ->
  wp (move q ;;; array_push refuse p q) w
     (fun ok w' => if ok then Inv (own_dec own q) ownd [] w'
                   else (forall b, heap w' b = upd (heap w) q (Some (CItem (rcq - 1) nq)) b) /\ next w' = next w).
Proof.
  intros I Ep Cap Oq Eq Rq Hpq.
  destruct (moved_facts own ownd w q rcq nq I Eq) as (Pq & H1 & N1 & W1 & E1q & O1).
  apply wp_bind. eapply wp_eq; [apply move_spec; exact Eq|].
  set (w1 := w_move q rcq nq w) in *.
  assert (E1p : heap w1 p = Some (CItem rc (NArr indef d c l))) by (rewrite O1 by exact Hpq; exact Ep).
  eapply wp_mono.
  - eapply (array_push_gen refuse indef p w1 q d c l rc (rcq - 1) nq W1 E1p); [|exact Cap|exact E1q|exact Hpq].
    intros b ->. destruct (Inv_blocks _ _ _ _ _ _ I Ep b ltac:(left; reflexivity)) as [(sz & Eb) _].
    exists sz. rewrite O1; [exact Eb|]. intros ->. rewrite Eq in Eb. discriminate.
  - intros ok w' P. destruct ok; cbn [gpush_post] in P.
    2:{ destruct P as [Hh Hn]. split; [intros b; rewrite Hh; apply H1|rewrite Hn; exact N1]. }
    destruct P as (d' & c' & _ & Ep' & Eq' & P).
    rewrite wrap64_pred_succ in Eq' by assumption.
    assert (OM : forall y, own y = own_dec own q y + cnt y [q]).
    { exact (own_dec_split own q Oq). }
    destruct P as [(-> & Hn & Ho)|(-> & Hn & (sz & En) & Eo & Ho)].
    + eapply (Inv_link_same own (own_dec own q) ownd w w' p rc _ (NArr indef d c' (l ++ [q])) [q] I Ep OM Ep').
      * intros b Hb. destruct (N.eq_dec b q) as [->|Hbq]; [rewrite Eq'; symmetry; exact Eq|].
        rewrite Ho by assumption. apply O1. exact Hbq.
      * rewrite Hn. exact N1.
      * intros y. cbn [kids]. apply cnt_app.
      * intros y. reflexivity.
    + rewrite N1 in *.
      eapply (Inv_link_grown own (own_dec own q) ownd w w' p rc _ (NArr indef (Some (next w)) c' (l ++ [q])) [q] d sz I Ep OM).
      * intros o ->. cbn [dblocks olist]. left. reflexivity.
      * exact Ep'.
      * exact En.
      * exact Eo.
      * intros b B1 B2 B3. destruct (N.eq_dec b q) as [->|Hbq]; [rewrite Eq'; symmetry; exact Eq|].
        rewrite Ho by assumption. apply O1. exact Hbq.
      * exact Hn.
      * intros y. cbn [kids]. apply cnt_app.
      * intros y. cbn [dblocks olist cnt]. lia.
Qed.

(* the client call *)
Theorem push_move_step s own ownd w a x p q rc indef d c l rcq nq :
  Inv own ownd [] w -> caps w ->
  hget (base s) a = Some p -> hget (base s) x = Some q -> is_set s x = true ->
  0 < own q -> p <> q ->
  heap w p = Some (CItem rc (NArr indef d c l)) -> heap w q = Some (CItem rcq nq) -> rcq < W64 ->
  exists ok w', push_move refuse s a x w = Ret (s, Out (OutBool ok)) w' /\
    (ok = true -> Inv (own_dec own q) ownd [] w') /\
    (ok = false ->
       (forall b, heap w' b = upd (heap w) q (Some (CItem (rcq - 1) nq)) b) /\ next w' = next w /\
       (1 < rcq -> Inv (own_dec own q) ownd [] w')).
Proof.
  intros I Cw Ha Hx Hs Oq Hpq Ep Eq Rq.
  pose proof (Cw _ _ _ Ep) as Cap. cbn [node_ok] in Cap.
  destruct (push_move_wp own ownd p q w rc indef d c l rcq nq I Ep Cap Oq Eq Rq Hpq) as (ok & w' & E & P).
  exists ok, w'. split.
  - unfold push_move. rewrite Ha, Hx, Hs.
    change ((move q ;;; (b <- array_push refuse p q ;; ret (s, Out (OutBool b)))) w = Ret (s, Out (OutBool ok)) w').
    unfold bind in E |- *. destruct (move q w) as [u w1|k]; [|discriminate E].
    destruct (array_push refuse p q w1) as [b w2|k]; [|discriminate E]. injection E as -> ->. reflexivity.
  - split; intros ->; [exact P|]. destruct P as [Hh Hn]. split; [exact Hh|]. split; [exact Hn|].
    intros Hrc. eapply (Inv_move own ownd w w' q rcq nq I Eq Oq Hrc Hh Hn).
Qed.

(* cbor_tag_set_item(t, cbor_move(x)) on a tag without item: never fails; the tag takes over the
   client's reference *)
Lemma tag_set_move_wp own ownd p q w rc v rcq nq :
  Inv own ownd [] w -> heap w p = Some (CItem rc (NTag v None)) ->
  0 < own q -> heap w q = Some (CItem rcq nq) -> rcq < W64 -> p <> q ->
  wp (move q ;;; tag_set_item p q) w
     (fun _ w' => Inv (own_dec own q) ownd [] w' /\
                  (forall b, heap w' b = upd (heap w) p (Some (CItem rc (NTag v (Some q)))) b) /\ next w' = next w).
Proof.
  intros I Ep Oq Eq Rq Hpq.
  destruct (moved_facts own ownd w q rcq nq I Eq) as (Pq & H1 & N1 & W1 & E1q & O1).
  apply wp_bind. eapply wp_eq; [apply move_spec; exact Eq|].
  set (w1 := w_move q rcq nq w) in *.
  unfold tag_set_item. apply wp_bind. eapply wp_eq; [apply incref_spec; exact E1q|].
  set (w2 := w_incref q (rcq - 1) nq w1).
  assert (E2p : heap w2 p = Some (CItem rc (NTag v None))).
  { subst w2. wsimpl. rewrite upd_other by exact Hpq. rewrite O1 by exact Hpq. exact Ep. }
  apply wp_bind. eapply wp_eq; [apply rd_item_spec; exact E2p|]. cbn [fst snd].
  eapply wp_eq; [eapply wr_item_spec; wsimpl; exact E2p|].
  assert (OM : forall y, own y = own_dec own q y + cnt y [q]).
  { exact (own_dec_split own q Oq). }
  set (w3 := w_set p (CItem rc (NTag v (Some q))) (w_log (AccR p) w2)).
  assert (HH : forall b, heap w3 b = upd (heap w) p (Some (CItem rc (NTag v (Some q)))) b).
  { intros b. subst w3 w2. wsimpl. unfold upd at 1 3. destruct (N.eqb_spec b p) as [->|Hb]; [reflexivity|].
    unfold upd. destruct (N.eqb_spec b q) as [->|Hbq].
    - rewrite wrap64_pred_succ by assumption. symmetry. exact Eq.
    - apply O1. exact Hbq. }
  split; [|split; [exact HH|exact N1]].
  eapply (Inv_link_same own (own_dec own q) ownd w w3 p rc (NTag v None) (NTag v (Some q)) [q] I Ep OM).
  - rewrite HH. apply upd_same.
  - intros b Hb. rewrite HH. apply upd_other. exact Hb.
  - exact N1.
  - intros y. reflexivity.
  - intros y. reflexivity.
Qed.

Theorem tag_set_move_step s own ownd w t x p q rc v rcq nq :
  Inv own ownd [] w -> hget (base s) t = Some p -> hget (base s) x = Some q -> is_set s x = true ->
  0 < own q -> p <> q ->
  heap w p = Some (CItem rc (NTag v None)) -> heap w q = Some (CItem rcq nq) -> rcq < W64 ->
  exists w', tag_set_move s t x w = Ret (s, Out OutUnit) w' /\ Inv (own_dec own q) ownd [] w'.
Proof.
  intros I Ht Hx Hs Oq Hpq Ep Eq Rq.
  destruct (tag_set_move_wp own ownd p q w rc v rcq nq I Ep Oq Eq Rq Hpq) as (u & w' & E & P & _).
  exists w'. split; [|exact P].
  unfold tag_set_move. rewrite Ht, Hx, Hs.
  unfold bind in E |- *. destruct (move q w) as [u1 w1|k]; [|discriminate E].
  destruct (tag_set_item p q w1) as [u2 w2|k]; [|discriminate E]. injection E as _ ->. reflexivity.
Qed.

(* cbor_build_tag(v, cbor_move(x)): granted -> a fresh tag owned by the client holds the reference the
   client had to x; refused -> NULL, and nothing but the count of x has changed (it is one lower) *)
Lemma build_tag_move_wp own ownd v q w rcq nq :
  Inv own ownd [] w -> 0 < own q -> heap w q = Some (CItem rcq nq) -> rcq < W64 ->
  wp (move q ;;; build_tag refuse v q) w
     (fun r w' => match r with
                  | Some t => t = next w /\ Inv (own1 (own_dec own q) t) ownd [] w' /\
                              (forall b, heap w' b = upd (heap w) (next w) (Some (CItem 1 (NTag v (Some q)))) b) /\
                              next w' = next w + 1
                  | None => (forall b, heap w' b = upd (heap w) q (Some (CItem (rcq - 1) nq)) b) /\ next w' = next w
                  end).
Proof.
  intros I Oq Eq Rq.
  destruct (moved_facts own ownd w q rcq nq I Eq) as (Pq & H1 & N1 & W1 & E1q & O1).
  pose proof (live_lt _ _ _ _ _ _ I Eq) as Lq.
  apply wp_bind. eapply wp_eq; [apply move_spec; exact Eq|].
  set (w1 := w_move q rcq nq w) in *.
  unfold build_tag, new_tag. apply wp_bind.
  destruct (refuse (nreq w1) SZ_ITEM) eqn:R.
  - eapply wp_eq; [apply malloc_refused; exact R|]. apply wp_ret. split; [intros b; wsimpl; apply H1|wsimpl; exact N1].
  - eapply wp_eq; [apply malloc_granted; exact R|].
    set (w2 := w_malloc SZ_ITEM (CItem 1 (NTag v None)) w1).
    set (t := next w) in *.
    assert (Ht : next w1 = t) by exact N1.
    assert (Hqt : q <> t) by (unfold t; lia).
    assert (E2q : heap w2 q = Some (CItem (rcq - 1) nq)).
    { subst w2. wsimpl. rewrite Ht. rewrite upd_other by exact Hqt. exact E1q. }
    assert (E2t : heap w2 t = Some (CItem 1 (NTag v None))).
    { subst w2. wsimpl. rewrite Ht. apply upd_same. }
    apply wp_bind. unfold tag_set_item. apply wp_bind. eapply wp_eq; [apply incref_spec; exact E2q|].
    set (w3 := w_incref q (rcq - 1) nq w2).
    assert (E3t : heap w3 t = Some (CItem 1 (NTag v None))).
    { subst w3. wsimpl. rewrite upd_other by (intros H; apply Hqt; symmetry; exact H). exact E2t. }
    apply wp_bind. eapply wp_eq; [apply rd_item_spec; exact E3t|]. cbn [fst snd].
    eapply wp_eq; [eapply wr_item_spec; wsimpl; exact E3t|]. apply wp_ret. rewrite Ht. split; [reflexivity|].
    (* accounting: first the fresh tag (owned by the client), then it takes over the reference to q *)
    set (g1 := ghost (upd (heap w) t (Some (CItem 1 (NTag v None)))) (t + 1)).
    assert (I1 : Inv (own1 own t) ownd [] g1).
    { unfold own1. eapply (Inv_alloc_item_pw own ownd w g1 (NTag v None) I); reflexivity. }
    assert (OM : forall y, own1 own t y = own1 (own_dec own q) t y + cnt y [q]).
    { intros y. unfold own1. rewrite (own_dec_split own q Oq y). lia. }
    set (w4 := w_set t (CItem 1 (NTag v (Some q))) (w_log (AccR t) w3)).
    assert (HH : forall b, heap w4 b = upd (heap w) t (Some (CItem 1 (NTag v (Some q)))) b).
    { intros b. subst w4 w3 w2. wsimpl. rewrite Ht. unfold upd at 1 4. destruct (N.eqb_spec b t) as [->|Hb]; [reflexivity|].
      unfold upd at 1. destruct (N.eqb_spec b q) as [->|Hbq].
      - rewrite wrap64_pred_succ by assumption. symmetry. exact Eq.
      - rewrite upd_other by exact Hb. apply O1. exact Hbq. }
    assert (N4 : next w4 = t + 1) by (subst w4 w3 w2; wsimpl; rewrite Ht; reflexivity).
    split; [|split; [exact HH|exact N4]].
    eapply (Inv_link_same (own1 own t) (own1 (own_dec own q) t) ownd g1 w4 t 1 (NTag v None) (NTag v (Some q)) [q] I1).
    + cbn [heap g1 ghost]. apply upd_same.
    + exact OM.
    + rewrite HH. apply upd_same.
    + intros b Hb. rewrite HH. cbn [heap g1 ghost]. rewrite !upd_other by exact Hb. reflexivity.
    + exact N4.
    + intros y. reflexivity.
    + intros y. reflexivity.
Qed.

Theorem build_tag_move_step s own ownd w v x q rcq nq :
  Inv own ownd [] w -> hget (base s) x = Some q -> is_set s x = true ->
  0 < own q -> heap w q = Some (CItem rcq nq) -> rcq < W64 ->
  exists s' ok w', build_tag_move refuse s v x w = Ret (s', Out (OutHandle ok)) w' /\
    ((ok = true /\ s' = mkcs3 (hpush (base s) (Some (next w))) (unset s) /\
      Inv (own1 (own_dec own q) (next w)) ownd [] w')
     \/
     (ok = false /\ s' = mkcs3 (hpush (base s) None) (unset s) /\
      (forall b, heap w' b = upd (heap w) q (Some (CItem (rcq - 1) nq)) b) /\ next w' = next w /\
      (1 < rcq -> Inv (own_dec own q) ownd [] w'))).
Proof.
  intros I Hx Hs Oq Eq Rq.
  destruct (build_tag_move_wp own ownd v q w rcq nq I Oq Eq Rq) as (r & w' & E & P).
  assert (E' : build_tag_move refuse s v x w =
               Ret (mkcs3 (hpush (base s) r) (unset s), Out (OutHandle (match r with Some _ => true | None => false end))) w').
  { unfold build_tag_move. rewrite Hx, Hs.
    unfold bind in E. destruct (move q w) as [u1 w1|k] eqn:M; [|discriminate E].
    rewrite (bind_Ret _ _ _ _ _ M). apply lift3_newh_eq. exact E. }
  rewrite E'. eexists _, _, _. split; [reflexivity|]. destruct r as [t|].
  - destruct P as (-> & P & _). left. auto.
  - destruct P as [Hh Hn]. right. split; [reflexivity|]. split; [reflexivity|]. split; [exact Hh|]. split; [exact Hn|].
    intros Hrc. eapply (Inv_move own ownd w w' q rcq nq I Eq Oq Hrc Hh Hn).
Qed.

(* cbor_map_add(p, {.key = cbor_move(q), .value = cbor_move(r)}) *)

Lemma moved_facts' w q rcq nq :
  wf w -> heap w q = Some (CItem rcq nq) -> 0 < rcq ->
  let w1 := w_move q rcq nq w in
  (forall b, heap w1 b = upd (heap w) q (Some (CItem (rcq - 1) nq)) b) /\ next w1 = next w /\ wf w1 /\
  heap w1 q = Some (CItem (rcq - 1) nq) /\ (forall b, b <> q -> heap w1 b = heap w b).
Proof.
  intros W Eq Pq w1.
  assert (H1 : forall b, heap w1 b = upd (heap w) q (Some (CItem (rcq - 1) nq)) b).
  { intros b. subst w1. unfold w_move. wsimpl. rewrite sub64_1 by exact Pq. reflexivity. }
  split; [exact H1|]. split; [reflexivity|]. split.
  { intros b Hb. rewrite H1. unfold upd. destruct (N.eqb_spec b q) as [->|_].
    - change (next w1) with (next w) in Hb. rewrite (W q Hb) in Eq. discriminate.
    - apply W. exact Hb. }
  split; [rewrite H1; apply upd_same|]. intros b Hb. rewrite H1. apply upd_other. exact Hb.
Qed.

Lemma own_le_rc own ownd w q rcq nq :
  Inv own ownd [] w -> heap w q = Some (CItem rcq nq) -> own q <= rcq.
Proof.
  intros [_ H2] Eq. specialize (H2 q). unfold okcell in H2. rewrite Eq in H2. cbn [pend tofree] in H2.
  intuition lia.
Qed.

Lemma own_dec2_split own q r : 0 < own q -> 0 < own r -> (q = r -> 1 < own q) ->
  forall y, own y = own_dec (own_dec own q) r y + cnt y [q; r].
Proof.
  intros Oq Or Oqr y. unfold own_dec. cbn [cnt].
  destruct (N.eqb_spec y q) as [E1|E1]; destruct (N.eqb_spec q y) as [E1'|E1'];
  destruct (N.eqb_spec y r) as [E2|E2]; destruct (N.eqb_spec r y) as [E2'|E2']; try congruence;
  try (assert (Hqr : q = r) by congruence; specialize (Oqr Hqr)); subst; lia.
Qed.

Lemma map_add_move_wp own ownd p q r w rc indef d c l rcq nq rcr nr :
  Inv own ownd [] w -> heap w p = Some (CItem rc (NMap indef d c l)) -> capinvM indef d c l ->
  0 < own q -> 0 < own r -> heap w q = Some (CItem rcq nq) -> heap w r = Some (CItem rcr nr) ->
  rcq < W64 -> rcr < W64 -> p <> q -> p <> r -> q <> r ->
  wp (move q ;;; move r ;;; map_add refuse p q r) w
     (fun ok w' => if ok then Inv (own_dec (own_dec own q) r) ownd [] w'
                   else (forall b, heap w' b = upd (upd (heap w) q (Some (CItem (rcq - 1) nq))) r (Some (CItem (rcr - 1) nr)) b) /\
                        next w' = next w).
Proof.
  intros I Ep Cap Oq Or Eq Er Rq Rr Hpq Hpr Hqr.
  pose proof (Inv_nil_pos _ _ _ _ _ _ I Eq) as Pq. pose proof (Inv_nil_pos _ _ _ _ _ _ I Er) as Pr.
  destruct (moved_facts' w q rcq nq (Inv_wf _ _ _ _ I) Eq Pq) as (H1 & N1 & W1 & E1q & O1).
  apply wp_bind. eapply wp_eq; [apply move_spec; exact Eq|].
  set (w1 := w_move q rcq nq w) in *.
  assert (E1r : heap w1 r = Some (CItem rcr nr)) by (rewrite O1 by (intros H; apply Hqr; symmetry; exact H); exact Er).
  destruct (moved_facts' w1 r rcr nr W1 E1r Pr) as (H2 & N2 & W2 & E2r & O2).
  apply wp_bind. eapply wp_eq; [apply move_spec; exact E1r|].
  set (w2 := w_move r rcr nr w1) in *.
  assert (E2q : heap w2 q = Some (CItem (rcq - 1) nq)) by (rewrite O2 by exact Hqr; exact E1q).
  assert (E2p : heap w2 p = Some (CItem rc (NMap indef d c l))).
  { rewrite O2 by exact Hpr. rewrite O1 by exact Hpq. exact Ep. }
  assert (HH : forall b, heap w2 b = upd (upd (heap w) q (Some (CItem (rcq - 1) nq))) r (Some (CItem (rcr - 1) nr)) b).
  { intros b. rewrite H2. unfold upd at 1 2. destruct (N.eqb_spec b r); [reflexivity|]. apply H1. }
  assert (O12 : forall b, b <> q -> b <> r -> heap w2 b = heap w b).
  { intros b B1 B2. rewrite O2 by exact B2. apply O1. exact B1. }
  eapply wp_mono.
  - eapply (map_add_gen refuse indef p w2 q r d c l rc (rcq - 1) nq (rcr - 1) nr W2 E2p); try assumption.
    intros b ->. destruct (Inv_blocks _ _ _ _ _ _ I Ep b ltac:(left; reflexivity)) as [(sz & Eb) _].
    exists sz. rewrite O12; [exact Eb| |]; intros ->; [rewrite Eq in Eb|rewrite Er in Eb]; discriminate.
  - intros ok w' P. destruct ok; cbn [mpush_post] in P.
    2:{ destruct P as [Hh Hn]. split; [intros b; rewrite Hh; apply HH|rewrite Hn, N2; exact N1]. }
    destruct P as (d' & c' & _ & Ep' & Eq' & Er' & P).
    rewrite wrap64_pred_succ in Eq' by assumption. rewrite wrap64_pred_succ in Er' by assumption.
    assert (OM : forall y, own y = own_dec (own_dec own q) r y + cnt y [q; r]).
    { apply own_dec2_split; [exact Oq|exact Or|]. intros ->. contradiction. }
    assert (Hother : forall b, (b <> p -> b <> q -> b <> r -> heap w' b = heap w2 b) -> b <> p -> heap w' b = heap w b).
    { intros b H Hb. destruct (N.eq_dec b q) as [->|Hbq]; [rewrite Eq'; symmetry; exact Eq|].
      destruct (N.eq_dec b r) as [->|Hbr]; [rewrite Er'; symmetry; exact Er|].
      rewrite H by assumption. apply O12; assumption. }
    assert (N12 : next w2 = next w) by (rewrite N2; exact N1).
    destruct P as [(-> & Hn & Ho)|(-> & Hn & (sz & En) & Eo & Ho)].
    + eapply (Inv_link_same own _ ownd w w' p rc _ (NMap indef d c' (l ++ [(q, Some r)])) [q; r] I Ep OM Ep').
      * intros b Hb. apply Hother; [apply Ho|exact Hb].
      * rewrite Hn. exact N12.
      * intros y. apply kids_map_snoc.
      * intros y. reflexivity.
    + rewrite N12 in *.
      eapply (Inv_link_grown own _ ownd w w' p rc _ (NMap indef (Some (next w)) c' (l ++ [(q, Some r)])) [q; r] d sz I Ep OM).
      * intros o ->. cbn [dblocks olist]. left. reflexivity.
      * exact Ep'.
      * exact En.
      * exact Eo.
      * intros b B1 B2 B3. apply Hother; [|exact B1]. intros C1 C2 C3. apply Ho; assumption.
      * exact Hn.
      * intros y. apply kids_map_snoc.
      * intros y. cbn [dblocks olist cnt]. lia.
Qed.

(* the same item as key and as value: two references are moved *)
Lemma map_add_move_same_wp own ownd p q w rc indef d c l rcq nq :
  Inv own ownd [] w -> heap w p = Some (CItem rc (NMap indef d c l)) -> capinvM indef d c l ->
  1 < own q -> heap w q = Some (CItem rcq nq) -> rcq < W64 -> p <> q ->
  wp (move q ;;; move q ;;; map_add refuse p q q) w
     (fun ok w' => if ok then Inv (own_dec (own_dec own q) q) ownd [] w'
                   else (forall b, heap w' b = upd (heap w) q (Some (CItem (rcq - 2) nq)) b) /\ next w' = next w).
Proof.
  intros I Ep Cap Oq Eq Rq Hpq.
  pose proof (own_le_rc own ownd w q rcq nq I Eq) as Le.
  destruct (moved_facts' w q rcq nq (Inv_wf _ _ _ _ I) Eq ltac:(lia)) as (H1 & N1 & W1 & E1q & O1).
  apply wp_bind. eapply wp_eq; [apply move_spec; exact Eq|].
  set (w1 := w_move q rcq nq w) in *.
  destruct (moved_facts' w1 q (rcq - 1) nq W1 E1q ltac:(lia)) as (H2 & N2 & W2 & E2q & O2).
  apply wp_bind. eapply wp_eq; [apply move_spec; exact E1q|].
  set (w2 := w_move q (rcq - 1) nq w1) in *.
  replace (rcq - 1 - 1) with (rcq - 2) in * by lia.
  assert (E2p : heap w2 p = Some (CItem rc (NMap indef d c l))).
  { rewrite O2 by exact Hpq. rewrite O1 by exact Hpq. exact Ep. }
  assert (HH : forall b, heap w2 b = upd (heap w) q (Some (CItem (rcq - 2) nq)) b).
  { intros b. rewrite H2. unfold upd at 1 2. destruct (N.eqb_spec b q); [reflexivity|].
    rewrite H1. apply upd_other. assumption. }
  assert (O12 : forall b, b <> q -> heap w2 b = heap w b).
  { intros b B1. rewrite O2 by exact B1. apply O1. exact B1. }
  assert (N12 : next w2 = next w) by (rewrite N2; exact N1).
  eapply wp_mono.
  - eapply (map_add_same_gen refuse indef p w2 q d c l rc (rcq - 2) nq W2 E2p); try assumption.
    intros b ->. destruct (Inv_blocks _ _ _ _ _ _ I Ep b ltac:(left; reflexivity)) as [(sz & Eb) _].
    exists sz. rewrite O12; [exact Eb|]. intros ->. rewrite Eq in Eb. discriminate.
  - intros ok w' P. destruct ok; cbn [msame_post] in P.
    2:{ destruct P as [Hh Hn]. split; [intros b; rewrite Hh; apply HH|rewrite Hn; exact N12]. }
    destruct P as (d' & c' & Ep' & Eq' & P).
    assert (WW : wrap64 (wrap64 (rcq - 2 + 1) + 1) = rcq).
    { rewrite (wrap64_small (rcq - 2 + 1)) by lia. replace (rcq - 2 + 1 + 1) with rcq by lia. apply wrap64_small. exact Rq. }
    rewrite WW in Eq'.
    assert (OM : forall y, own y = own_dec (own_dec own q) q y + cnt y [q; q]).
    { apply own_dec2_split; [lia|lia|intros _; exact Oq]. }
    assert (Hother : forall b, (b <> p -> b <> q -> heap w' b = heap w2 b) -> b <> p -> heap w' b = heap w b).
    { intros b H Hb. destruct (N.eq_dec b q) as [->|Hbq]; [rewrite Eq'; symmetry; exact Eq|].
      rewrite H by assumption. apply O12; assumption. }
    destruct P as [(-> & Hn & Ho)|(-> & Hn & (sz & En) & Eo & Ho)].
    + eapply (Inv_link_same own _ ownd w w' p rc _ (NMap indef d c' (l ++ [(q, Some q)])) [q; q] I Ep OM Ep').
      * intros b Hb. apply Hother; [apply Ho|exact Hb].
      * rewrite Hn. exact N12.
      * intros y. apply kids_map_snoc.
      * intros y. reflexivity.
    + rewrite N12 in *.
      eapply (Inv_link_grown own _ ownd w w' p rc _ (NMap indef (Some (next w)) c' (l ++ [(q, Some q)])) [q; q] d sz I Ep OM).
      * intros o ->. cbn [dblocks olist]. left. reflexivity.
      * exact Ep'.
      * exact En.
      * exact Eo.
      * intros b B1 B2 B3. apply Hother; [|exact B1]. intros C1 C2. apply Ho; assumption.
      * exact Hn.
      * intros y. apply kids_map_snoc.
      * intros y. cbn [dblocks olist cnt]. lia.
Qed.

Theorem map_add_move_step s own ownd w m k v p q r rc indef d c l rcq nq rcr nr :
  Inv own ownd [] w -> caps w ->
  hget (base s) m = Some p -> hget (base s) k = Some q -> hget (base s) v = Some r ->
  is_set s k = true -> is_set s v = true ->
  0 < own q -> 0 < own r -> (q = r -> 1 < own q) -> p <> q -> p <> r ->
  heap w p = Some (CItem rc (NMap indef d c l)) ->
  heap w q = Some (CItem rcq nq) -> heap w r = Some (CItem rcr nr) -> rcq < W64 -> rcr < W64 ->
  exists ok w', map_add_move refuse s m k v w = Ret (s, Out (OutBool ok)) w' /\
    (ok = true -> Inv (own_dec (own_dec own q) r) ownd [] w') /\
    (ok = false -> next w' = next w /\ (forall b, b <> q -> b <> r -> heap w' b = heap w b) /\
       (1 < rcq -> 1 < rcr -> (q = r -> 2 < rcq) -> Inv (own_dec (own_dec own q) r) ownd [] w')).
Proof.
  intros I Cw Hm Hk Hv Sk Sv Oq Or Oqr Hpq Hpr Ep Eq Er Rq Rr.
  pose proof (Cw _ _ _ Ep) as Cap. cbn [node_ok] in Cap.
  assert (G : forall ok w' (Q : bool -> world -> Prop),
            (move q ;;; move r ;;; map_add refuse p q r) w = Ret ok w' ->
            map_add_move refuse s m k v w = Ret (s, Out (OutBool ok)) w').
  { intros ok w' _ E. unfold map_add_move. rewrite Hm, Hk, Hv, Sk, Sv. cbn [andb].
    unfold bind in E |- *. destruct (move q w) as [u1 w1|k1]; [|discriminate E].
    destruct (move r w1) as [u2 w2|k2]; [|discriminate E].
    destruct (map_add refuse p q r w2) as [b w3|k3]; [|discriminate E]. injection E as -> ->. reflexivity. }
  destruct (N.eq_dec q r) as [<-|Hqr].
  - assert (rcr = rcq /\ nr = nq) as [-> ->] by (rewrite Eq in Er; injection Er as <- <-; auto).
    specialize (Oqr eq_refl).
    destruct (map_add_move_same_wp own ownd p q w rc indef d c l rcq nq I Ep Cap Oqr Eq Rq Hpq) as (ok & w' & E & P).
    exists ok, w'. split; [apply (G ok w' (fun _ _ => True) E)|]. split; intros ->; [exact P|].
    destruct P as [Hh Hn]. split; [exact Hn|].
    split; [intros b B1 _; rewrite Hh; apply upd_other; exact B1|]. intros H1 _ H2. specialize (H2 eq_refl).
    set (g := ghost (upd (heap w) q (Some (CItem (rcq - 1) nq))) (next w)).
    assert (Ig : Inv (own_dec own q) ownd [] g).
    { eapply (Inv_move own ownd w g q rcq nq I Eq Oq H1); reflexivity. }
    eapply (Inv_move (own_dec own q) ownd g w' q (rcq - 1) nq Ig).
    + cbn [heap g ghost]. apply upd_same.
    + unfold own_dec. rewrite N.eqb_refl. lia.
    + lia.
    + intros b. rewrite Hh. cbn [heap g ghost]. unfold upd. destruct (N.eqb_spec b q); [|reflexivity].
      replace (rcq - 1 - 1) with (rcq - 2) by lia. reflexivity.
    + rewrite Hn. reflexivity.
  - destruct (map_add_move_wp own ownd p q r w rc indef d c l rcq nq rcr nr I Ep Cap Oq Or Eq Er Rq Rr Hpq Hpr Hqr)
      as (ok & w' & E & P).
    exists ok, w'. split; [apply (G ok w' (fun _ _ => True) E)|]. split; intros ->; [exact P|].
    destruct P as [Hh Hn]. split; [exact Hn|].
    split; [intros b B1 B2; rewrite Hh; rewrite upd_other by exact B2; apply upd_other; exact B1|]. intros H1 H2 _.
    set (g := ghost (upd (heap w) q (Some (CItem (rcq - 1) nq))) (next w)).
    assert (Ig : Inv (own_dec own q) ownd [] g).
    { eapply (Inv_move own ownd w g q rcq nq I Eq Oq H1); reflexivity. }
    eapply (Inv_move (own_dec own q) ownd g w' r rcr nr Ig).
    + cbn [heap g ghost]. rewrite upd_other by (intros H; apply Hqr; symmetry; exact H). exact Er.
    + unfold own_dec. destruct (N.eqb_spec r q); [subst; contradiction|]. lia.
    + exact H2.
    + intros b. rewrite Hh. reflexivity.
    + rewrite Hn. reflexivity.
Qed.

(* ---- the type-specific serializers, the predicates, the getters: nothing is stored, no allocator event ---- *)

Lemma serialize_typed_wp s own ownd w k h n a rc n0 :
  Inv own ownd [] w -> hget (base s) h = Some a -> memN a (unset s) = false ->
  heap w a = Some (CItem rc n0) -> node_kind n0 = k -> readable (abs_fuel w) (heap w) a ->
  wp (serialize_typed s k h n) w
     (fun r w' => fst r = s /\ (exists wr bytes, snd r = Out (OutBytes wr bytes)) /\ Inv own ownd [] w' /\
                  (forall b, heap w' b = heap w b) /\ next w' = next w /\ nreq w' = nreq w /\ trace w' = trace w).
Proof.
  intros I Hh Hs E Hk R. unfold serialize_typed. rewrite Hh, Hs.
  apply wp_bind. eapply wp_eq; [apply rd_item_spec; exact E|]. cbn [fst snd].
  rewrite Hk, N.eqb_refl. unfold assert_. apply wp_bind. apply wp_ret.
  set (w1 := w_log (AccR a) w).
  destruct (abs_of_tot w1 a R) as (t & w2 & Ea & Hh2 & Hn2).
  pose proof (abs_readonly _ _ _ _ _ Ea) as (_ & _ & Q2 & T2 & _).
  unfold serialize_h. apply wp_bind. apply wp_bind. eapply wp_eq; [exact Ea|]. apply wp_ret.
  destruct (C07_into_all t n) as (rt & out & Es & _). rewrite Es. apply wp_ret. cbn [fst snd].
  split; [reflexivity|]. split; [eauto|].
  split; [eapply Inv_same; [exact I|intros b; rewrite Hh2; reflexivity|rewrite Hn2; cbn; lia]|].
  split; [intros b; rewrite Hh2; reflexivity|]. split; [rewrite Hn2; reflexivity|].
  split; [rewrite Q2; reflexivity|rewrite T2; reflexivity].
Qed.

Lemma preds3_wp s own ownd w h a rc n0 :
  Inv own ownd [] w -> hget (base s) h = Some a -> heap w a = Some (CItem rc n0) ->
  wp (preds3 s h) w (fun r w' => r = (s, OutVals (preds_of rc n0)) /\ Inv own ownd [] w' /\ w' = w_log (AccR a) w).
Proof.
  intros I Hh E. unfold preds3. rewrite Hh. apply wp_bind. eapply wp_eq; [apply rd_item_spec; exact E|].
  apply wp_ret. cbn [snd]. split; [reflexivity|]. split; [|reflexivity].
  eapply Inv_same; [exact I|reflexivity|cbn; lia].
Qed.

Lemma vals3_wp s own ownd w h a rc n0 :
  Inv own ownd [] w -> hget (base s) h = Some a -> memN a (unset s) = false -> heap w a = Some (CItem rc n0) ->
  wp (vals3 s h) w (fun r w' => r = (s, OutVals (preds_of rc n0 ++ values_of n0)) /\ Inv own ownd [] w' /\ w' = w_log (AccR a) w).
Proof.
  intros I Hh Hs E. unfold vals3. rewrite Hh, Hs. apply wp_bind. eapply wp_eq; [apply rd_item_spec; exact E|].
  apply wp_ret. cbn [snd]. split; [reflexivity|]. split; [|reflexivity].
  eapply Inv_same; [exact I|reflexivity|cbn; lia].
Qed.

Lemma ptrs3_wp s own ownd w h a rc n0 :
  Inv own ownd [] w -> hget (base s) h = Some a -> heap w a = Some (CItem rc n0) ->
  wp (ptrs3 s h) w (fun r w' => r = (s, OutVals (ptrs_of n0)) /\ Inv own ownd [] w' /\ w' = w_log (AccR a) w).
Proof.
  intros I Hh E. unfold ptrs3. rewrite Hh. apply wp_bind. eapply wp_eq; [apply rd_item_spec; exact E|].
  apply wp_ret. cbn [snd]. split; [reflexivity|]. split; [|reflexivity].
  eapply Inv_same; [exact I|reflexivity|cbn; lia].
Qed.

(* cbor_set_allocs while nothing is alive: the world is untouched *)
Lemma live_count_zero w : wf w -> (forall b, heap w b = None) -> live_count w = 0.
Proof.
  intros _ H. unfold live_count. generalize (next w). intros n. induction n using N.peano_ind; [reflexivity|].
  rewrite N.recursion_succ; [|reflexivity|intros ? ? -> ? ? ->; reflexivity]. rewrite IHn, H. reflexivity.
Qed.
Lemma set_allocs_eq s w : wf w -> (forall b, heap w b = None) -> set_allocs s w = Ret (s, Out OutUnit) w.
Proof. intros W H. unfold set_allocs. rewrite (live_count_zero w W H). reflexivity. Qed.

(* the two calls kept outside [op3]: the pointer getters are a plain read (client state and accounting
   unchanged; what is returned is the node's storage block and contents); cbor_set_allocs, while nothing
   obtained from the allocator is alive, returns and changes nothing *)
Theorem ptrs3_step s own ownd w h a :
  Inv own ownd [] w -> hget (base s) h = Some a -> 0 < own a ->
  exists rc n0, heap w a = Some (CItem rc n0) /\
    ptrs3 s h w = Ret (s, OutVals (ptrs_of n0)) (w_log (AccR a) w) /\ Inv own ownd [] (w_log (AccR a) w).
Proof.
  intros I Hh O. destruct (Inv_owned_item _ _ _ _ I O) as (rc & n0 & E & _). exists rc, n0. split; [exact E|].
  destruct (ptrs3_wp s own ownd w h a rc n0 I Hh E) as (r & w' & R & -> & I' & ->). auto.
Qed.

Theorem set_allocs_step s own ownd w :
  Inv own ownd [] w -> (forall b, heap w b = None) ->
  set_allocs s w = Ret (s, Out OutUnit) w.
Proof. intros I H. apply set_allocs_eq; [eapply Inv_wf; exact I|exact H]. Qed.

(* ------------------------------------------------------------------------------------------ *)
(* 3. [caps] is kept by every call of the layer (no side condition)                            *)
(* ------------------------------------------------------------------------------------------ *)

Variable L : N.   (* CBOR_MAX_STACK_SIZE: only the calls of the first layer (cbor_load) depend on it *)

Lemma kq_lift3 s (m : M (cstate * out)) : keeps m -> keeps (lift3 s m).
Proof. intros H. unfold lift3. apply kq_bindT; [exact H|]. intros r. apply kq_ret. exact Logic.I. Qed.

Lemma kq_newh s (m : M (option addr)) : keeps m -> keeps (newh s m).
Proof. intros H. unfold newh. apply kq_bindT; [exact H|]. intros r. apply kq_ret. exact Logic.I. Qed.

Lemma kq_malloc_item sz rc n : node_ok n -> keeps (malloc refuse sz (CItem rc n)).
Proof. intros H. apply kq_malloc. exact H. Qed.

Lemma kq_set_ctrl_at a v : keeps (set_ctrl_at a v).
Proof.
  unfold set_ctrl_at. apply kq_bind_rd. intros rc n Hn. cbn [fst snd].
  destruct n; try apply kq_fail. apply kq_wr. exact Logic.I.
Qed.

Lemma kq_serialize_h a n : keeps (serialize_h a n).
Proof.
  unfold serialize_h. apply kq_bindT; [apply kq_abs_of|]. intros t. apply kq_ret. exact Logic.I.
Qed.

Theorem step3_caps s o : keeps (step3 refuse L s o).
Proof.
  destruct o as [o|text|h bytes|h n|iw|iw h v|neg h|fw|fw h bits| |h v|h b|b| | |h|a x|m k v|t x|v x|h|bytes|k h n|h|h];
    cbn [step3].
  - unfold old3. destruct (forallb (is_set s) (op_reads o)); [|apply kq_fail].
    apply kq_lift3. apply step_caps.
  - apply kq_lift3. unfold new_definite_string_op. apply kq_newh. apply kq_new_definite_string.
  - apply kq_lift3. unfold set_handle_new. destruct (hget (base s) h); [|apply kq_ret; exact Logic.I].
    apply kq_bindT; [apply kq_malloc; exact Logic.I|]. intros [d|]; [|apply kq_ret; exact Logic.I].
    apply kq_bind_rd. intros rc n Hn. cbn [fst snd].
    destruct n as [| | |text [d0|] b0| | | |]; try apply kq_fail.
    apply kq_bindT; [apply kq_wr; exact Logic.I|]. intros _. apply kq_ret. exact Logic.I.
  - apply kq_lift3. unfold set_handle_shorten. destruct (hget (base s) h); [|apply kq_ret; exact Logic.I].
    apply kq_bind_rd. intros rc n0 Hn. cbn [fst snd].
    destruct n0 as [| | |text d0 b0| | | |]; try apply kq_fail.
    destruct (n <=? len b0); [|apply kq_fail].
    apply kq_bindT; [apply kq_wr; exact Logic.I|]. intros _. apply kq_ret. exact Logic.I.
  - unfold new_int. apply kq_bindT; [apply kq_malloc_item; exact Logic.I|]. intros r. apply kq_ret. exact Logic.I.
  - unfold set_uint. destruct (hget (base s) h); [|apply kq_ret; exact Logic.I].
    apply kq_bind_rd. intros rc n Hn. cbn [fst snd]. destruct n; try apply kq_fail.
    apply kq_bindT; [apply kq_assert|]. intros _.
    apply kq_bindT; [apply kq_wr; exact Logic.I|]. intros _. apply kq_ret. exact Logic.I.
  - unfold mark_int. destruct (hget (base s) h); [|apply kq_ret; exact Logic.I].
    apply kq_bind_rd. intros rc n Hn. cbn [fst snd]. destruct n; try apply kq_fail.
    apply kq_bindT; [apply kq_wr; exact Logic.I|]. intros _. apply kq_ret. exact Logic.I.
  - unfold new_float. apply kq_bindT; [apply kq_malloc_item; exact Logic.I|]. intros r. apply kq_ret. exact Logic.I.
  - unfold set_float. destruct (hget (base s) h); [|apply kq_ret; exact Logic.I].
    apply kq_bind_rd. intros rc n Hn. cbn [fst snd]. destruct n; try apply kq_fail.
    apply kq_bindT; [apply kq_assert|]. intros _.
    apply kq_bindT; [apply kq_wr; exact Logic.I|]. intros _. apply kq_ret. exact Logic.I.
  - unfold new_ctrl. apply kq_lift3. apply kq_newh. apply kq_malloc_item. exact Logic.I.
  - unfold set_ctrl. destruct (hget (base s) h); [|apply kq_ret; exact Logic.I].
    apply kq_bindT; [apply kq_set_ctrl_at|]. intros _. apply kq_ret. exact Logic.I.
  - unfold set_bool. destruct (hget (base s) h); [|apply kq_ret; exact Logic.I].
    apply kq_bind_rd. intros rc n Hn. cbn [fst snd]. destruct n; try apply kq_fail.
    apply kq_bindT; [apply kq_assert|]. intros _.
    apply kq_bindT; [apply kq_wr; exact Logic.I|]. intros _. apply kq_ret. exact Logic.I.
  - unfold build_bool. apply kq_lift3. apply kq_newh. apply kq_build_ctrl.
  - unfold new_ctrl_set. apply kq_lift3. apply kq_newh.
    apply kq_bindT; [apply kq_malloc_item; exact Logic.I|]. intros [a|]; [|apply kq_ret; exact Logic.I].
    apply kq_bindT; [apply kq_set_ctrl_at|]. intros _. apply kq_ret. exact Logic.I.
  - unfold new_ctrl_set. apply kq_lift3. apply kq_newh.
    apply kq_bindT; [apply kq_malloc_item; exact Logic.I|]. intros [a|]; [|apply kq_ret; exact Logic.I].
    apply kq_bindT; [apply kq_set_ctrl_at|]. intros _. apply kq_ret. exact Logic.I.
  - unfold move_op. destruct (hget (base s) h); [|apply kq_ret; exact Logic.I].
    apply kq_bindT; [apply kq_move|]. intros _. apply kq_ret. exact Logic.I.
  - unfold push_move. destruct (hget (base s) a); [|apply kq_ret; exact Logic.I].
    destruct (hget (base s) x); [|apply kq_ret; exact Logic.I].
    destruct (is_set s x); [|apply kq_fail].
    apply kq_bindT; [apply kq_move|]. intros _.
    apply kq_bindT; [apply kq_array_push|]. intros b. apply kq_ret. exact Logic.I.
  - unfold map_add_move. destruct (hget (base s) m); [|apply kq_ret; exact Logic.I].
    destruct (hget (base s) k); [|apply kq_ret; exact Logic.I].
    destruct (hget (base s) v); [|apply kq_ret; exact Logic.I].
    destruct (is_set s k && is_set s v); [|apply kq_fail].
    apply kq_bindT; [apply kq_move|]. intros _. apply kq_bindT; [apply kq_move|]. intros _.
    apply kq_bindT; [apply kq_map_add|]. intros b. apply kq_ret. exact Logic.I.
  - unfold tag_set_move. destruct (hget (base s) t); [|apply kq_ret; exact Logic.I].
    destruct (hget (base s) x); [|apply kq_ret; exact Logic.I].
    destruct (is_set s x); [|apply kq_fail].
    apply kq_bindT; [apply kq_move|]. intros _.
    apply kq_bindT; [apply kq_tag_set|]. intros _. apply kq_ret. exact Logic.I.
  - unfold build_tag_move. destruct (hget (base s) x); [|apply kq_ret; exact Logic.I].
    destruct (is_set s x); [|apply kq_fail].
    apply kq_bindT; [apply kq_move|]. intros _. apply kq_lift3. apply kq_newh. apply kq_build_tag.
  - unfold intermediate_decref. destruct (hget (base s) h); [|apply kq_ret; exact Logic.I].
    apply kq_bindT; [apply kq_decref|]. intros _. apply kq_ret. exact Logic.I.
  - unfold build_string0. apply kq_lift3. apply kq_newh. apply kq_build_string.
  - unfold serialize_typed. destruct (hget (base s) h) as [a|]; [|apply kq_ret; exact Logic.I].
    destruct (memN a (unset s)); [apply kq_fail|].
    apply kq_bind_rd. intros rc n0 Hn. cbn [fst snd].
    apply kq_bindT; [apply kq_assert|]. intros _.
    apply kq_bindT; [apply kq_serialize_h|]. intros [[wr bytes]|]; [apply kq_ret; exact Logic.I|apply kq_fail].
  - unfold preds3. destruct (hget (base s) h); [|apply kq_ret; exact Logic.I].
    apply kq_bind_rd. intros rc n0 Hn. apply kq_ret. exact Logic.I.
  - unfold vals3. destruct (hget (base s) h) as [a|]; [|apply kq_ret; exact Logic.I].
    destruct (memN a (unset s)); [apply kq_fail|].
    apply kq_bind_rd. intros rc n0 Hn. apply kq_ret. exact Logic.I.
Qed.

(* ------------------------------------------------------------------------------------------ *)
(* 4. the rules of the layer, one step                                                         *)
(* ------------------------------------------------------------------------------------------ *)

(* The rules.  As in HHist_proofs.legal, a NULL operand handle makes the client skip the call, so every
   clause is conditional on the operand handles being non-NULL, and for each operand the client holds a
   reference ([0 < own a]).
   - calls of the earlier layers follow their own rules, and their operands have a value ([is_set]);
   - the type preconditions (CBOR_ASSERT(cbor_is_int), width == N, cbor_is_float, cbor_isa_float_ctrl and
     width == FLOAT_0, cbor_is_bool, cbor_isa_<type> of the type-specific serializers) appear as the node
     shape of the operand;
   - a value getter / serializer is applied only to an item whose value has been stored;
   - cbor_move alone: the item has another reference (count > 1); in the idioms f(.., cbor_move(x)) the same,
     so that the client's accounting is exact even when f fails and does not take its reference --
     EXCEPT cbor_tag_set_item, which cannot fail.  (The idioms on a sole reference are covered by
     [push_move_step], [map_add_move_step], [build_tag_move_step]: exact when f succeeds; when f fails the
     item is left with count 0 and nothing else has changed.)
   - counts are size_t values ([rc < W64]). *)
Definition legal3 (s : cstate3) (own : addr -> N) (w : world) (o : op3) : Prop :=
  match o with
  | O3Old o => legal (base s) own w o /\ forallb (is_set s) (op_reads o) = true
  | O3NewDefString text => True
  | O3SetHandleNew h bytes => legal2 (base s) own w (OSetHandleNew h bytes)
  | O3SetHandleShorten h n => legal2 (base s) own w (OSetHandleShorten h n)
  | O3NewInt _ | O3NewFloat _ | O3NewCtrl | O3BuildBool _ | O3NewNull | O3NewUndef | O3BuildString0 _ => True
  | O3SetUint iw h _ => forall a, hget (base s) h = Some a ->
      0 < own a /\ exists rc neg v0, heap w a = Some (CItem rc (NInt neg iw v0))
  | O3Mark _ h => forall a, hget (base s) h = Some a ->
      0 < own a /\ exists rc neg iw v0, heap w a = Some (CItem rc (NInt neg iw v0))
  | O3SetFloat fw h _ => forall a, hget (base s) h = Some a ->
      0 < own a /\ exists rc b0, heap w a = Some (CItem rc (NFloat fw b0))
  | O3SetCtrl h _ => forall a, hget (base s) h = Some a ->
      0 < own a /\ exists rc v0, heap w a = Some (CItem rc (NCtrl v0))
  | O3SetBool h _ => forall a, hget (base s) h = Some a ->
      0 < own a /\ exists rc v0, heap w a = Some (CItem rc (NCtrl v0)) /\ (v0 = 20 \/ v0 = 21)
  | O3Move h => forall a, hget (base s) h = Some a ->
      0 < own a /\ exists rc n, heap w a = Some (CItem rc n) /\ 1 < rc
  | O3PushMove a x => forall p q, hget (base s) a = Some p -> hget (base s) x = Some q ->
      is_set s x = true /\ 0 < own p /\ 0 < own q /\ p <> q /\
      (exists rc indef d c l, heap w p = Some (CItem rc (NArr indef d c l))) /\
      exists rcq nq, heap w q = Some (CItem rcq nq) /\ 1 < rcq /\ rcq < W64
  | O3MapAddMove m k v => forall p q r, hget (base s) m = Some p -> hget (base s) k = Some q -> hget (base s) v = Some r ->
      is_set s k = true /\ is_set s v = true /\ 0 < own p /\ 0 < own q /\ 0 < own r /\ (q = r -> 1 < own q) /\
      p <> q /\ p <> r /\
      (exists rc indef d c l, heap w p = Some (CItem rc (NMap indef d c l))) /\
      (exists rcq nq, heap w q = Some (CItem rcq nq) /\ 1 < rcq /\ rcq < W64 /\ (q = r -> 2 < rcq)) /\
      (exists rcr nr, heap w r = Some (CItem rcr nr) /\ 1 < rcr /\ rcr < W64)
  | O3TagSetMove t x => forall p q, hget (base s) t = Some p -> hget (base s) x = Some q ->
      is_set s x = true /\ 0 < own p /\ 0 < own q /\ p <> q /\
      (exists rc v, heap w p = Some (CItem rc (NTag v None))) /\
      exists rcq nq, heap w q = Some (CItem rcq nq) /\ rcq < W64
  | O3BuildTagMove _ x => forall q, hget (base s) x = Some q ->
      is_set s x = true /\ 0 < own q /\ exists rcq nq, heap w q = Some (CItem rcq nq) /\ 1 < rcq /\ rcq < W64
  | O3IntermediateDecref h => forall a, hget (base s) h = Some a -> 0 < own a
  | O3SerializeTyped k h _ => forall a, hget (base s) h = Some a ->
      memN a (unset s) = false /\ 0 < own a /\ readable (abs_fuel w) (heap w) a /\
      exists rc n0, heap w a = Some (CItem rc n0) /\ node_kind n0 = k
  | O3Preds h => forall a, hget (base s) h = Some a -> 0 < own a
  | O3Vals h => forall a, hget (base s) h = Some a -> memN a (unset s) = false /\ 0 < own a
  end.

(* the ownership transition of one call: a constructor adds one reference for the item returned (nothing
   for NULL); cbor_move and cbor_intermediate_decref take one from the client; in the idioms the reference
   of the moved item passes to the container / tag (cbor_build_tag(v, cbor_move(x)) also returns the tag);
   every other call leaves the client's references as they are *)
Definition own_after3 (s : cstate3) (o : op3) (own : addr -> N) (s' : cstate3) : addr -> N :=
  match o with
  | O3Old o => own_after (base s) o own (base s')
  | O3NewDefString _ | O3NewInt _ | O3NewFloat _ | O3NewCtrl | O3BuildBool _ | O3NewNull | O3NewUndef | O3BuildString0 _ =>
      match new_handle3 s' with Some a => own1 own a | None => own end
  | O3Move h | O3IntermediateDecref h =>
      match hget (base s) h with Some a => own_dec own a | None => own end
  | O3PushMove a x | O3TagSetMove a x =>
      match hget (base s) a, hget (base s) x with Some _, Some q => own_dec own q | _, _ => own end
  | O3MapAddMove m k v =>
      match hget (base s) m, hget (base s) k, hget (base s) v with
      | Some _, Some q, Some r => own_dec (own_dec own q) r
      | _, _, _ => own
      end
  | O3BuildTagMove _ x =>
      match hget (base s) x with
      | Some q => match new_handle3 s' with Some t => own1 (own_dec own q) t | None => own_dec own q end
      | None => own
      end
  | _ => own
  end.

Definition step3_post (s : cstate3) (o : op3) (own ownd : addr -> N) (r : cstate3 * out3) (w' : world) : Prop :=
  Inv (own_after3 s o own (fst r)) ownd [] w'.

Lemma wp_of_ret {A} (m : M A) w a w' (Q : A -> world -> Prop) : m w = Ret a w' -> Q a w' -> wp m w Q.
Proof. apply wp_eq. Qed.

Theorem C04_step3_wp s own ownd w o :
  Inv own ownd [] w -> caps w -> legal3 s own w o -> wp (step3 refuse L s o) w (step3_post s o own ownd).
Proof.
  intros I Cw Lg. pose proof (Inv_wf _ _ _ _ I) as W. unfold step3_post.
  destruct o as [o|text|h bytes|h n|iw|iw h v|neg h|fw|fw h bits| |h v|h b|b| | |h|a x|m k v|t x|v x|h|bytes|k h n|h|h];
    cbn [step3 legal3 own_after3] in *.
  - (* O3Old *)
    destruct Lg as [Lo G]. unfold old3. rewrite G.
    apply (wp_lift3 s _ w (fun s1 w' => Inv (own_after (base s) o own s1) ownd [] w')).
    exact (C04_step_wp refuse L (base s) own ownd w o I Cw Lo).
  - (* O3NewDefString *)
    destruct (C04_step2 refuse (base s) own ownd w (ONewDefString text) I W Cw Logic.I) as (s1 & o1 & w' & E & I' & _).
    cbn [step2 own_after2] in E, I'.
    apply (wp_lift3 s _ w (fun s1 w' => Inv (match new_handle s1 with Some a => own1 own a | None => own end) ownd [] w')).
    eapply wp_eq; [exact E|exact I'].
  - (* O3SetHandleNew *)
    destruct (C04_step2 refuse (base s) own ownd w (OSetHandleNew h bytes) I W Cw Lg) as (s1 & o1 & w' & E & I' & _).
    cbn [step2 own_after2] in E, I'.
    apply (wp_lift3 s _ w (fun _ w' => Inv own ownd [] w')). eapply wp_eq; [exact E|exact I'].
  - (* O3SetHandleShorten *)
    destruct (C04_step2 refuse (base s) own ownd w (OSetHandleShorten h n) I W Cw Lg) as (s1 & o1 & w' & E & I' & _).
    cbn [step2 own_after2] in E, I'.
    apply (wp_lift3 s _ w (fun _ w' => Inv own ownd [] w')). eapply wp_eq; [exact E|exact I'].
  - (* O3NewInt *)
    destruct (new_int_step s own ownd w iw I Cw) as (s' & ok & w' & E & I' & _). eapply wp_eq; [exact E|exact I'].
  - (* O3SetUint *)
    destruct (hget (base s) h) as [a|] eqn:Hh.
    + destruct (Lg a eq_refl) as (_ & rc & neg & v0 & E).
      destruct (set_uint_step s own ownd w iw h v a rc neg v0 I Cw Hh E) as (w' & R & I' & _).
      eapply wp_eq; [exact R|exact I'].
    + unfold set_uint. rewrite Hh. apply wp_ret. exact I.
  - (* O3Mark *)
    destruct (hget (base s) h) as [a|] eqn:Hh.
    + destruct (Lg a eq_refl) as (_ & rc & neg0 & iw & v0 & E).
      destruct (mark_int_step s own ownd w neg h a rc neg0 iw v0 I Cw Hh E) as (w' & R & I' & _).
      eapply wp_eq; [exact R|exact I'].
    + unfold mark_int. rewrite Hh. apply wp_ret. exact I.
  - (* O3NewFloat *)
    destruct (new_float_step s own ownd w fw I Cw) as (s' & ok & w' & E & I' & _). eapply wp_eq; [exact E|exact I'].
  - (* O3SetFloat *)
    destruct (hget (base s) h) as [a|] eqn:Hh.
    + destruct (Lg a eq_refl) as (_ & rc & b0 & E).
      destruct (set_float_step s own ownd w fw h bits a rc b0 I Cw Hh E) as (w' & R & I' & _).
      eapply wp_eq; [exact R|exact I'].
    + unfold set_float. rewrite Hh. apply wp_ret. exact I.
  - (* O3NewCtrl *)
    destruct (new_ctrl_step s own ownd w I Cw) as (s' & ok & w' & E & I' & _). eapply wp_eq; [exact E|exact I'].
  - (* O3SetCtrl *)
    destruct (hget (base s) h) as [a|] eqn:Hh.
    + destruct (Lg a eq_refl) as (_ & rc & v0 & E).
      destruct (set_ctrl_step s own ownd w h v a rc v0 I Cw Hh E) as (w' & R & I' & _).
      eapply wp_eq; [exact R|exact I'].
    + unfold set_ctrl. rewrite Hh. apply wp_ret. exact I.
  - (* O3SetBool *)
    destruct (hget (base s) h) as [a|] eqn:Hh.
    + destruct (Lg a eq_refl) as (_ & rc & v0 & E & Hv).
      destruct (set_bool_step s own ownd w h b a rc v0 I Cw Hh E Hv) as (w' & R & I' & _).
      eapply wp_eq; [exact R|exact I'].
    + unfold set_bool. rewrite Hh. apply wp_ret. exact I.
  - (* O3BuildBool *)
    destruct (build_bool_step s own ownd w b I Cw) as (s' & ok & w' & E & I' & _). eapply wp_eq; [exact E|exact I'].
  - (* O3NewNull *)
    destruct (new_ctrl_set_step s own ownd w 22 I Cw) as (s' & ok & w' & E & I' & _). eapply wp_eq; [exact E|exact I'].
  - (* O3NewUndef *)
    destruct (new_ctrl_set_step s own ownd w 23 I Cw) as (s' & ok & w' & E & I' & _). eapply wp_eq; [exact E|exact I'].
  - (* O3Move *)
    destruct (hget (base s) h) as [a|] eqn:Hh.
    + destruct (Lg a eq_refl) as (O & rc & n & E & Hrc).
      destruct (move_step s own ownd w h a rc n I Cw Hh O E Hrc) as (w' & R & I' & _).
      eapply wp_eq; [exact R|exact I'].
    + unfold move_op. rewrite Hh. apply wp_ret. exact I.
  - (* O3PushMove *)
    destruct (hget (base s) a) as [p|] eqn:Ha; [|unfold push_move; rewrite Ha; apply wp_ret; exact I].
    destruct (hget (base s) x) as [q|] eqn:Hx; [|unfold push_move; rewrite Ha, Hx; apply wp_ret; exact I].
    destruct (Lg p q eq_refl eq_refl) as (Hs & Op & Oq & Hpq & (rc & indef & d & c & l & Ep) & rcq & nq & Eq & H1 & Rq).
    destruct (push_move_step s own ownd w a x p q rc indef d c l rcq nq I Cw Ha Hx Hs Oq Hpq Ep Eq Rq)
      as (ok & w' & E & Pt & Pf).
    eapply wp_eq; [exact E|]. cbn [fst]. destruct ok; [apply Pt; reflexivity|apply (Pf eq_refl); exact H1].
  - (* O3MapAddMove *)
    destruct (hget (base s) m) as [p|] eqn:Hm; [|unfold map_add_move; rewrite Hm; apply wp_ret; exact I].
    destruct (hget (base s) k) as [q|] eqn:Hk; [|unfold map_add_move; rewrite Hm, Hk; apply wp_ret; exact I].
    destruct (hget (base s) v) as [r|] eqn:Hv; [|unfold map_add_move; rewrite Hm, Hk, Hv; apply wp_ret; exact I].
    destruct (Lg p q r eq_refl eq_refl eq_refl)
      as (Sk & Sv & Op & Oq & Or & Oqr & Hpq & Hpr & (rc & indef & d & c & l & Ep) &
          (rcq & nq & Eq & H1 & Rq & H3) & (rcr & nr & Er & H2 & Rr)).
    destruct (map_add_move_step s own ownd w m k v p q r rc indef d c l rcq nq rcr nr I Cw Hm Hk Hv Sk Sv Oq Or Oqr
                Hpq Hpr Ep Eq Er Rq Rr) as (ok & w' & E & Pt & Pf).
    eapply wp_eq; [exact E|]. cbn [fst]. destruct ok; [apply Pt; reflexivity|]. destruct (Pf eq_refl) as (_ & _ & Pi). apply Pi; assumption.
  - (* O3TagSetMove *)
    destruct (hget (base s) t) as [p|] eqn:Ht; [|unfold tag_set_move; rewrite Ht; apply wp_ret; exact I].
    destruct (hget (base s) x) as [q|] eqn:Hx; [|unfold tag_set_move; rewrite Ht, Hx; apply wp_ret; exact I].
    destruct (Lg p q eq_refl eq_refl) as (Hs & Op & Oq & Hpq & (rc & v & Ep) & rcq & nq & Eq & Rq).
    destruct (tag_set_move_step s own ownd w t x p q rc v rcq nq I Ht Hx Hs Oq Hpq Ep Eq Rq) as (w' & E & I').
    eapply wp_eq; [exact E|exact I'].
  - (* O3BuildTagMove *)
    destruct (hget (base s) x) as [q|] eqn:Hx.
    + destruct (Lg q eq_refl) as (Hs & Oq & rcq & nq & Eq & H1 & Rq).
      destruct (build_tag_move_step s own ownd w v x q rcq nq I Hx Hs Oq Eq Rq)
        as (s' & ok & w' & E & [(-> & -> & I')|(-> & -> & _ & _ & I')]);
        (eapply wp_eq; [exact E|]); cbn [fst]; rewrite new_handle3_push; [exact I'|exact (I' H1)].
    + unfold build_tag_move. rewrite Hx. apply wp_ret. exact I.
  - (* O3IntermediateDecref *)
    destruct (hget (base s) h) as [a|] eqn:Hh.
    + eapply wp_mono; [eapply (intermediate_decref_Inv s own ownd w h a I Hh (Lg a eq_refl))|].
      intros r w' (_ & I' & _). exact I'.
    + unfold intermediate_decref. rewrite Hh. apply wp_ret. exact I.
  - (* O3BuildString0 *)
    apply build_string0_Inv. exact I.
  - (* O3SerializeTyped *)
    destruct (hget (base s) h) as [a|] eqn:Hh.
    + destruct (Lg a eq_refl) as (Hs & _ & R & rc & n0 & E & Hk).
      eapply wp_mono; [eapply (serialize_typed_wp s own ownd w k h n a rc n0 I Hh Hs E Hk R)|].
      intros r w' (_ & _ & I' & _). exact I'.
    + unfold serialize_typed. rewrite Hh. apply wp_ret. exact I.
  - (* O3Preds *)
    destruct (hget (base s) h) as [a|] eqn:Hh.
    + destruct (Inv_owned_item _ _ _ _ I (Lg a eq_refl)) as (rc & n0 & E & _).
      eapply wp_mono; [eapply (preds3_wp s own ownd w h a rc n0 I Hh E)|]. intros r w' (_ & I' & _). exact I'.
    + unfold preds3. rewrite Hh. apply wp_ret. exact I.
  - (* O3Vals *)
    destruct (hget (base s) h) as [a|] eqn:Hh.
    + destruct (Lg a eq_refl) as [Hs O]. destruct (Inv_owned_item _ _ _ _ I O) as (rc & n0 & E & _).
      eapply wp_mono; [eapply (vals3_wp s own ownd w h a rc n0 I Hh Hs E)|]. intros r w' (_ & I' & _). exact I'.
    + unfold vals3. rewrite Hh. apply wp_ret. exact I.
Qed.

(* C04 for one call of the third layer: a legal call returns (it never faults: no touch after release, no
   double release, no NULL or mistyped access, no failed CBOR_ASSERT, no read of a value that was never
   stored) and re-establishes the accounting invariant for the client's updated ownership *)
Theorem C04_step3 s own ownd w o :
  Inv own ownd [] w -> wf w -> caps w -> legal3 s own w o ->
  exists s' out w', step3 refuse L s o w = Ret (s', out) w' /\
    Inv (own_after3 s o own s') ownd [] w' /\ wf w' /\ caps w'.
Proof.
  intros I _ Cw Lg. destruct (C04_step3_wp s own ownd w o I Cw Lg) as ([s' out] & w' & E & P).
  exists s', out, w'. split; [exact E|]. split; [exact P|]. split; [eapply Inv_wf; exact P|].
  eapply (step3_caps s o); eassumption.
Qed.

Corollary C04_step3_no_fault s own ownd w o k :
  Inv own ownd [] w -> caps w -> legal3 s own w o -> step3 refuse L s o w <> Fault k.
Proof.
  intros I Cw Lg. destruct (C04_step3_wp s own ownd w o I Cw Lg) as (r & w' & E & _). rewrite E. discriminate.
Qed.

(* ---- histories ---- *)

Fixpoint legal_history3 (ops : list op3) (s : cstate3) (own : addr -> N) (w : world) : Prop :=
  match ops with
  | [] => True
  | o :: r =>
      legal3 s own w o /\
      forall s' out w', step3 refuse L s o w = Ret (s', out) w' ->
        legal_history3 r s' (own_after3 s o own s') w'
  end.

Fixpoint own_hist3 (ops : list op3) (s : cstate3) (own : addr -> N) (w : world) : addr -> N :=
  match ops with
  | [] => own
  | o :: r =>
      match step3 refuse L s o w with
      | Ret (s', _) w' => own_hist3 r s' (own_after3 s o own s') w'
      | Fault _ => own
      end
  end.

Theorem C04_history3_gen : forall ops s own ownd w acc,
  Inv own ownd [] w -> caps w -> legal_history3 ops s own w ->
  exists s' outs w', run_hist3 refuse L ops s acc w = Ret (s', outs) w' /\
    Inv (own_hist3 ops s own w) ownd [] w' /\ caps w'.
Proof.
  induction ops as [|o r IH]; intros s own ownd w acc I Cw Lg.
  - exists s, (rev acc), w. split; [reflexivity|]. split; [exact I|exact Cw].
  - destruct Lg as [Lo Lr].
    destruct (C04_step3 s own ownd w o I (Inv_wf _ _ _ _ I) Cw Lo) as (s1 & out & w1 & E & I1 & _ & C1).
    destruct (IH s1 (own_after3 s o own s1) ownd w1 (out :: acc) I1 C1 (Lr s1 out w1 E)) as (s' & outs & w' & E' & I').
    exists s', outs, w'. cbn [run_hist3 own_hist3]. rewrite E. split; [|exact I'].
    unfold bind. rewrite E. cbn [fst snd]. exact E'.
Qed.

(* every history over the calls of all three layers that follows the rules, started on the empty heap
   with an empty handle table, runs to its end without a fault, and the accounting invariant holds at
   the end for the references the client then holds *)
Theorem C04_history3 : forall ops,
  legal_history3 ops s3_0 own0 world0 ->
  exists s' outs w', run_hist3 refuse L ops s3_0 [] world0 = Ret (s', outs) w' /\
    Inv (own_hist3 ops s3_0 own0 world0) own0 [] w'.
Proof.
  intros ops Lg.
  destruct (C04_history3_gen ops s3_0 own0 own0 world0 [] Inv_world0 caps_world0 Lg) as (s' & outs & w' & E & I & _).
  eauto.
Qed.

(* ... and once the client has dropped all its references nothing obtained through the allocator remains
   (the final heap is assumed acyclic: the calls of this layer create no edge that the earlier layers
   could not create) *)
Corollary C04_history3_no_leak : forall ops s' outs w',
  legal_history3 ops s3_0 own0 world0 ->
  run_hist3 refuse L ops s3_0 [] world0 = Ret (s', outs) w' ->
  (forall a, own_hist3 ops s3_0 own0 world0 a = 0) -> acyclic w' ->
  forall a, heap w' a = None.
Proof.
  intros ops s' outs w' Lg E O AC.
  destruct (C04_history3 ops Lg) as (s1 & outs1 & w1 & E1 & I1).
  rewrite E in E1. injection E1 as <- <- <-.
  eapply no_leak; [exact I1|exact O|reflexivity|exact AC].
Qed.

End Calls.

(* ------------------------------------------------------------------------------------------ *)
(* 4b. the containment graph stays acyclic under the calls of the third layer                  *)
(* ------------------------------------------------------------------------------------------ *)

(* every cell of [w'] that holds references sits where a cell of [w] held (at least) the same ones *)
Lemma edges_sub_local w w' :
  (forall b rc n k, heap w' b = Some (CItem rc n) -> rc <> 0 -> In k (kids n) ->
     exists rc0 n0, heap w b = Some (CItem rc0 n0) /\ rc0 <> 0 /\ In k (kids n0)) ->
  edges_sub no_new w w'.
Proof.
  intros H a k (rc & n & E & R & K). left. destruct (H a rc n k E R K) as (rc0 & n0 & E0 & R0 & K0).
  exists rc0, n0. auto.
Qed.

(* one cell is overwritten by a cell without references (a leaf item, a data block) *)
Lemma edges_sub_leaf w w' a c :
  (forall rc n, c = Some (CItem rc n) -> kids n = []) ->
  (forall b, heap w' b = upd (heap w) a c b) -> edges_sub no_new w w'.
Proof.
  intros Hc Hh. apply edges_sub_local. intros b rc n k E R K. rewrite Hh in E. unfold upd in E.
  destruct (N.eqb_spec b a) as [->|_].
  - rewrite (Hc rc n E) in K. destruct K.
  - exists rc, n. auto.
Qed.

Lemma edges_sub_leaf2 w w' a c a2 c2 :
  (forall rc n, c = Some (CItem rc n) -> kids n = []) -> (forall rc n, c2 = Some (CItem rc n) -> kids n = []) ->
  (forall b, heap w' b = upd (upd (heap w) a c) a2 c2 b) -> edges_sub no_new w w'.
Proof.
  intros Hc Hc2 Hh. apply edges_sub_local. intros b rc n k E R K. rewrite Hh in E. unfold upd in E.
  destruct (N.eqb_spec b a2) as [->|_]; [rewrite (Hc2 rc n E) in K; destruct K|].
  destruct (N.eqb_spec b a) as [->|_]; [rewrite (Hc rc n E) in K; destruct K|].
  exists rc, n. auto.
Qed.

(* the count of one live cell changes (to anything) *)
Lemma edges_sub_count w w' x rc rc' n :
  heap w x = Some (CItem rc n) -> rc <> 0 ->
  (forall b, heap w' b = upd (heap w) x (Some (CItem rc' n)) b) -> edges_sub no_new w w'.
Proof.
  intros Ex R Hh. apply edges_sub_local. intros b rcb nb k E Rb K. rewrite Hh in E. unfold upd in E.
  destruct (N.eqb_spec b x) as [->|_].
  - injection E as <- <-. exists rc, n. auto.
  - exists rcb, nb. auto.
Qed.

Lemma edges_sub_no_new_trans w w1 w2 : edges_sub no_new w w1 -> edges_sub no_new w1 w2 -> edges_sub no_new w w2.
Proof.
  intros S1 S2. eapply edges_sub_weaken; [eapply edges_sub_trans; [exact S1|exact S2]|]. intros a k [[]|[]].
Qed.

Lemma edges_sub_pre (New : addr -> addr -> Prop) w w1 w2 :
  edges_sub no_new w w1 -> edges_sub New w1 w2 -> edges_sub New w w2.
Proof.
  intros S1 S2. eapply edges_sub_weaken; [eapply edges_sub_trans; [exact S1|exact S2]|]. intros a k [[]|H]. exact H.
Qed.

(* an empty tag takes its item *)
Lemma edges_sub_tagset w w' p q rc v :
  heap w p = Some (CItem rc (NTag v None)) ->
  (forall b, heap w' b = upd (heap w) p (Some (CItem rc (NTag v (Some q)))) b) ->
  edges_sub (fun a k => a = p /\ k = q) w w'.
Proof.
  intros Ep Hh a k (rca & na & E & Ra & Ka). rewrite Hh in E. unfold upd in E.
  destruct (N.eqb_spec a p) as [->|_].
  - injection E as <- <-. cbn [kids] in Ka. destruct Ka as [<-|[]]. right. auto.
  - left. exists rca, na. auto.
Qed.

(* the no-cycle rule for the idioms that insert an item: as in HHist_proofs.below_rule, the client can
   exhibit a topological order in which the inserted item lies below the container (cbor_build_tag makes
   a fresh tag: nothing to ask) *)
Definition below_rule3 (s : cstate3) (w : world) (o : op3) : Prop :=
  match o with
  | O3Old o => below_rule (base s) w o
  | O3PushMove a x | O3TagSetMove a x =>
      forall p q, hget (base s) a = Some p -> hget (base s) x = Some q ->
        exists rank, ranks w rank /\ (rank q < rank p)%nat
  | O3MapAddMove m k v =>
      forall p q r, hget (base s) m = Some p -> hget (base s) k = Some q -> hget (base s) v = Some r ->
        exists rank, ranks w rank /\ (rank q < rank p)%nat /\ (rank r < rank p)%nat
  | _ => True
  end.

Section Acyclic3.
Variable refuse : N -> N -> bool.
Variable L : N.

Lemma wp_assoc {A B C} (m : M A) (f : A -> M B) (g : B -> M C) w (Q : C -> world -> Prop) :
  wp ((m >>= f) >>= g) w Q -> wp (m >>= (fun a => f a >>= g)) w Q.
Proof.
  intros (c & w' & E & HQ). exists c, w'. split; [|exact HQ]. unfold bind in *.
  destruct (m w) as [a w1|k]; [|discriminate E]. exact E.
Qed.

Lemma wp_assoc2 {A B C D} (m : M A) (f : A -> M B) (g : A -> B -> M C) (h : C -> M D) w (Q : D -> world -> Prop) :
  wp ((m >>= fun a => f a >>= g a) >>= h) w Q -> wp (m >>= fun a => f a >>= fun b => g a b >>= h) w Q.
Proof.
  intros (c & w' & E & HQ). exists c, w'. split; [|exact HQ]. unfold bind in *.
  destruct (m w) as [a w1|k]; [|discriminate E]. destruct (f a w1) as [b w2|k]; [|discriminate E]. exact E.
Qed.

Lemma wp_lift3_any s (m : M (cstate * out)) w (Q : world -> Prop) :
  wp m w (fun _ w' => Q w') -> wp (lift3 s m) w (fun _ w' => Q w').
Proof.
  intros H. unfold lift3. apply wp_bind. eapply wp_mono; [exact H|]. intros r w' P. apply wp_ret. exact P.
Qed.

(* cbor_array_push(p, cbor_move(q)) on an item that has another reference *)
Lemma push_move_edges own ownd p q w rc indef d c l rcq nq :
  Inv own ownd [] w -> heap w p = Some (CItem rc (NArr indef d c l)) -> capinvA indef d c l ->
  heap w q = Some (CItem rcq nq) -> 1 < rcq -> p <> q ->
  wp (move q ;;; array_push refuse p q) w (fun _ w' => edges_sub (fun a k => a = p /\ k = q) w w').
Proof.
  intros I Ep Cap Eq Hrc Hpq.
  destruct (moved_facts refuse own ownd w q rcq nq I Eq) as (Pq & H1 & N1 & W1 & E1q & O1).
  apply wp_bind. eapply wp_eq; [apply move_spec; exact Eq|].
  set (w1 := w_move q rcq nq w) in *.
  assert (E1p : heap w1 p = Some (CItem rc (NArr indef d c l))) by (rewrite O1 by exact Hpq; exact Ep).
  assert (S1 : edges_sub no_new w w1) by (eapply (edges_sub_count w w1 q rcq _ nq Eq); [lia|exact H1]).
  eapply wp_mono.
  - eapply (array_push_gen refuse indef p w1 q d c l rc (rcq - 1) nq W1 E1p); [|exact Cap|exact E1q|exact Hpq].
    intros b ->. destruct (Inv_blocks _ _ _ _ _ _ I Ep b ltac:(left; reflexivity)) as [(sz & Eb) _].
    exists sz. rewrite O1; [exact Eb|]. intros ->. rewrite Eq in Eb. discriminate.
  - intros ok w' P. eapply edges_sub_pre; [exact S1|].
    eapply (gpush_edges p rc _ _ _ w1 q d (rcq - 1) nq ok w' W1 E1p E1q); [lia| |exact P].
    intros d' c' k Hk. cbn [kids] in *. apply in_app_or in Hk. destruct Hk as [Hk|[<-|[]]]; auto.
Qed.

(* cbor_map_add(p, {cbor_move(q), cbor_move(r)}) *)
Lemma map_add_move_edges own ownd p q r w rc indef d c l rcq nq rcr nr :
  Inv own ownd [] w -> heap w p = Some (CItem rc (NMap indef d c l)) -> capinvM indef d c l ->
  heap w q = Some (CItem rcq nq) -> heap w r = Some (CItem rcr nr) -> 1 < rcq -> 1 < rcr -> (q = r -> 2 < rcq) ->
  p <> q -> p <> r ->
  wp (move q ;;; move r ;;; map_add refuse p q r) w
     (fun _ w' => edges_sub (fun a k => a = p /\ (k = q \/ k = r)) w w').
Proof.
  intros I Ep Cap Eq Er H1q H1r H2 Hpq Hpr.
  destruct (moved_facts' w q rcq nq (Inv_wf _ _ _ _ I) Eq ltac:(lia)) as (H1 & N1 & W1 & E1q & O1).
  apply wp_bind. eapply wp_eq; [apply move_spec; exact Eq|].
  set (w1 := w_move q rcq nq w) in *.
  assert (S1 : edges_sub no_new w w1) by (eapply (edges_sub_count w w1 q rcq _ nq Eq); [lia|exact H1]).
  assert (Hb : forall b, d = Some b -> is_data w b).
  { intros b ->. apply (Inv_blocks _ _ _ _ _ _ I Ep). left. reflexivity. }
  destruct (N.eq_dec q r) as [<-|Hqr].
  - assert (rcr = rcq /\ nr = nq) as [-> ->] by (rewrite Eq in Er; injection Er as <- <-; auto).
    specialize (H2 eq_refl).
    destruct (moved_facts' w1 q (rcq - 1) nq W1 E1q ltac:(lia)) as (H2' & N2 & W2 & E2q & O2).
    apply wp_bind. eapply wp_eq; [apply move_spec; exact E1q|].
    set (w2 := w_move q (rcq - 1) nq w1) in *.
    assert (S2 : edges_sub no_new w1 w2) by (eapply (edges_sub_count w1 w2 q (rcq - 1) _ nq E1q); [lia|exact H2']).
    assert (E2p : heap w2 p = Some (CItem rc (NMap indef d c l))).
    { rewrite O2 by exact Hpq. rewrite O1 by exact Hpq. exact Ep. }
    eapply wp_mono.
    + eapply (map_add_same_gen refuse indef p w2 q d c l rc (rcq - 1 - 1) nq W2 E2p); try assumption.
      intros b Hd. destruct (Hb b Hd) as (sz & Eb). exists sz.
      assert (Bq : b <> q) by (intros ->; rewrite Eq in Eb; discriminate).
      rewrite O2 by exact Bq. rewrite O1 by exact Bq. exact Eb.
    + intros ok w' P. eapply edges_sub_pre; [eapply edges_sub_no_new_trans; [exact S1|exact S2]|].
      eapply edges_sub_weaken.
      * eapply (msame_edges indef p rc w2 q d c l (rcq - 1 - 1) nq ok w' W2 E2p E2q); [lia|exact P].
      * intros a k [-> ->]. auto.
  - assert (E1r : heap w1 r = Some (CItem rcr nr)) by (rewrite O1 by (intros H; apply Hqr; symmetry; exact H); exact Er).
    destruct (moved_facts' w1 r rcr nr W1 E1r ltac:(lia)) as (H2' & N2 & W2 & E2r & O2).
    apply wp_bind. eapply wp_eq; [apply move_spec; exact E1r|].
    set (w2 := w_move r rcr nr w1) in *.
    assert (S2 : edges_sub no_new w1 w2) by (eapply (edges_sub_count w1 w2 r rcr _ nr E1r); [lia|exact H2']).
    assert (E2q : heap w2 q = Some (CItem (rcq - 1) nq)) by (rewrite O2 by exact Hqr; exact E1q).
    assert (E2p : heap w2 p = Some (CItem rc (NMap indef d c l))).
    { rewrite O2 by exact Hpr. rewrite O1 by exact Hpq. exact Ep. }
    eapply wp_mono.
    + eapply (map_add_gen refuse indef p w2 q r d c l rc (rcq - 1) nq (rcr - 1) nr W2 E2p); try assumption.
      intros b Hd. destruct (Hb b Hd) as (sz & Eb). exists sz.
      assert (Bq : b <> q) by (intros ->; rewrite Eq in Eb; discriminate).
      assert (Br : b <> r) by (intros ->; rewrite Er in Eb; discriminate).
      rewrite O2 by exact Br. rewrite O1 by exact Bq. exact Eb.
    + intros ok w' P. eapply edges_sub_pre; [eapply edges_sub_no_new_trans; [exact S1|exact S2]|].
      eapply (mpush_edges indef p rc w2 q r d c l (rcq - 1) nq (rcr - 1) nr ok w' W2 E2p E2q); [lia|exact E2r|lia|exact P].
Qed.

(* cbor_build_tag(v, cbor_move(q)): the fresh tag goes on top of q in the order *)
Lemma build_tag_move_acyclic own ownd v q w rcq nq :
  Inv own ownd [] w -> 0 < own q -> heap w q = Some (CItem rcq nq) -> rcq < W64 -> acyclic w ->
  wp (move q ;;; build_tag refuse v q) w (fun _ w' => acyclic w').
Proof.
  intros I Oq Eq Rq AC.
  pose proof (Inv_nil_pos _ _ _ _ _ _ I Eq) as Pq. pose proof (live_lt _ _ _ _ _ _ I Eq) as Lq.
  eapply wp_mono; [apply (build_tag_move_wp refuse own ownd v q w rcq nq I Oq Eq Rq)|].
  intros r w' P. apply acyclic_ranks in AC. destruct AC as [rank HR]. apply acyclic_ranks.
  destruct r as [t|].
  - destruct P as (-> & _ & Hh & _).
    exists (fun b => if b =? next w then S (rank q) else rank b).
    intros a k (rca & na & E & Ra & Ka). rewrite Hh in E. unfold upd in E.
    destruct (N.eqb_spec a (next w)) as [->|Ha].
    + injection E as <- <-. cbn [kids] in Ka. destruct Ka as [<-|[]].
      destruct (N.eqb_spec q (next w)); lia.
    + pose proof (live_lt _ _ _ _ _ _ I E) as La.
      destruct (Inv_kids_lt _ _ _ _ _ _ I E) as [KL _]. specialize (KL k Ka).
      destruct (N.eqb_spec k (next w)); [lia|]. apply HR. exists rca, na. auto.
  - destruct P as [Hh _]. exists rank. eapply (ranks_sub no_new); [exact HR| |intros ? ? []].
    eapply (edges_sub_count w w' q rcq _ nq Eq); [lia|exact Hh].
Qed.

Theorem step3_acyclic s own ownd w o :
  Inv own ownd [] w -> caps w -> legal3 s own w o -> acyclic w -> below_rule3 s w o ->
  wp (step3 refuse L s o) w (fun _ w' => acyclic w').
Proof.
  intros I Cw Lg AC Bl. pose proof (Inv_wf _ _ _ _ I) as Hwf.
  assert (Skip : forall (r : cstate3 * out3), wp (ret r) w (fun _ w' => acyclic w')).
  { intros r. apply wp_ret. exact AC. }
  assert (Sub : forall w', edges_sub no_new w w' -> acyclic w').
  { intros w' S. eapply acyclic_sub; eassumption. }
  assert (SubW : forall {A} (m : M A), wp m w (fun _ w' => edges_sub no_new w w') -> wp m w (fun _ w' => acyclic w')).
  { intros A m H. eapply wp_mono; [exact H|]. intros u_ w' S. apply Sub. exact S. }
  destruct o as [o|text|h bytes|h n|iw|iw h v|neg h|fw|fw h bits| |h v|h b|b| | |h|a x|m k v|t x|v x|h|bytes|k h n|h|h];
    cbn [step3 legal3 below_rule3] in *.
  - (* O3Old *)
    destruct Lg as [Lo G]. unfold old3. rewrite G. apply wp_lift3_any.
    exact (step_acyclic refuse L (base s) own ownd w o I Cw Lo AC Bl).
  - (* O3NewDefString *)
    apply wp_lift3_any. unfold new_definite_string_op, new_definite_string.
    apply wp_newh_any, SubW, ctor1_edges; [exact Hwf|reflexivity].
  - (* O3SetHandleNew *)
    apply wp_lift3_any. destruct (hget (base s) h) as [a|] eqn:Hh.
    + destruct (Lg a Hh) as (Oa & rc & text & b0 & E).
      destruct (set_handle_new_step refuse (base s) own ownd w h a rc text b0 bytes I Cw Hh Oa E)
        as (out & w' & R & _ & _ & _ & [(_ & _ & Hh' & _)|(_ & _ & _ & _ & _ & Hh' & _)]);
        (eapply wp_eq; [exact R|]); apply Sub.
      * apply edges_sub_same. intros b. rewrite Hh'. reflexivity.
      * eapply (edges_sub_leaf2 w w'); [| |intros b; rewrite Hh'; reflexivity].
        -- intros rc1 n1 H. discriminate H.
        -- intros rc1 n1 H. injection H as _ <-. reflexivity.
    + eapply wp_eq; [apply set_handle_new_skip; exact Hh|exact AC].
  - (* O3SetHandleShorten *)
    apply wp_lift3_any. destruct (hget (base s) h) as [a|] eqn:Hh.
    + destruct (Lg a Hh) as (Oa & rc & text & data & bytes & E & Hn).
      destruct (set_handle_shorten_step refuse (base s) own ownd w h a rc text data bytes n I Cw Hh Oa E Hn)
        as (w' & R & _ & _ & _ & Hh' & _).
      eapply wp_eq; [exact R|]. apply Sub.
      eapply (edges_sub_leaf w w'); [|intros b; rewrite Hh'; reflexivity].
      intros rc1 n1 H. injection H as _ <-. reflexivity.
    + eapply wp_eq; [apply set_handle_shorten_skip; exact Hh|exact AC].
  - (* O3NewInt *)
    destruct (new_int_step refuse s own ownd w iw I Cw) as (s' & ok & w' & E & _ & _ & _ & [(_ & _ & _ & Hh & _)|(_ & _ & _ & _ & Hh & _)]);
      (eapply wp_eq; [exact E|]); apply Sub.
    + apply edges_sub_same. intros b. rewrite Hh. reflexivity.
    + eapply edges_sub_leaf; [|intros b; rewrite Hh; reflexivity]. intros rc n H. injection H as _ <-. reflexivity.
  - (* O3SetUint *)
    destruct (hget (base s) h) as [a|] eqn:Hh; [|unfold set_uint; rewrite Hh; apply Skip].
    destruct (Lg a eq_refl) as (_ & rc & neg & v0 & E).
    destruct (set_uint_step s own ownd w iw h v a rc neg v0 I Cw Hh E) as (w' & R & _ & _ & _ & Hh' & _).
    eapply wp_eq; [exact R|]. apply Sub. eapply edges_sub_leaf; [|intros b; rewrite Hh'; reflexivity].
    intros rc1 n1 H. injection H as _ <-. reflexivity.
  - (* O3Mark *)
    destruct (hget (base s) h) as [a|] eqn:Hh; [|unfold mark_int; rewrite Hh; apply Skip].
    destruct (Lg a eq_refl) as (_ & rc & neg0 & iw & v0 & E).
    destruct (mark_int_step s own ownd w neg h a rc neg0 iw v0 I Cw Hh E) as (w' & R & _ & _ & _ & Hh' & _).
    eapply wp_eq; [exact R|]. apply Sub. eapply edges_sub_leaf; [|intros b; rewrite Hh'; reflexivity].
    intros rc1 n1 H. injection H as _ <-. reflexivity.
  - (* O3NewFloat *)
    destruct (new_float_step refuse s own ownd w fw I Cw) as (s' & ok & w' & E & _ & _ & _ & [(_ & _ & _ & Hh & _)|(_ & _ & _ & _ & Hh & _)]);
      (eapply wp_eq; [exact E|]); apply Sub.
    + apply edges_sub_same. intros b. rewrite Hh. reflexivity.
    + eapply edges_sub_leaf; [|intros b; rewrite Hh; reflexivity]. intros rc n H. injection H as _ <-. reflexivity.
  - (* O3SetFloat *)
    destruct (hget (base s) h) as [a|] eqn:Hh; [|unfold set_float; rewrite Hh; apply Skip].
    destruct (Lg a eq_refl) as (_ & rc & b0 & E).
    destruct (set_float_step s own ownd w fw h bits a rc b0 I Cw Hh E) as (w' & R & _ & _ & _ & Hh' & _).
    eapply wp_eq; [exact R|]. apply Sub. eapply edges_sub_leaf; [|intros b; rewrite Hh'; reflexivity].
    intros rc1 n1 H. injection H as _ <-. reflexivity.
  - (* O3NewCtrl *)
    destruct (new_ctrl_step refuse s own ownd w I Cw) as (s' & ok & w' & E & _ & _ & _ & [(_ & _ & _ & Hh & _)|(_ & _ & _ & Hh & _)]);
      (eapply wp_eq; [exact E|]); apply Sub.
    + apply edges_sub_same. intros b. rewrite Hh. reflexivity.
    + eapply edges_sub_leaf; [|intros b; rewrite Hh; reflexivity]. intros rc n H. injection H as _ <-. reflexivity.
  - (* O3SetCtrl *)
    destruct (hget (base s) h) as [a|] eqn:Hh; [|unfold set_ctrl; rewrite Hh; apply Skip].
    destruct (Lg a eq_refl) as (_ & rc & v0 & E).
    destruct (set_ctrl_step s own ownd w h v a rc v0 I Cw Hh E) as (w' & R & _ & _ & _ & Hh' & _).
    eapply wp_eq; [exact R|]. apply Sub. eapply edges_sub_leaf; [|intros b; rewrite Hh'; reflexivity].
    intros rc1 n1 H. injection H as _ <-. reflexivity.
  - (* O3SetBool *)
    destruct (hget (base s) h) as [a|] eqn:Hh; [|unfold set_bool; rewrite Hh; apply Skip].
    destruct (Lg a eq_refl) as (_ & rc & v0 & E & Hv).
    destruct (set_bool_step s own ownd w h b a rc v0 I Cw Hh E Hv) as (w' & R & _ & _ & _ & Hh' & _).
    eapply wp_eq; [exact R|]. apply Sub. eapply edges_sub_leaf; [|intros b0; rewrite Hh'; reflexivity].
    intros rc1 n1 H. injection H as _ <-. reflexivity.
  - (* O3BuildBool *)
    destruct (build_bool_step refuse s own ownd w b I Cw) as (s' & ok & w' & E & _ & _ & _ & [(_ & _ & _ & Hh & _)|(_ & _ & _ & Hh & _)]);
      (eapply wp_eq; [exact E|]); apply Sub.
    + apply edges_sub_same. intros b0. rewrite Hh. reflexivity.
    + eapply edges_sub_leaf; [|intros b0; rewrite Hh; reflexivity]. intros rc n H. injection H as _ <-. reflexivity.
  - (* O3NewNull *)
    destruct (new_ctrl_set_step refuse s own ownd w 22 I Cw) as (s' & ok & w' & E & _ & _ & _ & [(_ & _ & _ & Hh & _)|(_ & _ & _ & Hh & _)]);
      (eapply wp_eq; [exact E|]); apply Sub.
    + apply edges_sub_same. intros b0. rewrite Hh. reflexivity.
    + eapply edges_sub_leaf; [|exact Hh]. intros rc n H. injection H as _ <-. reflexivity.
  - (* O3NewUndef *)
    destruct (new_ctrl_set_step refuse s own ownd w 23 I Cw) as (s' & ok & w' & E & _ & _ & _ & [(_ & _ & _ & Hh & _)|(_ & _ & _ & Hh & _)]);
      (eapply wp_eq; [exact E|]); apply Sub.
    + apply edges_sub_same. intros b0. rewrite Hh. reflexivity.
    + eapply edges_sub_leaf; [|exact Hh]. intros rc n H. injection H as _ <-. reflexivity.
  - (* O3Move *)
    destruct (hget (base s) h) as [a|] eqn:Hh; [|unfold move_op; rewrite Hh; apply Skip].
    destruct (Lg a eq_refl) as (O & rc & n & E & Hrc).
    destruct (move_step refuse s own ownd w h a rc n I Cw Hh O E Hrc) as (w' & R & _ & _ & _ & Hh' & _).
    eapply wp_eq; [exact R|]. apply Sub. eapply (edges_sub_count w w' a rc _ n E); [lia|intros b; rewrite Hh'; reflexivity].
  - (* O3PushMove *)
    destruct (hget (base s) a) as [p|] eqn:Ha; [|unfold push_move; rewrite Ha; apply Skip].
    destruct (hget (base s) x) as [q|] eqn:Hx; [|unfold push_move; rewrite Ha, Hx; apply Skip].
    destruct (Lg p q eq_refl eq_refl) as (Hs & Op & Oq & Hpq & (rc & indef & d & c & l & Ep) & rcq & nq & Eq & H1 & Rq).
    pose proof (Cw _ _ _ Ep) as Cap. cbn [node_ok] in Cap.
    destruct (Bl p q eq_refl eq_refl) as (rank & HR & Hlt).
    unfold push_move. rewrite Ha, Hx, Hs.
    apply (wp_assoc (move q) (fun _ => array_push refuse p q)). apply wp_bind. eapply wp_mono; [eapply (push_move_edges own ownd p q w rc indef d c l rcq nq); eassumption|].
    intros b w' S. apply wp_ret. eapply acyclic_sub_new; [exact HR| |exact S]. intros ? ? [-> ->]. exact Hlt.
  - (* O3MapAddMove *)
    destruct (hget (base s) m) as [p|] eqn:Hm; [|unfold map_add_move; rewrite Hm; apply Skip].
    destruct (hget (base s) k) as [q|] eqn:Hk; [|unfold map_add_move; rewrite Hm, Hk; apply Skip].
    destruct (hget (base s) v) as [r|] eqn:Hv; [|unfold map_add_move; rewrite Hm, Hk, Hv; apply Skip].
    destruct (Lg p q r eq_refl eq_refl eq_refl)
      as (Sk & Sv & Op & Oq & Or & Oqr & Hpq & Hpr & (rc & indef & d & c & l & Ep) &
          (rcq & nq & Eq & H1 & Rq & H3) & (rcr & nr & Er & H2 & Rr)).
    pose proof (Cw _ _ _ Ep) as Cap. cbn [node_ok] in Cap.
    destruct (Bl p q r eq_refl eq_refl eq_refl) as (rank & HR & Hq & Hr).
    unfold map_add_move. rewrite Hm, Hk, Hv, Sk, Sv. cbn [andb].
    apply (wp_assoc2 (move q) (fun _ => move r) (fun _ _ => map_add refuse p q r)).
    apply wp_bind. eapply wp_mono; [eapply (map_add_move_edges own ownd p q r w rc indef d c l rcq nq rcr nr); eassumption|].
    intros b w' S. apply wp_ret. eapply acyclic_sub_new; [exact HR| |exact S].
    intros ? ? [-> [->| ->]]; assumption.
  - (* O3TagSetMove *)
    destruct (hget (base s) t) as [p|] eqn:Ht; [|unfold tag_set_move; rewrite Ht; apply Skip].
    destruct (hget (base s) x) as [q|] eqn:Hx; [|unfold tag_set_move; rewrite Ht, Hx; apply Skip].
    destruct (Lg p q eq_refl eq_refl) as (Hs & Op & Oq & Hpq & (rc & v & Ep) & rcq & nq & Eq & Rq).
    destruct (Bl p q eq_refl eq_refl) as (rank & HR & Hlt).
    unfold tag_set_move. rewrite Ht, Hx, Hs.
    apply (wp_assoc (move q) (fun _ => tag_set_item p q)). apply wp_bind. eapply wp_mono; [apply (tag_set_move_wp refuse own ownd p q w rc v rcq nq I Ep Oq Eq Rq Hpq)|].
    intros u w' (_ & Hh & _). apply wp_ret.
    eapply acyclic_sub_new; [exact HR| |eapply (edges_sub_tagset w w' p q rc v Ep Hh)]. intros ? ? [-> ->]. exact Hlt.
  - (* O3BuildTagMove *)
    destruct (hget (base s) x) as [q|] eqn:Hx; [|unfold build_tag_move; rewrite Hx; apply Skip].
    destruct (Lg q eq_refl) as (Hs & Oq & rcq & nq & Eq & H1 & Rq).
    unfold build_tag_move. rewrite Hx, Hs.
    pose proof (build_tag_move_acyclic own ownd v q w rcq nq I Oq Eq Rq AC) as (r & w' & E & AC').
    unfold bind in E. destruct (move q w) as [u1 w1|k1] eqn:M; [|discriminate E].
    apply wp_bind. eapply wp_eq; [exact M|]. apply wp_lift3_any. apply wp_newh_any. eapply wp_eq; [exact E|exact AC'].
  - (* O3IntermediateDecref *)
    destruct (hget (base s) h) as [a|] eqn:Hh; [|unfold intermediate_decref; rewrite Hh; apply Skip].
    unfold intermediate_decref. rewrite Hh.
    apply wp_bind. eapply wp_mono; [apply SubW; eapply decref_edges; [exact I|exact (Lg a eq_refl)]|].
    intros r w' AC'. apply wp_ret. exact AC'.
  - (* O3BuildString0 *)
    unfold build_string0. apply wp_lift3_any. apply wp_newh_any, SubW.
    eapply wp_mono; [apply wp_build_string; exact Hwf|].
    intros r w' (r0 & P & _). eapply ctor2_edges; [exact Hwf| |exact P]. reflexivity.
  - (* O3SerializeTyped *)
    destruct (hget (base s) h) as [a|] eqn:Hh; [|unfold serialize_typed; rewrite Hh; apply Skip].
    destruct (Lg a eq_refl) as (Hs & _ & R & rc & n0 & E & Hk).
    eapply wp_mono; [eapply (serialize_typed_wp refuse s own ownd w k h n a rc n0 I Hh Hs E Hk R)|].
    intros r w' (_ & _ & _ & Hh' & _). apply Sub. apply edges_sub_same. exact Hh'.
  - (* O3Preds *)
    destruct (hget (base s) h) as [a|] eqn:Hh; [|unfold preds3; rewrite Hh; apply Skip].
    destruct (Inv_owned_item _ _ _ _ I (Lg a eq_refl)) as (rc & n0 & E & _).
    eapply wp_mono; [eapply (preds3_wp refuse s own ownd w h a rc n0 I Hh E)|]. intros r w' (_ & _ & ->).
    apply Sub. apply edges_sub_same. reflexivity.
  - (* O3Vals *)
    destruct (hget (base s) h) as [a|] eqn:Hh; [|unfold vals3; rewrite Hh; apply Skip].
    destruct (Lg a eq_refl) as [Hs O]. destruct (Inv_owned_item _ _ _ _ I O) as (rc & n0 & E & _).
    eapply wp_mono; [eapply (vals3_wp refuse s own ownd w h a rc n0 I Hh Hs E)|]. intros r w' (_ & _ & ->).
    apply Sub. apply edges_sub_same. reflexivity.
Qed.

(* every call is legal and respects the no-cycle rule, in the state in which it is issued *)
Fixpoint rules_history3 (ops : list op3) (s : cstate3) (own : addr -> N) (w : world) : Prop :=
  match ops with
  | [] => True
  | o :: r =>
      legal3 s own w o /\ below_rule3 s w o /\
      forall s' out w', step3 refuse L s o w = Ret (s', out) w' ->
        rules_history3 r s' (own_after3 s o own s') w'
  end.

Lemma rules_legal3 : forall ops s own w, rules_history3 ops s own w -> legal_history3 refuse L ops s own w.
Proof.
  induction ops as [|o r IH]; intros s own w H; [exact Logic.I|].
  destruct H as (Lo & _ & Lr). split; [exact Lo|]. intros s' out w' E. apply IH. eapply Lr. exact E.
Qed.

Theorem C04_history3_acyclic_gen : forall ops s own ownd w acc,
  Inv own ownd [] w -> caps w -> acyclic w -> rules_history3 ops s own w ->
  exists s' outs w', run_hist3 refuse L ops s acc w = Ret (s', outs) w' /\
    Inv (own_hist3 refuse L ops s own w) ownd [] w' /\ caps w' /\ acyclic w'.
Proof.
  induction ops as [|o r IH]; intros s own ownd w acc I Cw AC Lg.
  - exists s, (rev acc), w. split; [reflexivity|]. auto.
  - destruct Lg as (Lo & Bo & Lr).
    destruct (wp_and _ _ _ _ (C04_step3_wp refuse L s own ownd w o I Cw Lo)
                             (step3_acyclic s own ownd w o I Cw Lo AC Bo))
      as ([s1 out] & w1 & E & I1 & AC1).
    unfold step3_post in I1. cbn [fst] in I1.
    pose proof (step3_caps refuse L s o w _ w1 Cw E) as [C1 _].
    destruct (IH s1 (own_after3 s o own s1) ownd w1 (out :: acc) I1 C1 AC1 (Lr s1 out w1 E)) as (s' & outs & w' & E' & P).
    exists s', outs, w'. cbn [run_hist3 own_hist3]. rewrite E. split; [|exact P].
    unfold bind. rewrite E. cbn [fst snd]. exact E'.
Qed.

(* C04, second half, for histories over all three layers, with nothing assumed of the final heap: after a
   history that follows the rules (ownership, no read before the first store, no cycle), once the client
   has given back all its references nothing obtained from the allocator remains *)
Theorem C04_history3_no_leak_acyclic : forall ops s' outs w',
  rules_history3 ops s3_0 own0 world0 ->
  run_hist3 refuse L ops s3_0 [] world0 = Ret (s', outs) w' ->
  (forall a, own_hist3 refuse L ops s3_0 own0 world0 a = 0) ->
  forall a, heap w' a = None.
Proof.
  intros ops s' outs w' Lg E O.
  destruct (C04_history3_acyclic_gen ops s3_0 own0 own0 world0 [] Inv_world0 caps_world0 acyclic_world0 Lg)
    as (s1 & outs1 & w1 & E1 & I1 & _ & AC1).
  rewrite E in E1. injection E1 as <- <- <-.
  eapply no_leak; [exact I1|exact O|reflexivity|exact AC1].
Qed.

End Acyclic3.

(* ------------------------------------------------------------------------------------------ *)
(* 4c. allocation failure in the third layer is reported cleanly and atomically (C06)          *)
(* ------------------------------------------------------------------------------------------ *)

Section Refusal3.
Variable refuse : N -> N -> bool.

(* the one-block constructors: a NULL handle means that the one request was refused, and then the
   heap is what it was (nothing allocated, nothing touched), the client's accounting is unchanged *)
Theorem new_int_refusal s own ownd w iw s' w' :
  Inv own ownd [] w -> caps w -> new_int refuse s iw w = Ret (s', Out (OutHandle false)) w' ->
  refuse (nreq w) (SZ_ITEM + iw_bytes iw) = true /\ s' = mkcs3 (hpush (base s) None) (unset s) /\
  heap w' = heap w /\ next w' = next w /\ trace w' = EvMalloc (SZ_ITEM + iw_bytes iw) None :: trace w /\
  Inv own ownd [] w'.
Proof.
  intros I Cw H.
  destruct (new_int_step refuse s own ownd w iw I Cw) as (s1 & ok & w1 & E & I' & _ & _ & D).
  rewrite E in H. injection H as <- Hok <-.
  destruct D as [(R & _ & -> & Hh & Hn & T)|(_ & -> & _)]; [|discriminate Hok].
  rewrite new_handle3_push in I'. auto 10.
Qed.

Theorem new_float_refusal s own ownd w fw s' w' :
  Inv own ownd [] w -> caps w -> new_float refuse s fw w = Ret (s', Out (OutHandle false)) w' ->
  refuse (nreq w) (SZ_ITEM + fw_bytes fw) = true /\ s' = mkcs3 (hpush (base s) None) (unset s) /\
  heap w' = heap w /\ next w' = next w /\ trace w' = EvMalloc (SZ_ITEM + fw_bytes fw) None :: trace w /\
  Inv own ownd [] w'.
Proof.
  intros I Cw H.
  destruct (new_float_step refuse s own ownd w fw I Cw) as (s1 & ok & w1 & E & I' & _ & _ & D).
  rewrite E in H. injection H as <- Hok <-.
  destruct D as [(R & _ & -> & Hh & Hn & T)|(_ & -> & _)]; [|discriminate Hok].
  rewrite new_handle3_push in I'. auto 10.
Qed.

Theorem new_ctrl_refusal s own ownd w s' w' :
  Inv own ownd [] w -> caps w -> new_ctrl refuse s w = Ret (s', Out (OutHandle false)) w' ->
  refuse (nreq w) SZ_ITEM = true /\ s' = mkcs3 (hpush (base s) None) (unset s) /\
  heap w' = heap w /\ next w' = next w /\ Inv own ownd [] w'.
Proof.
  intros I Cw H.
  destruct (new_ctrl_step refuse s own ownd w I Cw) as (s1 & ok & w1 & E & I' & _ & _ & D).
  rewrite E in H. injection H as <- Hok <-.
  destruct D as [(R & _ & -> & Hh & Hn)|(_ & -> & _)]; [|discriminate Hok].
  rewrite new_handle3_push in I'. auto 10.
Qed.

Theorem build_bool_refusal s own ownd w b s' w' :
  Inv own ownd [] w -> caps w -> build_bool refuse s b w = Ret (s', Out (OutHandle false)) w' ->
  refuse (nreq w) SZ_ITEM = true /\ s' = mkcs3 (hpush (base s) None) (unset s) /\
  heap w' = heap w /\ next w' = next w /\ Inv own ownd [] w'.
Proof.
  intros I Cw H.
  destruct (build_bool_step refuse s own ownd w b I Cw) as (s1 & ok & w1 & E & I' & _ & _ & D).
  rewrite E in H. injection H as <- Hok <-.
  destruct D as [(R & _ & -> & Hh & Hn)|(_ & -> & _)]; [|discriminate Hok].
  rewrite new_handle3_push in I'. auto 10.
Qed.

(* cbor_new_null / cbor_new_undef (v = 22 / 23) *)
Theorem new_ctrl_set_refusal s own ownd w v s' w' :
  Inv own ownd [] w -> caps w -> new_ctrl_set refuse s v w = Ret (s', Out (OutHandle false)) w' ->
  refuse (nreq w) SZ_ITEM = true /\ s' = mkcs3 (hpush (base s) None) (unset s) /\
  heap w' = heap w /\ next w' = next w /\ Inv own ownd [] w'.
Proof.
  intros I Cw H.
  destruct (new_ctrl_set_step refuse s own ownd w v I Cw) as (s1 & ok & w1 & E & I' & _ & _ & D).
  rewrite E in H. injection H as <- Hok <-.
  destruct D as [(R & _ & -> & Hh & Hn)|(_ & -> & _)]; [|discriminate Hok].
  rewrite new_handle3_push in I'. auto 10.
Qed.

(* cbor_build_string: two requests (item, then buffer); whichever is refused, NULL and a clean heap:
   an item that was obtained before the buffer was refused has been released again *)
Theorem build_string0_refusal s bytes w s' w' :
  wf w -> build_string0 refuse s bytes w = Ret (s', Out (OutHandle false)) w' ->
  s' = mkcs3 (hpush (base s) None) (unset s) /\ clean_failure refuse false SZ_ITEM w w'.
Proof.
  intros W H. unfold build_string0, lift3, newh, bind in H.
  destruct (build_string refuse true (upto0 bytes) w) as [r w1|k] eqn:E; [|discriminate H].
  cbn [fst snd] in H. unfold ret in H. injection H as <- Hok <-.
  destruct r as [a|]; [discriminate Hok|].
  split; [reflexivity|]. eapply build_string_refusal; eassumption.
Qed.

(* cbor_array_push(a, cbor_move(x)) when the growth of the indefinite array is refused: false; the array,
   its slots and every other cell are what they were; the only change is the count of x, one lower
   (cbor_move has run); the client's accounting is exact when x has another reference *)
Theorem push_move_refused s own ownd w a x p q rc d c l rcq nq c' bytes :
  Inv own ownd [] w -> caps w ->
  hget (base s) a = Some p -> hget (base s) x = Some q -> is_set s x = true -> 0 < own q -> p <> q ->
  heap w p = Some (CItem rc (NArr true d c l)) -> heap w q = Some (CItem rcq nq) -> rcq < W64 ->
  c <= len l -> grow_req SZ_PTR c = Some (c', bytes) -> refuse (nreq w) bytes = true ->
  exists w', push_move refuse s a x w = Ret (s, Out (OutBool false)) w' /\
    (forall b, heap w' b = upd (heap w) q (Some (CItem (rcq - 1) nq)) b) /\ next w' = next w /\
    (1 < rcq -> Inv (own_dec own q) ownd [] w').
Proof.
  intros I Cw Ha Hx Hs Oq Hpq Ep Eq Rq Full G R.
  destruct (push_move_step refuse s own ownd w a x p q rc true d c l rcq nq I Cw Ha Hx Hs Oq Hpq Ep Eq Rq)
    as (ok & w' & E & _ & Pf).
  assert (Hok : ok = false).
  { pose proof (Cw _ _ _ Ep) as Cap. cbn [node_ok capinvA] in Cap. destruct Cap as (C1 & C2 & C3).
    destruct (moved_facts refuse own ownd w q rcq nq I Eq) as (Pq & H1 & N1 & W1 & E1q & O1).
    set (w1 := w_move q rcq nq w) in *.
    assert (E1p : heap w1 p = Some (CItem rc (NArr true d c l))) by (rewrite O1 by exact Hpq; exact Ep).
    assert (BI : block_inv w1 d c).
    { destruct d as [o|]; [|apply C1; reflexivity].
      destruct (Inv_blocks _ _ _ _ _ _ I Ep o ltac:(left; reflexivity)) as [(sz & Eb) _].
      exists sz. rewrite O1; [exact Eb|]. intros ->. rewrite Eq in Eb. discriminate. }
    destruct (push_refused_atomic refuse p q w1 rc d c l (rcq - 1) nq c' bytes W1 E1p BI E1q Hpq C2 Full G R)
      as (w2 & E2 & _).
    unfold push_move in E. rewrite Ha, Hx, Hs in E.
    rewrite (bind_Ret _ _ _ _ _ (move_spec q w rcq nq Eq)) in E. fold w1 in E.
    rewrite (bind_Ret _ _ _ _ _ E2) in E. unfold ret in E. injection E as <- _. reflexivity. }
  subst ok. exists w'. split; [exact E|]. destruct (Pf eq_refl) as (Hh & Hn & Pi). auto.
Qed.

(* cbor_map_add(m, {cbor_move(k), cbor_move(v)}) when the growth of the indefinite map is refused *)
Theorem map_add_move_refused s own ownd w m k v p q r rc d c l rcq nq rcr nr c' bytes :
  Inv own ownd [] w -> caps w ->
  hget (base s) m = Some p -> hget (base s) k = Some q -> hget (base s) v = Some r ->
  is_set s k = true -> is_set s v = true ->
  0 < own q -> 0 < own r -> (q = r -> 1 < own q) -> p <> q -> p <> r ->
  heap w p = Some (CItem rc (NMap true d c l)) ->
  heap w q = Some (CItem rcq nq) -> heap w r = Some (CItem rcr nr) -> rcq < W64 -> rcr < W64 ->
  c <= len l -> grow_req SZ_PAIR c = Some (c', bytes) -> refuse (nreq w) bytes = true ->
  exists w', map_add_move refuse s m k v w = Ret (s, Out (OutBool false)) w' /\
    next w' = next w /\ (forall b, b <> q -> b <> r -> heap w' b = heap w b) /\
    (1 < rcq -> 1 < rcr -> (q = r -> 2 < rcq) -> Inv (own_dec (own_dec own q) r) ownd [] w').
Proof.
  intros I Cw Hm Hk Hv Sk Sv Oq Or Oqr Hpq Hpr Ep Eq Er Rq Rr Full G R.
  destruct (map_add_move_step refuse s own ownd w m k v p q r rc true d c l rcq nq rcr nr I Cw Hm Hk Hv Sk Sv Oq Or Oqr
              Hpq Hpr Ep Eq Er Rq Rr) as (ok & w' & E & _ & Pf).
  assert (Hok : ok = false).
  { pose proof (Inv_nil_pos _ _ _ _ _ _ I Eq) as Pq.
    destruct (moved_facts' w q rcq nq (Inv_wf _ _ _ _ I) Eq Pq) as (H1 & N1 & W1 & E1q & O1).
    set (w1 := w_move q rcq nq w) in *.
    assert (exists rcr1, heap w1 r = Some (CItem rcr1 nr) /\ 0 < rcr1) as (rcr1 & E1r & Pr1).
    { destruct (N.eq_dec r q) as [->|Hrq].
      - assert (rcr = rcq /\ nr = nq) as [-> ->] by (rewrite Eq in Er; injection Er as <- <-; auto).
        exists (rcq - 1). split; [exact E1q|]. pose proof (own_le_rc refuse own ownd w q rcq nq I Eq). specialize (Oqr eq_refl). lia.
      - exists rcr. split; [rewrite O1 by exact Hrq; exact Er|]. eapply Inv_nil_pos; eassumption. }
    destruct (moved_facts' w1 r rcr1 nr W1 E1r Pr1) as (H2 & N2 & W2 & E2r & O2).
    set (w2 := w_move r rcr1 nr w1) in *.
    assert (E2p : heap w2 p = Some (CItem rc (NMap true d c l))).
    { rewrite O2 by exact Hpr. rewrite O1 by exact Hpq. exact Ep. }
    assert (Dk : data_ok w2 d).
    { destruct d as [o|]; [|exact Logic.I].
      destruct (Inv_blocks _ _ _ _ _ _ I Ep o ltac:(left; reflexivity)) as [(sz & Eb) _].
      exists sz. rewrite O2, O1; [exact Eb| |]; intros ->; [rewrite Eq in Eb|rewrite Er in Eb]; discriminate. }
    pose proof (map_add_refused refuse p q r w2 rc d c l c' bytes E2p Dk Full G R) as E2.
    unfold map_add_move in E. rewrite Hm, Hk, Hv, Sk, Sv in E. cbn [andb] in E.
    rewrite (bind_Ret _ _ _ _ _ (move_spec q w rcq nq Eq)) in E. fold w1 in E.
    rewrite (bind_Ret _ _ _ _ _ (move_spec r w1 rcr1 nr E1r)) in E. fold w2 in E.
    rewrite (bind_Ret _ _ _ _ _ E2) in E. unfold ret in E. injection E as <- _. reflexivity. }
  subst ok. exists w'. split; [exact E|]. destruct (Pf eq_refl) as (Hn & Hh & Pi). auto.
Qed.

(* cbor_build_tag(v, cbor_move(x)) when the tag's request is refused: NULL; nothing but the count of x
   has changed *)
Theorem build_tag_move_refused s own ownd w v x q rcq nq :
  Inv own ownd [] w -> hget (base s) x = Some q -> is_set s x = true ->
  0 < own q -> heap w q = Some (CItem rcq nq) -> rcq < W64 -> refuse (nreq w) SZ_ITEM = true ->
  exists w', build_tag_move refuse s v x w = Ret (mkcs3 (hpush (base s) None) (unset s), Out (OutHandle false)) w' /\
    (forall b, heap w' b = upd (heap w) q (Some (CItem (rcq - 1) nq)) b) /\ next w' = next w /\
    (1 < rcq -> Inv (own_dec own q) ownd [] w').
Proof.
  intros I Hx Hs Oq Eq Rq R.
  destruct (build_tag_move_step refuse s own ownd w v x q rcq nq I Hx Hs Oq Eq Rq) as (s' & ok & w' & E & D).
  assert (E' : exists w2, build_tag_move refuse s v x w = Ret (mkcs3 (hpush (base s) None) (unset s), Out (OutHandle false)) w2).
  { unfold build_tag_move. rewrite Hx, Hs.
    rewrite (bind_Ret _ _ _ _ _ (move_spec q w rcq nq Eq)).
    set (w1 := w_move q rcq nq w).
    assert (R1 : refuse (nreq w1) SZ_ITEM = true) by exact R.
    eexists. apply (lift3_newh_eq s (build_tag refuse v q) w1 None).
    unfold build_tag, new_tag. rewrite (bind_Ret _ _ _ _ _ (malloc_refused refuse SZ_ITEM _ w1 R1)). reflexivity. }
  destruct E' as [w2 E']. rewrite E' in E. injection E as <- <- <-.
  destruct D as [(Hok & _)|(_ & _ & Hh & Hn & Pi)]; [discriminate Hok|].
  exists w2. auto.
Qed.

End Refusal3.

(* ------------------------------------------------------------------------------------------ *)
(* 4d. the read-only calls of the third layer never write (C18)                                *)
(* ------------------------------------------------------------------------------------------ *)

(* in the sense of HRead_proofs.readonly: for EVERY world and handle (no legality is asked: a call that
   faults returns nothing) the heap, the bump pointer, the request counter and the allocator trace are
   unchanged, and everything appended to the access log is a read *)
Theorem serialize_typed_readonly s k h n : readonly (serialize_typed s k h n).
Proof.
  unfold serialize_typed. destruct (hget (base s) h) as [a|]; [|apply readonly_ret].
  destruct (memN a (unset s)); [apply readonly_fail|].
  apply readonly_bind; [apply readonly_rd_item|]. intros c.
  apply readonly_bind; [apply readonly_assert|]. intros _.
  apply readonly_bind; [apply serialize_readonly_pred|]. intros [[wr bytes]|]; [apply readonly_ret|apply readonly_fail].
Qed.

Theorem preds3_readonly s h : readonly (preds3 s h).
Proof.
  unfold preds3. destruct (hget (base s) h) as [a|]; [|apply readonly_ret].
  apply readonly_bind; [apply readonly_rd_item|]. intros c. apply readonly_ret.
Qed.

Theorem ptrs3_readonly s h : readonly (ptrs3 s h).
Proof.
  unfold ptrs3. destruct (hget (base s) h) as [a|]; [|apply readonly_ret].
  apply readonly_bind; [apply readonly_rd_item|]. intros c. apply readonly_ret.
Qed.

Theorem vals3_readonly s h : readonly (vals3 s h).
Proof.
  unfold vals3. destruct (hget (base s) h) as [a|]; [|apply readonly_ret].
  destruct (memN a (unset s)); [apply readonly_fail|].
  apply readonly_bind; [apply readonly_rd_item|]. intros c. apply readonly_ret.
Qed.

(* the same in the form of C18_no_writes / C18_heap_unchanged: every store in the access log after the
   call was already in the log before it; every cell is what it was; no allocator request, no event *)
Definition no_write_rel (w w' : world) : Prop :=
  (forall b, In (AccW b) (alog w') -> In (AccW b) (alog w)) /\ (forall b, heap w' b = heap w b) /\
  next w' = next w /\ nreq w' = nreq w /\ trace w' = trace w.

Lemma readonly_no_writes {A} (m : M A) : readonly m -> forall w r w', m w = Ret r w' -> no_write_rel w w'.
Proof.
  intros RO w r w' E. pose proof (RO w r w' E) as R. split; [eapply ro_rel_no_writes; exact R|].
  destruct R as (Hh & Hn & Hq & Ht & _). split; [intros b; rewrite Hh; reflexivity|]. auto.
Qed.

Theorem serialize_typed_no_writes : forall s k h n w r w', serialize_typed s k h n w = Ret r w' -> no_write_rel w w'.
Proof. intros s k h n. apply readonly_no_writes, serialize_typed_readonly. Qed.
Theorem preds3_no_writes : forall s h w r w', preds3 s h w = Ret r w' -> no_write_rel w w'.
Proof. intros s h. apply readonly_no_writes, preds3_readonly. Qed.
Theorem vals3_no_writes : forall s h w r w', vals3 s h w = Ret r w' -> no_write_rel w w'.
Proof. intros s h. apply readonly_no_writes, vals3_readonly. Qed.
Theorem ptrs3_no_writes : forall s h w r w', ptrs3 s h w = Ret r w' -> no_write_rel w w'.
Proof. intros s h. apply readonly_no_writes, ptrs3_readonly. Qed.

(* as calls of [step3]: for every allocator oracle and nesting limit *)
Theorem C18_no_writes3 : forall refuse L s o w r w',
  match o with O3SerializeTyped _ _ _ | O3Preds _ | O3Vals _ => True | _ => False end ->
  step3 refuse L s o w = Ret r w' -> no_write_rel w w'.
Proof.
  intros refuse L s o w r w' Ho E. destruct o; try destruct Ho; cbn [step3] in E.
  - eapply serialize_typed_no_writes; exact E.
  - eapply preds3_no_writes; exact E.
  - eapply vals3_no_writes; exact E.
Qed.

(* ------------------------------------------------------------------------------------------ *)
(* 5. non-vacuity: concrete histories, by computation                                          *)
(* ------------------------------------------------------------------------------------------ *)

(* new_int8, set_uint8 200, mark_negint, every getter, cbor_serialize_negint; an indefinite array takes the
   item through cbor_array_push(a, cbor_move(x)) (the client holds a second reference: incref first);
   a tag takes a null through cbor_tag_set_item(t, cbor_move(x)); the client gives its last reference to
   the integer up with cbor_move (the array holds one); everything is released through
   cbor_intermediate_decref.  The history follows the rules ... *)
Definition ex3_ops : list op3 :=
  [O3NewInt I8; O3SetUint I8 0 200; O3Mark true 0; O3Vals 0; O3SerializeTyped KNegint 0 2;
   O3Old ONewIndefArray; O3Old (OIncref 0); O3PushMove 1 0; O3NewNull; O3Old (ONewTag 5); O3TagSetMove 3 2;
   O3Move 0; O3IntermediateDecref 1; O3IntermediateDecref 3]%nat.

Ltac ex3_next := intros ?s ?o ?w E; vm_compute in E; injection E as <- <- <-.
Ltac ex3_h H := vm_compute in H; injection H as <-.
Ltac ex3_room := let rc := fresh "rc" in let n := fresh "n" in let H := fresh "H" in
  intros rc n H; vm_compute in H; injection H as <- <-; vm_compute; reflexivity.
Ltac ex3_c := vm_compute; reflexivity.

Ltac ex3_noedge := let a := fresh "a" in let k := fresh "k" in let rc := fresh "rc" in let n := fresh "n" in
  let E := fresh "E" in let R := fresh "R" in let K := fresh "K" in
  intros a k (rc & n & E & R & K);
  destruct a as [|a]; [|do 3 (try destruct a as [a|a|])]; vm_compute in E; try discriminate E;
  injection E as <- <-; cbn in K; try (destruct K; fail); destruct K as [<-|[]]; vm_compute; lia.

Example ex3_rules3 : rules_history3 never 8 ex3_ops s3_0 own0 world0.
Proof.
  unfold ex3_ops.
  split; [exact I|]. split; [exact I|ex3_next].
  split. { intros a Ha. ex3_h Ha. split; [ex3_c|]. vm_compute. do 3 eexists. reflexivity. } split; [exact I|ex3_next].
  split. { intros a Ha. ex3_h Ha. split; [ex3_c|]. vm_compute. do 4 eexists. reflexivity. } split; [exact I|ex3_next].
  split. { intros a Ha. ex3_h Ha. split; ex3_c. } split; [exact I|ex3_next].
  split. { intros a Ha. ex3_h Ha. split; [ex3_c|]. split; [ex3_c|]. split; [eapply abs_readable; vm_compute; reflexivity|].
           vm_compute. do 2 eexists. split; reflexivity. } split; [exact I|ex3_next].
  split. { split; [exact I|reflexivity]. } split; [exact I|ex3_next].
  split. { split; [|reflexivity]. intros p Hp. ex3_h Hp. split; [ex3_c|ex3_room]. } split; [exact I|ex3_next].
  split. { intros p q Hp Hq. ex3_h Hp. ex3_h Hq. split; [ex3_c|]. split; [ex3_c|]. split; [ex3_c|]. split; [discriminate|].
           split; [vm_compute; do 5 eexists; reflexivity|]. exists 2, (NInt true I8 200). split; [ex3_c|]. split; reflexivity. }
  split. { intros p q Hp Hq. ex3_h Hp. ex3_h Hq. exists (fun x => if x =? 2 then 1%nat else 0%nat). split; [ex3_noedge|vm_compute; lia]. }
  ex3_next.
  split; [exact I|]. split; [exact I|ex3_next].
  split. { split; [exact I|reflexivity]. } split; [exact I|ex3_next].
  split. { intros p q Hp Hq. ex3_h Hp. ex3_h Hq. split; [ex3_c|]. split; [ex3_c|]. split; [ex3_c|]. split; [discriminate|].
           split; [vm_compute; do 2 eexists; reflexivity|]. exists 1, (NCtrl 22). split; [ex3_c|reflexivity]. }
  split. { intros p q Hp Hq. ex3_h Hp. ex3_h Hq.
           exists (fun x => if x =? 2 then 1%nat else if x =? 5 then 1%nat else 0%nat). split; [ex3_noedge|vm_compute; lia]. }
  ex3_next.
  split. { intros a Ha. ex3_h Ha. split; [ex3_c|]. exists 2, (NInt true I8 200). split; [ex3_c|reflexivity]. } split; [exact I|ex3_next].
  split. { intros a Ha. ex3_h Ha. ex3_c. } split; [exact I|ex3_next].
  split. { intros a Ha. ex3_h Ha. ex3_c. } split; [exact I|ex3_next].
  exact I.
Qed.

Corollary ex3_rules : legal_history3 never 8 ex3_ops s3_0 own0 world0.
Proof. apply rules_legal3. exact ex3_rules3. Qed.


(* ... it runs as the theorem says: the getters see -201 stored as (negint, 8 bits, 200), the bytes are
   38 c8, nothing is left, and the client holds nothing *)
Example ex3_runs :
  match run_hist3 never 8 ex3_ops s3_0 [] world0 with
  | Ret (s', outs) w' =>
      s' = mkcs3 (mkcs [Some 1; Some 2; Some 4; Some 5]) [] /\
      outs = [Out (OutHandle true); Out OutUnit; Out OutUnit;
              OutVals [1; 0; 1; 0; 0; 0; 0; 0; 0; 1; 0; 0; 0; 0; 0; 1; 200; 200];
              Out (OutBytes 2 [56; 200]); Out (OutHandle true); Out OutUnit; Out (OutBool true);
              Out (OutHandle true); Out (OutHandle true); Out OutUnit; Out OutUnit; Out OutUnit; Out OutUnit] /\
      live_count w' = 0 /\
      trace w' = [EvFree (Some 5); EvFree None; EvFree (Some 4); EvFree (Some 2); EvFree (Some 3); EvFree (Some 1);
                  EvMalloc 48 (Some 5); EvMalloc 48 (Some 4); EvRealloc None 8 (Some 3); EvMalloc 48 (Some 2);
                  EvMalloc 49 (Some 1)] /\
      map (own_hist3 never 8 ex3_ops s3_0 own0 world0) [0; 1; 2; 3; 4; 5; 6] = repeat 0 7
  | Fault _ => False
  end.
Proof. vm_compute. repeat split. Qed.

Corollary ex3_theorem_applies :
  exists s' outs w', run_hist3 never 8 ex3_ops s3_0 [] world0 = Ret (s', outs) w' /\
    Inv (own_hist3 never 8 ex3_ops s3_0 own0 world0) own0 [] w'.
Proof. apply C04_history3. exact ex3_rules. Qed.

(* the rule "no read before the first store" is needed, and the model enforces it: a getter, a
   serializer, an insertion into a container on an item fresh from cbor_new_int8 / cbor_new_float4 *)
Example ex3_read_before_write :
  run_hist3 never 8 [O3NewInt I8; O3Vals 0]%nat s3_0 [] world0 = Fault FUninit /\
  run_hist3 never 8 [O3NewInt I16; O3SerializeTyped KUint 0 3]%nat s3_0 [] world0 = Fault FUninit /\
  run_hist3 never 8 [O3NewFloat F32; O3Old ONewIndefArray; O3Old (OPush 1 0)]%nat s3_0 [] world0 = Fault FUninit /\
  run_hist3 never 8 [O3NewFloat F64; O3BuildTagMove 1 0]%nat s3_0 [] world0 = Fault FUninit /\
  ~ legal_history3 never 8 [O3NewInt I8; O3Vals 0]%nat s3_0 own0 world0.
Proof.
  repeat split; try (vm_compute; reflexivity).
  intros (_ & H). specialize (H _ _ _ eq_refl). destruct H as (H & _). specialize (H 1 eq_refl).
  destruct H as [H _]. vm_compute in H. discriminate H.
Qed.
(* ... while the predicates, the width getter, cbor_mark_negint and the count operations are fine *)
Example ex3_unset_allowed :
  match run_hist3 never 8 [O3NewInt I32; O3Preds 0; O3Mark true 0; O3Old (OIncref 0); O3Move 0; O3Preds 0;
                           O3IntermediateDecref 0]%nat s3_0 [] world0 with
  | Ret (s', outs) w' =>
      outs = [Out (OutHandle true); OutVals [0; 1; 0; 0; 0; 0; 0; 0; 0; 1; 0; 0; 0; 0; 2; 1]; Out OutUnit; Out OutUnit;
              Out OutUnit; OutVals [1; 0; 1; 0; 0; 0; 0; 0; 0; 1; 0; 0; 0; 0; 2; 1]; Out OutUnit] /\
      unset s' = [1] /\ live_count w' = 0
  | Fault _ => False
  end.
Proof. vm_compute. repeat split. Qed.

(* the CBOR_ASSERTs of the setters and of the type-specific serializers *)
Example ex3_asserts :
  run_hist3 never 8 [O3NewInt I8; O3SetUint I16 0 1]%nat s3_0 [] world0 = Fault (FAssert 62) /\
  run_hist3 never 8 [O3NewCtrl; O3SetUint I8 0 1]%nat s3_0 [] world0 = Fault (FAssert 61) /\
  run_hist3 never 8 [O3NewNull; O3SetBool 0 true]%nat s3_0 [] world0 = Fault (FAssert 67) /\
  run_hist3 never 8 [O3NewFloat F16; O3SetCtrl 0 1]%nat s3_0 [] world0 = Fault (FAssert 66) /\
  run_hist3 never 8 [O3NewFloat F16; O3SetFloat F32 0 1]%nat s3_0 [] world0 = Fault (FAssert 64) /\
  run_hist3 never 8 [O3BuildBool true; O3SerializeTyped KUint 0 1]%nat s3_0 [] world0 = Fault (FAssert 70).
Proof. repeat split; vm_compute; reflexivity. Qed.

(* cbor_array_push(a, cbor_move(x)) with the client's SOLE reference into a full definite array: the push
   fails, the item is left with count 0 (cbor_move released nothing) ... *)
Example ex3_push_move_sole_fails :
  match run_hist3 never 8 [O3Old (ONewDefArray 0); O3Old (OBuildInt false I8 7); O3PushMove 0 1]%nat s3_0 [] world0 with
  | Ret (s', outs) w' =>
      outs = [Out (OutHandle true); Out (OutHandle true); Out (OutBool false)] /\
      heap w' 3 = Some (CItem 0 (NInt false I8 7)) /\ live_count w' = 3
  | Fault _ => False
  end.
Proof. vm_compute. repeat split. Qed.
(* ... and cbor_incref + cbor_decref reclaim it *)
Example ex3_push_move_sole_reclaimed :
  match run_hist3 never 8 [O3Old (ONewDefArray 0); O3Old (OBuildInt false I8 7); O3PushMove 0 1;
                           O3Old (OIncref 1); O3Old (ODecref 1); O3Old (ODecref 0)]%nat s3_0 [] world0 with
  | Ret (s', outs) w' => live_count w' = 0
  | Fault _ => False
  end.
Proof. vm_compute. reflexivity. Qed.

(* atomicity under refusal: the third request (cbor_new_float8) is refused: NULL handle, nothing allocated,
   the later calls are unaffected; cbor_build_tag(9, cbor_move(x)) then succeeds *)
Example ex3_refused :
  match run_hist3 (fun i _ => i =? 2) 8
          [O3Old (OBuildInt false I8 7); O3NewInt I16; O3NewFloat F64; O3NewCtrl; O3BuildTagMove 9 0]%nat s3_0 [] world0 with
  | Ret (s', outs) w' =>
      s' = mkcs3 (mkcs [Some 1; Some 2; None; Some 3; Some 4]) [2] /\
      outs = [Out (OutHandle true); Out (OutHandle true); Out (OutHandle false); Out (OutHandle true); Out (OutHandle true)] /\
      map (heap w') [1; 2; 3; 4; 5] =
        [Some (CItem 1 (NInt false I8 7)); Some (CItem 1 (NInt false I16 0)); Some (CItem 1 (NCtrl 0));
         Some (CItem 1 (NTag 9 (Some 1))); None]
  | Fault _ => False
  end.
Proof. vm_compute. repeat split. Qed.

(* cbor_build_string stops at the first NUL *)
Example ex3_build_string0 :
  upto0 [0x61; 0x62; 0; 0x63] = [0x61; 0x62] /\ upto0 [0; 1] = [] /\ upto0 [0xC3; 0xA9] = [0xC3; 0xA9].
Proof. repeat split. Qed.

(* C06: the growth request of cbor_array_push(a, cbor_move(x)) / cbor_map_add(m, {cbor_move(k), cbor_move(k)})
   (the third request) is refused: false, the container untouched, the moved counts one / two lower,
   nothing allocated *)
Example ex3_push_move_refused :
  match run_hist3 (fun i _ => i =? 2) 8
          [O3Old ONewIndefArray; O3Old (OBuildInt false I8 7); O3Old (OIncref 1); O3PushMove 0 1]%nat s3_0 [] world0 with
  | Ret (s', outs) w' =>
      outs = [Out (OutHandle true); Out (OutHandle true); Out OutUnit; Out (OutBool false)] /\
      map (heap w') [1; 2; 3] = [Some (CItem 1 (NArr true None 0 [])); Some (CItem 1 (NInt false I8 7)); None] /\
      trace w' = [EvRealloc None 8 None; EvMalloc 49 (Some 2); EvMalloc 48 (Some 1)]
  | Fault _ => False
  end.
Proof. vm_compute. repeat split. Qed.
Example ex3_map_add_move_refused :
  match run_hist3 (fun i _ => i =? 2) 8
          [O3Old ONewIndefMap; O3Old (OBuildInt false I8 7); O3Old (OIncref 1); O3Old (OIncref 1); O3Old (OIncref 1);
           O3MapAddMove 0 1 1]%nat s3_0 [] world0 with
  | Ret (s', outs) w' =>
      last outs (Out OutSkip) = Out (OutBool false) /\
      map (heap w') [1; 2; 3] = [Some (CItem 1 (NMap true None 0 [])); Some (CItem 2 (NInt false I8 7)); None] /\
      trace w' = [EvRealloc None 16 None; EvMalloc 49 (Some 2); EvMalloc 48 (Some 1)]
  | Fault _ => False
  end.
Proof. vm_compute. repeat split. Qed.

Print Assumptions Inv_renode.
Print Assumptions Inv_move.
Print Assumptions new_int_step.
Print Assumptions new_float_step.
Print Assumptions set_uint_step.
Print Assumptions mark_int_step.
Print Assumptions set_float_step.
Print Assumptions new_ctrl_step.
Print Assumptions set_ctrl_step.
Print Assumptions set_bool_step.
Print Assumptions build_bool_step.
Print Assumptions new_ctrl_set_step.
Print Assumptions build_string0_Inv.
Print Assumptions move_step.
Print Assumptions intermediate_decref_Inv.
Print Assumptions push_move_step.
Print Assumptions tag_set_move_step.
Print Assumptions build_tag_move_step.
Print Assumptions map_add_move_step.
Print Assumptions serialize_typed_wp.
Print Assumptions preds3_wp.
Print Assumptions vals3_wp.
Print Assumptions step3_caps.
Print Assumptions C04_step3.
Print Assumptions C04_step3_no_fault.
Print Assumptions C04_history3.
Print Assumptions C04_history3_no_leak.
Print Assumptions ex3_rules.
Print Assumptions ex3_theorem_applies.
Print Assumptions step3_acyclic.
Print Assumptions C04_history3_no_leak_acyclic.
Print Assumptions new_int_refusal.
Print Assumptions new_float_refusal.
Print Assumptions new_ctrl_refusal.
Print Assumptions build_bool_refusal.
Print Assumptions new_ctrl_set_refusal.
Print Assumptions build_string0_refusal.
Print Assumptions push_move_refused.
Print Assumptions map_add_move_refused.
Print Assumptions build_tag_move_refused.
Print Assumptions serialize_typed_readonly.
Print Assumptions preds3_readonly.
Print Assumptions vals3_readonly.
Print Assumptions serialize_typed_no_writes.
Print Assumptions preds3_no_writes.
Print Assumptions vals3_no_writes.
Print Assumptions ptrs3_no_writes.
Print Assumptions ptrs3_readonly.
Print Assumptions ptrs3_step.
Print Assumptions set_allocs_step.
Print Assumptions C18_no_writes3.
Print Assumptions ex3_rules3.
