(* Model P, size guards: src/cbor/internal/memory_utils.c, _cbor_encoded_header_size.
   [w] is the width of size_t in bits (64 on the modelled platform; theorems hold for any w >= 1). *)
From CB Require Export Word.
Local Open Scope N_scope.

(* size_t _cbor_highest_bit(size_t number): the while loop, on explicit fuel *)
Fixpoint highest_bit_f (fuel : nat) (number bit : N) : N :=
  match fuel with
  | O => bit
  | S f => if number =? 0 then bit else highest_bit_f f (number / 2) (bit + 1)
  end.
Definition highest_bit (w : N) (number : N) : N := highest_bit_f (S (N.to_nat w)) number 0.

Definition safe_to_multiply (w a b : N) : bool :=
  if (a <=? 1) || (b <=? 1) then true
  else highest_bit w a + highest_bit w b <=? w.      (* sizeof(size_t) * 8 *)

Definition safe_to_add (w a b : N) : bool :=
  let sum := wrap w (a + b) in (a <=? sum) && (b <=? sum).

Definition safe_signaling_add (w a b : N) : N :=
  if (a =? 0) || (b =? 0) then 0
  else if safe_to_add w a b then wrap w (a + b) else 0.

(* _cbor_alloc_multiple / _cbor_realloc_multiple: the byte count handed to the allocator,
   or None when the guard refuses and no request is made *)
Definition alloc_multiple_req (w item_size item_count : N) : option N :=
  if safe_to_multiply w item_size item_count then Some (wrap w (item_size * item_count)) else None.

(* container growth (arrays.c / maps.c / strings.c / bytestrings.c):
   None = refused by the guard; Some c = new capacity *)
Definition CBOR_BUFFER_GROWTH : N := 2.
Definition grow_capacity (w allocated : N) : option N :=
  if safe_to_multiply w CBOR_BUFFER_GROWTH allocated
  then Some (if allocated =? 0 then 1 else wrap w (CBOR_BUFFER_GROWTH * allocated))
  else None.

(* size_t _cbor_encoded_header_size(uint64_t size) *)
Definition header_size (size : N) : N :=
  if size <=? 23 then 1
  else if size <=? 255 then 2
  else if size <=? 65535 then 3
  else if size <=? 4294967295 then 5
  else 9.
