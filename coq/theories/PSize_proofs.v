(* Property C20 on DECLARED lengths: cbor_serialized_size (model PSize.ssize_s) is either the exact
   mathematical total of the tree or 0, for trees whose strings carry arbitrary declared lengths
   (not backed by data).  Also: ssize_s / total_s / wf_s agree with ssize / encode_rfc / wf_item
   through [shape]. *)
From CB Require Import Word Word_proofs PMem PItem SpecItem PSize PMem_proofs.
From Coq Require Import Lia ZArith ZifyBool ZifyN ZifyNat.
Local Open Scope N_scope.
Ltac Zify.zify_post_hook ::= Z.div_mod_to_equations.

(* ------------------------------------------------------------------ *)
(* induction principle for the nested inductive [sitem]                *)
Section SItemInd.
Variable P : sitem -> Prop.
Hypothesis HLeaf : forall n, P (SLeaf n).
Hypothesis HStr : forall l, P (SStr l).
Hypothesis HChunked : forall ls, P (SChunked ls).
Hypothesis HArr : forall i xs, Forall P xs -> P (SArr i xs).
Hypothesis HMap : forall i kvs, Forall (fun kv => P (fst kv) /\ P (snd kv)) kvs -> P (SMap i kvs).
Hypothesis HTag : forall v x, P x -> P (STag v x).

Fixpoint sitem_ind' (t : sitem) : P t :=
  match t as t0 return P t0 with
  | SLeaf n => HLeaf n
  | SStr l => HStr l
  | SChunked ls => HChunked ls
  | SArr i xs =>
      HArr i xs
        ((fix go (l : list sitem) : Forall P l :=
            match l as l0 return Forall P l0 with
            | [] => Forall_nil P
            | x :: r => Forall_cons x (sitem_ind' x) (go r)
            end) xs)
  | SMap i kvs =>
      HMap i kvs
        ((fix go (l : list (sitem * sitem)) : Forall (fun kv => P (fst kv) /\ P (snd kv)) l :=
            match l as l0 return Forall (fun kv => P (fst kv) /\ P (snd kv)) l0 with
            | [] => Forall_nil _
            | kv :: r =>
                Forall_cons kv
                  (match kv as p return P (fst p) /\ P (snd p) with
                   | (k, v) => conj (sitem_ind' k) (sitem_ind' v)
                   end) (go r)
            end) kvs)
  | STag v x => HTag v x (sitem_ind' x)
  end.
End SItemInd.

(* ------------------------------------------------------------------ *)
(* wf_s on containers, in Forall form                                  *)
Lemma wf_s_arr i xs : wf_s (SArr i xs) <-> Forall wf_s xs.
Proof.
  set (all := fix all (l : list sitem) : Prop :=
                match l with [] => True | x :: r => wf_s x /\ all r end).
  change (wf_s (SArr i xs)) with (all xs).
  induction xs as [|x r IH].
  - split; [constructor | exact (fun _ => I)].
  - change (all (x :: r)) with (wf_s x /\ all r). rewrite IH.
    split; [intros [A B]; constructor; assumption | intros F; inversion F; split; assumption].
Qed.

Lemma wf_s_map i kvs :
  wf_s (SMap i kvs) <-> Forall (fun kv => wf_s (fst kv) /\ wf_s (snd kv)) kvs.
Proof.
  set (all := fix all (l : list (sitem * sitem)) : Prop :=
                match l with [] => True | kv :: r => wf_s (fst kv) /\ wf_s (snd kv) /\ all r end).
  change (wf_s (SMap i kvs)) with (all kvs).
  induction kvs as [|x r IH].
  - split; [constructor | exact (fun _ => I)].
  - change (all (x :: r)) with (wf_s (fst x) /\ wf_s (snd x) /\ all r). rewrite IH.
    split; [intros (A & B & C); constructor; [split|]; assumption
           | intros F; inversion F as [|? ? [A B] C]; repeat split; assumption].
Qed.

(* unfolding equations *)
Lemma ssize_s_arr i xs :
  ssize_s (SArr i xs) =
  fold_left (fun acc x => ssadd acc (ssize_s x)) xs (if i then 2 else header_size (len xs)).
Proof. reflexivity. Qed.

Lemma ssize_s_map i kvs :
  ssize_s (SMap i kvs) =
  fold_left (fun acc kv => ssadd acc (ssadd (ssize_s (fst kv)) (ssize_s (snd kv)))) kvs
            (if i then 2 else header_size (len kvs)).
Proof. reflexivity. Qed.

Lemma total_s_arr i xs :
  total_s (SArr i xs) = (if i then 2 else header_size (len xs)) + sumN (map total_s xs).
Proof.
  change (total_s (SArr i xs)) with
    ((if i then 2 else header_size (len xs)) + fold_right (fun x acc => total_s x + acc) 0 xs).
  f_equal. induction xs as [|x r IH]; [reflexivity|].
  cbn [map sumN fold_right]. f_equal. exact IH.
Qed.

Lemma total_s_map i kvs :
  total_s (SMap i kvs) =
  (if i then 2 else header_size (len kvs))
  + sumN (map (fun kv => total_s (fst kv) + total_s (snd kv)) kvs).
Proof.
  change (total_s (SMap i kvs)) with
    ((if i then 2 else header_size (len kvs))
     + fold_right (fun kv acc => total_s (fst kv) + total_s (snd kv) + acc) 0 kvs).
  f_equal. induction kvs as [|x r IH]; [reflexivity|].
  cbn [map sumN fold_right]. f_equal. exact IH.
Qed.

Lemma total_s_chunked ls :
  total_s (SChunked ls) = 2 + sumN (map (fun l => header_size l + l) ls).
Proof.
  cbn [total_s]. f_equal. induction ls as [|x r IH]; [reflexivity|].
  cbn [map sumN fold_right]. rewrite IH. reflexivity.
Qed.

(* a definite string of declared length l *)
Lemma defstr_l_eoz l : l < 2 ^ 64 ->
  defstr_size_l l = eoz (header_size l + l) /\ 1 <= header_size l + l.
Proof.
  intros Hd. pose proof (header_size_range l) as Hh.
  split; [|lia]. unfold defstr_size_l. cbv zeta.
  destruct (N.eqb_spec l 0) as [Z|Z].
  - rewrite Z in *. rewrite N.add_0_r. symmetry. apply eoz_small.
    change (2 ^ 64) with 18446744073709551616. lia.
  - rewrite <- ssadd_eoz by lia.
    rewrite (eoz_small l) by exact Hd.
    rewrite eoz_small; [reflexivity|]. change (2 ^ 64) with 18446744073709551616. lia.
Qed.

(* ------------------------------------------------------------------ *)
(* C20 on declared lengths                                             *)
Lemma ssize_s_eoz : forall t, wf_s t -> ssize_s t = eoz (total_s t) /\ 1 <= total_s t.
Proof.
  induction t as [n|l|ls|i xs IH|i kvs IH|v x IH] using sitem_ind'; intros WF.
  - cbn [wf_s] in WF. cbn [ssize_s total_s]. split; [apply small_eoz|]; lia.
  - cbn [wf_s] in WF. cbn [ssize_s total_s]. apply defstr_l_eoz. exact WF.
  - cbn [wf_s] in WF. rewrite total_s_chunked. split; [|lia]. cbn [ssize_s].
    change 2 with (eoz 2) at 1.
    apply (fold_eoz defstr_size_l (fun l => header_size l + l)); [|lia].
    induction WF as [|d r Hd _ IHF]; constructor; [apply defstr_l_eoz; exact Hd | exact IHF].
  - apply wf_s_arr in WF. rewrite ssize_s_arr, total_s_arr.
    assert (FF : Forall (fun x => ssize_s x = eoz (total_s x) /\ 1 <= total_s x) xs).
    { induction IH as [|x r Hx _ IHF]; [constructor|].
      inversion WF as [|? ? W1 W2]; subst. constructor; [exact (Hx W1) | exact (IHF W2)]. }
    pose proof (header_size_range (len xs)) as Hh.
    split; [|destruct i; lia].
    destruct i.
    + change 2 with (eoz 2) at 1.
      apply (fold_eoz ssize_s total_s xs FF). lia.
    + rewrite (small_eoz (header_size (len xs))) at 1 by lia.
      apply (fold_eoz ssize_s total_s xs FF). lia.
  - apply wf_s_map in WF. rewrite ssize_s_map, total_s_map.
    assert (FF : Forall (fun kv => ssadd (ssize_s (fst kv)) (ssize_s (snd kv))
                                   = eoz (total_s (fst kv) + total_s (snd kv))
                                   /\ 1 <= total_s (fst kv) + total_s (snd kv)) kvs).
    { induction IH as [|kv r [I1 I2] _ IHF]; [constructor|].
      inversion WF as [|? ? [W1 W2] W3]; subst. constructor; [|exact (IHF W3)].
      destruct (I1 W1) as [E1 P1]. destruct (I2 W2) as [E2 P2].
      split; [|lia]. rewrite E1, E2. apply ssadd_eoz; assumption. }
    pose proof (header_size_range (len kvs)) as Hh.
    split; [|destruct i; lia].
    destruct i.
    + change 2 with (eoz 2) at 1.
      apply (fold_eoz (fun kv => ssadd (ssize_s (fst kv)) (ssize_s (snd kv)))
                      (fun kv => total_s (fst kv) + total_s (snd kv)) kvs FF). lia.
    + rewrite (small_eoz (header_size (len kvs))) at 1 by lia.
      apply (fold_eoz (fun kv => ssadd (ssize_s (fst kv)) (ssize_s (snd kv)))
                      (fun kv => total_s (fst kv) + total_s (snd kv)) kvs FF). lia.
  - cbn [wf_s] in WF. destruct (IH WF) as [E Px]. cbn [ssize_s total_s].
    pose proof (header_size_range v) as Hh. split; [|lia].
    rewrite E. rewrite (small_eoz (header_size v)) at 1 by lia.
    apply ssadd_eoz; [lia | exact Px].
Qed.

Theorem ssize_s_exact_or_zero : forall t, wf_s t ->
  ssize_s t = if total_s t <? 2 ^ 64 then total_s t else 0.
Proof. intros t WF. exact (proj1 (ssize_s_eoz t WF)). Qed.

Corollary ssize_s_zero_iff_overflow : forall t, wf_s t ->
  (ssize_s t = 0 <-> 2 ^ 64 <= total_s t).
Proof.
  intros t WF. destruct (ssize_s_eoz t WF) as [E Pt]. rewrite E. unfold eoz.
  destruct (N.ltb_spec (total_s t) (2 ^ 64)); split; intros; lia.
Qed.

(* ------------------------------------------------------------------ *)
(* agreement with the item model through [shape]                       *)
Lemma fold_left_map {X Y A} (f : A -> Y -> A) (g : X -> Y) xs : forall a,
  fold_left f (map g xs) a = fold_left (fun acc x => f acc (g x)) xs a.
Proof. induction xs as [|x r IH]; intros a; [reflexivity|]. cbn [map fold_left]. apply IH. Qed.

Lemma fold_left_ext_in {X A} (f g : A -> X -> A) xs :
  Forall (fun x => forall a, f a x = g a x) xs -> forall a, fold_left f xs a = fold_left g xs a.
Proof.
  induction 1 as [|x r Hx _ IH]; intros a; [reflexivity|].
  cbn [fold_left]. rewrite Hx. apply IH.
Qed.

Lemma len_map {X Y} (g : X -> Y) xs : len (map g xs) = len xs.
Proof. unfold len. rewrite map_length. reflexivity. Qed.

Theorem ssize_shape : forall t, ssize t = ssize_s (shape t).
Proof.
  induction t as [w v|w v|d|cs|d|cs|i xs IH|i kvs IH|v x IH|v|w b] using item_ind'.
  - reflexivity.
  - reflexivity.
  - reflexivity.
  - cbn [ssize shape ssize_s]. rewrite fold_left_map. reflexivity.
  - reflexivity.
  - cbn [ssize shape ssize_s]. rewrite fold_left_map. reflexivity.
  - rewrite ssize_array. cbn [shape]. rewrite ssize_s_arr, fold_left_map, len_map.
    apply fold_left_ext_in.
    induction IH as [|x r Hx _ IHF]; constructor; [intros a; rewrite Hx; reflexivity | exact IHF].
  - rewrite ssize_map. cbn [shape]. rewrite ssize_s_map, fold_left_map, len_map.
    apply fold_left_ext_in.
    induction IH as [|kv r [H1 H2] _ IHF]; constructor; [|exact IHF].
    intros a. cbn [fst snd]. rewrite H1, H2. reflexivity.
  - cbn [ssize shape ssize_s]. rewrite IH. reflexivity.
  - reflexivity.
  - destruct w; reflexivity.
Qed.

Theorem wf_shape : forall t, wf_item t -> wf_s (shape t).
Proof.
  induction t as [w v|w v|d|cs|d|cs|i xs IH|i kvs IH|v x IH|v|w b] using item_ind'; intros WF.
  - cbn [shape wf_s]. pose proof (int_size_le9 w v).
    destruct w; cbn [int_size] in *; [destruct (v <=? 23)|..]; lia.
  - cbn [shape wf_s]. pose proof (int_size_le9 w v).
    destruct w; cbn [int_size] in *; [destruct (v <=? 23)|..]; lia.
  - cbn [wf_item] in WF. cbn [shape wf_s]. apply WF.
  - cbn [wf_item] in WF. destruct WF as [F _]. cbn [shape wf_s].
    induction F as [|d r [_ Hd] _ IHF]; cbn [map]; constructor; assumption.
  - cbn [wf_item] in WF. cbn [shape wf_s]. apply WF.
  - cbn [wf_item] in WF. destruct WF as [F _]. cbn [shape wf_s].
    induction F as [|d r [_ Hd] _ IHF]; cbn [map]; constructor; assumption.
  - apply wf_array in WF. destruct WF as [F _]. cbn [shape]. apply wf_s_arr.
    induction IH as [|x r Hx _ IHF]; cbn [map]; [constructor|].
    inversion F as [|? ? W1 W2]; subst. constructor; [exact (Hx W1) | exact (IHF W2)].
  - apply wf_map in WF. destruct WF as [F _]. cbn [shape]. apply wf_s_map.
    induction IH as [|kv r [H1 H2] _ IHF]; cbn [map]; [constructor|].
    inversion F as [|? ? [W1 W2] W3]; subst. constructor; [|exact (IHF W3)].
    cbn [fst snd]. split; [exact (H1 W1) | exact (H2 W2)].
  - cbn [wf_item] in WF. destruct WF as [_ Wx]. cbn [shape wf_s]. exact (IH Wx).
  - cbn [shape wf_s]. apply header_size_range.
  - destruct w; cbn [shape wf_s]; lia.
Qed.

Lemma sumN_map_map {X Y} (g : X -> Y) (h : Y -> N) xs :
  sumN (map h (map g xs)) = sumN (map (fun x => h (g x)) xs).
Proof. rewrite map_map. reflexivity. Qed.

Lemma sumN_ext_in {X} (f g : X -> N) xs :
  Forall (fun x => f x = g x) xs -> sumN (map f xs) = sumN (map g xs).
Proof.
  induction 1 as [|x r Hx _ IH]; [reflexivity|].
  cbn [map sumN fold_right]. rewrite Hx. f_equal. exact IH.
Qed.

Theorem total_shape : forall t, wf_item t -> total_s (shape t) = len (encode_rfc t).
Proof.
  induction t as [w v|w v|d|cs|d|cs|i xs IH|i kvs IH|v x IH|v|w b] using item_ind'; intros WF.
  - cbn [shape total_s encode_rfc]. apply int_size_len.
  - cbn [shape total_s encode_rfc]. apply int_size_len.
  - cbn [shape total_s encode_rfc]. rewrite len_app, <- header_size_head. reflexivity.
  - cbn [shape encode_rfc]. rewrite total_s_chunked, sumN_map_map.
    cbn [app]. rewrite len_cons, len_app, len_cons, len_nil, len_concat_map.
    rewrite (sumN_ext_in (fun x => header_size (len x) + len x)
                         (fun x => len (SpecItem.head 2 (len x) ++ x)) cs); [lia|].
    clear. induction cs as [|c r IH]; constructor; [|exact IH].
    rewrite len_app, <- header_size_head. reflexivity.
  - cbn [shape total_s encode_rfc]. rewrite len_app, <- header_size_head. reflexivity.
  - cbn [shape encode_rfc]. rewrite total_s_chunked, sumN_map_map.
    cbn [app]. rewrite len_cons, len_app, len_cons, len_nil, len_concat_map.
    rewrite (sumN_ext_in (fun x => header_size (len x) + len x)
                         (fun x => len (SpecItem.head 3 (len x) ++ x)) cs); [lia|].
    clear. induction cs as [|c r IH]; constructor; [|exact IH].
    rewrite len_app, <- header_size_head. reflexivity.
  - apply wf_array in WF. destruct WF as [F _]. cbn [shape].
    rewrite total_s_arr, enc_array, sumN_map_map, len_map.
    assert (E : sumN (map (fun x => total_s (shape x)) xs)
                = sumN (map (fun x => len (encode_rfc x)) xs)).
    { apply sumN_ext_in. induction IH as [|x r Hx _ IHF]; [constructor|].
      inversion F as [|? ? W1 W2]; subst. constructor; [exact (Hx W1) | exact (IHF W2)]. }
    rewrite E. destruct i.
    + cbn [app]. rewrite len_cons, len_app, len_cons, len_nil, len_concat_map. lia.
    + rewrite len_app, <- header_size_head, len_concat_map. reflexivity.
  - apply wf_map in WF. destruct WF as [F _]. cbn [shape].
    rewrite total_s_map, enc_map, sumN_map_map, len_map.
    assert (E : sumN (map (fun kv => total_s (fst (shape (fst kv), shape (snd kv)))
                                     + total_s (snd (shape (fst kv), shape (snd kv)))) kvs)
                = sumN (map (fun kv => len (encode_rfc (fst kv) ++ encode_rfc (snd kv))) kvs)).
    { apply sumN_ext_in. induction IH as [|kv r [H1 H2] _ IHF]; [constructor|].
      inversion F as [|? ? [W1 W2] W3]; subst. constructor; [|exact (IHF W3)].
      cbn [fst snd]. rewrite len_app, (H1 W1), (H2 W2). reflexivity. }
    rewrite E. destruct i.
    + cbn [app]. rewrite len_cons, len_app, len_cons, len_nil, len_concat_map. lia.
    + rewrite len_app, <- header_size_head, len_concat_map. reflexivity.
  - cbn [wf_item] in WF. destruct WF as [_ Wx]. cbn [shape total_s encode_rfc].
    rewrite len_app, <- header_size_head, (IH Wx). reflexivity.
  - cbn [wf_item] in WF. cbn [shape total_s encode_rfc]. unfold header_size.
    destruct (N.ltb_spec v 24); destruct (N.leb_spec v 23); try lia; [reflexivity|].
    destruct (N.leb_spec v 255); [reflexivity | lia].
  - destruct w; cbn [shape total_s encode_rfc]; rewrite len_cons_be; reflexivity.
Qed.

(* the item-level theorem PMem_proofs.ssize_exact_or_zero is the instance at [shape t] *)
Corollary ssize_exact_or_zero_via_shape : forall t, wf_item t ->
  ssize t = if len (encode_rfc t) <? 2 ^ 64 then len (encode_rfc t) else 0.
Proof.
  intros t WF. rewrite ssize_shape, (ssize_s_exact_or_zero _ (wf_shape t WF)), (total_shape t WF).
  reflexivity.
Qed.

(* ------------------------------------------------------------------ *)
(* examples (forged declared lengths, as in the library's own overflow tests) *)

(* key and value each fit (2^63 + 9 bytes), their sum does not *)
Example map_pair_sum_wraps :
  ssize_s (SStr (2 ^ 63)) = 2 ^ 63 + 9 /\
  ssize_s (SMap false [(SStr (2 ^ 63), SStr (2 ^ 63))]) = 0 /\
  (total_s (SMap false [(SStr (2 ^ 63), SStr (2 ^ 63))]) <? 2 ^ 64) = false.
Proof. vm_compute. repeat split; reflexivity. Qed.

(* header 1 + key (9 + 2^64-20) + value 1 = 2^64 - 9 fits; with two more 9-byte leaves it does not *)
Example map_key_near_max :
  ssize_s (SStr (2 ^ 64 - 20)) = 2 ^ 64 - 11 /\
  ssize_s (SMap false [(SStr (2 ^ 64 - 20), SLeaf 1)]) = 2 ^ 64 - 9 /\
  ssize_s (SMap false [(SStr (2 ^ 64 - 20), SLeaf 9); (SLeaf 9, SLeaf 9)]) = 0.
Proof. vm_compute. repeat split; reflexivity. Qed.

Example small_tree_exact :
  ssize_s (SMap true [(SLeaf 1, SArr false [SStr 5; SLeaf 9; STag 1000 (SChunked [3; 0; 300])])]) = 332 /\
  total_s (SMap true [(SLeaf 1, SArr false [SStr 5; SLeaf 9; STag 1000 (SChunked [3; 0; 300])])]) = 332.
Proof. vm_compute. split; reflexivity. Qed.

Print Assumptions ssize_s_exact_or_zero.
Print Assumptions ssize_s_zero_iff_overflow.
Print Assumptions ssize_shape.
Print Assumptions wf_shape.
Print Assumptions total_shape.
