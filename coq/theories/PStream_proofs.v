From CB Require Import Word Word_proofs PStream SpecHead PRun PEnc SpecItem.
(* C08: one call of the streaming decoder against the RFC 8949 head specification;
   prefix independence of FINISHED results; payload slices. *)
From Coq Require Import Lia ZArith ZifyBool ZifyN ZifyNat.
Local Open Scope N_scope.
Ltac Zify.zify_post_hook ::= Z.div_mod_to_equations.

#[local] Arguments N.pow : simpl never.
#[local] Arguments N.div : simpl never.
#[local] Arguments N.modulo : simpl never.
#[local] Arguments N.mul : simpl never.
#[local] Arguments N.add : simpl never.
#[local] Arguments N.sub : simpl never.

(* destruct every [if] test of the goal, discarding impossible combinations with lia *)
Ltac ifs :=
  repeat match goal with
  | |- context [if ?c then _ else _] =>
      lazymatch c with
      | context [if _ then _ else _] => fail
      | _ => destruct c eqn:?; try (exfalso; lia)
      end
  end.

(* ------------------------------------------------------------------------------------ *)
(* 1. head_spec in factored form                                                         *)

Definition hbad (mt ai : N) : bool :=
  ((28 <=? ai) && (ai <=? 30))
  || ((ai =? 31) && ((mt =? 0) || (mt =? 1) || (mt =? 6)))
  || ((mt =? 7) && ((ai <? 20) || (ai =? 24))).

(* what follows the argument: [pay] = the bytes after the argument *)
Definition hs_tail (mt ai arg : N) (pay : list N) : hres :=
  let hl := 1 + arg_bytes ai in
  if mt =? 0 then HTok (TUint (iwidth_of ai) arg) hl
  else if mt =? 1 then HTok (TNegint (iwidth_of ai) arg) hl
  else if (mt =? 2) || (mt =? 3) then
    if ai =? 31 then HTok (if mt =? 2 then TBytesStart else TTextStart) 1
    else if len pay <? arg then HNeed (hl + arg)
    else let data := firstnN arg pay in
         HTok (if mt =? 2 then TBytes hl data else TText hl data) (hl + arg)
  else if mt =? 4 then (if ai =? 31 then HTok TArrayStart 1 else HTok (TArray arg) hl)
  else if mt =? 5 then (if ai =? 31 then HTok TMapStart 1 else HTok (TMap arg) hl)
  else if mt =? 6 then HTok (TTag arg) hl
  else
    if ai =? 20 then HTok (TBool false) 1
    else if ai =? 21 then HTok (TBool true) 1
    else if ai =? 22 then HTok TNull 1
    else if ai =? 23 then HTok TUndef 1
    else if ai =? 25 then HTok (TFloat F16 (decode_half arg)) hl
    else if ai =? 26 then HTok (TFloat F32 (canon32 arg)) hl
    else if ai =? 27 then HTok (TFloat F64 (canon64 arg)) hl
    else HTok TBreak 1.

Definition hs_body (mt ai : N) (rest : list N) : hres :=
  if hbad mt ai then HBad else
  let k := arg_bytes ai in
  if len rest <? k then HNeed (1 + k) else
  hs_tail mt ai (if ai <? 24 then ai else be_val (firstnN k rest)) (skipnN k rest).

Lemma head_spec_cons b rest : head_spec (b :: rest) = hs_body (b / 32) (b mod 32) rest.
Proof.
  unfold head_spec, hs_body, hbad, hs_tail.
  destruct ((28 <=? b mod 32) && (b mod 32 <=? 30)); [reflexivity|].
  destruct ((b mod 32 =? 31) && ((b / 32 =? 0) || (b / 32 =? 1) || (b / 32 =? 6))); [reflexivity|].
  destruct ((b / 32 =? 7) && ((b mod 32 <? 20) || (b mod 32 =? 24))); [reflexivity|].
  cbn [orb]. rewrite len_skipnN. reflexivity.
Qed.

(* ------------------------------------------------------------------------------------ *)
(* 2. the switch of the decoder, re-derived from the RFC fields                           *)

Definition int_cb (mt ai : N) : cbid :=
  if mt =? 0 then
    match iwidth_of ai with I8 => cb_uint8 | I16 => cb_uint16 | I32 => cb_uint32 | I64 => cb_uint64 end
  else if mt =? 1 then
    match iwidth_of ai with I8 => cb_negint8 | I16 => cb_negint16 | I32 => cb_negint32 | I64 => cb_negint64 end
  else if mt =? 4 then cb_array_start
  else if mt =? 5 then cb_map_start
  else cb_tag.

Definition str_cb (mt : N) : cbid := if mt =? 2 then cb_byte_string else cb_string.

Definition spec_action (mt ai : N) : action :=
  if hbad mt ai then AErr else
  if (mt =? 2) || (mt =? 3) then
    if ai <? 24 then AStrImm (str_cb mt) (mt * 32)
    else if ai =? 31 then ANoArg (if mt =? 2 then cb_byte_string_start else cb_string_start)
    else AStrArg (str_cb mt) (arg_bytes ai)
  else if mt =? 7 then
    if ai =? 20 then ABool false
    else if ai =? 21 then ABool true
    else if ai =? 22 then ANoArg cb_null
    else if ai =? 23 then ANoArg cb_undefined
    else if ai =? 25 then AFloat cb_float2 2
    else if ai =? 26 then AFloat cb_float4 4
    else if ai =? 27 then AFloat cb_float8 8
    else ANoArg cb_indef_break
  else
    if ai <? 24 then AImm (int_cb mt ai) (mt * 32)
    else if ai =? 31 then ANoArg (if mt =? 4 then cb_indef_array_start else cb_indef_map_start)
    else AArg (int_cb mt ai) (arg_bytes ai).

Definition cb_code (c : cbid) : N :=
  match c with
  | cb_uint8 => 0 | cb_uint16 => 1 | cb_uint32 => 2 | cb_uint64 => 3
  | cb_negint8 => 4 | cb_negint16 => 5 | cb_negint32 => 6 | cb_negint64 => 7
  | cb_byte_string => 8 | cb_byte_string_start => 9 | cb_string => 10 | cb_string_start => 11
  | cb_array_start => 12 | cb_indef_array_start => 13 | cb_map_start => 14 | cb_indef_map_start => 15
  | cb_tag => 16 | cb_float2 => 17 | cb_float4 => 18 | cb_float8 => 19
  | cb_undefined => 20 | cb_null => 21 | cb_boolean => 22 | cb_indef_break => 23
  end.
Lemma cb_code_inj c d : cb_code c =? cb_code d = true -> c = d.
Proof. destruct c, d; intros H; try reflexivity; discriminate H. Qed.

Definition act_eqb (a a' : action) : bool :=
  match a, a' with
  | AErr, AErr => true
  | AImm c s, AImm c' s' | AArg c s, AArg c' s' | AStrImm c s, AStrImm c' s'
  | AStrArg c s, AStrArg c' s' | AFloat c s, AFloat c' s' => (cb_code c =? cb_code c') && (s =? s')
  | ANoArg c, ANoArg c' => cb_code c =? cb_code c'
  | ABool v, ABool v' => Bool.eqb v v'
  | _, _ => false
  end.
Lemma act_eqb_eq a a' : act_eqb a a' = true -> a = a'.
Proof.
  destruct a, a'; cbn [act_eqb]; intros H; try discriminate H; try reflexivity;
    try (apply andb_prop in H; destruct H as [H1 H2]; apply cb_code_inj in H1; apply N.eqb_eq in H2;
         subst; reflexivity).
  - apply cb_code_inj in H. subst. reflexivity.
  - apply Bool.eqb_prop in H. subst. reflexivity.
Qed.

(* the sweep over the 256 initial bytes *)
Lemma dispatch_sweep :
  allb 8 (fun b => act_eqb (dispatch b) (spec_action (b / 32) (b mod 32))) 0 = true.
Proof. vm_compute. reflexivity. Qed.

Lemma dispatch_spec b : b < 256 -> dispatch b = spec_action (b / 32) (b mod 32).
Proof. intros Hb. apply act_eqb_eq. exact (allb8_forall _ dispatch_sweep b Hb). Qed.

(* ------------------------------------------------------------------------------------ *)
(* 3. the head specification indexed by the decoder's action                             *)

Definition itok (cb : cbid) (v : N) : tok :=
  match cb with
  | cb_uint8 => TUint I8 v | cb_uint16 => TUint I16 v | cb_uint32 => TUint I32 v | cb_uint64 => TUint I64 v
  | cb_negint8 => TNegint I8 v | cb_negint16 => TNegint I16 v
  | cb_negint32 => TNegint I32 v | cb_negint64 => TNegint I64 v
  | cb_array_start => TArray v | cb_map_start => TMap v | cb_tag => TTag v
  | _ => TNull
  end.
Definition stok (cb : cbid) (off : N) (data : list N) : tok :=
  match cb with cb_byte_string => TBytes off data | _ => TText off data end.
Definition ntok (cb : cbid) : tok := match noarg_tok cb with Some t => t | None => TNull end.
Definition ftok (cb : cbid) (v : N) : tok :=
  match cb with
  | cb_float2 => TFloat F16 (decode_half v)
  | cb_float4 => TFloat F32 (canon32 v)
  | _ => TFloat F64 (canon64 v)
  end.

Definition str_spec (cb : cbid) (k arg : N) (rest : list N) : hres :=
  if len rest - k <? arg then HNeed (1 + k + arg)
  else HTok (stok cb (1 + k) (firstnN arg (skipnN k rest))) (1 + k + arg).

Definition spec_act (a : action) (b : N) (rest : list N) : hres :=
  match a with
  | AErr => HBad
  | AImm cb sub => HTok (itok cb (b - sub)) 1
  | AArg cb k => if len rest <? k then HNeed (1 + k) else HTok (itok cb (be_val (firstnN k rest))) (1 + k)
  | AStrImm cb sub => str_spec cb 0 (b - sub) rest
  | AStrArg cb k => if len rest <? k then HNeed (1 + k) else str_spec cb k (be_val (firstnN k rest)) rest
  | ANoArg cb => HTok (ntok cb) 1
  | ABool v => HTok (TBool v) 1
  | AFloat cb k => if len rest <? k then HNeed (1 + k) else HTok (ftok cb (be_val (firstnN k rest))) (1 + k)
  end.

Lemma hs_body_act mt ai b rest : mt < 8 -> ai < 32 -> b = mt * 32 + ai ->
  hs_body mt ai rest = spec_act (spec_action mt ai) b rest.
Proof.
  intros Hmt Hai Hb.
  unfold hs_body, spec_action.
  destruct (hbad mt ai) eqn:Hbad; [reflexivity|].
  unfold hbad in Hbad.
  unfold hs_tail, int_cb, str_cb, iwidth_of, arg_bytes, str_spec, spec_act.
  rewrite len_skipnN.
  ifs.
  all: try reflexivity.
  all: cbn [spec_act itok stok ftok ntok noarg_tok]; unfold str_spec.
  all: try replace (b - mt * 32) with ai by lia.
  all: ifs; reflexivity.
Qed.

Theorem head_spec_act b rest : b < 256 -> head_spec (b :: rest) = spec_act (dispatch b) b rest.
Proof.
  intros Hb. rewrite head_spec_cons, dispatch_spec by exact Hb.
  apply hs_body_act; lia.
Qed.

(* ------------------------------------------------------------------------------------ *)
(* 4. side conditions on the actions of the switch (second sweep)                        *)

Definition int_bound (cb : cbid) : N :=
  match cb with
  | cb_uint8 | cb_negint8 => 2 ^ 8
  | cb_uint16 | cb_negint16 => 2 ^ 16
  | cb_uint32 | cb_negint32 => 2 ^ 32
  | cb_uint64 | cb_negint64 | cb_array_start | cb_map_start | cb_tag => 2 ^ 64
  | _ => 0
  end.
Definition is_str (cb : cbid) : bool :=
  match cb with cb_byte_string | cb_string => true | _ => false end.
Definition is_float (cb : cbid) : bool :=
  match cb with cb_float2 | cb_float4 | cb_float8 => true | _ => false end.
Definition is_noarg (cb : cbid) : bool :=
  match noarg_tok cb with Some _ => true | None => false end.
Definition small_k (k : N) : bool := (1 <=? k) && (k <=? 8).

Definition act_wf (a : action) (b : N) : bool :=
  match a with
  | AErr => true
  | AImm cb sub => (sub <=? b) && (b - sub <? 24) && (2 ^ 8 <=? int_bound cb)
  | AArg cb k => small_k k && (256 ^ k <=? int_bound cb)
  | AStrImm cb sub => (sub <=? b) && is_str cb
  | AStrArg cb k => small_k k && is_str cb
  | ANoArg cb => is_noarg cb
  | ABool _ => true
  | AFloat cb k => small_k k && is_float cb
  end.

Lemma act_wf_sweep : allb 8 (fun b => act_wf (dispatch b) b) 0 = true.
Proof. vm_compute. reflexivity. Qed.
Lemma dispatch_wf b : b < 256 -> act_wf (dispatch b) b = true.
Proof. intros Hb. exact (allb8_forall _ act_wf_sweep b Hb). Qed.

Lemma int_tok_itok cb v : v < int_bound cb -> int_tok cb v = Some (itok cb v).
Proof.
  destruct cb; cbn [int_bound int_tok itok]; intros H; try lia;
    rewrite N.mod_small by exact H; reflexivity.
Qed.
Lemma str_tok_stok cb off d : is_str cb = true -> str_tok cb off d = Some (stok cb off d).
Proof. destruct cb; cbn [is_str]; intros H; try discriminate H; reflexivity. Qed.
Lemma float_tok_ftok cb v : is_float cb = true -> float_tok cb v = Some (ftok cb v).
Proof. destruct cb; cbn [is_float]; intros H; try discriminate H; reflexivity. Qed.
Lemma noarg_tok_ntok cb : is_noarg cb = true -> noarg_tok cb = Some (ntok cb).
Proof. unfold is_noarg, ntok. destruct (noarg_tok cb); intros H; [reflexivity|discriminate H]. Qed.

(* ------------------------------------------------------------------------------------ *)
(* 5. claim_bytes, rd_bytes                                                              *)

Lemma W64_num : W64 = 18446744073709551616. Proof. reflexivity. Qed.
Lemma SIZE_MAX_num : SIZE_MAX = 18446744073709551615. Proof. reflexivity. Qed.

Lemma claim_ok required provided r :
  rd r <= provided -> provided < W64 -> required <= provided - rd r ->
  claim_bytes required provided r = (true, mkdres (st r) (rd r + required) 0).
Proof.
  intros H1 H2 H3. unfold claim_bytes. rewrite sub64_le by exact H1.
  destruct (provided - rd r <? required) eqn:E; [lia|].
  rewrite wrap64_small by lia. reflexivity.
Qed.

Lemma claim_need required provided r :
  rd r <= provided -> provided - rd r < required ->
  claim_bytes required provided r = (false, mkdres Nedata 0 (sat_add64 required (rd r))).
Proof.
  intros H1 H3. unfold claim_bytes. rewrite sub64_le by exact H1.
  destruct (provided - rd r <? required) eqn:E; [reflexivity|lia].
Qed.

Lemma sat_add64_props a b p :
  b <= p -> p - b < a -> p < SIZE_MAX ->
  p < sat_add64 a b /\ sat_add64 a b <= a + b /\ sat_add64 a b <= SIZE_MAX.
Proof.
  intros H1 H2 H3. unfold sat_add64. rewrite SIZE_MAX_num in *.
  destruct (18446744073709551615 - b <? a) eqn:E; lia.
Qed.

Lemma sat_add64_small a b : a + b <= SIZE_MAX -> sat_add64 a b = a + b.
Proof.
  intros H. unfold sat_add64. rewrite SIZE_MAX_num in *.
  destruct (18446744073709551615 - b <? a) eqn:E; lia.
Qed.

Lemma skipnN_cons e b (rest : list N) : skipnN (1 + e) (b :: rest) = skipnN e rest.
Proof. unfold skipnN. replace (N.to_nat (1 + e)) with (S (N.to_nat e)) by lia. reflexivity. Qed.

Lemma firstnN_cons n b (rest : list N) : 1 <= n -> firstnN n (b :: rest) = b :: firstnN (n - 1) rest.
Proof. intros H. unfold firstnN. replace (N.to_nat n) with (S (N.to_nat (n - 1))) by lia. reflexivity. Qed.

Lemma rd_bytes_cons b rest e k :
  e + k <= len rest -> rd_bytes (b :: rest) (1 + e) k = Some (firstnN k (skipnN e rest)).
Proof.
  intros H. unfold rd_bytes. rewrite len_cons, skipnN_cons.
  destruct (1 + e + k <=? len rest + 1) eqn:E; [reflexivity|lia].
Qed.
Lemma rd_bytes_cons1 b rest k :
  k <= len rest -> rd_bytes (b :: rest) 1 k = Some (firstnN k rest).
Proof. intros H. change 1 with (1 + 0) at 1. rewrite rd_bytes_cons by lia. reflexivity. Qed.

(* ------------------------------------------------------------------------------------ *)
(* 6. the contract, action by action                                                     *)

Definition cw (l : N) (h : hres) (s : sres) : Prop :=
  match h with
  | HTok t n => s = SRes (mkdres Finished n 0) (Some t)
  | HNeed full => exists req, s = SRes (mkdres Nedata 0 req) None /\ l < req /\ req <= full /\ req <= SIZE_MAX
  | HBad => s = SRes (mkdres DError 0 0) None
  end.

Lemma contract_cw buf : contract buf <-> cw (len buf) (head_spec buf) (stream_decode buf).
Proof. unfold contract, cw. destruct (head_spec buf); reflexivity. Qed.

(* the body of cbor_stream_decode after the first claim *)
Definition sd_act (a : action) (b : N) (buf : list N) : sres :=
  let r1 := mkdres Finished 1 0 in
  match a with
  | AErr => SRes (mkdres DError 0 0) None
  | AImm cb sub => opt_res r1 (int_tok cb (b + W64 - sub))
  | AArg cb k =>
      let (ok, r2) := claim_bytes k (len buf) r1 in
      if ok then
        match rd_bytes buf 1 k with
        | Some a => opt_res r2 (int_tok cb (be_val a))
        | None => SFault
        end
      else SRes r2 None
  | AStrImm cb sub => claim_and_invoke cb (wrap64 (b + W64 - sub)) 0 buf r1
  | AStrArg cb k =>
      let (ok, r2) := claim_bytes k (len buf) r1 in
      if ok then
        match rd_bytes buf 1 k with
        | Some a => claim_and_invoke cb (be_val a) k buf r2
        | None => SFault
        end
      else SRes r2 None
  | ANoArg cb => opt_res r1 (noarg_tok cb)
  | ABool v => SRes r1 (Some (TBool v))
  | AFloat cb k =>
      let (ok, r2) := claim_bytes k (len buf) r1 in
      if ok then
        match rd_bytes buf 1 k with
        | Some a => opt_res r2 (float_tok cb (be_val a))
        | None => SFault
        end
      else SRes r2 None
  end.

Lemma stream_decode_cons b rest : len rest + 1 < W64 ->
  stream_decode (b :: rest) = sd_act (dispatch b) b (b :: rest).
Proof.
  intros H. unfold stream_decode.
  rewrite claim_ok; cbn [rd st]; [|rewrite len_cons; lia ..].
  cbn [negb]. reflexivity.
Qed.

Lemma claim_k b (rest : list N) k : small_k k = true -> len rest + 1 < SIZE_MAX ->
  claim_bytes k (len (b :: rest)) (mkdres Finished 1 0) =
  if len rest <? k then (false, mkdres Nedata 0 (1 + k)) else (true, mkdres Finished (1 + k) 0).
Proof.
  unfold small_k. rewrite SIZE_MAX_num. intros Hk Hl. rewrite len_cons.
  destruct (len rest <? k) eqn:E.
  - rewrite claim_need; cbn [rd st]; try lia.
    rewrite sat_add64_small by (rewrite SIZE_MAX_num; lia). f_equal. f_equal. lia.
  - rewrite claim_ok; cbn [rd st]; try (rewrite ?W64_num; lia). reflexivity.
Qed.

Lemma cai_cw cb length extra b rest :
  is_str cb = true -> extra <= len rest -> len rest + 1 < SIZE_MAX ->
  cw (len rest + 1) (str_spec cb extra length rest)
     (claim_and_invoke cb length extra (b :: rest) (mkdres Finished (1 + extra) 0)).
Proof.
  intros Hs He Hl. unfold claim_and_invoke, str_spec. rewrite len_cons.
  destruct (len rest - extra <? length) eqn:E.
  - rewrite claim_need; cbn [rd st]; try lia.
    cbn [cw]. exists (sat_add64 length (1 + extra)). split; [reflexivity|].
    pose proof (sat_add64_props length (1 + extra) (len rest + 1)). lia.
  - rewrite SIZE_MAX_num in Hl.
    rewrite claim_ok; cbn [rd st]; try (rewrite ?W64_num; lia).
    rewrite rd_bytes_cons by lia. rewrite str_tok_stok by exact Hs.
    cbn [opt_res cw]. reflexivity.
Qed.

Lemma int_tok_imm cb b sub :
  sub <= b -> b - sub < 24 -> 2 ^ 8 <= int_bound cb ->
  int_tok cb (b + W64 - sub) = Some (itok cb (b - sub)).
Proof.
  intros H1 H2 H3. rewrite W64_num.
  destruct cb; cbn [int_bound] in H3; try (exfalso; lia); cbn [int_tok itok]; do 2 f_equal.
  all: lia.
Qed.

Lemma be_val_firstnN_bound k rest :
  bytes_ok rest -> k <= len rest -> be_val (firstnN k rest) < 256 ^ k.
Proof.
  intros Hok Hk. pose proof (be_val_bound (firstnN k rest) (bytes_ok_firstn k rest Hok)) as H.
  rewrite len_firstnN in H by exact Hk. exact H.
Qed.

Lemma sd_act_cw a b rest :
  act_wf a b = true -> b < 256 -> bytes_ok rest -> len rest + 1 < SIZE_MAX ->
  cw (len rest + 1) (spec_act a b rest) (sd_act a b (b :: rest)).
Proof.
  intros Hwf Hb Hok Hl.
  destruct a as [|cb sub|cb k|cb sub|cb k|cb|v|cb k]; cbn [act_wf] in Hwf; cbn [spec_act sd_act].
  - reflexivity.
  - rewrite int_tok_imm by lia. reflexivity.
  - apply andb_prop in Hwf. destruct Hwf as [Hk Hbd].
    rewrite claim_k by assumption.
    destruct (len rest <? k) eqn:E.
    + cbn [cw]. exists (1 + k). unfold small_k in Hk. rewrite SIZE_MAX_num in *. repeat split; lia.
    + rewrite rd_bytes_cons1 by lia.
      rewrite int_tok_itok.
      * reflexivity.
      * apply N.leb_le in Hbd. apply N.ltb_ge in E.
        eapply N.lt_le_trans; [apply (be_val_firstnN_bound k rest Hok E)|exact Hbd].
  - apply andb_prop in Hwf. destruct Hwf as [Hs Hc].
    replace (wrap64 (b + W64 - sub)) with (b - sub).
    + apply (cai_cw cb (b - sub) 0 b rest Hc); lia.
    + unfold wrap64. rewrite W64_num. lia.
  - apply andb_prop in Hwf. destruct Hwf as [Hk Hc].
    rewrite claim_k by assumption.
    destruct (len rest <? k) eqn:E.
    + cbn [cw]. exists (1 + k). unfold small_k in Hk. rewrite SIZE_MAX_num in *. repeat split; lia.
    + rewrite rd_bytes_cons1 by lia.
      apply (cai_cw cb _ k b rest Hc); lia.
  - rewrite noarg_tok_ntok by exact Hwf. reflexivity.
  - reflexivity.
  - apply andb_prop in Hwf. destruct Hwf as [Hk Hc].
    rewrite claim_k by assumption.
    destruct (len rest <? k) eqn:E.
    + cbn [cw]. exists (1 + k). unfold small_k in Hk. rewrite SIZE_MAX_num in *. repeat split; lia.
    + rewrite rd_bytes_cons1 by lia.
      rewrite float_tok_ftok by exact Hc. reflexivity.
Qed.

Theorem C08_contract : forall buf, bytes_ok buf -> len buf < SIZE_MAX -> contract buf.
Proof.
  intros buf Hok Hl. apply contract_cw.
  destruct buf as [|b rest].
  - cbn [head_spec cw]. exists 1. split; [reflexivity|].
    rewrite len_nil, SIZE_MAX_num. lia.
  - inversion Hok as [|? ? Hb Hrest]; subst.
    rewrite len_cons in *.
    rewrite head_spec_act by exact Hb.
    rewrite stream_decode_cons by (rewrite W64_num; rewrite SIZE_MAX_num in Hl; lia).
    apply sd_act_cw; [apply dispatch_wf; exact Hb | exact Hb | exact Hrest | exact Hl].
Qed.

Corollary C08_no_fault : forall buf, bytes_ok buf -> len buf < SIZE_MAX -> stream_decode buf <> SFault.
Proof.
  intros buf Hok Hl. pose proof (C08_contract buf Hok Hl) as H. unfold contract in H.
  destruct (head_spec buf); [| destruct H as [r [H _]] |]; rewrite H; discriminate.
Qed.

Corollary decode_of_spec : forall buf t n, bytes_ok buf -> len buf < SIZE_MAX ->
  head_spec buf = HTok t n -> stream_decode buf = SRes (mkdres Finished n 0) (Some t).
Proof.
  intros buf t n Hok Hl Hs. pose proof (C08_contract buf Hok Hl) as H. unfold contract in H.
  rewrite Hs in H. exact H.
Qed.

(* ------------------------------------------------------------------------------------ *)
(* 7. a FINISHED head does not depend on the bytes beyond [read]                         *)

Lemma firstnN_firstnN k m (l : list N) : k <= m -> firstnN k (firstnN m l) = firstnN k l.
Proof. intros H. unfold firstnN. rewrite firstn_firstn. f_equal. lia. Qed.

Lemma firstnN_skipnN_comm a k (l : list N) : firstnN a (skipnN k l) = skipnN k (firstnN (k + a) l).
Proof.
  unfold firstnN, skipnN. rewrite firstn_skipn_comm. do 2 f_equal. lia.
Qed.

Lemma agree_firstn m k (l l' : list N) :
  firstnN m l' = firstnN m l -> k <= m -> firstnN k l' = firstnN k l.
Proof.
  intros H Hk. rewrite <- (firstnN_firstnN k m l'), H, firstnN_firstnN by exact Hk. reflexivity.
Qed.

Lemma agree_slice m k a (l l' : list N) :
  firstnN m l' = firstnN m l -> k + a <= m -> firstnN a (skipnN k l') = firstnN a (skipnN k l).
Proof.
  intros H Hk. rewrite !firstnN_skipnN_comm. f_equal. apply (agree_firstn m); assumption.
Qed.

Definition prefix_ok (h : list N -> hres) (rest : list N) (t : tok) (n : N) : Prop :=
  1 <= n /\ n <= 1 + len rest /\
  forall rest', firstnN (n - 1) rest' = firstnN (n - 1) rest -> n - 1 <= len rest' -> h rest' = HTok t n.

Lemma str_spec_prefix cb k arg0 (argf : list N -> N) rest t n :
  k <= len rest ->
  (forall rest', firstnN k rest' = firstnN k rest -> argf rest' = argf rest) ->
  str_spec cb k (argf rest) rest = HTok t n ->
  arg0 = argf rest ->
  1 + k <= n /\ n <= 1 + len rest /\
  forall rest', firstnN (n - 1) rest' = firstnN (n - 1) rest -> n - 1 <= len rest' ->
                str_spec cb k (argf rest') rest' = HTok t n.
Proof.
  intros Hk Hf H Harg. unfold str_spec in *. rewrite <- Harg in H.
  destruct (len rest - k <? arg0) eqn:E; [discriminate H|].
  inversion H; subst t n; clear H.
  split; [lia|]. split; [lia|].
  intros rest' Heq Hlen.
  replace (1 + k + arg0 - 1) with (k + arg0) in * by lia.
  rewrite (Hf rest') by (apply (agree_firstn (k + arg0)); [exact Heq|lia]).
  rewrite <- Harg.
  destruct (len rest' - k <? arg0) eqn:E'; [lia|].
  rewrite (agree_slice (k + arg0) k arg0 rest rest') by (try exact Heq; lia).
  reflexivity.
Qed.

Lemma spec_act_prefix a b rest t n :
  spec_act a b rest = HTok t n -> prefix_ok (spec_act a b) rest t n.
Proof.
  unfold prefix_ok.
  destruct a as [|cb sub|cb k|cb sub|cb k|cb|v|cb k]; cbn [spec_act]; intros H.
  - discriminate H.
  - inversion H; subst. repeat split; try lia.
  - destruct (len rest <? k) eqn:E; [discriminate H|]. inversion H; subst t n; clear H.
    split; [lia|]. split; [lia|]. intros rest' Heq Hlen.
    replace (1 + k - 1) with k in * by lia.
    destruct (len rest' <? k) eqn:E'; [lia|]. rewrite Heq. reflexivity.
  - destruct (str_spec_prefix cb 0 (b - sub) (fun _ => b - sub) rest t n) as (H1 & H2 & H3);
      try lia; try reflexivity; try exact H.
    repeat split; try lia. exact H3.
  - destruct (len rest <? k) eqn:E; [discriminate H|].
    destruct (str_spec_prefix cb k (be_val (firstnN k rest)) (fun r => be_val (firstnN k r)) rest t n)
      as (H1 & H2 & H3); try lia; try reflexivity; try exact H.
    { intros rest' Heq. cbv beta. rewrite Heq. reflexivity. }
    split; [lia|]. split; [lia|]. intros rest' Heq Hlen.
    destruct (len rest' <? k) eqn:E'; [lia|]. apply H3; assumption.
  - inversion H; subst. repeat split; try lia.
  - inversion H; subst. repeat split; try lia.
  - destruct (len rest <? k) eqn:E; [discriminate H|]. inversion H; subst t n; clear H.
    split; [lia|]. split; [lia|]. intros rest' Heq Hlen.
    replace (1 + k - 1) with k in * by lia.
    destruct (len rest' <? k) eqn:E'; [lia|]. rewrite Heq. reflexivity.
Qed.

Theorem C08_prefix_indep : forall buf t n, bytes_ok buf -> head_spec buf = HTok t n ->
  n <= len buf /\ forall ext, head_spec (firstnN n buf ++ ext) = HTok t n.
Proof.
  intros buf t n Hok H.
  destruct buf as [|b rest]; [discriminate H|].
  inversion Hok as [|? ? Hb Hrest]; subst.
  rewrite head_spec_act in H by exact Hb.
  destruct (spec_act_prefix _ _ _ _ _ H) as (H1 & H2 & H3).
  rewrite len_cons. split; [lia|]. intros ext.
  rewrite firstnN_cons by exact H1. rewrite <- app_comm_cons.
  rewrite head_spec_act by exact Hb.
  assert (Hl : len (firstnN (n - 1) rest) = n - 1) by (apply len_firstnN; lia).
  apply H3.
  - rewrite firstnN_app by (symmetry; exact Hl). reflexivity.
  - rewrite len_app. lia.
Qed.

(* string tokens: the payload is the slice [off, n) of the buffer *)
Lemma itok_not_str cb v off data : itok cb v <> TBytes off data /\ itok cb v <> TText off data.
Proof. destruct cb; split; discriminate. Qed.
Lemma ntok_not_str cb off data : ntok cb <> TBytes off data /\ ntok cb <> TText off data.
Proof. destruct cb; split; discriminate. Qed.
Lemma ftok_not_str cb v off data : ftok cb v <> TBytes off data /\ ftok cb v <> TText off data.
Proof. destruct cb; split; discriminate. Qed.

Definition is_str_tok (t : tok) (off : N) (data : list N) : Prop :=
  t = TBytes off data \/ t = TText off data.

Lemma str_spec_payload cb k arg b rest t n off data :
  str_spec cb k arg rest = HTok t n -> is_str_tok t off data ->
  off = 1 + k /\ off + len data = n /\ data = firstnN (len data) (skipnN off (b :: rest)).
Proof.
  unfold str_spec. intros H Ht.
  destruct (len rest - k <? arg) eqn:E; [discriminate H|]. inversion H; subst t n; clear H.
  assert (Hd : off = 1 + k /\ data = firstnN arg (skipnN k rest)).
  { destruct Ht as [Ht|Ht]; destruct cb; cbn [stok] in Ht; inversion Ht; split; reflexivity. }
  destruct Hd as [-> ->].
  assert (Hl : len (firstnN arg (skipnN k rest)) = arg) by (apply len_firstnN; rewrite len_skipnN; lia).
  rewrite Hl, skipnN_cons. repeat split.
Qed.

Lemma spec_act_payload a b rest t n off data :
  spec_act a b rest = HTok t n -> is_str_tok t off data ->
  1 <= off /\ off + len data = n /\ data = firstnN (len data) (skipnN off (b :: rest)).
Proof.
  intros H Ht.
  destruct a as [|cb sub|cb k|cb sub|cb k|cb|v|cb k]; cbn [spec_act] in H.
  - discriminate H.
  - inversion H; subst. exfalso. destruct (itok_not_str cb (b - sub) off data). destruct Ht; contradiction.
  - destruct (len rest <? k); [discriminate H|]. inversion H; subst. exfalso.
    destruct (itok_not_str cb (be_val (firstnN k rest)) off data). destruct Ht; contradiction.
  - destruct (str_spec_payload _ _ _ b _ _ _ _ _ H Ht) as (H1 & H2 & H3). repeat split; try assumption; lia.
  - destruct (len rest <? k); [discriminate H|].
    destruct (str_spec_payload _ _ _ b _ _ _ _ _ H Ht) as (H1 & H2 & H3). repeat split; try assumption; lia.
  - inversion H; subst. exfalso. destruct (ntok_not_str cb off data). destruct Ht; contradiction.
  - inversion H; subst. exfalso. destruct Ht; discriminate.
  - destruct (len rest <? k); [discriminate H|]. inversion H; subst. exfalso.
    destruct (ftok_not_str cb (be_val (firstnN k rest)) off data). destruct Ht; contradiction.
Qed.

Theorem C08_payload_inside : forall buf t off data n, bytes_ok buf ->
  head_spec buf = HTok t n -> t = TBytes off data \/ t = TText off data ->
  1 <= off /\ off + len data = n /\ n <= len buf /\ data = firstnN (len data) (skipnN off buf).
Proof.
  intros buf t off data n Hok H Ht.
  destruct (C08_prefix_indep buf t n Hok H) as [Hn _].
  destruct buf as [|b rest]; [discriminate H|].
  inversion Hok as [|? ? Hb Hrest]; subst.
  rewrite head_spec_act in H by exact Hb.
  destruct (spec_act_payload _ _ _ _ _ _ _ H Ht) as (H1 & H2 & H3).
  repeat split; assumption.
Qed.

Print Assumptions C08_contract.
Print Assumptions C08_no_fault.
Print Assumptions decode_of_spec.
Print Assumptions C08_prefix_indep.
Print Assumptions C08_payload_inside.
