(* ================================================================================================
   HPipeline_proofs.v - C01 as ONE statement: the whole client pipeline around cbor_load

     cbor_load (buf)                                   load_h refuse L buf
     if an item came back:
       cbor_describe (item)                            describe_h a        (= HHist2_proofs.describe_walk)
       cbor_serialized_size (item)                     serialized_size_h a
       cbor_serialize (item, out, n)                   serialize_h a n
       cbor_serialize_alloc (item, &p, &sz); free (p)  ser_alloc_free refuse .. a
       c = cbor_copy (item)                            copy_h refuse a
       if c: cbor_serialized_size (c); cbor_decref (&c)
       cbor_decref (&item)                             decref a

   as one monadic program [client_pipeline refuse L buf n : M pipe_out] over model H.

   [client_pipeline_spec]: for EVERY allocator oracle, limit, buffer (bytes_ok, shorter than SIZE_MAX) and
   output size, from any world that satisfies the accounting invariant, the program returns (no step
   faults - the monad stops at the first Fault, so "returns" is "no step faults and every step returns"),
   the final heap is cell for cell the initial heap, the invariant holds again for the client's unchanged
   ownership, and the outcome has one of the two documented shapes ([pipe_ok]), tied to the pure model P:
   the item's size / bytes are [ssize] / [serialize_into] of the tree [PBuild.load] returns.

   The pieces: HLoad_proofs (load_h_never_faults / _success / _clean_failure, and the refinement under ANY
   allocator load_h_ok_abs_any - a successful load has built exactly P's tree, so every traversal of it
   succeeds), HRead_proofs (read-only traversals), HCopy_proofs (copy_spec_wp, release_root), HRef_proofs.

   Nothing is assumed (Print Assumptions at the end of the file).
   ================================================================================================ *)
From CB Require Import Word Word_proofs PMem PItem SpecItem PStream PBuild HHeap HItems HOps HHist HHist2
  HRef_proofs HCont_proofs HRead_proofs HCopy_proofs HLoad_proofs HHist_proofs HHist2_proofs PItem_proofs PRound_proofs.
From Coq Require Import Lia ZArith ZifyBool ZifyN ZifyNat List.
Import ListNotations.
Local Open Scope N_scope.

(* what the client observes *)
Inductive pipe_out :=
| PErr (code : lerr) (pos : N)                       (* NULL item: error code and position *)
| PItem (code : lerr) (pos rd : N)                   (* an item: res.error.code, .position, res.read *)
        (size : N)                                   (* cbor_serialized_size *)
        (ser : option (N * list N))                  (* cbor_serialize into n bytes: return value, bytes stored *)
        (alloc : N * list N)                         (* cbor_serialize_alloc: return value, bytes stored *)
        (copy_size : option N).                      (* cbor_serialized_size of the copy; None: copy refused *)

Section Pipeline.
Variable refuse : N -> N -> bool.   (* an arbitrary allocator *)
Variable L : N.                     (* CBOR_MAX_STACK_SIZE *)

(* cbor_describe: the traversal of HHist2_proofs with the recursion budget every read-only walk of the
   model uses (abs_fuel: more than the number of cells) *)
Definition describe_h (a : addr) : M unit := fun w => describe_walk (abs_fuel w) a w.

Definition copy_phase (a : addr) : M (option N) :=
  c <- copy_h refuse a ;;
  match c with
  | Some a' => sz <- serialized_size_h a' ;; decref a' ;;; ret (Some sz)
  | None => ret None
  end.

Definition client_pipeline (buf : list N) (n : N) : M pipe_out :=
  r <- load_h refuse L buf ;;
  match r with
  | (None, code, pos, _) => ret (PErr code pos)
  | (Some a, code, pos, rd) =>
      describe_h a ;;;
      size <- serialized_size_h a ;;
      ser <- serialize_h a n ;;
      al <- ser_alloc_free refuse (fun wr bytes => (wr, bytes)) a ;;
      csz <- copy_phase a ;;
      decref a ;;;
      ret (PItem code pos rd size ser al csz)
  end.

(* the two documented outcomes, and what the observations are in terms of the pure model *)
Definition pipe_ok (buf : list N) (n : N) (o : pipe_out) : Prop :=
  match o with
  | PErr code pos =>
      code <> ENone /\
      ((exists q, load L SIZE_MAX buf = LErr code pos q) \/
       (code = EMem /\ ((exists i s, refuse i s = true) \/ 2 ^ 57 <= len buf)))
  | PItem code pos rd size ser al csz =>
      code = ENone /\ pos = 0 /\
      exists t, load L SIZE_MAX buf = LOk t rd /\
        size = ssize t /\ ser = serialize_into t n /\
        (al = (0, []) \/ serialize_into t (ssize t) = Some al) /\
        (csz = None \/ csz = Some (ssize t))
  end.

(* ------------------------------------------------------------------------------------------ *)
(* 1. traversals: fuel, worlds with the same heap                                              *)
(* ------------------------------------------------------------------------------------------ *)

Lemma abs_mono_le f f' a w t w' : abs f a w = Ret t w' -> (f <= f')%nat -> abs f' a w = Ret t w'.
Proof. intros H Hle. induction Hle as [|m Hm IH]; [exact H|]. exact (abs_mono m a w t w' IH). Qed.

Lemma abs_heq f a w w2 t w' :
  abs f a w = Ret t w' -> (forall b, heap w2 b = heap w b) -> exists w2', abs f a w2 = Ret t w2'.
Proof. intros E H. eapply C17_frame; [|exact E]. intros b _. symmetry. apply H. Qed.

Lemma abs_of_keeps a w t w0 : abs_of a w = Ret t w0 -> heap w0 = heap w /\ next w0 = next w.
Proof. intros E. unfold abs_of in E. destruct (abs_readonly _ _ _ _ _ E) as (H1 & H2 & _). split; assumption. Qed.

Lemma describe_run a w t w0 : abs_of a w = Ret t w0 -> describe_h a w = Ret tt w0.
Proof. intros E. unfold describe_h, describe_walk. unfold abs_of in E. rewrite (bind_Ret _ _ _ _ _ E). reflexivity. Qed.

Lemma size_run a w t w0 : abs_of a w = Ret t w0 -> serialized_size_h a w = Ret (ssize t) w0.
Proof. intros E. unfold serialized_size_h. rewrite (bind_Ret _ _ _ _ _ E). reflexivity. Qed.

Lemma ser_run a n w t w0 : abs_of a w = Ret t w0 -> serialize_h a n w = Ret (serialize_into t n) w0.
Proof. intros E. unfold serialize_h. rewrite (bind_Ret _ _ _ _ _ E). reflexivity. Qed.

(* cbor_serialize_alloc and the client's free: the heap is pointwise what it was *)
Lemma ser_alloc_free_run {X} (k : N -> list N -> X) a w t w0 :
  wf w -> abs_of a w = Ret t w0 ->
  exists r w', ser_alloc_free refuse k a w = Ret r w' /\
    (forall b, heap w' b = heap w b) /\ next w <= next w' /\
    (r = k 0 [] \/ exists wr out, serialize_into t (ssize t) = Some (wr, out) /\ r = k wr out).
Proof.
  intros Hwf E. destruct (abs_of_keeps _ _ _ _ E) as [Hh Hn].
  unfold ser_alloc_free, serialize_alloc_h.
  rewrite (bind_Ret _ _ _ _ _ (bind_Ret _ _ _ _ _ E)) || idtac.
  unfold bind. rewrite E.
  destruct (ssize t =? 0).
  { exists (k 0 []), w0. split; [reflexivity|]. split; [intros b; rewrite Hh; reflexivity|]. split; [lia|left; reflexivity]. }
  destruct (refuse (nreq w0) (ssize t)) eqn:Rf.
  - rewrite (malloc_refused refuse _ _ w0 Rf).
    eexists. eexists. split; [reflexivity|]. split; [intros b; wsimpl; rewrite Hh; reflexivity|].
    split; [wsimpl; lia|left; reflexivity].
  - rewrite (malloc_granted refuse _ _ w0 Rf).
    destruct (C07_into_all t (ssize t)) as (rt & out & Es & _). rewrite Es. unfold ret at 1.
    assert (Hc : heap (w_malloc (ssize t) (CData (ssize t)) w0) (next w0) = Some (CData (ssize t)))
      by (wsimpl; apply upd_same).
    rewrite (free_spec (next w0) _ _ Hc).
    eexists. eexists. split; [reflexivity|]. split.
    + intros b. wsimpl. unfold upd. destruct (N.eqb_spec b (next w0)) as [->|]; [|rewrite Hh; reflexivity].
      symmetry. apply Hwf. lia.
    + split; [wsimpl; lia|]. right. exists rt, out. split; reflexivity.
Qed.

(* ------------------------------------------------------------------------------------------ *)
(* 2. what is known of a freshly decoded tree, in any later world with the same heap           *)
(* ------------------------------------------------------------------------------------------ *)

(* [m]: the bump pointer before the load; [bound]: after it *)
Definition Loaded (m : N) (a : addr) (t : item) (bound : N) (wx : world) : Prop :=
  m <= a /\ bound <= next wx /\
  (forall b rc n, m <= b -> heap wx b = Some (CItem rc n) ->
     rc = 1 /\ (forall k, In k (kids n) -> b < k) /\ (forall d, In d (dblocks n) -> m <= d)) /\
  (forall fuel, (N.to_nat (bound - a) <= fuel)%nat -> exists w', abs fuel a wx = Ret t w').

Lemma Loaded_heq m a t bound wx wy :
  Loaded m a t bound wx -> (forall b, heap wy b = heap wx b) -> next wx <= next wy -> Loaded m a t bound wy.
Proof.
  intros (H1 & H2 & H3 & H4) Hh Hn. split; [exact H1|]. split; [lia|]. split.
  - intros b rc n Hb E. rewrite Hh in E. exact (H3 b rc n Hb E).
  - intros fuel Hf. destruct (H4 fuel Hf) as (w' & E). exact (abs_heq _ _ _ wy _ _ E Hh).
Qed.

Lemma Loaded_abs_of m a t bound wx : Loaded m a t bound wx -> exists w', abs_of a wx = Ret t w'.
Proof. intros (_ & H2 & _ & H4). unfold abs_of. apply H4. unfold abs_fuel. lia. Qed.

Lemma Loaded_reach m a t bound wx : Loaded m a t bound wx -> forall b, reach wx a b -> m <= b.
Proof.
  intros (H1 & _ & H3 & _) b R. induction R as [|b rc n c R IH Eb Hc|b rc n d R IH Eb Hd].
  - exact H1.
  - destruct (H3 b rc n IH Eb) as (_ & K & _). rewrite node_kids_eq in Hc. specialize (K c Hc). lia.
  - destruct (H3 b rc n IH Eb) as (_ & _ & D). apply node_blocks_in in Hd. exact (D d Hd).
Qed.

Lemma shaped_ext : forall f h h' a, (forall b c, h b = Some c -> h' b = Some c) -> shaped f h a -> shaped f h' a.
Proof.
  intros f h h' a X. revert a. induction f as [|f IH]; intros a; [intros []|].
  assert (DL : forall p, data_live h p -> data_live h' p).
  { intros p (d & sz & -> & E). exists d, sz. split; [reflexivity|apply X; exact E]. }
  intros (rc & n & E & R & S). exists rc, n. split; [apply X; exact E|]. split; [exact R|].
  destruct n as [neg iw v|fw bits|v|text data bytes|text hdr arr cap chunks|indef data al elems|indef data al pairs|v c].
  - exact I. - exact I. - exact I.
  - destruct S as [S|S]; [left; exact S|right; apply DL; exact S].
  - eapply Forall_impl; [|exact S]. intros x [Sx (rcc & dc & bs & Ec)]. split; [apply IH, Sx|].
    exists rcc, dc, bs. apply X. exact Ec.
  - destruct S as [S1 S2]. split.
    + destruct S1 as [S1|S1]; [left; exact S1|right; apply DL; exact S1].
    + eapply Forall_impl; [|exact S2]. intros x. apply IH.
  - destruct S as [S1 S2]. split.
    + destruct S1 as [S1|S1]; [left; exact S1|right; apply DL; exact S1].
    + eapply Forall_impl; [|exact S2]. intros kv (Sk & v & Ev & Sv). split; [apply IH, Sk|].
      exists v. split; [exact Ev|apply IH, Sv].
  - destruct S as (x & Ex & Sx). exists x. split; [exact Ex|apply IH, Sx].
Qed.

(* the decoded tree is complete in the sense cbor_copy needs (whatever the reference counts of the cells
   that existed before the load are: only the cells of the call are looked at) *)
Lemma Loaded_shaped m a t bound wx : Loaded m a t bound wx -> shaped (abs_fuel wx) (heap wx) a.
Proof.
  intros Ld. pose proof (Loaded_reach _ _ _ _ _ Ld) as Rm. destruct Ld as (H1 & H2 & H3 & H4).
  destruct (H4 (N.to_nat (next wx)) ltac:(lia)) as (w' & E).
  set (hs := fun b => if b <? m then None else heap wx b).
  set (ws := mkworld hs (next wx) (nreq wx) (trace wx) (alog wx)).
  assert (Es : exists ws', abs (N.to_nat (next wx)) a ws = Ret t ws').
  { eapply C17_frame; [|exact E]. intros b Rb. specialize (Rm b Rb). cbn [heap ws]. unfold hs.
    destruct (N.ltb_spec b m); [lia|reflexivity]. }
  destruct Es as (ws' & Es).
  assert (B : rc_bounded (heap ws)).
  { intros b rc n Eb. cbn [heap ws] in Eb. unfold hs in Eb. destruct (N.ltb_spec b m) as [|Hb]; [discriminate Eb|].
    destruct (H3 b rc n Hb Eb) as (-> & _). unfold W64. lia. }
  pose proof (abs_shaped _ _ _ _ _ B Es) as Sh. unfold abs_fuel.
  eapply shaped_ext; [|exact Sh]. intros b c Eb. cbn [heap ws] in Eb. unfold hs in Eb.
  destruct (b <? m); [discriminate Eb|exact Eb].
Qed.

(* the cells of the call form a closed, ranked region: what [release_root] needs *)
Lemma Loaded_region own ownd m a t bound wx :
  Loaded m a t bound wx -> Inv own ownd [] wx ->
  closed m wx /\ ranked m wx (fun x => N.to_nat (next wx - x)).
Proof.
  intros (H1 & H2 & H3 & H4) I. split.
  - intros b rc n Hb E. destruct (H3 b rc n Hb E) as (-> & K & D). split.
    + intros k Hk. specialize (K k Hk).
      destruct (Inv_kid_live _ _ _ _ _ _ _ _ I E ltac:(lia) Hk) as (rck & nk & Ek & _).
      pose proof (live_lt _ _ _ _ _ _ I Ek). lia.
    + intros d Hd. specialize (D d Hd).
      destruct (Inv_dblock_live _ _ _ _ _ _ _ _ I E ltac:(lia) Hd) as ((sz & Ed) & _).
      pose proof (live_lt _ _ _ _ _ _ I Ed). lia.
  - intros b rc n k Hb E Hk. destruct (H3 b rc n Hb E) as (-> & K & _). specialize (K k Hk).
    destruct (Inv_kid_live _ _ _ _ _ _ _ _ I E ltac:(lia) Hk) as (rck & nk & Ek & _).
    pose proof (live_lt _ _ _ _ _ _ I Ek). lia.
Qed.

(* ------------------------------------------------------------------------------------------ *)
(* 3. cbor_copy, the size of the copy, its release                                             *)
(* ------------------------------------------------------------------------------------------ *)

Lemma copy_phase_spec a w own ownd t w0 :
  Inv own ownd [] w -> shaped (abs_fuel w) (heap w) a -> abs (abs_fuel w) a w = Ret t w0 ->
  exists r w', copy_phase a w = Ret r w' /\
    (forall b, heap w' b = heap w b) /\ next w <= next w' /\ Inv own ownd [] w' /\
    (r = None \/ r = Some (ssize t)).
Proof.
  intros I Sh Ea. pose proof (Inv_wf _ _ _ _ I) as Hwf.
  destruct (copy_spec_wp refuse (abs_fuel w) a w own ownd I Sh) as (c & w1 & E1 & (P1 & P2 & P3) & _).
  unfold copy_phase. assert (E1' : copy_h refuse a w = Ret c w1) by exact E1.
  rewrite (bind_Ret _ _ _ _ _ E1'). destruct c as [a'|].
  2:{ exists None, w1. split; [reflexivity|].
      assert (Hh : forall b, heap w1 b = heap w b).
      { intros b. destruct (N.lt_ge_cases b (next w)) as [Lb|Lb]; [apply P2, Lb|]. rewrite P3, Hwf by exact Lb. reflexivity. }
      split; [exact Hh|]. split; [exact P1|]. split; [eapply Inv_heq; eassumption|left; reflexivity]. }
  destruct P3 as (Ha' & I' & (G1 & G2 & rank & G3 & G4) & S).
  destruct (S w t w0 eq_refl Ea) as [_ K]. destruct (K w1 eq_refl) as (w1' & E2 & _).
  assert (E2' : abs_of a' w1 = Ret t w1').
  { unfold abs_of. eapply abs_mono_le; [exact E2|]. unfold abs_fuel. lia. }
  rewrite (bind_Ret _ _ _ _ _ (size_run _ _ _ _ E2')).
  destruct (abs_of_keeps _ _ _ _ E2') as [Hh2 Hn2].
  assert (I2 : Inv (own1 own a') ownd [] w1').
  { eapply Inv_heq; [exact I'|intros b; rewrite Hh2; reflexivity|lia]. }
  assert (C2 : closed (next w) w1').
  { intros b rc n Hb E. rewrite Hh2 in E. rewrite Hn2. exact (G2 b rc n Hb E). }
  assert (R2 : ranked (next w) w1' rank).
  { intros b rc n k Hb E Hk. rewrite Hh2 in E. exact (G3 b rc n k Hb E Hk). }
  destruct (release_root own ownd w w1' a' rank I ltac:(lia) ltac:(intros b Hb; rewrite Hh2; apply P2, Hb) Ha' I2 C2 R2)
    as (w2 & D1 & D2 & D3 & D4 & D5).
  rewrite (bind_Ret _ _ _ _ _ D1).
  exists (Some (ssize t)), w2. split; [reflexivity|]. split.
  - intros b. destruct (N.lt_ge_cases b (next w)) as [Lb|Lb]; [apply D3, Lb|]. rewrite D4, Hwf by exact Lb. reflexivity.
  - split; [lia|]. split; [exact D5|right; reflexivity].
Qed.

(* ------------------------------------------------------------------------------------------ *)
(* 4. the pipeline                                                                             *)
(* ------------------------------------------------------------------------------------------ *)

Theorem client_pipeline_spec buf n own ownd w :
  bytes_ok buf -> len buf < SIZE_MAX -> Inv own ownd [] w ->
  exists o w', client_pipeline buf n w = Ret o w' /\
    (forall b, heap w' b = heap w b) /\ Inv own ownd [] w' /\ next w <= next w' /\ pipe_ok buf n o.
Proof.
  intros Hb Hl I. pose proof (Inv_wf _ _ _ _ I) as Hwf.
  destruct (load_h_refines_any L SIZE_MAX own ownd refuse buf w (N.le_refl _) Hb Hl Hwf I) as (r & w1 & E1 & R).
  unfold client_pipeline. rewrite (bind_Ret _ _ _ _ _ E1).
  destruct r as [[[[a|] code] pos] rd].
  2:{ (* no item *)
      destruct (load_h_clean_failure refuse L own ownd buf w code pos rd w1 Hb Hl Hwf I E1) as (Hc & F1 & F2 & I1 & Hn).
      exists (PErr code pos), w1. split; [reflexivity|]. split.
      { intros b. destruct (N.lt_ge_cases b (next w)) as [Lb|Lb]; [apply F1, Lb|]. rewrite F2, Hwf by exact Lb. reflexivity. }
      split; [exact I1|]. split; [exact Hn|]. cbn [pipe_ok]. split; [exact Hc|].
      destruct R as [R|(Bd & p & q & R)].
      - destruct (load L SIZE_MAX buf) as [|t m|c p q]; [destruct R| |].
        + destruct R as (a0 & w'' & R & _). discriminate R.
        + inversion R; subst. left. eauto.
      - inversion R; subst. right. split; [reflexivity|exact Bd]. }
  (* an item *)
  clear R.
  destruct (load_h_success refuse L own ownd buf w a code pos rd w1 Hb Hl Hwf I E1)
    as (Hc & Hp & Ha & Hold & Hrc & I1 & _ & _).
  pose proof (load_h_success_order refuse L own ownd buf w a code pos rd w1 Hb Hl Hwf I E1) as Hord.
  destruct (load_h_ok_abs_any L SIZE_MAX own ownd refuse buf w a code pos rd w1 (N.le_refl _) Hb Hl Hwf I E1)
    as (t & HP & _ & _ & Habs).
  assert (Ld1 : Loaded (next w) a t (next w1) w1).
  { split; [exact Ha|]. split; [lia|]. split; [|exact Habs]. intros b rc nd Hb' E.
    split; [exact (Hrc b rc nd Hb' E)|exact (Hord b rc nd Hb' E)]. }
  assert (I1' : Inv (own1 own a) ownd [] w1) by exact I1.
  clear Hrc Hord Habs I1.
  (* describe *)
  destruct (Loaded_abs_of _ _ _ _ _ Ld1) as (w2 & A1).
  rewrite (bind_Ret _ _ _ _ _ (describe_run _ _ _ _ A1)).
  destruct (abs_of_keeps _ _ _ _ A1) as [Hh2 Hn2].
  assert (Ld2 : Loaded (next w) a t (next w1) w2) by (apply (Loaded_heq _ _ _ _ w1); [exact Ld1|intros b; rewrite Hh2; reflexivity|lia]).
  (* size *)
  destruct (Loaded_abs_of _ _ _ _ _ Ld2) as (w3 & A2).
  rewrite (bind_Ret _ _ _ _ _ (size_run _ _ _ _ A2)).
  destruct (abs_of_keeps _ _ _ _ A2) as [Hh3 Hn3].
  assert (Ld3 : Loaded (next w) a t (next w1) w3) by (apply (Loaded_heq _ _ _ _ w2); [exact Ld2|intros b; rewrite Hh3; reflexivity|lia]).
  (* serialize *)
  destruct (Loaded_abs_of _ _ _ _ _ Ld3) as (w4 & A3).
  rewrite (bind_Ret _ _ _ _ _ (ser_run _ n _ _ _ A3)).
  destruct (abs_of_keeps _ _ _ _ A3) as [Hh4 Hn4].
  assert (Ld4 : Loaded (next w) a t (next w1) w4) by (apply (Loaded_heq _ _ _ _ w3); [exact Ld3|intros b; rewrite Hh4; reflexivity|lia]).
  assert (H41 : forall b, heap w4 b = heap w1 b) by (intros b; rewrite Hh4, Hh3, Hh2; reflexivity).
  assert (N41 : next w4 = next w1) by lia.
  assert (I4 : Inv (own1 own a) ownd [] w4) by (eapply Inv_heq; [exact I1'|exact H41|lia]).
  (* serialize_alloc, free *)
  destruct (Loaded_abs_of _ _ _ _ _ Ld4) as (w4' & A4).
  destruct (ser_alloc_free_run (fun wr bytes => (wr, bytes)) a w4 t w4' (Inv_wf _ _ _ _ I4) A4)
    as (al & w5 & E5 & Hh5 & Hn5 & Hal).
  rewrite (bind_Ret _ _ _ _ _ E5).
  assert (Ld5 : Loaded (next w) a t (next w1) w5) by (apply (Loaded_heq _ _ _ _ w4); [exact Ld4|exact Hh5|exact Hn5]).
  assert (I5 : Inv (own1 own a) ownd [] w5) by (eapply Inv_heq; [exact I4|exact Hh5|exact Hn5]).
  (* copy, size of the copy, release of the copy *)
  destruct (Loaded_abs_of _ _ _ _ _ Ld5) as (w5' & A5).
  destruct (copy_phase_spec a w5 (own1 own a) ownd t w5' I5 (Loaded_shaped _ _ _ _ _ Ld5) A5)
    as (csz & w6 & E6 & Hh6 & Hn6 & I6 & Hcsz).
  rewrite (bind_Ret _ _ _ _ _ E6).
  assert (Ld6 : Loaded (next w) a t (next w1) w6) by (apply (Loaded_heq _ _ _ _ w5); [exact Ld5|exact Hh6|exact Hn6]).
  (* release of the item *)
  destruct (Loaded_region _ _ _ _ _ _ _ Ld6 I6) as [C6 R6].
  assert (F6 : forall b, b < next w -> heap w6 b = heap w b).
  { intros b Lb. rewrite Hh6, Hh5, H41. apply Hold, Lb. }
  assert (Hn1 : next w <= next w1).
  { destruct (Inv_owned_item _ _ _ a I1') as (rca & na & Ea & _); [unfold own1; rewrite N.eqb_refl; lia|].
    pose proof (live_lt _ _ _ _ _ _ I1' Ea). lia. }
  assert (Hn6' : next w <= next w6) by (destruct Ld6 as (_ & X & _); lia).
  destruct (release_root own ownd w w6 a _ I Hn6' F6 Ha I6 C6 R6) as (w7 & D1 & D2 & D3 & D4 & D5).
  rewrite (bind_Ret _ _ _ _ _ D1).
  eexists. eexists. split; [reflexivity|]. split.
  { intros b. destruct (N.lt_ge_cases b (next w)) as [Lb|Lb]; [apply D3, Lb|]. rewrite D4, Hwf by exact Lb. reflexivity. }
  split; [exact D5|]. split; [lia|].
  cbn [pipe_ok]. split; [exact Hc|]. split; [exact Hp|]. exists t. split; [exact HP|].
  split; [reflexivity|]. split; [reflexivity|]. split; [|exact Hcsz].
  destruct Hal as [->|(wr & out & Es & ->)]; [left; reflexivity|right; exact Es].
Qed.

End Pipeline.

(* ------------------------------------------------------------------------------------------ *)
(* 5. C01, the composite: the form asked for                                                   *)
(* ------------------------------------------------------------------------------------------ *)

(* caps and acyclic are properties of the heap as a function *)
Lemma caps_heq w w' : caps w -> (forall b, heap w' b = heap w b) -> caps w'.
Proof. intros C H a rc n E. rewrite H in E. exact (C a rc n E). Qed.
Lemma acyclic_heq w w' : acyclic w -> (forall b, heap w' b = heap w b) -> acyclic w'.
Proof. intros [rank A] H. exists rank. intros a rc n E. rewrite H in E. exact (A a rc n E). Qed.

(* For every allocator oracle, limit, buffer and output size, from every world in which the client's
   accounting holds: the pipeline never yields Fault (so no step of it does, and every step returns), it
   returns one of the two documented outcomes, and afterwards the heap is cell for cell what it was, with
   the invariants the next API history needs.  ([n < 2^64], [caps w], [acyclic w] are not needed for the
   first parts: client_pipeline_spec has neither.) *)
Theorem C01_client_pipeline : forall refuse L buf n own ownd w,
  bytes_ok buf -> len buf < SIZE_MAX -> n < 2 ^ 64 ->
  Inv own ownd [] w -> caps w -> acyclic w ->
  (forall k, client_pipeline refuse L buf n w <> Fault k) /\
  exists o w', client_pipeline refuse L buf n w = Ret o w' /\
    pipe_ok refuse L buf n o /\
    (forall b, heap w' b = heap w b) /\
    Inv own ownd [] w' /\ caps w' /\ acyclic w' /\ next w <= next w'.
Proof.
  intros refuse L buf n own ownd w Hb Hl _ I C A.
  destruct (client_pipeline_spec refuse L buf n own ownd w Hb Hl I) as (o & w' & E & Hh & I' & Hn & Ok).
  split; [intros k; rewrite E; discriminate|].
  exists o, w'. split; [exact E|]. split; [exact Ok|]. split; [exact Hh|]. split; [exact I'|].
  split; [exact (caps_heq _ _ C Hh)|]. split; [exact (acyclic_heq _ _ A Hh)|exact Hn].
Qed.

(* from the empty world *)
Corollary C01_client_pipeline_world0 : forall refuse L buf n,
  bytes_ok buf -> len buf < SIZE_MAX ->
  exists o w', client_pipeline refuse L buf n world0 = Ret o w' /\
    pipe_ok refuse L buf n o /\ forall b, heap w' b = None.
Proof.
  intros refuse L buf n Hb Hl.
  destruct (client_pipeline_spec refuse L buf n own0 own0 world0 Hb Hl Inv_world0) as (o & w' & E & Hh & _ & _ & Ok).
  exists o, w'. split; [exact E|]. split; [exact Ok|]. intros b. rewrite Hh. reflexivity.
Qed.

(* the P-level companion: what the client reads back are the bytes RFC 8949 gives the tree that the pure
   model decodes from the buffer - all of them when the output buffer is large enough, and otherwise the
   return value is 0 (C07_into_all) *)
Corollary pipeline_serialize_is_rfc : forall refuse L buf n code pos rd size ser al csz,
  pipe_ok refuse L buf n (PItem code pos rd size ser al csz) ->
  exists t, load L SIZE_MAX buf = LOk t rd /\
    (len (encode_rfc t) <= n -> ser = Some (len (encode_rfc t), encode_rfc t)) /\
    (n < len (encode_rfc t) -> exists out, ser = Some (0, out) /\ len out <= n /\ exists sfx, encode_rfc t = out ++ sfx).
Proof.
  intros refuse L buf n code pos rd size ser al csz (_ & _ & t & HP & _ & -> & _).
  exists t. split; [exact HP|]. destruct (C07_into_all t n) as (rt & out & Es & H1 & H2). rewrite Es. split.
  - intros Hle. destruct (H1 Hle) as [-> ->]. reflexivity.
  - intros Hlt. destruct (H2 Hlt) as (-> & Hs & Ho). exists out. split; [reflexivity|]. split; [exact Ho|exact Hs].
Qed.

(* decode-then-serialize is the identity on canonical encodings: the buffer is the RFC 8949 encoding of a
   tree the decoder accepts (rt_ok: well-formed, nesting within the limit); whatever the allocator does,
   IF the load returns an item then [read] is the length of the buffer and cbor_serialize gives the buffer
   back byte for byte *)
Corollary pipeline_roundtrip : forall refuse L t0 n own ownd w code pos rd size ser al csz w',
  rt_ok L SIZE_MAX t0 -> len (encode_rfc t0) < SIZE_MAX -> len (encode_rfc t0) <= n -> Inv own ownd [] w ->
  client_pipeline refuse L (encode_rfc t0) n w = Ret (PItem code pos rd size ser al csz) w' ->
  rd = len (encode_rfc t0) /\ ser = Some (len (encode_rfc t0), encode_rfc t0).
Proof.
  intros refuse L t0 n own ownd w code pos rd size ser al csz w' Rt Hl Hn I E.
  destruct (client_pipeline_spec refuse L (encode_rfc t0) n own ownd w (encode_rfc_bytes_ok t0 (proj1 Rt)) Hl I)
    as (o & w1 & E1 & _ & _ & _ & Ok).
  rewrite E in E1. inversion E1; subst o w1. clear E1.
  destruct (pipeline_serialize_is_rfc _ _ _ _ _ _ _ _ _ _ _ Ok) as (t & HP & H1 & _).
  pose proof (C03_roundtrip_load L SIZE_MAX t0 [] Rt ltac:(constructor) ltac:(rewrite app_nil_r; exact Hl)) as Hr.
  rewrite app_nil_r in Hr. rewrite Hr in HP. inversion HP; subst t rd.
  rewrite (PRound_proofs.C03_idempotent L SIZE_MAX t0 Rt) in H1. split; [reflexivity|exact (H1 Hn)].
Qed.

(* ------------------------------------------------------------------------------------------ *)
(* 6. non-vacuity, by computation                                                              *)
(* ------------------------------------------------------------------------------------------ *)

(* [ (_ h'61'), 1(1) ]: an array holding a chunked byte string and a tag.  The load takes requests 0..11, the
   output buffer of cbor_serialize_alloc is request 12, cbor_copy would take requests 13..21. *)
Definition ex_buf : list N := [0x82; 0x5F; 0x41; 0x61; 0xFF; 0xC1; 0x01].
Definition ex_refuse : N -> N -> bool := fun i _ => i =? 16.     (* one request in the middle of the copy *)

(* nothing refused: every observation, 22 requests, and nothing left *)
Example ex_pipeline_granted :
  match client_pipeline (fun _ _ => false) 8 ex_buf 16 world0 with
  | Ret o w => o = PItem ENone 0 7 7 (Some (7, ex_buf)) (7, ex_buf) (Some 7) /\ live_cells w = [] /\ nreq w = 22
  | Fault _ => False
  end.
Proof. vm_compute. repeat split. Qed.

(* the 17th request (inside cbor_copy) refused: the copy is NULL, everything it had built is released, the
   item is still fully usable before that and released after; nothing left *)
Example ex_pipeline_copy_refused :
  match client_pipeline ex_refuse 8 ex_buf 16 world0 with
  | Ret o w => o = PItem ENone 0 7 7 (Some (7, ex_buf)) (7, ex_buf) None /\ live_cells w = [] /\ nreq w = 17
  | Fault _ => False
  end /\
  load 8 SIZE_MAX ex_buf = LOk (IArray false [IBytesI [[97]]; ITag 1 (IUint I8 1)]) 7.
Proof. split; vm_compute; repeat split. Qed.

(* an output buffer that is too small (return value 0), a refusal later in the copy *)
Example ex_pipeline_short_buffer :
  match client_pipeline (fun i _ => i =? 18) 8 ex_buf 4 world0 with
  | Ret o w => o = PItem ENone 0 7 7 (Some (0, [0x82; 0x5F; 0x41; 0x61])) (7, ex_buf) None /\ live_cells w = []
  | Fault _ => False
  end.
Proof. vm_compute. repeat split. Qed.

(* the same input truncated (the tag has no item), same oracle: NULL item, error code and position; and a
   refusal inside the load itself *)
Example ex_pipeline_truncated :
  match client_pipeline ex_refuse 8 [0x82; 0x5F; 0x41; 0x61; 0xFF; 0xC1] 16 world0,
        client_pipeline (fun i _ => i =? 5) 8 ex_buf 16 world0 with
  | Ret o1 w1, Ret o2 w2 =>
      o1 = PErr ENotEnough 6 /\ live_cells w1 = [] /\ o2 = PErr EMem 2 /\ live_cells w2 = []
  | _, _ => False
  end.
Proof. vm_compute. repeat split. Qed.

(* the theorem applies to these runs *)
Example ex_pipeline_theorem :
  exists o w', client_pipeline ex_refuse 8 ex_buf 16 world0 = Ret o w' /\
    pipe_ok ex_refuse 8 ex_buf 16 o /\ forall b, heap w' b = None.
Proof. apply C01_client_pipeline_world0; [|vm_compute; reflexivity].
  unfold ex_buf. repeat (constructor; [vm_compute; reflexivity|]). constructor. Qed.

Print Assumptions client_pipeline_spec.
Print Assumptions C01_client_pipeline.
Print Assumptions C01_client_pipeline_world0.
Print Assumptions pipeline_serialize_is_rfc.
Print Assumptions pipeline_roundtrip.
