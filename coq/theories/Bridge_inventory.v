(* inventories read off this run's AST: no hidden mutable global state, no direct libc allocation *)
From Coq Require Import List String Ascii Bool NArith.
Import ListNotations.
From CBGen Require Import Gen_inventory.
Local Open Scope string_scope.

Definition allocator_ptrs := ["_cbor_malloc"; "_cbor_realloc"; "_cbor_free"].
Definition mem (s : string) (l : list string) : bool := existsb (String.eqb s) l.

(* a variable with static storage duration is acceptable iff it is never assigned (directly, through a member or an element, by
   `op=`, `++`, `--`) and is either const or such that no pointer through which it could be written ever leaves an expression
   (`&v` / array decay only under a conversion to pointer-to-const or for indexing) - the callback table of cbor_load is of that
   kind, wherever it is declared and whatever it is called -, or it is one of the three allocator pointers, assigned only by
   cbor_set_allocs *)
Definition never_written (is_const : bool) (writers : list string) (escapes : bool) : bool :=
  (is_const || negb escapes) && match writers with [] => true | _ => false end.
Definition global_ok (g : string * string * string * bool * list string * bool) : bool :=
  let '(name, file, fn, is_const, writers, escapes) := g in
  never_written is_const writers escapes
  || (mem name allocator_ptrs && String.eqb file "allocators.c"
      && forallb (fun w => String.eqb w "cbor_set_allocs") writers).

Lemma bridge_globals : forallb global_ok gen_globals = true.
Proof. vm_compute. reflexivity. Qed.

(* the library does not borrow mutable state from libc either: no reference to a libc function that keeps or returns static /
   process-wide state (gmtime, localtime, strtok, rand, strerror, setlocale, getenv, ..: translator/inventory.py LIBC_STATE) *)
Lemma bridge_no_libc_static_state : gen_libc_state_refs = [].
Proof. vm_compute. reflexivity. Qed.

(* the streaming decoder, the loaders, the low-level encoders, the UTF-8 counter and the size guards keep no state
   between calls: no variable with static storage duration in their files is mutable or ever assigned *)
Definition stateless_files := ["cbor/streaming.c"; "cbor/internal/loaders.c"; "cbor/internal/encoders.c"; "cbor/encoding.c";
                               "cbor/internal/unicode.c"; "cbor/internal/memory_utils.c"; "cbor/callbacks.c"].
Definition stateless_ok (g : string * string * string * bool * list string * bool) : bool :=
  let '(name, file, fn, is_const, writers, escapes) := g in
  negb (mem file stateless_files) || never_written is_const writers escapes.
Lemma bridge_stateless_files : forallb stateless_ok gen_globals = true.
Proof. vm_compute. reflexivity. Qed.

(* the only direct references to libc allocation functions are the three initialisers *)
Definition libc_ref_ok (r : string * string * string) : bool :=
  let '(file, fn, name) := r in
  String.eqb file "allocators.c" && String.eqb fn "<file scope>"
  && mem name ["malloc"; "realloc"; "free"].
Lemma bridge_libc_refs : forallb libc_ref_ok gen_libc_refs = true.
Proof. vm_compute. reflexivity. Qed.

(* ---- widths the models rely on ---- *)
Local Open Scope N_scope.
(* every counter, size, position and reference count the models treat as a 64-bit size_t / uint64_t
   is declared with that width *)
Definition required_fields : list (string * string) := [
  ("_cbor_stack", "size"); ("_cbor_stack_record", "subitems"); ("cbor_item_t", "refcount");
  ("_cbor_array_metadata", "allocated"); ("_cbor_array_metadata", "end_ptr");
  ("_cbor_map_metadata", "allocated"); ("_cbor_map_metadata", "end_ptr");
  ("_cbor_bytestring_metadata", "length"); ("_cbor_string_metadata", "length"); ("_cbor_string_metadata", "codepoint_count");
  ("_cbor_tag_metadata", "value"); ("cbor_indefinite_string_data", "chunk_count"); ("cbor_indefinite_string_data", "chunk_capacity");
  ("cbor_decoder_result", "read"); ("cbor_decoder_result", "required"); ("cbor_error", "position"); ("cbor_load_result", "read") ]%string.
Definition field_is_64 (sf : string * string) : bool :=
  existsb (fun g => let '(s, f, b) := g in String.eqb s (fst sf) && String.eqb f (snd sf) && (b =? 64)) gen_fields.
Lemma bridge_field_widths : forallb field_is_64 required_fields = true.
Proof. vm_compute. reflexivity. Qed.

(* no implicit integer conversion from a 64-bit type to a narrower one anywhere in the library's .c
   files: sizes, offsets and counts are never silently truncated (explicit casts are not listed) *)
Lemma bridge_no_narrowing_from_64 :
  forallb (fun g => let '(_, _, from, _, _) := g in from <? 64) gen_narrowing = true.
Proof. vm_compute. reflexivity. Qed.

(* ---- AUDIT2: the plan translator (translator/effects.py) drops the arm names of union cbor_item_metadata (`metadata.type` whatever
   the arm), yet `type` sits at offset 8 in bytestring_metadata and at 16 in string / array / map_metadata: an accessor of one item
   kind reading through the arm of another kind would be translated to the same text.  Each file may only name the arm(s) of the
   item kind it implements; cbor_decref and the serializer reach the child pointers of maps and tags directly. ---- *)
Local Open Scope string_scope.
Definition arms_allowed (file : string) : list string :=
  if String.eqb file "cbor/arrays.c" then ["array_metadata"]
  else if String.eqb file "cbor/maps.c" then ["map_metadata"]
  else if String.eqb file "cbor/bytestrings.c" then ["bytestring_metadata"]
  else if String.eqb file "cbor/strings.c" then ["string_metadata"]
  else if String.eqb file "cbor/tags.c" then ["tag_metadata"]
  else if String.eqb file "cbor/ints.c" then ["int_metadata"]
  else if String.eqb file "cbor/floats_ctrls.c" then ["float_ctrl_metadata"]
  else if String.eqb file "cbor/common.c" then ["map_metadata"; "tag_metadata"]
  else if String.eqb file "cbor/serialization.c" then ["tag_metadata"]
  else [].
Definition arm_ok (a : string * string * string) : bool := let '(file, _, arm) := a in mem arm (arms_allowed file).
Lemma bridge_union_arms : forallb arm_ok gen_union_arms = true.
Proof. vm_compute. reflexivity. Qed.

(* ---- AUDIT2: the translators see one preprocessor configuration (clang; the cmake definitions; neither NDEBUG nor DEBUG), the
   compiled library another (gcc; -DNDEBUG or -DDEBUG): a conditional on any macro that differs between the two would be translated
   from one branch and compiled from the other.  The conditionals of src/ may only test these macros (IS_BIG_ENDIAN and
   CBOR_PRETTY_PRINTER come from the same configuration.h on both sides; DEBUG only switches CBOR_ASSERT and _cbor_enable_assert;
   __GNUC__ / _MSC_VER / the HAS_ macros select attribute spellings). ---- *)
Definition pp_allowed := ["CBOR_PRETTY_PRINTER"; "__cplusplus"; "DEBUG"; "CBOR_HAS_NODISCARD_ATTRIBUTE"; "__GNUC__"; "_MSC_VER";
                          "CBOR_HAS_BUILTIN_UNREACHABLE"; "IS_BIG_ENDIAN"].
Lemma bridge_pp_conditionals : forallb (fun m => mem m pp_allowed) gen_pp_macros = true.
Proof. vm_compute. reflexivity. Qed.

(* ---- call graph of this run (every function defined with a body under src/, the functions it names or calls, the number of
   its stores through memory): two reachability obligations.  An empty graph means the inventory could not be generated (reported as
   TRANSLATOR-DEGRADED by the runner); nothing is concluded from it. ---- *)
Local Open Scope N_scope.
Definition cg_find (f : string) : option (string * string * N * list string) :=
  find (fun e => let '(g, _, _, _) := e in String.eqb g f) gen_callgraph.
(* every name reachable from [todo] through the bodies of the functions defined under src/ (externs and calls through pointers are
   kept as leaves); the fuel is the number of functions plus one, and a name is expanded at most once *)
Fixpoint cg_reach (fuel : nat) (todo seen : list string) : list string :=
  match fuel with
  | O => todo ++ seen
  | S k =>
    match todo with
    | [] => seen
    | f :: rest =>
      if mem f seen then cg_reach k rest seen
      else match cg_find f with
           | Some (_, _, _, cs) => cg_reach k (cs ++ rest) (f :: seen)
           | None => cg_reach k rest (f :: seen)
           end
    end
  end.
(* each expansion consumes one unit and adds a new name to [seen]; a skipped name consumes one unit too, so the fuel is the number
   of edges plus nodes *)
Definition cg_fuel : nat := S (fold_right (fun e acc => let '(_, _, _, cs) := e in S (List.length cs + acc)) O gen_callgraph).
Definition cg_closure (f : string) : list string := cg_reach cg_fuel [f] [].

(* C18: the predicates and getters that hand out no reference.  From each of them, no function that stores through memory (a
   pointer, a member of a pointed-to object, an element of a pointed-to array, a variable with static storage) is reachable, no call
   goes through a pointer, and the only functions without a body under src/ are these side-effect-free builtins. *)
Definition pure_externs := ["__builtin_nanf"; "__builtin_nan"; "__builtin_inff"; "__builtin_inf"; "__builtin_isnan"; "__builtin_isinf";
                            "__builtin_huge_valf"; "__builtin_huge_val"; "ldexp"; "ldexpf"; "fabs"; "fabsf"; "strlen"; "memcmp";
                            "__builtin_unreachable"; "__builtin_expect"]%string.
Definition readonly_getters := [
  "cbor_typeof"; "cbor_isa_uint"; "cbor_isa_negint"; "cbor_isa_bytestring"; "cbor_isa_string"; "cbor_isa_array"; "cbor_isa_map";
  "cbor_isa_tag"; "cbor_isa_float_ctrl"; "cbor_is_int"; "cbor_is_float"; "cbor_is_bool"; "cbor_is_null"; "cbor_is_undef";
  "cbor_refcount";
  "cbor_int_get_width"; "cbor_get_uint8"; "cbor_get_uint16"; "cbor_get_uint32"; "cbor_get_uint64"; "cbor_get_int";
  "cbor_float_get_width"; "cbor_float_ctrl_is_ctrl"; "cbor_float_get_float2"; "cbor_float_get_float4"; "cbor_float_get_float8";
  "cbor_float_get_float"; "cbor_ctrl_value"; "cbor_get_bool";
  "cbor_bytestring_length"; "cbor_bytestring_handle"; "cbor_bytestring_is_definite"; "cbor_bytestring_is_indefinite";
  "cbor_bytestring_chunks_handle"; "cbor_bytestring_chunk_count";
  "cbor_string_length"; "cbor_string_handle"; "cbor_string_codepoint_count"; "cbor_string_is_definite"; "cbor_string_is_indefinite";
  "cbor_string_chunks_handle"; "cbor_string_chunk_count";
  "cbor_array_size"; "cbor_array_allocated"; "cbor_array_is_definite"; "cbor_array_is_indefinite"; "cbor_array_handle";
  "cbor_map_size"; "cbor_map_allocated"; "cbor_map_is_definite"; "cbor_map_is_indefinite"; "cbor_map_handle";
  "cbor_tag_value" ]%string.
Definition name_pure (g : string) : bool :=
  match cg_find g with
  | Some (_, _, stores, _) => stores =? 0
  | None => mem g pure_externs
  end.
Definition getter_pure (f : string) : bool :=
  match cg_find f with Some _ => forallb name_pure (cg_closure f) | None => false end.
Lemma bridge_readonly_getters :
  match gen_callgraph with [] => true | _ => forallb getter_pure readonly_getters end = true.
Proof. vm_compute. reflexivity. Qed.

(* C13 / C08 / C07: the streaming decoder, the low-level encoders, fixed-buffer serialization and size computation request no
   memory: neither the allocator pointers nor any libc allocation function is reachable from them, and the only calls through a
   pointer are the client's callbacks invoked by cbor_stream_decode. *)
Definition alloc_names := ["*_cbor_malloc"; "*_cbor_realloc"; "*_cbor_free"; "_cbor_malloc"; "_cbor_realloc"; "_cbor_free";
  "_cbor_alloc_multiple"; "_cbor_realloc_multiple";
  "malloc"; "calloc"; "realloc"; "free"; "strdup"; "strndup"; "alloca"; "aligned_alloc"; "posix_memalign"; "reallocarray";
  "__builtin_malloc"; "__builtin_calloc"; "__builtin_realloc"; "__builtin_free"; "__builtin_strdup"; "__builtin_strndup";
  "__builtin_alloca"; "__builtin_aligned_alloc"; "__builtin_alloca_with_align";
  "memalign"; "valloc"; "pvalloc"; "cfree"; "asprintf"; "vasprintf"; "getline"; "getdelim"; "open_memstream"; "realpath"; "mmap";
  "munmap"; "sbrk"; "brk"]%string.
Definition decoder_callbacks := ["*uint8"; "*uint16"; "*uint32"; "*uint64"; "*negint8"; "*negint16"; "*negint32"; "*negint64";
  "*byte_string"; "*byte_string_start"; "*string"; "*string_start"; "*array_start"; "*indef_array_start"; "*map_start";
  "*indef_map_start"; "*tag"; "*float2"; "*float4"; "*float8"; "*null"; "*undefined"; "*boolean"; "*indef_break"]%string.
Definition is_indirect (g : string) : bool := match g with String "*"%char _ => true | _ => false end.
Definition no_alloc_api := [
  "cbor_stream_decode";
  "cbor_encode_uint8"; "cbor_encode_uint16"; "cbor_encode_uint32"; "cbor_encode_uint64"; "cbor_encode_uint";
  "cbor_encode_negint8"; "cbor_encode_negint16"; "cbor_encode_negint32"; "cbor_encode_negint64"; "cbor_encode_negint";
  "cbor_encode_bytestring_start"; "cbor_encode_indef_bytestring_start"; "cbor_encode_string_start"; "cbor_encode_indef_string_start";
  "cbor_encode_array_start"; "cbor_encode_indef_array_start"; "cbor_encode_map_start"; "cbor_encode_indef_map_start";
  "cbor_encode_tag"; "cbor_encode_bool"; "cbor_encode_null"; "cbor_encode_undef"; "cbor_encode_half"; "cbor_encode_single";
  "cbor_encode_double"; "cbor_encode_break"; "cbor_encode_ctrl";
  "cbor_serialize"; "cbor_serialize_uint"; "cbor_serialize_negint"; "cbor_serialize_bytestring"; "cbor_serialize_string";
  "cbor_serialize_array"; "cbor_serialize_map"; "cbor_serialize_tag"; "cbor_serialize_float_ctrl"; "cbor_serialized_size" ]%string.
(* a call through a parameter or an automatic variable of the function ("*(local)") is not a way to reach the allocator by itself:
   wherever a function names an allocator pointer - also to copy it into such a variable - the reference is recorded as `*_cbor_..` *)
Definition name_allocfree (g : string) : bool :=
  negb (mem g alloc_names) && (negb (is_indirect g) || mem g decoder_callbacks || String.eqb g "*(local)").
Definition fn_allocfree (f : string) : bool :=
  match cg_find f with Some _ => forallb name_allocfree (cg_closure f) | None => false end.
Lemma bridge_no_alloc_reachable :
  match gen_callgraph with [] => true | _ => forallb fn_allocfree no_alloc_api end = true.
Proof. vm_compute. reflexivity. Qed.

(* the closure is not vacuous: from cbor_load the allocator IS reachable, and cbor_incref (reached from cbor_array_get) stores *)
Example cg_closure_sees_the_allocator :
  match gen_callgraph with [] => true | _ => negb (fn_allocfree "cbor_load") && negb (getter_pure "cbor_array_get") end = true.
Proof. vm_compute. reflexivity. Qed.
