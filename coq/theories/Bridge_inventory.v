(* inventories read off this run's AST: no hidden mutable global state, no direct libc allocation *)
From Coq Require Import List String Bool NArith.
Import ListNotations.
From CBGen Require Import Gen_inventory.
Local Open Scope string_scope.

Definition allocator_ptrs := ["_cbor_malloc"; "_cbor_realloc"; "_cbor_free"].
Definition mem (s : string) (l : list string) : bool := existsb (String.eqb s) l.

(* a variable with static storage duration is acceptable iff it is const and never assigned, or
   one of the three allocator pointers assigned only by cbor_set_allocs, or the callback table
   local to cbor_load, which is never assigned *)
Definition global_ok (g : string * string * string * bool * list string) : bool :=
  let '(name, file, fn, is_const, writers) := g in
  (is_const && match writers with [] => true | _ => false end)
  || (mem name allocator_ptrs && String.eqb file "allocators.c"
      && forallb (fun w => String.eqb w "cbor_set_allocs") writers)
  || (String.eqb name "callbacks" && String.eqb fn "cbor_load"
      && match writers with [] => true | _ => false end).

Lemma bridge_globals : forallb global_ok gen_globals = true.
Proof. vm_compute. reflexivity. Qed.

(* the only direct references to libc allocation functions are the three initialisers *)
Definition libc_ref_ok (r : string * string * string) : bool :=
  let '(file, fn, name) := r in
  String.eqb file "allocators.c" && String.eqb fn "<file scope>"
  && mem name ["malloc"; "realloc"; "free"].
Lemma bridge_libc_refs : forallb libc_ref_ok gen_libc_refs = true.
Proof. vm_compute. reflexivity. Qed.
