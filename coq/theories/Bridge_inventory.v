(* inventories read off this run's AST: no hidden mutable global state, no direct libc allocation *)
From Coq Require Import List String Bool NArith.
Import ListNotations.
From CBGen Require Import Gen_inventory.
Local Open Scope string_scope.

Definition allocator_ptrs := ["_cbor_malloc"; "_cbor_realloc"; "_cbor_free"].
Definition mem (s : string) (l : list string) : bool := existsb (String.eqb s) l.

(* a variable with static storage duration is acceptable iff it is const and never assigned, or
   one of the three allocator pointers assigned only by cbor_set_allocs, or the callback table
   local to cbor_load, which is never assigned *)
Definition global_ok (g : string * string * string * bool * list string) : bool :=
  let '(name, file, fn, is_const, writers) := g in
  (is_const && match writers with [] => true | _ => false end)
  || (mem name allocator_ptrs && String.eqb file "allocators.c"
      && forallb (fun w => String.eqb w "cbor_set_allocs") writers)
  || (String.eqb name "callbacks" && String.eqb fn "cbor_load"
      && match writers with [] => true | _ => false end).

Lemma bridge_globals : forallb global_ok gen_globals = true.
Proof. vm_compute. reflexivity. Qed.

(* the streaming decoder, the loaders, the low-level encoders, the UTF-8 counter and the size guards keep no state
   between calls: no variable with static storage duration in their files is mutable or ever assigned *)
Definition stateless_files := ["cbor/streaming.c"; "cbor/internal/loaders.c"; "cbor/internal/encoders.c"; "cbor/encoding.c";
                               "cbor/internal/unicode.c"; "cbor/internal/memory_utils.c"; "cbor/callbacks.c"].
Definition stateless_ok (g : string * string * string * bool * list string) : bool :=
  let '(name, file, fn, is_const, writers) := g in
  negb (mem file stateless_files) || (is_const && match writers with [] => true | _ => false end).
Lemma bridge_stateless_files : forallb stateless_ok gen_globals = true.
Proof. vm_compute. reflexivity. Qed.

(* the only direct references to libc allocation functions are the three initialisers *)
Definition libc_ref_ok (r : string * string * string) : bool :=
  let '(file, fn, name) := r in
  String.eqb file "allocators.c" && String.eqb fn "<file scope>"
  && mem name ["malloc"; "realloc"; "free"].
Lemma bridge_libc_refs : forallb libc_ref_ok gen_libc_refs = true.
Proof. vm_compute. reflexivity. Qed.

(* ---- widths the models rely on ---- *)
Local Open Scope N_scope.
(* every counter, size, position and reference count the models treat as a 64-bit size_t / uint64_t
   is declared with that width *)
Definition required_fields : list (string * string) := [
  ("_cbor_stack", "size"); ("_cbor_stack_record", "subitems"); ("cbor_item_t", "refcount");
  ("_cbor_array_metadata", "allocated"); ("_cbor_array_metadata", "end_ptr");
  ("_cbor_map_metadata", "allocated"); ("_cbor_map_metadata", "end_ptr");
  ("_cbor_bytestring_metadata", "length"); ("_cbor_string_metadata", "length"); ("_cbor_string_metadata", "codepoint_count");
  ("_cbor_tag_metadata", "value"); ("cbor_indefinite_string_data", "chunk_count"); ("cbor_indefinite_string_data", "chunk_capacity");
  ("cbor_decoder_result", "read"); ("cbor_decoder_result", "required"); ("cbor_error", "position"); ("cbor_load_result", "read") ]%string.
Definition field_is_64 (sf : string * string) : bool :=
  existsb (fun g => let '(s, f, b) := g in String.eqb s (fst sf) && String.eqb f (snd sf) && (b =? 64)) gen_fields.
Lemma bridge_field_widths : forallb field_is_64 required_fields = true.
Proof. vm_compute. reflexivity. Qed.

(* no implicit integer conversion from a 64-bit type to a narrower one anywhere in the library's .c
   files: sizes, offsets and counts are never silently truncated (explicit casts are not listed) *)
Lemma bridge_no_narrowing_from_64 :
  forallb (fun g => let '(_, _, from, _, _) := g in from <? 64) gen_narrowing = true.
Proof. vm_compute. reflexivity. Qed.

(* ---- AUDIT2: the plan translator (translator/effects.py) drops the arm names of union cbor_item_metadata (`metadata.type` whatever
   the arm), yet `type` sits at offset 8 in bytestring_metadata and at 16 in string / array / map_metadata: an accessor of one item
   kind reading through the arm of another kind would be translated to the same text.  Each file may only name the arm(s) of the
   item kind it implements; cbor_decref and the serializer reach the child pointers of maps and tags directly. ---- *)
Local Open Scope string_scope.
Definition arms_allowed (file : string) : list string :=
  if String.eqb file "cbor/arrays.c" then ["array_metadata"]
  else if String.eqb file "cbor/maps.c" then ["map_metadata"]
  else if String.eqb file "cbor/bytestrings.c" then ["bytestring_metadata"]
  else if String.eqb file "cbor/strings.c" then ["string_metadata"]
  else if String.eqb file "cbor/tags.c" then ["tag_metadata"]
  else if String.eqb file "cbor/ints.c" then ["int_metadata"]
  else if String.eqb file "cbor/floats_ctrls.c" then ["float_ctrl_metadata"]
  else if String.eqb file "cbor/common.c" then ["map_metadata"; "tag_metadata"]
  else if String.eqb file "cbor/serialization.c" then ["tag_metadata"]
  else [].
Definition arm_ok (a : string * string * string) : bool := let '(file, _, arm) := a in mem arm (arms_allowed file).
Lemma bridge_union_arms : forallb arm_ok gen_union_arms = true.
Proof. vm_compute. reflexivity. Qed.

(* ---- AUDIT2: the translators see one preprocessor configuration (clang; the cmake definitions; neither NDEBUG nor DEBUG), the
   compiled library another (gcc; -DNDEBUG or -DDEBUG): a conditional on any macro that differs between the two would be translated
   from one branch and compiled from the other.  The conditionals of src/ may only test these macros (IS_BIG_ENDIAN and
   CBOR_PRETTY_PRINTER come from the same configuration.h on both sides; DEBUG only switches CBOR_ASSERT and _cbor_enable_assert;
   __GNUC__ / _MSC_VER / the HAS_ macros select attribute spellings). ---- *)
Definition pp_allowed := ["CBOR_PRETTY_PRINTER"; "__cplusplus"; "DEBUG"; "CBOR_HAS_NODISCARD_ATTRIBUTE"; "__GNUC__"; "_MSC_VER";
                          "CBOR_HAS_BUILTIN_UNREACHABLE"; "IS_BIG_ENDIAN"].
Lemma bridge_pp_conditionals : forallb (fun m => mem m pp_allowed) gen_pp_macros = true.
Proof. vm_compute. reflexivity. Qed.
