(* Model H: API histories — a client with a handle table issuing public-API calls.
   Definitions only. *)
From CB Require Export HOps.
Local Open Scope N_scope.

Inductive op :=
| OBuildInt (neg : bool) (w : iwidth) (v : N)
| OBuildFloat (w : fwidth) (bits : N)
| OBuildCtrl (v : N)
| OBuildString (text : bool) (bytes : list N)
| ONewIndefString (text : bool)
| ONewDefArray (n : N) | ONewIndefArray
| ONewDefMap (n : N) | ONewIndefMap
| ONewTag (v : N)
| OBuildTag (v : N) (x : nat)
| OPush (a x : nat) | OGet (a : nat) (i : N) | OSet (a : nat) (i : N) (x : nat) | OReplace (a : nat) (i : N) (x : nat)
| OMapAdd (m k v : nat)
| OAddChunk (s c : nat)
| OTagSet (t x : nat) | OTagItem (t : nat)
| OIncref (h : nat) | ODecref (h : nat)
| OCopy (h : nat)
| OLoad (bytes : list N)
| OSerSize (h : nat) | OSerialize (h : nat) (n : N) | OSerAlloc (h : nat).

(* what the client observes from one call *)
Inductive out :=
| OutHandle (ok : bool)                 (* a new handle; ok = non-NULL *)
| OutBool (b : bool)
| OutUnit
| OutNum (n : N)
| OutBytes (ret : N) (bytes : list N)   (* serialize: return value and the bytes stored *)
| OutLoadErr (code : lerr) (pos : N)
| OutLoadOk (read : N)
| OutSkip.                              (* an operand handle is NULL: the client does not make the call *)

Section Hist.
Variable refuse : N -> N -> bool.
Variable L : N.

Record cstate := mkcs { handles : list (option addr) }.

Definition hget (s : cstate) (h : nat) : option addr :=
  match nth_error (handles s) h with Some (Some a) => Some a | _ => None end.
Definition hpush (s : cstate) (o : option addr) : cstate := mkcs (handles s ++ [o]).

Definition newh (s : cstate) (m : M (option addr)) : M (cstate * out) :=
  r <- m ;; ret (hpush s r, OutHandle (match r with Some _ => true | None => false end)).

Definition with1 (s : cstate) (h : nat) (f : addr -> M (cstate * out)) : M (cstate * out) :=
  match hget s h with Some a => f a | None => ret (s, OutSkip) end.
(* for calls that would have produced a handle: the skipped call still occupies a (NULL) slot *)
Definition with1h (s : cstate) (h : nat) (f : addr -> M (cstate * out)) : M (cstate * out) :=
  match hget s h with Some a => f a | None => ret (hpush s None, OutSkip) end.
Definition with2 (s : cstate) (h1 h2 : nat) (f : addr -> addr -> M (cstate * out)) : M (cstate * out) :=
  match hget s h1, hget s h2 with Some a, Some b => f a b | _, _ => ret (s, OutSkip) end.

Definition step (s : cstate) (o : op) : M (cstate * out) :=
  match o with
  | OBuildInt neg w v => newh s (build_int refuse neg w v)
  | OBuildFloat w b => newh s (build_float refuse w b)
  | OBuildCtrl v => newh s (build_ctrl refuse v)
  | OBuildString text bytes => newh s (build_string refuse text bytes)
  | ONewIndefString text => newh s (new_indefinite_string refuse text)
  | ONewDefArray n => newh s (new_definite_array refuse n)
  | ONewIndefArray => newh s (new_indefinite_array refuse)
  | ONewDefMap n => newh s (new_definite_map refuse n)
  | ONewIndefMap => newh s (new_indefinite_map refuse)
  | ONewTag v => newh s (new_tag refuse v)
  | OBuildTag v x => with1h s x (fun a => newh s (build_tag refuse v a))
  | OPush a x => with2 s a x (fun p q => b <- array_push refuse p q ;; ret (s, OutBool b))
  | OGet a i => with1h s a (fun p => newh s (array_get p i))
  | OSet a i x => with2 s a x (fun p q => b <- array_set refuse p i q ;; ret (s, OutBool b))
  | OReplace a i x => with2 s a x (fun p q => b <- array_replace p i q ;; ret (s, OutBool b))
  | OMapAdd m k v =>
      match hget s v with
      | None => ret (s, OutSkip)
      | Some r => with2 s m k (fun p q => b <- map_add refuse p q r ;; ret (s, OutBool b))
      end
  | OAddChunk c x => with2 s c x (fun p q => b <- add_chunk refuse p q ;; ret (s, OutBool b))
  | OTagSet t x => with2 s t x (fun p q => tag_set_item p q ;;; ret (s, OutUnit))
  | OTagItem t => with1h s t (fun p => newh s (x <- tag_item p ;; ret (Some x)))
  | OIncref h => with1 s h (fun p => incref p ;;; ret (s, OutUnit))
  | ODecref h => with1 s h (fun p => decref p ;;; ret (s, OutUnit))
  | OCopy h => with1h s h (fun p => newh s (copy_h refuse p))
  | OLoad bytes =>
      r <- load_h refuse L bytes ;;
      match r with
      | (Some a, _, _, rd) => ret (hpush s (Some a), OutLoadOk rd)
      | (None, code, pos, _) => ret (hpush s None, OutLoadErr code pos)
      end
  | OSerSize h => with1 s h (fun p => n <- serialized_size_h p ;; ret (s, OutNum n))
  | OSerialize h n =>
      with1 s h (fun p => r <- serialize_h p n ;;
                          match r with
                          | Some (wr, bytes) => ret (s, OutBytes wr bytes)
                          | None => fail (FAssert 96)
                          end)
  | OSerAlloc h =>
      with1 s h (fun p => r <- serialize_alloc_h refuse p ;;
                          match r with
                          | (wr, Some buf, bytes) => free (Some buf) ;;; ret (s, OutBytes wr bytes)   (* the client frees the buffer *)
                          | (wr, None, bytes) => ret (s, OutBytes wr bytes)
                          end)
  end.

(* observation of one handle: refcount, and (count, capacity) for containers *)
Definition probe1 (w : world) (a : addr) : option (N * option (N * N)) :=
  match heap w a with
  | Some (CItem rc n) =>
      Some (rc, match n with
                | NArr _ _ allocated elems => Some (len elems, allocated)
                | NMap _ _ allocated pairs => Some (len pairs, allocated)
                | NChunked _ _ _ cap chunks => Some (len chunks, cap)
                | _ => None
                end)
  | _ => None
  end.

(* run a history; stops at the first fault *)
Fixpoint run_hist (ops : list op) (s : cstate) (acc : list out) : M (cstate * list out) :=
  match ops with
  | [] => ret (s, rev acc)
  | o :: r => so <- step s o ;; run_hist r (fst so) (snd so :: acc)
  end.

End Hist.
