(* cbor_encode_half: the classes of Bridge_leaf_ehalf1/2/3.v cover every binary32 pattern *)
From Coq Require Import ZArith NArith List Bool Lia ZifyBool ZifyN ZifyNat.
Import ListNotations.
From CB Require Import Word PStream PEnc PMem GenLeafTypes BridgeTac Bridge_leaf_float Bridge_leaf_ehalf1 Bridge_leaf_ehalf2 Bridge_leaf_ehalf3.
From CBGen Require Import Gen_leaf.
Ltac Zify.zify_post_hook ::= Z.div_mod_to_equations.
Local Open Scope Z_scope.
Lemma split32 val : (val < 2^32)%N ->
  exists s e m, (s < 2)%N /\ (e < 256)%N /\ (m < 2^23)%N /\ val = (s * 2^31 + e * 2^23 + m)%N.
Proof.
  intros H. exists (val / 2^31)%N, ((val / 2^23) mod 256)%N, (val mod 2^23)%N. pows. repeat split; lia.
Qed.

Lemma bridge_encode_half val size : (val < 2^32)%N ->
  gcbor_encode_half (Z.of_N val) (Z.of_N size) = option_map zres (encode_half val size).
Proof.
  intros Hv. destruct (split32 val Hv) as (s & e & m & Hs & He & Hm & Hval). fold (half_stmt val size).
  assert (C : (e = 0 \/ 1 <= e < 103 \/ e = 103 \/ e = 104 \/ e = 105 \/ e = 106 \/ e = 107 \/ e = 108 \/ e = 109 \/
               e = 110 \/ e = 111 \/ e = 112 \/ 113 <= e < 127 \/ 127 <= e < 255 \/ e = 255)%N) by lia.
  destruct C as [C|[C|[C|[C|[C|[C|[C|[C|[C|[C|[C|[C|[C|[C|C]]]]]]]]]]]]]]; try subst e.
  - eapply bridge_half_e0; eassumption.
  - eapply bridge_half_e1_103; eassumption.
  - eapply bridge_half_e103; eassumption.
  - eapply bridge_half_e104; eassumption.
  - eapply bridge_half_e105; eassumption.
  - eapply bridge_half_e106; eassumption.
  - eapply bridge_half_e107; eassumption.
  - eapply bridge_half_e108; eassumption.
  - eapply bridge_half_e109; eassumption.
  - eapply bridge_half_e110; eassumption.
  - eapply bridge_half_e111; eassumption.
  - eapply bridge_half_e112; eassumption.
  - eapply bridge_half_e113_127; eassumption.
  - eapply bridge_half_e127_255; eassumption.
  - eapply bridge_half_e255; eassumption.
Qed.
Print Assumptions bridge_encode_half.
