(* configuration constants as this run's cmake configure defines them = the model's constants *)
From CB Require Import Word PMem.
From CBGen Require Import Gen_config.
Local Open Scope N_scope.
Lemma bridge_growth : gen_CBOR_BUFFER_GROWTH = CBOR_BUFFER_GROWTH.
Proof. reflexivity. Qed.
Lemma bridge_stack_limit_positive : 0 < gen_CBOR_MAX_STACK_SIZE.
Proof. reflexivity. Qed.
Lemma bridge_sizeof : gen_sizeof_ptr = 8 /\ gen_sizeof_pair = 16 /\ gen_sizeof_item = 48
  /\ gen_sizeof_isd = 24 /\ gen_sizeof_rec = 24.
Proof. repeat split; reflexivity. Qed.
