(* generated loaders.c: _cbor_decode_half (ldexp uninterpreted, PHalfShape.fval) = the model's
   decode_half, through the binary32 pattern the rendered expression denotes (this run's AST).
   All three statements are exhaustive sweeps over the 65,536 half patterns. *)
From Coq Require Import ZArith NArith List Bool Lia ZifyBool ZifyN ZifyNat.
Import ListNotations.
From CB Require Import Word Word_proofs PStream PHalfShape GenLeafTypes.
From CBGen Require Import Gen_leaf.
Local Open Scope N_scope.

(* model side: the hand-written shape denotes exactly PStream.decode_half *)
Lemma shape_sweep : allb 16 (fun h => f32_bits (decode_half_shape h) =? decode_half h) 0 = true.
Proof. vm_compute. reflexivity. Qed.
Lemma decode_half_shape_bits h : h < 2^16 -> f32_bits (decode_half_shape h) = decode_half h.
Proof. intros H. apply N.eqb_eq. apply (allb16_forall _ shape_sweep h). exact H. Qed.

Definition halfsrc (h : N) : Z -> Z := srcf [h / 256; h mod 256].

(* the generated function denotes decode_half, for both bytes *)
Lemma gen_sweep : allb 16 (fun h => f32_bits (g_cbor_decode_half (halfsrc h)) =? decode_half h) 0 = true.
Proof. vm_compute. reflexivity. Qed.
Lemma bridge_decode_half b0 b1 : b0 < 256 -> b1 < 256 ->
  f32_bits (g_cbor_decode_half (srcf [b0; b1])) = decode_half (be_val [b0; b1]).
Proof.
  intros H0 H1. pose proof (allb16_forall _ gen_sweep (b0 * 256 + b1) ltac:(lia)) as H.
  apply N.eqb_eq in H. unfold halfsrc in H.
  replace ((b0 * 256 + b1) / 256) with b0 in H by lia.
  replace ((b0 * 256 + b1) mod 256) with b1 in H by lia.
  rewrite H. f_equal. cbn [be_val length]. change (256 ^ N.of_nat 1) with 256. change (256 ^ N.of_nat 0) with 1. lia.
Qed.

(* ... and falls into the same case (sign, zero / finite / infinite / NaN) as the hand-written shape *)
Definition fkind_eqb (a b : fkind) : bool :=
  match a, b with
  | KFinite n z, KFinite n' z' => Bool.eqb n n' && Bool.eqb z z'
  | KInf n, KInf n' => Bool.eqb n n'
  | KNan, KNan => true
  | _, _ => false
  end.
Lemma fkind_eqb_eq a b : fkind_eqb a b = true -> a = b.
Proof.
  destruct a as [n z|n| |], b as [n' z'|n'| |]; cbn; try discriminate; try reflexivity.
  - intros H. apply andb_prop in H. destruct H as [H1 H2]. apply Bool.eqb_prop in H1, H2. subst. reflexivity.
  - intros H. apply Bool.eqb_prop in H. subst. reflexivity.
Qed.
Lemma kind_sweep : allb 16 (fun h => fkind_eqb (fkind_of (g_cbor_decode_half (halfsrc h))) (fkind_of (decode_half_shape h))) 0 = true.
Proof. vm_compute. reflexivity. Qed.
Lemma bridge_decode_half_kind b0 b1 : b0 < 256 -> b1 < 256 ->
  fkind_of (g_cbor_decode_half (srcf [b0; b1])) = fkind_of (decode_half_shape (b0 * 256 + b1)).
Proof.
  intros H0 H1. pose proof (allb16_forall _ kind_sweep (b0 * 256 + b1) ltac:(lia)) as H.
  apply fkind_eqb_eq in H. unfold halfsrc in H.
  replace ((b0 * 256 + b1) / 256) with b0 in H by lia.
  replace ((b0 * 256 + b1) mod 256) with b1 in H by lia. exact H.
Qed.
(* AUDIT2: the sweeps run the generated function on a two-element source, where a read beyond it yields 0; the generated
   function must not depend on anything but halfp[0] and halfp[1] (an over-read would otherwise be invisible) *)
Lemma bridge_decode_half_window (s s' : Z -> Z) : (forall i, (0 <= i < 2)%Z -> s i = s' i) -> g_cbor_decode_half s = g_cbor_decode_half s'.
Proof.
  intros H.
  first [ unfold g_cbor_decode_half; first [ rewrite !H by lia; reflexivity | reflexivity ]
        | unfold g_cbor_decode_half, fb_cbor_decode_half; first [ rewrite !H by lia; reflexivity | reflexivity ] ].
Qed.
Print Assumptions bridge_decode_half.
Print Assumptions bridge_decode_half_kind.
Print Assumptions decode_half_shape_bits.
