(* cbor_encode_half, exponent classes e = 111, 112, 255, 113 <= e < 127, 127 <= e < 255 (tactics and statement in Bridge_leaf_float.v) *)
From Coq Require Import ZArith NArith List Bool Lia ZifyBool ZifyN ZifyNat.
Import ListNotations.
From CB Require Import Word PStream PEnc PMem GenLeafTypes BridgeTac Bridge_leaf_enc Bridge_leaf_float.
From CBGen Require Import Gen_leaf.
Ltac Zify.zify_post_hook ::= Z.div_mod_to_equations.
Local Open Scope Z_scope.
Lemma bridge_half_e111 val s m size : (s < 2)%N -> (m < 2^23)%N -> val = (s * 2^31 + 111 * 2^23 + m)%N -> half_stmt val size.
Proof. unfold half_stmt. intros Hs Hm Hval. half_go val s 111%N m 111. Qed.
Lemma bridge_half_e112 val s m size : (s < 2)%N -> (m < 2^23)%N -> val = (s * 2^31 + 112 * 2^23 + m)%N -> half_stmt val size.
Proof. unfold half_stmt. intros Hs Hm Hval. half_go val s 112%N m 112. Qed.
Lemma bridge_half_e255 val s m size : (s < 2)%N -> (m < 2^23)%N -> val = (s * 2^31 + 255 * 2^23 + m)%N -> half_stmt val size.
Proof. unfold half_stmt. intros Hs Hm Hval. half_go val s 255%N m 255. Qed.
Lemma bridge_half_e113_127 val s e m size : (s < 2)%N -> (m < 2^23)%N -> val = (s * 2^31 + e * 2^23 + m)%N ->
  (113 <= e < 127)%N -> half_stmt val size.
Proof. unfold half_stmt. intros Hs Hm Hval Hc. half_go val s e m 113. Qed.
Lemma bridge_half_e127_255 val s e m size : (s < 2)%N -> (m < 2^23)%N -> val = (s * 2^31 + e * 2^23 + m)%N ->
  (127 <= e < 255)%N -> half_stmt val size.
Proof. unfold half_stmt. intros Hs Hm Hval Hc. half_go val s e m 127. Qed.
