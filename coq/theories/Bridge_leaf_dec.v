(* generated loaders.c / claim_bytes = the model's loads and claim_bytes (this run's AST) *)
From Coq Require Import ZArith NArith List Bool Lia ZifyBool ZifyN ZifyNat.
Import ListNotations.
From CB Require Import Word PStream PEnc PMem GenLeafTypes BridgeTac.
From CBGen Require Import Gen_leaf.
Ltac Zify.zify_post_hook ::= Z.div_mod_to_equations.
Local Open Scope Z_scope.
(* ---- loaders.c: big-endian loads ---- *)
Ltac loads :=
  unfold srcf, be_val;
  repeat match goal with
  | |- context [Z.to_nat ?k] => let v := eval vm_compute in (Z.to_nat k) in change (Z.to_nat k) with v
  end;
  cbn [nth length];
  repeat match goal with
  | |- context [N.pow 256 (N.of_nat ?k)] => let v := eval vm_compute in (N.pow 256 (N.of_nat k)) in change (N.pow 256 (N.of_nat k)) with v
  end.

Lemma bridge_load_uint16 b0 b1 : (b0 < 256)%N -> (b1 < 256)%N ->
  g_cbor_load_uint16 (srcf [b0; b1]) = Z.of_N (be_val [b0; b1]).
Proof.
  intros.
  first [ unfold g_cbor_load_uint16; loads; norm; lia
        | unfold g_cbor_load_uint16, fb_cbor_load_uint16, srcf; cbn [map Z.to_nat Pos.to_nat Pos.iter_op Nat.add nth]; rewrite !N2Z.id; reflexivity ].
Qed.

Lemma bridge_load_uint32 b0 b1 b2 b3 : (b0 < 256)%N -> (b1 < 256)%N -> (b2 < 256)%N -> (b3 < 256)%N ->
  g_cbor_load_uint32 (srcf [b0; b1; b2; b3]) = Z.of_N (be_val [b0; b1; b2; b3]).
Proof.
  intros.
  first [ unfold g_cbor_load_uint32; loads; norm; lia
        | unfold g_cbor_load_uint32, fb_cbor_load_uint32, srcf; cbn [map Z.to_nat Pos.to_nat Pos.iter_op Nat.add nth]; rewrite !N2Z.id; reflexivity ].
Qed.

Lemma bridge_load_uint64 b0 b1 b2 b3 b4 b5 b6 b7 :
  (b0 < 256)%N -> (b1 < 256)%N -> (b2 < 256)%N -> (b3 < 256)%N -> (b4 < 256)%N -> (b5 < 256)%N -> (b6 < 256)%N -> (b7 < 256)%N ->
  g_cbor_load_uint64 (srcf [b0; b1; b2; b3; b4; b5; b6; b7]) = Z.of_N (be_val [b0; b1; b2; b3; b4; b5; b6; b7]).
Proof.
  intros.
  first [ unfold g_cbor_load_uint64; loads; norm; lia
        | unfold g_cbor_load_uint64, fb_cbor_load_uint64, srcf; cbn [map Z.to_nat Pos.to_nat Pos.iter_op Nat.add nth]; rewrite !N2Z.id; reflexivity ].
Qed.

(* ---- AUDIT2: the loaders read nothing but their k bytes.  The lemmas above run the generated loader on [srcf [b0; ..]], where a
   read beyond the list yields 0: an over-read (`+ *(source + 2)`) was invisible to them.  Here the source is arbitrary outside the window. ---- *)
Ltac window H := first [ rewrite !H by lia; reflexivity | reflexivity ].
Lemma bridge_load_uint16_window s s' : (forall i, 0 <= i < 2 -> s i = s' i) -> g_cbor_load_uint16 s = g_cbor_load_uint16 s'.
Proof. intros H. first [ unfold g_cbor_load_uint16; window H | unfold g_cbor_load_uint16, fb_cbor_load_uint16; cbn [map]; window H ]. Qed.
Lemma bridge_load_uint32_window s s' : (forall i, 0 <= i < 4 -> s i = s' i) -> g_cbor_load_uint32 s = g_cbor_load_uint32 s'.
Proof. intros H. first [ unfold g_cbor_load_uint32; window H | unfold g_cbor_load_uint32, fb_cbor_load_uint32; cbn [map]; window H ]. Qed.
Lemma bridge_load_uint64_window s s' : (forall i, 0 <= i < 8 -> s i = s' i) -> g_cbor_load_uint64 s = g_cbor_load_uint64 s'.
Proof. intros H. first [ unfold g_cbor_load_uint64; window H | unfold g_cbor_load_uint64, fb_cbor_load_uint64; cbn [map]; window H ]. Qed.

(* ---- streaming.c: claim_bytes ---- *)
Lemma bridge_claim_bytes required provided r : (required < 2^64)%N -> (provided < 2^64)%N -> (rd r < 2^64)%N ->
  gclaim_bytes (Z.of_N required) (Z.of_N provided) (Z.of_N (rd r)) (zstatus (st r)) (Z.of_N (req r)) =
  let (ok, r') := claim_bytes required provided r in
  (b2z ok, Z.of_N (rd r'), zstatus (st r'), Z.of_N (req r')).
Proof.
  intros H1 H2 H3.
  first [ unfold gclaim_bytes, claim_bytes, sat_add64, sub64; cbv zeta; norm;
          splits; cbn [rd st req zstatus]; repeat f_equal; pows; try lia; fail
        | unfold gclaim_bytes, fbclaim_bytes; rewrite !N2Z.id;
          replace (status_of (zstatus (st r))) with (st r) by (destruct (st r); reflexivity);
          destruct r; reflexivity ].
Qed.
