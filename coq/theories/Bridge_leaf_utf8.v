(* generated unicode.c: _cbor_unicode_decode / _cbor_unicode_codepoint_count = the model's DFA step and
   code point count of PUtf8.v (this run's AST, this run's utf8d table) *)
From Coq Require Import ZArith NArith List Bool Lia ZifyBool ZifyN ZifyNat.
Import ListNotations.
From CB Require Import Word Word_proofs PStream PEnc PMem PUtf8 GenLeafTypes BridgeTac Bridge_utf8d.
From CBGen Require Import Gen_utf8d Gen_leaf.
Ltac Zify.zify_post_hook ::= Z.div_mod_to_equations.
Local Open Scope Z_scope.

(* ---- _cbor_unicode_decode: exhaustive over the 16 x 256 (state, byte) pairs, for every *codep ----
   compared: definedness, the return value and the new *state (the model does not compute *codep);
   states 9..15 are outside the table: both sides are "undefined behaviour" *)
Definition opt_zz_eqb (a b : option (Z * Z)) : bool :=
  match a, b with
  | Some (x, y), Some (x', y') => (x =? x') && (y =? y')
  | None, None => true
  | _, _ => false
  end.
Lemma opt_zz_eqb_eq a b : opt_zz_eqb a b = true -> a = b.
Proof.
  destruct a as [[x y]|], b as [[x' y']|]; cbn; try discriminate; try reflexivity.
  intros H. apply andb_prop in H. destruct H as [H1 H2]. apply Z.eqb_eq in H1, H2. subst. reflexivity.
Qed.
Definition proj_rs (r : option (Z * Z * Z)) : option (Z * Z) := option_map (fun t => (fst (fst t), snd (fst t))) r.
Definition decode_ok (codep : Z) (h : N) : bool :=
  let state := (h / 256)%N in let byte := (h mod 256)%N in
  opt_zz_eqb (proj_rs (g_cbor_unicode_decode (Z.of_N state) codep (Z.of_N byte)))
             (option_map (fun s => (Z.of_N s, Z.of_N s)) (unicode_decode gen_utf8d state byte)).
Lemma decode_sweep codep : allb 12 (decode_ok codep) 0 = true.
Proof. vm_compute. reflexivity. Qed.

Lemma bridge_unicode_decode state byte codep : (state < 16)%N -> (byte < 256)%N ->
  proj_rs (g_cbor_unicode_decode (Z.of_N state) codep (Z.of_N byte)) =
  option_map (fun s => (Z.of_N s, Z.of_N s)) (unicode_decode gen_utf8d state byte).
Proof.
  intros Hs Hb. pose proof (allb_forall 12 (decode_ok codep) 0 (decode_sweep codep) (state * 256 + byte)%N ltac:(cbn; lia)) as H.
  unfold decode_ok in H. cbv zeta in H.
  replace ((state * 256 + byte) / 256)%N with state in H by lia.
  replace ((state * 256 + byte) mod 256)%N with byte in H by lia.
  apply opt_zz_eqb_eq, H.
Qed.

(* the DFA never leaves 0..8 and never reads outside the table from there (this run's table) *)
Definition closed_ok (h : N) : bool :=
  let state := (h / 256)%N in let byte := (h mod 256)%N in
  if (state <? 9)%N then match unicode_decode gen_utf8d state byte with Some s' => (s' <? 9)%N | None => false end else true.
Lemma closed_sweep : allb 12 closed_ok 0 = true.
Proof. vm_compute. reflexivity. Qed.
Lemma decode_closed state byte : (state < 9)%N -> (byte < 256)%N ->
  exists s', unicode_decode gen_utf8d state byte = Some s' /\ (s' < 9)%N.
Proof.
  intros Hs Hb. pose proof (allb_forall 12 closed_ok 0 closed_sweep (state * 256 + byte)%N ltac:(cbn; lia)) as H.
  unfold closed_ok in H. cbv zeta in H.
  replace ((state * 256 + byte) / 256)%N with state in H by lia.
  replace ((state * 256 + byte) mod 256)%N with byte in H by lia.
  destruct (N.ltb_spec state 9); [|lia].
  destruct (unicode_decode gen_utf8d state byte) as [s'|]; [|discriminate]. exists s'. split; [reflexivity|lia].
Qed.

(* ---- _cbor_unicode_codepoint_count: the loop, through the generic combinator ----
   state of the loop = (codepoint, count, pos, res, state, exit); exit = 2 is `goto error` from the body,
   -1 undefined behaviour.  The loop is characterised by three facts about its condition and body
   (discharged below by unfolding + the decode bridge + normalise / split / lia), then one induction on
   the unread suffix relates it to the model's cp_loop. *)
Definition lstate := (Z * Z * Z * Z * Z * Z)%type.
Section Count.
Variable bs : list N.
Hypothesis Hbs : Forall (fun b => (b < 256)%N) bs.
Variables (C : lstate -> bool) (B : lstate -> lstate).
Hypothesis HC0 : forall cp cnt pos res st, (pos <= len bs)%N -> C (cp, cnt, Z.of_N pos, res, st, 0) = (pos <? len bs)%N.
Hypothesis HCx : forall cp cnt pos res st, C (cp, cnt, pos, res, st, 2) = false.
Hypothesis HB : forall cp cnt pos res st, (pos < len bs)%N -> (st < 9)%N -> (cnt <= pos)%N -> (len bs < 2^64)%N ->
  match unicode_decode gen_utf8d st (nth (N.to_nat pos) bs 0%N) with
  | Some st' =>
      let '(cp', c', p', r', s', x') := B (cp, Z.of_N cnt, Z.of_N pos, res, Z.of_N st, 0) in
      if (st' =? 0)%N then c' = Z.of_N (cnt + 1) /\ p' = Z.of_N (pos + 1) /\ s' = 0 /\ x' = 0
      else if (st' =? 1)%N then x' = 2
      else c' = Z.of_N cnt /\ p' = Z.of_N (pos + 1) /\ s' = Z.of_N st' /\ x' = 0
  | None => True
  end.

Lemma nth_app_here (pre : list N) b r : nth (N.to_nat (len pre)) (pre ++ b :: r) 0%N = b.
Proof. unfold len. rewrite Nnat.Nat2N.id, app_nth2, Nat.sub_diag by lia. reflexivity. Qed.

Lemma count_loop : (len bs < 2^64)%N -> forall rest pre cp cnt res st f, bs = pre ++ rest -> (st < 9)%N -> (cnt <= len pre)%N -> (length rest < f)%nat ->
  match cp_loop gen_utf8d rest st cnt with
  | Some (c, true) => exists cp' res', wloop f C B (cp, Z.of_N cnt, Z.of_N (len pre), res, Z.of_N st, 0) = (cp', Z.of_N c, Z.of_N (len bs), res', 0, 0)
  | Some (c, false) => c = 0%N /\
      ((exists cp' cnt' pos' res' st', wloop f C B (cp, Z.of_N cnt, Z.of_N (len pre), res, Z.of_N st, 0) = (cp', cnt', pos', res', st', 2)) \/
       (exists cp' cnt' res' st', st' <> 0 /\ wloop f C B (cp, Z.of_N cnt, Z.of_N (len pre), res, Z.of_N st, 0) = (cp', cnt', Z.of_N (len bs), res', st', 0)))
  | None => False
  end.
Proof.
  intros Hlen. induction rest as [|b r IH]; intros pre cp cnt res st f Hsplit Hst Hcnt Hf.
  - rewrite app_nil_r in Hsplit. subst pre. destruct f as [|f']; [lia|].
    cbn [wloop cp_loop]. rewrite HC0 by lia. rewrite N.ltb_irrefl. unfold UTF8_ACCEPT.
    destruct (N.eqb_spec st 0) as [->|Hne].
    + exists cp, res. reflexivity.
    + split; [reflexivity|]. right. exists cp, (Z.of_N cnt), res, (Z.of_N st). split; [lia|reflexivity].
  - destruct f as [|f']; [cbn in Hf; lia|]. cbn [wloop cp_loop].
    assert (Hpos : (len pre < len bs)%N) by (subst bs; unfold len; rewrite app_length; cbn [length]; lia).
    rewrite HC0 by lia. replace (len pre <? len bs)%N with true by (symmetry; apply N.ltb_lt; exact Hpos).
    pose proof (HB cp cnt (len pre) res st Hpos Hst Hcnt Hlen) as Hb.
    rewrite Hsplit, nth_app_here in Hb.
    assert (Hbyte : (b < 256)%N).
    { rewrite Hsplit in Hbs. apply Forall_app in Hbs. destruct Hbs as [_ H2]. inversion H2; assumption. }
    destruct (decode_closed st b Hst Hbyte) as (st' & Hdec & Hst'). rewrite Hdec in Hb |- *.
    destruct (B (cp, Z.of_N cnt, Z.of_N (len pre), res, Z.of_N st, 0)) as [[[[[cp' c'] p'] r'] s'] x'].
    assert (Hlen' : len (pre ++ [b]) = (len pre + 1)%N) by (unfold len; rewrite app_length; cbn [length]; lia).
    unfold UTF8_ACCEPT, UTF8_REJECT.
    destruct (N.eqb_spec st' 0) as [->|Hn0].
    + destruct Hb as (-> & -> & -> & ->).
      specialize (IH (pre ++ [b]) cp' (cnt + 1)%N r' 0%N f' ltac:(rewrite <- app_assoc; exact Hsplit) ltac:(lia) ltac:(lia) ltac:(cbn in Hf; lia)).
      rewrite Hlen' in IH. exact IH.
    + destruct (N.eqb_spec st' 1) as [->|Hn1].
      * subst x'. split; [reflexivity|]. left. exists cp', c', p', r', s'.
        destruct f' as [|f'']; [reflexivity|]. cbn [wloop]. rewrite HCx. reflexivity.
      * destruct Hb as (-> & -> & -> & ->).
        specialize (IH (pre ++ [b]) cp' cnt r' st' f' ltac:(rewrite <- app_assoc; exact Hsplit) Hst' ltac:(lia) ltac:(cbn in Hf; lia)).
        rewrite Hlen' in IH. exact IH.
Qed.
End Count.

Lemma bytes_of_srcf bs : bytes_of (srcf bs) (Z.of_N (len bs)) = bs.
Proof.
  unfold bytes_of, srcf, len. replace (Z.to_nat (Z.of_N (N.of_nat (length bs)))) with (length bs) by lia.
  apply nth_ext with (d := 0%N) (d' := 0%N).
  - rewrite map_length, seq_length. reflexivity.
  - intros n Hn. rewrite map_length, seq_length in Hn.
    rewrite (nth_indep _ 0%N (Z.to_N (Z.of_N (nth (Z.to_nat (Z.of_nat 0)) bs 0%N)))) by (rewrite map_length, seq_length; exact Hn).
    rewrite (map_nth (fun i => Z.to_N (Z.of_N (nth (Z.to_nat (Z.of_nat i)) bs 0%N))) (seq 0 (length bs)) 0%nat n).
    rewrite seq_nth by exact Hn. rewrite Nat2Z.id, N2Z.id. reflexivity.
Qed.
Lemma srcf_nth bs pos : srcf bs (Z.of_N pos) = Z.of_N (nth (N.to_nat pos) bs 0%N).
Proof. unfold srcf. replace (Z.to_nat (Z.of_N pos)) with (N.to_nat pos) by lia. reflexivity. Qed.
Lemma nth_lt256 bs i : Forall (fun b => (b < 256)%N) bs -> (nth i bs 0 < 256)%N.
Proof. intros H. revert i. induction H; intros [|i]; cbn; try lia. apply IHForall. Qed.

Ltac count_side_B bs Hbs :=
  let cp := fresh "cp" in let cnt := fresh "cnt" in let pos := fresh "pos" in let res := fresh "res" in let st := fresh "st" in
  let b := fresh "b" in let Hb := fresh "Hb" in let HD := fresh "HD" in
  intros cp cnt pos res st ? ? ? ?; cbv beta iota zeta;
  rewrite ?srcf_nth; set (b := nth (N.to_nat pos) bs 0%N); assert (Hb : (b < 256)%N) by apply nth_lt256, Hbs;
  lazymatch goal with |- context [g_cbor_unicode_decode ?s ?c ?a] =>
    replace a with (Z.of_N b) by (norm; lia);
    pose proof (bridge_unicode_decode st b c ltac:(lia) Hb) as HD;
    destruct (g_cbor_unicode_decode s c (Z.of_N b)) as [[[? ?] ?]|]
  end;
  destruct (unicode_decode gen_utf8d st b) as [?|]; cbn [proj_rs option_map fst snd] in HD; try discriminate; try exact I;
  try (injection HD as -> ->);
  norm; splits; cbv beta iota; repeat split; lia.

Ltac count_main bs u Hbs Hlen :=
  unfold g_cbor_unicode_codepoint_count, codepoint_count; cbv zeta;
  lazymatch goal with |- context [wloop ?f ?C ?B (?cp0, ?c0, ?p0, ?r0, ?s0, ?x0)] =>
    assert (HC0 : forall cp cnt pos res st, (pos <= len bs)%N -> C (cp, cnt, Z.of_N pos, res, st, 0) = (pos <? len bs)%N)
      by (intros; cbv beta iota; bridge);
    assert (HCx : forall cp cnt pos res st, C (cp, cnt, pos, res, st, 2) = false)
      by (intros; cbv beta iota; bridge);
    assert (HB : forall cp cnt pos res st, (pos < len bs)%N -> (st < 9)%N -> (cnt <= pos)%N -> (len bs < 2^64)%N ->
      match unicode_decode gen_utf8d st (nth (N.to_nat pos) bs 0%N) with
      | Some st' =>
          let '(cp', c', p', r', s', x') := B (cp, Z.of_N cnt, Z.of_N pos, res, Z.of_N st, 0) in
          if (st' =? 0)%N then c' = Z.of_N (cnt + 1) /\ p' = Z.of_N (pos + 1) /\ s' = 0 /\ x' = 0
          else if (st' =? 1)%N then x' = 2
          else c' = Z.of_N cnt /\ p' = Z.of_N (pos + 1) /\ s' = Z.of_N st' /\ x' = 0
      | None => True
      end) by (count_side_B bs Hbs);
    unfold UTF8_ACCEPT;
    pose proof (count_loop bs Hbs C B HC0 HCx HB Hlen bs [] cp0 0%N r0 0%N f eq_refl ltac:(lia) ltac:(cbn; lia) ltac:(unfold len; lia)) as HL;
    change (wloop f C B (cp0, Z.of_N 0, Z.of_N (len []), r0, Z.of_N 0, 0)) with (wloop f C B (cp0, c0, p0, r0, s0, x0)) in HL;
    destruct (cp_loop gen_utf8d bs 0 0) as [[c [|]]|];
    [ destruct HL as (cp' & res' & ->)
    | destruct HL as [-> [(cp' & cnt' & pos' & res' & st' & ->)|(cp' & cnt' & res' & st' & Hne & ->)]]
    | destruct HL ]
  end;
  cbv beta iota; unfold proj_rs, zcount; norm; splits; cbn [option_map fst snd]; try reflexivity; try (f_equal; f_equal; lia); try lia.

Lemma count_gen bs u : Forall (fun b => (b < 256)%N) bs -> (len bs < 2^64)%N ->
  proj_rs (g_cbor_unicode_codepoint_count (srcf bs) (Z.of_N (len bs)) u) = zcount (codepoint_count gen_utf8d bs).
Proof.
  intros Hbs Hlen.
  lazymatch eval compute in g_cbor_unicode_codepoint_count_supported with
  | false =>
      unfold g_cbor_unicode_codepoint_count, fb_cbor_unicode_codepoint_count;
      rewrite bytes_of_srcf, <- bridge_utf8d; unfold proj_rs;
      destruct (zcount (codepoint_count gen_utf8d bs)) as [[a b]|]; reflexivity
  | true => count_main bs u Hbs Hlen
  end.
Qed.

(* the statements over the model's own table (Bridge_utf8d: gen_utf8d = utf8d) *)
Lemma bridge_unicode_decode_utf8d state byte codep : (state < 16)%N -> (byte < 256)%N ->
  proj_rs (g_cbor_unicode_decode (Z.of_N state) codep (Z.of_N byte)) =
  option_map (fun s => (Z.of_N s, Z.of_N s)) (unicode_decode utf8d state byte).
Proof. rewrite <- bridge_utf8d. apply bridge_unicode_decode. Qed.
Lemma bridge_codepoint_count bs u : Forall (fun b => (b < 256)%N) bs -> (len bs < 2^64)%N ->
  proj_rs (g_cbor_unicode_codepoint_count (srcf bs) (Z.of_N (len bs)) u) = zcount (codepoint_count utf8d bs).
Proof. rewrite <- bridge_utf8d. apply count_gen. Qed.
Print Assumptions bridge_unicode_decode_utf8d.
Print Assumptions bridge_codepoint_count.
