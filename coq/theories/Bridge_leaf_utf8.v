(* generated unicode.c: _cbor_unicode_decode / _cbor_unicode_codepoint_count = the model's DFA step and
   code point count of PUtf8.v (this run's AST, this run's utf8d table) *)
From Coq Require Import ZArith NArith List Bool Lia ZifyBool ZifyN ZifyNat.
From Coq Require String.
Import ListNotations.
From CB Require Import Word Word_proofs PStream PEnc PMem PUtf8 GenLeafTypes BridgeTac Bridge_utf8d.
From CBGen Require Import Gen_utf8d Gen_leaf.
Ltac Zify.zify_post_hook ::= Z.div_mod_to_equations.
Local Open Scope Z_scope.

(* ---- _cbor_unicode_decode: exhaustive over the 16 x 256 (state, byte) pairs, for every *codep ----
   compared: definedness, the return value and the new *state (the model does not compute *codep);
   states 9..15 are outside the table: both sides are "undefined behaviour" *)
Definition opt_zz_eqb (a b : option (Z * Z)) : bool :=
  match a, b with
  | Some (x, y), Some (x', y') => (x =? x') && (y =? y')
  | None, None => true
  | _, _ => false
  end.
Lemma opt_zz_eqb_eq a b : opt_zz_eqb a b = true -> a = b.
Proof.
  destruct a as [[x y]|], b as [[x' y']|]; cbn; try discriminate; try reflexivity.
  intros H. apply andb_prop in H. destruct H as [H1 H2]. apply Z.eqb_eq in H1, H2. subst. reflexivity.
Qed.
Definition proj_rs (r : option (Z * Z * Z)) : option (Z * Z) := option_map (fun t => (fst (fst t), snd (fst t))) r.
Definition decode_ok (codep : Z) (h : N) : bool :=
  let state := (h / 256)%N in let byte := (h mod 256)%N in
  opt_zz_eqb (proj_rs (g_cbor_unicode_decode (Z.of_N state) codep (Z.of_N byte)))
             (option_map (fun s => (Z.of_N s, Z.of_N s)) (unicode_decode gen_utf8d state byte)).
Lemma decode_sweep codep : allb 12 (decode_ok codep) 0 = true.
Proof. vm_compute. reflexivity. Qed.

Lemma bridge_unicode_decode state byte codep : (state < 16)%N -> (byte < 256)%N ->
  proj_rs (g_cbor_unicode_decode (Z.of_N state) codep (Z.of_N byte)) =
  option_map (fun s => (Z.of_N s, Z.of_N s)) (unicode_decode gen_utf8d state byte).
Proof.
  intros Hs Hb. pose proof (allb_forall 12 (decode_ok codep) 0 (decode_sweep codep) (state * 256 + byte)%N ltac:(cbn; lia)) as H.
  unfold decode_ok in H. cbv zeta in H.
  replace ((state * 256 + byte) / 256)%N with state in H by lia.
  replace ((state * 256 + byte) mod 256)%N with byte in H by lia.
  apply opt_zz_eqb_eq, H.
Qed.

(* the DFA never leaves 0..8 and never reads outside the table from there (this run's table) *)
Definition closed_ok (h : N) : bool :=
  let state := (h / 256)%N in let byte := (h mod 256)%N in
  if (state <? 9)%N then match unicode_decode gen_utf8d state byte with Some s' => (s' <? 9)%N | None => false end else true.
Lemma closed_sweep : allb 12 closed_ok 0 = true.
Proof. vm_compute. reflexivity. Qed.
Lemma decode_closed state byte : (state < 9)%N -> (byte < 256)%N ->
  exists s', unicode_decode gen_utf8d state byte = Some s' /\ (s' < 9)%N.
Proof.
  intros Hs Hb. pose proof (allb_forall 12 closed_ok 0 closed_sweep (state * 256 + byte)%N ltac:(cbn; lia)) as H.
  unfold closed_ok in H. cbv zeta in H.
  replace ((state * 256 + byte) / 256)%N with state in H by lia.
  replace ((state * 256 + byte) mod 256)%N with byte in H by lia.
  destruct (N.ltb_spec state 9); [|lia].
  destruct (unicode_decode gen_utf8d state byte) as [s'|]; [|discriminate]. exists s'. split; [reflexivity|lia].
Qed.

(* ---- _cbor_unicode_codepoint_count: the loop, through the generic combinator ----
   The loop state is whatever tuple of loop-carried locals the function has; the lemma is stated for ANY
   state type with four projections (count, pos, state, exit) that the condition and the body respect, so
   additional / missing / renamed locals (codepoint, res, temporaries) do not matter.  exit = E (some code
   other than 0) is "left the loop on the reject path" (goto error / return from the body), -1 undefined
   behaviour.  The loop is characterised by three facts about its condition and body (discharged below by
   unfolding + the decode bridge + normalise / split / lia), then one induction on the unread suffix relates
   it to the model's cp_loop. *)
Section Count.
Variable bs : list N.
Hypothesis Hbs : Forall (fun b => (b < 256)%N) bs.
Variable S : Type.
Variables (pcount ppos pstate pexit : S -> Z).
Variables (C : S -> bool) (B : S -> S) (E : Z).
Hypothesis HC0 : forall s pos, pexit s = 0 -> ppos s = Z.of_N pos -> (pos <= len bs)%N -> C s = (pos <? len bs)%N.
Hypothesis HCx : forall s, pexit s = E -> C s = false.
Hypothesis HB : forall s cnt pos st, pexit s = 0 -> pcount s = Z.of_N cnt -> ppos s = Z.of_N pos -> pstate s = Z.of_N st ->
  (pos < len bs)%N -> (st < 9)%N -> (cnt <= pos)%N -> (len bs < 2^64)%N ->
  match unicode_decode gen_utf8d st (nth (N.to_nat pos) bs 0%N) with
  | Some st' =>
      if (st' =? 0)%N then pcount (B s) = Z.of_N (cnt + 1) /\ ppos (B s) = Z.of_N (pos + 1) /\ pstate (B s) = 0 /\ pexit (B s) = 0
      else if (st' =? 1)%N then pexit (B s) = E
      else pcount (B s) = Z.of_N cnt /\ ppos (B s) = Z.of_N (pos + 1) /\ pstate (B s) = Z.of_N st' /\ pexit (B s) = 0
  | None => True
  end.

Lemma nth_app_here (pre : list N) b r : nth (N.to_nat (len pre)) (pre ++ b :: r) 0%N = b.
Proof. unfold len. rewrite Nnat.Nat2N.id, app_nth2, Nat.sub_diag by lia. reflexivity. Qed.

Lemma count_loop : (len bs < 2^64)%N -> forall rest pre s cnt st f, bs = pre ++ rest ->
  pexit s = 0 -> pcount s = Z.of_N cnt -> ppos s = Z.of_N (len pre) -> pstate s = Z.of_N st ->
  (st < 9)%N -> (cnt <= len pre)%N -> (length rest < f)%nat ->
  let T := wloop f C B s in
  match cp_loop gen_utf8d rest st cnt with
  | Some (c, true) => pcount T = Z.of_N c /\ ppos T = Z.of_N (len bs) /\ pstate T = 0 /\ pexit T = 0
  | Some (c, false) => c = 0%N /\ (pexit T = E \/ (pstate T <> 0 /\ ppos T = Z.of_N (len bs) /\ pexit T = 0))
  | None => False
  end.
Proof.
  intros Hlen. induction rest as [|b r IH]; intros pre s cnt st f Hsplit Ex Ec Ep Es Hst Hcnt Hf; cbv zeta.
  - rewrite app_nil_r in Hsplit. subst pre. destruct f as [|f']; [lia|].
    cbn [wloop cp_loop]. rewrite (HC0 s (len bs) Ex Ep) by lia. rewrite N.ltb_irrefl. unfold UTF8_ACCEPT.
    destruct (N.eqb_spec st 0) as [->|Hne].
    + repeat split; assumption.
    + split; [reflexivity|]. right. repeat split; try assumption. rewrite Es. lia.
  - destruct f as [|f']; [cbn in Hf; lia|]. cbn [wloop cp_loop].
    assert (Hpos : (len pre < len bs)%N) by (subst bs; unfold len; rewrite app_length; cbn [length]; lia).
    rewrite (HC0 s (len pre) Ex Ep) by lia. replace (len pre <? len bs)%N with true by (symmetry; apply N.ltb_lt; exact Hpos).
    pose proof (HB s cnt (len pre) st Ex Ec Ep Es Hpos Hst Hcnt Hlen) as Hb.
    rewrite Hsplit, nth_app_here in Hb.
    assert (Hbyte : (b < 256)%N).
    { rewrite Hsplit in Hbs. apply Forall_app in Hbs. destruct Hbs as [_ H2]. inversion H2; assumption. }
    destruct (decode_closed st b Hst Hbyte) as (st' & Hdec & Hst'). rewrite Hdec in Hb |- *.
    assert (Hlen' : len (pre ++ [b]) = (len pre + 1)%N) by (unfold len; rewrite app_length; cbn [length]; lia).
    unfold UTF8_ACCEPT, UTF8_REJECT.
    destruct (N.eqb_spec st' 0) as [E0|Hn0].
    + subst st'. destruct Hb as (Ec' & Ep' & Es' & Ex').
      rewrite <- Hlen' in Ep'.
      exact (IH (pre ++ [b]) (B s) (cnt + 1)%N 0%N f' ltac:(rewrite <- app_assoc; exact Hsplit) Ex' Ec' Ep' Es' ltac:(lia) ltac:(lia) ltac:(cbn in Hf; lia)).
    + destruct (N.eqb_spec st' 1) as [E1|Hn1].
      * subst st'. split; [reflexivity|]. left.
        destruct f' as [|f'']; [exact Hb|]. cbn [wloop]. rewrite (HCx (B s) Hb). exact Hb.
      * destruct Hb as (Ec' & Ep' & Es' & Ex').
        rewrite <- Hlen' in Ep'.
        exact (IH (pre ++ [b]) (B s) cnt st' f' ltac:(rewrite <- app_assoc; exact Hsplit) Ex' Ec' Ep' Es' Hst' ltac:(lia) ltac:(cbn in Hf; lia)).
Qed.
End Count.

Lemma bytes_of_srcf bs : bytes_of (srcf bs) (Z.of_N (len bs)) = bs.
Proof.
  unfold bytes_of, srcf, len. replace (Z.to_nat (Z.of_N (N.of_nat (length bs)))) with (length bs) by lia.
  apply nth_ext with (d := 0%N) (d' := 0%N).
  - rewrite map_length, seq_length. reflexivity.
  - intros n Hn. rewrite map_length, seq_length in Hn.
    rewrite (nth_indep _ 0%N (Z.to_N (Z.of_N (nth (Z.to_nat (Z.of_nat 0)) bs 0%N)))) by (rewrite map_length, seq_length; exact Hn).
    rewrite (map_nth (fun i => Z.to_N (Z.of_N (nth (Z.to_nat (Z.of_nat i)) bs 0%N))) (seq 0 (length bs)) 0%nat n).
    rewrite seq_nth by exact Hn. rewrite Nat2Z.id, N2Z.id. reflexivity.
Qed.
Lemma srcf_nth bs pos : srcf bs (Z.of_N pos) = Z.of_N (nth (N.to_nat pos) bs 0%N).
Proof. unfold srcf. replace (Z.to_nat (Z.of_N pos)) with (N.to_nat pos) by lia. reflexivity. Qed.
Lemma nth_lt256 bs i : Forall (fun b => (b < 256)%N) bs -> (nth i bs 0 < 256)%N.
Proof. intros H. revert i. induction H; intros [|i]; cbn; try lia. apply IHForall. Qed.

Module LoopNames.
  Import String.
  Definition n_count := "count"%string.
  Definition n_pos := "pos"%string.
  Definition n_state := "state"%string.
End LoopNames.
(* position of a name in the generated list of loop-state names (a hint: every choice is verified) *)
Fixpoint index_of (x : String.string) (l : list String.string) : option nat :=
  match l with
  | [] => None
  | y :: r => if String.eqb x y then Some O else option_map Datatypes.S (index_of x r)
  end.

Ltac count_side_B bs Hbs :=
  let s := fresh "s" in let cnt := fresh "cnt" in let pos := fresh "pos" in let st := fresh "st" in
  let Ex := fresh "Ex" in let Ec := fresh "Ec" in let Ep := fresh "Ep" in let Es := fresh "Es" in
  let b := fresh "b" in let Hb := fresh "Hb" in let HD := fresh "HD" in
  intros s cnt pos st Ex Ec Ep Es ? ? ? ?; destruct_pairs; cbn [fst snd] in Ex, Ec, Ep, Es; subst;
  cbv beta iota zeta; cbn [fst snd];
  rewrite ?srcf_nth; set (b := nth (N.to_nat pos) bs 0%N); assert (Hb : (b < 256)%N) by apply nth_lt256, Hbs;
  lazymatch goal with |- context [g_cbor_unicode_decode ?s0 ?c ?a] =>
    replace a with (Z.of_N b) by (norm; lia);
    pose proof (bridge_unicode_decode st b c ltac:(lia) Hb) as HD;
    destruct (g_cbor_unicode_decode s0 c (Z.of_N b)) as [[[? ?] ?]|]
  end;
  destruct (unicode_decode gen_utf8d st b) as [?|]; cbn [proj_rs option_map fst snd] in HD; try discriminate; try exact I;
  try (injection HD as -> ->);
  norm; splits; cbv beta iota; cbn [fst snd]; repeat split; lia.

(* one attempt with the components (ic, ip, is) as count, pos, state; exit is the last component; E the reject code *)
Ltac count_try bs u Hbs Hlen T k f C B init ic ip is E :=
  let ix := eval compute in (k - 1)%nat in
  neq_nat ic ip; neq_nat ic is; neq_nat ip is; neq_nat ic ix; neq_nat ip ix; neq_nat is ix;
  let pc := tuple_proj T k ic in let pp := tuple_proj T k ip in let ps := tuple_proj T k is in let px := tuple_proj T k ix in
  let HC0 := fresh "HC0" in let HCx := fresh "HCx" in let HB := fresh "HB" in let HL := fresh "HL" in
  assert (HC0 : forall s pos, px s = 0 -> pp s = Z.of_N pos -> (pos <= len bs)%N -> C s = (pos <? len bs)%N)
    by (let s := fresh "s" in let Ex := fresh "Ex" in let Ep := fresh "Ep" in
        intros s ? Ex Ep ?; destruct_pairs; cbn [fst snd] in Ex, Ep; subst; cbv beta iota; solve [bridge]);
  assert (HCx : forall s, px s = E -> C s = false)
    by (let s := fresh "s" in let Ex := fresh "Ex" in
        intros s Ex; destruct_pairs; cbn [fst snd] in Ex; subst; cbv beta iota; solve [bridge]);
  assert (HB : forall s cnt pos st, px s = 0 -> pc s = Z.of_N cnt -> pp s = Z.of_N pos -> ps s = Z.of_N st ->
      (pos < len bs)%N -> (st < 9)%N -> (cnt <= pos)%N -> (len bs < 2^64)%N ->
      match unicode_decode gen_utf8d st (nth (N.to_nat pos) bs 0%N) with
      | Some st' =>
          if (st' =? 0)%N then pc (B s) = Z.of_N (cnt + 1) /\ pp (B s) = Z.of_N (pos + 1) /\ ps (B s) = 0 /\ px (B s) = 0
          else if (st' =? 1)%N then px (B s) = E
          else pc (B s) = Z.of_N cnt /\ pp (B s) = Z.of_N (pos + 1) /\ ps (B s) = Z.of_N st' /\ px (B s) = 0
      | None => True
      end) by (count_side_B bs Hbs);
  unfold UTF8_ACCEPT;
  pose proof (count_loop bs Hbs T pc pp ps px C B E HC0 HCx HB Hlen bs [] init 0%N 0%N f eq_refl
                ltac:(cbv beta; cbn [fst snd]; first [reflexivity | cbn [len length N.of_nat Z.of_N]; norm; lia]) ltac:(cbv beta; cbn [fst snd]; first [reflexivity | cbn [len length N.of_nat Z.of_N]; norm; lia]) ltac:(cbv beta; cbn [fst snd]; first [reflexivity | cbn [len length N.of_nat Z.of_N]; norm; lia]) ltac:(cbv beta; cbn [fst snd]; first [reflexivity | cbn [len length N.of_nat Z.of_N]; norm; lia])
                ltac:(lia) ltac:(cbn; lia) ltac:(unfold len; lia)) as HL;
  cbv zeta in HL;
  let W := fresh "W" in
  remember (wloop f C B init) as W eqn:EW; clear EW;
  destruct (cp_loop gen_utf8d bs 0 0) as [[c [|]]|];
  [ destruct HL as (? & ? & ? & ?) | destruct HL as [-> [?|(? & ? & ?)]] | destruct HL ];
  destruct_pairs; cbv beta in *; cbn [fst snd] in *; subst;
  cbv beta iota; unfold proj_rs, zcount; norm; splits; cbn [option_map fst snd]; try reflexivity; try (f_equal; f_equal; lia); try lia.

Ltac count_main bs u Hbs Hlen :=
  unfold g_cbor_unicode_codepoint_count, codepoint_count; cbv zeta;
  lazymatch goal with |- context [@wloop ?T ?f ?C ?B ?init] =>
    let k := tuple_arity T in
    let names := eval compute in (nth 0 g_cbor_unicode_codepoint_count_loopvars []) in
    first
    [ (* the components named count / pos / state, reject code 2 (the first exit of the body) *)
      lazymatch eval compute in (index_of LoopNames.n_count names, index_of LoopNames.n_pos names, index_of LoopNames.n_state names) with
      | (Some ?ic, Some ?ip, Some ?is) => solve [count_try bs u Hbs Hlen T k f C B init ic ip is 2]
      end
    | (* otherwise: search the assignment of roles to components, and the reject code among the first exits *)
      upto k ltac:(fun ip => upto k ltac:(fun is => upto k ltac:(fun ic =>
        first [ solve [count_try bs u Hbs Hlen T k f C B init ic ip is 2]
              | solve [count_try bs u Hbs Hlen T k f C B init ic ip is 3] ]))) ]
  end.

Lemma count_gen bs u : Forall (fun b => (b < 256)%N) bs -> (len bs < 2^64)%N ->
  proj_rs (g_cbor_unicode_codepoint_count (srcf bs) (Z.of_N (len bs)) u) = zcount (codepoint_count gen_utf8d bs).
Proof.
  intros Hbs Hlen.
  lazymatch eval compute in g_cbor_unicode_codepoint_count_supported with
  | false =>
      unfold g_cbor_unicode_codepoint_count, fb_cbor_unicode_codepoint_count;
      rewrite bytes_of_srcf, <- bridge_utf8d; unfold proj_rs;
      destruct (zcount (codepoint_count gen_utf8d bs)) as [[a b]|]; reflexivity
  | true => count_main bs u Hbs Hlen
  end.
Qed.

(* the statements over the model's own table (Bridge_utf8d: gen_utf8d = utf8d) *)
Lemma bridge_unicode_decode_utf8d state byte codep : (state < 16)%N -> (byte < 256)%N ->
  proj_rs (g_cbor_unicode_decode (Z.of_N state) codep (Z.of_N byte)) =
  option_map (fun s => (Z.of_N s, Z.of_N s)) (unicode_decode utf8d state byte).
Proof. rewrite <- bridge_utf8d. apply bridge_unicode_decode. Qed.
Lemma bridge_codepoint_count bs u : Forall (fun b => (b < 256)%N) bs -> (len bs < 2^64)%N ->
  proj_rs (g_cbor_unicode_codepoint_count (srcf bs) (Z.of_N (len bs)) u) = zcount (codepoint_count utf8d bs).
Proof. rewrite <- bridge_utf8d. apply count_gen. Qed.
Print Assumptions bridge_unicode_decode_utf8d.
Print Assumptions bridge_codepoint_count.
