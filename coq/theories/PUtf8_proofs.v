(* The DFA of unicode.c computes the RFC 3629 character count (C16). *)
From CB Require Import Word Word_proofs PUtf8.
From Coq Require Import Lia.
Local Open Scope N_scope.

(* DFA state -> what the current character still needs *)
Definition pend_of (s : N) : option (list (N * N)) :=
  if s =? 0 then Some []
  else if s =? 2 then Some [utf8_tail]
  else if s =? 3 then Some [utf8_tail; utf8_tail]
  else if s =? 4 then Some [(0xA0, 0xBF); utf8_tail]
  else if s =? 5 then Some [(0x80, 0x9F); utf8_tail]
  else if s =? 6 then Some [(0x90, 0xBF); utf8_tail; utf8_tail]
  else if s =? 7 then Some [utf8_tail; utf8_tail; utf8_tail]
  else if s =? 8 then Some [(0x80, 0x8F); utf8_tail; utf8_tail]
  else None.

Definition live_states : list N := [0; 2; 3; 4; 5; 6; 7; 8].

Fixpoint ranges_eqb (a b : list (N * N)) : bool :=
  match a, b with
  | [], [] => true
  | (l1, h1) :: a', (l2, h2) :: b' => (l1 =? l2) && (h1 =? h2) && ranges_eqb a' b'
  | _, _ => false
  end.
Lemma ranges_eqb_eq a : forall b, ranges_eqb a b = true -> a = b.
Proof.
  induction a as [|[l1 h1] a IH]; intros [|[l2 h2] b] H; cbn in H; try discriminate; [reflexivity|].
  apply andb_prop in H. destruct H as [H H3]. apply andb_prop in H. destruct H as [H1 H2].
  apply N.eqb_eq in H1, H2. subst. f_equal. apply IH, H3.
Qed.

(* the spec's one-octet step from a pending list *)
Definition spec_step (p : list (N * N)) (b : N) : option (list (N * N)) :=
  match p with
  | [] => lead b
  | (lo, hi) :: p' => if (lo <=? b) && (b <=? hi) then Some p' else None
  end.

(* one (state, byte) pair of the table agrees with the spec *)
Definition step_ok (table : list N) (s b : N) : bool :=
  match pend_of s with
  | None => true
  | Some p =>
      match unicode_decode table s b with
      | None => false
      | Some s' =>
          match spec_step p b with
          | None => s' =? UTF8_REJECT
          | Some p' => negb (s' =? UTF8_REJECT) &&
                       match pend_of s' with Some q => ranges_eqb q p' | None => false end
          end
      end
  end.

Definition table_ok (table : list N) : bool :=
  forallb (fun s => allb 8 (step_ok table s) 0) live_states.

Lemma table_ok_utf8d : table_ok utf8d = true.
Proof. vm_compute. reflexivity. Qed.

Lemma pend_of_live s p : pend_of s = Some p -> In s live_states.
Proof.
  unfold pend_of, live_states. intros H.
  repeat match type of H with
  | (if ?x =? ?y then _ else _) = _ => destruct (N.eqb_spec x y); [subst; cbn; tauto|]
  end. discriminate.
Qed.

Lemma step_ok_all table s b p : table_ok table = true -> pend_of s = Some p -> b < 256 ->
  step_ok table s b = true.
Proof.
  intros HT Hp Hb. unfold table_ok in HT. rewrite forallb_forall in HT.
  apply (allb8_forall _ (HT s (pend_of_live s p Hp)) b Hb).
Qed.

Lemma pend_nil_iff s : pend_of s = Some [] <-> s = 0.
Proof.
  split; [|intros ->; reflexivity]. unfold pend_of.
  repeat match goal with |- (if ?x =? ?y then _ else _) = _ -> _ => destruct (N.eqb_spec x y); [subst|] end;
    intros H; try discriminate; reflexivity.
Qed.

Definition extra (p : list (N * N)) : N := match p with [] => 0 | _ => 1 end.

Lemma utf8_from_step p b r : utf8_from p (b :: r) =
  match spec_step p b with
  | None => None
  | Some p' => match p with [] => option_map N.succ (utf8_from p' r) | _ => utf8_from p' r end
  end.
Proof.
  destruct p as [|[lo hi] p']; cbn [utf8_from spec_step].
  - destruct (lead b); reflexivity.
  - destruct ((lo <=? b) && (b <=? hi)); reflexivity.
Qed.

Section Table.
Variable table : list N.
Hypothesis HT : table_ok table = true.

(* the DFA loop from a live state computes the spec from the corresponding pending list *)
Lemma cp_loop_spec : forall bs s p c, bytes_ok bs -> pend_of s = Some p ->
  cp_loop table bs s c =
  Some (match utf8_from p bs with
        | Some n => (c + n + extra p - match p with [] => 0 | _ => 0 end, true)
        | None => (0, false)
        end).
Proof.
  induction bs as [|b r IH]; intros s p c Hok Hp.
  - cbn [cp_loop utf8_from]. unfold UTF8_ACCEPT.
    destruct p as [|x p'].
    + apply pend_nil_iff in Hp. subst s. cbn. do 2 f_equal. lia.
    + destruct (N.eqb_spec s 0) as [->|Hne]; [cbn in Hp; discriminate|]. reflexivity.
  - inversion Hok as [|? ? Hb Hr]; subst.
    pose proof (step_ok_all table s b p HT Hp Hb) as Hs. unfold step_ok in Hs. rewrite Hp in Hs.
    cbn [cp_loop]. rewrite utf8_from_step.
    destruct (unicode_decode table s b) as [s'|]; [|discriminate].
    destruct (spec_step p b) as [p'|] eqn:Esp.
    + apply andb_prop in Hs. destruct Hs as [Hnr Hq].
      destruct (pend_of s') as [q|] eqn:Eq; [|discriminate].
      apply ranges_eqb_eq in Hq. subst q.
      unfold UTF8_REJECT, UTF8_ACCEPT in *.
      destruct (N.eqb_spec s' 0) as [->|Hne0].
      * (* character completed *)
        cbn in Eq. inversion Eq; subst p'. rewrite (IH 0 [] (c + 1) Hr eq_refl).
        f_equal. destruct p as [|x p0]; cbn [extra].
        -- destruct (utf8_from [] r); cbn [option_map]; [f_equal; lia|reflexivity].
        -- destruct (utf8_from [] r); [f_equal; lia|reflexivity].
      * destruct (s' =? 1) eqn:E1; [discriminate|].
        rewrite (IH s' p' c Hr Eq). f_equal.
        assert (Hp' : p' <> []) by (intros ->; apply pend_nil_iff in Eq; contradiction).
        destruct p as [|x p0]; cbn [extra].
        -- destruct (utf8_from p' r); cbn [option_map]; [|reflexivity].
           destruct p'; [contradiction|]. cbn [extra]. f_equal. lia.
        -- destruct (utf8_from p' r); [|reflexivity].
           destruct p'; [contradiction|]. cbn [extra]. f_equal.
    + apply N.eqb_eq in Hs. subst s'. unfold UTF8_REJECT, UTF8_ACCEPT. cbn. 
      destruct p; reflexivity.
Qed.

Theorem stored_codepoints_spec bs : bytes_ok bs ->
  stored_codepoints table bs = Some (spec_codepoints bs).
Proof.
  intros Hok. unfold stored_codepoints, codepoint_count, spec_codepoints, utf8_spec, UTF8_ACCEPT.
  rewrite (cp_loop_spec bs 0 [] 0 Hok eq_refl).
  destruct (utf8_from [] bs); [|reflexivity]. cbn [extra]. f_equal. lia.
Qed.

Theorem codepoint_count_never_faults bs : bytes_ok bs -> codepoint_count table bs <> None.
Proof.
  intros Hok. unfold codepoint_count, UTF8_ACCEPT. rewrite (cp_loop_spec bs 0 [] 0 Hok eq_refl). discriminate.
Qed.
End Table.
