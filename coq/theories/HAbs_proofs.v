(* Model H, properties C12 / C03: OBSERVABLE CONTENTS.  The abstraction [abs] (HOps.v: heap item ->
   P tree [item], what serialization and every reader sees) after each mutating call of the API.

   1.  [tree f h a t]: what [abs] computes, as a predicate on the heap; [abs_tree] / [tree_abs]:
       [abs f a w = Ret t _] iff [tree f (heap w) a t]; fuel lemmas ([tree_fuel], [tree_mono]).
   2.  [tree_transfer]: the tree of an item depends only on the NODES of the cells it reaches (not on
       reference counts).
   3.  graph facts under the accounting invariant [Inv]: reachable cells are live, a data block is
       reached only through its one owner, ranks do not go up along references.
   4.  [abs_of_complete]: in a world that satisfies [Inv] and is acyclic the default fuel of [abs_of]
       is always enough (pigeonhole on a chain of distinct addresses).
   5./6. the mutators at heap level: [tree_keep] (frame), [tree_after_push], [tree_after_add_chunk],
       [tree_after_map_add], [tree_after_tag_set], [tree_sub] / [tree_after_replace].
   7./8. the client's view, one call of a rule-following client (hypotheses: [Inv], [caps], [acyclic]
       of the world before, the call is [legal] and respects the no-cycle rule [below_rule] - exactly
       the hypotheses under which HHist_proofs re-establishes the three invariants):
       [abs_after_push] [abs_after_map_add] [abs_after_add_chunk] [abs_after_tag_set]
       [abs_after_replace] [abs_after_set] [abs_after_build_tag] [abs_after_copy];
       sharing semantics: [abs_frame] / [abs_frame_replace] (an item that does not reach the mutated
       container keeps its tree) and [abs_parent_array] (a direct parent sees the new tree at exactly
       the positions that hold the container).
   9.  [C03_api_serialize] and instances: cbor_serialize of an API-built / API-modified item emits the
       RFC 8949 encoding of the tree the documented list semantics gives.
   10. a concrete history to which all of these are applied. *)
From CB Require Import Word Word_proofs PMem PItem SpecItem PBuild PFinal HHeap HItems HOps HHist.
From CB Require Import HRef_proofs HCont_proofs HRead_proofs HLoad_proofs HCopy_proofs HHist_proofs HHist2_proofs.
From CB Require Import HStepInv_proofs HTrace_proofs HFrame_proofs HSeq_proofs HAtomic_proofs.
From Coq Require Import Lia ZArith List.
Import ListNotations.
Local Open Scope N_scope.

(* ------------------------------------------------------------------------------------------ *)
(* 1. what [abs] computes, as a predicate on the heap                                          *)
(* ------------------------------------------------------------------------------------------ *)

(* the payload of a chunk, as chunk_bytes reads it *)
Definition strT (h : addr -> option cell) (text : bool) (c : addr) (bs : list N) : Prop :=
  exists rc data, h c = Some (CItem rc (NStr text data bs)) /\ (len bs = 0 \/ data_live h data).

Definition pairT (T : addr -> item -> Prop) (kv : addr * option addr) (kv' : item * item) : Prop :=
  T (fst kv) (fst kv') /\ exists v, snd kv = Some v /\ T v (snd kv').

(* [tree f h a t]: the item at [a] in heap [h] abstracts to the tree [t] within [f] levels *)
Fixpoint tree (f : nat) (h : addr -> option cell) (a : addr) (t : item) : Prop :=
  match f with
  | O => False
  | S f' =>
    exists rc n, h a = Some (CItem rc n) /\
      match n with
      | NInt neg w v => t = (if neg then INegint w v else IUint w v)
      | NFloat w b => t = IFloat w b
      | NCtrl v => t = ICtrl v
      | NStr text data bytes => (len bytes = 0 \/ data_live h data) /\ t = (if text then IText bytes else IBytes bytes)
      | NChunked text hdr arr _ chunks =>
          data_live h (Some hdr) /\ (chunks = [] \/ data_live h arr) /\
          exists cs, Forall2 (strT h text) chunks cs /\ t = (if text then ITextI cs else IBytesI cs)
      | NArr indef data _ elems =>
          (elems = [] \/ data_live h data) /\
          exists xs, Forall2 (tree f' h) elems xs /\ t = IArray indef xs
      | NMap indef data _ pairs =>
          (pairs = [] \/ data_live h data) /\
          exists kvs, Forall2 (pairT (tree f' h)) pairs kvs /\ t = IMap indef kvs
      | NTag v child => exists x tx, child = Some x /\ tree f' h x tx /\ t = ITag v tx
      end
  end.

Lemma F2_impl {X Y} (R R' : X -> Y -> Prop) l ys : (forall x y, R x y -> R' x y) -> Forall2 R l ys -> Forall2 R' l ys.
Proof. intros H. induction 1; constructor; auto. Qed.
Lemma F2_impl_in {X Y} (R R' : X -> Y -> Prop) l ys :
  (forall x y, In x l -> In y ys -> R x y -> R' x y) -> Forall2 R l ys -> Forall2 R' l ys.
Proof.
  intros H F. induction F as [|x y l ys Hx F IH]; constructor.
  - apply H; [left; reflexivity|left; reflexivity|exact Hx].
  - apply IH. intros x0 y0 Hx0 Hy0. apply H; right; assumption.
Qed.

Lemma guard_inv {X} (l : list X) p w u w' :
  (match l with [] => ret tt | _ => touch_data false p end) w = Ret u w' ->
  heap w' = heap w /\ (l = [] \/ data_live (heap w) p).
Proof.
  destruct l.
  - intros H. apply ret_inv in H. destruct H as [_ ->]. auto.
  - intros H. apply touch_inv in H. destruct H as [H1 H2]. auto.
Qed.
Lemma str_guard_inv (bytes : list N) p w u w' :
  (if len bytes =? 0 then ret tt else touch_data false p) w = Ret u w' ->
  heap w' = heap w /\ (len bytes = 0 \/ data_live (heap w) p).
Proof.
  destruct (N.eqb_spec (len bytes) 0) as [E|_].
  - intros H. apply ret_inv in H. destruct H as [_ ->]. auto.
  - intros H. apply touch_inv in H. destruct H as [H1 H2]. auto.
Qed.

Lemma mapM_F2 {X Y} (g : X -> M Y) (R : X -> Y -> Prop) h : forall l w ys w',
  heap w = h ->
  (forall x w y w', In x l -> heap w = h -> g x w = Ret y w' -> heap w' = h /\ R x y) ->
  mapM g l w = Ret ys w' -> heap w' = h /\ Forall2 R l ys.
Proof.
  induction l as [|x r IH]; intros w ys w' Hw T H; cbn [mapM] in H.
  - apply ret_inv in H. destruct H as [-> ->]. split; [exact Hw|constructor].
  - apply bind_inv in H. destruct H as (y & w1 & H1 & H). apply bind_inv in H. destruct H as (ys1 & w2 & H2 & H).
    apply ret_inv in H. destruct H as [-> ->].
    destruct (T x w y w1 (or_introl eq_refl) Hw H1) as [Hw1 Rx].
    destruct (IH w1 ys1 w2 Hw1 (fun x0 w0 y0 w0' Hin => T x0 w0 y0 w0' (or_intror Hin)) H2) as [Hw2 Rr].
    split; [exact Hw2|constructor; assumption].
Qed.

Lemma chunk_bytes_strT tx c w bs w' : chunk_bytes tx c w = Ret bs w' -> heap w' = heap w /\ strT (heap w) tx c bs.
Proof.
  unfold chunk_bytes. intros H. apply bind_inv in H. destruct H as ([rc n] & w1 & H1 & H).
  apply rd_item_ret in H1. destruct H1 as [Ea ->]. cbn [snd] in H.
  destruct n as [neg iw v|fw bits|v|text data bytes|text hdr arr cap chunks|indef data al elems|indef data al pairs|v ch];
    try discriminate H; destruct (Bool.eqb_spec text tx) as [->|Ne]; try discriminate H.
  apply bind_inv in H. destruct H as (u & w2 & H2 & H). apply ret_inv in H. destruct H as [-> ->].
  apply str_guard_inv in H2. destruct H2 as [Hh G]. cbn [heap HRef_proofs.w_rd] in *.
  split; [exact Hh|]. exists rc, data. auto.
Qed.

Theorem abs_tree : forall f a w t w', abs f a w = Ret t w' -> heap w' = heap w /\ tree f (heap w) a t.
Proof.
  induction f as [|f IH]; intros a w t w' H; [discriminate H|].
  rewrite abs_unfold in H. apply bind_inv in H. destruct H as ([rc n] & w1 & H1 & H).
  apply rd_item_ret in H1. destruct H1 as [Ea ->]. cbn [snd] in H.
  set (w1 := HRef_proofs.w_rd a w) in *. assert (Hw1 : heap w1 = heap w) by reflexivity. clearbody w1.
  cbn [tree].
  destruct n as [neg iw v|fw bits|v|text data bytes|text hdr arr cap chunks|indef data al elems|indef data al pairs|v ch].
  - apply ret_inv in H. destruct H as [-> ->]. split; [exact Hw1|]. exists rc, (NInt neg iw v). auto.
  - apply ret_inv in H. destruct H as [-> ->]. split; [exact Hw1|]. exists rc, (NFloat fw bits). auto.
  - apply ret_inv in H. destruct H as [-> ->]. split; [exact Hw1|]. exists rc, (NCtrl v). auto.
  - apply bind_inv in H. destruct H as (u & w2 & H2 & H). apply ret_inv in H. destruct H as [-> ->].
    apply str_guard_inv in H2. destruct H2 as [Hh G]. rewrite Hw1 in *.
    split; [exact Hh|]. exists rc, (NStr text data bytes). auto.
  - apply bind_inv in H. destruct H as (u & w2 & H2 & H). apply touch_inv in H2. destruct H2 as [Hh2 G2].
    apply bind_inv in H. destruct H as (u3 & w3 & H3 & H). apply guard_inv in H3. destruct H3 as [Hh3 G3].
    apply bind_inv in H. destruct H as (cs & w4 & H4 & H). apply ret_inv in H. destruct H as [-> ->].
    assert (Hw3 : heap w3 = heap w) by congruence.
    destruct (mapM_F2 (chunk_bytes text) (strT (heap w) text) (heap w) chunks w3 cs w4 Hw3) as [Hw4 F]; [|exact H4|].
    { intros x w0 y w0' _ Hq E. apply chunk_bytes_strT in E. destruct E as [E1 E2]. rewrite Hq in *. auto. }
    split; [exact Hw4|]. exists rc, (NChunked text hdr arr cap chunks). split; [exact Ea|].
    rewrite Hw1 in G2. rewrite Hh2, Hw1 in G3. split; [exact G2|]. split; [exact G3|]. exists cs. auto.
  - apply bind_inv in H. destruct H as (u & w2 & H2 & H). apply guard_inv in H2. destruct H2 as [Hh2 G2].
    apply bind_inv in H. destruct H as (xs & w3 & H3 & H). apply ret_inv in H. destruct H as [-> ->].
    assert (Hw2 : heap w2 = heap w) by congruence.
    destruct (mapM_F2 (abs f) (tree f (heap w)) (heap w) elems w2 xs w3 Hw2) as [Hw3 F]; [|exact H3|].
    { intros x w0 y w0' _ Hq E. apply IH in E. destruct E as [E1 E2]. rewrite Hq in *. auto. }
    split; [exact Hw3|]. exists rc, (NArr indef data al elems). split; [exact Ea|].
    rewrite Hw1 in G2. split; [exact G2|]. exists xs. auto.
  - apply bind_inv in H. destruct H as (u & w2 & H2 & H). apply guard_inv in H2. destruct H2 as [Hh2 G2].
    apply bind_inv in H. destruct H as (kvs & w3 & H3 & H). apply ret_inv in H. destruct H as [-> ->].
    assert (Hw2 : heap w2 = heap w) by congruence.
    assert (X : heap w3 = heap w /\ Forall2 (pairT (tree f (heap w))) pairs kvs).
    { refine (mapM_F2 _ _ _ _ _ _ _ Hw2 _ H3). intros [k ov] w0 [k' v'] w0' _ Hq E. cbn [fst snd] in E.
      apply bind_inv in E. destruct E as (k1 & w4 & E1 & E). destruct ov as [v0|]; [|discriminate E].
      apply bind_inv in E. destruct E as (v1 & w5 & E2 & E). apply ret_inv in E. destruct E as [E ->]. injection E as -> ->.
      apply IH in E1. destruct E1 as [A1 A2]. apply IH in E2. destruct E2 as [B1 B2].
      rewrite A1, Hq in *. split; [congruence|]. split; [exact A2|]. exists v0. auto. }
    destruct X as [Hw3 F]. split; [exact Hw3|]. exists rc, (NMap indef data al pairs). split; [exact Ea|].
    rewrite Hw1 in G2. split; [exact G2|]. exists kvs. auto.
  - destruct ch as [x|]; [|discriminate H].
    apply bind_inv in H. destruct H as (x' & w2 & H2 & H). apply ret_inv in H. destruct H as [-> ->].
    apply IH in H2. destruct H2 as [A1 A2]. rewrite Hw1 in *.
    split; [exact A1|]. exists rc, (NTag v (Some x)). split; [exact Ea|]. exists x, x'. auto.
Qed.

(* conversely *)
Definition totv {A} (h : addr -> option cell) (m : M A) (v : A) : Prop :=
  forall w, heap w = h -> exists w', m w = Ret v w' /\ heap w' = h.

Lemma totv_ret {A} h (a : A) : totv h (ret a) a.
Proof. intros w E. exists w. split; [reflexivity|exact E]. Qed.
Lemma totv_bind {A B} h (m : M A) (f : A -> M B) a b : totv h m a -> totv h (f a) b -> totv h (bind m f) b.
Proof.
  intros Hm Hf w E. destruct (Hm w E) as (w1 & E1 & H1). destruct (Hf w1 H1) as (w2 & E2 & H2).
  exists w2. split; [|exact H2]. unfold bind. rewrite E1. exact E2.
Qed.
Lemma totv_rd {B} h a rc n (f : N * node -> M B) b :
  h a = Some (CItem rc n) -> totv h (f (rc, n)) b -> totv h (bind (rd_item a) f) b.
Proof.
  intros Ea Hf w E. destruct (Hf (w_log (AccR a) w) E) as (w2 & E2 & H2).
  exists w2. split; [|exact H2]. rewrite (bind_Ret _ _ _ _ _ (rd_item_spec a w rc n ltac:(rewrite E; exact Ea))).
  exact E2.
Qed.
Lemma totv_of_tot h (m : M unit) : tot h m -> totv h m tt.
Proof. intros H w E. destruct (H w E) as ([] & w' & E1 & E2). eauto. Qed.
Lemma totv_mapM {X Y} h (g : X -> M Y) l ys : Forall2 (fun x y => totv h (g x) y) l ys -> totv h (mapM g l) ys.
Proof.
  induction 1 as [|x y r ys' Hx _ IH]; cbn [mapM]; [apply totv_ret|].
  eapply totv_bind; [exact Hx|]. eapply totv_bind; [exact IH|]. apply totv_ret.
Qed.

Lemma strT_totv h tx c bs : strT h tx c bs -> totv h (chunk_bytes tx c) bs.
Proof.
  intros (rc & data & Ec & G). unfold chunk_bytes.
  eapply totv_rd; [exact Ec|]. cbn [snd]. rewrite Bool.eqb_reflx. eapply totv_bind; [apply totv_of_tot, tot_str_guard, G|]. apply totv_ret.
Qed.

Theorem tree_abs h : forall f a t, tree f h a t -> totv h (abs f a) t.
Proof.
  induction f as [|f IH]; intros a t; [intros []|].
  intros (rc & n & Ea & R). rewrite abs_unfold. eapply totv_rd; [exact Ea|]. cbn [snd].
  destruct n as [neg iw v|fw bits|v|text data bytes|text hdr arr cap chunks|indef data al elems|indef data al pairs|v c].
  - subst t. apply totv_ret.
  - subst t. apply totv_ret.
  - subst t. apply totv_ret.
  - destruct R as [G ->]. eapply totv_bind; [apply totv_of_tot, tot_str_guard, G|]. apply totv_ret.
  - destruct R as (Rh & Ra & cs & Rc & ->).
    eapply totv_bind; [apply totv_of_tot, tot_touch, Rh|].
    eapply totv_bind; [apply totv_of_tot, tot_guard, Ra|].
    eapply totv_bind; [|apply totv_ret].
    apply totv_mapM. eapply F2_impl; [|exact Rc]. intros c b. apply strT_totv.
  - destruct R as (Rd & xs & Re & ->).
    eapply totv_bind; [apply totv_of_tot, tot_guard, Rd|].
    eapply totv_bind; [|apply totv_ret].
    apply totv_mapM. eapply F2_impl; [|exact Re]. intros x y. apply IH.
  - destruct R as (Rd & kvs & Rp & ->).
    eapply totv_bind; [apply totv_of_tot, tot_guard, Rd|].
    eapply totv_bind; [|apply totv_ret].
    apply totv_mapM. eapply F2_impl; [|exact Rp]. intros [k ov] [k' v'] (Rk & v & Ev & Rv). cbn [fst snd] in *.
    subst ov. eapply totv_bind; [apply IH, Rk|]. eapply totv_bind; [apply IH, Rv|]. apply totv_ret.
  - destruct R as (x & tx & -> & Rx & ->). eapply totv_bind; [apply IH, Rx|]. apply totv_ret.
Qed.

(* more fuel never hurts; any fuel that covers the recursion depth of the tree is enough *)
Lemma F2_forall_r {X Y} (R : X -> Y -> Prop) (P : Y -> Prop) l ys :
  Forall2 R l ys -> Forall P ys -> Forall2 (fun x y => R x y /\ P y) l ys.
Proof. induction 1 as [|x y l ys Hx F IH]; intros HP; inversion HP; subst; constructor; auto. Qed.

Theorem tree_fuel h : forall f a t, tree f h a t -> forall f', (depth_walk t <= f')%nat -> tree f' h a t.
Proof.
  induction f as [|f IH]; intros a t H f' Hd; [destruct H|].
  destruct f' as [|f']; [destruct t; cbn [depth_walk] in Hd; lia|].
  destruct H as (rc & n & Ea & R). cbn [tree]. exists rc, n. split; [exact Ea|].
  destruct n as [neg iw v|fw bits|v|text data bytes|text hdr arr cap chunks|indef data al elems|indef data al pairs|v c];
    try exact R.
  - destruct R as (Rd & xs & Re & ->). split; [exact Rd|]. exists xs. split; [|reflexivity].
    rewrite depth_walk_array in Hd. apply le_S_n in Hd. apply fold_max_le in Hd.
    eapply F2_impl; [|exact (F2_forall_r _ _ _ _ Re Hd)]. intros x y [Hx Hy]. eapply IH; eassumption.
  - destruct R as (Rd & kvs & Rp & ->). split; [exact Rd|]. exists kvs. split; [|reflexivity].
    rewrite depth_walk_map in Hd. apply le_S_n in Hd.
    apply (fold_max_le (fun kv => Nat.max (depth_walk (fst kv)) (depth_walk (snd kv)))) in Hd.
    eapply F2_impl; [|exact (F2_forall_r _ _ _ _ Rp Hd)]. intros [k ov] [k' v'] [(Rk & v0 & Ev & Rv) Hy]. cbn beta in Hy. cbn [fst snd] in *.
    unfold pairT. cbn [fst snd]. split; [eapply IH; [exact Rk|lia]|]. exists v0. split; [exact Ev|]. eapply IH; [exact Rv|lia].
  - destruct R as (x & tx & -> & Rx & ->). exists x, tx. split; [reflexivity|]. split; [|reflexivity].
    cbn [depth_walk] in Hd. eapply IH; [exact Rx|lia].
Qed.

Lemma tree_depth h : forall f a t, tree f h a t -> (depth_walk t <= f)%nat.
Proof.
  intros f a t H. destruct (tree_abs h f a t H (mkworld h 0 0 [] []) eq_refl) as (w' & E & _).
  eapply abs_fuel_needed. exact E.
Qed.

Corollary tree_mono h f a t : tree f h a t -> tree (S f) h a t.
Proof. intros H. eapply tree_fuel; [exact H|]. pose proof (tree_depth h f a t H). lia. Qed.

(* ------------------------------------------------------------------------------------------ *)
(* 2. the tree of an item depends only on the NODES of the cells it reaches (not on counts)    *)
(* ------------------------------------------------------------------------------------------ *)

Definition same_cell (h h' : addr -> option cell) (b : addr) : Prop :=
  match h b, h' b with
  | Some (CItem _ n), Some (CItem _ n') => n = n'
  | Some (CData _), Some (CData _) => True
  | None, None => True
  | _, _ => False
  end.

Lemma same_cell_eq h h' b : h' b = h b -> same_cell h h' b.
Proof. unfold same_cell. intros ->. destruct (h b) as [[rc n|sz]|]; auto. Qed.
Lemma same_cell_item h h' b rc n : same_cell h h' b -> h b = Some (CItem rc n) -> exists rc', h' b = Some (CItem rc' n).
Proof. unfold same_cell. intros H E. rewrite E in H. destruct (h' b) as [[rc' n'|sz]|] eqn:E'; try destruct H. eauto. Qed.
Lemma same_cell_data h h' p : (forall d, p = Some d -> same_cell h h' d) -> data_live h p -> data_live h' p.
Proof.
  intros H (d & sz & -> & E). specialize (H d eq_refl). unfold same_cell in H. rewrite E in H.
  destruct (h' d) as [[rc' n'|sz']|] eqn:E'; try destruct H. exists d, sz'. auto.
Qed.

Theorem tree_transfer h h' : forall f e t,
  (forall b, reachh h e b -> same_cell h h' b) -> tree f h e t -> tree f h' e t.
Proof.
  induction f as [|f IH]; intros e t S H; [destruct H|].
  destruct H as (rc & n & Ea & R).
  destruct (same_cell_item h h' e rc n (S e (reach_self h e)) Ea) as (rc' & Ea').
  cbn [tree]. exists rc', n. split; [exact Ea'|].
  assert (Blk : forall d, In d (node_blocks n) -> same_cell h h' d).
  { intros d Hd. apply S. eapply reach_block; [apply reach_self|exact Ea|exact Hd]. }
  assert (Kid : forall k b, In k (node_kids n) -> reachh h k b -> same_cell h h' b).
  { intros k b Hk Rb. apply S. eapply reach_step; eassumption. }
  assert (DL : forall p, (forall d, p = Some d -> In d (node_blocks n)) -> data_live h p -> data_live h' p).
  { intros p Hp. apply same_cell_data. intros d E. apply Blk, Hp, E. }
  destruct n as [neg iw v|fw bits|v|text data bytes|text hdr arr cap chunks|indef data al elems|indef data al pairs|v c];
    try exact R; cbn [node_kids node_blocks] in *.
  - destruct R as [G ->]. split; [|reflexivity]. destruct G as [G|G]; [left; exact G|right].
    apply DL; [|exact G]. intros d ->. left. reflexivity.
  - destruct R as (Rh & Ra & cs & Rc & ->).
    split; [apply DL; [intros d E; injection E as <-; left; reflexivity|exact Rh]|].
    split; [destruct Ra as [Ra|Ra]; [left; exact Ra|right; apply DL; [intros d ->; right; left; reflexivity|exact Ra]]|].
    exists cs. split; [|reflexivity].
    eapply F2_impl_in; [|exact Rc]. intros c bs Hc _ (rcc & dc & Ec & Gc).
    destruct (same_cell_item h h' c _ _ (Kid c c Hc (reach_self h c)) Ec) as (rcc' & Ec').
    exists rcc', dc. split; [exact Ec'|]. destruct Gc as [Gc|Gc]; [left; exact Gc|right].
    eapply same_cell_data; [|exact Gc]. intros d ->. apply (Kid c d Hc).
    eapply reach_block; [apply reach_self|exact Ec|left; reflexivity].
  - destruct R as (Rd & xs & Re & ->).
    split; [destruct Rd as [Rd|Rd]; [left; exact Rd|right; apply DL; [intros d ->; left; reflexivity|exact Rd]]|].
    exists xs. split; [|reflexivity].
    eapply F2_impl_in; [|exact Re]. intros x y Hx _ Tx. apply IH; [|exact Tx]. intros b Rb. eapply Kid; eassumption.
  - destruct R as (Rd & kvs & Rp & ->).
    split; [destruct Rd as [Rd|Rd]; [left; exact Rd|right; apply DL; [intros d ->; left; reflexivity|exact Rd]]|].
    exists kvs. split; [|reflexivity].
    eapply F2_impl_in; [|exact Rp]. intros [k ov] [k' v'] Hx _ (Rk & v0 & Ev & Rv). cbn [fst snd] in *. subst ov.
    assert (Ik : In k (flat_map (fun kv => fst kv :: match snd kv with Some v => [v] | None => [] end) pairs)).
    { apply in_flat_map. exists (k, Some v0). split; [exact Hx|left; reflexivity]. }
    assert (Iv : In v0 (flat_map (fun kv => fst kv :: match snd kv with Some v => [v] | None => [] end) pairs)).
    { apply in_flat_map. exists (k, Some v0). split; [exact Hx|right; left; reflexivity]. }
    unfold pairT. cbn [fst snd]. split; [apply IH; [intros b Rb; exact (Kid k b Ik Rb)|exact Rk]|].
    exists v0. split; [reflexivity|]. apply IH; [intros b Rb; exact (Kid v0 b Iv Rb)|exact Rv].
  - destruct R as (x & tx & -> & Rx & ->). exists x, tx. split; [reflexivity|]. split; [|reflexivity].
    apply IH; [|exact Rx]. intros b Rb. eapply Kid; [left; reflexivity|exact Rb].
Qed.

(* inversion by the shape of the tree *)
Lemma tree_array_inv h f a i xs : tree (S f) h a (IArray i xs) ->
  exists rc d c l, h a = Some (CItem rc (NArr i d c l)) /\ (l = [] \/ data_live h d) /\ Forall2 (tree f h) l xs.
Proof.
  intros (rc & n & Ea & R).
  destruct n as [neg iw v|fw bits|v|text data bytes|text hdr arr cap chunks|ind data al elems|ind data al pairs|v c].
  - destruct neg; discriminate R.
  - discriminate R.
  - discriminate R.
  - destruct R as [_ R]. destruct text; discriminate R.
  - destruct R as (_ & _ & cs & _ & R). destruct text; discriminate R.
  - destruct R as (Rd & xs0 & Re & Et). injection Et as -> ->. exists rc, data, al, elems. auto.
  - destruct R as (_ & kvs & _ & R). discriminate R.
  - destruct R as (x0 & tx0 & _ & _ & R). discriminate R.
Qed.
Lemma tree_map_inv h f a i kvs : tree (S f) h a (IMap i kvs) ->
  exists rc d c l, h a = Some (CItem rc (NMap i d c l)) /\ (l = [] \/ data_live h d) /\ Forall2 (pairT (tree f h)) l kvs.
Proof.
  intros (rc & n & Ea & R).
  destruct n as [neg iw v|fw bits|v|text data bytes|text hdr arr cap chunks|ind data al elems|ind data al pairs|v c].
  - destruct neg; discriminate R.
  - discriminate R.
  - discriminate R.
  - destruct R as [_ R]. destruct text; discriminate R.
  - destruct R as (_ & _ & cs & _ & R). destruct text; discriminate R.
  - destruct R as (_ & xs0 & _ & R). discriminate R.
  - destruct R as (Rd & kvs0 & Re & Et). injection Et as -> ->. exists rc, data, al, pairs. auto.
  - destruct R as (x0 & tx0 & _ & _ & R). discriminate R.
Qed.
(* a chunked string: text = true for ITextI, false for IBytesI *)
Definition chunked_item (text : bool) (cs : list (list N)) : item := if text then ITextI cs else IBytesI cs.
Lemma tree_chunked_inv h f a text cs : tree (S f) h a (chunked_item text cs) ->
  exists rc hdr arr cap chunks, h a = Some (CItem rc (NChunked text hdr arr cap chunks)) /\
    data_live h (Some hdr) /\ (chunks = [] \/ data_live h arr) /\ Forall2 (strT h text) chunks cs.
Proof.
  intros (rc & n & Ea & R). unfold chunked_item in R.
  destruct n as [neg iw v|fw bits|v|text0 data bytes|text0 hdr arr cap chunks|ind data al elems|ind data al pairs|v c].
  - destruct neg, text; discriminate R.
  - destruct text; discriminate R.
  - destruct text; discriminate R.
  - destruct R as [_ R]. destruct text0, text; discriminate R.
  - destruct R as (Rh & Ra & cs0 & Rc & R). exists rc, hdr, arr, cap, chunks.
    destruct text0, text; try discriminate R; injection R as ->; auto.
  - destruct R as (_ & xs0 & _ & R). destruct text; discriminate R.
  - destruct R as (_ & kvs & _ & R). destruct text; discriminate R.
  - destruct R as (x0 & tx0 & _ & _ & R). destruct text; discriminate R.
Qed.

Lemma tree_str_strT h f x (text : bool) bs : tree f h x (if text then IText bs else IBytes bs) -> strT h text x bs.
Proof.
  intros T. destruct f as [|f]; [destruct T|]. destruct T as (rc & n & E & R).
  destruct n as [neg iw v|fw bits|v|t data bytes|t hdr arr cap chunks|ind data al elems|ind data al pairs|v c].
  - destruct neg, text; discriminate R.
  - destruct text; discriminate R.
  - destruct text; discriminate R.
  - destruct R as [G R]. exists rc, data.
    assert (t = text /\ bytes = bs) as [-> ->] by (destruct t, text; try discriminate R; injection R as ->; auto).
    auto.
  - destruct R as (_ & _ & cs0 & _ & R). destruct t, text; discriminate R.
  - destruct R as (_ & z & _ & R). destruct text; discriminate R.
  - destruct R as (_ & z & _ & R). destruct text; discriminate R.
  - destruct R as (z1 & z2 & _ & _ & R). destruct text; discriminate R.
Qed.

(* ------------------------------------------------------------------------------------------ *)
(* 3. facts about the containment graph of a world that satisfies the accounting invariant     *)
(* ------------------------------------------------------------------------------------------ *)

Lemma node_kids_kids n : node_kids n = kids n.
Proof. destruct n as [| | | | | | |v [c|]]; reflexivity. Qed.
Lemma node_blocks_dblocks n d : In d (node_blocks n) <-> In d (HRef_proofs.dblocks n).
Proof.
  destruct n as [neg iw v|fw bits|v|text data bytes|text hdr arr cap chunks|indef data al elems|indef data al pairs|v c];
    cbn [node_blocks HRef_proofs.dblocks]; try reflexivity;
    try (destruct data; reflexivity).
  destruct arr as [x|]; cbn; tauto.
Qed.

Section Graph.
Variables own ownd : addr -> N.
Variable w : world.
Hypothesis I0 : Inv own ownd [] w.

Lemma G_kid a rc n k : heap w a = Some (CItem rc n) -> In k (node_kids n) ->
  exists rck nk, heap w k = Some (CItem rck nk).
Proof.
  intros E Hk. rewrite node_kids_kids in Hk. pose proof (Inv_nil_pos _ _ _ _ _ _ I0 E) as P.
  destruct (Inv_kid_live own ownd [] w a rc n k I0 E ltac:(lia) Hk) as (rck & nk & Ek & _). eauto.
Qed.
Lemma G_block a rc n d : heap w a = Some (CItem rc n) -> In d (node_blocks n) ->
  (exists sz, heap w d = Some (CData sz)) /\ dindeg w d = 1.
Proof.
  intros E Hd. apply node_blocks_dblocks in Hd. pose proof (Inv_nil_pos _ _ _ _ _ _ I0 E) as P.
  destruct (Inv_dblock_live own ownd [] w a rc n d I0 E ltac:(lia) Hd) as (X & _ & Y & _). auto.
Qed.

(* whatever a live cell reaches is live *)
Lemma reach_live e b : heap w e <> None -> reach w e b -> heap w b <> None.
Proof.
  intros He R. induction R as [|b rc n c R IH E Hc|b rc n d R IH E Hd].
  - exact He.
  - destruct (G_kid b rc n c E Hc) as (rck & nk & Ek). rewrite Ek. discriminate.
  - destruct (G_block b rc n d E Hd) as [(sz & Ed) _]. rewrite Ed. discriminate.
Qed.

Lemma sumN_ge2 n f b1 b2 : b1 < n -> b2 < n -> b1 <> b2 -> f b1 + f b2 <= sumN n f.
Proof.
  induction n as [|n IH] using N.peano_ind; intros H1 H2 Hne; [lia|]. rewrite sumN_succ.
  destruct (N.eq_dec b1 n) as [E1|N1].
  - subst b1. pose proof (sumN_ge n f b2 ltac:(lia)). lia.
  - destruct (N.eq_dec b2 n) as [E2|N2].
    + subst b2. pose proof (sumN_ge n f b1 ltac:(lia)). lia.
    + pose proof (IH ltac:(lia) ltac:(lia) Hne). lia.
Qed.

(* a data block belongs to exactly one item *)
Lemma block_owner a rca na b rcb nb d :
  heap w a = Some (CItem rca na) -> In d (node_blocks na) ->
  heap w b = Some (CItem rcb nb) -> In d (node_blocks nb) -> a = b.
Proof.
  intros Ea Ha Eb Hb. destruct (N.eq_dec a b) as [E|Ne]; [exact E|exfalso].
  destruct (G_block a rca na d Ea Ha) as [_ D1].
  pose proof (Inv_nil_pos _ _ _ _ _ _ I0 Ea) as Pa. pose proof (Inv_nil_pos _ _ _ _ _ _ I0 Eb) as Pb.
  pose proof (live_lt _ _ _ _ _ _ I0 Ea) as La. pose proof (live_lt _ _ _ _ _ _ I0 Eb) as Lb.
  unfold dindeg, refs in D1.
  pose proof (sumN_ge2 (next w) (fun x => cnt d (selc HRef_proofs.dblocks (heap w x))) a b La Lb Ne) as S2.
  cbn beta in S2. rewrite Ea, Eb in S2. cbn [selc] in S2.
  destruct (N.eqb_spec rca 0); [lia|]. destruct (N.eqb_spec rcb 0); [lia|].
  apply node_blocks_dblocks in Ha, Hb. apply cnt_pos_in in Ha, Hb. lia.
Qed.

(* a data block is reached only through its owner *)
Lemma reach_block_owner a rc n d e :
  heap w a = Some (CItem rc n) -> In d (node_blocks n) ->
  (exists rce ne, heap w e = Some (CItem rce ne)) -> reach w e d -> reach w e a.
Proof.
  intros Ea Hd (rce & ne & Ee) R. destruct (G_block a rc n d Ea Hd) as [(sz & Ed) _].
  inversion R as [E0|b rcb nb c Rb Eb Hc E0|b rcb nb d0 Rb Eb Hd0 E0]; subst.
  - rewrite Ee in Ed. discriminate Ed.
  - destruct (G_kid b rcb nb d Eb Hc) as (rck & nk & Ek). rewrite Ek in Ed. discriminate Ed.
  - rewrite (block_owner a rc n b rcb nb d Ea Hd Eb Hd0). exact Rb.
Qed.

(* along references the rank does not go up *)
Lemma reach_rank rank e b : ranks w rank -> reach w e b ->
  (exists rc n, heap w b = Some (CItem rc n)) -> (rank b <= rank e)%nat.
Proof.
  intros Rk R. induction R as [|b rc n c R IH E Hc|b rc n d R IH E Hd]; intros Hb.
  - lia.
  - assert (Hlt : (rank c < rank b)%nat).
    { apply Rk. exists rc, n. split; [exact E|]. split; [pose proof (Inv_nil_pos _ _ _ _ _ _ I0 E); lia|].
      rewrite <- node_kids_kids. exact Hc. }
    specialize (IH ltac:(eauto)). lia.
  - destruct (G_block b rc n d E Hd) as [(sz & Ed) _]. destruct Hb as (rcd & nd & Ed'). rewrite Ed in Ed'. discriminate Ed'.
Qed.

(* in an acyclic world an item is not reachable from its children *)
Lemma kid_not_above rank a rc n k : ranks w rank -> heap w a = Some (CItem rc n) -> In k (node_kids n) -> ~ reach w k a.
Proof.
  intros Rk Ea Hk R.
  assert (Hlt : (rank k < rank a)%nat).
  { apply Rk. exists rc, n. split; [exact Ea|]. split; [pose proof (Inv_nil_pos _ _ _ _ _ _ I0 Ea); lia|].
    rewrite <- node_kids_kids. exact Hk. }
  pose proof (reach_rank rank k a Rk R ltac:(eauto)). lia.
Qed.

End Graph.

(* ------------------------------------------------------------------------------------------ *)
(* 4. in an acyclic world the default fuel of abs_of is always enough                          *)
(* ------------------------------------------------------------------------------------------ *)

Fixpoint chain (h : addr -> option cell) (a : addr) (l : list addr) : Prop :=
  match l with
  | [] => exists rc n, h a = Some (CItem rc n)
  | b :: r => (exists rc n, h a = Some (CItem rc n) /\ In b (node_kids n)) /\ chain h b r
  end.

Lemma max_attained {X} (g : X -> nat) l : l <> [] ->
  exists x, In x l /\ g x = fold_right (fun x m => Nat.max (g x) m) O l.
Proof.
  induction l as [|x r IH]; intros H; [congruence|]. cbn [fold_right].
  destruct r as [|y r'].
  - exists x. split; [left; reflexivity|cbn; lia].
  - destruct (IH ltac:(discriminate)) as (z & Hz & Ez).
    destruct (Nat.max_spec (g x) (fold_right (fun x m => Nat.max (g x) m) O (y :: r'))) as [[_ E]|[_ E]]; rewrite E.
    + exists z. split; [right; exact Hz|exact Ez].
    + exists x. split; [left; reflexivity|reflexivity].
Qed.
Lemma F2_in_r {X Y} (R : X -> Y -> Prop) l ys y : Forall2 R l ys -> In y ys -> exists x, In x l /\ R x y.
Proof.
  induction 1 as [|x0 y0 l ys H0 F IH]; intros Hy; [destruct Hy|].
  destruct Hy as [<-|Hy]; [exists x0; split; [left; reflexivity|exact H0]|].
  destruct (IH Hy) as (x & Hx & Rx). exists x. split; [right; exact Hx|exact Rx].
Qed.

Lemma tree_chain h : forall f a t, tree f h a t -> exists l, chain h a l /\ S (length l) = depth_walk t.
Proof.
  induction f as [|f IH]; intros a t H; [destruct H|].
  destruct H as (rc & n & Ea & R).
  assert (Leaf : depth_walk t = 1%nat -> exists l, chain h a l /\ S (length l) = depth_walk t).
  { intros E. exists []. split; [exists rc, n; exact Ea|rewrite E; reflexivity]. }
  destruct n as [neg iw v|fw bits|v|text data bytes|text hdr arr cap chunks|indef data al elems|indef data al pairs|v c].
  - subst t. apply Leaf. destruct neg; reflexivity.
  - subst t. apply Leaf. reflexivity.
  - subst t. apply Leaf. reflexivity.
  - destruct R as [_ ->]. apply Leaf. destruct text; reflexivity.
  - destruct R as (_ & _ & cs & _ & ->). apply Leaf. destruct text; reflexivity.
  - destruct R as (_ & xs & Re & ->). destruct xs as [|x0 xr]; [apply Leaf; reflexivity|].
    destruct (max_attained depth_walk (x0 :: xr) ltac:(discriminate)) as (x & Hx & Ex).
    destruct (F2_in_r _ _ _ _ Re Hx) as (e & He & Te). destruct (IH e x Te) as (l & Cl & Ll).
    exists (e :: l). split.
    + split; [exists rc, (NArr indef data al elems); split; [exact Ea|exact He]|exact Cl].
    + rewrite depth_walk_array, <- Ex. cbn [length]. rewrite Ll. reflexivity.
  - destruct R as (_ & kvs & Rp & ->). destruct kvs as [|kv0 kr]; [apply Leaf; reflexivity|].
    destruct (max_attained (fun kv => Nat.max (depth_walk (fst kv)) (depth_walk (snd kv))) (kv0 :: kr) ltac:(discriminate))
      as ([k' v'] & Hx & Ex). cbn [fst snd] in Ex.
    destruct (F2_in_r _ _ _ _ Rp Hx) as ([k ov] & He & (Tk & v0 & Ev & Tv)). cbn [fst snd] in *. subst ov.
    assert (Ik : In k (node_kids (NMap indef data al pairs))).
    { cbn [node_kids]. apply in_flat_map. exists (k, Some v0). split; [exact He|left; reflexivity]. }
    assert (Iv : In v0 (node_kids (NMap indef data al pairs))).
    { cbn [node_kids]. apply in_flat_map. exists (k, Some v0). split; [exact He|right; left; reflexivity]. }
    destruct (Nat.max_spec (depth_walk k') (depth_walk v')) as [[_ E]|[_ E]]; rewrite E in Ex.
    + destruct (IH v0 v' Tv) as (l & Cl & Ll). exists (v0 :: l). split.
      * split; [exists rc, (NMap indef data al pairs); split; [exact Ea|exact Iv]|exact Cl].
      * rewrite depth_walk_map, <- Ex. cbn [length]. rewrite Ll. reflexivity.
    + destruct (IH k k' Tk) as (l & Cl & Ll). exists (k :: l). split.
      * split; [exists rc, (NMap indef data al pairs); split; [exact Ea|exact Ik]|exact Cl].
      * rewrite depth_walk_map, <- Ex. cbn [length]. rewrite Ll. reflexivity.
  - destruct R as (x & tx & -> & Tx & ->). destruct (IH x tx Tx) as (l & Cl & Ll). exists (x :: l). split.
    + split; [exists rc, (NTag v (Some x)); split; [exact Ea|left; reflexivity]|exact Cl].
    + cbn [depth_walk length]. rewrite Ll. reflexivity.
Qed.

Lemma pigeon (l : list addr) (n : N) : NoDup l -> (forall x, In x l -> x < n) -> (length l <= N.to_nat n)%nat.
Proof.
  intros ND Hl.
  assert (Hi : incl l (map N.of_nat (seq 0 (N.to_nat n)))).
  { intros x Hx. specialize (Hl x Hx). apply in_map_iff. exists (N.to_nat x). split; [apply N2Nat.id|].
    apply in_seq. lia. }
  pose proof (NoDup_incl_length ND Hi) as H. rewrite map_length, seq_length in H. exact H.
Qed.

Section Depth.
Variables own ownd : addr -> N.
Variable w : world.
Hypothesis I0 : Inv own ownd [] w.
Variable rank : addr -> nat.
Hypothesis Rk : ranks w rank.

Lemma chain_facts : forall l a, chain (heap w) a l ->
  (forall x, In x l -> (rank x < rank a)%nat) /\ NoDup (a :: l) /\ (forall x, In x (a :: l) -> x < next w).
Proof.
  induction l as [|b r IH]; intros a C; cbn [chain] in C.
  - destruct C as (rc & n & Ea). split; [intros x []|]. split; [constructor; [intros []|constructor]|].
    intros x [<-|[]]. eapply live_lt; eassumption.
  - destruct C as [(rc & n & Ea & Hb) C]. destruct (IH b C) as (A1 & A2 & A3).
    assert (Hlt : (rank b < rank a)%nat).
    { apply Rk. exists rc, n. split; [exact Ea|]. split; [pose proof (Inv_nil_pos _ _ _ _ _ _ I0 Ea); lia|].
      rewrite <- node_kids_kids. exact Hb. }
    assert (B1 : forall x, In x (b :: r) -> (rank x < rank a)%nat).
    { intros x [<-|Hx]; [exact Hlt|]. specialize (A1 x Hx). lia. }
    split; [exact B1|]. split.
    + constructor; [|exact A2]. intros Hin. specialize (B1 a Hin). lia.
    + intros x [<-|Hx]; [eapply live_lt; eassumption|apply A3; exact Hx].
Qed.

Lemma tree_depth_bound f a t : tree f (heap w) a t -> (depth_walk t <= N.to_nat (next w))%nat.
Proof.
  intros T. destruct (tree_chain _ _ _ _ T) as (l & C & Ll). destruct (chain_facts l a C) as (_ & ND & Lt).
  pose proof (pigeon (a :: l) (next w) ND Lt) as P. cbn [length] in P. lia.
Qed.

End Depth.

(* whatever abs can read with some fuel, abs_of reads (with the same result) *)
Theorem abs_of_complete own ownd w f a t w1 :
  Inv own ownd [] w -> acyclic w -> abs f a w = Ret t w1 -> exists w2, abs_of a w = Ret t w2 /\ heap w2 = heap w.
Proof.
  intros I0 AC E. apply acyclic_ranks in AC. destruct AC as [rank Rk].
  apply abs_tree in E. destruct E as [_ T].
  pose proof (tree_depth_bound own ownd w I0 rank Rk f a t T) as B.
  unfold abs_of. apply (tree_abs (heap w) (abs_fuel w) a t); [|reflexivity].
  eapply tree_fuel; [exact T|]. unfold abs_fuel. lia.
Qed.
Corollary tree_abs_of own ownd w f a t :
  Inv own ownd [] w -> acyclic w -> tree f (heap w) a t -> exists w2, abs_of a w = Ret t w2 /\ heap w2 = heap w.
Proof.
  intros I0 AC T. destruct (tree_abs (heap w) f a t T w eq_refl) as (w1 & E & _).
  eapply abs_of_complete; eassumption.
Qed.
Lemma abs_of_tree a w t w1 : abs_of a w = Ret t w1 -> tree (abs_fuel w) (heap w) a t.
Proof. intros E. unfold abs_of in E. apply abs_tree in E. apply E. Qed.

(* ------------------------------------------------------------------------------------------ *)
(* 5. a mutation of one container leaves the tree of every item that does not reach it alone   *)
(* ------------------------------------------------------------------------------------------ *)

(* every old cell other than [m] and the data blocks [blocks] of [m] keeps its node *)
Definition mut_frame (w w' : world) (m : addr) (blocks : list addr) : Prop :=
  forall b, b <> m -> ~ In b blocks -> b < next w -> same_cell (heap w) (heap w') b.

Section Keep.
Variables own ownd : addr -> N.
Variable w : world.
Hypothesis I0 : Inv own ownd [] w.

Lemma unaffected w' m rc n blocks e :
  heap w m = Some (CItem rc n) -> (forall d, In d blocks -> In d (node_blocks n)) ->
  mut_frame w w' m blocks ->
  (exists rce ne, heap w e = Some (CItem rce ne)) -> ~ reach w e m ->
  forall b, reach w e b -> same_cell (heap w) (heap w') b.
Proof.
  intros Em Hbl MF He Hn b Rb. apply MF.
  - intros ->. exact (Hn Rb).
  - intros Hin. apply Hn. eapply (reach_block_owner own ownd w I0 m rc n b e Em (Hbl b Hin) He Rb).
  - destruct He as (rce & ne & Ee).
    assert (Hl : heap w b <> None) by (eapply (reach_live own ownd w I0 e b); [rewrite Ee; discriminate|exact Rb]).
    destruct (heap w b) as [c|] eqn:Eb; [|congruence]. eapply live_lt; eassumption.
Qed.

(* the frame property of [abs]: sharing semantics, negative half *)
Theorem tree_keep w' m rc n blocks f e t :
  heap w m = Some (CItem rc n) -> (forall d, In d blocks -> In d (node_blocks n)) ->
  mut_frame w w' m blocks -> ~ reach w e m ->
  tree f (heap w) e t -> tree f (heap w') e t.
Proof.
  intros Em Hbl MF Hn T. apply tree_transfer with (h := heap w); [|exact T].
  eapply unaffected; try eassumption.
  destruct f; [destruct T|]. destruct T as (rce & ne & Ee & _). eauto.
Qed.

End Keep.

(* ------------------------------------------------------------------------------------------ *)
(* 6. the mutators                                                                             *)
(* ------------------------------------------------------------------------------------------ *)

Lemma F2_app {X Y} (R : X -> Y -> Prop) l1 ys1 l2 ys2 : Forall2 R l1 ys1 -> Forall2 R l2 ys2 -> Forall2 R (l1 ++ l2) (ys1 ++ ys2).
Proof. induction 1; cbn [app]; [auto|]. intros H2. constructor; auto. Qed.

Lemma wp_det {A} (m : M A) w (Q : A -> world -> Prop) r w' : wp m w Q -> m w = Ret r w' -> Q r w'.
Proof. intros (r0 & w0 & E & H) E'. rewrite E in E'. injection E' as <- <-. exact H. Qed.

(* what a successful push-like call (array_push, add_chunk) does to the heap *)
Lemma gpush_true_facts m rc n nodeof (capinv : option addr -> N -> Prop) w x d rcx nx w' :
  wf w -> heap w m = Some (CItem rc n) -> heap w x = Some (CItem rcx nx) -> m <> x ->
  gpush_post m rc nodeof capinv w x d rcx nx true w' ->
  exists d' c', capinv d' c' /\ heap w' m = Some (CItem rc (nodeof d' c')) /\
    mut_frame w w' m (HCont_proofs.opt_list d) /\
    ((d' = d /\ forall o, d = Some o -> o <> m -> o <> x -> heap w' o = heap w o) \/
     exists sz, d' = Some (next w) /\ heap w' (next w) = Some (CData sz)).
Proof.
  intros Hwf Em Ex Hmx P. cbn [gpush_post] in P. destruct P as (d' & c' & Cap & Em' & Ex' & P).
  exists d', c'. split; [exact Cap|]. split; [exact Em'|].
  assert (Sx : same_cell (heap w) (heap w') x).
  { unfold same_cell. rewrite Ex, Ex'. reflexivity. }
  destruct P as [(-> & Hn & Ho)|(-> & Hn & (sz & En) & Eo & Ho)].
  - split.
    + intros b B1 B2 B3. destruct (N.eq_dec b x) as [->|Hbx]; [exact Sx|]. apply same_cell_eq. apply Ho; assumption.
    + left. split; [reflexivity|]. intros o _ O1 O2. apply Ho; assumption.
  - split.
    + intros b B1 B2 B3. destruct (N.eq_dec b x) as [->|Hbx]; [exact Sx|]. apply same_cell_eq. apply Ho; try assumption; [lia|].
      intros ->. apply B2. left. reflexivity.
    + right. exists sz. auto.
Qed.

Lemma mpush_true_facts indef m rc n w k v d l rck nk rcv nv w' :
  wf w -> heap w m = Some (CItem rc n) -> heap w k = Some (CItem rck nk) -> heap w v = Some (CItem rcv nv) ->
  mpush_post indef m rc w k v d l rck nk rcv nv true w' ->
  exists d' c', heap w' m = Some (CItem rc (NMap indef d' c' (l ++ [(k, Some v)]))) /\
    mut_frame w w' m (HCont_proofs.opt_list d) /\
    ((d' = d /\ forall o, d = Some o -> o <> m -> o <> k -> o <> v -> heap w' o = heap w o) \/
     exists sz, d' = Some (next w) /\ heap w' (next w) = Some (CData sz)).
Proof.
  intros Hwf Em Ek Ev P. cbn [mpush_post] in P. destruct P as (d' & c' & _ & Em' & Ek' & Ev' & P).
  exists d', c'. split; [exact Em'|].
  assert (Sk : same_cell (heap w) (heap w') k) by (unfold same_cell; rewrite Ek, Ek'; reflexivity).
  assert (Sv : same_cell (heap w) (heap w') v) by (unfold same_cell; rewrite Ev, Ev'; reflexivity).
  destruct P as [(-> & Hn & Ho)|(-> & Hn & (sz & En) & Eo & Ho)].
  - split.
    + intros b B1 B2 B3. destruct (N.eq_dec b k) as [->|Hbk]; [exact Sk|]. destruct (N.eq_dec b v) as [->|Hbv]; [exact Sv|].
      apply same_cell_eq. apply Ho; assumption.
    + left. split; [reflexivity|]. intros o _ O1 O2 O3. apply Ho; assumption.
  - split.
    + intros b B1 B2 B3. destruct (N.eq_dec b k) as [->|Hbk]; [exact Sk|]. destruct (N.eq_dec b v) as [->|Hbv]; [exact Sv|].
      apply same_cell_eq. apply Ho; try assumption; [lia|]. intros ->. apply B2. left. reflexivity.
    + right. exists sz. auto.
Qed.

Lemma msame_true_facts indef m rc n w q d l rcq nq w' :
  wf w -> heap w m = Some (CItem rc n) -> heap w q = Some (CItem rcq nq) ->
  msame_post indef m rc w q d l rcq nq true w' ->
  exists d' c', heap w' m = Some (CItem rc (NMap indef d' c' (l ++ [(q, Some q)]))) /\
    mut_frame w w' m (HCont_proofs.opt_list d) /\
    ((d' = d /\ forall o, d = Some o -> o <> m -> o <> q -> heap w' o = heap w o) \/
     exists sz, d' = Some (next w) /\ heap w' (next w) = Some (CData sz)).
Proof.
  intros Hwf Em Eq P. cbn [msame_post] in P. destruct P as (d' & c' & Em' & Eq' & P).
  exists d', c'. split; [exact Em'|].
  assert (Sq : same_cell (heap w) (heap w') q) by (unfold same_cell; rewrite Eq, Eq'; reflexivity).
  destruct P as [(-> & Hn & Ho)|(-> & Hn & (sz & En) & Eo & Ho)].
  - split.
    + intros b B1 B2 B3. destruct (N.eq_dec b q) as [->|Hbq]; [exact Sq|]. apply same_cell_eq. apply Ho; assumption.
    + left. split; [reflexivity|]. intros o _ O1 O2. apply Ho; assumption.
  - split.
    + intros b B1 B2 B3. destruct (N.eq_dec b q) as [->|Hbq]; [exact Sq|].
      apply same_cell_eq. apply Ho; try assumption; [lia|]. intros ->. apply B2. left. reflexivity.
    + right. exists sz. auto.
Qed.

Section Mutators.
Variable refuse : N -> N -> bool.
Variables own ownd : addr -> N.
Variable w : world.
Hypothesis I0 : Inv own ownd [] w.
Hypothesis C0 : caps w.
Variable rank : addr -> nat.
Hypothesis Rk : ranks w rank.

Let Hwf : wf w := Inv_wf _ _ _ _ I0.

Lemma block_is_data a rc n o : heap w a = Some (CItem rc n) -> In o (node_blocks n) -> is_data w o.
Proof. intros E H. destruct (G_block own ownd w I0 a rc n o E H) as [X _]. exact X. Qed.

Lemma data_live_kept w' a rc n o :
  heap w a = Some (CItem rc n) -> In o (node_blocks n) -> heap w' o = heap w o -> data_live (heap w') (Some o).
Proof. intros E H Ho. destruct (block_is_data a rc n o E H) as (sz & Eo). exists o, sz. split; [reflexivity|congruence]. Qed.

(* the old children of a container and the inserted item keep their trees *)
Lemma kid_keep w' m rc n blocks f e t :
  heap w m = Some (CItem rc n) -> (forall d, In d blocks -> In d (node_blocks n)) ->
  mut_frame w w' m blocks -> In e (node_kids n) -> tree f (heap w) e t -> tree f (heap w') e t.
Proof.
  intros Em Hbl MF He T. eapply (tree_keep own ownd w I0 w' m rc n blocks); try eassumption.
  eapply kid_not_above; eassumption.
Qed.

(* ---- cbor_array_push ---- *)
Theorem tree_after_push a x w' f indef xs tx :
  tree f (heap w) a (IArray indef xs) -> tree f (heap w) x tx -> a <> x -> ~ reach w x a ->
  array_push refuse a x w = Ret true w' ->
  tree (S f) (heap w') a (IArray indef (xs ++ [tx])).
Proof.
  intros Ta Tx Hax Hnr E.
  destruct f as [|f]; [destruct Ta|].
  destruct (tree_array_inv _ _ _ _ _ Ta) as (rc & data & al & elems & Ea & Rd & Re).
  destruct Tx as (rcx & nx & Ex & Tx0). assert (Tx : tree (S f) (heap w) x tx) by (exists rcx, nx; auto).
  assert (Cap : capinvA indef data al elems) by exact (C0 a rc _ Ea).
  assert (P : gpush_post a rc (fun d' c' => NArr indef d' c' (elems ++ [x])) (fun d' c' => capinvA indef d' c' (elems ++ [x]))
                w x data rcx nx true w').
  { eapply wp_det; [|exact E]. eapply (array_push_gen refuse indef a w x data al elems rc rcx nx Hwf Ea); [|exact Cap|exact Ex|exact Hax].
    intros b ->. eapply block_is_data; [exact Ea|left; reflexivity]. }
  destruct (gpush_true_facts a rc _ _ _ w x data rcx nx w' Hwf Ea Ex Hax P) as (d' & c' & Cap' & Ea' & MF & Hd').
  assert (Hbl : forall d, In d (HCont_proofs.opt_list data) -> In d (node_blocks (NArr indef data al elems))).
  { intros d Hd. destruct data as [o|]; [exact Hd|destruct Hd]. }
  cbn [tree]. exists rc, (NArr indef d' c' (elems ++ [x])). split; [exact Ea'|]. split.
  - right. destruct Hd' as [(-> & Ho)|(sz & -> & En)].
    + assert (Hd : exists o, data = Some o).
      { destruct indef; cbn [capinvA] in Cap'; [|exact Cap']. destruct Cap' as (C1 & _ & C3). destruct data as [o|]; [eauto|].
        specialize (C1 eq_refl). rewrite len_app in C3. change (len [x]) with 1 in C3. lia. }
      destruct Hd as [o ->]. destruct (block_is_data a rc _ o Ea ltac:(left; reflexivity)) as (sz & Eo).
      eapply data_live_kept; [exact Ea|left; reflexivity|]. apply (Ho o eq_refl); intros ->; congruence.
    + exists (next w), sz. auto.
  - exists (xs ++ [tx]). split; [|reflexivity]. apply F2_app.
    + eapply F2_impl_in; [|exact Re]. intros e y He _ Te. apply tree_mono.
      eapply (kid_keep w' a rc _ _ f e y Ea Hbl MF); [exact He|exact Te].
    + constructor; [|constructor].
      eapply (tree_keep own ownd w I0 w' a rc _ _ (S f) x tx Ea Hbl MF Hnr Tx).
Qed.


(* ---- cbor_bytestring_add_chunk / cbor_string_add_chunk ---- *)
Lemma strT_transfer h h' tx c bs : (forall b, reachh h c b -> same_cell h h' b) -> strT h tx c bs -> strT h' tx c bs.
Proof.
  intros S (rc & data & Ec & G).
  destruct (same_cell_item h h' c _ _ (S c (reach_self h c)) Ec) as (rc' & Ec').
  exists rc', data. split; [exact Ec'|]. destruct G as [G|G]; [left; exact G|right].
  eapply same_cell_data; [|exact G]. intros d ->. apply S. eapply reach_block; [apply reach_self|exact Ec|left; reflexivity].
Qed.

(* a definite string reaches itself and its payload only *)
Lemma str_reach c rc text data bs b : heap w c = Some (CItem rc (NStr text data bs)) -> reach w c b ->
  b = c \/ data = Some b.
Proof.
  intros Ec R. induction R as [|b0 rc0 n0 k R IH E Hk|b0 rc0 n0 d R IH E Hd].
  - left. reflexivity.
  - destruct IH as [->|Hb].
    + rewrite Ec in E. injection E as _ <-. destruct Hk.
    + subst data. destruct (G_block own ownd w I0 c rc _ b0 Ec ltac:(left; reflexivity)) as [(sz & Eb) _]. rewrite Eb in E. discriminate E.
  - destruct IH as [->|Hb].
    + rewrite Ec in E. injection E as _ <-. right. destruct data as [o|]; cbn in Hd.
      * destruct Hd as [Hd|Hd]; [subst; reflexivity|destruct Hd].
      * destruct Hd.
    + subst data. destruct (G_block own ownd w I0 c rc _ b0 Ec ltac:(left; reflexivity)) as [(sz & Eb) _]. rewrite Eb in E. discriminate E.
Qed.

Theorem tree_after_add_chunk a x w' f text cs bs :
  tree f (heap w) a (chunked_item text cs) -> strT (heap w) text x bs -> a <> x ->
  add_chunk refuse a x w = Ret true w' ->
  tree f (heap w') a (chunked_item text (cs ++ [bs])).
Proof.
  intros Ta Sx Hax E.
  destruct f as [|f]; [destruct Ta|].
  destruct (tree_chunked_inv _ _ _ _ _ Ta) as (rc & hdr & arr & cap & chunks & Ea & Rh & Ra & Rc).
  pose proof Sx as (rcx & datax & Ex & Gx).
  pose proof (C0 a rc _ Ea) as Cap. cbn [node_ok] in Cap.
  destruct (G_block own ownd w I0 a rc _ hdr Ea ltac:(left; reflexivity)) as [Hh _].
  assert (Hdh : arr <> Some hdr).
  { intros ->. pose proof (Inv_blocks _ _ _ _ _ _ I0 Ea hdr) as Hb. cbn [HRef_proofs.dblocks HRef_proofs.opt_list app] in Hb.
    destruct (Hb ltac:(left; reflexivity)) as [_ Ch]. cbn [cnt] in Ch. rewrite N.eqb_refl in Ch. lia. }
  assert (P : gpush_post a rc (fun d' c' => NChunked text hdr d' c' (chunks ++ [x])) (fun d' c' => capinvC d' c' (chunks ++ [x]))
                w x arr rcx (NStr text datax bs) true w').
  { eapply wp_det; [|exact E].
    eapply (add_chunk_gen refuse text hdr a w x arr cap chunks rc rcx _ Hwf Ea Hh); [|exact Hdh|exact Cap|exact Ex|apply chunk_ok_str|exact Hax].
    intros b ->. eapply block_is_data; [exact Ea|right; left; reflexivity]. }
  destruct (gpush_true_facts a rc _ _ _ w x arr rcx _ w' Hwf Ea Ex Hax P) as (d' & c' & Cap' & Ea' & MF & Hd').
  assert (Hbl : forall d, In d (HCont_proofs.opt_list arr) -> In d (node_blocks (NChunked text hdr arr cap chunks))).
  { intros d Hd. cbn [node_blocks]. right. destruct arr as [o|]; [exact Hd|destruct Hd]. }
  assert (Hhdr : same_cell (heap w) (heap w') hdr).
  { destruct Hh as (sz & Eh). apply MF.
    - intros ->. congruence.
    - intros Hin. apply Hdh. destruct arr as [o|]; [destruct Hin as [->|[]]; reflexivity|destruct Hin].
    - eapply live_lt; eassumption. }
  unfold chunked_item. cbn [tree]. exists rc, (NChunked text hdr d' c' (chunks ++ [x])). split; [exact Ea'|]. split; [|split].
  - eapply same_cell_data; [|exact Rh]. intros d Ed. injection Ed as <-. exact Hhdr.
  - right. destruct Hd' as [(-> & Ho)|(sz & -> & En)].
    + assert (Hd : exists o, arr = Some o).
      { destruct Cap' as (C1 & _ & C3). destruct arr as [o|]; [eauto|].
        specialize (C1 eq_refl). rewrite len_app in C3. change (len [x]) with 1 in C3. lia. }
      destruct Hd as [o ->]. destruct (block_is_data a rc _ o Ea ltac:(right; left; reflexivity)) as (sz & Eo).
      eapply data_live_kept; [exact Ea|right; left; reflexivity|]. apply (Ho o eq_refl); intros ->; congruence.
    + exists (next w), sz. auto.
  - exists (cs ++ [bs]). split; [|destruct text; reflexivity]. apply F2_app.
    + eapply F2_impl_in; [|exact Rc]. intros c y Hc _ Tc. eapply strT_transfer; [|exact Tc].
      eapply (unaffected own ownd w I0 w' a rc _ _ c Ea Hbl MF).
      * destruct Tc as (rcc & dc & Ec & _). eauto.
      * eapply kid_not_above; [exact I0|exact Rk|exact Ea|exact Hc].
    + constructor; [|constructor]. eapply strT_transfer; [|exact Sx].
      eapply (unaffected own ownd w I0 w' a rc _ _ x Ea Hbl MF); [eauto|].
      intros R. destruct (str_reach x _ _ _ _ a Ex R) as [Hq | Hq]; [subst; congruence|]. subst datax.
      destruct (G_block own ownd w I0 x rcx _ a Ex ltac:(left; reflexivity)) as [(sz & Ea2) _]. congruence.
Qed.


(* ---- cbor_map_add ---- *)
Theorem tree_after_map_add a k v w' f indef kvs tk tv :
  tree f (heap w) a (IMap indef kvs) -> tree f (heap w) k tk -> tree f (heap w) v tv ->
  a <> k -> a <> v -> ~ reach w k a -> ~ reach w v a ->
  map_add refuse a k v w = Ret true w' ->
  tree (S f) (heap w') a (IMap indef (kvs ++ [(tk, tv)])).
Proof.
  intros Ta Tk Tv Hak Hav Hnk Hnv E.
  destruct f as [|f]; [destruct Ta|].
  destruct (tree_map_inv _ _ _ _ _ Ta) as (rc & data & al & pairs & Ea & Rd & Rp).
  pose proof Tk as (rck & nk & Ek & _). pose proof Tv as (rcv & nv & Ev & _).
  pose proof (C0 a rc _ Ea) as Cap. cbn [node_ok] in Cap.
  assert (Hb : forall b, data = Some b -> is_data w b).
  { intros b ->. eapply block_is_data; [exact Ea|left; reflexivity]. }
  assert (Cw' : caps w') by (eapply (kq_map_add refuse a k v w true w' C0 E)).
  assert (F : exists d' c', heap w' a = Some (CItem rc (NMap indef d' c' (pairs ++ [(k, Some v)]))) /\
              mut_frame w w' a (HCont_proofs.opt_list data) /\
              ((d' = data /\ forall o, data = Some o -> o <> a -> o <> k -> o <> v -> heap w' o = heap w o) \/
               exists sz, d' = Some (next w) /\ heap w' (next w) = Some (CData sz))).
  { destruct (N.eq_dec k v) as [<-|Hkv].
    - assert (P : msame_post indef a rc w k data pairs rck nk true w').
      { eapply wp_det; [|exact E]. eapply (map_add_same_gen refuse indef a w k data al pairs rc rck nk Hwf Ea Hb Cap Ek Hak). }
      destruct (msame_true_facts indef a rc _ w k data pairs rck nk w' Hwf Ea Ek P) as (d' & c' & A1 & A2 & A3).
      exists d', c'. split; [exact A1|]. split; [exact A2|]. destruct A3 as [[-> Ho]|A3]; [left|right; exact A3].
      split; [reflexivity|]. intros o Eo O1 O2 _. apply Ho; assumption.
    - assert (P : mpush_post indef a rc w k v data pairs rck nk rcv nv true w').
      { eapply wp_det; [|exact E].
        eapply (map_add_gen refuse indef a w k v data al pairs rc rck nk rcv nv Hwf Ea Hb Cap Ek Ev Hak Hav Hkv). }
      exact (mpush_true_facts indef a rc _ w k v data pairs rck nk rcv nv w' Hwf Ea Ek Ev P). }
  destruct F as (d' & c' & Ea' & MF & Hd').
  assert (Hbl : forall d, In d (HCont_proofs.opt_list data) -> In d (node_blocks (NMap indef data al pairs))).
  { intros d Hd. destruct data as [o|]; [exact Hd|destruct Hd]. }
  pose proof (Cw' a rc _ Ea') as Cap'. cbn [node_ok] in Cap'.
  cbn [tree]. exists rc, (NMap indef d' c' (pairs ++ [(k, Some v)])). split; [exact Ea'|]. split.
  - right. destruct Hd' as [(-> & Ho)|(sz & -> & En)].
    + assert (Hd : exists o, data = Some o).
      { destruct indef; cbn [capinvM] in Cap'; [|exact Cap']. destruct Cap' as (C1 & _ & C3). destruct data as [o|]; [eauto|].
        specialize (C1 eq_refl). rewrite len_app in C3. change (len [(k, Some v)]) with 1 in C3. lia. }
      destruct Hd as [o ->]. destruct (block_is_data a rc _ o Ea ltac:(left; reflexivity)) as (sz & Eo).
      eapply data_live_kept; [exact Ea|left; reflexivity|]. apply (Ho o eq_refl); intros ->; congruence.
    + exists (next w), sz. auto.
  - exists (kvs ++ [(tk, tv)]). split; [|reflexivity]. apply F2_app.
    + eapply F2_impl_in; [|exact Rp]. intros [k0 ov] [k' v'] Hx _ (Rk0 & v0 & Ev0 & Rv0). cbn [fst snd] in *. subst ov.
      assert (Ik : In k0 (node_kids (NMap indef data al pairs))).
      { cbn [node_kids]. apply in_flat_map. exists (k0, Some v0). split; [exact Hx|left; reflexivity]. }
      assert (Iv : In v0 (node_kids (NMap indef data al pairs))).
      { cbn [node_kids]. apply in_flat_map. exists (k0, Some v0). split; [exact Hx|right; left; reflexivity]. }
      unfold pairT. cbn [fst snd]. split.
      * apply tree_mono. eapply (kid_keep w' a rc _ _ f k0 k' Ea Hbl MF Ik Rk0).
      * exists v0. split; [reflexivity|]. apply tree_mono. eapply (kid_keep w' a rc _ _ f v0 v' Ea Hbl MF Iv Rv0).
    + constructor; [|constructor]. unfold pairT. cbn [fst snd]. split.
      * eapply (tree_keep own ownd w I0 w' a rc _ _ (S f) k tk Ea Hbl MF Hnk Tk).
      * exists v. split; [reflexivity|]. eapply (tree_keep own ownd w I0 w' a rc _ _ (S f) v tv Ea Hbl MF Hnv Tv).
Qed.

End Mutators.

(* ---- mutators that release something (cbor_array_replace): items whose node survives ---- *)

(* every item of [w'] other than [a] has the node it had in [w] *)
Definition nodes_kept (w w' : world) (a : addr) : Prop :=
  forall b rc' n, b <> a -> heap w' b = Some (CItem rc' n) -> exists rc, heap w b = Some (CItem rc n).

Section Sub.
Variables own' ownd' : addr -> N.
Variables w w' : world.
Variable a : addr.
Hypothesis I1 : Inv own' ownd' [] w'.
Hypothesis NK : nodes_kept w w' a.

Lemma sub_node e rc n : e <> a -> heap w e = Some (CItem rc n) -> (exists rc' n', heap w' e = Some (CItem rc' n')) ->
  exists rc', heap w' e = Some (CItem rc' n).
Proof.
  intros Hne E (rc' & n' & E'). destruct (NK e rc' n' Hne E') as (rc0 & E0). rewrite E in E0. injection E0 as _ <-. eauto.
Qed.

Theorem tree_sub : forall f e t,
  (exists rc' n', heap w' e = Some (CItem rc' n')) -> ~ reach w e a ->
  tree f (heap w) e t -> tree f (heap w') e t.
Proof.
  induction f as [|f IH]; intros e t Hl Hn T; [destruct T|].
  destruct T as (rc & n & Ea & R).
  assert (Hne : e <> a) by (intros ->; apply Hn; apply reach_self).
  destruct (sub_node e rc n Hne Ea Hl) as (rc' & Ea').
  cbn [tree]. exists rc', n. split; [exact Ea'|].
  assert (DL : forall p, (forall d, p = Some d -> In d (node_blocks n)) -> data_live (heap w) p -> data_live (heap w') p).
  { intros p Hp (d & sz & -> & _). destruct (G_block own' ownd' w' I1 e rc' n d Ea' (Hp d eq_refl)) as [(sz' & Ed) _].
    exists d, sz'. auto. }
  assert (Kid : forall k, In k (node_kids n) -> (exists rck nk, heap w' k = Some (CItem rck nk)) /\ ~ reach w k a).
  { intros k Hk. split; [exact (G_kid own' ownd' w' I1 e rc' n k Ea' Hk)|].
    intros Rk. apply Hn. eapply reach_step; eassumption. }
  destruct n as [neg iw v|fw bits|v|text data bytes|text hdr arr cap chunks|indef data al elems|indef data al pairs|v c];
    try exact R; cbn [node_kids node_blocks] in *.
  - destruct R as [G ->]. split; [|reflexivity]. destruct G as [G|G]; [left; exact G|right].
    apply DL; [|exact G]. intros d ->. left. reflexivity.
  - destruct R as (Rh & Ra & cs & Rc & ->).
    split; [apply DL; [intros d E; injection E as <-; left; reflexivity|exact Rh]|].
    split; [destruct Ra as [Ra|Ra]; [left; exact Ra|right; apply DL; [intros d ->; right; left; reflexivity|exact Ra]]|].
    exists cs. split; [|reflexivity].
    eapply F2_impl_in; [|exact Rc]. intros c bs Hc _ (rcc & dc & Ec & Gc).
    destruct (Kid c Hc) as [Lc Nc].
    assert (Hca : c <> a) by (intros ->; apply Nc; apply reach_self).
    destruct (sub_node c _ _ Hca Ec Lc) as (rcc' & Ec').
    exists rcc', dc. split; [exact Ec'|]. destruct Gc as [Gc|Gc]; [left; exact Gc|right].
    destruct Gc as (d & sz & -> & _).
    destruct (G_block own' ownd' w' I1 c rcc' _ d Ec' ltac:(left; reflexivity)) as [(sz' & Ed) _]. exists d, sz'. auto.
  - destruct R as (Rd & xs & Re & ->).
    split; [destruct Rd as [Rd|Rd]; [left; exact Rd|right; apply DL; [intros d ->; left; reflexivity|exact Rd]]|].
    exists xs. split; [|reflexivity].
    eapply F2_impl_in; [|exact Re]. intros x y Hx _ Tx. destruct (Kid x Hx) as [Lx Nx]. apply IH; assumption.
  - destruct R as (Rd & kvs & Rp & ->).
    split; [destruct Rd as [Rd|Rd]; [left; exact Rd|right; apply DL; [intros d ->; left; reflexivity|exact Rd]]|].
    exists kvs. split; [|reflexivity].
    eapply F2_impl_in; [|exact Rp]. intros [k ov] [k' v'] Hx _ (Rk0 & v0 & Ev & Rv). cbn [fst snd] in *. subst ov.
    assert (Ik : In k (flat_map (fun kv => fst kv :: match snd kv with Some v => [v] | None => [] end) pairs)).
    { apply in_flat_map. exists (k, Some v0). split; [exact Hx|left; reflexivity]. }
    assert (Iv : In v0 (flat_map (fun kv => fst kv :: match snd kv with Some v => [v] | None => [] end) pairs)).
    { apply in_flat_map. exists (k, Some v0). split; [exact Hx|right; left; reflexivity]. }
    destruct (Kid k Ik) as [Lk Nk]. destruct (Kid v0 Iv) as [Lv Nv].
    unfold pairT. cbn [fst snd]. split; [apply IH; assumption|].
    exists v0. split; [reflexivity|]. apply IH; assumption.
  - destruct R as (x & tx & -> & Rx & ->). exists x, tx. split; [reflexivity|]. split; [|reflexivity].
    destruct (Kid x ltac:(left; reflexivity)) as [Lx Nx]. apply IH; assumption.
Qed.

End Sub.

Lemma F2_length {X Y} (R : X -> Y -> Prop) l ys : Forall2 R l ys -> length l = length ys.
Proof. induction 1; cbn [length]; congruence. Qed.
Lemma F2_set_nth {X Y} (R : X -> Y -> Prop) x y : forall l ys i, Forall2 R l ys -> R x y -> Forall2 R (set_nth l i x) (set_nth ys i y).
Proof.
  induction l as [|x0 l IH]; intros ys i F Hxy; inversion F; subst; [destruct i; constructor|].
  destruct i; cbn [set_nth]; constructor; auto.
Qed.

Lemma incref_nodes q w r w' : incref q w = Ret r w' ->
  forall b rc' n, heap w' b = Some (CItem rc' n) -> exists rc, heap w b = Some (CItem rc n).
Proof.
  unfold incref. intros H. apply bind_inv in H. destruct H as (c & w1 & E1 & H).
  apply bind_inv in H. destruct H as (u & w2 & E2 & H). apply ret_inv in H. destruct H as [_ ->].
  apply rd_inv in E1. destruct E1 as (Eq & H1 & _). apply wr_inv in E2. destruct E2 as (Ea & Eo & _).
  intros b rc' n Eb. destruct (N.eq_dec b q) as [->|Ne].
  - rewrite Ea in Eb. injection Eb as _ <-. eauto.
  - rewrite (Eo b Ne), H1 in Eb. eauto.
Qed.

(* cbor_array_replace changes the node of the array only; every other surviving item keeps its node *)
Lemma array_replace_nodes a i x w b w' : array_replace a i x w = Ret b w' -> nodes_kept w w' a.
Proof.
  unfold array_replace. intros H. apply bind_inv in H. destruct H as ([rc0 n0] & w1 & E1 & H).
  apply rd_inv in E1. cbn [fst snd] in *. destruct E1 as (E1 & H1 & _).
  destruct n0 as [neg iw v|fw bits|v|text data bytes|text hdr arr cap chunks|indef data al elems|indef data al pairs|v c];
    try discriminate H.
  destruct (len elems <=? i).
  { apply ret_inv in H. destruct H as [_ ->]. intros q rc' n _ Eq. rewrite H1 in Eq. eauto. }
  apply bind_inv in H. destruct H as (u & w2 & E2 & H). apply touch_any_inv in E2. destruct E2 as (H2 & _).
  destruct (nth_error elems (N.to_nat i)) as [old|]; [|discriminate H].
  apply bind_inv in H. destruct H as (u3 & w3 & E3 & H).
  apply bind_inv in H. destruct H as (u4 & w4 & E4 & H).
  apply bind_inv in H. destruct H as (c' & w5 & E5 & H).
  apply bind_inv in H. destruct H as (u6 & w6 & E6 & H).
  apply bind_inv in H. destruct H as (u7 & w7 & E7 & H). apply ret_inv in H. destruct H as [_ ->].
  unfold decref in E3. destruct u3. apply drain_le in E3.
  apply rd_inv in E5. destruct E5 as (_ & H5 & _). apply touch_any_inv in E6. destruct E6 as (H6 & _).
  apply wr_inv in E7. destruct E7 as (_ & Eo & _).
  intros q rc' n Hq Eq. rewrite (Eo q Hq), H6, H5 in Eq.
  destruct (incref_nodes _ _ _ _ E4 q rc' n Eq) as (rc3 & Eq3).
  destruct (E3 q rc3 n Eq3) as (rc2 & Eq2 & _). rewrite H2, H1 in Eq2. eauto.
Qed.

Lemma array_replace_true a i x w w' rc indef data al elems :
  heap w a = Some (CItem rc (NArr indef data al elems)) -> array_replace a i x w = Ret true w' ->
  i < len elems /\ exists rc', heap w' a = Some (CItem rc' (NArr indef data al (set_nth elems (N.to_nat i) x))).
Proof.
  intros Ea H. unfold array_replace in H. apply bind_inv in H. destruct H as ([rc0 n0] & w1 & E1 & H).
  apply rd_inv in E1. cbn [fst snd] in *. destruct E1 as (E1 & H1 & _). rewrite Ea in E1. injection E1 as <- <-.
  destruct (N.leb_spec (len elems) i) as [Out|In].
  { apply ret_inv in H. destruct H as [H _]. discriminate H. }
  split; [exact In|].
  apply bind_inv in H. destruct H as (u & w2 & E2 & H).
  destruct (nth_error elems (N.to_nat i)) as [old|]; [|discriminate H].
  apply bind_inv in H. destruct H as (u3 & w3 & E3 & H).
  apply bind_inv in H. destruct H as (u4 & w4 & E4 & H).
  apply bind_inv in H. destruct H as (c' & w5 & E5 & H).
  apply bind_inv in H. destruct H as (u6 & w6 & E6 & H).
  apply bind_inv in H. destruct H as (u7 & w7 & E7 & H). apply ret_inv in H. destruct H as [_ ->].
  apply wr_inv in E7. destruct E7 as (E7 & _). eauto.
Qed.

Section Replace.
Variables own ownd own' ownd' : addr -> N.
Variables w w' : world.
Hypothesis I0 : Inv own ownd [] w.
Hypothesis I1 : Inv own' ownd' [] w'.
Variable rank : addr -> nat.
Hypothesis Rk : ranks w rank.

Theorem tree_after_replace a i x f indef xs tx :
  tree f (heap w) a (IArray indef xs) -> tree f (heap w) x tx -> ~ reach w x a ->
  array_replace a i x w = Ret true w' ->
  i < len xs /\ tree (S f) (heap w') a (IArray indef (set_nth xs (N.to_nat i) tx)).
Proof.
  intros Ta Tx Hnr E.
  destruct f as [|f]; [destruct Ta|].
  destruct (tree_array_inv _ _ _ _ _ Ta) as (rc & data & al & elems & Ea & Rd & Re).
  pose proof (array_replace_nodes a i x w true w' E) as NK.
  assert (Hlen : len xs = len elems).
  { unfold len. f_equal. symmetry. eapply F2_length. exact Re. }
  destruct (array_replace_true a i x w w' rc indef data al elems Ea E) as (Hi & rc' & Ea').
  split; [lia|].
  set (n' := NArr indef data al (set_nth elems (N.to_nat i) x)) in *.
  assert (Hin : In x (set_nth elems (N.to_nat i) x)) by (apply in_set_nth; unfold len in Hi; lia).
  cbn [tree]. exists rc', n'. split; [exact Ea'|]. subst n'. split.
  - right. destruct elems as [|e0 er]; [cbn in Hi; lia|]. destruct Rd as [Rd|Rd]; [discriminate Rd|].
    destruct Rd as (d & sz & -> & _).
    destruct (G_block own' ownd' w' I1 a rc' _ d Ea' ltac:(left; reflexivity)) as [(sz' & Ed) _]. exists d, sz'. auto.
  - exists (set_nth xs (N.to_nat i) tx). split; [|reflexivity].
    assert (Live : forall e, In e (set_nth elems (N.to_nat i) x) -> exists rce ne, heap w' e = Some (CItem rce ne)).
    { intros e He. exact (G_kid own' ownd' w' I1 a rc' _ e Ea' He). }
    assert (F : Forall2 (fun e y => In e (set_nth elems (N.to_nat i) x) -> tree (S f) (heap w') e y)
                        (set_nth elems (N.to_nat i) x) (set_nth xs (N.to_nat i) tx)).
    { apply F2_set_nth.
      - eapply F2_impl_in; [|exact Re]. intros e y He _ Te Hl. apply tree_mono.
        eapply (tree_sub own' ownd' w w' a I1 NK f e y (Live e Hl)); [|exact Te].
        eapply kid_not_above; [exact I0|exact Rk|exact Ea|exact He].
      - intros Hl. eapply (tree_sub own' ownd' w w' a I1 NK (S f) x tx (Live x Hl) Hnr Tx). }
    eapply F2_impl_in; [|exact F]. intros e y He _ H. apply H. exact He.
Qed.

End Replace.

(* ---- cbor_tag_set_item, and the frames of the push-like mutators ---- *)
Section Mutators2.
Variable refuse : N -> N -> bool.
Variables own ownd : addr -> N.
Variable w : world.
Hypothesis I0 : Inv own ownd [] w.
Hypothesis C0 : caps w.

Let Hwf : wf w := Inv_wf _ _ _ _ I0.

Lemma tag_set_heap t x w' rc v c0 rcx nx :
  heap w t = Some (CItem rc (NTag v c0)) -> heap w x = Some (CItem rcx nx) -> t <> x ->
  tag_set_item t x w = Ret tt w' ->
  heap w' t = Some (CItem rc (NTag v (Some x))) /\ mut_frame w w' t [].
Proof.
  intros Et Ex Htx E. unfold tag_set_item in E.
  rewrite (bind_Ret _ _ _ _ _ (incref_spec x w rcx nx Ex)) in E.
  set (w1 := w_incref x rcx nx w) in *.
  assert (E1 : heap w1 t = Some (CItem rc (NTag v c0))) by (subst w1; wsimpl; rewrite upd_other by exact Htx; exact Et).
  rewrite (bind_Ret _ _ _ _ _ (rd_item_spec t w1 _ _ E1)) in E. cbn [fst snd] in E.
  rewrite (wr_item_spec t rc (NTag v (Some x)) (w_log (AccR t) w1) rc (NTag v c0) E1) in E. injection E as <-.
  split; [wsimpl; apply upd_same|].
  intros b B1 _ _. unfold same_cell. subst w1. wsimpl. rewrite upd_other by exact B1. unfold upd.
  destruct (N.eqb_spec b x) as [->|_]; [rewrite Ex; reflexivity|]. destruct (heap w b) as [[? ?|?]|]; auto.
Qed.

Theorem tree_after_tag_set rank t x w' f rc v c0 tx :
  ranks w rank -> heap w t = Some (CItem rc (NTag v c0)) -> tree f (heap w) x tx -> t <> x -> ~ reach w x t ->
  tag_set_item t x w = Ret tt w' ->
  tree (S f) (heap w') t (ITag v tx).
Proof.
  intros Rk Et Tx Htx Hnr E.
  destruct f as [|f]; [destruct Tx|]. pose proof Tx as (rcx & nx & Ex & _).
  destruct (tag_set_heap t x w' rc v c0 rcx nx Et Ex Htx E) as [Et' MF].
  cbn [tree]. exists rc, (NTag v (Some x)). split; [exact Et'|]. exists x, tx. split; [reflexivity|]. split; [|reflexivity].
  eapply (tree_keep own ownd w I0 w' t rc _ [] (S f) x tx Et ltac:(intros d []) MF Hnr Tx).
Qed.

(* frames: which old cells may have lost their node *)
Lemma push_frame a x b w' rc indef d c l rcx nx :
  heap w a = Some (CItem rc (NArr indef d c l)) -> heap w x = Some (CItem rcx nx) -> a <> x ->
  array_push refuse a x w = Ret b w' -> mut_frame w w' a (HCont_proofs.opt_list d).
Proof.
  intros Ea Ex Hax E. destruct b.
  - assert (P : gpush_post a rc (fun d' c' => NArr indef d' c' (l ++ [x])) (fun d' c' => capinvA indef d' c' (l ++ [x]))
                  w x d rcx nx true w').
    { eapply wp_det; [|exact E]. eapply (array_push_gen refuse indef a w x d c l rc rcx nx Hwf Ea); [|exact (C0 a rc _ Ea)|exact Ex|exact Hax].
      intros o ->. destruct (G_block own ownd w I0 a rc _ o Ea ltac:(left; reflexivity)) as [X _]. exact X. }
    destruct (gpush_true_facts a rc _ _ _ w x d rcx nx w' Hwf Ea Ex Hax P) as (d' & c' & _ & _ & MF & _). exact MF.
  - destruct (array_push_false refuse a x w w' E) as [H _]. intros q _ _ _. apply same_cell_eq. rewrite H. reflexivity.
Qed.

Lemma add_chunk_frame a x b w' rc text hdr d c l rcx nx :
  heap w a = Some (CItem rc (NChunked text hdr d c l)) -> heap w x = Some (CItem rcx nx) -> chunk_ok text nx -> a <> x ->
  add_chunk refuse a x w = Ret b w' -> mut_frame w w' a (HCont_proofs.opt_list d).
Proof.
  intros Ea Ex Hkx Hax E. destruct b.
  - pose proof (C0 a rc _ Ea) as Cap. cbn [node_ok] in Cap.
    destruct (G_block own ownd w I0 a rc _ hdr Ea ltac:(left; reflexivity)) as [Hh _].
    assert (Hdh : d <> Some hdr).
    { intros ->. pose proof (Inv_blocks _ _ _ _ _ _ I0 Ea hdr) as Hb. cbn [HRef_proofs.dblocks HRef_proofs.opt_list app] in Hb.
      destruct (Hb ltac:(left; reflexivity)) as [_ Ch]. cbn [cnt] in Ch. rewrite N.eqb_refl in Ch. lia. }
    assert (P : gpush_post a rc (fun d' c' => NChunked text hdr d' c' (l ++ [x])) (fun d' c' => capinvC d' c' (l ++ [x]))
                  w x d rcx nx true w').
    { eapply wp_det; [|exact E].
      eapply (add_chunk_gen refuse text hdr a w x d c l rc rcx nx Hwf Ea Hh); [|exact Hdh|exact Cap|exact Ex|exact Hkx|exact Hax].
      intros o ->. destruct (G_block own ownd w I0 a rc _ o Ea ltac:(right; left; reflexivity)) as [X _]. exact X. }
    destruct (gpush_true_facts a rc _ _ _ w x d rcx nx w' Hwf Ea Ex Hax P) as (d' & c' & _ & _ & MF & _). exact MF.
  - destruct (add_chunk_false refuse a x w w' E) as [H _]. intros q _ _ _. apply same_cell_eq. rewrite H. reflexivity.
Qed.

Lemma map_add_frame a k v b w' rc indef d c l rck nk rcv nv :
  heap w a = Some (CItem rc (NMap indef d c l)) -> heap w k = Some (CItem rck nk) -> heap w v = Some (CItem rcv nv) ->
  a <> k -> a <> v ->
  map_add refuse a k v w = Ret b w' -> mut_frame w w' a (HCont_proofs.opt_list d).
Proof.
  intros Ea Ek Ev Hak Hav E. destruct b.
  - pose proof (C0 a rc _ Ea) as Cap. cbn [node_ok] in Cap.
    assert (Hb : forall o, d = Some o -> is_data w o).
    { intros o ->. destruct (G_block own ownd w I0 a rc _ o Ea ltac:(left; reflexivity)) as [X _]. exact X. }
    destruct (N.eq_dec k v) as [<-|Hkv].
    + assert (P : msame_post indef a rc w k d l rck nk true w').
      { eapply wp_det; [|exact E]. eapply (map_add_same_gen refuse indef a w k d c l rc rck nk Hwf Ea Hb Cap Ek Hak). }
      destruct (msame_true_facts indef a rc _ w k d l rck nk w' Hwf Ea Ek P) as (d' & c' & _ & MF & _). exact MF.
    + assert (P : mpush_post indef a rc w k v d l rck nk rcv nv true w').
      { eapply wp_det; [|exact E].
        eapply (map_add_gen refuse indef a w k v d c l rc rck nk rcv nv Hwf Ea Hb Cap Ek Ev Hak Hav Hkv). }
      destruct (mpush_true_facts indef a rc _ w k v d l rck nk rcv nv w' Hwf Ea Ek Ev P) as (d' & c' & _ & MF & _). exact MF.
  - destruct (map_add_false refuse a k v w w' E) as [H _]. intros q _ _ _. apply same_cell_eq. rewrite H. reflexivity.
Qed.

End Mutators2.

(* ------------------------------------------------------------------------------------------ *)
(* 7. the client's view: abs_of after each mutating call of a rule-following client            *)
(* ------------------------------------------------------------------------------------------ *)

Lemma below_not_reach own ownd w rank p q :
  Inv own ownd [] w -> ranks w rank -> (rank q < rank p)%nat -> (exists rc n, heap w p = Some (CItem rc n)) -> ~ reach w q p.
Proof. intros I0 Rk Hlt Hp R. pose proof (reach_rank own ownd w I0 rank q p Rk R Hp). lia. Qed.


Section Steps.
Variable refuse : N -> N -> bool.
Variable L : N.

(* after a legal call that respects the no-cycle rule the invariants hold again *)
Lemma after_step s own ownd w o s' r w' :
  Inv own ownd [] w -> caps w -> acyclic w -> legal s own w o -> below_rule s w o ->
  step refuse L s o w = Ret (s', r) w' ->
  Inv (own_after s o own s') ownd [] w' /\ caps w' /\ acyclic w'.
Proof.
  intros I0 C0 AC Lg Bl E.
  destruct (C04_step refuse L s own ownd w o I0 (Inv_wf _ _ _ _ I0) C0 Lg) as (s1 & r1 & w1 & E1 & I1 & _ & C1).
  rewrite E in E1. injection E1 as <- <- <-.
  split; [exact I1|]. split; [exact C1|].
  exact (wp_det _ _ _ _ _ (step_acyclic refuse L s own ownd w o I0 C0 Lg AC Bl) E).
Qed.

(* the tree of [e] seen by abs_of in [w'] *)
Lemma tree_to_abs_of own ownd w' f e t :
  Inv own ownd [] w' -> acyclic w' -> tree f (heap w') e t -> exists w2, abs_of e w' = Ret t w2.
Proof. intros I1 AC T. destruct (tree_abs_of own ownd w' f e t I1 AC T) as (w2 & E & _). eauto. Qed.

Lemma same_heap_tree w w' f e t : (forall b, heap w' b = heap w b) -> tree f (heap w) e t -> tree f (heap w') e t.
Proof. intros H T. eapply tree_transfer; [|exact T]. intros b _. apply same_cell_eq. apply H. Qed.

Lemma heq_pointwise w w' : heap w' = heap w -> forall b, heap w' b = heap w b.
Proof. intros H b. rewrite H. reflexivity. Qed.

(* ---- cbor_array_push ---- *)
Theorem abs_after_push : forall s own ownd w ha hx a x s' b w' i xs tx wa wx,
  Inv own ownd [] w -> caps w -> acyclic w ->
  legal s own w (OPush ha hx) -> below_rule s w (OPush ha hx) ->
  hget s ha = Some a -> hget s hx = Some x ->
  abs_of a w = Ret (IArray i xs) wa -> abs_of x w = Ret tx wx ->
  step refuse L s (OPush ha hx) w = Ret (s', OutBool b) w' ->
  exists w2, abs_of a w' = Ret (IArray i (if b then xs ++ [tx] else xs)) w2.
Proof.
  intros s own ownd w ha hx a x s' b w' i xs tx wa wx I0 C0 AC Lg Bl Ha Hx Aa Ax E.
  destruct (after_step s own ownd w _ s' _ w' I0 C0 AC Lg Bl E) as (I1 & _ & AC1).
  destruct (Lg a x Ha Hx) as (_ & _ & Hax & _ & (rc & ind & d & c & l & Ea)).
  destruct (Bl a x Ha Hx) as (rank & Rk & Hlt).
  apply abs_of_tree in Aa, Ax.
  cbn [step] in E. unfold with2 in E. rewrite Ha, Hx in E. apply bind_inv in E. destruct E as (b0 & w1 & E1 & E).
  apply ret_inv in E. destruct E as [E ->]. injection E as -> ->.
  destruct b0.
  - eapply tree_to_abs_of; [exact I1|exact AC1|].
    eapply (tree_after_push refuse own ownd w I0 C0 rank Rk a x w1 _ i xs tx Aa Ax Hax); [|exact E1].
    eapply below_not_reach; eauto.
  - eapply tree_to_abs_of; [exact I1|exact AC1|].
    eapply same_heap_tree; [|exact Aa]. apply heq_pointwise. apply (array_push_false refuse a x w w1 E1).
Qed.

(* ---- cbor_map_add ---- *)
Theorem abs_after_map_add : forall s own ownd w hm hk hv a k v s' b w' i kvs tk tv wa wk wv,
  Inv own ownd [] w -> caps w -> acyclic w ->
  legal s own w (OMapAdd hm hk hv) -> below_rule s w (OMapAdd hm hk hv) ->
  hget s hm = Some a -> hget s hk = Some k -> hget s hv = Some v ->
  abs_of a w = Ret (IMap i kvs) wa -> abs_of k w = Ret tk wk -> abs_of v w = Ret tv wv ->
  step refuse L s (OMapAdd hm hk hv) w = Ret (s', OutBool b) w' ->
  exists w2, abs_of a w' = Ret (IMap i (if b then kvs ++ [(tk, tv)] else kvs)) w2.
Proof.
  intros s own ownd w hm hk hv a k v s' b w' i kvs tk tv wa wk wv I0 C0 AC Lg Bl Ha Hk Hv Aa Ak Av E.
  destruct (after_step s own ownd w _ s' _ w' I0 C0 AC Lg Bl E) as (I1 & _ & AC1).
  destruct (Lg a k v Ha Hk Hv) as (_ & _ & _ & Hak & Hav & _ & _ & _ & (rc & ind & d & c & l & Ea)).
  destruct (Bl a k v Ha Hk Hv) as (rank & Rk & Hltk & Hltv).
  apply abs_of_tree in Aa, Ak, Av.
  cbn [step] in E. rewrite Hv in E. unfold with2 in E. rewrite Ha, Hk in E. apply bind_inv in E. destruct E as (b0 & w1 & E1 & E).
  apply ret_inv in E. destruct E as [E ->]. injection E as -> ->.
  destruct b0.
  - eapply tree_to_abs_of; [exact I1|exact AC1|].
    eapply (tree_after_map_add refuse own ownd w I0 C0 rank Rk a k v w1 _ i kvs tk tv Aa Ak Av Hak Hav); [| |exact E1];
      eapply below_not_reach; eauto.
  - eapply tree_to_abs_of; [exact I1|exact AC1|].
    eapply same_heap_tree; [|exact Aa]. apply heq_pointwise. apply (map_add_false refuse a k v w w1 E1).
Qed.

(* ---- cbor_bytestring_add_chunk / cbor_string_add_chunk: P keeps the payloads of the chunks ---- *)
Theorem abs_after_add_chunk : forall s own ownd w hc hx a x s' b w' text cs bs wa wx,
  Inv own ownd [] w -> caps w -> acyclic w ->
  legal s own w (OAddChunk hc hx) -> below_rule s w (OAddChunk hc hx) ->
  hget s hc = Some a -> hget s hx = Some x ->
  abs_of a w = Ret (chunked_item text cs) wa ->
  (abs_of x w = Ret (IText bs) wx \/ abs_of x w = Ret (IBytes bs) wx) ->
  step refuse L s (OAddChunk hc hx) w = Ret (s', OutBool b) w' ->
  exists w2, abs_of a w' = Ret (chunked_item text (if b then cs ++ [bs] else cs)) w2.
Proof.
  intros s own ownd w hc hx a x s' b w' text cs bs wa wx I0 C0 AC Lg Bl Ha Hx Aa Ax E.
  destruct (after_step s own ownd w _ s' _ w' I0 C0 AC Lg Bl E) as (I1 & _ & AC1).
  destruct (Lg a x Ha Hx) as (_ & _ & Hax & _ & (rc0 & text0 & hdr0 & d0 & c0 & l0 & Ea0 & (rcq & dq & bq & Eq0))).
  destruct (Bl a x Ha Hx) as (rank & Rk & Hlt).
  apply abs_of_tree in Aa.
  assert (Ett : text0 = text).
  { pose proof Aa as Aa1. unfold abs_fuel in Aa1. destruct (tree_chunked_inv _ _ _ _ _ Aa1) as (rc1 & hdr1 & arr1 & cap1 & ch1 & Ea1 & _).
    rewrite Ea0 in Ea1. injection Ea1 as _ -> _ _ _ _. reflexivity. }
  subst text0.
  assert (Sx : strT (heap w) text x bs).
  { apply (tree_str_strT (heap w) (abs_fuel w)).
    destruct Ax as [Ax|Ax]; apply abs_of_tree in Ax; pose proof Ax as Ax1; unfold abs_fuel in Ax1;
      destruct Ax1 as (rcx & nx & Ex & R); rewrite Eq0 in Ex; injection Ex as _ <-;
      destruct R as [_ R]; destruct text; try discriminate R; exact Ax. }
  cbn [step] in E. unfold with2 in E. rewrite Ha, Hx in E. apply bind_inv in E. destruct E as (b0 & w1 & E1 & E).
  apply ret_inv in E. destruct E as [E ->]. injection E as -> ->.
  destruct b0.
  - eapply tree_to_abs_of; [exact I1|exact AC1|].
    eapply (tree_after_add_chunk refuse own ownd w I0 C0 rank Rk a x w1 _ text cs bs Aa Sx Hax E1).
  - eapply tree_to_abs_of; [exact I1|exact AC1|].
    eapply same_heap_tree; [|exact Aa]. apply heq_pointwise. apply (add_chunk_false refuse a x w w1 E1).
Qed.


(* a world that differs by logged accesses only *)
Lemma logged_world own ownd w w1 rank :
  heap w1 = heap w -> next w1 = next w -> Inv own ownd [] w -> caps w -> ranks w rank ->
  Inv own ownd [] w1 /\ caps w1 /\ ranks w1 rank.
Proof.
  intros Hh Hn I0 C0 Rk. split; [eapply Inv_heq; [exact I0|intros b; rewrite Hh; reflexivity|lia]|].
  split; [eapply caps_same; eassumption|].
  intros a k (rc & n & E & R & K). apply Rk. exists rc, n. rewrite <- Hh. auto.
Qed.
Lemma reach_heq w w1 e b : heap w1 = heap w -> reach w1 e b -> reach w e b.
Proof. unfold reach. intros ->. auto. Qed.

(* ---- cbor_tag_set_item on a tag that has no item yet ---- *)
Theorem abs_after_tag_set : forall s own ownd w ht hx t x s' r w' rc v c0 tx wx,
  Inv own ownd [] w -> caps w -> acyclic w ->
  legal s own w (OTagSet ht hx) -> below_rule s w (OTagSet ht hx) ->
  hget s ht = Some t -> hget s hx = Some x ->
  heap w t = Some (CItem rc (NTag v c0)) -> abs_of x w = Ret tx wx ->
  step refuse L s (OTagSet ht hx) w = Ret (s', r) w' ->
  exists w2, abs_of t w' = Ret (ITag v tx) w2.
Proof.
  intros s own ownd w ht hx t x s' r w' rc v c0 tx wx I0 C0 AC Lg Bl Ht Hx Et Ax E.
  destruct (after_step s own ownd w _ s' _ w' I0 C0 AC Lg Bl E) as (I1 & _ & AC1).
  destruct (Lg t x Ht Hx) as (_ & _ & Htx & _).
  destruct (Bl t x Ht Hx) as (rank & Rk & Hlt).
  apply abs_of_tree in Ax.
  cbn [step] in E. unfold with2 in E. rewrite Ht, Hx in E. apply bind_inv in E. destruct E as ([] & w1 & E1 & E).
  apply ret_inv in E. destruct E as [_ ->].
  eapply tree_to_abs_of; [exact I1|exact AC1|].
  eapply (tree_after_tag_set own ownd w I0 rank t x w1 _ rc v c0 tx Rk Et Ax Htx); [|exact E1].
  eapply below_not_reach; eauto.
Qed.

(* ---- cbor_array_replace ---- *)
Theorem abs_after_replace : forall s own ownd w ha hx a x i s' b w' ind xs tx wa wx,
  Inv own ownd [] w -> caps w -> acyclic w ->
  legal s own w (OReplace ha i hx) -> below_rule s w (OReplace ha i hx) ->
  hget s ha = Some a -> hget s hx = Some x ->
  abs_of a w = Ret (IArray ind xs) wa -> abs_of x w = Ret tx wx ->
  step refuse L s (OReplace ha i hx) w = Ret (s', OutBool b) w' ->
  (b = true <-> i < len xs) /\
  exists w2, abs_of a w' = Ret (IArray ind (if b then set_nth xs (N.to_nat i) tx else xs)) w2.
Proof.
  intros s own ownd w ha hx a x i s' b w' ind xs tx wa wx I0 C0 AC Lg Bl Ha Hx Aa Ax E.
  destruct (after_step s own ownd w _ s' _ w' I0 C0 AC Lg Bl E) as (I1 & _ & AC1).
  destruct (Bl a x Ha Hx) as (rank & Rk & Hlt).
  apply abs_of_tree in Aa, Ax.
  cbn [step] in E. unfold with2 in E. rewrite Ha, Hx in E. apply bind_inv in E. destruct E as (b0 & w1 & E1 & E).
  apply ret_inv in E. destruct E as [E ->]. injection E as -> ->.
  pose proof Aa as Aa0. unfold abs_fuel in Aa0. destruct (tree_array_inv _ _ _ _ _ Aa0) as (rc & d & c & l & Ea & _ & Re).
  assert (Hlen : len xs = len l) by (unfold len; f_equal; symmetry; eapply F2_length; exact Re).
  destruct b0.
  - destruct (tree_after_replace own ownd _ ownd w w1 I0 I1 rank Rk a i x _ ind xs tx Aa Ax) as [Hi T]; [|exact E1|].
    { eapply below_not_reach; eauto. }
    split; [split; auto|]. eapply tree_to_abs_of; [exact I1|exact AC1|exact T].
  - split.
    + split; [discriminate|]. intros Hi. exfalso.
      unfold array_replace in E1. apply bind_inv in E1. destruct E1 as ([rc0 n0] & w2 & E2 & E1).
      apply rd_inv in E2. cbn [fst snd] in *. destruct E2 as (E2 & _). rewrite Ea in E2. injection E2 as <- <-.
      destruct (N.leb_spec (len l) i) as [Out|_]; [lia|].
      apply bind_inv in E1. destruct E1 as (u & w3 & _ & E1).
      destruct (nth_error l (N.to_nat i)); [|discriminate E1].
      repeat (apply bind_inv in E1; destruct E1 as (? & ? & _ & E1)). apply ret_inv in E1. destruct E1 as [E1 _]. discriminate E1.
    + eapply tree_to_abs_of; [exact I1|exact AC1|].
      eapply same_heap_tree; [|exact Aa]. apply heq_pointwise. apply (array_replace_false a i x w w1 E1).
Qed.

(* ---- cbor_array_set: push at the end, replace below, refused beyond ---- *)
Theorem abs_after_set : forall s own ownd w ha hx a x i s' b w' ind xs tx wa wx,
  Inv own ownd [] w -> caps w -> acyclic w ->
  legal s own w (OSet ha i hx) -> below_rule s w (OSet ha i hx) ->
  hget s ha = Some a -> hget s hx = Some x ->
  abs_of a w = Ret (IArray ind xs) wa -> abs_of x w = Ret tx wx ->
  step refuse L s (OSet ha i hx) w = Ret (s', OutBool b) w' ->
  (len xs < i -> b = false) /\ (i < len xs -> b = true) /\
  exists w2, abs_of a w' =
    Ret (IArray ind (if b then (if i =? len xs then xs ++ [tx] else set_nth xs (N.to_nat i) tx) else xs)) w2.
Proof.
  intros s own ownd w ha hx a x i s' b w' ind xs tx wa wx I0 C0 AC Lg Bl Ha Hx Aa Ax E.
  destruct (after_step s own ownd w _ s' _ w' I0 C0 AC Lg Bl E) as (I1 & _ & AC1).
  destruct (Lg a x Ha Hx) as (_ & _ & Hax & _).
  destruct (Bl a x Ha Hx) as (rank & Rk & Hlt).
  apply abs_of_tree in Aa, Ax.
  cbn [step] in E. unfold with2 in E. rewrite Ha, Hx in E. apply bind_inv in E. destruct E as (b0 & w1 & E1 & E).
  apply ret_inv in E. destruct E as [E ->]. injection E as -> ->.
  pose proof Aa as Aa0. unfold abs_fuel in Aa0. destruct (tree_array_inv _ _ _ _ _ Aa0) as (rc & d & c & l & Ea & _ & Re).
  assert (Hlen : len xs = len l) by (unfold len; f_equal; symmetry; eapply F2_length; exact Re).
  assert (Hnr : ~ reach w x a) by (eapply below_not_reach; eauto).
  unfold array_set in E1. apply bind_inv in E1. destruct E1 as ([rc0 n0] & wl & El & E1).
  apply rd_inv in El. cbn [fst snd] in *. destruct El as (El & Hh & Hn & _). rewrite Ea in El. injection El as <- <-.
  destruct (logged_world own ownd w wl rank Hh Hn I0 C0 Rk) as (Il & Cl & Rl).
  assert (Aal : tree (abs_fuel w) (heap wl) a (IArray ind xs)) by (rewrite Hh; exact Aa).
  assert (Axl : tree (abs_fuel w) (heap wl) x tx) by (rewrite Hh; exact Ax).
  assert (Hnrl : ~ reach wl x a) by (intros R; apply Hnr; eapply reach_heq; eassumption).
  rewrite <- Hlen in E1.
  destruct (N.eqb_spec i (len xs)) as [->|Ne].
  - split; [lia|]. split; [lia|]. destruct b0.
    + eapply tree_to_abs_of; [exact I1|exact AC1|].
      eapply (tree_after_push refuse own ownd wl Il Cl rank Rl a x w1 _ ind xs tx Aal Axl Hax Hnrl E1).
    + eapply tree_to_abs_of; [exact I1|exact AC1|].
      eapply same_heap_tree; [|exact Aa]. apply heq_pointwise.
      destruct (array_push_false refuse a x wl w1 E1) as [H _]. congruence.
  - destruct (N.ltb_spec i (len xs)) as [In|Out].
    + destruct b0.
      * destruct (tree_after_replace own ownd _ ownd wl w1 Il I1 rank Rl a i x _ ind xs tx Aal Axl Hnrl E1) as [_ T].
        split; [lia|]. split; [reflexivity|]. eapply tree_to_abs_of; [exact I1|exact AC1|exact T].
      * exfalso.
        unfold array_replace in E1. apply bind_inv in E1. destruct E1 as ([rc0 n0] & w2 & E2 & E1).
        apply rd_inv in E2. cbn [fst snd] in *. destruct E2 as (E2 & _). rewrite Hh, Ea in E2. injection E2 as <- <-.
        destruct (N.leb_spec (len l) i) as [Out|_]; [lia|].
        apply bind_inv in E1. destruct E1 as (u & w3 & _ & E1).
        destruct (nth_error l (N.to_nat i)); [|discriminate E1].
        repeat (apply bind_inv in E1; destruct E1 as (? & ? & _ & E1)). apply ret_inv in E1. destruct E1 as [E1 _]. discriminate E1.
    + apply ret_inv in E1. destruct E1 as [-> ->]. split; [reflexivity|]. split; [lia|].
      eapply tree_to_abs_of; [exact I1|exact AC1|]. rewrite Hh. exact Aa.
Qed.

End Steps.

(* ------------------------------------------------------------------------------------------ *)
(* 8. build_tag, the frame (what other items see), direct parents, copy, load, serialization    *)
(* ------------------------------------------------------------------------------------------ *)

Section Steps2.
Variable refuse : N -> N -> bool.
Variable L : N.

(* old cells untouched: the trees of old items are what they were *)
Lemma tree_old own ownd w w' f e t :
  Inv own ownd [] w -> (forall b, b < next w -> heap w' b = heap w b) ->
  tree f (heap w) e t -> tree f (heap w') e t.
Proof.
  intros I0 Old T. eapply tree_transfer; [|exact T]. intros b Rb. apply same_cell_eq. apply Old.
  destruct f; [destruct T|]. destruct T as (rc & n & Ee & _).
  assert (Hl : heap w b <> None) by (eapply (reach_live own ownd w I0 e b); [rewrite Ee; discriminate|exact Rb]).
  destruct (heap w b) as [c|] eqn:Eb; [|congruence]. eapply live_lt; eassumption.
Qed.

(* ---- cbor_build_tag ---- *)
Theorem abs_after_build_tag : forall s own ownd w v hx x s' ok w' tx wx,
  Inv own ownd [] w -> caps w -> acyclic w ->
  legal s own w (OBuildTag v hx) -> hget s hx = Some x ->
  abs_of x w = Ret tx wx ->
  step refuse L s (OBuildTag v hx) w = Ret (s', OutHandle ok) w' ->
  if ok then exists t w2, new_handle s' = Some t /\ next w <= t /\ abs_of t w' = Ret (ITag v tx) w2
  else forall b, heap w' b = heap w b.
Proof.
  intros s own ownd w v hx x s' ok w' tx wx I0 C0 AC Lg Hx Ax E.
  destruct (after_step refuse L s own ownd w _ s' _ w' I0 C0 AC Lg I E) as (I1 & _ & AC1).
  pose proof (Inv_wf _ _ _ _ I0) as Hwf. apply abs_of_tree in Ax.
  cbn [step] in E. unfold with1h in E. rewrite Hx in E. unfold newh in E.
  apply bind_inv in E. destruct E as (r & w1 & E1 & E). apply ret_inv in E. destruct E as [E ->]. injection E as -> ->.
  destruct r as [t|].
  2:{ apply heq_pointwise. apply (build_tag_none refuse v x w w1 E1). }
  unfold build_tag, new_tag in E1. apply bind_inv in E1. destruct E1 as (r & wm & Em & E1).
  unfold malloc in Em. destruct (refuse (nreq w) SZ_ITEM); injection Em as <- <-; [apply ret_inv in E1; destruct E1 as [E1 _]; discriminate E1|].
  apply bind_inv in E1. destruct E1 as ([] & w2 & E2 & E1). apply ret_inv in E1. destruct E1 as [E1 ->]. injection E1 as E1. subst t.
  set (wm := mkworld (upd (heap w) (next w) (Some (CItem 1 (NTag v None)))) (next w + 1) (nreq w + 1)
                     (EvMalloc SZ_ITEM (Some (next w)) :: trace w) (alog w)) in *.
  exists (next w). rewrite new_handle_hpush.
  assert (Im : Inv (fun y => own y + (if y =? next w then 1 else 0)) ownd [] wm).
  { eapply (Inv_alloc_item_pw own ownd w wm (NTag v None) I0); reflexivity. }
  assert (Cm : caps wm).
  { intros b rc n Eb. subst wm. cbn [heap] in Eb. unfold upd in Eb. destruct (N.eqb_spec b (next w)); [injection Eb as _ <-; exact I|].
    eapply C0; exact Eb. }
  apply acyclic_ranks in AC. destruct AC as [rank Rk].
  assert (Oldm : forall b, b < next w -> heap wm b = heap w b).
  { intros b Hb. subst wm. cbn [heap]. apply upd_other. lia. }
  assert (Rm : ranks wm rank).
  { intros a k (rc & n & Ea & R & K). subst wm. cbn [heap] in Ea. unfold upd in Ea. destruct (N.eqb_spec a (next w)).
    - injection Ea as _ <-. destruct K.
    - apply Rk. exists rc, n. auto. }
  assert (Txm : tree (abs_fuel w) (heap wm) x tx) by (eapply (tree_old own ownd w wm); eassumption).
  assert (Etm : heap wm (next w) = Some (CItem 1 (NTag v None))) by (subst wm; cbn [heap]; apply upd_same).
  assert (Hx_lt : x < next w).
  { unfold abs_fuel in Ax. destruct Ax as (rcx & nx & Ex & _). eapply live_lt; eassumption. }
  assert (Hnr : ~ reach wm x (next w)).
  { intros R. inversion R as [E0|b rcb nb c Rb Eb Hc E0|b rcb nb d Rb Eb Hd E0]; subst.
    - lia.
    - assert (b <> next w).
      { intros ->. rewrite Etm in Eb. injection Eb as _ <-. destruct Hc. }
      subst wm. cbn [heap] in Eb. rewrite upd_other in Eb by assumption.
      destruct (Inv_kids_lt _ _ _ _ _ _ I0 Eb) as [K _]. rewrite node_kids_kids in Hc. specialize (K _ Hc). lia.
    - assert (b <> next w).
      { intros ->. rewrite Etm in Eb. injection Eb as _ <-. destruct Hd. }
      subst wm. cbn [heap] in Eb. rewrite upd_other in Eb by assumption.
      destruct (Inv_kids_lt _ _ _ _ _ _ I0 Eb) as [_ D]. apply node_blocks_dblocks in Hd. specialize (D _ Hd). lia. }
  assert (T : tree (S (abs_fuel w)) (heap w2) (next w) (ITag v tx)).
  { eapply (tree_after_tag_set _ ownd wm Im rank (next w) x w2 _ 1 v None tx Rm Etm Txm); [lia|exact Hnr|exact E2]. }
  destruct (tree_to_abs_of _ ownd w2 _ _ _ I1 AC1 T) as (w3 & E3).
  exists w3. split; [reflexivity|]. split; [lia|exact E3].
Qed.

(* growth touches data blocks only *)
Lemma grow_items data isz al w g w' : grow refuse data isz al w = Ret g w' ->
  forall b rc n, heap w' b = Some (CItem rc n) -> heap w b = Some (CItem rc n).
Proof.
  unfold grow. destruct (grow_capacity 64 al) as [c|].
  2:{ intros H. apply ret_inv in H. destruct H as [_ ->]. auto. }
  destruct (alloc_multiple_req 64 isz c) as [bytes|].
  2:{ intros H. apply ret_inv in H. destruct H as [_ ->]. auto. }
  intros H. apply bind_inv in H. destruct H as (r & w1 & E & H).
  assert (Hw : w' = w1) by (destruct r; apply ret_inv in H; destruct H as [_ ->]; reflexivity). subst w1.
  unfold realloc in E. destruct (realloc_bad data w); [discriminate E|].
  destruct (refuse (nreq w) bytes); injection E as _ <-; [auto|].
  intros b rc n Eb. cbn [heap] in Eb. unfold upd at 1 in Eb. destruct (b =? next w); [discriminate Eb|].
  destruct data as [o|]; [|exact Eb]. unfold upd in Eb. destruct (b =? o); [discriminate Eb|exact Eb].
Qed.

Lemma array_push_nodes a x w b w' : array_push refuse a x w = Ret b w' -> nodes_kept w w' a.
Proof.
  unfold array_push. intros H. apply bind_inv in H. destruct H as ([rc0 n0] & w1 & E1 & H).
  apply rd_inv in E1. cbn [fst snd] in *. destruct E1 as (_ & H1 & _).
  assert (Base : forall w2, heap w2 = heap w1 -> nodes_kept w w2 a).
  { intros w2 H2 q rc' n _ Eq. rewrite H2, H1 in Eq. eauto. }
  assert (Tail : forall w2 d' nd, (forall q rc n, heap w2 q = Some (CItem rc n) -> heap w1 q = Some (CItem rc n)) ->
            (touch_data true d' ;;; wr_item a rc0 nd ;;; incref x ;;; ret true) w2 = Ret b w' -> nodes_kept w w' a).
  { intros w2 d' nd K T. apply bind_inv in T. destruct T as (u & w3 & T3 & T). apply touch_any_inv in T3. destruct T3 as (H3 & _).
    apply bind_inv in T. destruct T as (u4 & w4 & T4 & T). apply wr_inv in T4. destruct T4 as (_ & Eo & _).
    apply bind_inv in T. destruct T as (u5 & w5 & T5 & T). apply ret_inv in T. destruct T as [_ ->].
    intros q rc' n Hq Eq. destruct (incref_nodes _ _ _ _ T5 q rc' n Eq) as (rc4 & Eq4).
    rewrite (Eo q Hq), H3 in Eq4. apply K in Eq4. rewrite H1 in Eq4. eauto. }
  destruct n0 as [neg iw v|fw bits|v|text data bytes|text hdr arr cap chunks|indef data al elems|indef data al pairs|v c];
    try discriminate H.
  destruct indef.
  - apply bind_inv in H. destruct H as (st & w2 & E2 & H).
    assert (K2 : forall q rc n, heap w2 q = Some (CItem rc n) -> heap w1 q = Some (CItem rc n)).
    { destruct (al <=? len elems).
      - apply bind_inv in E2. destruct E2 as (g & w3 & E3 & E2).
        assert (w2 = w3) by (destruct g as [[? ?]|]; apply ret_inv in E2; destruct E2 as [_ ->]; reflexivity). subst w3.
        eapply grow_items. exact E3.
      - apply ret_inv in E2. destruct E2 as [_ ->]. auto. }
    destruct st as [[d' c']|].
    + eapply Tail; [exact K2|exact H].
    + apply ret_inv in H. destruct H as [_ ->]. intros q rc' n _ Eq. apply K2 in Eq. rewrite H1 in Eq. eauto.
  - destruct (al <=? len elems).
    + apply ret_inv in H. destruct H as [_ ->]. apply Base. reflexivity.
    + eapply Tail; [|exact H]. auto.
Qed.

(* ---- the frame: items that do not reach the mutated container keep their tree ---- *)

(* the container a call mutates *)
Definition mutated (s : cstate) (o : op) : option addr :=
  match o with
  | OPush a _ | OSet a _ _ | OReplace a _ _ | OMapAdd a _ _ | OAddChunk a _ | OTagSet a _ => hget s a
  | _ => None
  end.
(* the calls that insert without releasing anything *)
Definition inserts (o : op) : bool :=
  match o with OPush _ _ | OMapAdd _ _ _ | OAddChunk _ _ | OTagSet _ _ => true | _ => false end.

Lemma skipped (s : cstate) (r : out) (s' : cstate) (r' : out) (w w' : world) :
  ret (s, r) w = Ret (s', r') w' -> w' = w.
Proof. intros H. apply ret_inv in H. destruct H as [_ ->]. reflexivity. Qed.

(* for the inserting calls: either nothing changed (a NULL operand: the call is not made), or the
   cells that may have lost their node are the container and its old slot block *)
Lemma step_mut_frame s own ownd w o s' r w' a :
  Inv own ownd [] w -> caps w -> legal s own w o -> inserts o = true -> mutated s o = Some a ->
  step refuse L s o w = Ret (s', r) w' ->
  w' = w \/
  exists rc n blocks, heap w a = Some (CItem rc n) /\ (forall d, In d blocks -> In d (node_blocks n)) /\
    mut_frame w w' a blocks.
Proof.
  intros I0 C0 Lg Hi Hm E.
  destruct o; try discriminate Hi; cbn [mutated] in Hm; cbn [step legal] in *.
  - (* push *)
    unfold with2 in E. rewrite Hm in E. destruct (hget s x) as [q|] eqn:Hx; [|left; eapply skipped; exact E].
    destruct (Lg a q Hm eq_refl) as (_ & Oq & Haq & _ & (rc & ind & d & c & l & Ea)).
    destruct (Inv_owned_item _ _ _ _ I0 Oq) as (rcq & nq & Eq & _).
    apply bind_inv in E. destruct E as (b & w1 & E1 & E). apply ret_inv in E. destruct E as [_ ->].
    right. exists rc, (NArr ind d c l), (HCont_proofs.opt_list d). split; [exact Ea|]. split.
    + intros o Ho. destruct d; [exact Ho|destruct Ho].
    + eapply (push_frame refuse own ownd w I0 C0 a q b w1 rc ind d c l rcq nq Ea Eq Haq E1).
  - (* map_add *)
    destruct (hget s v) as [rr|] eqn:Hv; [|left; eapply skipped; exact E].
    unfold with2 in E. rewrite Hm in E. destruct (hget s k) as [q|] eqn:Hk; [|left; eapply skipped; exact E].
    destruct (Lg a q rr Hm eq_refl eq_refl) as (_ & Oq & Or & Haq & Har & _ & _ & _ & (rc & ind & d & c & l & Ea)).
    destruct (Inv_owned_item _ _ _ _ I0 Oq) as (rcq & nq & Eq & _).
    destruct (Inv_owned_item _ _ _ _ I0 Or) as (rcr & nr & Er & _).
    apply bind_inv in E. destruct E as (b & w1 & E1 & E). apply ret_inv in E. destruct E as [_ ->].
    right. exists rc, (NMap ind d c l), (HCont_proofs.opt_list d). split; [exact Ea|]. split.
    + intros o Ho. destruct d; [exact Ho|destruct Ho].
    + eapply (map_add_frame refuse own ownd w I0 C0 a q rr b w1 rc ind d c l rcq nq rcr nr Ea Eq Er Haq Har E1).
  - (* add_chunk *)
    unfold with2 in E. rewrite Hm in E. destruct (hget s c) as [q|] eqn:Hx; [|left; eapply skipped; exact E].
    destruct (Lg a q Hm eq_refl) as (_ & Oq & Haq & _ & (rc & text & hdr & d & cp & l & Ea & (rcq & dq & bq & Eq))).
    apply bind_inv in E. destruct E as (b & w1 & E1 & E). apply ret_inv in E. destruct E as [_ ->].
    right. exists rc, (NChunked text hdr d cp l), (HCont_proofs.opt_list d). split; [exact Ea|]. split.
    + intros o Ho. cbn [node_blocks]. right. destruct d; [exact Ho|destruct Ho].
    + eapply (add_chunk_frame refuse own ownd w I0 C0 a q b w1 rc text hdr d cp l rcq _ Ea Eq (chunk_ok_str text dq bq) Haq E1).
  - (* tag_set_item *)
    unfold with2 in E. rewrite Hm in E. destruct (hget s x) as [q|] eqn:Hx; [|left; eapply skipped; exact E].
    destruct (Lg a q Hm eq_refl) as (_ & Oq & Haq & _ & (rc & v & Ea)).
    destruct (Inv_owned_item _ _ _ _ I0 Oq) as (rcq & nq & Eq & _).
    apply bind_inv in E. destruct E as ([] & w1 & E1 & E). apply ret_inv in E. destruct E as [_ ->].
    destruct (tag_set_heap w a q w1 rc v None rcq nq Ea Eq Haq E1) as [_ MF].
    right. exists rc, (NTag v None), []. split; [exact Ea|]. split; [intros d []|exact MF].
Qed.

(* sharing semantics, negative half: an inserting call on [a] is invisible through every item that
   does not reach [a] *)
Theorem abs_frame : forall s own ownd w o s' r w' a e t we,
  Inv own ownd [] w -> caps w -> acyclic w -> legal s own w o -> below_rule s w o ->
  inserts o = true -> mutated s o = Some a ->
  step refuse L s o w = Ret (s', r) w' ->
  ~ reach w e a -> abs_of e w = Ret t we ->
  exists w2, abs_of e w' = Ret t w2.
Proof.
  intros s own ownd w o s' r w' a e t we I0 C0 AC Lg Bl Hi Hm E Hn Ae.
  destruct (after_step refuse L s own ownd w _ s' _ w' I0 C0 AC Lg Bl E) as (I1 & _ & AC1).
  apply abs_of_tree in Ae.
  destruct (step_mut_frame s own ownd w o s' r w' a I0 C0 Lg Hi Hm E) as [Hw|(rc & n & blocks & Ea & Hbl & MF)].
  - subst w'. eapply tree_to_abs_of; [exact I1|exact AC1|exact Ae].
  - eapply tree_to_abs_of; [exact I1|exact AC1|].
    eapply (tree_keep own ownd w I0 w' a rc n blocks _ e t Ea Hbl MF Hn Ae).
Qed.

(* ... and for the calls that may release the overwritten element (replace, set): every item that
   does not reach [a] and is still there keeps its tree *)
Theorem abs_frame_replace : forall s own ownd w o s' r w' a e t we,
  Inv own ownd [] w -> caps w -> acyclic w -> legal s own w o -> below_rule s w o ->
  (exists ha i hx, o = OReplace ha i hx \/ o = OSet ha i hx) -> mutated s o = Some a ->
  step refuse L s o w = Ret (s', r) w' ->
  ~ reach w e a -> (exists rc n, heap w' e = Some (CItem rc n)) -> abs_of e w = Ret t we ->
  exists w2, abs_of e w' = Ret t w2.
Proof.
  intros s own ownd w o s' r w' a e t we I0 C0 AC Lg Bl (ha & i & hx & Ho) Hm E Hn Hl Ae.
  destruct (after_step refuse L s own ownd w _ s' _ w' I0 C0 AC Lg Bl E) as (I1 & _ & AC1).
  apply abs_of_tree in Ae. eapply tree_to_abs_of; [exact I1|exact AC1|].
  assert (NK : nodes_kept w w' a).
  { destruct Ho as [-> | ->]; cbn [mutated] in Hm; cbn [step] in E; unfold with2 in E; rewrite Hm in E;
      (destruct (hget s hx) as [q|]; [|apply ret_inv in E; destruct E as [_ ->]; intros b rc' n _ Eb; eauto]);
      apply bind_inv in E; destruct E as (b & w1 & E1 & E); apply ret_inv in E; destruct E as [_ ->].
    - eapply array_replace_nodes; exact E1.
    - unfold array_set in E1. apply bind_inv in E1. destruct E1 as ([rc0 n0] & wl & El & E1).
      apply rd_inv in El. cbn [fst snd] in *. destruct El as (El & Hh & _).
      assert (K0 : forall w2, nodes_kept wl w2 a -> nodes_kept w w2 a).
      { intros w2 K b0 rc' n Hb Eb. destruct (K b0 rc' n Hb Eb) as (rc & Eq). rewrite Hh in Eq. eauto. }
      destruct n0; try discriminate E1.
      destruct (i =? len elems); [apply K0; eapply array_push_nodes; exact E1|].
      destruct (i <? len elems); [apply K0; eapply array_replace_nodes; exact E1|].
      apply ret_inv in E1. destruct E1 as [_ ->]. apply K0. intros b0 rc' n _ Eb. eauto. }
  eapply (tree_sub _ ownd w w' a I1 NK _ e t Hl Hn Ae).
Qed.

(* [tree] is a function of the heap *)
Lemma tree_det h f1 f2 a t1 t2 : tree f1 h a t1 -> tree f2 h a t2 -> t1 = t2.
Proof.
  intros T1 T2.
  assert (U1 : tree (Nat.max f1 f2) h a t1) by (eapply tree_fuel; [exact T1|pose proof (tree_depth h f1 a t1 T1); lia]).
  assert (U2 : tree (Nat.max f1 f2) h a t2) by (eapply tree_fuel; [exact T2|pose proof (tree_depth h f2 a t2 T2); lia]).
  destruct (tree_abs h _ a t1 U1 (mkworld h 0 0 [] []) eq_refl) as (w1 & E1 & _).
  destruct (tree_abs h _ a t2 U2 (mkworld h 0 0 [] []) eq_refl) as (w2 & E2 & _).
  rewrite E1 in E2. injection E2 as ->. reflexivity.
Qed.

(* ---- sharing semantics, positive half: a direct array parent of the mutated container sees the
   new tree at exactly the positions that hold the container ---- *)
Definition subst_at (a : addr) (ta' : item) (lp : list addr) (ys : list item) : list item :=
  map (fun ey => if fst ey =? a then ta' else snd ey) (combine lp ys).

Lemma F2_subst (R R' : addr -> item -> Prop) a ta' lp ys :
  Forall2 R lp ys -> R' a ta' -> (forall e y, In e lp -> e <> a -> R e y -> R' e y) ->
  Forall2 R' lp (subst_at a ta' lp ys).
Proof.
  intros F Ha Ho. unfold subst_at. induction F as [|e y lp ys He F IH]; cbn [combine map]; [constructor|].
  constructor.
  - cbn [fst snd]. destruct (N.eqb_spec e a) as [->|Ne]; [exact Ha|]. apply Ho; [left; reflexivity|exact Ne|exact He].
  - apply IH. intros e0 y0 Hin. apply Ho. right. exact Hin.
Qed.

Theorem abs_parent_array : forall s own ownd w o s' r w' a p ip ys wp ta' wa',
  Inv own ownd [] w -> caps w -> acyclic w -> legal s own w o -> below_rule s w o ->
  inserts o = true -> mutated s o = Some a ->
  step refuse L s o w = Ret (s', r) w' ->
  p <> a -> abs_of p w = Ret (IArray ip ys) wp ->
  (forall rc d c lp, heap w p = Some (CItem rc (NArr ip d c lp)) -> forall e, In e lp -> e <> a -> ~ reach w e a) ->
  abs_of a w' = Ret ta' wa' ->
  exists lp w2, (exists rc d c, heap w p = Some (CItem rc (NArr ip d c lp))) /\
    abs_of p w' = Ret (IArray ip (subst_at a ta' lp ys)) w2.
Proof.
  intros s own ownd w o s' r w' a p ip ys wp ta' wa' I0 C0 AC Lg Bl Hi Hm E Hpa Ap Sib Aa'.
  destruct (after_step refuse L s own ownd w _ s' _ w' I0 C0 AC Lg Bl E) as (I1 & _ & AC1).
  apply abs_of_tree in Ap, Aa'. pose proof Ap as Ap0. unfold abs_fuel in Ap0.
  destruct (tree_array_inv _ _ _ _ _ Ap0) as (rcp & dp & cp & lp & Ep & Rd & Re).
  exists lp. specialize (Sib rcp dp cp lp Ep).
  set (F := Nat.max (N.to_nat (next w)) (abs_fuel w')).
  assert (Goal : tree (S F) (heap w') p (IArray ip (subst_at a ta' lp ys))).
  { destruct (step_mut_frame s own ownd w o s' r w' a I0 C0 Lg Hi Hm E) as [Hw|(rc & n & blocks & Ea & Hbl & MF)].
    - subst w'. cbn [tree]. exists rcp, (NArr ip dp cp lp). split; [exact Ep|]. split; [exact Rd|].
      exists (subst_at a ta' lp ys). split; [|reflexivity].
      eapply F2_subst; [exact Re| |].
      + eapply tree_fuel; [exact Aa'|]. pose proof (tree_depth _ _ _ _ Aa'). subst F. lia.
      + intros e y _ _ Te. eapply tree_fuel; [exact Te|]. pose proof (tree_depth _ _ _ _ Te). subst F. lia.
    - assert (Lp : p < next w) by (eapply live_lt; eassumption).
      assert (Pnb : ~ In p blocks).
      { intros Hin. destruct (G_block own ownd w I0 a rc n p Ea (Hbl p Hin)) as [(sz & Ed) _]. congruence. }
      destruct (same_cell_item _ _ p _ _ (MF p Hpa Pnb Lp) Ep) as (rcp' & Ep').
      cbn [tree]. exists rcp', (NArr ip dp cp lp). split; [exact Ep'|]. split.
      + destruct Rd as [Rd|Rd]; [left; exact Rd|right]. destruct Rd as (d & sz & -> & Ed).
        eapply same_cell_data; [|exists d, sz; eauto]. intros d0 E0. injection E0 as <-. apply MF.
        * intros ->. congruence.
        * intros Hin. apply Hpa. eapply (block_owner own ownd w I0 p rcp _ a rc n d Ep ltac:(left; reflexivity) Ea (Hbl d Hin)).
        * eapply live_lt; eassumption.
      + exists (subst_at a ta' lp ys). split; [|reflexivity].
        eapply F2_subst; [exact Re| |].
        * eapply tree_fuel; [exact Aa'|]. pose proof (tree_depth _ _ _ _ Aa'). subst F. lia.
        * intros e y He Ne Te. eapply tree_fuel.
          -- eapply (tree_keep own ownd w I0 w' a rc n blocks _ e y Ea Hbl MF (Sib e He Ne) Te).
          -- pose proof (tree_depth _ _ _ _ Te). subst F. lia. }
  destruct (tree_to_abs_of _ ownd w' _ _ _ I1 AC1 Goal) as (w2 & E2). exists w2. split; [eauto|exact E2].
Qed.

(* ---- cbor_copy: the copy reads as the source, and the source still reads the same ---- *)
Theorem abs_after_copy : forall s own ownd w h a s' ok w' t wa,
  Inv own ownd [] w -> caps w -> acyclic w -> legal s own w (OCopy h) -> hget s h = Some a ->
  abs_of a w = Ret t wa ->
  step refuse L s (OCopy h) w = Ret (s', OutHandle ok) w' ->
  (exists w3, abs_of a w' = Ret t w3) /\
  (ok = true -> exists a' w2, new_handle s' = Some a' /\ next w <= a' /\ abs_of a' w' = Ret t w2).
Proof.
  intros s own ownd w h a s' ok w' t wa I0 C0 AC Lg Ha Aa E.
  destruct (after_step refuse L s own ownd w _ s' _ w' I0 C0 AC Lg I E) as (I1 & _ & AC1).
  destruct (Lg a Ha) as [_ Sh].
  destruct (copy_h_spec refuse a w own ownd I0 Sh) as (r & w1 & E1 & Old & P).
  cbn [step] in E. unfold with1h in E. rewrite Ha in E. unfold newh in E. rewrite (bind_Ret _ _ _ _ _ E1) in E.
  apply ret_inv in E. destruct E as [E ->]. injection E as -> ->.
  split.
  - apply abs_of_tree in Aa. eapply tree_to_abs_of; [exact I1|exact AC1|]. eapply (tree_old own ownd w w1); eassumption.
  - intros Hok. destruct r as [a'|]; [|discriminate Hok]. destruct P as (Ha' & Q & _).
    unfold abs_of in Aa. destruct (Q t wa Aa) as (w2 & E2).
    destruct (abs_of_complete _ ownd w1 _ a' t w2 I1 AC1 E2) as (w3 & E3 & _).
    exists a', w3. rewrite new_handle_hpush. auto.
Qed.

(* ---- serialization of an API-built / API-modified tree ---- *)
Lemma serialize_h_of_abs a n w t w2 : abs_of a w = Ret t w2 -> serialize_h a n w = Ret (serialize_into t n) w2.
Proof. intros E. unfold serialize_h. rewrite (bind_Ret _ _ _ _ _ E). reflexivity. Qed.

End Steps2.

(* ------------------------------------------------------------------------------------------ *)
(* 9. C03 for API-built trees: what cbor_serialize emits is the RFC 8949 encoding of the tree   *)
(*    that the documented list semantics gives                                                  *)
(* ------------------------------------------------------------------------------------------ *)

Theorem C03_api_serialize : forall a size w t,
  (exists w2, abs_of a w = Ret t w2) -> wf_item t -> size < 2 ^ 64 -> len (encode_rfc t) <= size ->
  exists w2, serialize_h a size w = Ret (Some (len (encode_rfc t), encode_rfc t)) w2.
Proof.
  intros a size w t (w2 & E) Wt Hs Hl. exists w2.
  rewrite (serialize_h_of_abs a size w t w2 E). rewrite (serialize_is_rfc t size Wt Hs Hl). reflexivity.
Qed.

(* after a successful cbor_array_push the array serializes to the encoding of the list with the
   pushed item's tree appended *)
Corollary C03_push_serialize : forall refuse L s own ownd w ha hx a x s' w' i xs tx wa wx size,
  Inv own ownd [] w -> caps w -> acyclic w ->
  legal s own w (OPush ha hx) -> below_rule s w (OPush ha hx) ->
  hget s ha = Some a -> hget s hx = Some x ->
  abs_of a w = Ret (IArray i xs) wa -> abs_of x w = Ret tx wx ->
  step refuse L s (OPush ha hx) w = Ret (s', OutBool true) w' ->
  wf_item (IArray i (xs ++ [tx])) -> size < 2 ^ 64 -> len (encode_rfc (IArray i (xs ++ [tx]))) <= size ->
  exists w2, serialize_h a size w' =
    Ret (Some (len (encode_rfc (IArray i (xs ++ [tx]))), encode_rfc (IArray i (xs ++ [tx])))) w2.
Proof.
  intros refuse L s own ownd w ha hx a x s' w' i xs tx wa wx size I0 C0 AC Lg Bl Ha Hx Aa Ax E Wt Hs Hl.
  apply C03_api_serialize; try assumption.
  exact (abs_after_push refuse L s own ownd w ha hx a x s' true w' i xs tx wa wx I0 C0 AC Lg Bl Ha Hx Aa Ax E).
Qed.

Corollary C03_map_add_serialize : forall refuse L s own ownd w hm hk hv a k v s' w' i kvs tk tv wa wk wv size,
  Inv own ownd [] w -> caps w -> acyclic w ->
  legal s own w (OMapAdd hm hk hv) -> below_rule s w (OMapAdd hm hk hv) ->
  hget s hm = Some a -> hget s hk = Some k -> hget s hv = Some v ->
  abs_of a w = Ret (IMap i kvs) wa -> abs_of k w = Ret tk wk -> abs_of v w = Ret tv wv ->
  step refuse L s (OMapAdd hm hk hv) w = Ret (s', OutBool true) w' ->
  wf_item (IMap i (kvs ++ [(tk, tv)])) -> size < 2 ^ 64 -> len (encode_rfc (IMap i (kvs ++ [(tk, tv)]))) <= size ->
  exists w2, serialize_h a size w' =
    Ret (Some (len (encode_rfc (IMap i (kvs ++ [(tk, tv)]))), encode_rfc (IMap i (kvs ++ [(tk, tv)])))) w2.
Proof.
  intros refuse L s own ownd w hm hk hv a k v s' w' i kvs tk tv wa wk wv size I0 C0 AC Lg Bl Ha Hk Hv Aa Ak Av E Wt Hs Hl.
  apply C03_api_serialize; try assumption.
  exact (abs_after_map_add refuse L s own ownd w hm hk hv a k v s' true w' i kvs tk tv wa wk wv I0 C0 AC Lg Bl Ha Hk Hv Aa Ak Av E).
Qed.

(* ------------------------------------------------------------------------------------------ *)
(* 10. non-vacuity                                                                             *)
(* ------------------------------------------------------------------------------------------ *)

Lemma rules_history_app refuse L : forall pre ops s own w,
  rules_history refuse L (pre ++ ops) s own w ->
  forall s' outs w' acc, run_hist refuse L pre s acc w = Ret (s', outs) w' ->
  rules_history refuse L pre s own w /\ rules_history refuse L ops s' (own_hist refuse L pre s own w) w'.
Proof.
  induction pre as [|o r IH]; intros ops s own w RH s' outs w' acc R.
  - cbn [run_hist] in R. apply ret_inv in R. destruct R as [R ->]. injection R as -> _. split; [exact I|exact RH].
  - cbn [app rules_history] in RH. destruct RH as (Lo & Bo & RH).
    cbn [run_hist] in R. apply bind_inv in R. destruct R as ([s1 o1] & w1 & E & R). cbn [fst snd] in R.
    destruct (IH ops s1 _ w1 (RH _ _ _ E) s' outs w' _ R) as (P1 & P2).
    split.
    + cbn [rules_history]. split; [exact Lo|]. split; [exact Bo|]. intros s2 o2 w2 E2. rewrite E in E2. injection E2 as <- <- <-. exact P1.
    + cbn [own_hist]. rewrite E. exact P2.
Qed.

(* a definite array [7], and a text string "hi" and a two-element array [[7], "hi"]: the client
   pushes "hi" to the first array, which is seen through the second one *)
Definition exAbs_pre : list op :=
  [ONewDefArray 2; OBuildInt false I8 7; OPush 0 1; OBuildString true [104%N; 105%N]; ONewDefArray 2; OPush 3 0; OPush 3 2]%nat.
Definition exAbs_op : op := OPush 0 2.
Definition exAbs_sw : cstate * world :=
  match run_hist never 8 exAbs_pre s0 [] world0 with Ret (s, _) w => (s, w) | Fault _ => (s0, world0) end.

Example exAbs_rules : rules_history never 8 (exAbs_pre ++ [exAbs_op]) s0 own0 world0.
Proof.
  unfold exAbs_pre, exAbs_op. cbn [app].
  split; [exact I|]. split; [exact I|ex_next].
  split; [exact I|]. split; [exact I|ex_next].
  split; [ex13_push_legal|]. split; [ex13_rank|ex_next].
  split; [exact I|]. split; [exact I|ex_next].
  split; [exact I|]. split; [exact I|ex_next].
  split; [ex13_push_legal|]. split.
  { intros p q Hp Hq. ex_h Hp. ex_h Hq. exists (fun x => if x =? 6 then 2%nat else if x =? 1 then 1%nat else 0%nat).
    split; [|vm_compute; lia].
    intros a k (rc & n & E & R & K).
    destruct a as [|a]; [|do 3 (try destruct a as [a|a|])]; vm_compute in E; try discriminate E;
      injection E as <- <-; cbn in K; repeat (destruct K as [<-|K]; [vm_compute; lia|]); destruct K. }
  ex_next.
  split; [ex13_push_legal|]. split.
  { intros p q Hp Hq. ex_h Hp. ex_h Hq. exists (fun x => if x =? 6 then 2%nat else if x =? 1 then 1%nat else 0%nat).
    split; [|vm_compute; lia].
    intros a k (rc & n & E & R & K).
    destruct a as [|a]; [|do 3 (try destruct a as [a|a|])]; vm_compute in E; try discriminate E;
      injection E as <- <-; cbn in K; repeat (destruct K as [<-|K]; [vm_compute; lia|]); destruct K. }
  ex_next.
  split; [ex13_push_legal|]. split.
  { intros p q Hp Hq. ex_h Hp. ex_h Hq. exists (fun x => if x =? 6 then 2%nat else if x =? 1 then 1%nat else 0%nat).
    split; [|vm_compute; lia].
    intros a k (rc & n & E & R & K).
    destruct a as [|a]; [|do 3 (try destruct a as [a|a|])]; vm_compute in E; try discriminate E;
      injection E as <- <-; cbn in K; repeat (destruct K as [<-|K]; [vm_compute; lia|]); destruct K. }
  ex_next. exact I.
Qed.

Lemma Ret_inj {A} (a b : A) w w' : Ret a w = Ret b w' -> a = b /\ w = w'.
Proof. intros H. injection H. auto. Qed.
Lemma pair_inj {A B} (a a' : A) (b b' : B) : (a, b) = (a', b') -> a = a' /\ b = b'.
Proof. intros H. injection H. auto. Qed.

Lemma exAbs_runs : exists outs, run_hist never 8 exAbs_pre s0 [] world0 = Ret (fst exAbs_sw, outs) (snd exAbs_sw).
Proof. eexists. vm_compute. reflexivity. Qed.

Lemma exAbs_state :
  let own := own_hist never 8 exAbs_pre s0 own0 world0 in
  Inv own own0 [] (snd exAbs_sw) /\ caps (snd exAbs_sw) /\ acyclic (snd exAbs_sw) /\
  legal (fst exAbs_sw) own (snd exAbs_sw) exAbs_op /\ below_rule (fst exAbs_sw) (snd exAbs_sw) exAbs_op.
Proof.
  intros own. destruct exAbs_runs as [outs R].
  destruct (rules_history_app never 8 exAbs_pre [exAbs_op] s0 own0 world0 exAbs_rules _ _ _ _ R) as (R1 & R2).
  destruct (C04_history_acyclic_gen never 8 exAbs_pre s0 own0 own0 world0 [] Inv_world0 caps_world0 (acyclic_world0) R1)
    as (s1 & o1 & w1 & E1 & I1 & C1 & A1).
  rewrite R in E1. apply Ret_inj in E1. destruct E1 as [E1 Ew]. apply pair_inj in E1. destruct E1 as [Es _].
  subst s1 w1. destruct R2 as (Lg & Bl & _). auto.
Qed.

Lemma exAbs_h0 : hget (fst exAbs_sw) 0 = Some 1. Proof. vm_compute. reflexivity. Qed.
Lemma exAbs_h2 : hget (fst exAbs_sw) 2 = Some 4. Proof. vm_compute. reflexivity. Qed.
Lemma exAbs_a1 : exists wa, abs_of 1 (snd exAbs_sw) = Ret (IArray false [IUint I8 7]) wa.
Proof. eexists. vm_compute. reflexivity. Qed.
Lemma exAbs_a4 : exists wa, abs_of 4 (snd exAbs_sw) = Ret (IText [104; 105]) wa.
Proof. eexists. vm_compute. reflexivity. Qed.
Lemma exAbs_a6 : exists wa, abs_of 6 (snd exAbs_sw) = Ret (IArray false [IArray false [IUint I8 7]; IText [104; 105]]) wa.
Proof. eexists. vm_compute. reflexivity. Qed.
Lemma exAbs_p6 : forall rc d c lp, heap (snd exAbs_sw) 6 = Some (CItem rc (NArr false d c lp)) -> lp = [1; 4].
Proof. intros rc d c lp H. vm_compute in H. injection H as _ _ _ <-. reflexivity. Qed.
Lemma exAbs_step : exists s' w', step never 8 (fst exAbs_sw) exAbs_op (snd exAbs_sw) = Ret (s', OutBool true) w'.
Proof. do 2 eexists. vm_compute. reflexivity. Qed.

(* the theorems applied: the array, its parent (sharing), an item that does not reach it (frame), and
   the bytes cbor_serialize emits *)
Example exAbs_theorems : forall s' w',
  step never 8 (fst exAbs_sw) exAbs_op (snd exAbs_sw) = Ret (s', OutBool true) w' ->
  (exists w2, abs_of 1 w' = Ret (IArray false [IUint I8 7; IText [104; 105]]) w2) /\
  (exists w2, abs_of 6 w' = Ret (IArray false [IArray false [IUint I8 7; IText [104; 105]]; IText [104; 105]]) w2) /\
  (exists w2, abs_of 4 w' = Ret (IText [104; 105]) w2) /\
  (exists w2, serialize_h 1 16 w' = Ret (Some (5, [130; 7; 98; 104; 105])) w2).
Proof.
  intros s' w' E. destruct exAbs_state as (I0 & C0 & AC & Lg & Bl).
  destruct exAbs_a1 as [wa A1]. destruct exAbs_a4 as [wx A4]. destruct exAbs_a6 as [w6 A6].
  pose proof (abs_after_push never 8 _ _ _ _ 0%nat 2%nat 1 4 s' true w' false _ _ wa wx I0 C0 AC Lg Bl exAbs_h0 exAbs_h2 A1 A4 E) as P1.
  cbn [app] in P1.
  assert (Hn : ~ reach (snd exAbs_sw) 4 1).
  { destruct (Bl 1 4 exAbs_h0 exAbs_h2) as (rank & Rk & Hlt).
    assert (H1 : exists rc n, heap (snd exAbs_sw) 1 = Some (CItem rc n)) by (vm_compute; eauto).
    exact (below_not_reach _ _ _ rank 1 4 I0 Rk Hlt H1). }
  split; [exact P1|]. split; [|split].
  - destruct P1 as [w2 P1].
    assert (Sib : forall rc d c lp, heap (snd exAbs_sw) 6 = Some (CItem rc (NArr false d c lp)) ->
              forall e, In e lp -> e <> 1 -> ~ reach (snd exAbs_sw) e 1).
    { intros rc d c lp Ep e He Ne. rewrite (exAbs_p6 rc d c lp Ep) in He.
      destruct He as [<-|[<-|[]]]; [congruence|exact Hn]. }
    assert (H61 : 6 <> 1) by discriminate.
    destruct (abs_parent_array never 8 _ _ _ _ exAbs_op s' _ w' 1 6 false _ w6 (IArray false [IUint I8 7; IText [104; 105]]) w2
                I0 C0 AC Lg Bl eq_refl exAbs_h0 E H61 A6 Sib P1) as (lp & w3 & (rc & d & c & Ep) & P6).
    rewrite (exAbs_p6 rc d c lp Ep) in P6. exists w3. exact P6.
  - exact (abs_frame never 8 _ _ _ _ exAbs_op s' _ w' 1 4 _ wx I0 C0 AC Lg Bl eq_refl exAbs_h0 E Hn A4).
  - apply (C03_api_serialize 1 16 w' _ P1); [|reflexivity|vm_compute; discriminate].
    vm_compute. repeat constructor.
Qed.

Print Assumptions abs_tree.
Print Assumptions tree_abs.
Print Assumptions abs_of_complete.
Print Assumptions abs_after_push.
Print Assumptions abs_after_map_add.
Print Assumptions abs_after_add_chunk.
Print Assumptions abs_after_tag_set.
Print Assumptions abs_after_replace.
Print Assumptions abs_after_set.
Print Assumptions abs_after_build_tag.
Print Assumptions abs_after_copy.
Print Assumptions abs_frame.
Print Assumptions abs_frame_replace.
Print Assumptions abs_parent_array.
Print Assumptions C03_api_serialize.
Print Assumptions C03_push_serialize.
Print Assumptions exAbs_theorems.
