(* tactics shared by the bridge lemmas of the generated plans (Bridge_effects.v,
   Bridge_effects_load.v): automation only *)
From Coq Require Import ZArith NArith List Bool String Lia ZifyBool ZifyN ZifyNat.
Import ListNotations.
From CB Require Import Word GenLeafTypes BridgeTac HPlans.
Ltac Zify.zify_post_hook ::= Z.div_mod_to_equations.
Local Open Scope Z_scope.

(* xor of the parity bit: the same on Z as on N *)
Lemma of_N_lxor a b : Z.lxor (Z.of_N a) (Z.of_N b) = Z.of_N (N.lxor a b).
Proof. destruct a, b; reflexivity. Qed.

(* structural equality of plans: congruence at the constructors of HPlans only, integer leaves by
   lia (which also closes a goal whose hypotheses are contradictory) *)
Ltac peq :=
  first
  [ reflexivity
  | lazymatch goal with
    | |- @eq Z _ _ => lia
    | |- @eq N _ _ => lia
    | |- @eq plan (mkplan _ _ _ _) (mkplan _ _ _ _) => f_equal; peq
    | |- @eq rv (RZ _) (RZ _) => f_equal; peq
    | |- @eq rv (RP _) (RP _) => f_equal; peq
    | |- @eq ptr (PSlot _ _ _) (PSlot _ _ _) => f_equal; peq
    | |- @eq ptr (PField _ _) (PField _ _) => f_equal; peq
    | |- @eq (list _) (_ :: _) (_ :: _) => f_equal; peq
    | |- @eq (prod _ _) (_, _) (_, _) => f_equal; peq
    | |- @eq req (ReqMalloc _) (ReqMalloc _) => f_equal; peq
    | |- @eq req (ReqRealloc _ _) (ReqRealloc _ _) => f_equal; peq
    | |- @eq req (ReqAllocMultiple _ _) (ReqAllocMultiple _ _) => f_equal; peq
    | |- @eq req (ReqReallocMultiple _ _ _) (ReqReallocMultiple _ _ _) => f_equal; peq
    | |- @eq req (ReqFree _) (ReqFree _) => f_equal; peq
    | |- @eq req (ReqCall _ _) (ReqCall _ _) => f_equal; peq
    | |- @eq arg (AZ _) (AZ _) => f_equal; peq
    | |- @eq arg (AP _) (AP _) => f_equal; peq
    | |- @eq arg (APO _ _) (APO _ _) => f_equal; peq
    | |- @eq arg (AStruct _) (AStruct _) => f_equal; peq
    | |- @eq eff (Carry _ _) (Carry _ _) => f_equal; peq
    | |- @eq ptr (PPost _ _) (PPost _ _) => f_equal; peq
    | |- @eq eff (Copy _ _ _) (Copy _ _ _) => f_equal; peq
    | |- @eq eff (CopyAt _ _ _ _) (CopyAt _ _ _ _) => f_equal; peq
    | |- @eq eff (Incref _) (Incref _) => f_equal; peq
    | |- @eq eff (Decref _) (Decref _) => f_equal; peq
    | |- @eq eff (Move _) (Move _) => f_equal; peq
    | |- @eq eff (Store _ _ _ _) (Store _ _ _ _) => f_equal; peq
    | |- @eq eff (Fill _ _ _) (Fill _ _ _) => f_equal; peq
    | |- @eq eff (SetPtr _ _ _) (SetPtr _ _ _) => f_equal; peq
    | |- @eq eff (SetInt _ _ _) (SetInt _ _ _) => f_equal; peq
    end
  | exfalso; lia ].

(* case split on every condition, innermost first; a branch whose conditions contradict each
   other is closed at once *)
Ltac psplits :=
  repeat match goal with
  | |- context [if ?c then _ else _] =>
      lazymatch c with
      | context [if _ then _ else _] => fail
      | _ => destruct c eqn:?; try (exfalso; lia)
      end
  end.

