(* Model H, property C12 over whole API histories: an array / a map / an indefinite string that the
   client holds behaves, along ANY legal sequence of calls of the container sub-language, exactly
   like the documented bounded / unbounded sequence:

     - [alist] / [apush] / [aget] / [areplace] / [aset]   the documented results of arrays.h
     - [amap]  / [amadd]                                  the documented results of maps.h (cbor_map_add)
     - [achunks] / [acadd]                                the documented results of cbor_(byte)string_add_chunk

   The allocator's answer to the (single) growth request a call may make is the oracle
   [granted refuse isz w c]; a growth that the size guards refuse counts as "not granted".

   Main theorems ("after EVERY call the observable result is the abstract one and the node of the
   container is the abstract sequence"):
     C12_array_sequence  / C12_array_sequence_from_empty
     C12_map_sequence    / C12_map_sequence_from_empty
     C12_chunk_sequence  / C12_chunk_sequence_from_empty
   and their readings over the whole run ([seq_ok_run], [mseq_ok_run], [cseq_ok_run]: [run_hist] returns,
   its outputs are the documented ones in order, the container at the end is the documented sequence).
   No fault and the preservation of the accounting invariant come from HHist_proofs.C04_step; what the
   node of the container is after a call that returns is obtained by inversion of the monadic code. *)
From CB Require Import Word Word_proofs PMem PMem_proofs PItem PItem_proofs HHeap HItems HOps HHist.
From CB Require Import HRef_proofs HCont_proofs HRead_proofs HLoad_proofs HCopy_proofs HHist_proofs.
From CB Require Import HHist2 HHist3 HHist2_proofs HHist3_proofs HStepInv_proofs HTrace_proofs HFrame_proofs.
From Coq Require Import Lia ZArith ZifyBool ZifyN ZifyNat List.
Import ListNotations.
Local Open Scope N_scope.
Ltac Zify.zify_post_hook ::= Z.div_mod_to_equations.

(* ------------------------------------------------------------------------------------------ *)
(* 0. the abstract sequences                                                                   *)
(* ------------------------------------------------------------------------------------------ *)

(* an array: definite (bounded by its capacity) or indefinite (capacity doubles on demand) *)
Record alist := mkalist { a_indef : bool; a_cap : N; a_elems : list addr }.

(* cbor_array_push: room -> accepted; full and definite -> refused; full and indefinite -> accepted
   iff the growth request is granted, the capacity becomes max 1 (2 * cap) *)
Definition apush (granted : bool) (l : alist) (x : addr) : bool * alist :=
  if len (a_elems l) <? a_cap l
  then (true, mkalist (a_indef l) (a_cap l) (a_elems l ++ [x]))
  else if a_indef l && granted
       then (true, mkalist (a_indef l) (N.max 1 (2 * a_cap l)) (a_elems l ++ [x]))
       else (false, l).

(* cbor_array_get: NULL iff the index is not below the size *)
Definition aget (l : alist) (i : N) : option addr := nth_error (a_elems l) (N.to_nat i).

(* cbor_array_replace: false iff the index is not below the size *)
Definition areplace (l : alist) (i : N) (x : addr) : bool * alist :=
  if i <? len (a_elems l)
  then (true, mkalist (a_indef l) (a_cap l) (set_nth (a_elems l) (N.to_nat i) x))
  else (false, l).

(* cbor_array_set: push at the end, replace below, false beyond *)
Definition aset (granted : bool) (l : alist) (i : N) (x : addr) : bool * alist :=
  if i =? len (a_elems l) then apush granted l x
  else if i <? len (a_elems l) then areplace l i x
  else (false, l).

Lemma aget_none l i : aget l i = None <-> len (a_elems l) <= i.
Proof.
  unfold aget, len. rewrite nth_error_None. lia.
Qed.
Lemma aget_some l i e : aget l i = Some e -> i < len (a_elems l).
Proof.
  intros H. destruct (N.lt_ge_cases i (len (a_elems l))) as [Lt|Ge]; [exact Lt|].
  apply aget_none in Ge. congruence.
Qed.
Lemma areplace_false l i x : fst (areplace l i x) = false <-> len (a_elems l) <= i.
Proof. unfold areplace. destruct (N.ltb_spec i (len (a_elems l))); cbn [fst]; split; intros; try lia; try discriminate; reflexivity. Qed.
Lemma aset_push g l x : aset g l (len (a_elems l)) x = apush g l x.
Proof. unfold aset. rewrite N.eqb_refl. reflexivity. Qed.
Lemma aset_replace g l i x : i < len (a_elems l) -> aset g l i x = areplace l i x.
Proof.
  intros H. unfold aset. destruct (N.eqb_spec i (len (a_elems l))); [lia|].
  destruct (N.ltb_spec i (len (a_elems l))); [reflexivity|lia].
Qed.
Lemma aset_beyond g l i x : len (a_elems l) < i -> aset g l i x = (false, l).
Proof.
  intros H. unfold aset. destruct (N.eqb_spec i (len (a_elems l))); [lia|].
  destruct (N.ltb_spec i (len (a_elems l))); [lia|reflexivity].
Qed.

(* a map: a sequence of (key, value) pairs, bounded or growing like an array *)
Record amap := mkamap { m_indef : bool; m_cap : N; m_pairs : list (addr * addr) }.
Definition amadd (granted : bool) (m : amap) (k v : addr) : bool * amap :=
  if len (m_pairs m) <? m_cap m
  then (true, mkamap (m_indef m) (m_cap m) (m_pairs m ++ [(k, v)]))
  else if m_indef m && granted
       then (true, mkamap (m_indef m) (N.max 1 (2 * m_cap m)) (m_pairs m ++ [(k, v)]))
       else (false, m).

(* the chunk list of an indefinite string: always growing *)
Record achunks := mkachunks { c_cap : N; c_chunks : list addr }.
Definition acadd (granted : bool) (c : achunks) (x : addr) : bool * achunks :=
  if len (c_chunks c) <? c_cap c
  then (true, mkachunks (c_cap c) (c_chunks c ++ [x]))
  else if granted
       then (true, mkachunks (N.max 1 (2 * c_cap c)) (c_chunks c ++ [x]))
       else (false, c).

(* ------------------------------------------------------------------------------------------ *)
(* 1. inversion of the monadic code: "if the call returns, the node afterwards is ..."         *)
(* ------------------------------------------------------------------------------------------ *)

(* the cell at [a] keeps its node (only its count may change) *)
Definition kept (w w' : world) (a : addr) : Prop :=
  forall rc n, heap w a = Some (CItem rc n) -> exists rc', heap w' a = Some (CItem rc' n).

Lemma kept_refl w a : kept w w a.
Proof. intros rc n E. exists rc. exact E. Qed.
Lemma kept_trans w1 w2 w3 a : kept w1 w2 a -> kept w2 w3 a -> kept w1 w3 a.
Proof. intros H1 H2 rc n E. destruct (H1 rc n E) as (rc' & E'). exact (H2 rc' n E'). Qed.
Lemma kept_heq w w' a : heap w' a = heap w a -> kept w w' a.
Proof. intros H rc n E. exists rc. rewrite H. exact E. Qed.

Lemma ret_inv {A} (a b : A) w w' : ret a w = Ret b w' -> b = a /\ w' = w.
Proof. unfold ret. intros H. injection H as <- <-. auto. Qed.

Lemma touch_any_inv wr p w u w' : touch_data wr p w = Ret u w' -> heap w' = heap w /\ next w' = next w /\ nreq w' = nreq w.
Proof.
  unfold touch_data. destruct p as [d|]; [|discriminate]. destruct (heap w d) as [[rc n|sz]|]; try discriminate.
  intros H. injection H as _ <-. auto.
Qed.

Lemma rd_inv a w c w' : rd_item a w = Ret c w' ->
  heap w a = Some (CItem (fst c) (snd c)) /\ heap w' = heap w /\ next w' = next w /\ nreq w' = nreq w.
Proof.
  destruct c as [rc n]. intros H. apply rd_item_ret in H. destruct H as [E ->]. cbn [fst snd]. auto.
Qed.

Lemma wr_inv a rc n w u w' : wr_item a rc n w = Ret u w' ->
  heap w' a = Some (CItem rc n) /\ (forall b, b <> a -> heap w' b = heap w b) /\ next w' = next w /\ nreq w' = nreq w.
Proof.
  destruct u. intros H. apply wr_item_ret in H. destruct H as [_ ->]. unfold w_wr. cbn [heap next nreq].
  split; [apply upd_same|]. split; [|auto]. intros b Hb. apply upd_other. exact Hb.
Qed.

Lemma incref_kept q w r w' a : incref q w = Ret r w' -> kept w w' a.
Proof.
  unfold incref. intros H. apply bind_inv in H. destruct H as (c & w1 & E1 & H).
  apply bind_inv in H. destruct H as (u & w2 & E2 & H). apply ret_inv in H. destruct H as [_ ->].
  apply rd_inv in E1. destruct E1 as (Eq & H1 & _). apply wr_inv in E2. destruct E2 as (Ea & Eo & _).
  intros rc n E. destruct (N.eq_dec a q) as [->|Ne].
  - rewrite E in Eq. injection Eq as Hrc Hn. rewrite <- Hn in Ea. eexists. exact Ea.
  - exists rc. rewrite (Eo a Ne), H1. exact E.
Qed.

Section Inversion.
Variable refuse : N -> N -> bool.

(* the allocator's answer to the growth request of a container of capacity [c] whose slots have
   [isz] bytes, asked in world [w]; a refusal by the size guards counts as "not granted" *)
Definition granted (isz : N) (w : world) (c : N) : bool :=
  match grow_req isz c with
  | Some (_, bytes) => negb (refuse (nreq w) bytes)
  | None => false
  end.

Lemma grow_inv data isz al w g w' :
  isz < 2 ^ 64 -> al < 2 ^ 64 ->
  grow refuse data isz al w = Ret g w' ->
  match g with
  | None => granted isz w al = false /\ heap w' = heap w
  | Some (c', d') =>
      granted isz w al = true /\ c' = N.max 1 (2 * al) /\ d' = next w /\
      (exists sz, heap w' (next w) = Some (CData sz)) /\
      forall b rc n, heap w b = Some (CItem rc n) -> b <> next w -> heap w' b = heap w b
  end.
Proof.
  intros Hi Ha. unfold grow, granted. pose proof (grow_req_spec isz al) as GS. unfold grow_req in *.
  destruct (grow_capacity 64 al) as [c|].
  2:{ intros H. apply ret_inv in H. destruct H as [-> ->]. auto. }
  destruct (alloc_multiple_req 64 isz c) as [bytes|].
  2:{ intros H. apply ret_inv in H. destruct H as [-> ->]. auto. }
  destruct (GS c bytes Hi Ha eq_refl) as (Hc & _).
  intros H. apply bind_inv in H. destruct H as (r & w1 & E1 & H).
  unfold realloc in E1. destruct (realloc_bad data w) as [k|] eqn:RB; [discriminate|].
  destruct (refuse (nreq w) bytes) eqn:R.
  - injection E1 as <- <-. apply ret_inv in H. destruct H as [-> ->]. cbn [negb heap]. auto.
  - injection E1 as <- <-. apply ret_inv in H. destruct H as [-> ->]. cbn [negb heap].
    split; [reflexivity|]. split; [exact Hc|]. split; [reflexivity|]. split.
    { exists bytes. apply upd_same. }
    intros b rc n E Ne. rewrite upd_other by exact Ne. destruct data as [o|]; [|reflexivity].
    rewrite upd_other; [reflexivity|]. intros ->. unfold realloc_bad in RB. rewrite E in RB. discriminate.
Qed.

End Inversion.

(* ------------------------------------------------------------------------------------------ *)
(* 2. arrays: one call                                                                         *)
(* ------------------------------------------------------------------------------------------ *)

(* the node at [p] is the abstract array [l] (whatever its count and the address of its slot block) *)
Definition arr_at (w : world) (p : addr) (l : alist) : Prop :=
  exists rc d, heap w p = Some (CItem rc (NArr (a_indef l) d (a_cap l) (a_elems l))) /\
               len (a_elems l) <= a_cap l.

Lemma arr_at_heq w w' p l : heap w' = heap w -> arr_at w p l -> arr_at w' p l.
Proof. intros H (rc & d & E & B). exists rc, d. rewrite H. auto. Qed.

Lemma arr_at_kept w w' p l : kept w w' p -> arr_at w p l -> arr_at w' p l.
Proof. intros K (rc & d & E & B). destruct (K _ _ E) as (rc' & E'). exists rc', d. auto. Qed.

Lemma wf_heq w w' : heap w' = heap w -> next w' = next w -> wf w -> wf w'.
Proof. intros H1 H2 Hwf b Hb. rewrite H1. apply Hwf. lia. Qed.

Lemma get_inv p i w l r w' :
  arr_at w p l -> array_get p i w = Ret r w' -> r = aget l i /\ arr_at w' p l.
Proof.
  intros A H. pose proof A as (rc & d & E & B).
  unfold array_get in H. apply bind_inv in H. destruct H as ([rc0 n0] & w1 & E1 & H).
  apply rd_inv in E1. cbn [fst snd] in *. destruct E1 as (E1 & H1 & _).
  rewrite E in E1. injection E1 as <- <-.
  destruct (N.leb_spec (len (a_elems l)) i) as [Out|In].
  - apply ret_inv in H. destruct H as [-> ->]. split.
    + symmetry. apply aget_none. exact Out.
    + eapply arr_at_heq; [exact H1|exact A].
  - apply bind_inv in H. destruct H as (u & w2 & E2 & H). apply touch_any_inv in E2. destruct E2 as (H2 & _).
    unfold aget. destruct (nth_error (a_elems l) (N.to_nat i)) as [e|]; [|discriminate].
    apply bind_inv in H. destruct H as (u3 & w3 & E3 & H). apply ret_inv in H. destruct H as [-> ->].
    split; [reflexivity|]. eapply arr_at_kept; [exact (incref_kept _ _ _ _ p E3)|].
    eapply arr_at_heq; [rewrite H2; exact H1|exact A].
Qed.

Lemma replace_inv p i q w l b w' :
  arr_at w p l -> array_replace p i q w = Ret b w' ->
  b = fst (areplace l i q) /\ arr_at w' p (snd (areplace l i q)).
Proof.
  intros A H. pose proof A as (rc & d & E & B).
  unfold array_replace in H. apply bind_inv in H. destruct H as ([rc0 n0] & w1 & E1 & H).
  apply rd_inv in E1. cbn [fst snd] in *. destruct E1 as (E1 & H1 & _).
  rewrite E in E1. injection E1 as <- <-. unfold areplace.
  destruct (N.leb_spec (len (a_elems l)) i) as [Out|In].
  - destruct (N.ltb_spec i (len (a_elems l))) as [?|_]; [lia|]. cbn [fst snd].
    apply ret_inv in H. destruct H as [-> ->]. split; [reflexivity|].
    eapply arr_at_heq; [exact H1|exact A].
  - destruct (N.ltb_spec i (len (a_elems l))) as [_|?]; [|lia]. cbn [fst snd].
    apply bind_inv in H. destruct H as (u & w2 & E2 & H).
    destruct (nth_error (a_elems l) (N.to_nat i)) as [old|]; [|discriminate].
    apply bind_inv in H. destruct H as (u3 & w3 & E3 & H).
    apply bind_inv in H. destruct H as (u4 & w4 & E4 & H).
    apply bind_inv in H. destruct H as (c' & w5 & E5 & H).
    apply bind_inv in H. destruct H as (u6 & w6 & E6 & H).
    apply bind_inv in H. destruct H as (u7 & w7 & E7 & H). apply ret_inv in H. destruct H as [-> ->].
    split; [reflexivity|]. apply wr_inv in E7. destruct E7 as (Ea & _).
    exists (fst c'), d. cbn [a_indef a_cap a_elems]. split; [exact Ea|]. rewrite len_set_nth. exact B.
Qed.

Section ArrInv.
Variable refuse : N -> N -> bool.

Lemma granted_nreq isz w w' c : nreq w' = nreq w -> granted refuse isz w' c = granted refuse isz w c.
Proof. intros H. unfold granted. rewrite H. reflexivity. Qed.

(* the common tail of array_push / map_add_key: store the node, then retain the new member *)
Lemma tail_inv p q rc nd d' w b w' :
  (touch_data true d' ;;; wr_item p rc nd ;;; incref q ;;; ret true) w = Ret b w' ->
  b = true /\ exists rc', heap w' p = Some (CItem rc' nd).
Proof.
  intros H. apply bind_inv in H. destruct H as (u1 & w1 & E1 & H).
  apply bind_inv in H. destruct H as (u2 & w2 & E2 & H).
  apply bind_inv in H. destruct H as (u3 & w3 & E3 & H). apply ret_inv in H. destruct H as [-> ->].
  split; [reflexivity|]. apply wr_inv in E2. destruct E2 as (Ea & _).
  exact (incref_kept _ _ _ _ p E3 _ _ Ea).
Qed.

Lemma push_inv p q w l b w' :
  wf w -> caps w -> arr_at w p l -> array_push refuse p q w = Ret b w' ->
  b = fst (apush (granted refuse SZ_PTR w (a_cap l)) l q) /\
  arr_at w' p (snd (apush (granted refuse SZ_PTR w (a_cap l)) l q)).
Proof.
  intros Hwf Hc (rc & d & E & B) H. destruct l as [indef c es]. cbn [a_indef a_cap a_elems] in *.
  pose proof (Hc _ _ _ E) as Hok. cbn [node_ok] in Hok.
  unfold array_push in H. apply bind_inv in H. destruct H as ([rc0 n0] & w1 & E1 & H).
  apply rd_inv in E1. cbn [fst snd] in *. destruct E1 as (E1 & H1 & N1 & R1).
  rewrite E in E1. injection E1 as <- <-.
  unfold apush. cbn [a_indef a_cap a_elems].
  destruct indef.
  - (* indefinite *)
    destruct Hok as (_ & Hc64 & _).
    apply bind_inv in H. destruct H as (st & w2 & E2 & H).
    destruct (N.leb_spec c (len es)) as [Full|Room].
    + destruct (N.ltb_spec (len es) c) as [?|_]; [lia|]. cbn [andb].
      apply bind_inv in E2. destruct E2 as (g & w3 & E3 & E2).
      apply grow_inv in E3; [|unfold SZ_PTR; lia|exact Hc64].
      rewrite (granted_nreq _ _ _ _ R1) in E3.
      destruct g as [[c' d']|].
      * destruct E3 as (G & -> & -> & _ & Hold). rewrite G. cbn [fst snd].
        apply ret_inv in E2. destruct E2 as [-> ->].
        apply tail_inv in H. destruct H as (-> & rc' & E'). split; [reflexivity|].
        exists rc', (Some (next w1)). cbn [a_indef a_cap a_elems]. split; [exact E'|].
        rewrite len_snoc. lia.
      * destruct E3 as (G & H3). rewrite G. cbn [fst snd].
        apply ret_inv in E2. destruct E2 as [-> ->]. apply ret_inv in H. destruct H as [-> ->].
        split; [reflexivity|]. exists rc, d. cbn [a_indef a_cap a_elems]. rewrite H3, H1. auto.
    + destruct (N.ltb_spec (len es) c) as [_|?]; [|lia]. cbn [fst snd].
      apply ret_inv in E2. destruct E2 as [-> ->].
      apply tail_inv in H. destruct H as (-> & rc' & E'). split; [reflexivity|].
      exists rc', d. cbn [a_indef a_cap a_elems]. split; [exact E'|]. rewrite len_snoc. lia.
  - (* definite *)
    cbn [andb].
    destruct (N.leb_spec c (len es)) as [Full|Room].
    + destruct (N.ltb_spec (len es) c) as [?|_]; [lia|]. cbn [fst snd].
      apply ret_inv in H. destruct H as [-> ->]. split; [reflexivity|].
      exists rc, d. cbn [a_indef a_cap a_elems]. rewrite H1. auto.
    + destruct (N.ltb_spec (len es) c) as [_|?]; [|lia]. cbn [fst snd].
      apply tail_inv in H. destruct H as (-> & rc' & E'). split; [reflexivity|].
      exists rc', d. cbn [a_indef a_cap a_elems]. split; [exact E'|]. rewrite len_snoc. lia.
Qed.

Lemma set_inv p i q w l b w' :
  wf w -> caps w -> arr_at w p l -> array_set refuse p i q w = Ret b w' ->
  b = fst (aset (granted refuse SZ_PTR w (a_cap l)) l i q) /\
  arr_at w' p (snd (aset (granted refuse SZ_PTR w (a_cap l)) l i q)).
Proof.
  intros Hwf Hc A H. pose proof A as (rc & d & E & B).
  unfold array_set in H. apply bind_inv in H. destruct H as ([rc0 n0] & w1 & E1 & H).
  apply rd_inv in E1. cbn [fst snd] in *. destruct E1 as (E1 & H1 & N1 & R1).
  rewrite E in E1. injection E1 as <- <-. unfold aset.
  assert (A1 : arr_at w1 p l) by (eapply arr_at_heq; [exact H1|exact A]).
  destruct (N.eqb_spec i (len (a_elems l))) as [->|Ne].
  - rewrite <- (granted_nreq SZ_PTR w w1 (a_cap l) R1).
    apply (push_inv p q w1 l b w'); [eapply wf_heq; eassumption|eapply caps_same; eassumption|exact A1|exact H].
  - destruct (N.ltb_spec i (len (a_elems l))) as [In|Out].
    + apply (replace_inv p i q w1 l b w'); [exact A1|exact H].
    + cbn [fst snd]. apply ret_inv in H. destruct H as [-> ->]. auto.
Qed.

End ArrInv.

(* ------------------------------------------------------------------------------------------ *)
(* 3. constructors never change an existing cell                                               *)
(* ------------------------------------------------------------------------------------------ *)

Lemma wp_det {A} (m : M A) w (Q : A -> world -> Prop) r w' : wp m w Q -> m w = Ret r w' -> Q r w'.
Proof. intros (a & w1 & E & HQ) H. rewrite E in H. injection H as <- <-. exact HQ. Qed.

Lemma ctor1_old w n r w' : ctor1_post w n r w' -> forall b, b < next w -> heap w' b = heap w b.
Proof.
  intros H b Hb. destruct r as [a|].
  - destruct H as (_ & _ & H). rewrite H. apply upd_other. lia.
  - destruct H as (H & _). apply H.
Qed.

Lemma ctor2_old w n r w' : ctor2_post w n r w' -> forall b, b < next w -> heap w' b = heap w b.
Proof.
  intros (_ & H) b Hb. destruct r as [a|].
  - destruct H as (_ & _ & sz & H). rewrite H. rewrite !upd_other by lia. reflexivity.
  - apply H.
Qed.

Section Ctor.
Variable refuse : N -> N -> bool.
Variable L : N.

(* the ten plain constructors *)
Definition ctor_of (o : op) : option (M (option addr)) :=
  match o with
  | OBuildInt neg w v => Some (build_int refuse neg w v)
  | OBuildFloat w b => Some (build_float refuse w b)
  | OBuildCtrl v => Some (build_ctrl refuse v)
  | OBuildString text bytes => Some (build_string refuse text bytes)
  | ONewIndefString text => Some (new_indefinite_string refuse text)
  | ONewDefArray n => Some (new_definite_array refuse n)
  | ONewIndefArray => Some (new_indefinite_array refuse)
  | ONewDefMap n => Some (new_definite_map refuse n)
  | ONewIndefMap => Some (new_indefinite_map refuse)
  | ONewTag v => Some (new_tag refuse v)
  | _ => None
  end.

Lemma step_ctor s o m : ctor_of o = Some m -> step refuse L s o = newh s m.
Proof. destruct o; intros H; try discriminate H; injection H as <-; reflexivity. Qed.

Lemma ctor_old o m w r w' :
  ctor_of o = Some m -> wf w -> m w = Ret r w' -> forall b, b < next w -> heap w' b = heap w b.
Proof.
  intros Ho Hwf H. destruct o; try discriminate Ho; injection Ho as <-.
  - eapply ctor1_old. exact (wp_det _ _ _ _ _ (wp_malloc_item refuse _ _ w) H).
  - eapply ctor1_old. exact (wp_det _ _ _ _ _ (wp_malloc_item refuse _ _ w) H).
  - eapply ctor1_old. exact (wp_det _ _ _ _ _ (wp_malloc_item refuse _ _ w) H).
  - destruct (wp_det _ _ _ _ _ (wp_build_string refuse text bytes w Hwf) H) as (r0 & P & _).
    eapply ctor2_old. exact P.
  - eapply ctor2_old. exact (wp_det _ _ _ _ _ (wp_new_indefinite_string refuse text w Hwf) H).
  - eapply ctor2_old. exact (wp_det _ _ _ _ _ (wp_new_definite_array refuse n w Hwf) H).
  - eapply ctor1_old. exact (wp_det _ _ _ _ _ (wp_malloc_item refuse _ _ w) H).
  - eapply ctor2_old. exact (wp_det _ _ _ _ _ (wp_new_definite_map refuse n w Hwf) H).
  - eapply ctor1_old. exact (wp_det _ _ _ _ _ (wp_malloc_item refuse _ _ w) H).
  - eapply ctor1_old. exact (wp_det _ _ _ _ _ (wp_malloc_item refuse _ _ w) H).
Qed.

Lemma newh_inv s (m : M (option addr)) w s' out w' :
  newh s m w = Ret (s', out) w' ->
  exists r, m w = Ret r w' /\ s' = hpush s r /\
            out = OutHandle (match r with Some _ => true | None => false end).
Proof.
  unfold newh. intros H. apply bind_inv in H. destruct H as (r & w1 & E & H).
  apply ret_inv in H. destruct H as [H ->]. injection H as -> ->. exists r. auto.
Qed.

(* a constructor call: a new handle; every live cell is as before *)
Lemma step_ctor_inv s o m w s' out w' :
  ctor_of o = Some m -> wf w -> step refuse L s o w = Ret (s', out) w' ->
  (exists r, s' = hpush s r) /\
  out = OutHandle (match new_handle s' with Some _ => true | None => false end) /\
  forall b c, heap w b = Some c -> heap w' b = Some c.
Proof.
  intros Ho Hwf H. rewrite (step_ctor s o m Ho) in H. apply newh_inv in H.
  destruct H as (r & E & -> & ->). split; [eauto|]. rewrite new_handle_hpush. split; [reflexivity|].
  intros b c Eb. rewrite (ctor_old o m w r w' Ho Hwf E b); [exact Eb|].
  eapply wf_lt; eassumption.
Qed.

End Ctor.

Lemma hget_hpush s h p r : hget s h = Some p -> hget (hpush s r) h = Some p.
Proof.
  unfold hget, hpush. cbn [handles]. intros H.
  destruct (nth_error (handles s) h) as [o|] eqn:E; [|discriminate].
  rewrite nth_error_app1; [rewrite E; exact H|]. apply nth_error_Some. congruence.
Qed.

(* ------------------------------------------------------------------------------------------ *)
(* 4. arrays: whole histories                                                                  *)
(* ------------------------------------------------------------------------------------------ *)

(* what the client is told by one call, abstractly *)
Inductive aout :=
| AOBool (b : bool)              (* push / set / replace / map_add / add_chunk: the documented bool *)
| AOGet (r : option addr)        (* get: the documented item, NULL = None *)
| AOSkip                         (* an operand handle is NULL: the call is not made *)
| AONew.                         (* a constructor: a new handle, nothing to say about the container *)

(* the concrete observation [out] (and the handle the call appended, if any) agrees with the abstract one *)
Definition out_agrees (ao : aout) (s' : cstate) (o : out) : Prop :=
  match ao with
  | AOBool b => o = OutBool b
  | AOGet r => o = OutHandle (match r with Some _ => true | None => false end) /\ new_handle s' = r
  | AOSkip => o = OutSkip
  | AONew => o = OutHandle (match new_handle s' with Some _ => true | None => false end)
  end.

(* the sub-language: the ten plain constructors, and push / get / set / replace on the handle [h]
   with arbitrary indices and arbitrary operand handles *)
Definition arr_lang (h : nat) (o : op) : Prop :=
  match o with
  | OBuildInt _ _ _ | OBuildFloat _ _ | OBuildCtrl _ | OBuildString _ _ | ONewIndefString _
  | ONewDefArray _ | ONewIndefArray | ONewDefMap _ | ONewIndefMap | ONewTag _ => True
  | OPush a _ | OGet a _ | OSet a _ _ | OReplace a _ _ => a = h
  | _ => False
  end.

Section ArraySequence.
Variable refuse : N -> N -> bool.
Variable L : N.
Variable h : nat.      (* the handle of the array *)
Variable p : addr.     (* ... and the item it denotes *)

(* the documented result of one call on the abstract array: the handle table only resolves the
   operand handle, the world only supplies the allocator's answer *)
Definition astep (s : cstate) (w : world) (o : op) (l : alist) : aout * alist :=
  let g := granted refuse SZ_PTR w (a_cap l) in
  match o with
  | OPush _ x =>
      match hget s x with
      | Some q => (AOBool (fst (apush g l q)), snd (apush g l q))
      | None => (AOSkip, l)
      end
  | OGet _ i => (AOGet (aget l i), l)
  | OSet _ i x =>
      match hget s x with
      | Some q => (AOBool (fst (aset g l i q)), snd (aset g l i q))
      | None => (AOSkip, l)
      end
  | OReplace _ i x =>
      match hget s x with
      | Some q => (AOBool (fst (areplace l i q)), snd (areplace l i q))
      | None => (AOSkip, l)
      end
  | _ => (AONew, l)
  end.

(* after EVERY call of the history: the call returns, the client observes the documented result,
   and the node of the array is the documented sequence *)
Fixpoint seq_ok (ops : list op) (s : cstate) (w : world) (l : alist) : Prop :=
  match ops with
  | [] => True
  | o :: r =>
      exists s' out w',
        step refuse L s o w = Ret (s', out) w' /\
        out_agrees (fst (astep s w o l)) s' out /\
        arr_at w' p (snd (astep s w o l)) /\
        seq_ok r s' w' (snd (astep s w o l))
  end.

(* the client's references never decrease in this sub-language *)
Lemma arr_lang_own s o own s' x : arr_lang h o -> own x <= own_after s o own s' x.
Proof.
  destruct o; cbn [arr_lang own_after]; intros H; try contradiction; try lia;
    destruct (new_handle s'); unfold own1; lia.
Qed.

Lemma arr_lang_cases o : arr_lang h o ->
  (exists m, ctor_of refuse o = Some m) \/
  (exists x, o = OPush h x) \/ (exists i, o = OGet h i) \/
  (exists i x, o = OSet h i x) \/ (exists i x, o = OReplace h i x).
Proof.
  destruct o; cbn [arr_lang]; intros H; try contradiction; try (left; eexists; reflexivity); subst; eauto 8.
Qed.

(* one call *)
Lemma arr_step s w o l s' out w' :
  wf w -> caps w -> hget s h = Some p -> arr_at w p l -> arr_lang h o ->
  step refuse L s o w = Ret (s', out) w' ->
  out_agrees (fst (astep s w o l)) s' out /\ arr_at w' p (snd (astep s w o l)) /\ hget s' h = Some p.
Proof.
  intros Hwf Hc Hh A Lo H.
  destruct (arr_lang_cases o Lo) as [(m & Hm)|[(x & ->)|[(i & ->)|[(i & x & ->)|(i & x & ->)]]]].
  - (* constructors *)
    destruct (step_ctor_inv refuse L s o m w s' out w' Hm Hwf H) as ((r & ->) & -> & Hold).
    assert (astep s w o l = (AONew, l)) as -> by (destruct o; try discriminate Hm; reflexivity).
    cbn [fst snd out_agrees]. split; [reflexivity|]. split; [|apply hget_hpush; exact Hh].
    destruct A as (rc & d & E & B). exists rc, d. split; [apply Hold; exact E|exact B].
  - (* push *)
    cbn [step astep] in *. unfold with2 in H. rewrite Hh in H.
    destruct (hget s x) as [q|].
    + apply bind_inv in H. destruct H as (b & w1 & E & H). apply ret_inv in H. destruct H as [H ->].
      injection H as -> ->. cbn [fst snd out_agrees].
      destruct (push_inv refuse p q w l b w1 Hwf Hc A E) as (-> & A'). auto.
    + apply ret_inv in H. destruct H as [H ->]. injection H as -> ->. cbn [fst snd out_agrees]. auto.
  - (* get *)
    cbn [step astep] in *. unfold with1h in H. rewrite Hh in H. apply newh_inv in H.
    destruct H as (r & E & -> & ->). destruct (get_inv p i w l r w' A E) as (-> & A').
    cbn [fst snd out_agrees]. rewrite new_handle_hpush. split; [auto|]. split; [exact A'|].
    apply hget_hpush. exact Hh.
  - (* set *)
    cbn [step astep] in *. unfold with2 in H. rewrite Hh in H.
    destruct (hget s x) as [q|].
    + apply bind_inv in H. destruct H as (b & w1 & E & H). apply ret_inv in H. destruct H as [H ->].
      injection H as -> ->. cbn [fst snd out_agrees].
      destruct (set_inv refuse p i q w l b w1 Hwf Hc A E) as (-> & A'). auto.
    + apply ret_inv in H. destruct H as [H ->]. injection H as -> ->. cbn [fst snd out_agrees]. auto.
  - (* replace *)
    cbn [step astep] in *. unfold with2 in H. rewrite Hh in H.
    destruct (hget s x) as [q|].
    + apply bind_inv in H. destruct H as (b & w1 & E & H). apply ret_inv in H. destruct H as [H ->].
      injection H as -> ->. cbn [fst snd out_agrees].
      destruct (replace_inv p i q w l b w1 A E) as (-> & A'). auto.
    + apply ret_inv in H. destruct H as [H ->]. injection H as -> ->. cbn [fst snd out_agrees]. auto.
Qed.

(* C12 over histories, arrays *)
Theorem C12_array_sequence : forall ops s own ownd w l,
  Inv own ownd [] w -> caps w -> hget s h = Some p -> 0 < own p -> arr_at w p l ->
  Forall (arr_lang h) ops -> legal_history refuse L ops s own w -> seq_ok ops s w l.
Proof.
  induction ops as [|o r IH]; intros s own ownd w l I0 Hc Hh Op A F LH; [exact I|].
  cbn [seq_ok]. cbn [legal_history] in LH. destruct LH as (Lo & LH).
  inversion F as [|o' r' Fo Fr]; subst o' r'.
  pose proof (Inv_wf _ _ _ _ I0) as Hwf.
  destruct (C04_step refuse L s own ownd w o I0 Hwf Hc Lo) as (s' & out & w' & E & I' & Hwf' & Hc').
  destruct (arr_step s w o l s' out w' Hwf Hc Hh A Fo E) as (Ho & A' & Hh').
  exists s', out, w'. split; [exact E|]. split; [exact Ho|]. split; [exact A'|].
  eapply IH; [exact I'|exact Hc'|exact Hh'| |exact A'|exact Fr|exact (LH _ _ _ E)].
  pose proof (arr_lang_own s o own s' p Fo). lia.
Qed.

End ArraySequence.

(* legality of a concatenated history *)
Lemma legal_history_app refuse L : forall pre ops s own w,
  legal_history refuse L (pre ++ ops) s own w ->
  forall s' outs w' acc, run_hist refuse L pre s acc w = Ret (s', outs) w' ->
  legal_history refuse L pre s own w /\ legal_history refuse L ops s' (own_hist refuse L pre s own w) w'.
Proof.
  induction pre as [|o r IH]; intros ops s own w LH s' outs w' acc R.
  - cbn [run_hist] in R. apply ret_inv in R. destruct R as [R ->]. injection R as -> _.
    split; [exact I|exact LH].
  - cbn [app legal_history] in LH. destruct LH as (Lo & LH).
    cbn [run_hist] in R. apply bind_inv in R. destruct R as ([s1 o1] & w1 & E & R). cbn [fst snd] in R.
    destruct (IH ops s1 _ w1 (LH _ _ _ E) s' outs w' _ R) as (P1 & P2).
    split.
    + cbn [legal_history]. split; [exact Lo|]. intros s2 o2 w2 E2. rewrite E in E2. injection E2 as <- <- <-.
      exact P1.
    + cbn [own_hist]. rewrite E. exact P2.
Qed.

Section ArrayFromEmpty.
Variable refuse : N -> N -> bool.
Variable L : N.

(* ... for an array created somewhere in a legal history that starts in the empty world *)
Corollary C12_array_sequence_from_empty h p pre ops s outs w l :
  legal_history refuse L (pre ++ ops) s0 own0 world0 ->
  run_hist refuse L pre s0 [] world0 = Ret (s, outs) w ->
  hget s h = Some p -> 0 < own_hist refuse L pre s0 own0 world0 p -> arr_at w p l ->
  Forall (arr_lang h) ops -> seq_ok refuse L p ops s w l.
Proof.
  intros LH R Hh Op A F.
  destruct (legal_history_app refuse L pre ops s0 own0 world0 LH s outs w [] R) as (L1 & L2).
  destruct (C04_history_gen refuse L pre s0 own0 own0 world0 [] Inv_world0 caps_world0 L1)
    as (s1 & outs1 & w1 & R1 & I1 & C1).
  rewrite R in R1. injection R1 as <- <- <-.
  eapply (C12_array_sequence refuse L h p); eassumption.
Qed.

End ArrayFromEmpty.

(* ------------------------------------------------------------------------------------------ *)
(* 5. arrays: non-vacuity                                                                      *)
(* ------------------------------------------------------------------------------------------ *)

(* the abstract observations along a history (computed next to the concrete run, which supplies the
   handle table and the allocator's answers), and the abstract array at the end *)
Fixpoint aouts (refuse : N -> N -> bool) (L : N) (ops : list op) (s : cstate) (w : world) (l : alist)
    : list aout * alist :=
  match ops with
  | [] => ([], l)
  | o :: r =>
      match step refuse L s o w with
      | Ret (s', _) w' =>
          let r' := aouts refuse L r s' w' (snd (astep refuse s w o l)) in
          (fst (astep refuse s w o l) :: fst r', snd r')
      | Fault _ => ([], l)
      end
  end.

(* ---- the same, read off the whole run: [run_hist] returns, its outputs are the documented ones in
   order, and the array at the end is the documented sequence ---- *)

(* what [out_agrees] says about the output alone *)
Definition out_matches (ao : aout) (o : out) : Prop :=
  match ao with
  | AOBool b => o = OutBool b
  | AOGet r => o = OutHandle (match r with Some _ => true | None => false end)
  | AOSkip => o = OutSkip
  | AONew => exists ok, o = OutHandle ok
  end.

Lemma out_agrees_matches ao s' o : out_agrees ao s' o -> out_matches ao o.
Proof. destruct ao; cbn [out_agrees out_matches]; intros H; try exact H; [apply H|eauto]. Qed.

Theorem seq_ok_run refuse L p : forall ops s w l acc,
  arr_at w p l -> seq_ok refuse L p ops s w l ->
  exists s' outs w',
    run_hist refuse L ops s acc w = Ret (s', rev acc ++ outs) w' /\
    Forall2 out_matches (fst (aouts refuse L ops s w l)) outs /\
    arr_at w' p (snd (aouts refuse L ops s w l)).
Proof.
  induction ops as [|o r IH]; intros s w l acc A H.
  - exists s, [], w. cbn [run_hist aouts fst snd]. rewrite app_nil_r. split; [reflexivity|]. split; [constructor|exact A].
  - cbn [seq_ok] in H. destruct H as (s' & out & w' & E & Ho & A' & H).
    destruct (IH s' w' _ (out :: acc) A' H) as (s2 & outs & w2 & R & F & A2).
    exists s2, (out :: outs), w2. cbn [run_hist aouts]. unfold bind. rewrite E. cbn [fst snd].
    split; [rewrite R; cbn [rev]; rewrite <- app_assoc; reflexivity|].
    split; [constructor; [eapply out_agrees_matches; exact Ho|exact F]|exact A2].
Qed.

Ltac lg_next := intros ?s ?o ?w E; vm_compute in E; injection E as <- <- <-.
Ltac lg_room := let rc := fresh "rc" in let n := fresh "n" in let H := fresh "H" in
  intros rc n H; vm_compute in H; first [discriminate H | injection H as <- <-; vm_compute; reflexivity].
Ltac lg_h H := vm_compute in H; first [discriminate H | injection H as <-].
Ltac lg_ctor := split; [exact I|lg_next].
(* push / add_chunk: both operands held, distinct, room in the count, node shape *)
Ltac lg_push :=
  split;
  [ let p := fresh "p" in let q := fresh "q" in let Hp := fresh "Hp" in let Hq := fresh "Hq" in
    intros p q Hp Hq; lg_h Hp; lg_h Hq;
    split; [vm_compute; reflexivity|]; split; [vm_compute; reflexivity|]; split; [discriminate|];
    split; [lg_room|]; vm_compute; repeat eexists
  | lg_next ].
Ltac lg_get :=
  split;
  [ let p := fresh "p" in let Hp := fresh "Hp" in let e := fresh "e" in let He := fresh "He" in
    intros p Hp; lg_h Hp; split; [vm_compute; reflexivity|];
    do 5 eexists; split; [vm_compute; reflexivity|];
    intros e He; vm_compute in He; first [discriminate He | injection He as <-; lg_room]
  | lg_next ].
Ltac lg_set :=
  split;
  [ let p := fresh "p" in let q := fresh "q" in let Hp := fresh "Hp" in let Hq := fresh "Hq" in
    let e := fresh "e" in let He := fresh "He" in
    intros p q Hp Hq; lg_h Hp; lg_h Hq;
    split; [vm_compute; reflexivity|]; split; [vm_compute; reflexivity|]; split; [discriminate|];
    split; [lg_room|]; do 5 eexists; split; [vm_compute; reflexivity|];
    intros e He; vm_compute in He; first [discriminate He | injection He as <-; discriminate]
  | lg_next ].
(* an operand handle is NULL: nothing is required, the call is not made *)
Ltac lg_skip2 :=
  split;
  [ let p := fresh "p" in let q := fresh "q" in let Hp := fresh "Hp" in let Hq := fresh "Hq" in
    intros p q Hp Hq; vm_compute in Hq; discriminate Hq
  | lg_next ].
Ltac lg_decref :=
  split;
  [ let p := fresh "p" in let Hp := fresh "Hp" in intros p Hp; lg_h Hp; vm_compute; reflexivity
  | lg_next ].

(* A definite array of capacity 2.  Prefix: create it, push the integer 7 and give the client's
   reference to 7 back (the array now holds the only one).  Then, on handle 0 (item 1):
   push 9 (accepted), push 11 (refused: full), get 5 (NULL), get 1 (the 9), set 2 (= push at the end:
   refused), set 7 (beyond: refused), replace 0 by 11 (accepted; releases the 7), set 1 (= replace:
   accepted), replace 9 (refused), push of a handle that does not exist (not made), get 0 (the 11) *)
Definition exA_pre : list op := [ONewDefArray 2; OBuildInt false I8 7; OPush 0 1; ODecref 1]%nat.
Definition exA_ops : list op :=
  [OBuildInt false I8 9; OPush 0 2; OBuildInt false I8 11; OPush 0 3; OGet 0 5; OGet 0 1;
   OSet 0 2 3; OSet 0 7 3; OReplace 0 0 3; OSet 0 1 3; OReplace 0 9 3; OPush 0 9; OGet 0 0]%nat.

Example exA_legal : legal_history never 8 (exA_pre ++ exA_ops) s0 own0 world0.
Proof.
  unfold exA_pre, exA_ops. cbn [app].
  lg_ctor. lg_ctor. lg_push. lg_decref.
  lg_ctor. lg_push. lg_ctor. lg_push. lg_get. lg_get.
  lg_set. lg_set. lg_set. lg_set. lg_set. lg_skip2. lg_get.
  exact I.
Qed.

(* the theorem applies: its hypotheses hold of this history *)
Example exA_sequence :
  exists s outs w,
    run_hist never 8 exA_pre s0 [] world0 = Ret (s, outs) w /\
    arr_at w 1 (mkalist false 2 [3]) /\
    seq_ok never 8 1 exA_ops s w (mkalist false 2 [3]).
Proof.
  do 3 eexists. split; [vm_compute; reflexivity|].
  split.
  - exists 1, (Some 2). split; [vm_compute; reflexivity|vm_compute; discriminate].
  - eapply (C12_array_sequence_from_empty never 8 0%nat 1 exA_pre exA_ops).
    + exact exA_legal.
    + vm_compute. reflexivity.
    + vm_compute. reflexivity.
    + vm_compute. reflexivity.
    + exists 1, (Some 2). split; [vm_compute; reflexivity|vm_compute; discriminate].
    + unfold exA_ops. repeat (constructor; [cbn [arr_lang]; auto|]). constructor.
Qed.

(* ... and the documented observations of this history, next to the concrete ones: the third push is
   refused by the capacity, get 5 is NULL, replace 0 releases the integer 7 (item 3) *)
Example exA_outs :
  match run_hist never 8 exA_pre s0 [] world0 with
  | Ret (s, _) w =>
      aouts never 8 exA_ops s w (mkalist false 2 [3]) =
        ([AONew; AOBool true; AONew; AOBool false; AOGet None; AOGet (Some 4); AOBool false; AOBool false;
          AOBool true; AOBool true; AOBool false; AOSkip; AOGet (Some 5)], mkalist false 2 [5; 5]) /\
      match run_hist never 8 exA_ops s [] w with
      | Ret (s', outs) w' =>
          outs = [OutHandle true; OutBool true; OutHandle true; OutBool false; OutHandle false; OutHandle true;
                  OutBool false; OutBool false; OutBool true; OutBool true; OutBool false; OutSkip; OutHandle true] /\
          handles s' = [Some 1; Some 3; Some 4; Some 5; None; Some 4; Some 5] /\
          heap w' 1 = Some (CItem 1 (NArr false (Some 2) 2 [5; 5])) /\ heap w' 3 = None
      | Fault _ => False
      end
  | Fault _ => False
  end.
Proof. vm_compute. repeat split. Qed.

(* An indefinite array and an allocator that refuses the request number 3 (the second growth).
   push (0 -> 1 slot, granted), push (1 -> 2 refused: false, nothing changes), push (1 -> 2 granted),
   push (2 -> 4), set 3 (= push, room), get 2, replace 1, set 9 (beyond) *)
Definition exB_refuse : N -> N -> bool := fun i _ => i =? 3.
Definition exB_pre : list op := [ONewIndefArray; OBuildInt false I8 7]%nat.
Definition exB_ops : list op :=
  [OPush 0 1; OPush 0 1; OPush 0 1; OPush 0 1; OSet 0 3 1; OGet 0 2; OReplace 0 1 1; OSet 0 9 1]%nat.

Example exB_legal : legal_history exB_refuse 8 (exB_pre ++ exB_ops) s0 own0 world0.
Proof.
  unfold exB_pre, exB_ops. cbn [app].
  lg_ctor. lg_ctor. lg_push. lg_push. lg_push. lg_push. lg_set. lg_get. lg_set. lg_set.
  exact I.
Qed.

Example exB_sequence :
  exists s outs w,
    run_hist exB_refuse 8 exB_pre s0 [] world0 = Ret (s, outs) w /\
    arr_at w 1 (mkalist true 0 []) /\
    seq_ok exB_refuse 8 1 exB_ops s w (mkalist true 0 []).
Proof.
  do 3 eexists. split; [vm_compute; reflexivity|]. split.
  - exists 1, None. split; [vm_compute; reflexivity|vm_compute; discriminate].
  - eapply (C12_array_sequence_from_empty exB_refuse 8 0%nat 1 exB_pre exB_ops).
    + exact exB_legal.
    + vm_compute. reflexivity.
    + vm_compute. reflexivity.
    + vm_compute. reflexivity.
    + exists 1, None. split; [vm_compute; reflexivity|vm_compute; discriminate].
    + unfold exB_ops. repeat (constructor; [cbn [arr_lang]; auto|]). constructor.
Qed.

Example exB_outs :
  match run_hist exB_refuse 8 exB_pre s0 [] world0 with
  | Ret (s, _) w =>
      aouts exB_refuse 8 exB_ops s w (mkalist true 0 []) =
        ([AOBool true; AOBool false; AOBool true; AOBool true; AOBool true; AOGet (Some 2); AOBool true;
          AOBool false], mkalist true 4 [2; 2; 2; 2]) /\
      match run_hist exB_refuse 8 exB_ops s [] w with
      | Ret (s', outs) w' =>
          outs = [OutBool true; OutBool false; OutBool true; OutBool true; OutBool true; OutHandle true;
                  OutBool true; OutBool false] /\
          heap w' 1 = Some (CItem 1 (NArr true (Some 5) 4 [2; 2; 2; 2]))
      | Fault _ => False
      end
  | Fault _ => False
  end.
Proof. vm_compute. repeat split. Qed.

(* ------------------------------------------------------------------------------------------ *)
(* 6. maps                                                                                     *)
(* ------------------------------------------------------------------------------------------ *)

(* the node at [p] is the abstract map [m]: every stored pair has its value *)
Definition stored (kv : addr * addr) : addr * option addr := (fst kv, Some (snd kv)).
Definition map_at (w : world) (p : addr) (m : amap) : Prop :=
  exists rc d, heap w p = Some (CItem rc (NMap (m_indef m) d (m_cap m) (map stored (m_pairs m)))) /\
               len (m_pairs m) <= m_cap m.

Lemma len_map_stored l : len (map stored l) = len l.
Proof. unfold len. rewrite map_length. reflexivity. Qed.

Section MapInv.
Variable refuse : N -> N -> bool.

(* _cbor_map_add_key: like a push of (key, no value yet) *)
Lemma add_key_inv p k w indef d c ps rc b w' :
  wf w -> (indef = true -> c < 2 ^ 64) ->
  heap w p = Some (CItem rc (NMap indef d c ps)) ->
  map_add_key refuse p k w = Ret b w' ->
  let ok := (len ps <? c) || (indef && granted refuse SZ_PAIR w c) in
  b = ok /\
  if ok
  then exists rc' d', heap w' p =
         Some (CItem rc' (NMap indef d' (if len ps <? c then c else N.max 1 (2 * c)) (ps ++ [(k, None)])))
  else heap w' = heap w.
Proof.
  intros Hwf Hc64 E H. cbv zeta.
  unfold map_add_key in H. apply bind_inv in H. destruct H as ([rc0 n0] & w1 & E1 & H).
  apply rd_inv in E1. cbn [fst snd] in *. destruct E1 as (E1 & H1 & N1 & R1).
  rewrite E in E1. injection E1 as <- <-.
  destruct indef.
  - specialize (Hc64 eq_refl).
    apply bind_inv in H. destruct H as (st & w2 & E2 & H).
    destruct (N.leb_spec c (len ps)) as [Full|Room].
    + destruct (N.ltb_spec (len ps) c) as [?|_]; [lia|]. cbn [andb orb].
      apply bind_inv in E2. destruct E2 as (g & w3 & E3 & E2).
      apply grow_inv in E3; [|unfold SZ_PAIR; lia|exact Hc64].
      rewrite (granted_nreq _ _ _ _ _ R1) in E3.
      destruct g as [[c' d']|].
      * destruct E3 as (G & -> & -> & _ & Hold). rewrite G.
        apply ret_inv in E2. destruct E2 as [-> ->].
        apply tail_inv in H. destruct H as (-> & rc' & E'). split; [reflexivity|].
        exists rc', (Some (next w1)). exact E'.
      * destruct E3 as (G & H3). rewrite G.
        apply ret_inv in E2. destruct E2 as [-> ->]. apply ret_inv in H. destruct H as [-> ->].
        split; [reflexivity|]. rewrite H3, H1. reflexivity.
    + destruct (N.ltb_spec (len ps) c) as [_|?]; [|lia]. cbn [orb].
      apply ret_inv in E2. destruct E2 as [-> ->].
      apply tail_inv in H. destruct H as (-> & rc' & E'). split; [reflexivity|].
      exists rc', d. exact E'.
  - cbn [andb]. rewrite Bool.orb_false_r.
    destruct (N.leb_spec c (len ps)) as [Full|Room].
    + destruct (N.ltb_spec (len ps) c) as [?|_]; [lia|].
      apply ret_inv in H. destruct H as [-> ->]. split; [reflexivity|exact H1].
    + destruct (N.ltb_spec (len ps) c) as [_|?]; [|lia].
      apply tail_inv in H. destruct H as (-> & rc' & E'). split; [reflexivity|].
      exists rc', d. exact E'.
Qed.

(* _cbor_map_add_value: fills the value of the last pair *)
Lemma add_value_inv p v w indef d c ps k o rc b w' :
  heap w p = Some (CItem rc (NMap indef d c (ps ++ [(k, o)]))) ->
  map_add_value p v w = Ret b w' ->
  b = true /\ exists rc', heap w' p = Some (CItem rc' (NMap indef d c (ps ++ [(k, Some v)]))).
Proof.
  intros E H. unfold map_add_value in H.
  apply bind_inv in H. destruct H as (u1 & w1 & E1 & H).
  destruct (incref_kept _ _ _ _ p E1 _ _ E) as (rc1 & Ep1).
  apply bind_inv in H. destruct H as ([rc0 n0] & w2 & E2 & H).
  apply rd_inv in E2. cbn [fst snd] in *. destruct E2 as (E2 & H2 & _).
  rewrite Ep1 in E2. injection E2 as <- <-.
  rewrite rev_app_distr in H. cbn [rev app] in H.
  apply bind_inv in H. destruct H as (u3 & w3 & E3 & H).
  apply bind_inv in H. destruct H as (u4 & w4 & E4 & H). apply ret_inv in H. destruct H as [-> ->].
  split; [reflexivity|]. apply wr_inv in E4. destruct E4 as (Ea & _). rewrite rev_involutive in Ea.
  exists rc1. exact Ea.
Qed.

Lemma map_add_inv p k v w m b w' :
  wf w -> caps w -> map_at w p m -> map_add refuse p k v w = Ret b w' ->
  b = fst (amadd (granted refuse SZ_PAIR w (m_cap m)) m k v) /\
  map_at w' p (snd (amadd (granted refuse SZ_PAIR w (m_cap m)) m k v)).
Proof.
  intros Hwf Hc (rc & d & E & B) H. destruct m as [indef c ps]. cbn [m_indef m_cap m_pairs] in *.
  pose proof (Hc _ _ _ E) as Hok. cbn [node_ok] in Hok.
  unfold map_add in H. apply bind_inv in H. destruct H as (ok & w1 & E1 & H).
  apply (add_key_inv p k w indef d c (map stored ps) rc ok w1 Hwf) in E1; [|intros ->; apply Hok|exact E].
  cbv zeta in E1. rewrite len_map_stored in E1. destruct E1 as (Eok & E1).
  unfold amadd. cbn [m_indef m_cap m_pairs].
  destruct (N.ltb_spec (len ps) c) as [Room|Full]; cbn [orb] in *.
  - subst ok. cbv beta iota in H. destruct E1 as (rc' & d' & E1).
    apply (add_value_inv p v w1 indef d' c (map stored ps) k None rc' b w') in H; [|exact E1].
    destruct H as (-> & rc2 & E2). cbn [fst snd]. split; [reflexivity|].
    exists rc2, d'. cbn [m_indef m_cap m_pairs]. rewrite map_app. cbn [map stored fst snd].
    split; [exact E2|]. rewrite len_snoc. lia.
  - destruct (indef && granted refuse SZ_PAIR w c) eqn:G; subst ok.
    + cbv beta iota in H. destruct E1 as (rc' & d' & E1).
      apply (add_value_inv p v w1 indef d' (N.max 1 (2 * c)) (map stored ps) k None rc' b w') in H; [|exact E1].
      destruct H as (-> & rc2 & E2). cbn [fst snd]. split; [reflexivity|].
      exists rc2, d'. cbn [m_indef m_cap m_pairs]. rewrite map_app. cbn [map stored fst snd].
      split; [exact E2|]. rewrite len_snoc. lia.
    + cbv beta iota in H. apply ret_inv in H. destruct H as [-> ->]. cbn [fst snd]. split; [reflexivity|].
      exists rc, d. cbn [m_indef m_cap m_pairs]. rewrite E1. auto.
Qed.

End MapInv.

(* the sub-language: the ten plain constructors and cbor_map_add on the handle [h] with arbitrary
   key and value handles (the same handle twice is allowed) *)
Definition map_lang (h : nat) (o : op) : Prop :=
  match o with
  | OBuildInt _ _ _ | OBuildFloat _ _ | OBuildCtrl _ | OBuildString _ _ | ONewIndefString _
  | ONewDefArray _ | ONewIndefArray | ONewDefMap _ | ONewIndefMap | ONewTag _ => True
  | OMapAdd a _ _ => a = h
  | _ => False
  end.

Section MapSequence.
Variable refuse : N -> N -> bool.
Variable L : N.
Variable h : nat.
Variable p : addr.

Definition mstep (s : cstate) (w : world) (o : op) (m : amap) : aout * amap :=
  let g := granted refuse SZ_PAIR w (m_cap m) in
  match o with
  | OMapAdd _ k v =>
      match hget s k, hget s v with
      | Some q, Some r => (AOBool (fst (amadd g m q r)), snd (amadd g m q r))
      | _, _ => (AOSkip, m)
      end
  | _ => (AONew, m)
  end.

Fixpoint mseq_ok (ops : list op) (s : cstate) (w : world) (m : amap) : Prop :=
  match ops with
  | [] => True
  | o :: r =>
      exists s' out w',
        step refuse L s o w = Ret (s', out) w' /\
        out_agrees (fst (mstep s w o m)) s' out /\
        map_at w' p (snd (mstep s w o m)) /\
        mseq_ok r s' w' (snd (mstep s w o m))
  end.

Lemma map_lang_own s o own s' x : map_lang h o -> own x <= own_after s o own s' x.
Proof.
  destruct o; cbn [map_lang own_after]; intros H; try contradiction; try lia;
    destruct (new_handle s'); unfold own1; lia.
Qed.

Lemma map_lang_cases o : map_lang h o ->
  (exists m, ctor_of refuse o = Some m) \/ (exists k v, o = OMapAdd h k v).
Proof.
  destruct o; cbn [map_lang]; intros H; try contradiction; try (left; eexists; reflexivity); subst; eauto.
Qed.

Lemma map_step s w o m s' out w' :
  wf w -> caps w -> hget s h = Some p -> map_at w p m -> map_lang h o ->
  step refuse L s o w = Ret (s', out) w' ->
  out_agrees (fst (mstep s w o m)) s' out /\ map_at w' p (snd (mstep s w o m)) /\ hget s' h = Some p.
Proof.
  intros Hwf Hc Hh A Lo H.
  destruct (map_lang_cases o Lo) as [(m0 & Hm)|(k & v & ->)].
  - destruct (step_ctor_inv refuse L s o m0 w s' out w' Hm Hwf H) as ((r & ->) & -> & Hold).
    assert (mstep s w o m = (AONew, m)) as -> by (destruct o; try discriminate Hm; reflexivity).
    cbn [fst snd out_agrees]. split; [reflexivity|]. split; [|apply hget_hpush; exact Hh].
    destruct A as (rc & d & E & B). exists rc, d. split; [apply Hold; exact E|exact B].
  - cbn [step mstep] in *. unfold with2 in H. rewrite Hh in H.
    destruct (hget s v) as [r|]; destruct (hget s k) as [q|].
    + apply bind_inv in H. destruct H as (b & w1 & E & H). apply ret_inv in H. destruct H as [H ->].
      injection H as -> ->. cbn [fst snd out_agrees].
      destruct (map_add_inv refuse p q r w m b w1 Hwf Hc A E) as (-> & A'). auto.
    + apply ret_inv in H. destruct H as [H ->]. injection H as -> ->. cbn [fst snd out_agrees]. auto.
    + apply ret_inv in H. destruct H as [H ->]. injection H as -> ->. cbn [fst snd out_agrees]. auto.
    + apply ret_inv in H. destruct H as [H ->]. injection H as -> ->. cbn [fst snd out_agrees]. auto.
Qed.

(* C12 over histories, maps *)
Theorem C12_map_sequence : forall ops s own ownd w m,
  Inv own ownd [] w -> caps w -> hget s h = Some p -> 0 < own p -> map_at w p m ->
  Forall (map_lang h) ops -> legal_history refuse L ops s own w -> mseq_ok ops s w m.
Proof.
  induction ops as [|o r IH]; intros s own ownd w m I0 Hc Hh Op A F LH; [exact I|].
  cbn [mseq_ok]. cbn [legal_history] in LH. destruct LH as (Lo & LH).
  inversion F as [|o' r' Fo Fr]; subst o' r'.
  pose proof (Inv_wf _ _ _ _ I0) as Hwf.
  destruct (C04_step refuse L s own ownd w o I0 Hwf Hc Lo) as (s' & out & w' & E & I' & Hwf' & Hc').
  destruct (map_step s w o m s' out w' Hwf Hc Hh A Fo E) as (Ho & A' & Hh').
  exists s', out, w'. split; [exact E|]. split; [exact Ho|]. split; [exact A'|].
  eapply IH; [exact I'|exact Hc'|exact Hh'| |exact A'|exact Fr|exact (LH _ _ _ E)].
  pose proof (map_lang_own s o own s' p Fo). lia.
Qed.

End MapSequence.

Corollary C12_map_sequence_from_empty refuse L h p pre ops s outs w m :
  legal_history refuse L (pre ++ ops) s0 own0 world0 ->
  run_hist refuse L pre s0 [] world0 = Ret (s, outs) w ->
  hget s h = Some p -> 0 < own_hist refuse L pre s0 own0 world0 p -> map_at w p m ->
  Forall (map_lang h) ops -> mseq_ok refuse L p ops s w m.
Proof.
  intros LH R Hh Op A F.
  destruct (legal_history_app refuse L pre ops s0 own0 world0 LH s outs w [] R) as (L1 & L2).
  destruct (C04_history_gen refuse L pre s0 own0 own0 world0 [] Inv_world0 caps_world0 L1)
    as (s1 & outs1 & w1 & R1 & I1 & C1).
  rewrite R in R1. injection R1 as <- <- <-.
  eapply (C12_map_sequence refuse L h p); eassumption.
Qed.

(* ---- maps: non-vacuity ---- *)

Fixpoint mouts (refuse : N -> N -> bool) (L : N) (ops : list op) (s : cstate) (w : world) (m : amap)
    : list aout * amap :=
  match ops with
  | [] => ([], m)
  | o :: r =>
      match step refuse L s o w with
      | Ret (s', _) w' =>
          let r' := mouts refuse L r s' w' (snd (mstep refuse s w o m)) in
          (fst (mstep refuse s w o m) :: fst r', snd r')
      | Fault _ => ([], m)
      end
  end.

Theorem mseq_ok_run refuse L p : forall ops s w l acc,
  map_at w p l -> mseq_ok refuse L p ops s w l ->
  exists s' outs w',
    run_hist refuse L ops s acc w = Ret (s', rev acc ++ outs) w' /\
    Forall2 out_matches (fst (mouts refuse L ops s w l)) outs /\
    map_at w' p (snd (mouts refuse L ops s w l)).
Proof.
  induction ops as [|o r IH]; intros s w l acc A H.
  - exists s, [], w. cbn [run_hist mouts fst snd]. rewrite app_nil_r. split; [reflexivity|]. split; [constructor|exact A].
  - cbn [mseq_ok] in H. destruct H as (s' & out & w' & E & Ho & A' & H).
    destruct (IH s' w' _ (out :: acc) A' H) as (s2 & outs & w2 & R & F & A2).
    exists s2, (out :: outs), w2. cbn [run_hist mouts]. unfold bind. rewrite E. cbn [fst snd].
    split; [rewrite R; cbn [rev]; rewrite <- app_assoc; reflexivity|].
    split; [constructor; [eapply out_agrees_matches; exact Ho|exact F]|exact A2].
Qed.

Ltac lg_madd :=
  split;
  [ let p := fresh "p" in let q := fresh "q" in let r := fresh "r" in
    let Hp := fresh "Hp" in let Hq := fresh "Hq" in let Hr := fresh "Hr" in let Heq := fresh "Heq" in
    intros p q r Hp Hq Hr; lg_h Hp; lg_h Hq; lg_h Hr;
    split; [vm_compute; reflexivity|]; split; [vm_compute; reflexivity|]; split; [vm_compute; reflexivity|];
    split; [discriminate|]; split; [discriminate|]; split; [lg_room|]; split; [lg_room|];
    split; [first [intros Heq; discriminate Heq | intros _; lg_room]|]; vm_compute; repeat eexists
  | lg_next ].
Ltac lg_skip3 :=
  split;
  [ let p := fresh "p" in let q := fresh "q" in let r := fresh "r" in
    let Hp := fresh "Hp" in let Hq := fresh "Hq" in let Hr := fresh "Hr" in
    intros p q r Hp Hq Hr;
    first [vm_compute in Hq; discriminate Hq | vm_compute in Hr; discriminate Hr]
  | lg_next ].

(* A definite map of capacity 2: add (1 -> 2), build a string, add it as its own key and value
   (accepted: the map takes two references to it), add again (refused: full), add with a handle that
   does not exist (not made) *)
Definition exM_pre : list op := [ONewDefMap 2; OBuildInt false I8 1; OBuildInt false I8 2]%nat.
Definition exM_ops : list op :=
  [OMapAdd 0 1 2; OBuildString true [104%N; 105%N]; OMapAdd 0 3 3; OMapAdd 0 2 1; OMapAdd 0 1 7]%nat.

Example exM_legal : legal_history never 8 (exM_pre ++ exM_ops) s0 own0 world0.
Proof.
  unfold exM_pre, exM_ops. cbn [app].
  lg_ctor. lg_ctor. lg_ctor. lg_madd. lg_ctor. lg_madd. lg_madd. lg_skip3.
  exact I.
Qed.

Example exM_sequence :
  exists s outs w,
    run_hist never 8 exM_pre s0 [] world0 = Ret (s, outs) w /\
    map_at w 1 (mkamap false 2 []) /\
    mseq_ok never 8 1 exM_ops s w (mkamap false 2 []).
Proof.
  do 3 eexists. split; [vm_compute; reflexivity|]. split.
  - exists 1, (Some 2). split; [vm_compute; reflexivity|vm_compute; discriminate].
  - eapply (C12_map_sequence_from_empty never 8 0%nat 1 exM_pre exM_ops).
    + exact exM_legal.
    + vm_compute. reflexivity.
    + vm_compute. reflexivity.
    + vm_compute. reflexivity.
    + exists 1, (Some 2). split; [vm_compute; reflexivity|vm_compute; discriminate].
    + unfold exM_ops. repeat (constructor; [cbn [map_lang]; auto|]). constructor.
Qed.

Example exM_outs :
  match run_hist never 8 exM_pre s0 [] world0 with
  | Ret (s, _) w =>
      mouts never 8 exM_ops s w (mkamap false 2 []) =
        ([AOBool true; AONew; AOBool true; AOBool false; AOSkip], mkamap false 2 [(3, 4); (5, 5)]) /\
      match run_hist never 8 exM_ops s [] w with
      | Ret (s', outs) w' =>
          outs = [OutBool true; OutHandle true; OutBool true; OutBool false; OutSkip] /\
          heap w' 1 = Some (CItem 1 (NMap false (Some 2) 2 [(3, Some 4); (5, Some 5)])) /\
          heap w' 5 = Some (CItem 3 (NStr true (Some 6) [104; 105]))
      | Fault _ => False
      end
  | Fault _ => False
  end.
Proof. vm_compute. repeat split. Qed.

(* An indefinite map and an allocator that refuses the request number 3 (the second growth): the
   second add returns false and changes nothing, the third is accepted *)
Definition exN_pre : list op := [ONewIndefMap; OBuildInt false I8 7]%nat.
Definition exN_ops : list op := [OMapAdd 0 1 1; OMapAdd 0 1 1; OMapAdd 0 1 1; OMapAdd 0 1 1]%nat.

Example exN_legal : legal_history exB_refuse 8 (exN_pre ++ exN_ops) s0 own0 world0.
Proof.
  unfold exN_pre, exN_ops. cbn [app].
  lg_ctor. lg_ctor. lg_madd. lg_madd. lg_madd. lg_madd.
  exact I.
Qed.

Example exN_sequence :
  exists s outs w,
    run_hist exB_refuse 8 exN_pre s0 [] world0 = Ret (s, outs) w /\
    mseq_ok exB_refuse 8 1 exN_ops s w (mkamap true 0 []).
Proof.
  do 3 eexists. split; [vm_compute; reflexivity|].
  eapply (C12_map_sequence_from_empty exB_refuse 8 0%nat 1 exN_pre exN_ops).
  - exact exN_legal.
  - vm_compute. reflexivity.
  - vm_compute. reflexivity.
  - vm_compute. reflexivity.
  - exists 1, None. split; [vm_compute; reflexivity|vm_compute; discriminate].
  - unfold exN_ops. repeat (constructor; [cbn [map_lang]; auto|]). constructor.
Qed.

Example exN_outs :
  match run_hist exB_refuse 8 exN_pre s0 [] world0 with
  | Ret (s, _) w =>
      mouts exB_refuse 8 exN_ops s w (mkamap true 0 []) =
        ([AOBool true; AOBool false; AOBool true; AOBool true], mkamap true 4 [(2, 2); (2, 2); (2, 2)]) /\
      match run_hist exB_refuse 8 exN_ops s [] w with
      | Ret (s', outs) w' =>
          outs = [OutBool true; OutBool false; OutBool true; OutBool true] /\
          heap w' 1 = Some (CItem 1 (NMap true (Some 5) 4 [(2, Some 2); (2, Some 2); (2, Some 2)]))
      | Fault _ => False
      end
  | Fault _ => False
  end.
Proof. vm_compute. repeat split. Qed.

(* ------------------------------------------------------------------------------------------ *)
(* 7. indefinite strings: the chunk list                                                       *)
(* ------------------------------------------------------------------------------------------ *)

Definition chunks_at (w : world) (p : addr) (c : achunks) : Prop :=
  exists rc text hdr d, heap w p = Some (CItem rc (NChunked text hdr d (c_cap c) (c_chunks c))) /\
                        len (c_chunks c) <= c_cap c.

(* the assertions of cbor_bytestring_add_chunk on the chunk read it without changing anything *)
Lemma chunk_assert_inv text q w u w' : chunk_assert text q w = Ret u w' ->
  heap w' = heap w /\ next w' = next w /\ nreq w' = nreq w.
Proof.
  unfold chunk_assert. destruct text.
  - intros H. apply ret_inv in H. destruct H as [_ ->]. auto.
  - intros H. apply bind_inv in H. destruct H as (c & w1 & E1 & H). apply rd_inv in E1. destruct E1 as (_ & H1 & N1 & R1).
    destruct (snd c) as [| | |[|] ? ?|[|] ? ? ? ?| | |]; try discriminate H.
    apply ret_inv in H. destruct H as [_ ->]. auto.
Qed.

Section ChunkInv.
Variable refuse : N -> N -> bool.

Lemma add_chunk_inv p q w c b w' :
  wf w -> caps w -> chunks_at w p c -> add_chunk refuse p q w = Ret b w' ->
  b = fst (acadd (granted refuse SZ_PTR w (c_cap c)) c q) /\
  chunks_at w' p (snd (acadd (granted refuse SZ_PTR w (c_cap c)) c q)).
Proof.
  intros Hwf Hc (rc & text & hdr & d & E & B) H. destruct c as [cap cs]. cbn [c_cap c_chunks] in *.
  pose proof (Hc _ _ _ E) as Hok. cbn [node_ok] in Hok. destruct Hok as (_ & Hc64 & _).
  unfold add_chunk in H. apply bind_inv in H. destruct H as ([rc0 n0] & w1 & E1 & H).
  apply rd_inv in E1. cbn [fst snd] in *. destruct E1 as (E1 & H1 & N1 & R1).
  rewrite E in E1. injection E1 as <- <-.
  apply bind_inv in H. destruct H as (u0 & w0 & E0 & H).
  apply chunk_assert_inv in E0. destruct E0 as (H0 & N0 & R0).
  apply bind_inv in H. destruct H as (u2 & w2 & E2 & H).
  apply touch_any_inv in E2. destruct E2 as (H2 & N2 & R2).
  rewrite H0 in H2. rewrite N0 in N2. rewrite R0 in R2.
  apply bind_inv in H. destruct H as (st & w3 & E3 & H).
  unfold acadd. cbn [c_cap c_chunks].
  assert (Tail : forall arr' cap' w4,
    (incref q ;;; touch_data true arr' ;;; touch_data true (Some hdr) ;;;
     wr_item p rc (NChunked text hdr arr' cap' (cs ++ [q])) ;;; ret true) w4 = Ret b w' ->
    b = true /\ heap w' p = Some (CItem rc (NChunked text hdr arr' cap' (cs ++ [q])))).
  { intros arr' cap' w4 T.
    apply bind_inv in T. destruct T as (v1 & x1 & _ & T).
    apply bind_inv in T. destruct T as (v2 & x2 & _ & T).
    apply bind_inv in T. destruct T as (v3 & x3 & _ & T).
    apply bind_inv in T. destruct T as (v4 & x4 & T4 & T). apply ret_inv in T. destruct T as [-> ->].
    split; [reflexivity|]. apply wr_inv in T4. apply T4. }
  destruct (N.eqb_spec (len cs) cap) as [Full|Room].
  - destruct (N.ltb_spec (len cs) cap) as [?|_]; [lia|].
    apply bind_inv in E3. destruct E3 as (g & w4 & E4 & E3).
    apply grow_inv in E4; [|unfold SZ_PTR; lia|exact Hc64].
    rewrite (granted_nreq refuse SZ_PTR w w2 cap) in E4 by congruence.
    destruct g as [[c' d']|].
    + destruct E4 as (G & -> & -> & _ & Hold). rewrite G.
      apply bind_inv in E3. destruct E3 as (u5 & w5 & E5 & E3).
      apply ret_inv in E3. destruct E3 as [-> ->].
      apply Tail in H. destruct H as (-> & E'). cbn [fst snd]. split; [reflexivity|].
      exists rc, text, hdr, (Some (next w2)). cbn [c_cap c_chunks]. split; [exact E'|].
      rewrite len_snoc. lia.
    + destruct E4 as (G & H4). rewrite G.
      apply ret_inv in E3. destruct E3 as [-> ->]. apply ret_inv in H. destruct H as [-> ->].
      cbn [fst snd]. split; [reflexivity|].
      exists rc, text, hdr, d. cbn [c_cap c_chunks]. rewrite H4, H2, H1. auto.
  - destruct (N.ltb_spec (len cs) cap) as [_|?]; [|lia].
    apply ret_inv in E3. destruct E3 as [-> ->].
    apply Tail in H. destruct H as (-> & E'). cbn [fst snd]. split; [reflexivity|].
    exists rc, text, hdr, d. cbn [c_cap c_chunks]. split; [exact E'|]. rewrite len_snoc. lia.
Qed.

End ChunkInv.

(* the sub-language: the ten plain constructors and cbor_(byte)string_add_chunk on the handle [h] *)
Definition chunk_lang (h : nat) (o : op) : Prop :=
  match o with
  | OBuildInt _ _ _ | OBuildFloat _ _ | OBuildCtrl _ | OBuildString _ _ | ONewIndefString _
  | ONewDefArray _ | ONewIndefArray | ONewDefMap _ | ONewIndefMap | ONewTag _ => True
  | OAddChunk a _ => a = h
  | _ => False
  end.

Section ChunkSequence.
Variable refuse : N -> N -> bool.
Variable L : N.
Variable h : nat.
Variable p : addr.

Definition cstep (s : cstate) (w : world) (o : op) (c : achunks) : aout * achunks :=
  let g := granted refuse SZ_PTR w (c_cap c) in
  match o with
  | OAddChunk _ x =>
      match hget s x with
      | Some q => (AOBool (fst (acadd g c q)), snd (acadd g c q))
      | None => (AOSkip, c)
      end
  | _ => (AONew, c)
  end.

Fixpoint cseq_ok (ops : list op) (s : cstate) (w : world) (c : achunks) : Prop :=
  match ops with
  | [] => True
  | o :: r =>
      exists s' out w',
        step refuse L s o w = Ret (s', out) w' /\
        out_agrees (fst (cstep s w o c)) s' out /\
        chunks_at w' p (snd (cstep s w o c)) /\
        cseq_ok r s' w' (snd (cstep s w o c))
  end.

Lemma chunk_lang_own s o own s' x : chunk_lang h o -> own x <= own_after s o own s' x.
Proof.
  destruct o; cbn [chunk_lang own_after]; intros H; try contradiction; try lia;
    destruct (new_handle s'); unfold own1; lia.
Qed.

Lemma chunk_lang_cases o : chunk_lang h o ->
  (exists m, ctor_of refuse o = Some m) \/ (exists x, o = OAddChunk h x).
Proof.
  destruct o; cbn [chunk_lang]; intros H; try contradiction; try (left; eexists; reflexivity); subst; eauto.
Qed.

Lemma chunk_step s w o c s' out w' :
  wf w -> caps w -> hget s h = Some p -> chunks_at w p c -> chunk_lang h o ->
  step refuse L s o w = Ret (s', out) w' ->
  out_agrees (fst (cstep s w o c)) s' out /\ chunks_at w' p (snd (cstep s w o c)) /\ hget s' h = Some p.
Proof.
  intros Hwf Hc Hh A Lo H.
  destruct (chunk_lang_cases o Lo) as [(m0 & Hm)|(x & ->)].
  - destruct (step_ctor_inv refuse L s o m0 w s' out w' Hm Hwf H) as ((r & ->) & -> & Hold).
    assert (cstep s w o c = (AONew, c)) as -> by (destruct o; try discriminate Hm; reflexivity).
    cbn [fst snd out_agrees]. split; [reflexivity|]. split; [|apply hget_hpush; exact Hh].
    destruct A as (rc & text & hdr & d & E & B). exists rc, text, hdr, d. split; [apply Hold; exact E|exact B].
  - cbn [step cstep] in *. unfold with2 in H. rewrite Hh in H.
    destruct (hget s x) as [q|].
    + apply bind_inv in H. destruct H as (b & w1 & E & H). apply ret_inv in H. destruct H as [H ->].
      injection H as -> ->. cbn [fst snd out_agrees].
      destruct (add_chunk_inv refuse p q w c b w1 Hwf Hc A E) as (-> & A'). auto.
    + apply ret_inv in H. destruct H as [H ->]. injection H as -> ->. cbn [fst snd out_agrees]. auto.
Qed.

(* C12 over histories, chunked strings *)
Theorem C12_chunk_sequence : forall ops s own ownd w c,
  Inv own ownd [] w -> caps w -> hget s h = Some p -> 0 < own p -> chunks_at w p c ->
  Forall (chunk_lang h) ops -> legal_history refuse L ops s own w -> cseq_ok ops s w c.
Proof.
  induction ops as [|o r IH]; intros s own ownd w c I0 Hc Hh Op A F LH; [exact I|].
  cbn [cseq_ok]. cbn [legal_history] in LH. destruct LH as (Lo & LH).
  inversion F as [|o' r' Fo Fr]; subst o' r'.
  pose proof (Inv_wf _ _ _ _ I0) as Hwf.
  destruct (C04_step refuse L s own ownd w o I0 Hwf Hc Lo) as (s' & out & w' & E & I' & Hwf' & Hc').
  destruct (chunk_step s w o c s' out w' Hwf Hc Hh A Fo E) as (Ho & A' & Hh').
  exists s', out, w'. split; [exact E|]. split; [exact Ho|]. split; [exact A'|].
  eapply IH; [exact I'|exact Hc'|exact Hh'| |exact A'|exact Fr|exact (LH _ _ _ E)].
  pose proof (chunk_lang_own s o own s' p Fo). lia.
Qed.

End ChunkSequence.

Corollary C12_chunk_sequence_from_empty refuse L h p pre ops s outs w c :
  legal_history refuse L (pre ++ ops) s0 own0 world0 ->
  run_hist refuse L pre s0 [] world0 = Ret (s, outs) w ->
  hget s h = Some p -> 0 < own_hist refuse L pre s0 own0 world0 p -> chunks_at w p c ->
  Forall (chunk_lang h) ops -> cseq_ok refuse L p ops s w c.
Proof.
  intros LH R Hh Op A F.
  destruct (legal_history_app refuse L pre ops s0 own0 world0 LH s outs w [] R) as (L1 & L2).
  destruct (C04_history_gen refuse L pre s0 own0 own0 world0 [] Inv_world0 caps_world0 L1)
    as (s1 & outs1 & w1 & R1 & I1 & C1).
  rewrite R in R1. injection R1 as <- <- <-.
  eapply (C12_chunk_sequence refuse L h p); eassumption.
Qed.

(* ---- chunked strings: non-vacuity ---- *)

Fixpoint couts (refuse : N -> N -> bool) (L : N) (ops : list op) (s : cstate) (w : world) (c : achunks)
    : list aout * achunks :=
  match ops with
  | [] => ([], c)
  | o :: r =>
      match step refuse L s o w with
      | Ret (s', _) w' =>
          let r' := couts refuse L r s' w' (snd (cstep refuse s w o c)) in
          (fst (cstep refuse s w o c) :: fst r', snd r')
      | Fault _ => ([], c)
      end
  end.

Theorem cseq_ok_run refuse L p : forall ops s w l acc,
  chunks_at w p l -> cseq_ok refuse L p ops s w l ->
  exists s' outs w',
    run_hist refuse L ops s acc w = Ret (s', rev acc ++ outs) w' /\
    Forall2 out_matches (fst (couts refuse L ops s w l)) outs /\
    chunks_at w' p (snd (couts refuse L ops s w l)).
Proof.
  induction ops as [|o r IH]; intros s w l acc A H.
  - exists s, [], w. cbn [run_hist couts fst snd]. rewrite app_nil_r. split; [reflexivity|]. split; [constructor|exact A].
  - cbn [cseq_ok] in H. destruct H as (s' & out & w' & E & Ho & A' & H).
    destruct (IH s' w' _ (out :: acc) A' H) as (s2 & outs & w2 & R & F & A2).
    exists s2, (out :: outs), w2. cbn [run_hist couts]. unfold bind. rewrite E. cbn [fst snd].
    split; [rewrite R; cbn [rev]; rewrite <- app_assoc; reflexivity|].
    split; [constructor; [eapply out_agrees_matches; exact Ho|exact F]|exact A2].
Qed.

(* An indefinite text string and an allocator that refuses the request number 5 (the second growth
   of the chunk array): add "hi" (0 -> 1 slot), add "hi" again (1 -> 2 refused: false), build "!",
   add it (1 -> 2 granted), add "hi" (2 -> 4), add through a handle that does not exist (not made) *)
Definition exC_refuse : N -> N -> bool := fun i _ => i =? 5.
Definition exC_pre : list op := [ONewIndefString true; OBuildString true [104%N; 105%N]]%nat.
Definition exC_ops : list op :=
  [OAddChunk 0 1; OAddChunk 0 1; OBuildString true [33%N]; OAddChunk 0 2; OAddChunk 0 1; OAddChunk 0 5]%nat.

Example exC_legal : legal_history exC_refuse 8 (exC_pre ++ exC_ops) s0 own0 world0.
Proof.
  unfold exC_pre, exC_ops. cbn [app].
  lg_ctor. lg_ctor. lg_push. lg_push. lg_ctor. lg_push. lg_push. lg_skip2.
  exact I.
Qed.

Example exC_sequence :
  exists s outs w,
    run_hist exC_refuse 8 exC_pre s0 [] world0 = Ret (s, outs) w /\
    cseq_ok exC_refuse 8 1 exC_ops s w (mkachunks 0 []).
Proof.
  do 3 eexists. split; [vm_compute; reflexivity|].
  eapply (C12_chunk_sequence_from_empty exC_refuse 8 0%nat 1 exC_pre exC_ops).
  - exact exC_legal.
  - vm_compute. reflexivity.
  - vm_compute. reflexivity.
  - vm_compute. reflexivity.
  - exists 1, true, 2, None. split; [vm_compute; reflexivity|vm_compute; discriminate].
  - unfold exC_ops. repeat (constructor; [cbn [chunk_lang]; auto|]). constructor.
Qed.

Example exC_outs :
  match run_hist exC_refuse 8 exC_pre s0 [] world0 with
  | Ret (s, _) w =>
      couts exC_refuse 8 exC_ops s w (mkachunks 0 []) =
        ([AOBool true; AOBool false; AONew; AOBool true; AOBool true; AOSkip], mkachunks 4 [3; 6; 3]) /\
      match run_hist exC_refuse 8 exC_ops s [] w with
      | Ret (s', outs) w' =>
          outs = [OutBool true; OutBool false; OutHandle true; OutBool true; OutBool true; OutSkip] /\
          probe1 w' 1 = Some (1, Some (3, 4))
      | Fault _ => False
      end
  | Fault _ => False
  end.
Proof. vm_compute. repeat split. Qed.


(* ------------------------------------------------------------------------------------------ *)
(* 9. arrays over histories of the third layer (HHist3.step3): the calls of section 3, the       *)
(*    constructors of the third layer, and the idiom cbor_array_push(a, cbor_move(x))            *)
(* ------------------------------------------------------------------------------------------ *)

Definition arr_lang3 (h : nat) (o : op3) : Prop :=
  match o with
  | O3Old o => arr_lang h o
  | O3PushMove a _ => a = h
  | O3NewDefString _ | O3NewInt _ | O3NewFloat _ | O3NewCtrl | O3BuildBool _ | O3NewNull | O3NewUndef
  | O3BuildString0 _ => True
  | _ => False
  end.

Definition out_agrees3 (ao : aout) (s' : cstate3) (r : out3) : Prop :=
  exists o, r = Out o /\ out_agrees ao (base s') o.

Section ArraySequence3.
Variable refuse : N -> N -> bool.
Variable L : N.
Variable h : nat.
Variable p : addr.

Definition astep3 (s : cstate3) (w : world) (o : op3) (l : alist) : aout * alist :=
  match o with
  | O3Old o => astep refuse (base s) w o l
  | O3PushMove _ x =>
      let g := granted refuse SZ_PTR w (a_cap l) in
      match hget (base s) x with
      | Some q => (AOBool (fst (apush g l q)), snd (apush g l q))
      | None => (AOSkip, l)
      end
  | _ => (AONew, l)
  end.

Fixpoint seq_ok3 (ops : list op3) (s : cstate3) (w : world) (l : alist) : Prop :=
  match ops with
  | [] => True
  | o :: r =>
      exists s' out w',
        step3 refuse L s o w = Ret (s', out) w' /\
        out_agrees3 (fst (astep3 s w o l)) s' out /\
        arr_at w' p (snd (astep3 s w o l)) /\
        seq_ok3 r s' w' (snd (astep3 s w o l))
  end.

Lemma lift3_inv' s (m : M (cstate * out)) w s' r w' : lift3 s m w = Ret (s', r) w' ->
  exists sb rb, m w = Ret (sb, rb) w' /\ s' = mkcs3 sb (unset s) /\ r = Out rb.
Proof.
  unfold lift3. intros H. apply bind_inv in H. destruct H as ([sb rb] & w1 & E & H).
  apply ret_inv in H. destruct H as [H ->]. injection H as -> ->. eauto.
Qed.

(* the constructors of the third layer append a handle and report whether it is NULL *)
Lemma ctor3_out s o w s' r w' :
  match o with
  | O3NewDefString _ | O3NewInt _ | O3NewFloat _ | O3NewCtrl | O3BuildBool _ | O3NewNull | O3NewUndef
  | O3BuildString0 _ => True
  | _ => False
  end ->
  step3 refuse L s o w = Ret (s', r) w' ->
  exists x, base s' = hpush (base s) x /\ r = Out (OutHandle (match x with Some _ => true | None => false end)).
Proof.
  intros Ho E.
  assert (Newh : forall m, lift3 s (newh (base s) m) w = Ret (s', r) w' ->
            exists x, base s' = hpush (base s) x /\ r = Out (OutHandle (match x with Some _ => true | None => false end))).
  { intros m H. apply lift3_inv' in H. destruct H as (sb & rb & H & -> & ->). apply newh_inv in H.
    destruct H as (x & _ & -> & ->). exists x. auto. }
  destruct o; try contradiction; cbn [step3] in E.
  - apply (Newh _ E).
  - unfold new_int in E. apply bind_inv in E. destruct E as (x & w1 & _ & E). apply ret_inv in E. destruct E as [E _].
    injection E as -> ->. exists x. auto.
  - unfold new_float in E. apply bind_inv in E. destruct E as (x & w1 & _ & E). apply ret_inv in E. destruct E as [E _].
    injection E as -> ->. exists x. auto.
  - apply (Newh _ E).
  - apply (Newh _ E).
  - apply (Newh _ E).
  - apply (Newh _ E).
  - apply (Newh _ E).
Qed.

Lemma arr_step3 s own w o l s' out w' :
  wf w -> caps w -> hget (base s) h = Some p -> arr_at w p l -> arr_lang3 h o -> legal3 s own w o ->
  step3 refuse L s o w = Ret (s', out) w' ->
  out_agrees3 (fst (astep3 s w o l)) s' out /\ arr_at w' p (snd (astep3 s w o l)) /\ hget (base s') h = Some p.
Proof.
  intros Hwf Hc Hh A Lo Lg H.
  assert (Ctor : match o with
                 | O3NewDefString _ | O3NewInt _ | O3NewFloat _ | O3NewCtrl | O3BuildBool _ | O3NewNull | O3NewUndef
                 | O3BuildString0 _ => True
                 | _ => False
                 end ->
                 out_agrees3 (fst (astep3 s w o l)) s' out /\ arr_at w' p (snd (astep3 s w o l)) /\ hget (base s') h = Some p).
  { intros Ho. destruct (ctor3_out s o w s' out w' Ho H) as (x & Hb & ->).
    assert (astep3 s w o l = (AONew, l)) as -> by (destruct o; try contradiction; reflexivity).
    cbn [fst snd]. split; [|split].
    - exists (OutHandle (match x with Some _ => true | None => false end)). split; [reflexivity|].
      cbn [out_agrees]. rewrite Hb, new_handle_hpush. reflexivity.
    - destruct A as (rc & d & E & B). exists rc, d. split; [|exact B].
      destruct (C17_step3_frame refuse L s o w s' _ w' Hwf H) as [_ Fr]. rewrite Fr; [exact E| |].
      + destruct (N.lt_ge_cases p (next w)) as [Lt|Ge]; [exact Lt|]. rewrite (Hwf p Ge) in E. discriminate E.
      + intros (h0 & a0 & Hin & _). destruct o; try contradiction; destruct Hin.
    - rewrite Hb. apply hget_hpush. exact Hh. }
  destruct o as [o|text|h0 bytes|h0 n|iw|iw h0 v|neg h0|fw|fw h0 bits| |h0 v|h0 b|b| | |h0|a x|m k v|t x|v x|h0|bytes|k h0 n|h0|h0];
    cbn [arr_lang3] in Lo; try contradiction; try (apply Ctor; exact I).
  - (* a call of the first layer *)
    cbn [step3 astep3] in *. unfold old3 in H. destruct (forallb (is_set s) (op_reads o)); [|discriminate H].
    apply lift3_inv' in H. destruct H as (sb & rb & H & -> & ->).
    destruct (arr_step refuse L h p (base s) w o l sb rb w' Hwf Hc Hh A Lo H) as (Ho & A' & Hh').
    split; [exists rb; auto|]. split; [exact A'|exact Hh'].
  - (* cbor_array_push(a, cbor_move(x)) *)
    subst a. cbn [step3 astep3 legal3] in *. unfold push_move in H. rewrite Hh in H.
    destruct (hget (base s) x) as [q|] eqn:Hx.
    + destruct (Lg p q Hh eq_refl) as (_ & _ & _ & Hpq & _).
      destruct (is_set s x); [|discriminate H].
      apply bind_inv in H. destruct H as (u & w1 & E1 & H). apply bind_inv in H. destruct H as (b & w2 & E2 & H).
      apply ret_inv in H. destruct H as [H ->]. injection H as -> ->.
      (* the move changes the count of q only *)
      unfold move in E1. apply bind_inv in E1. destruct E1 as (c & wa & Ea & E1).
      apply bind_inv in E1. destruct E1 as (u1 & wb & Eb & E1). apply ret_inv in E1. destruct E1 as [_ ->].
      apply rd_inv in Ea. destruct Ea as (Eq & Ha & Na & Ra). apply wr_inv in Eb. destruct Eb as (Eq' & Eo & Nb & Rb).
      assert (A1 : arr_at wb p l).
      { destruct A as (rc & d & E & B). exists rc, d. split; [|exact B]. rewrite (Eo p Hpq), Ha. exact E. }
      assert (W1 : wf wb).
      { intros z Hz. rewrite Nb, Na in Hz. destruct (N.eq_dec z q) as [->|Nz].
        - rewrite (Hwf q Hz) in Eq. discriminate Eq.
        - rewrite (Eo z Nz), Ha. apply Hwf. exact Hz. }
      assert (C1 : caps wb).
      { intros z rc n Ez. destruct (N.eq_dec z q) as [->|Nz].
        - rewrite Eq' in Ez. injection Ez as _ <-. eapply Hc. exact Eq.
        - rewrite (Eo z Nz), Ha in Ez. eapply Hc. exact Ez. }
      destruct (push_inv refuse p q wb l b w2 W1 C1 A1 E2) as (-> & A').
      rewrite (granted_nreq refuse SZ_PTR w wb (a_cap l)) in * by congruence.
      split; [eexists; split; [reflexivity|reflexivity]|]. split; [exact A'|exact Hh].
    + apply ret_inv in H. destruct H as [H ->]. injection H as -> ->. cbn [fst snd].
      split; [exists OutSkip; split; reflexivity|]. split; [exact A|exact Hh].
Qed.

(* the client keeps its reference to the array *)
Lemma arr_lang3_own s w o own s' :
  hget (base s) h = Some p -> arr_lang3 h o -> legal3 s own w o -> own p <= own_after3 s o own s' p.
Proof.
  intros Hh Lo Lg.
  destruct o as [o|text|h0 bytes|h0 n|iw|iw h0 v|neg h0|fw|fw h0 bits| |h0 v|h0 b|b| | |h0|a x|m k v|t x|v x|h0|bytes|k h0 n|h0|h0];
    cbn [arr_lang3] in Lo; try contradiction; cbn [own_after3];
    try (destruct (new_handle3 s'); unfold own1; lia).
  - eapply arr_lang_own; [exact refuse|exact Lo].
  - subst a. rewrite Hh. destruct (hget (base s) x) as [q|] eqn:Hx; [|lia].
    cbn [legal3] in Lg. destruct (Lg p q Hh Hx) as (_ & _ & _ & Hpq & _).
    unfold own_dec. destruct (N.eqb_spec p q); [congruence|lia].
Qed.

(* C12 over histories of the third layer *)
Theorem C12_array_sequence3 : forall ops s own ownd w l,
  Inv own ownd [] w -> caps w -> hget (base s) h = Some p -> 0 < own p -> arr_at w p l ->
  Forall (arr_lang3 h) ops -> legal_history3 refuse L ops s own w -> seq_ok3 ops s w l.
Proof.
  induction ops as [|o r IH]; intros s own ownd w l I0 Hc Hh Op A F LH; [exact I|].
  cbn [seq_ok3]. cbn [legal_history3] in LH. destruct LH as (Lo & LH).
  inversion F as [|o' r' Fo Fr]; subst o' r'.
  pose proof (Inv_wf _ _ _ _ I0) as Hwf.
  destruct (C04_step3 refuse L s own ownd w o I0 Hwf Hc Lo) as (s' & out & w' & E & I' & Hwf' & Hc').
  destruct (arr_step3 s own w o l s' out w' Hwf Hc Hh A Fo Lo E) as (Ho & A' & Hh').
  exists s', out, w'. split; [exact E|]. split; [exact Ho|]. split; [exact A'|].
  eapply IH; [exact I'|exact Hc'|exact Hh'| |exact A'|exact Fr|exact (LH _ _ _ E)].
  pose proof (arr_lang3_own s w o own s' Hh Fo Lo). lia.
Qed.

End ArraySequence3.

(* non-vacuity: a definite array of capacity 2; the client makes an integer with cbor_new_int8 /
   cbor_set_uint8 ... here with the layer-1 builder, takes a second reference, and hands it over with
   cbor_array_push(a, cbor_move(x)) three times: accepted, accepted, refused (full - the moved
   reference is not given back) *)
Definition ex3S_pre : list op3 :=
  [O3Old (ONewDefArray 2); O3Old (OBuildInt false I8 7); O3Old (OIncref 1); O3Old (OIncref 1); O3Old (OIncref 1)]%nat.
Definition ex3S_ops : list op3 := [O3PushMove 0 1; O3BuildBool true; O3PushMove 0 1; O3PushMove 0 1; O3Old (OGet 0 1)]%nat.

Ltac lg3_next := intros ?s ?o ?w E; vm_compute in E; injection E as <- <- <-.
Ltac lg3_ctor := split; [split; [exact I|reflexivity]|lg3_next].
Ltac lg3_incref :=
  split;
  [ split; [let p := fresh "p" in let Hp := fresh "Hp" in intros p Hp; lg_h Hp; split; [vm_compute; reflexivity|lg_room]|reflexivity]
  | lg3_next ].
Ltac lg3_push_move :=
  split;
  [ let p := fresh "p" in let q := fresh "q" in let Hp := fresh "Hp" in let Hq := fresh "Hq" in
    intros p q Hp Hq; lg_h Hp; lg_h Hq;
    split; [vm_compute; reflexivity|]; split; [vm_compute; reflexivity|]; split; [vm_compute; reflexivity|];
    split; [discriminate|]; split; [vm_compute; repeat eexists|];
    do 2 eexists; split; [vm_compute; reflexivity|]; split; vm_compute; reflexivity
  | lg3_next ].

Example ex3S_legal : legal_history3 never 8 (ex3S_pre ++ ex3S_ops) s3_0 own0 world0.
Proof.
  unfold ex3S_pre, ex3S_ops. cbn [app].
  lg3_ctor. lg3_ctor. lg3_incref. lg3_incref. lg3_incref.
  lg3_push_move. split; [exact I|lg3_next]. lg3_push_move. lg3_push_move.
  split.
  { split; [|reflexivity]. intros p Hp. lg_h Hp. split; [vm_compute; reflexivity|].
    do 5 eexists. split; [vm_compute; reflexivity|].
    intros e He. vm_compute in He. injection He as <-. lg_room. }
  lg3_next. exact I.
Qed.

Lemma legal_history3_app refuse L : forall pre ops s own w,
  legal_history3 refuse L (pre ++ ops) s own w ->
  forall s' outs w' acc, run_hist3 refuse L pre s acc w = Ret (s', outs) w' ->
  legal_history3 refuse L pre s own w /\ legal_history3 refuse L ops s' (own_hist3 refuse L pre s own w) w'.
Proof.
  induction pre as [|o r IH]; intros ops s own w LH s' outs w' acc R.
  - cbn [run_hist3] in R. apply ret_inv in R. destruct R as [R ->]. injection R as -> _.
    split; [exact I|exact LH].
  - cbn [app legal_history3] in LH. destruct LH as (Lo & LH).
    cbn [run_hist3] in R. apply bind_inv in R. destruct R as ([s1 o1] & w1 & E & R). cbn [fst snd] in R.
    destruct (IH ops s1 _ w1 (LH _ _ _ E) s' outs w' _ R) as (P1 & P2).
    split.
    + cbn [legal_history3]. split; [exact Lo|]. intros s2 o2 w2 E2. rewrite E in E2. injection E2 as <- <- <-.
      exact P1.
    + cbn [own_hist3]. rewrite E. exact P2.
Qed.

(* the theorem applies to it *)
Example ex3S_sequence :
  exists s outs w,
    run_hist3 never 8 ex3S_pre s3_0 [] world0 = Ret (s, outs) w /\
    seq_ok3 never 8 1 ex3S_ops s w (mkalist false 2 []).
Proof.
  do 3 eexists. split; [vm_compute; reflexivity|].
  match goal with |- seq_ok3 _ _ _ _ ?s ?w _ =>
    assert (R : exists outs, run_hist3 never 8 ex3S_pre s3_0 [] world0 = Ret (s, outs) w) by (eexists; vm_compute; reflexivity)
  end.
  destruct R as [outs R].
  destruct (legal_history3_app never 8 ex3S_pre ex3S_ops s3_0 own0 world0 ex3S_legal _ _ _ [] R) as (L1 & L2).
  destruct (C04_history3_gen never 8 ex3S_pre s3_0 own0 own0 world0 [] Inv_world0 caps_world0 L1)
    as (s1 & outs1 & w1 & R1 & I1 & C1).
  rewrite R in R1. injection R1 as <- <- <-.
  eapply (C12_array_sequence3 never 8 0%nat 1); [exact I1|exact C1| | | | |exact L2].
  - vm_compute. reflexivity.
  - vm_compute. reflexivity.
  - exists 1, (Some 2). split; [vm_compute; reflexivity|vm_compute; discriminate].
  - unfold ex3S_ops. repeat (constructor; [cbn [arr_lang3 arr_lang]; auto|]). constructor.
Qed.

Example ex3S_outs :
  match run_hist3 never 8 (ex3S_pre ++ ex3S_ops) s3_0 [] world0 with
  | Ret (s', outs) w' =>
      skipn 5 outs = [Out (OutBool true); Out (OutHandle true); Out (OutBool true); Out (OutBool false); Out (OutHandle true)] /\
      heap w' 1 = Some (CItem 1 (NArr false (Some 2) 2 [3; 3])) /\ heap w' 3 = Some (CItem 4 (NInt false I8 7))
  | Fault _ => False
  end.
Proof. vm_compute. repeat split. Qed.


(* ------------------------------------------------------------------------------------------ *)
Print Assumptions C12_array_sequence.
Print Assumptions C12_array_sequence3.
Print Assumptions ex3S_sequence.
Print Assumptions C12_array_sequence_from_empty.
Print Assumptions seq_ok_run.
Print Assumptions C12_map_sequence.
Print Assumptions C12_map_sequence_from_empty.
Print Assumptions mseq_ok_run.
Print Assumptions C12_chunk_sequence.
Print Assumptions C12_chunk_sequence_from_empty.
Print Assumptions cseq_ok_run.
Print Assumptions exA_sequence.
Print Assumptions exB_sequence.
Print Assumptions exM_sequence.
Print Assumptions exN_sequence.
Print Assumptions exC_sequence.
