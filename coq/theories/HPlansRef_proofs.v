(* The release path of the heap model (HItems.v: [drain], [release_tasks]) follows the hand-written
   plans of HPlansRef.v: the `--refcount == 0` test, and per type the release order — children in
   storage order, then the data block(s), then the item.  Hand proofs; no generated text. *)
From CB Require Import Word Word_proofs HHeap HItems HCont_proofs GenLeafTypes HPlans HPlansRef HPlans_proofs.
From Coq Require Import Lia ZArith NArith List Bool String ZifyBool ZifyN ZifyNat.
Import ListNotations.
Local Open Scope string_scope.
Local Open Scope list_scope.
Local Open Scope N_scope.
Set Default Proof Using "Type".

(* what the events of a plan are in the model, given what the tokens stand for *)
Definition is_decref_call (f : string) : bool := String.eqb f "cbor_decref".
Definition plan_tasks (tok : ptr -> option task) (p : plan) : list task :=
  flat_map (fun r => match r with
                     | ReqFree q => match tok q with Some t => [t] | None => [] end
                     | ReqCall f [AP q] => if is_decref_call f then match tok q with Some t => [t] | None => [] end else []
                     | _ => []
                     end) (p_reqs p).
Definition releases (p : plan) : bool :=
  match p_ret p with RLoop _ => true | _ => negb (match p_reqs p with [] => true | _ => false end) end.

(* the item [a] with data block [data]; [slot k m]: the item in slot k (member m) of its block *)
Definition tokens (a : addr) (data : option addr) (chunks : option addr) (child : option addr)
    (slot : Z -> string -> option addr) (q : ptr) : option task :=
  match q with
  | PField (PArg 0) "*" => Some (TFreeItem a)
  | PField (PField (PArg 0) "*") "data" => Some (TFreeData data)
  | PField (PField (PField (PArg 0) "*") "data") "chunks" => Some (TFreeData chunks)
  | PField (PField (PArg 0) "*") "metadata.tagged_item" => option_map TDecref child
  | PSlot _ k m => option_map TDecref (slot k m)
  | _ => None
  end.

(* ---- the test: the count goes down by one (64-bit), and the item is released iff it reaches 0,
   i.e. iff it was 1 — what [drain] does at a TDecref task ---- *)
Theorem decref_test_follows_plan rc ty definite has_child :
  0 < rc < 2 ^ 64 ->
  let p := decref_plan rc ty definite has_child in
  fieldN "refcount" p = sub64 rc 1 /\ (releases p = (rc =? 1)).
Proof.
  intros Hrc p. subst p. unfold decref_plan.
  assert (Hs : sub64 rc 1 = rc - 1) by (unfold sub64; destruct (N.leb_spec 1 rc); lia).
  rewrite Hs.
  destruct (N.eqb_spec (rc - 1) 0) as [E|NE]; cbn [negb].
  - assert (E1 : (rc =? 1) = true) by (apply N.eqb_eq; lia). rewrite E1.
    destruct ((ty =? 2) || (ty =? 3))%Z; [destruct definite|];
      [| |destruct (ty =? TY_ARRAY)%Z; [|destruct (ty =? TY_MAP)%Z; [|destruct (ty =? TY_TAG)%Z; [destruct has_child|]]]];
      (split; [unfold fieldN, zN; cbn; rewrite N2Z.id; lia | reflexivity]).
  - assert (E1 : (rc =? 1) = false) by (apply N.eqb_neq; lia). rewrite E1.
    split; [unfold fieldN, zN; cbn; apply N2Z.id | reflexivity].
Qed.

(* ---- the release order, type by type ---- *)
Theorem release_scalar_follows_plan a n (definite : bool) :
  (match n with NInt _ _ _ | NFloat _ _ | NCtrl _ => True | _ => False end) ->
  forall ty, ((ty =? 2) || (ty =? 3))%Z = false -> (ty =? TY_ARRAY)%Z = false -> (ty =? TY_MAP)%Z = false -> (ty =? TY_TAG)%Z = false ->
  plan_tasks (tokens a None None None (fun _ _ => None)) (decref_plan 1 ty definite false) = release_tasks a n.
Proof.
  intros Hn ty H1 H2 H3 H4. unfold decref_plan. change (sub64 1 1 =? 0) with true. cbn [negb].
  rewrite H1, H2, H3, H4. destruct n; try contradiction; reflexivity.
Qed.

Theorem release_string_follows_plan a (text : bool) data bytes :
  plan_tasks (tokens a data None None (fun _ _ => None)) (decref_plan 1 (if text then 3 else 2)%Z true false) =
  release_tasks a (NStr text data bytes).
Proof. destruct text; reflexivity. Qed.

Theorem release_tag_follows_plan a v child :
  plan_tasks (tokens a None None child (fun _ _ => None))
             (decref_plan 1 TY_TAG true (match child with Some _ => true | None => false end)) =
  release_tasks a (NTag v child).
Proof. destruct child; reflexivity. Qed.

(* an array: round k releases element k; after the last round the slot block, then the item *)
Theorem release_array_follows_plan a indef data allocated elems :
  let tok := tokens a data None None (fun k _ => nth_error elems (Z.to_nat k)) in
  let tasks := release_tasks a (NArr indef data allocated elems) in
  (forall k, k < len elems ->
     plan_tasks tok (decref_array_round_plan (len elems) k true) = [nth (N.to_nat k) tasks (TFreeItem a)] /\
     exists e, nth_error elems (N.to_nat k) = Some e /\ nth (N.to_nat k) tasks (TFreeItem a) = TDecref e) /\
  plan_tasks tok (decref_array_round_plan (len elems) (len elems) true) = skipn (List.length elems) tasks /\
  skipn (List.length elems) tasks = [TFreeData data; TFreeItem a].
Proof.
  intros tok tasks. subst tok tasks. cbn [release_tasks]. split; [|split].
  - intros k Hk. unfold decref_array_round_plan. destruct (N.ltb_spec k (len elems)) as [_|]; [|lia].
    assert (Hk' : (N.to_nat k < List.length elems)%nat) by (unfold len in Hk; lia).
    destruct (nth_error elems (N.to_nat k)) as [e|] eqn:E; [|apply nth_error_None in E; lia].
    rewrite app_nth1 by (rewrite map_length; exact Hk').
    rewrite (nth_indep _ _ (TDecref e)) by (rewrite map_length; exact Hk').
    rewrite map_nth. rewrite (nth_error_nth _ _ _ E).
    split; [|exists e; split; reflexivity].
    unfold plan_tasks, next_round, release, zN. cbn [p_reqs flat_map is_decref_call String.eqb Ascii.eqb Bool.eqb app tokens its_data the_item option_map].
    replace (Z.to_nat (Z.of_N k)) with (N.to_nat k) by lia. rewrite E. reflexivity.
  - unfold decref_array_round_plan. rewrite N.ltb_irrefl.
    rewrite skipn_app, map_length, Nat.sub_diag, skipn_all2 by (rewrite map_length; lia). reflexivity.
  - rewrite skipn_app, map_length, Nat.sub_diag, skipn_all2 by (rewrite map_length; lia). reflexivity.
Qed.

(* an indefinite string: the chunks in order, then the chunk array, the header block, the item *)
Theorem release_chunked_follows_plan a (text : bool) hdr arr cap chunks :
  let tok := tokens a (Some hdr) arr None (fun k _ => nth_error chunks (Z.to_nat k)) in
  let tasks := release_tasks a (NChunked text hdr arr cap chunks) in
  let i := if text then 1%nat else 0%nat in
  plan_tasks tok (decref_chunks_round_plan i (len chunks) (len chunks)) = skipn (List.length chunks) tasks /\
  skipn (List.length chunks) tasks = [TFreeData arr; TFreeData (Some hdr); TFreeItem a] /\
  (forall k e, nth_error chunks (N.to_nat k) = Some e ->
     plan_tasks tok (decref_chunks_round_plan i (len chunks) k) = [TDecref e]).
Proof.
  intros tok tasks i. subst tok tasks. cbn [release_tasks].
  assert (Hsk : skipn (List.length chunks) (map TDecref chunks ++ [TFreeData arr; TFreeData (Some hdr); TFreeItem a]) =
                [TFreeData arr; TFreeData (Some hdr); TFreeItem a]).
  { rewrite skipn_app, map_length, Nat.sub_diag, skipn_all2 by (rewrite map_length; lia). reflexivity. }
  split; [|split].
  - unfold decref_chunks_round_plan. rewrite N.ltb_irrefl. rewrite Hsk. reflexivity.
  - exact Hsk.
  - intros k e E. unfold decref_chunks_round_plan.
    assert (Hk : k < len chunks).
    { unfold len. assert (N.to_nat k < List.length chunks)%nat by (apply nth_error_Some; congruence). lia. }
    destruct (N.ltb_spec k (len chunks)) as [_|]; [|lia].
    unfold plan_tasks, next_round, release, zN. cbn [p_reqs flat_map is_decref_call String.eqb Ascii.eqb Bool.eqb app tokens its_chunks its_data the_item option_map].
    replace (Z.to_nat (Z.of_N k)) with (N.to_nat k) by lia. rewrite E. reflexivity.
Qed.

(* a map: round k releases the key of pair k and then its value, if it has one *)
Theorem release_map_round_follows_plan a (data : option addr) (pairs : list (addr * option addr)) k kv :
  nth_error pairs (N.to_nat k) = Some kv ->
  let tok := tokens a data None None
               (fun j m => match nth_error pairs (Z.to_nat j) with
                           | Some p => if String.eqb m "key" then Some (fst p) else snd p
                           | None => None end) in
  plan_tasks tok (decref_map_round_plan (len pairs) k (match snd kv with Some _ => true | None => false end)) =
  TDecref (fst kv) :: match snd kv with Some v => [TDecref v] | None => [] end.
Proof.
  intros E tok. subst tok. unfold decref_map_round_plan.
  assert (Hk : k < len pairs).
  { unfold len. assert (N.to_nat k < List.length pairs)%nat by (apply nth_error_Some; congruence). lia. }
  destruct (N.ltb_spec k (len pairs)) as [_|]; [|lia].
  unfold plan_tasks, next_round, release, zN.
  destruct kv as [key [v|]]; cbn [snd fst p_reqs flat_map is_decref_call String.eqb Ascii.eqb Bool.eqb app tokens its_data the_item option_map];
    replace (Z.to_nat (Z.of_N k)) with (N.to_nat k) by lia; rewrite E; reflexivity.
Qed.

Theorem release_map_exit_follows_plan a indef data allocated pairs :
  plan_tasks (tokens a data None None (fun _ _ => None)) (decref_map_round_plan (len pairs) (len pairs) true) =
  [TFreeData data; TFreeItem a] /\
  exists front, release_tasks a (NMap indef data allocated pairs) = front ++ [TFreeData data; TFreeItem a].
Proof.
  split.
  - unfold decref_map_round_plan. rewrite N.ltb_irrefl. reflexivity.
  - cbn [release_tasks]. eexists. reflexivity.
Qed.
