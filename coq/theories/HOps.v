(* Model H: cbor_copy (src/cbor.c), serialization over heap items (src/cbor/serialization.c),
   cbor_load over the heap (src/cbor.c + internal/builder_callbacks.c + internal/stack.c).
   Definitions only. *)
From CB Require Export HItems PItem PBuild.
Local Open Scope N_scope.

Section Ops.
Variable refuse : N -> N -> bool.
Notation malloc := (malloc refuse).
Notation build_int := (build_int refuse).
Notation build_float := (build_float refuse).
Notation build_ctrl := (build_ctrl refuse).
Notation build_string := (build_string refuse).
Notation new_definite_string := (new_definite_string refuse).
Notation new_indefinite_string := (new_indefinite_string refuse).
Notation add_chunk := (add_chunk refuse).
Notation new_definite_array := (new_definite_array refuse).
Notation new_indefinite_array := (new_indefinite_array refuse).
Notation array_push := (array_push refuse).
Notation new_definite_map := (new_definite_map refuse).
Notation new_indefinite_map := (new_indefinite_map refuse).
Notation map_add := (map_add refuse).
Notation map_add_key := (map_add_key refuse).
Notation new_tag := (new_tag refuse).
Notation build_tag := (build_tag refuse).

(* ---------------- abstraction of a heap item to a P tree (reads only) ---------------- *)
Fixpoint mapM {A B} (f : A -> M B) (l : list A) : M (list B) :=
  match l with
  | [] => ret []
  | x :: r => y <- f x ;; ys <- mapM f r ;; ret (y :: ys)
  end.

(* a chunk of a chunked string of kind [text], as cbor_serialize_string / cbor_serialize_bytestring reads it:
   the serializer of the chunked string calls ITSELF on every chunk, and begins with
   CBOR_ASSERT(cbor_isa_string(item)) resp. CBOR_ASSERT(cbor_isa_bytestring(item)) (serialization.c:224 / 257;
   assert ids 72 / 73 as in HHist3.serialize_typed).  A chunk of the right kind that is itself indefinite would be
   serialized nested by the C code (no check there); the P tree has no such shape: FType. *)
Definition chunk_kind_assert (text : bool) : fkind := FAssert (if text then 73 else 72).
Definition chunk_bytes (text : bool) (a : addr) : M (list N) :=
  c <- rd_item a ;;
  match snd c with
  | NStr t data bytes =>
      if Bool.eqb t text then (if len bytes =? 0 then ret tt else touch_data false data) ;;; ret bytes
      else fail (chunk_kind_assert text)
  | NChunked t _ _ _ _ => if Bool.eqb t text then fail FType else fail (chunk_kind_assert text)
  | _ => fail (chunk_kind_assert text)
  end.

Fixpoint abs (fuel : nat) (a : addr) : M item :=
  match fuel with
  | O => fail FFuel
  | S f =>
    c <- rd_item a ;;
    match snd c with
    | NInt neg w v => ret (if neg then INegint w v else IUint w v)
    | NFloat w b => ret (IFloat w b)
    | NCtrl v => ret (ICtrl v)
    | NStr text data bytes =>
        (if len bytes =? 0 then ret tt else touch_data false data) ;;;
        ret (if text then IText bytes else IBytes bytes)
    | NChunked text hdr arr _ chunks =>
        touch_data false (Some hdr) ;;;
        (match chunks with [] => ret tt | _ => touch_data false arr end) ;;;
        cs <- mapM (chunk_bytes text) chunks ;;
        ret (if text then ITextI cs else IBytesI cs)
    | NArr indef data _ elems =>
        (match elems with [] => ret tt | _ => touch_data false data end) ;;;
        xs <- mapM (abs f) elems ;; ret (IArray indef xs)
    | NMap indef data _ pairs =>
        (match pairs with [] => ret tt | _ => touch_data false data end) ;;;
        kvs <- mapM (fun kv =>
                 k <- abs f (fst kv) ;;
                 match snd kv with
                 | Some v => v' <- abs f v ;; ret (k, v')
                 | None => fail FNull
                 end) pairs ;;
        ret (IMap indef kvs)
    | NTag v (Some x) => x' <- abs f x ;; ret (ITag v x')
    | NTag _ None => fail FNull
    end
  end.

(* depth fuel: no path is longer than the number of cells *)
Definition abs_fuel (w : world) : nat := S (N.to_nat (next w)).
Definition abs_of (a : addr) : M item := fun w => abs (abs_fuel w) a w.

(* cbor_serialized_size / cbor_serialize / cbor_serialize_alloc on a heap item *)
Definition serialized_size_h (a : addr) : M N := t <- abs_of a ;; ret (ssize t).
Definition serialize_h (a : addr) (size : N) : M (option (N * list N)) :=
  t <- abs_of a ;; ret (serialize_into t size).
(* returns (written, buffer block, bytes) *)
Definition serialize_alloc_h (a : addr) : M (N * option addr * list N) :=
  t <- abs_of a ;;
  let sz := ssize t in
  if sz =? 0 then ret (0, None, [])
  else b <- malloc sz (CData sz) ;;
       match b with
       | None => ret (0, None, [])
       | Some p =>
           match serialize_into t sz with
           | Some (wr, out) => ret (wr, Some p, out)
           | None => fail (FAssert 99)
           end
       end.

(* ---------------- cbor_copy ---------------- *)
Definition decref_opt (o : option addr) : M unit :=
  match o with Some a => decref a | None => ret tt end.

Fixpoint copy (fuel : nat) (a : addr) : M (option addr) :=
  match fuel with
  | O => fail FFuel
  | S f =>
    c <- rd_item a ;;
    match snd c with
    | NInt neg w v => build_int neg w v           (* _cbor_copy_int; negative marked only when res != NULL *)
    | NFloat w b => build_float w b
    | NCtrl v => build_ctrl v
    | NStr text data bytes =>
        (if len bytes =? 0 then ret tt else touch_data false data) ;;; build_string text bytes
    | NChunked text hdr arr _ chunks =>
        r <- new_indefinite_string text ;;
        match r with
        | None => ret None
        | Some res =>
            (fix loop (cs : list addr) : M (option addr) :=
               match cs with
               | [] => ret (Some res)
               | ch :: rest =>
                   cc <- copy f ch ;;
                   match cc with
                   | None => decref res ;;; ret None
                   | Some chunk_copy =>
                       ok <- add_chunk res chunk_copy ;;
                       if ok then decref chunk_copy ;;; loop rest
                       else decref chunk_copy ;;; decref res ;;; ret None
                   end
               end) chunks
        end
    | NArr indef data _ elems =>
        r <- (if indef then new_indefinite_array else new_definite_array (len elems)) ;;
        match r with
        | None => ret None
        | Some res =>
            (fix loop (es : list addr) : M (option addr) :=
               match es with
               | [] => ret (Some res)
               | e :: rest =>
                   (* cbor_move(cbor_array_get(item, i)): refcount up and down on the source element *)
                   touch_data false data ;;;
                   incref e ;;; move e ;;;
                   ec <- copy f e ;;
                   match ec with
                   | None => decref res ;;; ret None
                   | Some entry_copy =>
                       ok <- array_push res entry_copy ;;
                       if ok then decref entry_copy ;;; loop rest
                       else decref entry_copy ;;; decref res ;;; ret None
                   end
               end) elems
        end
    | NMap indef data _ pairs =>
        r <- (if indef then new_indefinite_map else new_definite_map (len pairs)) ;;
        match r with
        | None => ret None
        | Some res =>
            (fix loop (ps : list (addr * option addr)) : M (option addr) :=
               match ps with
               | [] => ret (Some res)
               | (k, ov) :: rest =>
                   touch_data false data ;;;
                   kc <- copy f k ;;
                   match kc with
                   | None => decref res ;;; ret None
                   | Some key_copy =>
                       match ov with
                       | None => fail FNull
                       | Some v =>
                           vc <- copy f v ;;
                           match vc with
                           | None => decref res ;;; decref key_copy ;;; ret None
                           | Some value_copy =>
                               ok <- map_add res key_copy value_copy ;;
                               if ok then decref key_copy ;;; decref value_copy ;;; loop rest
                               else decref res ;;; decref key_copy ;;; decref value_copy ;;; ret None
                           end
                       end
                   end
               end) pairs
        end
    | NTag v child =>
        match child with
        | None => fail FNull
        | Some x =>
            incref x ;;; move x ;;;               (* cbor_move(cbor_tag_item(item)) *)
            ic <- copy f x ;;
            match ic with
            | None => ret None
            | Some item_copy =>
                t <- build_tag v item_copy ;;
                decref item_copy ;;; ret t
            end
        end
    end
  end.
Definition copy_h (a : addr) : M (option addr) := fun w => copy (abs_fuel w) a w.

(* ---------------- cbor_load over the heap ---------------- *)
Variable L : N.   (* CBOR_MAX_STACK_SIZE *)

(* one record of struct _cbor_stack: (record block, item, subitems) *)
Definition srec := (addr * addr * N)%type.
Record hctx := mkhctx { hstack : list srec; hroot : option addr; hcf : bool; hse : bool }.

Definition stack_pop (r : srec) : M unit := free (Some (fst (fst r))).

(* _cbor_builder_append *)
Fixpoint happend (it : addr) (stk : list srec) : M hctx :=
  match stk with
  | [] => ret (mkhctx [] (Some it) false false)
  | (rec, top, subitems) :: rest =>
      c <- rd_item top ;;
      match snd c with
      | NArr false _ _ _ =>
          assert_ 10 (0 <? subitems) ;;;
          ok <- array_push top it ;;
          if negb ok then decref it ;;; ret (mkhctx stk None true false)
          else
            decref it ;;;
            let sub' := sub64 subitems 1 in
            if sub' =? 0 then stack_pop (rec, top, subitems) ;;; happend top rest
            else ret (mkhctx ((rec, top, sub') :: rest) None false false)
      | NArr true _ _ _ =>
          ok <- array_push top it ;;
          decref it ;;;
          ret (mkhctx stk None (negb ok) false)
      | NMap indef _ _ _ =>
          (if odd subitems then
             ok <- map_add_value top it ;; assert_ 11 ok ;;; ret true
           else
             map_add_key top it) >>= fun ok =>
          if negb ok then decref it ;;; ret (mkhctx stk None true false)
          else
            decref it ;;;
            if indef then ret (mkhctx ((rec, top, N.lxor subitems 1) :: rest) None false false)
            else
              assert_ 12 (0 <? subitems) ;;;
              let sub' := sub64 subitems 1 in
              if sub' =? 0 then stack_pop (rec, top, subitems) ;;; happend top rest
              else ret (mkhctx ((rec, top, sub') :: rest) None false false)
      | NTag _ _ =>
          assert_ 13 (subitems =? 1) ;;;
          tag_set_item top it ;;;
          decref it ;;;
          stack_pop (rec, top, subitems) ;;; happend top rest
      | _ => decref it ;;; ret (mkhctx stk None false true)
      end
  end.

(* PUSH_CTX_STACK *)
Definition push_ctx (res : addr) (subitems : N) (stk : list srec) : M hctx :=
  if len stk =? L then decref res ;;; ret (mkhctx stk None true false)
  else
    r <- malloc SZ_REC (CData SZ_REC) ;;
    match r with
    | None => decref res ;;; ret (mkhctx stk None true false)
    | Some rec => ret (mkhctx ((rec, res, subitems) :: stk) None false false)
    end.

Definition cf_ctx (stk : list srec) : hctx := mkhctx stk None true false.

Definition leaf_cb (mk : M (option addr)) (stk : list srec) : M hctx :=
  r <- mk ;;
  match r with None => ret (cf_ctx stk) | Some a => happend a stk end.

Definition string_cb (text : bool) (d : list N) (stk : list srec) : M hctx :=
  h <- malloc (len d) (CData (len d)) ;;
  match h with
  | None => ret (cf_ctx stk)
  | Some handle =>
      ch <- new_definite_string text ;;
      match ch with
      | None => free (Some handle) ;;; ret (cf_ctx stk)
      | Some chunk =>
          wr_item chunk 1 (NStr text (Some handle) d) ;;;      (* set_handle *)
          match stk with
          | (rec, top, sub) :: rest =>
              c <- rd_item top ;;
              match snd c with
              | NChunked t _ _ _ _ =>
                  if Bool.eqb t text then
                    ok <- add_chunk top chunk ;;
                    decref chunk ;;;
                    ret (mkhctx stk None (negb ok) false)
                  else happend chunk stk
              | _ => happend chunk stk
              end
          | [] => happend chunk stk
          end
      end
  end.

Definition hcallback (tk : tok) (stk : list srec) : M hctx :=
  match tk with
  | TUint w v => leaf_cb (build_int false w v) stk
  | TNegint w v => leaf_cb (build_int true w v) stk
  | TBytes _ d => string_cb false d stk
  | TText _ d => string_cb true d stk
  | TBytesStart =>
      r <- new_indefinite_string false ;;
      match r with None => ret (cf_ctx stk) | Some a => push_ctx a 0 stk end
  | TTextStart =>
      r <- new_indefinite_string true ;;
      match r with None => ret (cf_ctx stk) | Some a => push_ctx a 0 stk end
  | TArray n =>
      r <- new_definite_array n ;;
      match r with
      | None => ret (cf_ctx stk)
      | Some a => if 0 <? n then push_ctx a n stk else happend a stk
      end
  | TArrayStart =>
      r <- new_indefinite_array ;;
      match r with None => ret (cf_ctx stk) | Some a => push_ctx a 0 stk end
  | TMap n =>
      r <- new_definite_map n ;;
      match r with
      | None => ret (cf_ctx stk)
      | Some a => if 0 <? n then push_ctx a (wrap64 (n * 2)) stk else happend a stk
      end
  | TMapStart =>
      r <- new_indefinite_map ;;
      match r with None => ret (cf_ctx stk) | Some a => push_ctx a 0 stk end
  | TTag v =>
      r <- new_tag v ;;
      match r with None => ret (cf_ctx stk) | Some a => push_ctx a 1 stk end
  | TFloat w b => leaf_cb (build_float w b) stk
  | TBool b => leaf_cb (build_ctrl (if b then 21 else 20)) stk
  | TNull => leaf_cb (build_ctrl 22) stk
  | TUndef => leaf_cb (build_ctrl 23) stk
  | TBreak =>
      match stk with
      | (rec, top, sub) :: rest =>
          c <- rd_item top ;;
          let closable :=
            match snd c with
            | NArr true _ _ _ => true
            | NMap true _ _ _ => negb (odd sub)
            | NChunked _ _ _ _ _ => true
            | _ => false
            end in
          if closable then stack_pop (rec, top, sub) ;;; happend top rest
          else ret (mkhctx stk None false true)
      | [] => ret (mkhctx stk None false true)
      end
  end.

(* error path: release the stack *)
Fixpoint unwind (stk : list srec) : M unit :=
  match stk with
  | [] => ret tt
  | (rec, top, sub) :: rest => decref top ;;; stack_pop (rec, top, sub) ;;; unwind rest
  end.

(* result: (item or NULL, code, position, read) *)
Definition hres := (option addr * lerr * N * N)%type.

Fixpoint hload_loop (fuel : nat) (buf : list N) (read : N) (stk : list srec) : M hres :=
  match fuel with
  | O => fail FFuel
  | S f =>
    if len buf <=? read then unwind stk ;;; ret (None, ENotEnough, read, read) else
    match stream_decode (skipnN read buf) with
    | SFault => fail FOutOfBounds
    | SRes r e =>
      match st r with
      | Nedata => unwind stk ;;; ret (None, ENotEnough, read, read)
      | DError => unwind stk ;;; ret (None, EMalformed, read, read)
      | Finished =>
        let read' := wrap64 (read + rd r) in
        match e with
        | None => fail (FAssert 98)
        | Some tk =>
          c <- hcallback tk stk ;;
          if hcf c then unwind (hstack c) ;;; ret (None, EMem, read', read')
          else if hse c then unwind (hstack c) ;;; ret (None, ESyntax, read', read')
          else match hstack c with
               | [] => match hroot c with
                       | Some t => ret (Some t, ENone, 0, read')
                       | None => fail (FAssert 97)
                       end
               | stk' => hload_loop f buf read' stk'
               end
        end
      end
    end
  end.

Definition load_h (buf : list N) : M hres :=
  if len buf =? 0 then ret (None, ENoData, 0, 0)
  else hload_loop (S (length buf)) buf 0 [].

End Ops.
