(* Model H: a generic preservation theorem for world invariants over ALL client operations.

   Every function of the API model is written in the monad of HHeap.v and changes the world only
   through the primitives malloc / realloc / free / rd_item / wr_item / touch_data.  This file proves,
   once, by a syntactic walk over the monadic code of every operation of HHist.op (all 26), that a
   world predicate [G] which is preserved by those six primitives - under the side condition that the
   addresses handed to them belong to a set [K] of "known" addresses which is closed under reading a
   node ([G_rd]) - is preserved by every client call whose operand handles denote known addresses:

        step_keeps : (forall h a, In h (operands o) -> hget s h = Some a -> K a) ->
                     G w -> step refuse L s o w = Ret r w' -> G w'.

   The same walk covers the third layer of client calls (HHist3.step3, which embeds the first two
   layers): [kp_step3] / [step3_keeps] with [operands3].
   No ownership rule, no accounting invariant, no legality is needed: the theorem is about calls that
   return.  Two instances are used:
   - K = everything, G = the allocator-protocol invariant of the event trace (HTrace_proofs.v, C13);
   - K = the cells reachable from the operands + the cells allocated by the call, G = "every other
     cell is what it was" (HFrame_proofs.v, C17). *)
From CB Require Import Word Word_proofs PMem PItem HHeap HItems HOps HHist HHist2 HHist3.
From CB Require Import HRef_proofs HCont_proofs HRead_proofs HCopy_proofs.
From Coq Require Import Lia ZArith List.
Import ListNotations.
Local Open Scope N_scope.

(* the operand handles of a call *)
Definition operands (o : op) : list nat :=
  match o with
  | OBuildTag _ x => [x]
  | OPush a x => [a; x]
  | OGet a _ => [a]
  | OSet a _ x | OReplace a _ x => [a; x]
  | OMapAdd m k v => [m; k; v]
  | OAddChunk c x => [c; x]
  | OTagSet t x => [t; x]
  | OTagItem t => [t]
  | OIncref h | ODecref h | OCopy h | OSerSize h | OSerialize h _ | OSerAlloc h => [h]
  | _ => []
  end.

(* the operand handles of a call of the third layer (HHist3.op3) *)
Definition operands3 (o : op3) : list nat :=
  match o with
  | O3Old o => operands o
  | O3SetHandleNew h _ | O3SetHandleShorten h _ | O3SetUint _ h _ | O3Mark _ h | O3SetFloat _ h _
  | O3SetCtrl h _ | O3SetBool h _ | O3Move h | O3IntermediateDecref h | O3SerializeTyped _ h _
  | O3Preds h | O3Vals h => [h]
  | O3PushMove a x => [a; x]
  | O3MapAddMove m k v => [m; k; v]
  | O3TagSetMove t x => [t; x]
  | O3BuildTagMove _ x => [x]
  | _ => []
  end.

Section Abs.
Variable refuse : N -> N -> bool.
Variable K : addr -> Prop.

Definition optK (o : option addr) : Prop := forall a, o = Some a -> K a.
Definition allK (l : list addr) : Prop := forall a, In a l -> K a.
Definition pairsK (l : list (addr * option addr)) : Prop := forall k ov, In (k, ov) l -> K k /\ optK ov.
(* every address stored in a node is known *)
Definition nodeK (n : node) : Prop :=
  match n with
  | NStr _ data _ => optK data
  | NChunked _ hdr arr _ chunks => K hdr /\ optK arr /\ allK chunks
  | NArr _ data _ elems => optK data /\ allK elems
  | NMap _ data _ pairs => optK data /\ pairsK pairs
  | NTag _ c => optK c
  | _ => True
  end.
Definition cellK (c : cell) : Prop := match c with CItem _ n => nodeK n | CData _ => True end.

(* An abstract judgment [kp m Q]: "the computation [m] respects the invariant and its result satisfies
   [Q]".  Everything below is derived from the rules of the judgment alone: the monad laws, the six
   primitives, and two rules for the places where the code takes its fuel from the world (the
   traversal depth [abs_fuel], a function of the bump pointer, and the release fuel [drain_fuel], a
   function of the whole heap).  Instances: unary preservation of a world predicate (Section Gen
   below), and the two-run simulation of HFrame_proofs.v. *)
Variable kp : forall A : Type, M A -> (A -> Prop) -> Prop.
Arguments kp {A}.
Notation T := (fun _ => True).
Hypothesis kp_ret : forall (A : Type) (a : A) (Q : A -> Prop), Q a -> kp (ret a) Q.
Hypothesis kp_fail : forall (A : Type) k (Q : A -> Prop), kp (@fail A k) Q.
Hypothesis kp_bind : forall (A B : Type) (m : M A) (f : A -> M B) (Q : A -> Prop) (R : B -> Prop),
  kp m Q -> (forall a, Q a -> kp (f a) R) -> kp (bind m f) R.
Hypothesis kp_rd : forall a, K a -> kp (rd_item a) (fun c => nodeK (snd c)).
Hypothesis kp_wr : forall a rc n, K a -> nodeK n -> kp (wr_item a rc n) T.
Hypothesis kp_touch : forall wr p, optK p -> kp (touch_data wr p) T.
Hypothesis kp_free : forall p, optK p -> kp (free p) T.
Hypothesis kp_malloc : forall sz c, cellK c -> kp (malloc refuse sz c) optK.
Hypothesis kp_realloc : forall old sz, optK old -> kp (realloc refuse old sz) optK.
Hypothesis kp_next_dep : forall (A : Type) (f : N -> M A) (Q : A -> Prop),
  (forall x, kp (f x) Q) -> kp (fun w => f (next w) w) Q.
Hypothesis kp_decref_fuel : forall a, K a -> (forall fuel, kp (drain fuel [TDecref a]) T) -> kp (decref a) T.

Lemma kp_bindT {A B} (m : M A) (f : A -> M B) (Q : A -> Prop) (R : B -> Prop) :
  kp m Q -> (forall a, kp (f a) R) -> kp (bind m f) R.
Proof. intros Hm Hf. eapply kp_bind; [exact Hm|]. intros a _. apply Hf. Qed.

Lemma optK_some a : K a -> optK (Some a).
Proof. intros H b E. injection E as <-. exact H. Qed.
Lemma optK_none : optK None.
Proof. intros b E. discriminate E. Qed.
Lemma optK_inv a : optK (Some a) -> K a.
Proof. intros H. apply H. reflexivity. Qed.
Lemma allK_nil : allK [].
Proof. intros a []. Qed.
Lemma allK_app l1 l2 : allK l1 -> allK l2 -> allK (l1 ++ l2).
Proof. intros H1 H2 a Ha. apply in_app_or in Ha. destruct Ha; auto. Qed.
Lemma allK_one a : K a -> allK [a].
Proof. intros H b [<-|[]]. exact H. Qed.
Lemma allK_cons a l : allK (a :: l) -> K a /\ allK l.
Proof. intros H. split; [apply H; left; reflexivity|]. intros b Hb. apply H. right. exact Hb. Qed.
Lemma allK_set_nth l x : K x -> allK l -> forall i, allK (set_nth l i x).
Proof.
  intros Hx. induction l as [|y l IH]; intros Hl i; [destruct i; apply allK_nil|].
  apply allK_cons in Hl. destruct Hl as [Hy Hl]. destruct i; cbn [set_nth]; intros b [<-|Hb]; auto.
  eapply IH; eassumption.
Qed.
Lemma allK_nth l i e : allK l -> nth_error l i = Some e -> K e.
Proof. intros H E. apply H. eapply nth_error_In. exact E. Qed.
Lemma pairsK_nil : pairsK [].
Proof. intros k ov []. Qed.
Lemma pairsK_app l1 l2 : pairsK l1 -> pairsK l2 -> pairsK (l1 ++ l2).
Proof. intros H1 H2 k ov Ha. apply in_app_or in Ha. destruct Ha; auto. Qed.
Lemma pairsK_one k ov : K k -> optK ov -> pairsK [(k, ov)].
Proof. intros H1 H2 k' ov' [E|[]]. injection E as <- <-. auto. Qed.
Lemma pairsK_cons k ov l : pairsK ((k, ov) :: l) -> K k /\ optK ov /\ pairsK l.
Proof.
  intros H. destruct (H k ov (or_introl eq_refl)) as [H1 H2]. split; [exact H1|]. split; [exact H2|].
  intros k' ov' Hb. apply H. right. exact Hb.
Qed.
Lemma pairsK_rev l : pairsK (rev l) -> pairsK l.
Proof. intros H k ov Hi. apply H. apply -> in_rev. exact Hi. Qed.
Lemma pairsK_rev' l : pairsK l -> pairsK (rev l).
Proof. intros H k ov Hi. apply H. apply in_rev. exact Hi. Qed.

Lemma kp_bind_rd {B} a (f : N * node -> M B) (R : B -> Prop) :
  K a -> (forall rc n, nodeK n -> kp (f (rc, n)) R) -> kp (bind (rd_item a) f) R.
Proof. intros Ka H. eapply kp_bind; [apply kp_rd; exact Ka|]. intros [rc n] Hn. apply H. exact Hn. Qed.
Lemma kp_assert id b : kp (assert_ id b) T.
Proof. destruct b; [apply kp_ret; exact I|apply kp_fail]. Qed.
(* ---------------- reference counts ---------------- *)
Lemma kp_incref a : K a -> kp (incref a) K.
Proof.
  intros Ka. unfold incref. apply kp_bind_rd; [exact Ka|]. intros rc n Hn. cbn [fst snd].
  eapply kp_bindT; [apply kp_wr; assumption|]. intros _. apply kp_ret. exact Ka.
Qed.
Lemma kp_move a : K a -> kp (move a) K.
Proof.
  intros Ka. unfold move. apply kp_bind_rd; [exact Ka|]. intros rc n Hn. cbn [fst snd].
  eapply kp_bindT; [apply kp_wr; assumption|]. intros _. apply kp_ret. exact Ka.
Qed.

Definition taskK (t : task) : Prop :=
  match t with TDecref a => K a | TFreeData p => optK p | TFreeItem a => K a end.

Lemma Forall_map_decref l : allK l -> Forall taskK (map TDecref l).
Proof. intros H. apply Forall_forall. intros t Ht. apply in_map_iff in Ht. destruct Ht as (a & <- & Ha). apply H, Ha. Qed.

Lemma release_tasksK a n : K a -> nodeK n -> Forall taskK (release_tasks a n).
Proof.
  intros Ka Hn. destruct n as [neg iw v|fw bits|v|text data bytes|text hdr arr cap chunks|indef data al elems|indef data al pairs|v c];
    cbn [release_tasks nodeK] in *.
  - repeat constructor. exact Ka.
  - repeat constructor. exact Ka.
  - repeat constructor. exact Ka.
  - repeat constructor; assumption.
  - destruct Hn as (Hh & Ha & Hc). apply Forall_app. split; [apply Forall_map_decref; exact Hc|].
    repeat constructor; cbn [taskK]; [exact Ha|apply optK_some; exact Hh|exact Ka].
  - destruct Hn as (Hd & He). apply Forall_app. split; [apply Forall_map_decref; exact He|].
    repeat constructor; assumption.
  - destruct Hn as (Hd & Hp). apply Forall_app. split; [|repeat constructor; assumption].
    apply Forall_forall. intros t Ht. apply in_flat_map in Ht. destruct Ht as ([k ov] & Hi & Ht).
    destruct (Hp k ov Hi) as [Hk Hov]. cbn [fst snd] in Ht. destruct Ht as [<-|Ht]; [exact Hk|].
    destruct ov as [v0|]; [|destruct Ht]. destruct Ht as [<-|[]]. cbn [taskK]. apply Hov. reflexivity.
  - apply Forall_app. split.
    + destruct c as [x|]; [|constructor]. repeat constructor. cbn [taskK]. apply Hn. reflexivity.
    + repeat constructor; cbn [taskK]; [apply optK_none|exact Ka].
Qed.

Lemma kp_drain : forall fuel ts, Forall taskK ts -> kp (drain fuel ts) T.
Proof.
  induction fuel as [|f IH]; intros ts Hts; cbn [drain].
  - destruct ts; [apply kp_ret; exact I|apply kp_fail].
  - destruct ts as [|t r]; [apply kp_ret; exact I|].
    apply Forall_cons_iff in Hts. destruct Hts as [Ht Hr]. destruct t as [a|p|a]; cbn [taskK] in Ht.
    + apply kp_bind_rd; [exact Ht|]. intros rc n Hn. cbn [fst snd].
      eapply kp_bindT; [apply kp_assert|]. intros _.
      destruct (rc =? 1); (eapply kp_bindT; [apply kp_wr; assumption|]); intros _; apply IH.
      * apply Forall_app. split; [apply release_tasksK; assumption|exact Hr].
      * exact Hr.
    + eapply kp_bindT; [apply kp_free; exact Ht|]. intros _. apply IH. exact Hr.
    + eapply kp_bindT; [apply kp_free; apply optK_some; exact Ht|]. intros _. apply IH. exact Hr.
Qed.
Lemma kp_decref a : K a -> kp (decref a) T.
Proof. intros Ka. apply kp_decref_fuel; [exact Ka|]. intros fuel. apply kp_drain. repeat constructor. exact Ka. Qed.
Lemma kp_decref_opt o : optK o -> kp (decref_opt o) T.
Proof. intros H. destruct o as [a|]; cbn [decref_opt]; [apply kp_decref, H; reflexivity|apply kp_ret; exact I]. Qed.

(* ---------------- containers ---------------- *)
Definition growK (g : option (N * addr)) : Prop := forall c d, g = Some (c, d) -> K d.
Lemma kp_grow data isz al : optK data -> kp (grow refuse data isz al) growK.
Proof.
  intros Hd. unfold grow.
  destruct (grow_capacity 64 al) as [c0|]; [|apply kp_ret; intros c d E; discriminate E].
  destruct (alloc_multiple_req 64 isz c0) as [b0|]; [|apply kp_ret; intros c d E; discriminate E].
  eapply kp_bind; [apply kp_realloc; exact Hd|]. intros [d|] Hr; apply kp_ret.
  - intros c d' E. injection E as _ <-. apply Hr. reflexivity.
  - intros c d' E. discriminate E.
Qed.

Lemma kp_array_push a x : K a -> K x -> kp (array_push refuse a x) T.
Proof.
  intros Ka Kx. unfold array_push. apply kp_bind_rd; [exact Ka|]. intros rc n Hn. cbn [fst snd].
  destruct n as [neg iw v|fw bits|v|text data bytes|text hdr arr cap chunks|indef data al elems|indef data al pairs|v c];
    try apply kp_fail.
  cbn [nodeK] in Hn. destruct Hn as [Hd He]. destruct indef.
  - eapply kp_bind with (Q := fun st => forall d' c', st = Some (d', c') -> optK d').
    + destruct (al <=? len elems).
      * eapply kp_bind; [apply kp_grow; exact Hd|]. intros [[c' d']|] Hg; apply kp_ret.
        -- intros d2 c2 E. injection E as <- <-. apply optK_some. eapply Hg. reflexivity.
        -- intros d2 c2 E. discriminate E.
      * apply kp_ret. intros d2 c2 E. injection E as <- <-. exact Hd.
    + intros [[d' c']|] Hst; [|apply kp_ret; exact I]. specialize (Hst _ _ eq_refl).
      eapply kp_bindT; [apply kp_touch; exact Hst|]. intros _.
      eapply kp_bindT; [apply kp_wr; [exact Ka|]|].
      { cbn [nodeK]. split; [exact Hst|]. apply allK_app; [exact He|apply allK_one; exact Kx]. }
      intros _. eapply kp_bindT; [apply kp_incref; exact Kx|]. intros _. apply kp_ret. exact I.
  - destruct (al <=? len elems); [apply kp_ret; exact I|].
    eapply kp_bindT; [apply kp_touch; exact Hd|]. intros _.
    eapply kp_bindT; [apply kp_wr; [exact Ka|]|].
    { cbn [nodeK]. split; [exact Hd|]. apply allK_app; [exact He|apply allK_one; exact Kx]. }
    intros _. eapply kp_bindT; [apply kp_incref; exact Kx|]. intros _. apply kp_ret. exact I.
Qed.

Lemma kp_add_chunk a x : K a -> K x -> kp (add_chunk refuse a x) T.
Proof.
  intros Ka Kx. unfold add_chunk. apply kp_bind_rd; [exact Ka|]. intros rc n Hn. cbn [fst snd].
  destruct n as [neg iw v|fw bits|v|text data bytes|text hdr arr cap chunks|indef data al elems|indef data al pairs|v c];
    try apply kp_fail.
  cbn [nodeK] in Hn. destruct Hn as (Hh & Ha & Hc).
  eapply kp_bindT with (Q := T).
  { unfold chunk_assert. destruct text; [apply kp_ret; exact I|]. apply kp_bind_rd; [exact Kx|]. intros rcx nx _. cbn [snd].
    destruct nx as [| | |[|] ? ?|[|] ? ? ? ?| | |]; first [apply kp_ret; exact I|apply kp_fail]. }
  intros _.
  eapply kp_bindT; [apply kp_touch; apply optK_some; exact Hh|]. intros _.
  eapply kp_bind with (Q := fun st => forall d' c', st = Some (d', c') -> optK d').
  - destruct (len chunks =? cap).
    + eapply kp_bind; [apply kp_grow; exact Ha|]. intros [[c' d']|] Hg.
      * eapply kp_bindT; [apply kp_touch; apply optK_some; exact Hh|]. intros _. apply kp_ret.
        intros d2 c2 E. injection E as <- <-. apply optK_some. eapply Hg. reflexivity.
      * apply kp_ret. intros d2 c2 E. discriminate E.
    + apply kp_ret. intros d2 c2 E. injection E as <- <-. exact Ha.
  - intros [[d' c']|] Hst; [|apply kp_ret; exact I]. specialize (Hst _ _ eq_refl).
    eapply kp_bindT; [apply kp_incref; exact Kx|]. intros _.
    eapply kp_bindT; [apply kp_touch; exact Hst|]. intros _.
    eapply kp_bindT; [apply kp_touch; apply optK_some; exact Hh|]. intros _.
    eapply kp_bindT; [apply kp_wr; [exact Ka|]|].
    { cbn [nodeK]. split; [exact Hh|]. split; [exact Hst|]. apply allK_app; [exact Hc|apply allK_one; exact Kx]. }
    intros _. apply kp_ret. exact I.
Qed.

Lemma kp_array_get a i : K a -> kp (array_get a i) optK.
Proof.
  intros Ka. unfold array_get. apply kp_bind_rd; [exact Ka|]. intros rc n Hn. cbn [fst snd].
  destruct n as [neg iw v|fw bits|v|text data bytes|text hdr arr cap chunks|indef data al elems|indef data al pairs|v c];
    try apply kp_fail.
  cbn [nodeK] in Hn. destruct Hn as [Hd He].
  destruct (len elems <=? i); [apply kp_ret; apply optK_none|].
  eapply kp_bindT; [apply kp_touch; exact Hd|]. intros _.
  destruct (nth_error elems (N.to_nat i)) as [e|] eqn:E; [|apply kp_fail].
  pose proof (allK_nth _ _ _ He E) as Ke.
  eapply kp_bindT; [apply kp_incref; exact Ke|]. intros _. apply kp_ret. apply optK_some. exact Ke.
Qed.

Lemma kp_array_replace a i x : K a -> K x -> kp (array_replace a i x) T.
Proof.
  intros Ka Kx. unfold array_replace. apply kp_bind_rd; [exact Ka|]. intros rc n Hn. cbn [fst snd].
  destruct n as [neg iw v|fw bits|v|text data bytes|text hdr arr cap chunks|indef data al elems|indef data al pairs|v c];
    try apply kp_fail.
  cbn [nodeK] in Hn. destruct Hn as [Hd He].
  destruct (len elems <=? i); [apply kp_ret; exact I|].
  eapply kp_bindT; [apply kp_touch; exact Hd|]. intros _.
  destruct (nth_error elems (N.to_nat i)) as [e|] eqn:E; [|apply kp_fail].
  pose proof (allK_nth _ _ _ He E) as Ke.
  eapply kp_bindT; [apply kp_decref; exact Ke|]. intros _.
  eapply kp_bindT; [apply kp_incref; exact Kx|]. intros _.
  apply kp_bind_rd; [exact Ka|]. intros rc' n' Hn'. cbn [fst snd].
  eapply kp_bindT; [apply kp_touch; exact Hd|]. intros _.
  eapply kp_bindT; [apply kp_wr; [exact Ka|]|].
  { cbn [nodeK]. split; [exact Hd|]. apply allK_set_nth; assumption. }
  intros _. apply kp_ret. exact I.
Qed.

Lemma kp_array_set a i x : K a -> K x -> kp (array_set refuse a i x) T.
Proof.
  intros Ka Kx. unfold array_set. apply kp_bind_rd; [exact Ka|]. intros rc n Hn. cbn [fst snd].
  destruct n as [neg iw v|fw bits|v|text data bytes|text hdr arr cap chunks|indef data al elems|indef data al pairs|v c];
    try apply kp_fail.
  destruct (i =? len elems); [apply kp_array_push; assumption|].
  destruct (i <? len elems); [apply kp_array_replace; assumption|apply kp_ret; exact I].
Qed.

Lemma kp_map_add_key a k : K a -> K k -> kp (map_add_key refuse a k) T.
Proof.
  intros Ka Kk. unfold map_add_key. apply kp_bind_rd; [exact Ka|]. intros rc n Hn. cbn [fst snd].
  destruct n as [neg iw v|fw bits|v|text data bytes|text hdr arr cap chunks|indef data al elems|indef data al pairs|v c];
    try apply kp_fail.
  cbn [nodeK] in Hn. destruct Hn as [Hd He].
  assert (Hnew : pairsK (pairs ++ [(k, None)])).
  { apply pairsK_app; [exact He|apply pairsK_one; [exact Kk|apply optK_none]]. }
  destruct indef.
  - eapply kp_bind with (Q := fun st => forall d' c', st = Some (d', c') -> optK d').
    + destruct (al <=? len pairs).
      * eapply kp_bind; [apply kp_grow; exact Hd|]. intros [[c' d']|] Hg; apply kp_ret.
        -- intros d2 c2 E. injection E as <- <-. apply optK_some. eapply Hg. reflexivity.
        -- intros d2 c2 E. discriminate E.
      * apply kp_ret. intros d2 c2 E. injection E as <- <-. exact Hd.
    + intros [[d' c']|] Hst; [|apply kp_ret; exact I]. specialize (Hst _ _ eq_refl).
      eapply kp_bindT; [apply kp_touch; exact Hst|]. intros _.
      eapply kp_bindT; [apply kp_wr; [exact Ka|cbn [nodeK]; split; assumption]|].
      intros _. eapply kp_bindT; [apply kp_incref; exact Kk|]. intros _. apply kp_ret. exact I.
  - destruct (al <=? len pairs); [apply kp_ret; exact I|].
    eapply kp_bindT; [apply kp_touch; exact Hd|]. intros _.
    eapply kp_bindT; [apply kp_wr; [exact Ka|cbn [nodeK]; split; assumption]|].
    intros _. eapply kp_bindT; [apply kp_incref; exact Kk|]. intros _. apply kp_ret. exact I.
Qed.

Lemma kp_map_add_value a x : K a -> K x -> kp (map_add_value a x) T.
Proof.
  intros Ka Kx. unfold map_add_value.
  eapply kp_bindT; [apply kp_incref; exact Kx|]. intros _.
  apply kp_bind_rd; [exact Ka|]. intros rc n Hn. cbn [fst snd].
  destruct n as [neg iw v|fw bits|v|text data bytes|text hdr arr cap chunks|indef data al elems|indef data al pairs|v c];
    try apply kp_fail.
  cbn [nodeK] in Hn. destruct Hn as [Hd He].
  destruct (rev pairs) as [|[k o] rp] eqn:R; [apply kp_fail|].
  apply pairsK_rev' in He. rewrite R in He. apply pairsK_cons in He. destruct He as (Hk & _ & Hrp).
  eapply kp_bindT; [apply kp_touch; exact Hd|]. intros _.
  eapply kp_bindT; [apply kp_wr; [exact Ka|]|].
  { cbn [nodeK]. split; [exact Hd|]. apply pairsK_app; [apply pairsK_rev'; exact Hrp|].
    apply pairsK_one; [exact Hk|apply optK_some; exact Kx]. }
  intros _. apply kp_ret. exact I.
Qed.

Lemma kp_map_add a k v : K a -> K k -> K v -> kp (map_add refuse a k v) T.
Proof.
  intros Ka Kk Kv. unfold map_add. eapply kp_bindT; [apply kp_map_add_key; assumption|].
  intros [|]; [apply kp_map_add_value; assumption|apply kp_ret; exact I].
Qed.

(* ---------------- tags ---------------- *)
Lemma kp_new_tag v : kp (new_tag refuse v) optK.
Proof. apply kp_malloc. cbn [cellK nodeK]. apply optK_none. Qed.
Lemma kp_tag_set t x : K t -> K x -> kp (tag_set_item t x) T.
Proof.
  intros Kt Kx. unfold tag_set_item. eapply kp_bindT; [apply kp_incref; exact Kx|]. intros _.
  apply kp_bind_rd; [exact Kt|]. intros rc n Hn. cbn [fst snd].
  destruct n; try apply kp_fail. apply kp_wr; [exact Kt|]. cbn [nodeK]. apply optK_some. exact Kx.
Qed.
Lemma kp_tag_item t : K t -> kp (tag_item t) K.
Proof.
  intros Kt. unfold tag_item. apply kp_bind_rd; [exact Kt|]. intros rc n Hn. cbn [fst snd].
  destruct n as [neg iw v|fw bits|v|text data bytes|text hdr arr cap chunks|indef data al elems|indef data al pairs|v c];
    try apply kp_fail.
  destruct c as [x|]; [|apply kp_fail]. apply kp_incref. apply Hn. reflexivity.
Qed.
Lemma kp_build_tag v x : K x -> kp (build_tag refuse v x) optK.
Proof.
  intros Kx. unfold build_tag. eapply kp_bind; [apply kp_new_tag|]. intros [t|] Ht; [|apply kp_ret; apply optK_none].
  eapply kp_bindT; [apply kp_tag_set; [apply Ht; reflexivity|exact Kx]|]. intros _. apply kp_ret. exact Ht.
Qed.

(* ---------------- constructors ---------------- *)
Lemma kp_build_int neg iw v : kp (build_int refuse neg iw v) optK.
Proof. apply kp_malloc. exact I. Qed.
Lemma kp_build_float fw b : kp (build_float refuse fw b) optK.
Proof. apply kp_malloc. exact I. Qed.
Lemma kp_build_ctrl v : kp (build_ctrl refuse v) optK.
Proof. apply kp_malloc. exact I. Qed.
Lemma kp_new_definite_string text : kp (new_definite_string refuse text) optK.
Proof. apply kp_malloc. cbn [cellK nodeK]. apply optK_none. Qed.
Lemma kp_malloc_data sz : kp (malloc refuse sz (CData sz)) optK.
Proof. apply kp_malloc. exact I. Qed.

(* allocate the item, then its block; on failure free the item *)
Lemma kp_ctor2 (n0 : node) (sz : N) (mk : addr -> node) :
  nodeK n0 -> (forall d, K d -> nodeK (mk d)) ->
  kp (it <- malloc refuse SZ_ITEM (CItem 1 n0) ;;
      match it with
      | None => ret None
      | Some a =>
          d <- malloc refuse sz (CData sz) ;;
          match d with
          | None => free (Some a) ;;; ret None
          | Some p => wr_item a 1 (mk p) ;;; ret (Some a)
          end
      end) optK.
Proof.
  intros H0 Hmk. eapply kp_bind; [apply kp_malloc; exact H0|]. intros [a|] Ha; [|apply kp_ret; apply optK_none].
  eapply kp_bind; [apply kp_malloc_data|]. intros [p|] Hp.
  - eapply kp_bindT; [apply kp_wr; [apply Ha; reflexivity|apply Hmk; apply Hp; reflexivity]|].
    intros _. apply kp_ret. exact Ha.
  - eapply kp_bindT; [apply kp_free; exact Ha|]. intros _. apply kp_ret. apply optK_none.
Qed.

Lemma kp_build_string text bytes : kp (build_string refuse text bytes) optK.
Proof.
  unfold build_string, new_definite_string.
  apply (kp_ctor2 (NStr text None []) (len bytes) (fun d => NStr text (Some d) bytes)).
  - cbn [nodeK]. apply optK_none.
  - intros d Kd. cbn [nodeK]. apply optK_some. exact Kd.
Qed.
Lemma kp_new_indefinite_string text : kp (new_indefinite_string refuse text) optK.
Proof.
  unfold new_indefinite_string.
  apply (kp_ctor2 (NStr text None []) SZ_ISD (fun h => NChunked text h None 0 [])).
  - cbn [nodeK]. apply optK_none.
  - intros d Kd. cbn [nodeK]. split; [exact Kd|]. split; [apply optK_none|apply allK_nil].
Qed.
Lemma kp_new_definite_array n : kp (new_definite_array refuse n) optK.
Proof.
  unfold new_definite_array.
  eapply kp_bind; [apply kp_malloc; cbn [cellK nodeK]; split; [apply optK_none|apply allK_nil]|].
  intros [a|] Ha; [|apply kp_ret; apply optK_none].
  destruct (alloc_multiple_req 64 SZ_PTR n) as [bytes|].
  - eapply kp_bind; [apply kp_malloc_data|]. intros [p|] Hp.
    + eapply kp_bindT; [apply kp_wr; [apply Ha; reflexivity|]|].
      { cbn [nodeK]. split; [exact Hp|apply allK_nil]. }
      intros _. apply kp_ret. exact Ha.
    + eapply kp_bindT; [apply kp_free; exact Ha|]. intros _. apply kp_ret. apply optK_none.
  - eapply kp_bindT; [apply kp_free; exact Ha|]. intros _. apply kp_ret. apply optK_none.
Qed.
Lemma kp_new_definite_map n : kp (new_definite_map refuse n) optK.
Proof.
  unfold new_definite_map.
  eapply kp_bind; [apply kp_malloc; cbn [cellK nodeK]; split; [apply optK_none|apply pairsK_nil]|].
  intros [a|] Ha; [|apply kp_ret; apply optK_none].
  destruct (alloc_multiple_req 64 SZ_PAIR n) as [bytes|].
  - eapply kp_bind; [apply kp_malloc_data|]. intros [p|] Hp.
    + eapply kp_bindT; [apply kp_wr; [apply Ha; reflexivity|]|].
      { cbn [nodeK]. split; [exact Hp|apply pairsK_nil]. }
      intros _. apply kp_ret. exact Ha.
    + eapply kp_bindT; [apply kp_free; exact Ha|]. intros _. apply kp_ret. apply optK_none.
  - eapply kp_bindT; [apply kp_free; exact Ha|]. intros _. apply kp_ret. apply optK_none.
Qed.
Lemma kp_new_indefinite_array : kp (new_indefinite_array refuse) optK.
Proof. apply kp_malloc. cbn [cellK nodeK]. split; [apply optK_none|apply allK_nil]. Qed.
Lemma kp_new_indefinite_map : kp (new_indefinite_map refuse) optK.
Proof. apply kp_malloc. cbn [cellK nodeK]. split; [apply optK_none|apply pairsK_nil]. Qed.


(* ---------------- read-only traversal, serialization ---------------- *)
Lemma kp_mapM {A B} (f : A -> M B) (l : list A) : (forall x, In x l -> kp (f x) T) -> kp (mapM f l) T.
Proof.
  induction l as [|x r IH]; intros H; cbn [mapM]; [apply kp_ret; exact I|].
  eapply kp_bindT; [apply H; left; reflexivity|]. intros y.
  eapply kp_bindT; [apply IH; intros z Hz; apply H; right; exact Hz|]. intros ys. apply kp_ret. exact I.
Qed.

Lemma kp_str_guard (bytes : list N) data : optK data -> kp (if len bytes =? 0 then ret tt else touch_data false data) T.
Proof. intros H. destruct (len bytes =? 0); [apply kp_ret; exact I|apply kp_touch; exact H]. Qed.
Lemma kp_list_guard {X} (l : list X) data : optK data -> kp (match l with [] => ret tt | _ => touch_data false data end) T.
Proof. intros H. destruct l; [apply kp_ret; exact I|apply kp_touch; exact H]. Qed.

Lemma kp_chunk_bytes tx a : K a -> kp (chunk_bytes tx a) T.
Proof.
  intros Ka. unfold chunk_bytes. apply kp_bind_rd; [exact Ka|]. intros rc n Hn. cbn [fst snd].
  destruct n as [| | |text data bytes|text ? ? ? ?| | |]; try apply kp_fail.
  - cbn [nodeK] in Hn. destruct (Bool.eqb text tx); [|apply kp_fail].
    eapply kp_bindT; [apply kp_str_guard; exact Hn|]. intros _. apply kp_ret. exact I.
  - destruct (Bool.eqb text tx); apply kp_fail.
Qed.

Lemma kp_abs : forall fuel a, K a -> kp (abs fuel a) T.
Proof.
  induction fuel as [|f IH]; intros a Ka; cbn [abs]; [apply kp_fail|].
  apply kp_bind_rd; [exact Ka|]. intros rc n Hn. cbn [fst snd].
  destruct n as [neg iw v|fw bits|v|text data bytes|text hdr arr cap chunks|indef data al elems|indef data al pairs|v c];
    cbn [nodeK] in Hn.
  - apply kp_ret. exact I.
  - apply kp_ret. exact I.
  - apply kp_ret. exact I.
  - eapply kp_bindT; [apply kp_str_guard; exact Hn|]. intros _. apply kp_ret. exact I.
  - destruct Hn as (Hh & Ha & Hc).
    eapply kp_bindT; [apply kp_touch; apply optK_some; exact Hh|]. intros _.
    eapply kp_bindT; [apply kp_list_guard; exact Ha|]. intros _.
    eapply kp_bindT; [apply kp_mapM; intros x Hx; apply kp_chunk_bytes; apply Hc; exact Hx|]. intros cs.
    apply kp_ret. exact I.
  - destruct Hn as (Hd & He).
    eapply kp_bindT; [apply kp_list_guard; exact Hd|]. intros _.
    eapply kp_bindT; [apply kp_mapM; intros x Hx; apply IH; apply He; exact Hx|]. intros xs.
    apply kp_ret. exact I.
  - destruct Hn as (Hd & Hp).
    eapply kp_bindT; [apply kp_list_guard; exact Hd|]. intros _.
    eapply kp_bindT; [apply kp_mapM|intros kvs; apply kp_ret; exact I].
    intros [k ov] Hx. destruct (Hp k ov Hx) as [Hk Hov]. cbn [fst snd].
    eapply kp_bindT; [apply IH; exact Hk|]. intros k'.
    destruct ov as [v0|]; [|apply kp_fail].
    eapply kp_bindT; [apply IH; apply Hov; reflexivity|]. intros v'. apply kp_ret. exact I.
  - destruct c as [x|]; [|apply kp_fail].
    eapply kp_bindT; [apply IH; apply Hn; reflexivity|]. intros x'. apply kp_ret. exact I.
Qed.
Lemma kp_abs_of a : K a -> kp (abs_of a) T.
Proof. intros Ka. apply (kp_next_dep _ (fun x => abs (S (N.to_nat x)) a)). intros x. apply kp_abs. exact Ka. Qed.
Lemma kp_ser_size a : K a -> kp (serialized_size_h a) T.
Proof. intros Ka. unfold serialized_size_h. eapply kp_bindT; [apply kp_abs_of; exact Ka|]. intros t. apply kp_ret. exact I. Qed.
Lemma kp_serialize a n : K a -> kp (serialize_h a n) T.
Proof. intros Ka. unfold serialize_h. eapply kp_bindT; [apply kp_abs_of; exact Ka|]. intros t. apply kp_ret. exact I. Qed.
Lemma kp_ser_alloc a : K a -> kp (serialize_alloc_h refuse a) (fun r => optK (snd (fst r))).
Proof.
  intros Ka. unfold serialize_alloc_h. eapply kp_bindT; [apply kp_abs_of; exact Ka|]. intros t.
  destruct (ssize t =? 0); [apply kp_ret; apply optK_none|].
  eapply kp_bind; [apply kp_malloc_data|]. intros [p|] Hp; [|apply kp_ret; apply optK_none].
  destruct (serialize_into t (ssize t)) as [[wr out]|]; [apply kp_ret; exact Hp|apply kp_fail].
Qed.

(* ---------------- cbor_copy ---------------- *)
Lemma kp_copy : forall f a, K a -> kp (copy refuse f a) optK.
Proof.
  induction f as [|f IH]; intros a Ka; [apply kp_fail|].
  cbn [copy]. apply kp_bind_rd; [exact Ka|]. intros rc n Hn. cbn [fst snd].
  destruct n as [neg iw v|fw bits|v|text data bytes|text hdr arr cap chunks|indef data al elems|indef data al pairs|v c];
    cbn [nodeK] in Hn.
  - apply kp_build_int.
  - apply kp_build_float.
  - apply kp_build_ctrl.
  - eapply kp_bindT; [apply kp_str_guard; exact Hn|]. intros _. apply kp_build_string.
  - destruct Hn as (Hh & Ha & Hc).
    eapply kp_bind; [apply kp_new_indefinite_string|]. intros [res|] Hres; [|apply kp_ret; apply optK_none].
    apply optK_inv in Hres.
    change (kp (chk_loop refuse f res chunks) optK).
    induction chunks as [|ch rest IHc]; cbn [chk_loop]; [apply kp_ret; apply optK_some; exact Hres|].
    apply allK_cons in Hc. destruct Hc as [Kch Hc].
    eapply kp_bind; [apply IH; exact Kch|]. intros [cc|] Hcc.
    2:{ eapply kp_bindT; [apply kp_decref; exact Hres|]. intros _. apply kp_ret. apply optK_none. }
    apply optK_inv in Hcc.
    eapply kp_bindT; [apply kp_add_chunk; assumption|]. intros [|].
    + eapply kp_bindT; [apply kp_decref; exact Hcc|]. intros _. apply IHc. exact Hc.
    + eapply kp_bindT; [apply kp_decref; exact Hcc|]. intros _.
      eapply kp_bindT; [apply kp_decref; exact Hres|]. intros _. apply kp_ret. apply optK_none.
  - destruct Hn as (Hd & He).
    eapply kp_bind; [destruct indef; [apply kp_new_indefinite_array|apply kp_new_definite_array]|].
    intros [res|] Hres; [|apply kp_ret; apply optK_none]. apply optK_inv in Hres.
    change (kp (arr_loop refuse f res data elems) optK).
    induction elems as [|e rest IHc]; cbn [arr_loop]; [apply kp_ret; apply optK_some; exact Hres|].
    apply allK_cons in He. destruct He as [Ke He].
    eapply kp_bindT; [apply kp_touch; exact Hd|]. intros _.
    eapply kp_bindT; [apply kp_incref; exact Ke|]. intros _.
    eapply kp_bindT; [apply kp_move; exact Ke|]. intros _.
    eapply kp_bind; [apply IH; exact Ke|]. intros [cc|] Hcc.
    2:{ eapply kp_bindT; [apply kp_decref; exact Hres|]. intros _. apply kp_ret. apply optK_none. }
    apply optK_inv in Hcc.
    eapply kp_bindT; [apply kp_array_push; assumption|]. intros [|].
    + eapply kp_bindT; [apply kp_decref; exact Hcc|]. intros _. apply IHc. exact He.
    + eapply kp_bindT; [apply kp_decref; exact Hcc|]. intros _.
      eapply kp_bindT; [apply kp_decref; exact Hres|]. intros _. apply kp_ret. apply optK_none.
  - destruct Hn as (Hd & Hp).
    eapply kp_bind; [destruct indef; [apply kp_new_indefinite_map|apply kp_new_definite_map]|].
    intros [res|] Hres; [|apply kp_ret; apply optK_none]. apply optK_inv in Hres.
    change (kp (map_loop refuse f res data pairs) optK).
    induction pairs as [|[k ov] rest IHc]; cbn [map_loop]; [apply kp_ret; apply optK_some; exact Hres|].
    apply pairsK_cons in Hp. destruct Hp as (Kk & Kov & Hp).
    eapply kp_bindT; [apply kp_touch; exact Hd|]. intros _.
    eapply kp_bind; [apply IH; exact Kk|]. intros [kc|] Hkc.
    2:{ eapply kp_bindT; [apply kp_decref; exact Hres|]. intros _. apply kp_ret. apply optK_none. }
    apply optK_inv in Hkc.
    destruct ov as [v0|]; [|apply kp_fail]. apply optK_inv in Kov.
    eapply kp_bind; [apply IH; exact Kov|]. intros [vc|] Hvc.
    2:{ eapply kp_bindT; [apply kp_decref; exact Hres|]. intros _.
        eapply kp_bindT; [apply kp_decref; exact Hkc|]. intros _. apply kp_ret. apply optK_none. }
    apply optK_inv in Hvc.
    eapply kp_bindT; [apply kp_map_add; assumption|]. intros [|].
    + eapply kp_bindT; [apply kp_decref; exact Hkc|]. intros _.
      eapply kp_bindT; [apply kp_decref; exact Hvc|]. intros _. apply IHc. exact Hp.
    + eapply kp_bindT; [apply kp_decref; exact Hres|]. intros _.
      eapply kp_bindT; [apply kp_decref; exact Hkc|]. intros _.
      eapply kp_bindT; [apply kp_decref; exact Hvc|]. intros _. apply kp_ret. apply optK_none.
  - destruct c as [x|]; [|apply kp_fail]. apply optK_inv in Hn.
    eapply kp_bindT; [apply kp_incref; exact Hn|]. intros _.
    eapply kp_bindT; [apply kp_move; exact Hn|]. intros _.
    eapply kp_bind; [apply IH; exact Hn|]. intros [ic|] Hic; [|apply kp_ret; apply optK_none].
    apply optK_inv in Hic.
    eapply kp_bind; [apply kp_build_tag; exact Hic|]. intros t Ht.
    eapply kp_bindT; [apply kp_decref; exact Hic|]. intros _. apply kp_ret. exact Ht.
Qed.
Lemma kp_copy_h a : K a -> kp (copy_h refuse a) optK.
Proof. intros Ka. apply (kp_next_dep _ (fun x => copy refuse (S (N.to_nat x)) a)). intros x. apply kp_copy. exact Ka. Qed.

(* ---------------- cbor_load ---------------- *)
Variable L : N.

Definition srecK (r : srec) : Prop := K (fst (fst r)) /\ K (snd (fst r)).
Definition stkK (stk : list srec) : Prop := Forall srecK stk.
Definition ctxK (c : hctx) : Prop := stkK (hstack c) /\ optK (hroot c).

Lemma ctxK_mk stk cf se : stkK stk -> ctxK (mkhctx stk None cf se).
Proof. intros H. split; [exact H|apply optK_none]. Qed.

Lemma kp_stack_pop r : srecK r -> kp (stack_pop r) T.
Proof. intros [H _]. unfold stack_pop. apply kp_free. apply optK_some. exact H. Qed.

Lemma kp_happend : forall stk it, K it -> stkK stk -> kp (happend refuse it stk) ctxK.
Proof.
  induction stk as [|[[rec top] sub] rest IH]; intros it Kit Hs; cbn [happend].
  { apply kp_ret. split; [constructor|apply optK_some; exact Kit]. }
  pose proof Hs as Hs0. apply Forall_cons_iff in Hs. destruct Hs as [[Krec Ktop] Hrest]. cbn [fst snd] in Krec, Ktop.
  assert (Hr : srecK (rec, top, sub)) by (split; assumption).
  assert (Hdone : forall cf se, kp (decref it ;;; ret (mkhctx ((rec, top, sub) :: rest) None cf se)) ctxK).
  { intros cf se. eapply kp_bindT; [apply kp_decref; exact Kit|]. intros _. apply kp_ret. apply ctxK_mk. exact Hs0. }
  assert (Hnext : forall sub', kp (ret (mkhctx ((rec, top, sub') :: rest) None false false)) ctxK).
  { intros sub'. apply kp_ret. apply ctxK_mk. constructor; [split; assumption|exact Hrest]. }
  assert (Hpop : kp (stack_pop (rec, top, sub) ;;; happend refuse top rest) ctxK).
  { eapply kp_bindT; [apply kp_stack_pop; exact Hr|]. intros _. apply IH; assumption. }
  apply kp_bind_rd; [exact Ktop|]. intros rc n Hn. cbn [fst snd].
  destruct n as [neg iw v|fw bits|v|text data bytes|text hdr arr cap chunks|indef data al elems|indef data al pairs|v c];
    try apply Hdone.
  - destruct indef.
    + eapply kp_bindT; [apply kp_array_push; assumption|]. intros ok.
      eapply kp_bindT; [apply kp_decref; exact Kit|]. intros _. apply kp_ret. apply ctxK_mk. exact Hs0.
    + eapply kp_bindT; [apply kp_assert|]. intros _.
      eapply kp_bindT; [apply kp_array_push; assumption|]. intros ok.
      destruct (negb ok); [apply Hdone|].
      eapply kp_bindT; [apply kp_decref; exact Kit|]. intros _.
      destruct (sub64 sub 1 =? 0); [apply Hpop|apply Hnext].
  - eapply kp_bindT with (Q := T).
    + destruct (odd sub).
      * eapply kp_bindT; [apply kp_map_add_value; assumption|]. intros ok.
        eapply kp_bindT; [apply kp_assert|]. intros _. apply kp_ret. exact I.
      * apply kp_map_add_key; assumption.
    + intros ok. destruct (negb ok); [apply Hdone|].
      eapply kp_bindT; [apply kp_decref; exact Kit|]. intros _.
      destruct indef; [apply Hnext|].
      eapply kp_bindT; [apply kp_assert|]. intros _.
      destruct (sub64 sub 1 =? 0); [apply Hpop|apply Hnext].
  - eapply kp_bindT; [apply kp_assert|]. intros _.
    eapply kp_bindT; [apply kp_tag_set; assumption|]. intros _.
    eapply kp_bindT; [apply kp_decref; exact Kit|]. intros _. apply Hpop.
Qed.

Lemma kp_push_ctx res sub stk : K res -> stkK stk -> kp (push_ctx refuse L res sub stk) ctxK.
Proof.
  intros Kr Hs. unfold push_ctx.
  assert (Hdone : kp (decref res ;;; ret (mkhctx stk None true false)) ctxK).
  { eapply kp_bindT; [apply kp_decref; exact Kr|]. intros _. apply kp_ret. apply ctxK_mk. exact Hs. }
  destruct (len stk =? L); [exact Hdone|].
  eapply kp_bind; [apply kp_malloc_data|]. intros [rec|] Hrec; [|exact Hdone].
  apply kp_ret. apply ctxK_mk. constructor; [|exact Hs]. split; [apply Hrec; reflexivity|exact Kr].
Qed.

Lemma kp_cf stk : stkK stk -> kp (ret (cf_ctx stk)) ctxK.
Proof. intros Hs. apply kp_ret. apply ctxK_mk. exact Hs. Qed.

Lemma kp_leaf_cb mk stk : kp mk optK -> stkK stk -> kp (leaf_cb refuse mk stk) ctxK.
Proof.
  intros H Hs. unfold leaf_cb. eapply kp_bind; [exact H|]. intros [a|] Ha; [|apply kp_cf; exact Hs].
  apply kp_happend; [apply Ha; reflexivity|exact Hs].
Qed.

Lemma kp_string_cb text d stk : stkK stk -> kp (string_cb refuse text d stk) ctxK.
Proof.
  intros Hs. unfold string_cb. eapply kp_bind; [apply kp_malloc_data|]. intros [handle|] Hh; [|apply kp_cf; exact Hs].
  eapply kp_bind; [apply kp_new_definite_string|]. intros [chunk|] Hc.
  2:{ eapply kp_bindT; [apply kp_free; exact Hh|]. intros _. apply kp_cf. exact Hs. }
  apply optK_inv in Hc.
  eapply kp_bindT; [apply kp_wr; [exact Hc|cbn [nodeK]; exact Hh]|]. intros _.
  assert (Happ : kp (happend refuse chunk stk) ctxK) by (apply kp_happend; assumption).
  destruct stk as [|[[rec top] sub] rest]; [exact Happ|].
  pose proof Hs as Hs0. apply Forall_cons_iff in Hs. destruct Hs as [[Krec Ktop] Hrest]. cbn [fst snd] in Krec, Ktop.
  apply kp_bind_rd; [exact Ktop|]. intros rc n Hn. cbn [fst snd].
  destruct n; try exact Happ.
  destruct (Bool.eqb text0 text); [|exact Happ].
  eapply kp_bindT; [apply kp_add_chunk; assumption|]. intros ok.
  eapply kp_bindT; [apply kp_decref; exact Hc|]. intros _. apply kp_ret. apply ctxK_mk. exact Hs0.
Qed.

Lemma kp_open (mk : M (option addr)) sub stk :
  kp mk optK -> stkK stk ->
  kp (r <- mk ;; match r with None => ret (cf_ctx stk) | Some a => push_ctx refuse L a sub stk end) ctxK.
Proof.
  intros H Hs. eapply kp_bind; [exact H|]. intros [a|] Ha; [|apply kp_cf; exact Hs].
  apply kp_push_ctx; [apply Ha; reflexivity|exact Hs].
Qed.

Lemma kp_hcallback tk stk : stkK stk -> kp (hcallback refuse L tk stk) ctxK.
Proof.
  intros Hs. destruct tk; cbn [hcallback].
  - apply kp_leaf_cb; [apply kp_build_int|exact Hs].
  - apply kp_leaf_cb; [apply kp_build_int|exact Hs].
  - apply kp_string_cb; exact Hs.
  - apply kp_open; [apply kp_new_indefinite_string|exact Hs].
  - apply kp_string_cb; exact Hs.
  - apply kp_open; [apply kp_new_indefinite_string|exact Hs].
  - eapply kp_bind; [apply kp_new_definite_array|]. intros [a|] Ha; [|apply kp_cf; exact Hs].
    apply optK_inv in Ha. destruct (0 <? n); [apply kp_push_ctx|apply kp_happend]; assumption.
  - apply kp_open; [apply kp_new_indefinite_array|exact Hs].
  - eapply kp_bind; [apply kp_new_definite_map|]. intros [a|] Ha; [|apply kp_cf; exact Hs].
    apply optK_inv in Ha. destruct (0 <? n); [apply kp_push_ctx|apply kp_happend]; assumption.
  - apply kp_open; [apply kp_new_indefinite_map|exact Hs].
  - apply kp_open; [apply kp_new_tag|exact Hs].
  - apply kp_leaf_cb; [apply kp_build_float|exact Hs].
  - apply kp_leaf_cb; [apply kp_build_ctrl|exact Hs].
  - apply kp_leaf_cb; [apply kp_build_ctrl|exact Hs].
  - apply kp_leaf_cb; [apply kp_build_ctrl|exact Hs].
  - assert (Hse : kp (ret (mkhctx stk None false true)) ctxK) by (apply kp_ret; apply ctxK_mk; exact Hs).
    destruct stk as [|[[rec top] sub] rest]; [exact Hse|].
    pose proof Hs as Hs0. apply Forall_cons_iff in Hs. destruct Hs as [[Krec Ktop] Hrest]. cbn [fst snd] in Krec, Ktop.
    apply kp_bind_rd; [exact Ktop|]. intros rc n Hn. cbn [fst snd].
    match goal with |- kp (if ?b then _ else _) _ => destruct b end; [|exact Hse].
    eapply kp_bindT; [apply kp_stack_pop; split; assumption|]. intros _. apply kp_happend; assumption.
Qed.

Lemma kp_unwind : forall stk, stkK stk -> kp (unwind stk) T.
Proof.
  induction stk as [|[[rec top] sub] rest IH]; intros Hs; cbn [unwind]; [apply kp_ret; exact I|].
  apply Forall_cons_iff in Hs. destruct Hs as [[Krec Ktop] Hrest]. cbn [fst snd] in Krec, Ktop.
  eapply kp_bindT; [apply kp_decref; exact Ktop|]. intros _.
  eapply kp_bindT; [apply kp_stack_pop; split; assumption|]. intros _. apply IH. exact Hrest.
Qed.

Definition hresK (r : hres) : Prop := optK (fst (fst (fst r))).

Lemma kp_hload_loop : forall fuel buf read stk, stkK stk -> kp (hload_loop refuse L fuel buf read stk) hresK.
Proof.
  induction fuel as [|f IH]; intros buf read stk Hs; cbn [hload_loop]; [apply kp_fail|].
  assert (Hun : forall stk' e p q, stkK stk' -> kp (unwind stk' ;;; ret (None, e, p, q)) hresK).
  { intros stk' e p q Hs'. eapply kp_bindT; [apply kp_unwind; exact Hs'|]. intros _. apply kp_ret. apply optK_none. }
  destruct (len buf <=? read); [apply Hun; exact Hs|].
  destruct (stream_decode (skipnN read buf)) as [|r e]; [apply kp_fail|].
  destruct (st r); try (apply Hun; exact Hs).
  destruct e as [tk|]; [|apply kp_fail].
  eapply kp_bind; [apply kp_hcallback; exact Hs|]. intros c [Hc1 Hc2].
  destruct (hcf c); [apply Hun; exact Hc1|].
  destruct (hse c); [apply Hun; exact Hc1|].
  destruct (hstack c) as [|r0 stk'] eqn:Es.
  - destruct (hroot c) as [t|]; [|apply kp_fail]. apply kp_ret. exact Hc2.
  - apply IH. exact Hc1.
Qed.

Lemma kp_load_h buf : kp (load_h refuse L buf) hresK.
Proof. unfold load_h. destruct (len buf =? 0); [apply kp_ret; apply optK_none|apply kp_hload_loop; constructor]. Qed.

(* ---------------- every client call ---------------- *)
Theorem kp_step s o :
  (forall h a, In h (operands o) -> hget s h = Some a -> K a) -> kp (step refuse L s o) T.
Proof.
  intros Hop.
  assert (Hnew : forall (m : M (option addr)), kp m optK -> kp (newh s m) T).
  { intros m Hm. unfold newh. eapply kp_bindT; [exact Hm|]. intros r. apply kp_ret. exact I. }
  destruct o as [neg iw v|fw bits|v|text bytes|text|n| |n| |v|v x|a x|a i|a i x|a i x|m k v|c x|t x|t|h|h|h|bytes|h|h n|h];
    cbn [step operands] in *.
  - apply Hnew, kp_build_int.
  - apply Hnew, kp_build_float.
  - apply Hnew, kp_build_ctrl.
  - apply Hnew, kp_build_string.
  - apply Hnew, kp_new_indefinite_string.
  - apply Hnew, kp_new_definite_array.
  - apply Hnew, kp_new_indefinite_array.
  - apply Hnew, kp_new_definite_map.
  - apply Hnew, kp_new_indefinite_map.
  - apply Hnew, kp_new_tag.
  - unfold with1h. destruct (hget s x) as [q|] eqn:Ex; [|apply kp_ret; exact I].
    apply Hnew, kp_build_tag. eapply Hop; [left; reflexivity|exact Ex].
  - unfold with2. destruct (hget s a) as [p|] eqn:Ea; [|apply kp_ret; exact I].
    destruct (hget s x) as [q|] eqn:Ex; [|apply kp_ret; exact I].
    eapply kp_bindT; [apply kp_array_push; eapply Hop; [| eassumption | | eassumption]; cbn [In]; auto|].
    intros b. apply kp_ret. exact I.
  - unfold with1h. destruct (hget s a) as [p|] eqn:Ea; [|apply kp_ret; exact I].
    apply Hnew, kp_array_get. eapply Hop; [left; reflexivity|exact Ea].
  - unfold with2. destruct (hget s a) as [p|] eqn:Ea; [|apply kp_ret; exact I].
    destruct (hget s x) as [q|] eqn:Ex; [|apply kp_ret; exact I].
    eapply kp_bindT; [apply kp_array_set; eapply Hop; [| eassumption | | eassumption]; cbn [In]; auto|].
    intros b. apply kp_ret. exact I.
  - unfold with2. destruct (hget s a) as [p|] eqn:Ea; [|apply kp_ret; exact I].
    destruct (hget s x) as [q|] eqn:Ex; [|apply kp_ret; exact I].
    eapply kp_bindT; [apply kp_array_replace; eapply Hop; [| eassumption | | eassumption]; cbn [In]; auto|].
    intros b. apply kp_ret. exact I.
  - destruct (hget s v) as [r|] eqn:Ev; [|apply kp_ret; exact I].
    unfold with2. destruct (hget s m) as [p|] eqn:Em; [|apply kp_ret; exact I].
    destruct (hget s k) as [q|] eqn:Ek; [|apply kp_ret; exact I].
    eapply kp_bindT; [apply kp_map_add; eapply Hop; [| eassumption | | eassumption | | eassumption]; cbn [In]; auto|].
    intros b. apply kp_ret. exact I.
  - unfold with2. destruct (hget s c) as [p|] eqn:Ec; [|apply kp_ret; exact I].
    destruct (hget s x) as [q|] eqn:Ex; [|apply kp_ret; exact I].
    eapply kp_bindT; [apply kp_add_chunk; eapply Hop; [| eassumption | | eassumption]; cbn [In]; auto|].
    intros b. apply kp_ret. exact I.
  - unfold with2. destruct (hget s t) as [p|] eqn:Et; [|apply kp_ret; exact I].
    destruct (hget s x) as [q|] eqn:Ex; [|apply kp_ret; exact I].
    eapply kp_bindT; [apply kp_tag_set; eapply Hop; [| eassumption | | eassumption]; cbn [In]; auto|].
    intros b. apply kp_ret. exact I.
  - unfold with1h. destruct (hget s t) as [p|] eqn:Et; [|apply kp_ret; exact I].
    apply Hnew. eapply kp_bind; [apply kp_tag_item; eapply Hop; [left; reflexivity|exact Et]|].
    intros x Kx. apply kp_ret. apply optK_some. exact Kx.
  - unfold with1. destruct (hget s h) as [p|] eqn:Eh; [|apply kp_ret; exact I].
    eapply kp_bindT; [apply kp_incref; eapply Hop; [left; reflexivity|exact Eh]|]. intros _. apply kp_ret. exact I.
  - unfold with1. destruct (hget s h) as [p|] eqn:Eh; [|apply kp_ret; exact I].
    eapply kp_bindT; [apply kp_decref; eapply Hop; [left; reflexivity|exact Eh]|]. intros _. apply kp_ret. exact I.
  - unfold with1h. destruct (hget s h) as [p|] eqn:Eh; [|apply kp_ret; exact I].
    apply Hnew, kp_copy_h. eapply Hop; [left; reflexivity|exact Eh].
  - eapply kp_bindT; [apply kp_load_h|]. intros [[[[a|] code] pos] rd]; apply kp_ret; exact I.
  - unfold with1. destruct (hget s h) as [p|] eqn:Eh; [|apply kp_ret; exact I].
    eapply kp_bindT; [apply kp_ser_size; eapply Hop; [left; reflexivity|exact Eh]|]. intros r. apply kp_ret. exact I.
  - unfold with1. destruct (hget s h) as [p|] eqn:Eh; [|apply kp_ret; exact I].
    eapply kp_bindT; [apply kp_serialize; eapply Hop; [left; reflexivity|exact Eh]|].
    intros [[wr bs]|]; [apply kp_ret; exact I|apply kp_fail].
  - unfold with1. destruct (hget s h) as [p|] eqn:Eh; [|apply kp_ret; exact I].
    eapply kp_bind; [apply kp_ser_alloc; eapply Hop; [left; reflexivity|exact Eh]|].
    intros [[wr [buf|]] bs] Hb; cbn [fst snd] in Hb; [|apply kp_ret; exact I].
    eapply kp_bindT; [apply kp_free; exact Hb|]. intros _. apply kp_ret. exact I.
Qed.

(* ---------------- the third layer of client calls (HHist3.step3) ---------------- *)
Lemma kp_lift3 s (m : M (cstate * out)) : kp m T -> kp (lift3 s m) T.
Proof. intros H. unfold lift3. eapply kp_bindT; [exact H|]. intros r. apply kp_ret. exact I. Qed.
Lemma kp_newh s (m : M (option addr)) : kp m optK -> kp (newh s m) T.
Proof. intros Hm. unfold newh. eapply kp_bindT; [exact Hm|]. intros r. apply kp_ret. exact I. Qed.
Lemma kp_set_ctrl_at a v : K a -> kp (set_ctrl_at a v) T.
Proof.
  intros Ka. unfold set_ctrl_at. apply kp_bind_rd; [exact Ka|]. intros rc n Hn. cbn [fst snd].
  destruct n; try apply kp_fail. apply kp_wr; [exact Ka|exact I].
Qed.

Theorem kp_step3 s o :
  (forall h a, In h (operands3 o) -> hget (base s) h = Some a -> K a) -> kp (step3 refuse L s o) T.
Proof.
  intros Hop.
  assert (H1 : forall h a, operands3 o = [h] -> hget (base s) h = Some a -> K a).
  { intros h a E Ha. apply (Hop h a); [rewrite E; left; reflexivity|exact Ha]. }
  destruct o as [o|text|h bytes|h n|iw|iw h v|neg h|fw|fw h bits| |h v|h b|b| | |h|a x|m k v|t x|v x|h|bytes|k h n|h|h];
    cbn [step3 operands3] in *.
  - (* the 26 calls of the first layer *)
    unfold old3. destruct (forallb (is_set s) (op_reads o)); [|apply kp_fail].
    apply kp_lift3. apply kp_step. exact Hop.
  - apply kp_lift3. unfold new_definite_string_op. apply kp_newh. apply kp_new_definite_string.
  - apply kp_lift3. unfold set_handle_new. destruct (hget (base s) h) as [a|] eqn:Eh; [|apply kp_ret; exact I].
    pose proof (H1 h a eq_refl Eh) as Ka.
    eapply kp_bind; [apply kp_malloc_data|]. intros [d|] Hd; [|apply kp_ret; exact I].
    apply kp_bind_rd; [exact Ka|]. intros rc nd Hn. cbn [fst snd].
    destruct nd as [neg iw v|fw bits|v|text data bs|text hdr arr cap chunks|indef data al elems|indef data al pairs|v c];
      try apply kp_fail.
    destruct data; [apply kp_fail|].
    eapply kp_bindT; [apply kp_wr; [exact Ka|cbn [nodeK]; exact Hd]|]. intros _. apply kp_ret. exact I.
  - apply kp_lift3. unfold set_handle_shorten. destruct (hget (base s) h) as [a|] eqn:Eh; [|apply kp_ret; exact I].
    pose proof (H1 h a eq_refl Eh) as Ka.
    apply kp_bind_rd; [exact Ka|]. intros rc nd Hn. cbn [fst snd].
    destruct nd as [neg iw v|fw bits|v|text data bs|text hdr arr cap chunks|indef data al elems|indef data al pairs|v c];
      try apply kp_fail.
    destruct (n <=? len bs); [|apply kp_fail].
    eapply kp_bindT; [apply kp_wr; [exact Ka|cbn [nodeK] in *; exact Hn]|]. intros _. apply kp_ret. exact I.
  - unfold new_int. eapply kp_bindT; [apply kp_malloc; exact I|]. intros r. apply kp_ret. exact I.
  - unfold set_uint. destruct (hget (base s) h) as [a|] eqn:Eh; [|apply kp_ret; exact I].
    pose proof (H1 h a eq_refl Eh) as Ka.
    apply kp_bind_rd; [exact Ka|]. intros rc nd Hn. cbn [fst snd]. destruct nd; try apply kp_fail.
    eapply kp_bindT; [apply kp_assert|]. intros _.
    eapply kp_bindT; [apply kp_wr; [exact Ka|exact I]|]. intros _. apply kp_ret. exact I.
  - unfold mark_int. destruct (hget (base s) h) as [a|] eqn:Eh; [|apply kp_ret; exact I].
    pose proof (H1 h a eq_refl Eh) as Ka.
    apply kp_bind_rd; [exact Ka|]. intros rc nd Hn. cbn [fst snd]. destruct nd; try apply kp_fail.
    eapply kp_bindT; [apply kp_wr; [exact Ka|exact I]|]. intros _. apply kp_ret. exact I.
  - unfold new_float. eapply kp_bindT; [apply kp_malloc; exact I|]. intros r. apply kp_ret. exact I.
  - unfold set_float. destruct (hget (base s) h) as [a|] eqn:Eh; [|apply kp_ret; exact I].
    pose proof (H1 h a eq_refl Eh) as Ka.
    apply kp_bind_rd; [exact Ka|]. intros rc nd Hn. cbn [fst snd]. destruct nd; try apply kp_fail.
    eapply kp_bindT; [apply kp_assert|]. intros _.
    eapply kp_bindT; [apply kp_wr; [exact Ka|exact I]|]. intros _. apply kp_ret. exact I.
  - unfold new_ctrl. apply kp_lift3. apply kp_newh. unfold new_ctrl_item. apply kp_malloc. exact I.
  - unfold set_ctrl. destruct (hget (base s) h) as [a|] eqn:Eh; [|apply kp_ret; exact I].
    pose proof (H1 h a eq_refl Eh) as Ka.
    eapply kp_bindT; [apply kp_set_ctrl_at; exact Ka|]. intros _. apply kp_ret. exact I.
  - unfold set_bool. destruct (hget (base s) h) as [a|] eqn:Eh; [|apply kp_ret; exact I].
    pose proof (H1 h a eq_refl Eh) as Ka.
    apply kp_bind_rd; [exact Ka|]. intros rc nd Hn. cbn [fst snd]. destruct nd; try apply kp_fail.
    eapply kp_bindT; [apply kp_assert|]. intros _.
    eapply kp_bindT; [apply kp_wr; [exact Ka|exact I]|]. intros _. apply kp_ret. exact I.
  - unfold build_bool. apply kp_lift3. apply kp_newh. apply kp_build_ctrl.
  - unfold new_ctrl_set. apply kp_lift3. apply kp_newh. unfold new_ctrl_item.
    eapply kp_bind; [apply kp_malloc; exact I|]. intros [a|] Ha; [|apply kp_ret; apply optK_none].
    eapply kp_bindT; [apply kp_set_ctrl_at; apply Ha; reflexivity|]. intros _. apply kp_ret. exact Ha.
  - unfold new_ctrl_set. apply kp_lift3. apply kp_newh. unfold new_ctrl_item.
    eapply kp_bind; [apply kp_malloc; exact I|]. intros [a|] Ha; [|apply kp_ret; apply optK_none].
    eapply kp_bindT; [apply kp_set_ctrl_at; apply Ha; reflexivity|]. intros _. apply kp_ret. exact Ha.
  - unfold move_op. destruct (hget (base s) h) as [a|] eqn:Eh; [|apply kp_ret; exact I].
    pose proof (H1 h a eq_refl Eh) as Ka.
    eapply kp_bindT; [apply kp_move; exact Ka|]. intros _. apply kp_ret. exact I.
  - unfold push_move. destruct (hget (base s) a) as [p|] eqn:Ea; [|apply kp_ret; exact I].
    destruct (hget (base s) x) as [q|] eqn:Ex; [|apply kp_ret; exact I].
    assert (Kp : K p) by (eapply Hop; [left; reflexivity|exact Ea]).
    assert (Kq : K q) by (eapply Hop; [right; left; reflexivity|exact Ex]).
    destruct (is_set s x); [|apply kp_fail].
    eapply kp_bindT; [apply kp_move; exact Kq|]. intros _.
    eapply kp_bindT; [apply kp_array_push; assumption|]. intros b. apply kp_ret. exact I.
  - unfold map_add_move. destruct (hget (base s) m) as [p|] eqn:Em; [|apply kp_ret; exact I].
    destruct (hget (base s) k) as [q|] eqn:Ek; [|apply kp_ret; exact I].
    destruct (hget (base s) v) as [r|] eqn:Ev; [|apply kp_ret; exact I].
    assert (Kp : K p) by (eapply Hop; [left; reflexivity|exact Em]).
    assert (Kq : K q) by (eapply Hop; [right; left; reflexivity|exact Ek]).
    assert (Kr : K r) by (eapply Hop; [right; right; left; reflexivity|exact Ev]).
    destruct (is_set s k && is_set s v); [|apply kp_fail].
    eapply kp_bindT; [apply kp_move; exact Kq|]. intros _.
    eapply kp_bindT; [apply kp_move; exact Kr|]. intros _.
    eapply kp_bindT; [apply kp_map_add; assumption|]. intros b. apply kp_ret. exact I.
  - unfold tag_set_move. destruct (hget (base s) t) as [p|] eqn:Et; [|apply kp_ret; exact I].
    destruct (hget (base s) x) as [q|] eqn:Ex; [|apply kp_ret; exact I].
    assert (Kp : K p) by (eapply Hop; [left; reflexivity|exact Et]).
    assert (Kq : K q) by (eapply Hop; [right; left; reflexivity|exact Ex]).
    destruct (is_set s x); [|apply kp_fail].
    eapply kp_bindT; [apply kp_move; exact Kq|]. intros _.
    eapply kp_bindT; [apply kp_tag_set; assumption|]. intros _. apply kp_ret. exact I.
  - unfold build_tag_move. destruct (hget (base s) x) as [q|] eqn:Ex; [|apply kp_ret; exact I].
    pose proof (H1 x q eq_refl Ex) as Kq.
    destruct (is_set s x); [|apply kp_fail].
    eapply kp_bindT; [apply kp_move; exact Kq|]. intros _.
    apply kp_lift3. apply kp_newh. apply kp_build_tag. exact Kq.
  - unfold intermediate_decref. destruct (hget (base s) h) as [a|] eqn:Eh; [|apply kp_ret; exact I].
    pose proof (H1 h a eq_refl Eh) as Ka.
    eapply kp_bindT; [apply kp_decref; exact Ka|]. intros _. apply kp_ret. exact I.
  - unfold build_string0. apply kp_lift3. apply kp_newh. apply kp_build_string.
  - unfold serialize_typed. destruct (hget (base s) h) as [a|] eqn:Eh; [|apply kp_ret; exact I].
    pose proof (H1 h a eq_refl Eh) as Ka.
    destruct (memN a (unset s)); [apply kp_fail|].
    apply kp_bind_rd; [exact Ka|]. intros rc nd Hn.
    eapply kp_bindT; [apply kp_assert|]. intros _.
    eapply kp_bindT; [apply kp_serialize; exact Ka|]. intros [[wr bs]|]; [apply kp_ret; exact I|apply kp_fail].
  - unfold preds3. destruct (hget (base s) h) as [a|] eqn:Eh; [|apply kp_ret; exact I].
    pose proof (H1 h a eq_refl Eh) as Ka.
    apply kp_bind_rd; [exact Ka|]. intros rc nd Hn. apply kp_ret. exact I.
  - unfold vals3. destruct (hget (base s) h) as [a|] eqn:Eh; [|apply kp_ret; exact I].
    pose proof (H1 h a eq_refl Eh) as Ka.
    destruct (memN a (unset s)); [apply kp_fail|].
    apply kp_bind_rd; [exact Ka|]. intros rc nd Hn. apply kp_ret. exact I.
Qed.

End Abs.

(* ------------------------------------------------------------------------------------------ *)
(* the unary instance: preservation of a world predicate [G]                                   *)
(* ------------------------------------------------------------------------------------------ *)
Section Gen.
Variable refuse : N -> N -> bool.
Variable G : world -> Prop.
Variable K : addr -> Prop.

(* the six primitives *)
Hypothesis G_rd : forall a w c w', G w -> K a -> rd_item a w = Ret c w' -> G w' /\ nodeK K (snd c).
Hypothesis G_wr : forall a rc n w u w', G w -> K a -> nodeK K n -> wr_item a rc n w = Ret u w' -> G w'.
Hypothesis G_touch : forall wr p w u w', G w -> optK K p -> touch_data wr p w = Ret u w' -> G w'.
Hypothesis G_free : forall p w u w', G w -> optK K p -> free p w = Ret u w' -> G w'.
Hypothesis G_malloc : forall sz c w r w', G w -> cellK K c -> malloc refuse sz c w = Ret r w' -> G w' /\ optK K r.
Hypothesis G_realloc : forall old sz w r w', G w -> optK K old -> realloc refuse old sz w = Ret r w' -> G w' /\ optK K r.

(* partial-correctness triples: if [m] returns, [G] still holds and the result satisfies [Q] *)
Definition kp1 (A : Type) (m : M A) (Q : A -> Prop) : Prop :=
  forall w r w', G w -> m w = Ret r w' -> G w' /\ Q r.

Lemma kp1_ret (A : Type) (a : A) (Q : A -> Prop) : Q a -> kp1 A (ret a) Q.
Proof. intros H w r w' C E. unfold ret in E. injection E as <- <-. auto. Qed.
Lemma kp1_fail (A : Type) k (Q : A -> Prop) : kp1 A (fail k) Q.
Proof. intros w r w' C E. discriminate E. Qed.
Lemma kp1_bind (A B : Type) (m : M A) (f : A -> M B) (Q : A -> Prop) (R : B -> Prop) :
  kp1 A m Q -> (forall a, Q a -> kp1 B (f a) R) -> kp1 B (bind m f) R.
Proof.
  intros Hm Hf w r w' C E. apply bind_inv in E. destruct E as (a & w1 & E1 & E2).
  destruct (Hm _ _ _ C E1) as [C1 Qa]. exact (Hf a Qa _ _ _ C1 E2).
Qed.
Lemma kp1_world (A : Type) (f : world -> M A) (Q : A -> Prop) : (forall x, kp1 A (f x) Q) -> kp1 A (fun w => f w w) Q.
Proof. intros H w r w' C E. exact (H w w r w' C E). Qed.
Lemma kp1_rd a : K a -> kp1 _ (rd_item a) (fun c => nodeK K (snd c)).
Proof. intros Ka w r w' C E. eapply G_rd; eassumption. Qed.
Lemma kp1_wr a rc n : K a -> nodeK K n -> kp1 _ (wr_item a rc n) (fun _ => True).
Proof. intros Ka Hn w r w' C E. split; [|exact I]. eapply G_wr; eassumption. Qed.
Lemma kp1_touch wr p : optK K p -> kp1 _ (touch_data wr p) (fun _ => True).
Proof. intros Hp w r w' C E. split; [|exact I]. eapply G_touch; eassumption. Qed.
Lemma kp1_free p : optK K p -> kp1 _ (free p) (fun _ => True).
Proof. intros Hp w r w' C E. split; [|exact I]. eapply G_free; eassumption. Qed.
Lemma kp1_malloc sz c : cellK K c -> kp1 _ (malloc refuse sz c) (optK K).
Proof. intros Hc w r w' C E. eapply G_malloc; eassumption. Qed.
Lemma kp1_realloc old sz : optK K old -> kp1 _ (realloc refuse old sz) (optK K).
Proof. intros Ho w r w' C E. eapply G_realloc; eassumption. Qed.
Lemma kp1_next_dep (A : Type) (f : N -> M A) (Q : A -> Prop) :
  (forall x, kp1 A (f x) Q) -> kp1 A (fun w => f (next w) w) Q.
Proof. intros H. apply (kp1_world A (fun x => f (next x))). intros x. apply H. Qed.
Lemma kp1_decref_fuel a : K a -> (forall fuel, kp1 _ (drain fuel [TDecref a]) (fun _ => True)) -> kp1 _ (decref a) (fun _ => True).
Proof. intros _ H. unfold decref. apply (kp1_world _ (fun x => drain (drain_fuel x) [TDecref a])). intros x. apply H. Qed.

Variable L : N.

Theorem step_keeps s o w r w' :
  (forall h a, In h (operands o) -> hget s h = Some a -> K a) ->
  G w -> step refuse L s o w = Ret r w' -> G w'.
Proof.
  intros Hop C E.
  exact (proj1 (kp_step refuse K kp1 kp1_ret kp1_fail kp1_bind kp1_rd kp1_wr kp1_touch kp1_free kp1_malloc kp1_realloc
                        kp1_next_dep kp1_decref_fuel L s o Hop w r w' C E)).
Qed.

Theorem step3_keeps s o w r w' :
  (forall h a, In h (operands3 o) -> hget (base s) h = Some a -> K a) ->
  G w -> step3 refuse L s o w = Ret r w' -> G w'.
Proof.
  intros Hop C E.
  exact (proj1 (kp_step3 refuse K kp1 kp1_ret kp1_fail kp1_bind kp1_rd kp1_wr kp1_touch kp1_free kp1_malloc kp1_realloc
                         kp1_next_dep kp1_decref_fuel L s o Hop w r w' C E)).
Qed.

End Gen.
