(* generated plans of cbor_copy (translator/effects.py, this run's clang AST of cbor.c) = the
   hand-written plans of HPlansCopy.v.  Automation only (BridgeEffTac).  HPlansCopy_proofs.v ties the
   hand-written plans to HOps.v ([copy]). *)
From Coq Require Import ZArith NArith List Bool String Lia ZifyBool ZifyN ZifyNat.
Import ListNotations.
From CB Require Import Word Word_proofs PMem PItem GenLeafTypes BridgeTac BridgeEffTac HHeap HItems HOps HCont_proofs HPlans HPlansSer HPlansCopy HPlans_proofs HPlansCopy_proofs.
From CBGen Require Import Gen_effects_copy.
Ltac Zify.zify_post_hook ::= Z.div_mod_to_equations.
Local Open Scope Z_scope.

Ltac copy_unfold :=
  cbv beta zeta delta
    [Gcbor_copy Gcbor_copy_loop0 Gcbor_copy_loop1 Gcbor_copy_loop2 Gcbor_copy_loop3
     fbplan_cbor_copy fbplan_cbor_copy_loop0 fbplan_cbor_copy_loop1 fbplan_cbor_copy_loop2 fbplan_cbor_copy_loop3
     copy_plan copy_int_plan copy_float_plan int_builder width_of into_loop copy_next_round done
     copy_chunk_round_plan copy_array_round_plan copy_map_round_plan
     src the_copy drop copy_of chunks0 slots0 item0 zn zN dst_z dst_b pnew
     TY_UINT TY_NEGINT TY_BYTES TY_TEXT TY_ARRAY TY_MAP TY_TAG TY_FLOAT_CTRL FW_0 FW_16 FW_32 FW_64].
Ltac small_mods :=
  repeat match goal with
  | |- context [?x mod ?m] =>
      lazymatch type of x with Z => rewrite (Z.mod_small x m) by lia end
  end.
Ltac copy_bridge :=
  copy_unfold; rewrite ?N2Z.id; cbn [app];
  norm; pows; small_mods; rewrite ?N2Z.id; rewrite ?Z.add_0_l; psplits; peq.

Lemma bridge_plan_copy al cc ctrl definite e len ty v w g8 g16 g32 g64 k ok0 ok1 ok2 c :
  (ctrl < 2^64)%N -> (e < 2^64)%N -> (len < 2^64)%N -> (v < 2^64)%N -> 0 <= ty < 2^32 -> 0 <= w < 2^32 ->
  Gcbor_copy al cc (Z.of_N ctrl) (dst_z definite) (Z.of_N e) (Z.of_N len) ty (Z.of_N v) w g16 g32 g64 g8 k ok0 ok1 ok2 c =
  copy_plan ty w definite len e v ctrl g8 g16 g32 g64 ok0 ok1 ok2.
Proof. intros H1 H2 H3 H4 H5 H6. destruct definite, ok0; copy_bridge. Qed.

(* the round lemmas assume the loop invariant k <= count, as in Bridge_effects_ser.v *)
Lemma bridge_plan_copy_rounds al cc ctrl dst e len ty v w g8 g16 g32 g64 k ok0 ok1 ok2 c :
  (cc < 2^64)%N -> (e < 2^64)%N -> (k <= cc)%N -> (k <= e)%N ->
  Gcbor_copy_loop0 al (Z.of_N cc) ctrl dst (Z.of_N e) len ty v w g16 g32 g64 g8 (Z.of_N k) ok0 ok1 ok2 c = copy_chunk_round_plan false cc k ok0 c /\
  Gcbor_copy_loop1 al (Z.of_N cc) ctrl dst (Z.of_N e) len ty v w g16 g32 g64 g8 (Z.of_N k) ok0 ok1 ok2 c = copy_chunk_round_plan true cc k ok0 c /\
  Gcbor_copy_loop2 al (Z.of_N cc) ctrl dst (Z.of_N e) len ty v w g16 g32 g64 g8 (Z.of_N k) ok0 ok1 ok2 c = copy_array_round_plan e k ok0 ok1 c /\
  Gcbor_copy_loop3 al (Z.of_N cc) ctrl dst (Z.of_N e) len ty v w g16 g32 g64 g8 (Z.of_N k) ok0 ok1 ok2 c = copy_map_round_plan e k ok0 ok1 c.
Proof. intros H1 H2 H3 H4. destruct ok0, ok1; repeat split; copy_bridge. Qed.

(* ---- composition: [HOps.copy] follows the plans GENERATED from the C source of this run ---- *)
Local Open Scope string_scope.
Local Open Scope list_scope.
Local Open Scope N_scope.

Section CodeCopy.
Variable refuse : N -> N -> bool.
Variable cp : addr -> M (option addr).

(* one round of the array loop, all three outcomes, on the generated plan of that round *)
Theorem code_copy_array_round_followed al cc ctrl dst len_ ty v wd g8 g16 g32 g64 ok2
    (rs : addr) (data : option addr) (e : addr) (rest : list addr) size k w wa wb w1 e1 e2 :
  k < size -> size < 2 ^ 64 -> cc < 2 ^ 64 -> k <= cc ->
  touch_data false data w = Ret tt wa -> incref e wa = Ret e1 wb -> move e wb = Ret e2 w1 ->
  let G ok1 c := Gcbor_copy_loop2 al (Z.of_N cc) ctrl dst (Z.of_N size) len_ ty v wd g16 g32 g64 g8 (Z.of_N k) true ok1 ok2 c in
  (forall w2 c, cp e w1 = Ret None w2 ->
     returns_null (G false c) = true /\
     p_reqs (G false c) = [ReqCall "cbor_array_get" [AP src; AZ (Z.of_N k)]; copy_of (PNew 0); drop the_copy] /\
     arr_loop refuse cp rs data (e :: rest) w = run_drops (round_val rs (Some e) None) (p_reqs (G false c)) (ret None) w2) /\
  (forall ec w2 w3, cp e w1 = Ret (Some ec) w2 -> array_push refuse rs ec w2 = Ret false w3 ->
     returns_null (G true 0%Z) = true /\
     p_reqs (G true 0%Z) = [ReqCall "cbor_array_get" [AP src; AZ (Z.of_N k)]; copy_of (PNew 0);
                            ReqCall "cbor_array_push" [AP the_copy; AP (PNew 1)]; drop (PNew 1); drop the_copy] /\
     arr_loop refuse cp rs data (e :: rest) w = run_drops (round_val rs (Some e) (Some ec)) (p_reqs (G true 0%Z)) (ret None) w3) /\
  (forall ec w2 w3 c, cp e w1 = Ret (Some ec) w2 -> array_push refuse rs ec w2 = Ret true w3 -> (c <> 0)%Z ->
     goes_on 2 (G true c) = true /\
     p_reqs (G true c) = [ReqCall "cbor_array_get" [AP src; AZ (Z.of_N k)]; copy_of (PNew 0);
                          ReqCall "cbor_array_push" [AP the_copy; AP (PNew 1)]; drop (PNew 1)] /\
     arr_loop refuse cp rs data (e :: rest) w =
     run_drops (round_val rs (Some e) (Some ec)) (p_reqs (G true c)) (arr_loop refuse cp rs data rest) w3).
Proof.
  intros Hk Hs Hc Hkc Ht Hi Hm G. subst G. cbv beta.
  assert (E : forall ok1 c, Gcbor_copy_loop2 al (Z.of_N cc) ctrl dst (Z.of_N size) len_ ty v wd g16 g32 g64 g8 (Z.of_N k) true ok1 ok2 c
                            = copy_array_round_plan size k true ok1 c).
  { intros ok1 c. destruct (bridge_plan_copy_rounds al cc ctrl dst size len_ ty v wd g8 g16 g32 g64 k true ok1 ok2 c) as (_ & _ & E & _); try assumption; lia. }
  split; [|split].
  - intros w2 c Hcp. rewrite E.
    exact (array_round_child_failure refuse cp rs data e rest size k w wa wb w1 e1 e2 Hk Ht Hi Hm w2 c Hcp).
  - intros ec w2 w3 Hcp Hp. rewrite E.
    exact (array_round_attach_failure refuse cp rs data e rest size k w wa wb w1 e1 e2 Hk Ht Hi Hm ec w2 w3 Hcp Hp).
  - intros ec w2 w3 c Hcp Hp Hne. rewrite E.
    destruct (array_round_success refuse cp rs data e rest size k w wa wb w1 e1 e2 Hk Ht Hi Hm ec w2 w3 c Hcp Hp Hne)
      as (P1 & _ & P3 & _ & P5).
    split; [exact P1|]. split; [exact P3 | exact P5].
Qed.

(* the map round when the value copy fails: the container and the key copy are released *)
Theorem code_copy_map_value_failure_followed al cc ctrl dst len_ ty v wd g8 g16 g32 g64 ok2 c
    (rs : addr) (data : option addr) key vl (rest : list (addr * option addr)) size k w wa kc w2 w3 :
  k < size -> size < 2 ^ 64 -> cc < 2 ^ 64 -> k <= cc ->
  touch_data false data w = Ret tt wa -> cp key wa = Ret (Some kc) w2 -> cp vl w2 = Ret None w3 ->
  let p := Gcbor_copy_loop3 al (Z.of_N cc) ctrl dst (Z.of_N size) len_ ty v wd g16 g32 g64 g8 (Z.of_N k) true false ok2 c in
  returns_null p = true /\
  p_reqs p = [copy_of (PSlot slots0 (Z.of_N k) "key"); copy_of (PSlot slots0 (Z.of_N k) "value"); drop the_copy; drop (PNew 0)] /\
  map_loop refuse cp rs data ((key, Some vl) :: rest) w = run_drops (round_val rs (Some kc) None) (p_reqs p) (ret None) w3.
Proof.
  intros Hk Hs Hc Hkc Ht Hck Hcv. cbv zeta.
  destruct (bridge_plan_copy_rounds al cc ctrl dst size len_ ty v wd g8 g16 g32 g64 k true false ok2 c) as (_ & _ & _ & E); try assumption; try lia.
  rewrite E.
  destruct (map_round_follows_plan refuse cp rs data key vl rest size k w wa Hk Ht) as (_ & Hv & _).
  exact (Hv kc w2 w3 c Hck Hcv).
Qed.
End CodeCopy.

(* the constructor of an array copy is sized by the SIZE of the source; then the loop *)
Theorem code_copy_array_entry_followed refuse f a w rc (indef : bool) data al_ elems w1 al cc ctrl len_ v wd g8 g16 g32 g64 k ok0 ok1 ok2 c :
  rd_item a w = Ret (rc, NArr indef data al_ elems) w1 ->
  ctrl < 2 ^ 64 -> len elems < 2 ^ 64 -> len_ < 2 ^ 64 -> v < 2 ^ 64 -> (0 <= wd < 2 ^ 32)%Z ->
  let p := Gcbor_copy al cc (Z.of_N ctrl) (dst_z (negb indef)) (Z.of_N (len elems)) (Z.of_N len_) TY_ARRAY (Z.of_N v) wd g16 g32 g64 g8 k ok0 ok1 ok2 c in
  p_reqs p = [if indef then ReqCall "cbor_new_indefinite_array" [] else ReqCall "cbor_new_definite_array" [AZ (Z.of_N (len elems))]] /\
  (ok0 = true -> goes_on 2 p = true /\ p_effs p = [Carry 0 (PNew 0)]) /\
  (ok0 = false -> returns_null p = true) /\
  copy refuse (S f) a w =
    (r <- (if indef then new_indefinite_array refuse else new_definite_array refuse (len elems)) ;;
     match r with None => ret None | Some rs => arr_loop refuse (copy refuse f) rs data elems end) w1.
Proof.
  intros Hrd H1 H2 H3 H4 H5. cbv zeta.
  rewrite bridge_plan_copy by (try assumption; vm_compute; split; congruence).
  exact (copy_array_follows_plan refuse f a w rc indef data al_ elems w1 wd len_ v ctrl g8 g16 g32 g64 ok0 ok1 ok2 Hrd).
Qed.

(* integers: the builder of the width, the mark only for a negative integer that was allocated *)
Theorem code_copy_int_followed refuse f a w rc (neg : bool) iw val w1 al cc ctrl dst e len_ v g8 g16 g32 g64 k ok0 ok1 ok2 c definite :
  rd_item a w = Ret (rc, NInt neg iw val) w1 ->
  ctrl < 2 ^ 64 -> e < 2 ^ 64 -> len_ < 2 ^ 64 -> v < 2 ^ 64 -> dst = dst_z definite ->
  let p := Gcbor_copy al cc (Z.of_N ctrl) dst (Z.of_N e) (Z.of_N len_) (if neg then TY_NEGINT else TY_UINT) (Z.of_N v) (iw_z iw) g16 g32 g64 g8 k ok0 ok1 ok2 c in
  let payload := match iw with I8 => g8 | I16 => g16 | I32 => g32 | I64 => g64 end in
  p_reqs p = ReqCall (int_builder iw) [AZ payload] :: (if neg && ok0 then [ReqCall "cbor_mark_negint" [AP (PNew 0)]] else []) /\
  p_ret p = RP (pnew ok0 0) /\
  copy refuse (S f) a w = build_int refuse neg iw val w1.
Proof.
  intros Hrd H1 H2 H3 H4 ->. cbv zeta.
  rewrite bridge_plan_copy by (try assumption; destruct neg, iw; vm_compute; split; congruence).
  destruct (copy_int_follows_plan refuse f a w rc neg iw val w1 g8 g16 g32 g64 ok0 Hrd) as (P1 & P2 & P3).
  unfold copy_plan. destruct neg; cbn [Z.eqb TY_UINT TY_NEGINT];
    (split; [exact P1|]; split; [exact P2 | exact P3]).
Qed.
