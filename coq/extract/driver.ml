(* Correspondence driver for the extracted Coq models.
   usage: driver <stream> [params] < cases > results      (one case per line, one result per line)
   The C harness (harness/hx.c) prints the same lines for the same cases. *)
open Model

(* ---------- conversions ---------- *)
let rec pos_of_int (i : int) : positive =
  if i = 1 then XH
  else if i land 1 = 1 then XI (pos_of_int (i lsr 1))
  else XO (pos_of_int (i lsr 1))
let n_of_int (i : int) : n = if i = 0 then N0 else Npos (pos_of_int i)

let rec int_of_pos (p : positive) : int =
  match p with XH -> 1 | XO q -> 2 * int_of_pos q | XI q -> 2 * int_of_pos q + 1
let rec pos_bits p = match p with XH -> 1 | XO q | XI q -> 1 + pos_bits q
let n_small (x : n) : bool = match x with N0 -> true | Npos p -> pos_bits p <= 60
let int_of_n (x : n) : int = match x with N0 -> 0 | Npos p -> int_of_pos p

let n10 = n_of_int 10
let n16 = n_of_int 16
let rec string_of_n (x : n) : string =
  if n_small x then string_of_int (int_of_n x)
  else
    let q = N.div x n10 and r = N.modulo x n10 in
    string_of_n q ^ string_of_int (int_of_n r)

let n_of_string (s : string) : n =
  let l = String.length s in
  if l > 2 && s.[0] = '0' && (s.[1] = 'x' || s.[1] = 'X') then begin
    let acc = ref N0 in
    for i = 2 to l - 1 do
      let c = Char.lowercase_ascii s.[i] in
      let d = if c >= '0' && c <= '9' then Char.code c - 48 else Char.code c - 87 in
      acc := N.add (N.mul !acc n16) (n_of_int d)
    done; !acc
  end else if l <= 18 then n_of_int (int_of_string s)
  else begin
    let acc = ref N0 in
    String.iter (fun c -> acc := N.add (N.mul !acc n10) (n_of_int (Char.code c - 48))) s;
    !acc
  end

let hexd c = if c >= '0' && c <= '9' then Char.code c - 48
  else if c >= 'a' && c <= 'f' then Char.code c - 87 else Char.code c - 55
let bytes_of_hex (s : string) : n list =
  if s = "-" then [] else
  let l = String.length s / 2 in
  List.init l (fun i -> n_of_int (hexd s.[2*i] * 16 + hexd s.[2*i+1]))
let hex_of_bytes (bs : n list) : string =
  if bs = [] then "-" else
  String.concat "" (List.map (fun b -> Printf.sprintf "%02x" (int_of_n b)) bs)
let hex_of_n (x : n) : string =
  (* lower-case hex without prefix *)
  let rec go x acc =
    if x = N0 then acc
    else go (N.div x n16) (Printf.sprintf "%x" (int_of_n (N.modulo x n16)) ^ acc) in
  if x = N0 then "0" else if n_small x then Printf.sprintf "%x" (int_of_n x) else go x ""

let rec nat_of_int i = if i = 0 then O else S (nat_of_int (i - 1))

(* ---------- printing events ---------- *)
let iw = function I8 -> "8" | I16 -> "16" | I32 -> "32" | I64 -> "64"
let fw = function F16 -> "16" | F32 -> "32" | F64 -> "64"
let string_of_tok ?(off=true) (t : tok) : string =
  match t with
  | TUint (w, v) -> "u" ^ iw w ^ ":" ^ string_of_n v
  | TNegint (w, v) -> "n" ^ iw w ^ ":" ^ string_of_n v
  | TBytes (o, d) -> "bs:" ^ (if off then string_of_n o else "_") ^ ":" ^ hex_of_bytes d
  | TBytesStart -> "bss"
  | TText (o, d) -> "ts:" ^ (if off then string_of_n o else "_") ^ ":" ^ hex_of_bytes d
  | TTextStart -> "tss"
  | TArray n -> "arr:" ^ string_of_n n
  | TArrayStart -> "arrs"
  | TMap n -> "map:" ^ string_of_n n
  | TMapStart -> "maps"
  | TTag v -> "tag:" ^ string_of_n v
  | TFloat (w, b) -> "f" ^ fw w ^ ":" ^ hex_of_n b
  | TBool b -> if b then "bool:1" else "bool:0"
  | TNull -> "null"
  | TUndef -> "undef"
  | TBreak -> "brk"

let status_s = function Finished -> "F" | Nedata -> "N" | DError -> "E"

(* ---------- items as S-expressions ---------- *)
let rec sexp_of_item (t : item) : string =
  match t with
  | IUint (w, v) -> "(u" ^ iw w ^ " " ^ string_of_n v ^ ")"
  | INegint (w, v) -> "(n" ^ iw w ^ " " ^ string_of_n v ^ ")"
  | IBytes d -> "(bs " ^ hex_of_bytes d ^ ")"
  | IBytesI cs -> "(bsi" ^ String.concat "" (List.map (fun c -> " " ^ hex_of_bytes c) cs) ^ ")"
  | IText d -> "(ts " ^ hex_of_bytes d ^ ")"
  | ITextI cs -> "(tsi" ^ String.concat "" (List.map (fun c -> " " ^ hex_of_bytes c) cs) ^ ")"
  | IArray (indef, xs) ->
      (if indef then "(arri" else "(arr") ^ String.concat "" (List.map (fun x -> " " ^ sexp_of_item x) xs) ^ ")"
  | IMap (indef, kvs) ->
      (if indef then "(mapi" else "(map") ^
      String.concat "" (List.map (fun (k, v) -> " " ^ sexp_of_item k ^ " " ^ sexp_of_item v) kvs) ^ ")"
  | ITag (v, x) -> "(tag " ^ string_of_n v ^ " " ^ sexp_of_item x ^ ")"
  | ICtrl v -> "(ctrl " ^ string_of_n v ^ ")"
  | IFloat (w, b) -> "(f" ^ fw w ^ " " ^ hex_of_n b ^ ")"

(* tokenizer for S-expressions *)
let sexp_tokens (s : string) : string list =
  let toks = ref [] and cur = Buffer.create 16 in
  let flush () = if Buffer.length cur > 0 then (toks := Buffer.contents cur :: !toks; Buffer.clear cur) in
  String.iter (fun c ->
    match c with
    | '(' | ')' -> flush (); toks := String.make 1 c :: !toks
    | ' ' | '\t' -> flush ()
    | c -> Buffer.add_char cur c) s;
  flush (); List.rev !toks

exception Parse of string
let rec parse_item (ts : string list) : item * string list =
  match ts with
  | "(" :: kind :: rest ->
    let width s = match s with "8" -> I8 | "16" -> I16 | "32" -> I32 | "64" -> I64 | _ -> raise (Parse s) in
    let close r = match r with ")" :: r' -> r' | _ -> raise (Parse "expected )") in
    let rec items r acc = match r with
      | ")" :: r' -> (List.rev acc, r')
      | _ -> let (x, r') = parse_item r in items r' (x :: acc) in
    let rec hexes r acc = match r with
      | ")" :: r' -> (List.rev acc, r')
      | h :: r' -> hexes r' (bytes_of_hex h :: acc)
      | [] -> raise (Parse "eof") in
    let rec pairs l = match l with
      | k :: v :: r -> (k, v) :: pairs r
      | [] -> []
      | _ -> raise (Parse "odd map") in
    (match kind with
     | "u8" | "u16" | "u32" | "u64" ->
        (match rest with v :: r -> (IUint (width (String.sub kind 1 (String.length kind - 1)), n_of_string v), close r)
                       | _ -> raise (Parse "uint"))
     | "n8" | "n16" | "n32" | "n64" ->
        (match rest with v :: r -> (INegint (width (String.sub kind 1 (String.length kind - 1)), n_of_string v), close r)
                       | _ -> raise (Parse "negint"))
     | "bs" -> (match rest with h :: r -> (IBytes (bytes_of_hex h), close r) | _ -> raise (Parse "bs"))
     | "ts" -> (match rest with h :: r -> (IText (bytes_of_hex h), close r) | _ -> raise (Parse "ts"))
     | "bsi" -> let (cs, r) = hexes rest [] in (IBytesI cs, r)
     | "tsi" -> let (cs, r) = hexes rest [] in (ITextI cs, r)
     | "arr" -> let (xs, r) = items rest [] in (IArray (false, xs), r)
     | "arrd" -> (match rest with _ :: r0 -> let (xs, r) = items r0 [] in (IArray (false, xs), r) | _ -> raise (Parse "arrd"))
     | "mapd" -> (match rest with _ :: r0 -> let (xs, r) = items r0 [] in (IMap (false, pairs xs), r) | _ -> raise (Parse "mapd"))
     | "arri" -> let (xs, r) = items rest [] in (IArray (true, xs), r)
     | "map" -> let (xs, r) = items rest [] in (IMap (false, pairs xs), r)
     | "mapi" -> let (xs, r) = items rest [] in (IMap (true, pairs xs), r)
     | "tag" -> (match rest with v :: r -> let (x, r') = parse_item r in (ITag (n_of_string v, x), close r')
                               | _ -> raise (Parse "tag"))
     | "ctrl" -> (match rest with v :: r -> (ICtrl (n_of_string v), close r) | _ -> raise (Parse "ctrl"))
     | "f16" -> (match rest with v :: r -> (IFloat (F16, n_of_string ("0x" ^ v)), close r) | _ -> raise (Parse "f16"))
     | "f32" -> (match rest with v :: r -> (IFloat (F32, n_of_string ("0x" ^ v)), close r) | _ -> raise (Parse "f32"))
     | "f64" -> (match rest with v :: r -> (IFloat (F64, n_of_string ("0x" ^ v)), close r) | _ -> raise (Parse "f64"))
     | k -> raise (Parse ("kind " ^ k)))
  | _ -> raise (Parse "expected (")
let item_of_sexp (s : string) : item = fst (parse_item (sexp_tokens s))

(* image of a buffer of [size] bytes after a call that stored [out] at its start *)
let image (out : n list) (size : int) : string =
  let l = List.length out in
  (if l = 0 then "" else hex_of_bytes out) ^ String.concat "" (List.init (max 0 (size - l)) (fun _ -> "--"))

(* ---------- streams ---------- *)
let split_ws s = List.filter (fun x -> x <> "") (String.split_on_char ' ' s)

let encid_of = function
  | "uint8" -> E_uint8 | "uint16" -> E_uint16 | "uint32" -> E_uint32 | "uint64" -> E_uint64 | "uint" -> E_uint
  | "negint8" -> E_negint8 | "negint16" -> E_negint16 | "negint32" -> E_negint32 | "negint64" -> E_negint64
  | "negint" -> E_negint | "bytestring_start" -> E_bytestring_start | "string_start" -> E_string_start
  | "array_start" -> E_array_start | "map_start" -> E_map_start | "tag" -> E_tag
  | "indef_bytestring_start" -> E_indef_bytestring_start | "indef_string_start" -> E_indef_string_start
  | "indef_array_start" -> E_indef_array_start | "indef_map_start" -> E_indef_map_start
  | "bool" -> E_bool | "null" -> E_null | "undef" -> E_undef | "break" -> E_break | "ctrl" -> E_ctrl
  | "half" -> E_half | "single" -> E_single | "double" -> E_double
  | s -> failwith ("encid " ^ s)

let lerr_s = function ENone -> "NONE" | ENotEnough -> "NOTENOUGHDATA" | ENoData -> "NODATA"
  | EMalformed -> "MALFORMATED" | EMem -> "MEMERROR" | ESyntax -> "SYNTAXERROR"

let dec1 line =
  let buf = bytes_of_hex line in
  match stream_decode buf with
  | SFault -> "FAULT"
  | SRes (r, e) ->
      Printf.sprintf "%s %s %s %s" (status_s r.st) (string_of_n r.rd) (string_of_n r.req)
        (match e with Some t -> string_of_tok t | None -> "-")

let enc line =
  match split_ws line with
  | [e; v; sz] ->
      let size = int_of_string sz in
      (match encode (encid_of e) (n_of_string v) (n_of_int size) with
       | None -> "UB"
       | Some (ret, out) -> Printf.sprintf "%s %s" (string_of_n ret) (image out size))
  | _ -> "BADCASE"

let encdec line =
  match split_ws line with
  | [e; v] ->
      (match encode (encid_of e) (n_of_string v) (n_of_int 12) with
       | None -> "UB"
       | Some (ret, out) ->
           let buf = out @ [n_of_int 0xFF] in
           Printf.sprintf "%s %s -> %s" (string_of_n ret) (hex_of_bytes out)
             (match stream_decode buf with
              | SFault -> "FAULT"
              | SRes (r, e) -> Printf.sprintf "%s %s %s %s" (status_s r.st) (string_of_n r.rd) (string_of_n r.req)
                                 (match e with Some t -> string_of_tok t | None -> "-")))
  | _ -> "BADCASE"

let load_ l cap line =
  let buf = bytes_of_hex line in
  match load l cap buf with
  | LFault -> "FAULT"
  | LOk (t, rd) -> Printf.sprintf "ok %s %s" (string_of_n rd) (sexp_of_item t)
  | LErr (c, p, rd) -> Printf.sprintf "err %s %s %s" (lerr_s c) (string_of_n p) (string_of_n rd)

let load_spec_ l cap line =
  let buf = bytes_of_hex line in
  match load_spec l cap buf with
  | LFault -> "FAULT"
  | LOk (t, rd) -> Printf.sprintf "ok %s %s" (string_of_n rd) (sexp_of_item t)
  | LErr (c, p, rd) -> Printf.sprintf "err %s %s %s" (lerr_s c) (string_of_n p) (string_of_n rd)

(* head_spec as a dec1 line: F n tok | N lo hi | E *)
let size_max = n_of_string "18446744073709551615"
let dec1_spec line =
  let buf = bytes_of_hex line in
  match head_spec buf with
  | HTok (t, n) -> Printf.sprintf "F %s 0 %s" (string_of_n n) (string_of_tok t)
  | HNeed full ->
      let hi = if N.leb full size_max then full else size_max in
      Printf.sprintf "N 0 %s..%s -" (string_of_n (N.add (len buf) (n_of_int 1))) (string_of_n hi)
  | HBad -> "E 0 0 -"

(* the spec's ser line: everything derived from encode_rfc *)
let ser_spec line =
  let t = item_of_sexp line in
  let enc = encode_rfc t in
  let sz = List.length enc in
  let b = Buffer.create 256 in
  Buffer.add_string b (Printf.sprintf "size=%d alloc=%d:%d:%s" sz sz sz (hex_of_bytes enc));
  for n = 0 to sz + 2 do
    if n >= sz then Buffer.add_string b (Printf.sprintf " %d:%d:%s" n sz (image enc n))
    else Buffer.add_string b (Printf.sprintf " %d:0:*" n)
  done;
  Buffer.contents b

(* read-only operations on a write-protected tree: no store ever happens (C18) *)
let rdonly line =
  let t = item_of_sexp line in
  let sz = ssize t in
  let ret = match serialize_into t (if sz = N0 then n_of_int 64 else sz) with Some (r, _) -> string_of_n r | None -> "UB" in
  Printf.sprintf "size=%s ser=%s getters=ok" (string_of_n sz) ret

let rt l cap line =
  let t = item_of_sexp line in
  match serialize_alloc t with
  | None -> "UB"
  | Some ((ret, _), enc) ->
      let buf = enc @ [n_of_int 0xFF; N0] in
      Printf.sprintf "%s -> %s" (hex_of_bytes enc)
        (match load l cap buf with
         | LFault -> "FAULT"
         | LErr (c, p, _) -> Printf.sprintf "err %s %s" (lerr_s c) (string_of_n p)
         | LOk (t', rd) ->
             let same = (match serialize_alloc t' with Some (_, enc') -> enc' = enc | None -> false) in
             Printf.sprintf "ok %s %s same=%d" (string_of_n rd) (sexp_of_item t') (if same then 1 else 0))

let loadpost l cap line =
  let buf = bytes_of_hex line in
  match load l cap buf with
  | LFault -> "FAULT"
  | LOk (t, rd) ->
      let sz = ssize t in
      let w = match serialize_into t sz with Some (r, _) -> string_of_n r | None -> "UB" in
      Printf.sprintf "ok %s %s post=%s:%s:1" (string_of_n rd) (sexp_of_item t) (string_of_n sz) w
  | LErr (c, p, rd) -> Printf.sprintf "err %s %s %s" (lerr_s c) (string_of_n p) (string_of_n rd)

(* what the theorems of C11 say a copy looks like *)
let copy_ line =
  let _ = if String.length line > 0 && line.[0] = '@' then IUint (I8, N0) else item_of_sexp line in
  "equal=1 shape=1 disjoint=1 rc1=1 src_unchanged=1 after_release=1 live=0"

let seq l cap line =
  let all = bytes_of_hex line in
  let n = List.length all in
  let b = Buffer.create 128 in
  let rec go buf off k =
    if buf = [] || k >= 64 then off else begin
      if k > 0 then Buffer.add_string b " ";
      match load l cap buf with
      | LFault -> Buffer.add_string b "FAULT"; off
      | LErr (c, p, _) -> Buffer.add_string b (Printf.sprintf "err:%s:%s" (lerr_s c) (string_of_n p)); off
      | LOk (t, rd) ->
          Buffer.add_string b (Printf.sprintf "ok:%s:%s" (string_of_n rd) (sexp_of_item t));
          let r = int_of_n rd in
          let rec drop i l = if i = 0 then l else match l with [] -> [] | _ :: tl -> drop (i - 1) tl in
          go (drop r buf) (off + r) (k + 1)
    end in
  let off = go all 0 0 in
  Buffer.add_string b (Printf.sprintf " end=%d/%d" off n);
  Buffer.contents b

(* sizes: S-expressions in which (bsz N) / (tsz N) are definite strings with a DECLARED length N *)
let rec parse_sitem (ts : string list) : sitem * string list =
  match ts with
  | "(" :: kind :: rest ->
    let close r = match r with ")" :: r' -> r' | _ -> raise (Parse "expected )") in
    let rec items r acc = match r with
      | ")" :: r' -> (List.rev acc, r')
      | _ -> let (x, r') = parse_sitem r in items r' (x :: acc) in
    let rec nums r acc = match r with
      | ")" :: r' -> (List.rev acc, r')
      | h :: r' -> nums r' (n_of_string h :: acc)
      | [] -> raise (Parse "eof") in
    let rec pairs l = match l with k :: v :: r -> (k, v) :: pairs r | [] -> [] | _ -> raise (Parse "odd map") in
    (match kind with
     | "bsz" | "tsz" -> (match rest with v :: r -> (SStr (n_of_string v), close r) | _ -> raise (Parse "sz"))
     | "bszi" | "tszi" -> let (ls, r) = nums rest [] in (SChunked ls, r)
     | "arr" -> let (xs, r) = items rest [] in (SArr (false, xs), r)
     | "arri" -> let (xs, r) = items rest [] in (SArr (true, xs), r)
     | "map" -> let (xs, r) = items rest [] in (SMap (false, pairs xs), r)
     | "mapi" -> let (xs, r) = items rest [] in (SMap (true, pairs xs), r)
     | "tag" -> (match rest with v :: r -> let (x, r') = parse_sitem r in (STag (n_of_string v, x), close r') | _ -> raise (Parse "tag"))
     | _ -> let (it, r) = parse_item ts in (shape it, r))
  | _ -> raise (Parse "expected (")
let sizes line =
  let (t, _) = parse_sitem (sexp_tokens line) in
  Printf.sprintf "size=%s" (string_of_n (ssize_s t))
let sizes_spec line =
  let (t, _) = parse_sitem (sexp_tokens line) in
  let tot = total_s t in
  Printf.sprintf "size=%s" (if N.ltb tot (n_of_string "18446744073709551616") then string_of_n tot else "0")

let ser line =
  let t = item_of_sexp line in
  let sz = ssize t in
  let szi = int_of_n sz in
  let b = Buffer.create 256 in
  Buffer.add_string b (Printf.sprintf "size=%s" (string_of_n sz));
  (match serialize_alloc t with
   | None -> Buffer.add_string b " alloc=UB"
   | Some ((ret, req), out) ->
       Buffer.add_string b (Printf.sprintf " alloc=%s:%s:%s" (string_of_n ret) (string_of_n req)
                              (if out = [] then "-" else hex_of_bytes out)));
  for n = 0 to szi + 2 do
    match serialize_into t (n_of_int n) with
    | None -> Buffer.add_string b (Printf.sprintf " %d:UB" n)
    | Some (ret, out) -> Buffer.add_string b (Printf.sprintf " %d:%s:%s" n (string_of_n ret) (image out n))
  done;
  Buffer.contents b

let utf8 line =
  let bs = bytes_of_hex line in
  match stored_codepoints utf8d bs with
  | None -> "FAULT"
  | Some c -> Printf.sprintf "cp=%s spec=%s" (string_of_n c) (string_of_n (spec_codepoints bs))

let utf8_spec line =
  let bs = bytes_of_hex line in
  let c = string_of_n (spec_codepoints bs) in
  Printf.sprintf "cp=%s spec=%s" c c

let dfa line =
  match split_ws line with
  | [s; b] ->
      (match unicode_decode utf8d (n_of_string s) (n_of_string b) with
       | None -> "FAULT" | Some r -> string_of_n r)
  | _ -> "BADCASE"

let mem line =
  let w = n_of_int 64 in
  match split_ws line with
  | [f; a; b] ->
      let a = n_of_string a and b = n_of_string b in
      let bs x = if x then "1" else "0" in
      (match f with
       | "hb" -> string_of_n (highest_bit w a)
       | "mul" -> bs (safe_to_multiply w a b)
       | "add" -> bs (safe_to_add w a b)
       | "sadd" -> string_of_n (safe_signaling_add w a b)
       | "hdr" -> string_of_n (header_size a)
       | "allocm" -> (match alloc_multiple_req w a b with None -> "none" | Some n -> string_of_n n)
       | "grow" ->
           (* new capacity as handed to _cbor_realloc_multiple(data, sizeof ptr, c) *)
           (match grow_capacity w a with
            | None -> "none"
            | Some c -> (match alloc_multiple_req w (n_of_int 8) c with
                         | None -> "none"
                         | Some r -> string_of_n (N.div r (n_of_int 8))))
       | "growm" | "growc" ->
           (* the same step for a map (16-byte pairs) and for the chunk table of an indefinite string (8-byte pointers) *)
           let isz = n_of_int (if f = "growm" then 16 else 8) in
           (match grow_capacity w a with
            | None -> "none"
            | Some c -> (match alloc_multiple_req w isz c with
                         | None -> "none"
                         | Some r -> string_of_n (N.div r isz)))
       | _ -> "BADCASE")
  | _ -> "BADCASE"

(* frag: "<hex fragment> <hex fragment> ..." ('-' = empty fragment) *)
let frag line =
  let frags = List.map bytes_of_hex (split_ws line) in
  let (evs, st) = run_client frags in
  let evs_s = if evs = [] then "-" else String.concat "," (List.map (string_of_tok ~off:false) evs) in
  match st with
  | DWait (b, w) -> Printf.sprintf "%s wait buffered=%d wanted=%s" evs_s (List.length b) (string_of_n w)
  | DStop -> Printf.sprintf "%s stop" evs_s
  | DFault -> Printf.sprintf "%s FAULT" evs_s

let toks line =
  let evs = tokens_of (bytes_of_hex line) in
  if evs = [] then "-" else String.concat "," (List.map (string_of_tok ~off:false) evs)

(* ---------- heap-level histories ---------- *)
let nat_of_string s = nat_of_int (int_of_string s)
let rec int_of_nat = function O -> 0 | S n -> 1 + int_of_nat n
let width_of = function "8" -> I8 | "16" -> I16 | "32" -> I32 | "64" -> I64 | s -> failwith ("width " ^ s)
let fwidth_of = function "16" -> F16 | "32" -> F32 | "64" -> F64 | s -> failwith ("fwidth " ^ s)
let parse_op (ws : string list) : op =
  match ws with
  | ["bi"; neg; w; v] -> OBuildInt (neg = "1", width_of w, n_of_string v)
  | ["bf"; w; b] -> OBuildFloat (fwidth_of w, n_of_string ("0x" ^ b))
  | ["bc"; v] -> OBuildCtrl (n_of_string v)
  | ["bs"; t; h] -> OBuildString (t = "1", bytes_of_hex h)
  | ["nis"; t] -> ONewIndefString (t = "1")
  | ["nda"; n] -> ONewDefArray (n_of_string n)
  | ["nia"] -> ONewIndefArray
  | ["ndm"; n] -> ONewDefMap (n_of_string n)
  | ["nim"] -> ONewIndefMap
  | ["nt"; v] -> ONewTag (n_of_string v)
  | ["bt"; v; x] -> OBuildTag (n_of_string v, nat_of_string x)
  | ["push"; a; x] -> OPush (nat_of_string a, nat_of_string x)
  | ["get"; a; i] -> OGet (nat_of_string a, n_of_string i)
  | ["set"; a; i; x] -> OSet (nat_of_string a, n_of_string i, nat_of_string x)
  | ["repl"; a; i; x] -> OReplace (nat_of_string a, n_of_string i, nat_of_string x)
  | ["madd"; m; k; v] -> OMapAdd (nat_of_string m, nat_of_string k, nat_of_string v)
  | ["chunk"; c; x] -> OAddChunk (nat_of_string c, nat_of_string x)
  | ["tset"; t; x] -> OTagSet (nat_of_string t, nat_of_string x)
  | ["titem"; t] -> OTagItem (nat_of_string t)
  | ["inc"; h] -> OIncref (nat_of_string h)
  | ["dec"; h] -> ODecref (nat_of_string h)
  | ["copy"; h] -> OCopy (nat_of_string h)
  | ["load"; h] -> OLoad (bytes_of_hex h)
  | ["ssize"; h] -> OSerSize (nat_of_string h)
  | ["desc"; h] -> OSerSize (nat_of_string h)      (* cbor_describe: the same read-only traversal; its text output is not modelled *)
  | ["ser"; h; n] -> OSerialize (nat_of_string h, n_of_string n)
  | ["salloc"; h] -> OSerAlloc (nat_of_string h)
  | _ -> failwith ("op " ^ String.concat " " ws)

let fkind_s = function
  | FUseAfterFree _ -> "use-after-free" | FNull -> "null-deref" | FOutOfBounds -> "out-of-bounds"
  | FBadFree _ -> "bad-free" | FAssert i -> "assert-" ^ string_of_n i | FType -> "type" | FFuel -> "fuel"

let ido = function None -> "0" | Some a -> string_of_n a
let event_s = function
  | EvMalloc (sz, r) -> Printf.sprintf "M%s:%s" (string_of_n sz) (ido r)
  | EvRealloc (o, sz, r) -> Printf.sprintf "R%s:%s:%s" (ido o) (string_of_n sz) (ido r)
  | EvFree p -> "F" ^ ido p

let describe_mode = ref false
(* [img]: Some n = print the bytes as the image of an n-byte buffer *)
let out_s (o : out) (img : int option) : string =
  match o with
  | OutHandle ok -> if ok then "ok" else "NULL"
  | OutBool b -> if b then "1" else "0"
  | OutUnit -> "-"
  | OutNum n -> if !describe_mode then "-" else string_of_n n
  | OutBytes (ret, bytes) ->
      (match img with
       | Some n -> Printf.sprintf "%s:%s" (string_of_n ret) (image bytes n)
       | None -> Printf.sprintf "%s:%s" (string_of_n ret) (hex_of_bytes bytes))
  | OutLoadErr (c, p) -> Printf.sprintf "err:%s:%s" (lerr_s c) (string_of_n p)
  | OutLoadOk rd -> "ok:" ^ string_of_n rd
  | OutSkip -> "skip"

let skind_of = function
  | "uint" -> KUint | "negint" -> KNegint | "bytes" -> KBytes | "string" -> KString
  | "array" -> KArray | "map" -> KMap | "tag" -> KTag | "fc" -> KFloatCtrl
  | s -> failwith ("skind " ^ s)

(* the op words of all three layers (HHist.v, HHist2.v, HHist3.v) *)
let parse_op3 (ws : string list) : op3 =
  match ws with
  | ["nds"; t] -> O3NewDefString (t = "1")
  | ["seth"; h; hx] -> O3SetHandleNew (nat_of_string h, bytes_of_hex hx)
  | ["shorten"; h; n] -> O3SetHandleShorten (nat_of_string h, n_of_string n)
  | ["ni"; w] -> O3NewInt (width_of w)
  | ["su"; w; h; v] -> O3SetUint (width_of w, nat_of_string h, n_of_string v)
  | ["mku"; h] -> O3Mark (false, nat_of_string h)
  | ["mkn"; h] -> O3Mark (true, nat_of_string h)
  | ["nf"; w] -> O3NewFloat (fwidth_of w)
  | ["sf"; w; h; b] -> O3SetFloat (fwidth_of w, nat_of_string h, n_of_string ("0x" ^ b))
  | ["nc"] -> O3NewCtrl
  | ["sc"; h; v] -> O3SetCtrl (nat_of_string h, n_of_string v)
  | ["sb"; h; b] -> O3SetBool (nat_of_string h, b = "1")
  | ["bb"; b] -> O3BuildBool (b = "1")
  | ["nn"] -> O3NewNull
  | ["nu"] -> O3NewUndef
  | ["mv"; h] -> O3Move (nat_of_string h)
  | ["pushmv"; a; x] -> O3PushMove (nat_of_string a, nat_of_string x)
  | ["maddmv"; m; k; v] -> O3MapAddMove (nat_of_string m, nat_of_string k, nat_of_string v)
  | ["tsetmv"; t; x] -> O3TagSetMove (nat_of_string t, nat_of_string x)
  | ["btmv"; v; x] -> O3BuildTagMove (n_of_string v, nat_of_string x)
  | ["idec"; h] -> O3IntermediateDecref (nat_of_string h)
  | ["bs0"; hx] -> O3BuildString0 (bytes_of_hex hx)
  | ["sert"; k; h; n] -> O3SerializeTyped (skind_of k, nat_of_string h, n_of_string n)
  | ["preds"; h] -> O3Preds (nat_of_string h)
  | ["vals"; h] -> O3Vals (nat_of_string h)
  | _ -> O3Old (parse_op ws)

(* one history under one refusal schedule; returns (text, number of requests made) *)
let run_history (l : n) (cap : n) (mode : string) (k : n) (line : string) : string * n =
  let refuse idx size =
    (not (N.leb size cap)) ||
    (match mode with "only" -> idx = k | "from" -> N.leb k idx | _ -> false) in
  let steps = List.filter (fun x -> String.trim x <> "") (String.split_on_char ';' line) in
  let b = Buffer.create 256 in
  let st = ref s3_0 and w = ref world0 and faulted = ref false in
  List.iter (fun stp ->
    if not !faulted then begin
      let parts = String.split_on_char '?' stp in
      let opws = split_ws (List.hd parts) in
      let probes = match parts with [_; p] -> List.map int_of_string (split_ws p) | _ -> [] in
      let is_val = (match opws with "val" :: _ -> true | _ -> false) in
      let opws = if is_val then ["ssize"; List.nth opws 1] else opws in
      (* audit words (harness/hx_heap.inc): observables the older words do not print.
         decn    = cbor_decref(&p), then "N" if p was set to NULL (the item's cell is gone) else "K"
         sallocn = cbor_serialize_alloc with buffer_size == NULL: the model's OSerAlloc (the bytes are printed up to the return value)
         mkey / mvalue = _cbor_map_add_key / _cbor_map_add_value called on their own: HItems.map_add_key / map_add_value *)
      let audit_decn = (match opws with ["decn"; h] -> hget (!st).base (nat_of_string h) | _ -> None) in
      let audit_half = (match opws with
        | [("mkey" | "mvalue") as wd; m; x] ->
            Some (wd, hget (!st).base (nat_of_string m), hget (!st).base (nat_of_string x))
        | _ -> None) in
      let opws = (match opws with ["decn"; h] -> ["dec"; h] | ["sallocn"; h] -> ["salloc"; h] | _ -> opws) in
      let o = (match audit_half with Some _ -> O3Preds O | None -> (match opws with ["ptrs"; _] | ["swalloc"] -> O3NewCtrl | _ -> parse_op3 opws)) in
      describe_mode := (match opws with "desc" :: _ -> true | _ -> false);
      let stepped = (match audit_half with
        | Some (_, None, _) | Some (_, _, None) -> Ret ((!st, Out OutSkip), !w)
        | Some (wd, Some p, Some q) ->
            (match (if wd = "mkey" then map_add_key refuse p q !w else map_add_value p q !w) with
             | Fault kd -> Fault kd
             | Ret (b, w') -> Ret ((!st, Out (OutBool b)), w'))
        | None ->
            (match opws with
             | ["ptrs"; h] -> ptrs3 !st (nat_of_string h) !w          (* calls kept outside op3 *)
             | ["swalloc"] -> set_allocs !st !w
             | _ -> step3 refuse l !st o !w)) in
      (match stepped with
       | Fault kd -> faulted := true; Buffer.add_string b ("FAULT:" ^ fkind_s kd ^ ";")
       | Ret ((s', ot), w') ->
           st := s'; w := w';
           if is_val then begin
             (match o with
              | O3Old (OSerSize h) ->
                  (match List.nth_opt (handles s'.base) (int_of_nat h) with
                   | Some (Some a) ->
                       (match (!w).heap a with
                        | Some (CItem (_, nd)) ->
                            Buffer.add_string b
                              (match nd with
                               | NInt (neg, wd, v) -> Printf.sprintf "int:%d:%s:%s" (if neg then 1 else 0) (iw wd) (string_of_n v)
                               | NFloat (wd, bits) ->
                                   (* the harness prints the value a getter returns with every NaN as the canonical quiet NaN
                                      (a float passed by value does not reliably keep a signalling payload) *)
                                   Printf.sprintf "float:%s:%s" (fw wd) (hex_of_n (match wd with F64 -> canon64 bits | _ -> canon32 bits))
                               | NCtrl v -> Printf.sprintf "ctrl:%s" (string_of_n v)
                               | NStr (text, _, bytes) ->
                                   Printf.sprintf "str:%d:%d:%s" (if text then 1 else 0) (List.length bytes)
                                     (if text then (match stored_codepoints utf8d bytes with Some c -> string_of_n c | None -> "F") else "-")
                               | NChunked (text, _, _, _, chunks) -> Printf.sprintf "chunked:%d:%d" (if text then 1 else 0) (List.length chunks)
                               | NArr (indef, _, _, elems) -> Printf.sprintf "arr:%d:%d" (if indef then 1 else 0) (List.length elems)
                               | NMap (indef, _, _, pairs) -> Printf.sprintf "map:%d:%d" (if indef then 1 else 0) (List.length pairs)
                               | NTag (v, _) -> Printf.sprintf "tag:%s" (string_of_n v))
                        | _ -> Buffer.add_string b "DEAD")
                   | _ -> Buffer.add_string b "skip")
              | _ -> ())
           end else
           Buffer.add_string b
             (match ot with
              | Out OutUnit when audit_decn <> None ->
                  (match audit_decn with Some a -> (match w'.heap a with None -> "N" | Some _ -> "K") | None -> "-")
              | OutVals vs -> "v:" ^ String.concat "," (List.map string_of_n vs)
              | Out oo ->
                  out_s oo (match o with
                            | O3Old (OSerialize (_, n)) | O3SerializeTyped (_, _, n) -> Some (int_of_n n)
                            | _ -> None));
           if probes <> [] then begin
             Buffer.add_string b "[";
             List.iteri (fun i h ->
               if i > 0 then Buffer.add_string b " ";
               (match List.nth_opt (handles s'.base) h with
                | Some (Some a) ->
                    (match probe1 w' a with
                     | Some (rc, None) -> Buffer.add_string b (Printf.sprintf "%d:%s" h (string_of_n rc))
                     | Some (rc, Some (sz, al)) -> Buffer.add_string b (Printf.sprintf "%d:%s:%s:%s" h (string_of_n rc) (string_of_n sz) (string_of_n al))
                     | None -> Buffer.add_string b (Printf.sprintf "%d:DEAD" h))
                | _ -> Buffer.add_string b (Printf.sprintf "%d:NULL" h))) probes;
             Buffer.add_string b "]"
           end;
           Buffer.add_string b ";")
    end) steps;
  Buffer.add_string b (Printf.sprintf " live=%s trace=%s" (string_of_n (live_count !w))
                         (String.concat "," (List.rev_map event_s !w.trace)));
  (Buffer.contents b, !w.nreq)

let hist l cap mode k line = fst (run_history l cap mode k line)

let split_bars (line : string) : string list =
  let re = Str.regexp_string "||" in Str.split re line
let thr l cap line =
  String.concat " || " (List.map (fun h -> fst (run_history l cap "none" N0 h)) (split_bars line))
let shared line =
  match String.index_opt line ' ' with
  | None -> "BADCASE"
  | Some i ->
      let n = int_of_string (String.sub line 0 i) in
      let t = item_of_sexp (String.sub line (i + 1) (String.length line - i - 1)) in
      let sz = ssize t in
      let one = (match serialize_into t sz with
                 | Some (w, out) -> Printf.sprintf "size=%s ser=%s:%s" (string_of_n sz) (string_of_n w) (hex_of_bytes out)
                 | None -> "UB") in
      String.concat " || " (List.init n (fun _ -> one))

let fault_ l cap line =
  let (base, nreq) = run_history l cap "none" N0 line in
  let n = int_of_n nreq in
  let b = Buffer.create 1024 in
  Buffer.add_string b (Printf.sprintf "N=%d base{%s}" n base);
  List.iter (fun mode ->
    for k = 0 to n - 1 do
      let (r, _) = run_history l cap mode (n_of_int k) line in
      Buffer.add_string b (Printf.sprintf " %s%d{%s}" mode k r)
    done) ["only"; "from"];
  Buffer.contents b

let () =
  let stream = Sys.argv.(1) in
  let arg i = n_of_string Sys.argv.(i) in
  let f = match stream with
    | "dec1" -> dec1 | "enc" -> enc | "encdec" -> encdec
    | "load" -> load_ (arg 2) (arg 3)
    | "load_spec" -> load_spec_ (arg 2) (arg 3)
    | "rt" -> rt (arg 2) (arg 3)
    | "sizes" -> sizes | "sizes_spec" -> sizes_spec
    | "seq" -> seq (arg 2) (arg 3)
    | "loadpost" | "depth" -> loadpost (arg 2) (arg 3)
    | "copy" -> copy_
    | "rdonly" -> rdonly | "dec1_spec" -> dec1_spec | "ser_spec" -> ser_spec
    | "hist" -> hist (arg 2) (arg 3) Sys.argv.(4) (arg 5)
    | "fault" -> fault_ (arg 2) (arg 3)
    | "thr" -> thr (arg 2) (arg 3) | "shared" -> shared
    | "ser" -> ser | "utf8" -> utf8 | "utf8_spec" -> utf8_spec | "dfa" -> dfa | "mem" -> mem | "frag" -> frag | "toks" -> toks
    | s -> failwith ("unknown stream " ^ s) in
  try
    while true do
      let line = input_line stdin in
      let line = String.trim line in
      if line <> "" && line.[0] <> '#' then
        print_endline (try f line with Parse m -> "PARSE " ^ m | Stack_overflow -> "STACKOVERFLOW")
    done
  with End_of_file -> ()
