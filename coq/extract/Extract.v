(* Extraction of the executable models for the correspondence check.
   ExtrOcamlBasic only: bool/option/unit/list/prod/sumbool/sumor map to OCaml natives;
   N / positive / nat stay the extracted inductive types.  Run with cwd = coq/extract. *)
From CB Require Import Word PStream PEnc PMem PItem PUtf8 PBuild PDrive SpecHead SpecItem SpecParse HHeap HItems HOps HHist HHist2 HHist3 PSize PWiden.
Require Extraction.
Require Import ExtrOcamlBasic.
Extraction Language OCaml.
Extraction "model.ml"
  N.add N.mul N.sub N.div N.modulo N.eqb N.leb N.ltb N.of_nat N.to_nat N.succ N.double
  len be_val be_bytes
  stream_decode head_spec tokens_of
  encode
  highest_bit safe_to_multiply safe_to_add safe_signaling_add alloc_multiple_req grow_capacity header_size
  ssize serialize_into serialize_alloc
  utf8d codepoint_count stored_codepoints utf8_spec spec_codepoints unicode_decode
  load callback append
  run_client
  encode_rfc load_spec tokenize
  world0 step probe1 live_count run_hist
  ssize_s total_s shape
  set_handle_new set_handle_shorten new_definite_string_op
  s3_0 step3 run_hist3 ptrs3 set_allocs
  widen32 float_get_float_bits.
