(* C16 — code point count equals the strict UTF-8 count, or 0 for invalid text.
   Only statements; proofs are in theories/PUtf8_proofs.v. *)
From CB Require Import Word PUtf8 PUtf8_proofs Bridge_utf8d.
From CBGen Require Import Gen_utf8d.
Local Open Scope N_scope.

(* the count cbor_string_set_handle stores, computed with the table regenerated from the source
   on this run, is the RFC 3629 character count for valid text and 0 otherwise — for every byte
   string of every length *)
Theorem C16_count : forall bs, bytes_ok bs ->
  stored_codepoints gen_utf8d bs = Some (spec_codepoints bs).
Proof. rewrite bridge_utf8d. exact (stored_codepoints_spec utf8d table_ok_utf8d). Qed.
Print Assumptions C16_count.

(* the DFA never indexes outside its table (no undefined behaviour), whatever the bytes *)
Theorem C16_no_fault : forall bs, bytes_ok bs -> codepoint_count gen_utf8d bs <> None.
Proof. rewrite bridge_utf8d. exact (codepoint_count_never_faults utf8d table_ok_utf8d). Qed.
Print Assumptions C16_no_fault.

(* non-vacuity: a valid 3-character string, an overlong form, a surrogate, a truncated sequence *)
Example C16_examples :
  spec_codepoints [0x61; 0xE2; 0x82; 0xAC; 0xF0; 0x9F; 0x98; 0x80] = 3 /\
  spec_codepoints [0xC0; 0x80] = 0 /\ spec_codepoints [0xED; 0xA0; 0x80] = 0 /\
  spec_codepoints [0xE2; 0x82] = 0 /\ bytes_ok [0x61; 0xE2; 0x82; 0xAC].
Proof. repeat split; try reflexivity. repeat constructor. Qed.
