(* C16 — code point count equals the strict UTF-8 count, or 0 for invalid text.
   Only statements; proofs are in theories/PUtf8_proofs.v. *)
From CB Require Import Word PUtf8 PUtf8_proofs Bridge_utf8d PStream PItem SpecItem PBuild PRound_proofs.
From CBGen Require Import Gen_utf8d.
Local Open Scope N_scope.

(* the count cbor_string_set_handle stores, computed with the table regenerated from the source
   on this run, is the RFC 3629 character count for valid text and 0 otherwise — for every byte
   string of every length *)
Theorem C16_count : forall bs, bytes_ok bs ->
  stored_codepoints gen_utf8d bs = Some (spec_codepoints bs).
Proof. rewrite bridge_utf8d. exact (stored_codepoints_spec utf8d table_ok_utf8d). Qed.
Print Assumptions C16_count.

(* the DFA never indexes outside its table (no undefined behaviour), whatever the bytes *)
Theorem C16_no_fault : forall bs, bytes_ok bs -> codepoint_count gen_utf8d bs <> None.
Proof. rewrite bridge_utf8d. exact (codepoint_count_never_faults utf8d table_ok_utf8d). Qed.
Print Assumptions C16_no_fault.

(* non-vacuity: a valid 3-character string, an overlong form, a surrogate, a truncated sequence *)
Example C16_examples :
  spec_codepoints [0x61; 0xE2; 0x82; 0xAC; 0xF0; 0x9F; 0x98; 0x80] = 3 /\
  spec_codepoints [0xC0; 0x80] = 0 /\ spec_codepoints [0xED; 0xA0; 0x80] = 0 /\
  spec_codepoints [0xE2; 0x82] = 0 /\ bytes_ok [0x61; 0xE2; 0x82; 0xAC].
Proof. repeat split; try reflexivity. repeat constructor. Qed.

(* byte length and content are preserved either way, and decoding never rejects a text string
   because of its content: for EVERY payload (valid UTF-8 or not) the decoder returns the definite
   text string holding exactly those bytes, consuming exactly head + payload, whatever follows;
   likewise chunk by chunk for indefinite text strings.  Instances of the C03 round trip. *)
Theorem C16_content_preserved : forall L cap pay rest,
  bytes_ok pay -> len pay < 2 ^ 64 -> len pay <= cap -> bytes_ok rest ->
  len (encode_rfc (IText pay) ++ rest) < SIZE_MAX ->
  load L cap (encode_rfc (IText pay) ++ rest) = LOk (IText pay) (len (encode_rfc (IText pay))).
Proof.
  intros L cap pay rest Hb Hl Hc Hr Hs.
  apply (C03_roundtrip_load L cap (IText pay) rest); [|exact Hr|exact Hs].
  split; [split; assumption|]. split; [apply N.le_0_l|exact Hc].
Qed.
Print Assumptions C16_content_preserved.

Theorem C16_chunks_preserved : forall L cap cs rest, 1 <= L ->
  Forall (fun d => bytes_ok d /\ len d < 2 ^ 64) cs -> len cs < 2 ^ 64 ->
  Forall (fun d => len d <= cap) cs -> bytes_ok rest ->
  len (encode_rfc (ITextI cs) ++ rest) < SIZE_MAX ->
  load L cap (encode_rfc (ITextI cs) ++ rest) = LOk (ITextI cs) (len (encode_rfc (ITextI cs))).
Proof.
  intros L cap cs rest HL Hw Hn Hc Hr Hs.
  apply (C03_roundtrip_load L cap (ITextI cs) rest); [|exact Hr|exact Hs].
  split; [split; assumption|]. split; [exact HL|exact Hc].
Qed.
Print Assumptions C16_chunks_preserved.

(* non-vacuity: an overlong form and a lone continuation byte are accepted as text, bytes intact *)
Example C16_invalid_text_accepted :
  load 4 100 [0x63; 0xC0; 0x80; 0x80; 0xFF] = LOk (IText [0xC0; 0x80; 0x80]) 4.
Proof. vm_compute. reflexivity. Qed.
(* ---- translator tie, second wave: _cbor_unicode_decode and _cbor_unicode_codepoint_count as translated from
   this run's clang AST are the model's DFA step and count (return value and status; for every value of the
   locals that are indeterminate when first used) ---- *)
From Coq Require Import ZArith.
From CB Require Import GenLeafTypes Bridge_leaf_utf8.
From CBGen Require Import Gen_leaf.
Theorem C16_code_unicode_decode : forall state byte codep, state < 16 -> byte < 256 ->
  proj_rs (g_cbor_unicode_decode (Z.of_N state) codep (Z.of_N byte)) =
  option_map (fun s => (Z.of_N s, Z.of_N s)) (unicode_decode utf8d state byte).
Proof. exact bridge_unicode_decode_utf8d. Qed.
Theorem C16_code_codepoint_count : forall bs u, Forall (fun b => b < 256) bs -> len bs < 2^64 ->
  proj_rs (g_cbor_unicode_codepoint_count (srcf bs) (Z.of_N (len bs)) u) = zcount (codepoint_count utf8d bs).
Proof. exact bridge_codepoint_count. Qed.
Print Assumptions C16_code_codepoint_count.
