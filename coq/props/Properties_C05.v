(* C05 — decode failures are reported definitively, with the right code and position.
   Statements only; proofs in theories/PBuild_proofs.v, PLoad_proofs.v. *)
From CB Require Import Word PStream SpecHead PBuild SpecParse PRun PBuild_proofs PFinal HHeap HItems HOps HRef_proofs HCont_proofs HRead_proofs HLoad_proofs PLoad_proofs PIdeal_proofs.
Local Open Scope N_scope.

(* total characterisation: for every input, every nesting limit L and every allocator size cap,
   cbor_load returns exactly what the recursive-descent specification (SpecParse.load_spec) says:
   the same tree and read count, or the same error code at the same position.
   The specification classifies: NODATA for empty input; NOTENOUGHDATA at the start of the first
   incomplete or missing head; MALFORMATED at a reserved / unsupported initial byte; SYNTAXERROR
   just past a complete head that is illegal where it stands (break outside an indefinite item or
   in value position; a non-chunk item inside a chunked string, reported when that item completes);
   MEMERROR just past a head whose allocation is refused or that nests beyond L. *)
Theorem C05_exact : forall L cap buf, bytes_ok buf -> len buf < SIZE_MAX ->
  load L cap buf = load_spec L cap buf.
Proof. exact load_is_spec_full. Qed.
Print Assumptions C05_exact.

(* the builder as a machine over the head sequence equals the specification parser, error classes
   and positions included — for every token list, stack limit and allocator cap *)
Theorem C05_machine_is_spec : forall L cap tl ts,
  run L cap tl ts [] = lres_of_pres (parse cap tl (S (2 * length ts + 1)) (N.to_nat L) ts).
Proof. exact run_is_parse_strong. Qed.
Print Assumptions C05_machine_is_spec.

(* empty input: NODATA with every field of the result written (position 0, read 0) *)
Theorem C05_empty : forall L cap, load L cap [] = LErr ENoData 0 0.
Proof. intros. reflexivity. Qed.

Example C05_examples :
  load 2048 (2^20) [0x82; 0x01] = LErr ENotEnough 2 2 /\            (* truncated: missing second element *)
  load 2048 (2^20) [0x82; 0x01; 0x1C] = LErr EMalformed 2 2 /\       (* reserved initial byte *)
  load 2048 (2^20) [0x82; 0xFF; 0x01] = LErr ESyntax 2 2 /\          (* break inside a definite array *)
  load 2048 (2^20) [0xBF; 0x01; 0xFF] = LErr ESyntax 3 3 /\          (* break in value position *)
  load 2 (2^20) [0x81; 0x81; 0x81; 0x01] = LErr EMem 3 3 /\          (* nesting beyond L = 2 *)
  load 2048 (2^20) [0x5F; 0x01; 0xFF] = LErr ESyntax 2 2 /\          (* non-chunk item inside a chunked string *)
  load 2048 (2^20) [0x5F; 0x81; 0x01; 0xFF] = LErr ESyntax 3 3.      (* ... reported when that item completes *)
Proof. repeat split; vm_compute; reflexivity. Qed.

(* whenever cbor_load fails it leaves nothing allocated and touches nothing that existed before *)
Theorem C05_load_h_clean_failure :
  forall (refuse : N -> N -> bool) (L : N) (own ownd : addr -> N)
           (buf : list N) (w : world) (code : lerr) 
           (pos rd : N) (w' : world),
         bytes_ok buf ->
         (len buf < SIZE_MAX)%N ->
         HCont_proofs.wf w ->
         Inv own ownd [] w ->
         load_h refuse L buf w = Ret (None, code, pos, rd) w' ->
         code <> ENone /\
         (forall b : N, (b < next w)%N -> heap w' b = heap w b) /\
         (forall b : N, (next w <= b)%N -> heap w' b = None) /\
         Inv own ownd [] w' /\ (next w <= next w')%N.
Proof. exact load_h_clean_failure. Qed.
Print Assumptions C05_load_h_clean_failure.

(* every proper prefix of an acceptable item gives NOTENOUGHDATA, never a hard error *)
Theorem C05_prefix : forall L cap x t n k, bytes_ok x -> len x < SIZE_MAX -> load L cap x = LOk t n -> 0 < k -> k < n ->
  exists p, load L cap (firstnN k x) = LErr ENotEnough p p /\ p <= k.
Proof. exact C05_load_prefix. Qed.
Print Assumptions C05_prefix.

(* ---- against an independent "ideal" parser that rejects at the FIRST point of violation --------
   PIdeal_proofs.parse_ideal is a second recursive-descent parser that, unlike the library, refuses a
   non-chunk item inside a chunked string at that item's head.  cbor_load agrees with it on every
   input except inside that one documented laziness (the streaming decoder keeps decoding the
   illegally opened item and reports when it completes), and there the report is never earlier and
   never a soft (NODATA) or absent error. *)
Theorem C05_first_violation : forall L cap buf c p, bytes_ok buf -> len buf < SIZE_MAX ->
  load_ideal L cap buf = LErr c p p -> ~ chunk_exception L cap buf ->
  load L cap buf = LErr c p p.
Proof. exact PIdeal_proofs.C05_first_violation. Qed.
Print Assumptions C05_first_violation.

Theorem C05_late : forall L cap buf c p, bytes_ok buf -> len buf < SIZE_MAX ->
  load_ideal L cap buf = LErr c p p -> chunk_exception L cap buf ->
  c = ESyntax /\ exists c' p', load L cap buf = LErr c' p' p' /\ c' <> ENone /\ c' <> ENoData /\ p <= p'.
Proof. exact PIdeal_proofs.C05_late. Qed.
Print Assumptions C05_late.

(* ------------------------------------------------------------------------------------------ *)
(* Translator tie of cbor_load's outcome mapping (translator/effects.py renders cbor_load as three
   plans: from its entry, one round of the decoding loop, one round of the unwinding loop;
   gen/Gen_effects_load.v; Bridge_effects_load.v; HPlansLoad_proofs.v): which code, position and read
   count every exit of the model's [load] / [load_loop] reports is what the plans generated from the
   C source say — NODATA at 0 for empty input; NOTENOUGHDATA when nothing is left or the decoder
   wants more, MALFORMATED on a decoder error, both at the old position; MEMERROR, then SYNTAXERROR,
   at the position after the head when a callback flagged it. *)
From Coq Require Import ZArith String.
From CB Require Import GenLeafTypes HPlans HPlansLoad HPlans_proofs HPlansLoad_proofs Bridge_effects_load.
From CBGen Require Import Gen_effects_load.
Local Open Scope string_scope.
Local Open Scope list_scope.
Local Open Scope N_scope.

Theorem C05_code_load_plans : forall code cf dr position read size st se cf' size' se' n,
  n < 2^64 -> read < 2^64 -> dr < 2^64 -> size' < 2^64 -> size < 2^64 -> (0 <= st <= 2)%Z ->
  Gcbor_load code cf (Z.of_N dr) (Z.of_N position) (Z.of_N read) (Z.of_N size) st se cf' (Z.of_N size') se' (Z.of_N n) =
    load_entry_plan code cf position read size se n /\
  Gcbor_load_loop0 code cf (Z.of_N dr) (Z.of_N position) (Z.of_N read) (Z.of_N size) st se cf' (Z.of_N size') se' (Z.of_N n) =
    load_step_plan code cf position read size se n st dr cf' se' size' /\
  Gcbor_load_loop1 code cf (Z.of_N dr) (Z.of_N position) (Z.of_N read) (Z.of_N size) st se cf' (Z.of_N size') se' (Z.of_N n) =
    load_unwind_plan code cf position read size se.
Proof.
  intros code cf dr position read size st se cf' size' se' n Hn Hr Hd Hs' Hs Hst.
  split; [exact (bridge_plan_load_entry code cf (Z.of_N dr) position read size st se cf' (Z.of_N size') se' n Hn)|].
  split; [exact (bridge_plan_load_step code cf dr position read size st se cf' size' se' n Hn Hr Hd Hs' Hst)|].
  exact (bridge_plan_load_unwind code cf (Z.of_N dr) position read size st se cf' (Z.of_N size') se' (Z.of_N n) Hs).
Qed.
Print Assumptions C05_code_load_plans.

Theorem C05_load_entry_follows_plan : forall L cap buf code cf pos rd sz se,
  let p := load_entry_plan code cf pos rd sz se (len buf) in
  match p_ret p with
  | RP PNull => load L cap buf = LErr (code_lerr (fieldZ "code" p)) (fieldN "position" p) (fieldN "read" p)
  | RLoop 0 => p_reqs p = [] /\ fieldN "read" p = 0 /\ fieldN "size" p = 0 /\
               fieldZ "creation_failed" p = 0%Z /\ fieldZ "syntax_error" p = 0%Z /\
               load L cap buf = load_loop L cap (S (List.length buf)) buf 0 []
  | _ => False
  end.
Proof. exact load_entry_follows_plan. Qed.

Theorem C05_code_load_error_exits : forall L cap fuel buf read stk code pos r e,
  len buf < 2 ^ 64 -> read < len buf -> len stk < 2 ^ 64 -> rd r < 2 ^ 64 ->
  stream_decode (skipnN read buf) = SRes r e ->
  st r <> Finished ->
  forall cf' se' sz', sz' < 2 ^ 64 ->
  let p := Gcbor_load_loop0 code 0 (Z.of_N (rd r)) (Z.of_N pos) (Z.of_N read) (Z.of_N (len stk)) (zstatus (st r)) 0
             cf' (Z.of_N sz') se' (Z.of_N (len buf)) in
  p_ret p = RLoop 1 /\
  load_loop L cap (S fuel) buf read stk = LErr (code_lerr (fieldZ "code" p)) (fieldN "position" p) (fieldN "read" p) /\
  code_lerr (fieldZ "code" p) = (if (zstatus (st r) =? ST_NEDATA)%Z then ENotEnough else EMalformed) /\
  fieldN "position" p = read /\ fieldN "read" p = read.
Proof. exact code_load_error_exits. Qed.
Print Assumptions C05_code_load_error_exits.

Theorem C05_code_load_finished_round : forall L cap fuel buf read stk code pos r tk,
  len buf < 2 ^ 64 -> read < len buf -> len stk < 2 ^ 64 -> rd r < 2 ^ 64 ->
  stream_decode (skipnN read buf) = SRes r (Some tk) ->
  st r = Finished ->
  let c := callback L cap tk stk in
  fault c = false -> len (stack c) < 2 ^ 64 ->
  let p := Gcbor_load_loop0 code 0 (Z.of_N (rd r)) (Z.of_N pos) (Z.of_N read) (Z.of_N (len stk)) ST_FINISHED 0
             (b2Z (creation_failed c)) (Z.of_N (len (stack c))) (b2Z (syntax_error c)) (Z.of_N (len buf)) in
  match p_ret p with
  | RLoop 1 => load_loop L cap (S fuel) buf read stk =
               LErr (code_lerr (fieldZ "code" p)) (fieldN "position" p) (fieldN "read" p)
  | RLoop 0 => stack c <> [] /\
               load_loop L cap (S fuel) buf read stk = load_loop L cap fuel buf (fieldN "read" p) (stack c)
  | RP _ => stack c = [] /\
            forall t, root c = Some t -> load_loop L cap (S fuel) buf read stk = LOk t (fieldN "read" p)
  | _ => False
  end.
Proof. exact code_load_finished_round. Qed.
Print Assumptions C05_code_load_finished_round.

Theorem C05_load_outcome_codes : forall code cf pos read sz se n st dr cf' se' sz',
  let p := load_step_plan code cf pos read sz se n st dr cf' se' sz' in
  p_ret p = RLoop 1 ->
  fieldN "position" p = fieldN "read" p /\
  ((n <=? read) = true -> code_lerr (fieldZ "code" p) = ENotEnough /\ fieldN "read" p = read) /\
  ((n <=? read) = false ->
     (st = ST_NEDATA -> code_lerr (fieldZ "code" p) = ENotEnough /\ fieldN "read" p = read) /\
     (st = ST_ERROR -> code_lerr (fieldZ "code" p) = EMalformed /\ fieldN "read" p = read) /\
     (st = ST_FINISHED -> fieldN "read" p = wrap64 (read + dr) /\
        code_lerr (fieldZ "code" p) = if negb (cf' =? 0)%Z then EMem else ESyntax)).
Proof. exact load_outcome_codes. Qed.
Print Assumptions C05_load_outcome_codes.
