(* C05 — decode failures are reported definitively, with the right code and position.
   Statements only; proofs in theories/PBuild_proofs.v, PLoad_proofs.v. *)
From CB Require Import Word PStream SpecHead PBuild SpecParse PRun PBuild_proofs PFinal HHeap HItems HOps HRef_proofs HCont_proofs HRead_proofs HLoad_proofs PLoad_proofs PIdeal_proofs.
Local Open Scope N_scope.

(* total characterisation: for every input, every nesting limit L and every allocator size cap,
   cbor_load returns exactly what the recursive-descent specification (SpecParse.load_spec) says:
   the same tree and read count, or the same error code at the same position.
   The specification classifies: NODATA for empty input; NOTENOUGHDATA at the start of the first
   incomplete or missing head; MALFORMATED at a reserved / unsupported initial byte; SYNTAXERROR
   just past a complete head that is illegal where it stands (break outside an indefinite item or
   in value position; a non-chunk item inside a chunked string, reported when that item completes);
   MEMERROR just past a head whose allocation is refused or that nests beyond L. *)
Theorem C05_exact : forall L cap buf, bytes_ok buf -> len buf < SIZE_MAX ->
  load L cap buf = load_spec L cap buf.
Proof. exact load_is_spec_full. Qed.
Print Assumptions C05_exact.

(* the builder as a machine over the head sequence equals the specification parser, error classes
   and positions included — for every token list, stack limit and allocator cap *)
Theorem C05_machine_is_spec : forall L cap tl ts,
  run L cap tl ts [] = lres_of_pres (parse cap tl (S (2 * length ts + 1)) (N.to_nat L) ts).
Proof. exact run_is_parse_strong. Qed.
Print Assumptions C05_machine_is_spec.

(* empty input: NODATA with every field of the result written (position 0, read 0) *)
Theorem C05_empty : forall L cap, load L cap [] = LErr ENoData 0 0.
Proof. intros. reflexivity. Qed.

Example C05_examples :
  load 2048 (2^20) [0x82; 0x01] = LErr ENotEnough 2 2 /\            (* truncated: missing second element *)
  load 2048 (2^20) [0x82; 0x01; 0x1C] = LErr EMalformed 2 2 /\       (* reserved initial byte *)
  load 2048 (2^20) [0x82; 0xFF; 0x01] = LErr ESyntax 2 2 /\          (* break inside a definite array *)
  load 2048 (2^20) [0xBF; 0x01; 0xFF] = LErr ESyntax 3 3 /\          (* break in value position *)
  load 2 (2^20) [0x81; 0x81; 0x81; 0x01] = LErr EMem 3 3 /\          (* nesting beyond L = 2 *)
  load 2048 (2^20) [0x5F; 0x01; 0xFF] = LErr ESyntax 2 2 /\          (* non-chunk item inside a chunked string *)
  load 2048 (2^20) [0x5F; 0x81; 0x01; 0xFF] = LErr ESyntax 3 3.      (* ... reported when that item completes *)
Proof. repeat split; vm_compute; reflexivity. Qed.

(* whenever cbor_load fails it leaves nothing allocated and touches nothing that existed before *)
Theorem C05_load_h_clean_failure :
  forall (refuse : N -> N -> bool) (L : N) (own ownd : addr -> N)
           (buf : list N) (w : world) (code : lerr) 
           (pos rd : N) (w' : world),
         bytes_ok buf ->
         (len buf < SIZE_MAX)%N ->
         HCont_proofs.wf w ->
         Inv own ownd [] w ->
         load_h refuse L buf w = Ret (None, code, pos, rd) w' ->
         code <> ENone /\
         (forall b : N, (b < next w)%N -> heap w' b = heap w b) /\
         (forall b : N, (next w <= b)%N -> heap w' b = None) /\
         Inv own ownd [] w' /\ (next w <= next w')%N.
Proof. exact load_h_clean_failure. Qed.
Print Assumptions C05_load_h_clean_failure.

(* every proper prefix of an acceptable item gives NOTENOUGHDATA, never a hard error *)
Theorem C05_prefix : forall L cap x t n k, bytes_ok x -> len x < SIZE_MAX -> load L cap x = LOk t n -> 0 < k -> k < n ->
  exists p, load L cap (firstnN k x) = LErr ENotEnough p p /\ p <= k.
Proof. exact C05_load_prefix. Qed.
Print Assumptions C05_prefix.

(* ---- against an independent "ideal" parser that rejects at the FIRST point of violation --------
   PIdeal_proofs.parse_ideal is a second recursive-descent parser that, unlike the library, refuses a
   non-chunk item inside a chunked string at that item's head.  cbor_load agrees with it on every
   input except inside that one documented laziness (the streaming decoder keeps decoding the
   illegally opened item and reports when it completes), and there the report is never earlier and
   never a soft (NODATA) or absent error. *)
Theorem C05_first_violation : forall L cap buf c p, bytes_ok buf -> len buf < SIZE_MAX ->
  load_ideal L cap buf = LErr c p p -> ~ chunk_exception L cap buf ->
  load L cap buf = LErr c p p.
Proof. exact PIdeal_proofs.C05_first_violation. Qed.
Print Assumptions C05_first_violation.

Theorem C05_late : forall L cap buf c p, bytes_ok buf -> len buf < SIZE_MAX ->
  load_ideal L cap buf = LErr c p p -> chunk_exception L cap buf ->
  c = ESyntax /\ exists c' p', load L cap buf = LErr c' p' p' /\ c' <> ENone /\ c' <> ENoData /\ p <= p'.
Proof. exact PIdeal_proofs.C05_late. Qed.
Print Assumptions C05_late.
