(* C20 — size arithmetic never wraps.  Statements only; proofs in theories/PMem_proofs.v.
   [w] is the width of size_t in bits: every theorem holds for any width, in particular 64. *)
From CB Require Import Word PMem PItem SpecItem PSize PSize_proofs PMem_proofs Bridge_config GenLeafTypes Bridge_leaf_mem Bridge_inventory.
From CBGen Require Import Gen_inventory.
From CBGen Require Import Gen_leaf.
From CBGen Require Import Gen_config.
From Coq Require Import ZArith.
Local Open Scope N_scope.

Theorem C20_highest_bit : forall w a, a < 2^w ->
  let h := highest_bit w a in a < 2^h /\ (0 < a -> 2^(h-1) <= a) /\ h <= w.
Proof. exact hb_spec. Qed.
Print Assumptions C20_highest_bit.

(* the multiplication guard is sound: whenever it says yes the product fits *)
Theorem C20_mul : forall w a b, a < 2^w -> b < 2^w -> safe_to_multiply w a b = true -> a * b < 2^w.
Proof. exact mul_sound. Qed.
Print Assumptions C20_mul.

(* the addition guard is exact *)
Theorem C20_add : forall w a b, a < 2^w -> b < 2^w -> (safe_to_add w a b = true <-> a + b < 2^w).
Proof. exact add_iff. Qed.
Print Assumptions C20_add.

Theorem C20_sig_add : forall w a b, a < 2^w -> b < 2^w ->
  safe_signaling_add w a b = if (a =? 0) || (b =? 0) then 0 else if a + b <? 2^w then a + b else 0.
Proof. exact sig_add_spec. Qed.
Print Assumptions C20_sig_add.

(* a request for n elements of size s: the allocator is asked for exactly n*s bytes, or not at all *)
Theorem C20_alloc_multiple : forall w s n r, s < 2^w -> n < 2^w ->
  alloc_multiple_req w s n = Some r -> r = s * n /\ r < 2^w.
Proof. exact alloc_multiple_exact. Qed.
Print Assumptions C20_alloc_multiple.

(* container growth never computes a smaller capacity than it had *)
Theorem C20_growth : forall w a c, 2 <= w -> a < 2^w -> grow_capacity w a = Some c ->
  c = N.max 1 (2 * a) /\ a < c < 2^w.
Proof. exact grow_spec. Qed.
Print Assumptions C20_growth.

(* a computed serialized size is either the exact mathematical total or 0 *)
Theorem C20_size_exact_or_zero : forall t, wf_item t ->
  ssize t = let n := len (encode_rfc t) in if n <? 2^64 then n else 0.
Proof. exact ssize_exact_or_zero. Qed.
Print Assumptions C20_size_exact_or_zero.

(* the growth factor the build is configured with is the model's *)
Theorem C20_growth_factor : gen_CBOR_BUFFER_GROWTH = CBOR_BUFFER_GROWTH.
Proof. exact bridge_growth. Qed.

(* non-vacuity: a product that needs 65 bits is refused, a sum that wraps is refused *)
Example C20_examples :
  safe_to_multiply 64 (2^33 - 1) (2^32 - 1) = false /\ safe_to_multiply 64 (2^32 - 1) (2^32 - 1) = true /\
  safe_signaling_add 64 (2^64 - 1) 2 = 0 /\ grow_capacity 64 (2^63) = None /\ grow_capacity 64 4 = Some 8.
Proof. repeat split; vm_compute; reflexivity. Qed.

(* the guard functions of memory_utils.c, as translated statement by statement from this run's
   clang AST, are the model functions the theorems above are about (all 64-bit operands) *)
Theorem C20_code_highest_bit : forall n, n < 2^64 -> g_cbor_highest_bit (Z.of_N n) = Z.of_N (highest_bit 64 n).
Proof. exact bridge_highest_bit. Qed.
Theorem C20_code_safe_to_multiply : forall a b, a < 2^64 -> b < 2^64 ->
  g_cbor_safe_to_multiply (Z.of_N a) (Z.of_N b) = b2z (safe_to_multiply 64 a b).
Proof. exact bridge_safe_to_multiply. Qed.
Theorem C20_code_safe_to_add : forall a b, a < 2^64 -> b < 2^64 ->
  g_cbor_safe_to_add (Z.of_N a) (Z.of_N b) = b2z (safe_to_add 64 a b).
Proof. exact bridge_safe_to_add. Qed.
Theorem C20_code_safe_signaling_add : forall a b, a < 2^64 -> b < 2^64 ->
  g_cbor_safe_signaling_add (Z.of_N a) (Z.of_N b) = Z.of_N (safe_signaling_add 64 a b).
Proof. exact bridge_safe_signaling_add. Qed.
Theorem C20_code_header_size : forall s, g_cbor_encoded_header_size (Z.of_N s) = Z.of_N (header_size s).
Proof. exact bridge_header_size. Qed.
Print Assumptions C20_code_safe_to_multiply.

Theorem C20_no_narrowing_from_64 : forallb (fun g => let '(_, _, from, _, _) := g in from <? 64) gen_narrowing = true.
Proof. exact bridge_no_narrowing_from_64. Qed.
Theorem C20_field_widths : forallb field_is_64 required_fields = true.
Proof. exact bridge_field_widths. Qed.

(* ... and for trees with ARBITRARY declared string lengths (PSize.v: a string is only its declared
   length, as when length metadata is not backed by data): exact total or 0 *)
Theorem C20_size_declared_lengths : forall t, wf_s t -> ssize_s t = if total_s t <? 2^64 then total_s t else 0.
Proof. exact ssize_s_exact_or_zero. Qed.
Theorem C20_size_is_shape_size : forall t, ssize t = ssize_s (shape t).
Proof. exact ssize_shape. Qed.
Print Assumptions C20_size_declared_lengths.

(* ------------------------------------------------------------------------------------------ *)
(* The growth arithmetic of the containers as the C source of this run has it (gen/Gen_effects.v,
   translator/effects.py; Bridge_effects.v; HPlans_proofs.v): the plan generated from
   cbor_array_push / _cbor_map_add_key / cbor_(byte)string_add_chunk makes at most one request, a
   _cbor_realloc_multiple of the slot size times max 1 (2 * capacity) slots, a capacity that strictly
   grew and did not wrap; and the byte count the model hands to the allocator for it is the exact
   product, below 2^64. *)
From Coq Require Import String List.
From CB Require Import HItems GenLeafTypes HPlans HPlans_proofs Bridge_effects.
From CBGen Require Import Gen_effects.
Import ListNotations.

Theorem C20_code_growth_plans : forall definite e al ok cnt cap, e < 2^64 -> al < 2^64 -> cnt < 2^64 -> cap < 2^64 ->
  Gcbor_array_push (Z.of_N al) (dst_z definite) (Z.of_N e) ok = array_push_plan definite e al ok /\
  G_cbor_map_add_key (Z.of_N al) (dst_z definite) (Z.of_N e) ok = map_add_key_plan definite e al ok /\
  Gcbor_bytestring_add_chunk (Z.of_N cap) (Z.of_N cnt) ok = add_chunk_plan cnt cap ok /\
  Gcbor_string_add_chunk (Z.of_N cap) (Z.of_N cnt) ok = add_chunk_plan cnt cap ok.
Proof.
  intros definite e al ok cnt cap He Ha Hc Hp.
  split; [exact (bridge_plan_array_push definite e al ok He Ha)|].
  split; [exact (bridge_plan_map_add_key definite e al ok He Ha)|].
  split; [exact (bridge_plan_bytestring_add_chunk cnt cap ok Hc Hp) | exact (bridge_plan_string_add_chunk cnt cap ok Hc Hp)].
Qed.
Print Assumptions C20_code_growth_plans.

Theorem C20_growth_request_exact :
  forall fields owner fld isz stores g full cap cnt ok r,
  cap < 2 ^ 64 ->
  In r (p_reqs (append_plan fields owner fld isz stores g full cap cnt ok)) ->
  exists c, r = ReqReallocMultiple (PField owner fld) (zN isz) (zN c) /\
            p_reqs (append_plan fields owner fld isz stores g full cap cnt ok) = [r] /\
            c = N.max 1 (2 * cap) /\ cap < c /\ c < 2 ^ 64 /\ full = true /\ g = true.
Proof. exact append_plan_requests. Qed.
Theorem C20_growth_request_bytes : forall isz c b,
  isz < 2 ^ 64 -> c < 2 ^ 64 -> alloc_multiple_req 64 isz c = Some b -> b = isz * c /\ b < 2 ^ 64.
Proof. exact multiple_request_exact. Qed.
Print Assumptions C20_growth_request_exact.

(* the same for the generated text: every request of the plan generated from cbor_array_push *)
Theorem C20_code_array_push_request : forall definite e al ok r, e < 2^64 -> al < 2^64 ->
  In r (p_reqs (Gcbor_array_push (Z.of_N al) (dst_z definite) (Z.of_N e) ok)) ->
  exists c, r = ReqReallocMultiple (PField (PArg 0) "data"%string) (Z.of_N SZ_PTR) (Z.of_N c) /\
            c = N.max 1 (2 * al) /\ al < c /\ c < 2 ^ 64.
Proof. exact code_array_push_request. Qed.
Print Assumptions C20_code_array_push_request.
(* ---- translator tie, second wave: _cbor_alloc_multiple / _cbor_realloc_multiple as translated from this
   run's clang AST ask the allocator for exactly the model's byte count, or make no request ---- *)
From CB Require Import Bridge_leaf_alloc.
Theorem C20_code_alloc_multiple : forall a b, a < 2^64 -> b < 2^64 ->
  g_cbor_alloc_multiple (Z.of_N a) (Z.of_N b) = option_map Z.of_N (alloc_multiple_req 64 a b).
Proof. exact bridge_alloc_multiple. Qed.
Theorem C20_code_realloc_multiple : forall a b, a < 2^64 -> b < 2^64 ->
  g_cbor_realloc_multiple (Z.of_N a) (Z.of_N b) = option_map Z.of_N (alloc_multiple_req 64 a b).
Proof. exact bridge_realloc_multiple. Qed.
Print Assumptions C20_code_alloc_multiple.

(* ------------------------------------------------------------------------------------------ *)
(* The sums of cbor_serialized_size as the C source of this run has them (gen/Gen_effects_ser.v,
   translator/effects.py; Bridge_effects_ser.v; HPlansSer_proofs.v): every round of a size loop adds the
   size of one part with the guarded sum _cbor_safe_signaling_add — never with a plain + — and the total
   starts from the head computed from the size. *)
From CB Require Import HPlansSer HPlansSer_proofs Bridge_effects_ser.
From CBGen Require Import Gen_effects_ser.

Theorem C20_code_ssize_array_round_followed : forall al cc ctrl dst len_ ty v w g8 total k acc x r c1,
  k < total -> total < 2 ^ 64 -> acc < 2 ^ 64 -> ssize x < 2 ^ 64 -> cc < 2 ^ 64 -> k <= cc -> c1 < 2 ^ 64 ->
  let p := Gcbor_serialized_size_loop2 al (Z.of_N cc) ctrl dst (Z.of_N total) len_ ty v w g8 (Z.of_N k) (Z.of_N acc) (Z.of_N (ssize x)) (Z.of_N c1) in
  to_head 2 p = true /\ HPlans_proofs.fieldN "round" p = k + 1 /\
  p_reqs p = [size_call (PSlot slots0 (Z.of_N k) ""%string)] /\
  fold_left (fun acc x => ssadd acc (ssize x)) (x :: r) acc =
  fold_left (fun acc x => ssadd acc (ssize x)) r (HPlans_proofs.fieldN "acc0" p).
Proof. exact code_ssize_array_round_followed. Qed.
Print Assumptions C20_code_ssize_array_round_followed.

Theorem C20_ssize_array_follows_plan : forall indef xs w length value ctrl g8 c,
  let p := ssize_plan TY_ARRAY w (negb indef) length (len xs) value ctrl g8 c in
  to_head 2 p = true /\ p_reqs p = [] /\
  ssize (IArray indef xs) = fold_left (fun acc x => ssadd acc (ssize x)) xs (HPlans_proofs.fieldN "acc0" p).
Proof. exact ssize_array_follows_plan. Qed.

Theorem C20_ssize_map_round_follows_plan : forall total k acc kv r,
  k < total ->
  let p := ssize_map_round_plan total k acc (ssize (fst kv)) (ssize (snd kv)) in
  to_head 3 p = true /\ HPlans_proofs.fieldN "round" p = k + 1 /\
  fold_left (fun acc kv => ssadd acc (ssadd (ssize (fst kv)) (ssize (snd kv)))) (kv :: r) acc =
  fold_left (fun acc kv => ssadd acc (ssadd (ssize (fst kv)) (ssize (snd kv)))) r (HPlans_proofs.fieldN "acc0" p).
Proof. exact ssize_map_round_follows_plan. Qed.
Print Assumptions C20_ssize_map_round_follows_plan.
