(* C19 — the nesting limit is exact for every configured value and bounds stack use.
   Statements only; proofs in theories/PLoad_proofs.v.  L is a parameter of the model: every
   theorem holds for every build-time value of CBOR_MAX_STACK_SIZE; the value of this build is
   regenerated from a cmake configure of the working tree (Gen_config). *)
From CB Require Import Word PStream PItem SpecItem PBuild SpecParse PLoad_proofs Bridge_config Bridge_inventory HHeap HOps HRef_proofs HCont_proofs HLoad_proofs HHist2_proofs.
From CBGen Require Import Gen_config.
Local Open Scope N_scope.

(* a decoded tree never nests deeper than the limit: the recursion depth of release / copy /
   serialize / describe on it is bounded by L (+1 for the leaf) *)
Theorem C19_depth : forall L cap buf t n, bytes_ok buf -> len buf < SIZE_MAX ->
  load L cap buf = LOk t n -> depth t <= L.
Proof. exact C19_load_depth. Qed.
Print Assumptions C19_depth.

(* the limit is exact: an input acceptable under some limit L' is accepted under L iff its nesting
   is at most L, and otherwise rejected with MEMERROR at a head inside the item *)
Theorem C19_exact : forall L L' cap buf t n, bytes_ok buf -> len buf < SIZE_MAX ->
  load L' cap buf = LOk t n ->
  (depth t <= L -> load L cap buf = LOk t n) /\
  (L < depth t -> exists p, load L cap buf = LErr EMem p p /\ p <= n).
Proof. exact C19_load_exact. Qed.
Print Assumptions C19_exact.

Theorem C19_configured_limit_positive : 0 < gen_CBOR_MAX_STACK_SIZE.
Proof. exact bridge_stack_limit_positive. Qed.

Example C19_examples :
  load 2 (2^20) [0xC1; 0x81; 0x01] = LOk (ITag 1 (IArray false [IUint I8 1])) 3 /\
  load 2 (2^20) [0xC1; 0x81; 0x9F; 0x01; 0xFF] = LErr EMem 3 3 /\
  load 2 (2^20) [0xC1; 0x81; 0x80] = LOk (ITag 1 (IArray false [IArray false []])) 3 /\
  depth (ITag 1 (IArray false [IArray false []])) = 2.
Proof. repeat split; vm_compute; reflexivity. Qed.

(* the decoder's stack counter (and every other counter the model treats as unbounded-below-2^64)
   is a 64-bit field: it cannot wrap before the limit for any configurable L *)
Theorem C19_field_widths : forallb field_is_64 required_fields = true.
Proof. exact bridge_field_widths. Qed.

(* "release / copy / serialize / describe complete within recursion depth proportional to L":
   the heap tree built by cbor_load under limit L is walked by the traversal shared by those
   operations (HOps.abs; one level of recursion per level of the tree, chunks included) with
   recursion depth L + 1 — for every L, every input, every prior heap.  [abs_fuel_needed]
   (HHist2_proofs) shows the fuel really is the recursion depth: with less than the tree's height
   the walk runs out. *)
Theorem C19_traversal_depth : forall L cap own ownd buf w a c p r w',
  SIZE_MAX <= cap -> bytes_ok buf -> len buf < 2 ^ 57 -> HCont_proofs.wf w -> Inv own ownd [] w ->
  load_h grant L buf w = Ret (Some a, c, p, r) w' ->
  exists t w'', load L cap buf = LOk t r /\ depth t <= L /\ (depth_nodes t <= N.to_nat L + 1)%nat /\
    abs (S (N.to_nat L)) a w' = Ret t w'' /\
    describe_walk (S (N.to_nat L)) a w' = Ret tt w''.
Proof. exact HHist2_proofs.C19_traversal_depth. Qed.
Print Assumptions C19_traversal_depth.

(* ------------------------------------------------------------------------------------------ *)
(* The guard of _cbor_stack_push as the C source of this run has it (gen/Gen_effects.v,
   translator/effects.py; Bridge_effects.v): at stack->size = CBOR_MAX_STACK_SIZE (the value a cmake
   configure of the working tree yields, Gen_config) it returns NULL without asking the allocator;
   below it makes one request of sizeof(struct _cbor_stack_record) and, when granted, links the
   record and increments the 64-bit counter.  The decoder's push of the heap model (HOps.push_ctx,
   whose L is the model's parameter) does exactly that (HPlans_proofs.v). *)
From Coq Require Import ZArith String List.
From CB Require Import HItems GenLeafTypes HPlans HPlans_proofs Bridge_effects.
From CBGen Require Import Gen_effects.
Import ListNotations.
Local Open Scope string_scope.
Local Open Scope list_scope.
Local Open Scope N_scope.

Theorem C19_code_stack_push_plan : forall sz sub ok, sz < 2^64 -> sub < 2^64 ->
  G_cbor_stack_push (Z.of_N sz) (Z.of_N sub) ok = stack_push_plan gen_CBOR_MAX_STACK_SIZE sz sub ok.
Proof. exact bridge_plan_stack_push. Qed.
Theorem C19_code_stack_pop_plan : forall sz, sz < 2^64 -> G_cbor_stack_pop (Z.of_N sz) = stack_pop_plan sz.
Proof. exact bridge_plan_stack_pop. Qed.
Print Assumptions C19_code_stack_push_plan.

Theorem C19_stack_push_follows_plan : forall refuse L res sub stk w,
  L < 2 ^ 64 -> len stk <= L ->
  let p := stack_push_plan L (len stk) sub (malloc_ok refuse (nreq w) SZ_REC) in
  (ret_null p = true ->
     fieldN "size" p = len stk /\
     push_ctx refuse L res sub stk w =
       (decref res ;;; ret (mkhctx stk None true false))
         (if len stk =? L then w else HCont_proofs.w_refused (EvMalloc SZ_REC None) w) /\
     p_reqs p = (if len stk =? L then [] else [ReqMalloc (Z.of_N SZ_REC)])) /\
  (ret_null p = false ->
     len stk < L /\ p_reqs p = [ReqMalloc (Z.of_N SZ_REC)] /\
     push_ctx refuse L res sub stk w =
       Ret (mkhctx ((next w, res, sub) :: stk) None false false) (HCont_proofs.w_malloc SZ_REC (CData SZ_REC) w) /\
     len ((next w, res, sub) :: stk) = fieldN "size" p /\
     In (SetInt (PNew 0) "subitems" (Z.of_N sub)) (p_effs p) /\
     In (SetPtr (PNew 0) "item" (PArg 1)) (p_effs p)).
Proof. exact stack_push_follows_plan. Qed.
Print Assumptions C19_stack_push_follows_plan.

(* composed, for the configured limit and the generated plan *)
Theorem C19_code_stack_push_followed : forall refuse res sub stk w,
  sub < 2 ^ 64 -> len stk <= gen_CBOR_MAX_STACK_SIZE ->
  let L := gen_CBOR_MAX_STACK_SIZE in
  let p := G_cbor_stack_push (Z.of_N (len stk)) (Z.of_N sub) (malloc_ok refuse (nreq w) SZ_REC) in
  (ret_null p = true ->
     fieldN "size" p = len stk /\
     push_ctx refuse L res sub stk w =
       (decref res ;;; ret (mkhctx stk None true false))
         (if len stk =? L then w else HCont_proofs.w_refused (EvMalloc SZ_REC None) w) /\
     p_reqs p = (if len stk =? L then [] else [ReqMalloc (Z.of_N SZ_REC)])) /\
  (ret_null p = false ->
     len stk < L /\ p_reqs p = [ReqMalloc (Z.of_N SZ_REC)] /\
     push_ctx refuse L res sub stk w =
       Ret (mkhctx ((next w, res, sub) :: stk) None false false) (HCont_proofs.w_malloc SZ_REC (CData SZ_REC) w) /\
     len ((next w, res, sub) :: stk) = fieldN "size" p /\
     In (SetInt (PNew 0) "subitems" (Z.of_N sub)) (p_effs p) /\
     In (SetPtr (PNew 0) "item" (PArg 1)) (p_effs p)).
Proof. exact code_stack_push_followed. Qed.
Print Assumptions C19_code_stack_push_followed.
(* ---- translator tie, second wave: _cbor_stack_push as translated from this run's clang AST refuses exactly at
   the configured limit, without asking the allocator, and otherwise asks for one record and counts it ---- *)
From Coq Require Import ZArith.
From CB Require Import PStackGuard GenLeafTypes Bridge_leaf_stack.
From CBGen Require Import Gen_leaf.
Theorem C19_code_stack_push : forall n granted, n < 2^64 -> n <= gen_CBOR_MAX_STACK_SIZE ->
  g_cbor_stack_push (Z.of_N n) granted = zoutcome (stack_push_outcome gen_CBOR_MAX_STACK_SIZE gen_sizeof_rec n granted).
Proof. exact bridge_stack_push. Qed.
Theorem C19_code_stack_push_guard : forall f stk, len stk < 2^64 -> len stk <= gen_CBOR_MAX_STACK_SIZE ->
  (fst (fst (g_cbor_stack_push (Z.of_N (len stk)) true)) = None <-> push gen_CBOR_MAX_STACK_SIZE f stk = fail_mem stk) /\
  (snd (fst (g_cbor_stack_push (Z.of_N (len stk)) true)) = false <-> push gen_CBOR_MAX_STACK_SIZE f stk = ok_stack (f :: stk)).
Proof. exact bridge_stack_push_guard. Qed.
Print Assumptions C19_code_stack_push.

(* the push-or-append decision of the start callbacks as the C source of this run has it: an empty
   definite array is appended at once, any other is pushed expecting its declared number of items
   (refused at the nesting limit or by the constructor: creation_failed) *)
From CB Require Import HPlansLoad HPlansLoad_proofs Bridge_effects_load.
From CBGen Require Import Gen_effects_load.
Theorem C19_code_array_start_followed : forall L cap n stk,
  n < 2 ^ 64 -> len stk < 2 ^ 64 ->
  let p := Gcbor_builder_array_start_callback 0 (Z.of_N (len stk)) (Z.of_N n) (alloc_ok cap 64 8 n) (negb (len stk =? L)) in
  callback L cap (TArray n) stk =
    if plan_cascades p then PBuild.append (IArray false []) stk
    else if (HPlansLoad_proofs.fieldZ "creation_failed" p =? 1)%Z then fail_mem stk
    else ok_stack (FArr false [] n (push_subitems p) :: stk).
Proof. exact code_array_start_followed. Qed.
Print Assumptions C19_code_array_start_followed.
