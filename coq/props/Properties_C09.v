(* C09 — feeding a stream in fragments yields the same events as one-shot decoding.
   Statements only; proofs in theories/PDrive_proofs.v (client model: theories/PDrive.v). *)
From CB Require Import Word PStream SpecHead PDrive PDrive_proofs PFinal.
Local Open Scope N_scope.

(* for every stream and every way of cutting it into fragments, the client receives exactly the
   RFC 8949 tokenisation of the stream *)
Theorem C09_same_events : forall frags, Forall bytes_ok frags -> len (concat frags) < SIZE_MAX ->
  fst (run_client frags) = tokens_of (concat frags).
Proof. exact client_same_events. Qed.
Print Assumptions C09_same_events.

(* the client never faults or spins; it ends waiting with exactly the undecoded suffix buffered,
   asking for strictly more than is buffered and no more than the pending item occupies (or has
   stopped at a reserved initial byte) *)
Theorem C09_final_state : forall frags, Forall bytes_ok frags -> len (concat frags) < SIZE_MAX ->
  let s := concat frags in
  let rest := rest_of s in
  concat (heads_of s) ++ rest = s /\
  Forall2 (fun h t => head_spec h = HTok t (len h)) (heads_of s) (fst (run_client frags)) /\
  snd (run_client frags) <> DFault /\
  match head_spec rest with
  | HTok _ _ => False
  | HNeed full => exists w, snd (run_client frags) = DWait rest w /\ len rest < w <= full
  | HBad => snd (run_client frags) = DStop
  end.
Proof. exact client_final_state. Qed.
Print Assumptions C09_final_state.

(* a stream that ends on an item boundary is delivered completely *)
Theorem C09_complete : forall frags, Forall bytes_ok frags -> len (concat frags) < SIZE_MAX ->
  concat (heads_of (concat frags)) = concat frags ->
  run_client frags = (tokens_of (concat frags), DWait [] 1).
Proof. exact client_complete. Qed.
Print Assumptions C09_complete.

Example C09_example :
  run_client [[0x83; 0x01]; [0x42; 0x61]; [0x62; 0x05]] =
  ([TArray 3; TUint I8 1; TBytes 1 [0x61; 0x62]; TUint I8 5], DWait [] 1).
Proof. vm_compute. reflexivity. Qed.

(* "keeps no state between calls": no variable with static storage duration in the files of the streaming
   decoder, the loaders, the encoders, the UTF-8 counter and the size guards is mutable or ever assigned
   (inventory regenerated from the AST of this run; theories/Bridge_inventory.v) *)
From CB Require Import Bridge_inventory.
From CBGen Require Import Gen_inventory.
Theorem C09_no_static_state : forallb stateless_ok gen_globals = true.
Proof. exact bridge_stateless_files. Qed.
Print Assumptions C09_no_static_state.
