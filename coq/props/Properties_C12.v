(* C12 — arrays, maps and chunked strings behave as bounded / unbounded sequences.
   Statements only (generated from the types of the lemmas proved in theories/HCont_proofs.v, where
   same_heap / heap_but / no_new_write / wf / block_inv / grow_req / push_many / cap_after /
   reallocs are defined).  Each lemma is the refinement step of one container operation against
   the abstract list held in the node: contents after = contents before ++ [x] on success, nothing
   changed on refusal. *)
From CB Require Import Word PMem HHeap HItems HOps HHist HRef_proofs HCont_proofs HCopy_proofs HHist_proofs HSeq_proofs.
From Coq Require Import List NArith.
Import ListNotations.
(* definite array: refuses (touching nothing) exactly when full; otherwise appends and takes one reference; no allocator event *)
Theorem C12_push_definite :
  forall (refuse : N -> N -> bool) (a x : addr) 
           (w : world) (rc : N) (d : addr) (sz allocated : N)
           (elems : list addr) (rcx : N) (nx : node),
         heap w a = Some (CItem rc (NArr false (Some d) allocated elems)) ->
         heap w d = Some (CData sz) ->
         heap w x = Some (CItem rcx nx) ->
         a <> x ->
         exists w' : world,
           ((allocated <= len elems)%N ->
            array_push refuse a x w = Ret false w' /\
            same_heap w w' /\
            no_new_write w w' /\ trace w' = trace w /\ nreq w' = nreq w) /\
           ((len elems < allocated)%N ->
            array_push refuse a x w = Ret true w' /\
            heap w' a =
            Some (CItem rc (NArr false (Some d) allocated (elems ++ [x]))) /\
            heap w' x = Some (CItem (wrap64 (rcx + 1)) nx) /\
            heap_but [a; x] w w' /\
            next w' = next w /\ nreq w' = nreq w /\ trace w' = trace w).
Proof. exact push_definite. Qed.
Print Assumptions C12_push_definite.
(* a definite array accepts exactly as many entries as were preallocated and then refuses *)
Theorem C12_definite_accepts_exactly :
  forall (refuse : N -> N -> bool) (n : N) (w : world) 
           (a : addr) (w1 : world) (xs : list addr),
         wf w ->
         new_definite_array refuse n w = Ret (Some a) w1 ->
         (forall x : addr, In x xs -> is_item w1 x /\ x <> a) ->
         exists w' : world,
           push_many refuse a xs w1 =
           Ret
             (repeat true (PeanoNat.Nat.min (N.to_nat n) (length xs)) ++
              repeat false (length xs - N.to_nat n)) w' /\
           heap w' a =
           Some
             (CItem 1 (NArr false (Some (a + 1)%N) n (firstn (N.to_nat n) xs))) /\
           next w' = next w1 /\ nreq w' = nreq w1 /\ trace w' = trace w1.
Proof. exact definite_accepts_exactly. Qed.
Print Assumptions C12_definite_accepts_exactly.
(* indefinite array: appends; grows to max 1 (2*capacity) when full with exactly one realloc request of exactly 8*c bytes; a refused growth changes nothing *)
Theorem C12_push_indefinite :
  forall (refuse : N -> N -> bool) (a x : addr) 
           (w : world) (rc : N) (data : option addr) 
           (allocated : N) (elems : list addr) (rcx : N) 
           (nx : node),
         wf w ->
         heap w a = Some (CItem rc (NArr true data allocated elems)) ->
         block_inv w data allocated ->
         heap w x = Some (CItem rcx nx) ->
         a <> x ->
         (allocated < 2 ^ 64)%N ->
         ((len elems < allocated)%N ->
          exists w' : world,
            array_push refuse a x w = Ret true w' /\
            heap w' a =
            Some (CItem rc (NArr true data allocated (elems ++ [x]))) /\
            heap w' x = Some (CItem (wrap64 (rcx + 1)) nx) /\
            heap_but [a; x] w w' /\
            next w' = next w /\ nreq w' = nreq w /\ trace w' = trace w) /\
         ((allocated <= len elems)%N ->
          match grow_req SZ_PTR allocated with
          | Some (c, bytes) =>
              c = N.max 1 (2 * allocated) /\
              (allocated < c)%N /\
              bytes = (8 * c)%N /\
              (bytes < 2 ^ 64)%N /\
              (if refuse (nreq w) bytes
               then
                exists w' : world,
                  array_push refuse a x w = Ret false w' /\
                  same_heap w w' /\
                  no_new_write w w' /\
                  trace w' = EvRealloc data bytes None :: trace w /\
                  nreq w' = (nreq w + 1)%N
               else
                exists w' : world,
                  array_push refuse a x w = Ret true w' /\
                  heap w' a =
                  Some (CItem rc (NArr true (Some (next w)) c (elems ++ [x]))) /\
                  heap w' x = Some (CItem (wrap64 (rcx + 1)) nx) /\
                  heap w' (next w) = Some (CData bytes) /\
                  (forall d : addr, data = Some d -> heap w' d = None) /\
                  heap_but (a :: x :: next w :: opt_list data) w w' /\
                  next w' = (next w + 1)%N /\
                  nreq w' = (nreq w + 1)%N /\
                  trace w' = EvRealloc data bytes (Some (next w)) :: trace w /\
                  wf w')
          | None =>
              exists w' : world,
                array_push refuse a x w = Ret false w' /\
                same_heap w w' /\
                no_new_write w w' /\ trace w' = trace w /\ nreq w' = nreq w
          end).
Proof. exact push_indefinite. Qed.
Print Assumptions C12_push_indefinite.
(* geometric growth: n insertions cost reallocs n <= log2 n + 2 reallocation requests; size never exceeds capacity *)
Theorem C12_capacity_sequence :
  forall (refuse : N -> N -> bool) (xs : list addr) 
           (w : world) (a : addr) (w1 : world),
         wf w ->
         new_indefinite_array refuse w = Ret (Some a) w1 ->
         (forall x : addr, In x xs -> is_item w1 x /\ x <> a) ->
         (len xs < 2 ^ 58)%N ->
         (forall i s : N, refuse i s = false) ->
         exists (w' : world) (data' : option addr) (evs : list event),
           push_many refuse a xs w1 = Ret (repeat true (length xs)) w' /\
           heap w' a =
           Some (CItem 1 (NArr true data' (cap_after (length xs)) xs)) /\
           block_inv w' data' (cap_after (length xs)) /\
           wf w' /\
           trace w' = evs ++ trace w1 /\
           len evs = reallocs (length xs) /\
           Forall is_realloc evs /\
           (reallocs (length xs) <= N.log2 (len xs) + 2)%N.
Proof. exact capacity_sequence. Qed.
Print Assumptions C12_capacity_sequence.
(* the logarithmic bound *)
Theorem C12_reallocs_log :
  forall n : nat, (reallocs n <= N.log2 (N.of_nat n) + 2)%N.
Proof. exact reallocs_log. Qed.
Print Assumptions C12_reallocs_log.
(* get: out of range -> NULL without any store; in range -> the element with one more reference *)
Theorem C12_get_spec :
  forall (a : addr) (i : N) (w : world) (rc : N) 
           (indef : bool) (d : addr) (sz allocated : N) 
           (elems : list addr),
         heap w a = Some (CItem rc (NArr indef (Some d) allocated elems)) ->
         heap w d = Some (CData sz) ->
         (forall e : addr, In e elems -> is_item w e) ->
         ((len elems <= i)%N ->
          exists w' : world,
            array_get a i w = Ret None w' /\
            same_heap w w' /\
            no_new_write w w' /\ trace w' = trace w /\ nreq w' = nreq w) /\
         ((i < len elems)%N ->
          exists (e : addr) (rce : N) (ne : node) (w' : world),
            nth_error elems (N.to_nat i) = Some e /\
            heap w e = Some (CItem rce ne) /\
            array_get a i w = Ret (Some e) w' /\
            heap w' e = Some (CItem (wrap64 (rce + 1)) ne) /\
            heap_but [e] w w' /\
            next w' = next w /\ nreq w' = nreq w /\ trace w' = trace w).
Proof. exact get_spec. Qed.
Print Assumptions C12_get_spec.
(* replace with an out-of-range index is refused without touching memory *)
Theorem C12_replace_spec_out :
  forall (a : addr) (i : N) (v : addr) (w : world) 
           (rc : N) (indef : bool) (data : option addr) 
           (allocated : N) (elems : list addr),
         heap w a = Some (CItem rc (NArr indef data allocated elems)) ->
         (len elems <= i)%N ->
         exists w' : world,
           array_replace a i v w = Ret false w' /\
           same_heap w w' /\
           no_new_write w w' /\ trace w' = trace w /\ nreq w' = nreq w.
Proof. exact replace_spec_out. Qed.
Print Assumptions C12_replace_spec_out.
(* set with an index beyond the end is refused without touching memory *)
Theorem C12_set_spec_out :
  forall (refuse : N -> N -> bool) (a : addr) 
           (i : N) (v : addr) (w : world) (rc : N) (indef : bool)
           (data : option addr) (allocated : N) (elems : list addr),
         heap w a = Some (CItem rc (NArr indef data allocated elems)) ->
         (len elems < i)%N ->
         exists w' : world,
           array_set refuse a i v w = Ret false w' /\
           same_heap w w' /\
           no_new_write w w' /\ trace w' = trace w /\ nreq w' = nreq w.
Proof. exact set_spec_out. Qed.
Print Assumptions C12_set_spec_out.
(* definite map: refuses when full; otherwise appends the pair and takes one reference on key and value *)
Theorem C12_map_add_definite :
  forall (refuse : N -> N -> bool) (a k v : addr) 
           (w : world) (rc : N) (d : addr) (sz allocated : N)
           (pairs : list (addr * option addr)) (rck : N) 
           (nk : node) (rcv : N) (nv : node),
         heap w a = Some (CItem rc (NMap false (Some d) allocated pairs)) ->
         heap w d = Some (CData sz) ->
         heap w k = Some (CItem rck nk) ->
         heap w v = Some (CItem rcv nv) ->
         a <> k ->
         a <> v ->
         k <> v ->
         exists w' : world,
           ((allocated <= len pairs)%N ->
            map_add refuse a k v w = Ret false w' /\
            same_heap w w' /\
            no_new_write w w' /\ trace w' = trace w /\ nreq w' = nreq w) /\
           ((len pairs < allocated)%N ->
            map_add refuse a k v w = Ret true w' /\
            heap w' a =
            Some
              (CItem rc
                 (NMap false (Some d) allocated (pairs ++ [(k, Some v)]))) /\
            heap w' k = Some (CItem (wrap64 (rck + 1)) nk) /\
            heap w' v = Some (CItem (wrap64 (rcv + 1)) nv) /\
            heap_but [a; k; v] w w' /\
            next w' = next w /\ nreq w' = nreq w /\ trace w' = trace w).
Proof. exact map_add_definite. Qed.
Print Assumptions C12_map_add_definite.
(* indefinite map: geometric growth of 16-byte pairs; refused growth changes nothing (the key is not referenced) *)
Theorem C12_map_add_indefinite :
  forall (refuse : N -> N -> bool) (a k v : addr) 
           (w : world) (rc : N) (data : option addr) 
           (allocated : N) (pairs : list (addr * option addr)) 
           (rck : N) (nk : node) (rcv : N) (nv : node),
         wf w ->
         heap w a = Some (CItem rc (NMap true data allocated pairs)) ->
         block_inv w data allocated ->
         heap w k = Some (CItem rck nk) ->
         heap w v = Some (CItem rcv nv) ->
         a <> k ->
         a <> v ->
         k <> v ->
         (allocated < 2 ^ 64)%N ->
         ((len pairs < allocated)%N ->
          exists w' : world,
            map_add refuse a k v w = Ret true w' /\
            heap w' a =
            Some (CItem rc (NMap true data allocated (pairs ++ [(k, Some v)]))) /\
            heap w' k = Some (CItem (wrap64 (rck + 1)) nk) /\
            heap w' v = Some (CItem (wrap64 (rcv + 1)) nv) /\
            heap_but [a; k; v] w w' /\
            next w' = next w /\ nreq w' = nreq w /\ trace w' = trace w) /\
         ((allocated <= len pairs)%N ->
          match grow_req SZ_PAIR allocated with
          | Some (c, bytes) =>
              c = N.max 1 (2 * allocated) /\
              (allocated < c)%N /\
              bytes = (16 * c)%N /\
              (bytes < 2 ^ 64)%N /\
              (if refuse (nreq w) bytes
               then
                exists w' : world,
                  map_add refuse a k v w = Ret false w' /\
                  same_heap w w' /\
                  no_new_write w w' /\
                  trace w' = EvRealloc data bytes None :: trace w /\
                  nreq w' = (nreq w + 1)%N
               else
                exists w' : world,
                  map_add refuse a k v w = Ret true w' /\
                  heap w' a =
                  Some
                    (CItem rc
                       (NMap true (Some (next w)) c (pairs ++ [(k, Some v)]))) /\
                  heap w' k = Some (CItem (wrap64 (rck + 1)) nk) /\
                  heap w' v = Some (CItem (wrap64 (rcv + 1)) nv) /\
                  heap w' (next w) = Some (CData bytes) /\
                  (forall d : addr, data = Some d -> heap w' d = None) /\
                  heap_but (a :: k :: v :: next w :: opt_list data) w w' /\
                  next w' = (next w + 1)%N /\
                  nreq w' = (nreq w + 1)%N /\
                  trace w' = EvRealloc data bytes (Some (next w)) :: trace w /\
                  wf w')
          | None =>
              exists w' : world,
                map_add refuse a k v w = Ret false w' /\
                same_heap w w' /\
                no_new_write w w' /\ trace w' = trace w /\ nreq w' = nreq w
          end).
Proof. exact map_add_indefinite. Qed.
Print Assumptions C12_map_add_indefinite.
(* chunked strings: appends the chunk, doubling the chunk array when full; refused growth changes nothing.
   [chunk_ok text nx] (HCont_proofs): for a byte string (text = false) the chunk is a definite byte string - the
   two CBOR_ASSERTs of cbor_bytestring_add_chunk on its second argument, which the model renders as FAssert 20 / 21
   (AUDIT.md D3); for a text string it is True (cbor_string_add_chunk asserts nothing about the chunk) *)
Theorem C12_add_chunk_spec :
  forall (refuse : N -> N -> bool) (a x : addr) 
           (w : world) (rc : N) (text : bool) (hdr : addr) 
           (hsz : N) (arr : option addr) (cap : N) (chunks : list addr)
           (rcx : N) (nx : node),
         wf w ->
         heap w a = Some (CItem rc (NChunked text hdr arr cap chunks)) ->
         heap w hdr = Some (CData hsz) ->
         block_inv w arr cap ->
         arr <> Some hdr ->
         heap w x = Some (CItem rcx nx) ->
         chunk_ok text nx ->
         a <> x ->
         (cap < 2 ^ 64)%N ->
         (len chunks <> cap ->
          cap <> 0%N ->
          exists w' : world,
            add_chunk refuse a x w = Ret true w' /\
            heap w' a =
            Some (CItem rc (NChunked text hdr arr cap (chunks ++ [x]))) /\
            heap w' x = Some (CItem (wrap64 (rcx + 1)) nx) /\
            heap_but [a; x] w w' /\
            next w' = next w /\ nreq w' = nreq w /\ trace w' = trace w) /\
         (len chunks = cap ->
          match grow_req SZ_PTR cap with
          | Some (c, bytes) =>
              c = N.max 1 (2 * cap) /\
              (cap < c)%N /\
              bytes = (8 * c)%N /\
              (bytes < 2 ^ 64)%N /\
              (if refuse (nreq w) bytes
               then
                exists w' : world,
                  add_chunk refuse a x w = Ret false w' /\
                  same_heap w w' /\
                  no_new_write w w' /\
                  trace w' = EvRealloc arr bytes None :: trace w /\
                  nreq w' = (nreq w + 1)%N
               else
                exists w' : world,
                  add_chunk refuse a x w = Ret true w' /\
                  heap w' a =
                  Some
                    (CItem rc
                       (NChunked text hdr (Some (next w)) c (chunks ++ [x]))) /\
                  heap w' x = Some (CItem (wrap64 (rcx + 1)) nx) /\
                  heap w' (next w) = Some (CData bytes) /\
                  (forall d : addr, arr = Some d -> heap w' d = None) /\
                  heap_but (a :: x :: next w :: opt_list arr) w w' /\
                  next w' = (next w + 1)%N /\
                  nreq w' = (nreq w + 1)%N /\
                  trace w' = EvRealloc arr bytes (Some (next w)) :: trace w /\
                  wf w')
          | None =>
              exists w' : world,
                add_chunk refuse a x w = Ret false w' /\
                same_heap w w' /\
                no_new_write w w' /\ trace w' = trace w /\ nreq w' = nreq w
          end).
Proof. exact add_chunk_spec. Qed.
Print Assumptions C12_add_chunk_spec.

(* ------------------------------------------------------------------------------------------ *)
(* Translator tie of the container guards, capacities, requests and reference-count calls:
   translator/effects.py renders the C functions as plans (gen/Gen_effects.v, regenerated from the
   working tree on every run), Bridge_effects.v proves them equal to the hand-written plans of
   HPlans.v by automation only, HPlans_proofs.v proves that the operations of H follow those plans.
   The [C12_code_*] theorems below are about the text generated from the C source of this run. *)
From Coq Require Import ZArith String.
From CB Require Import HOps GenLeafTypes HPlans HPlans_proofs Bridge_effects.
From CBGen Require Import Gen_effects.
Local Open Scope string_scope.
Local Open Scope list_scope.
Local Open Scope N_scope.

Theorem C12_code_array_push_plan : forall definite e al ok, e < 2^64 -> al < 2^64 ->
  Gcbor_array_push (Z.of_N al) (dst_z definite) (Z.of_N e) ok = array_push_plan definite e al ok.
Proof. exact bridge_plan_array_push. Qed.
Theorem C12_code_array_get_plan : forall al dst e i, e < 2^64 -> i < 2^64 ->
  Gcbor_array_get (Z.of_N al) dst (Z.of_N e) (Z.of_N i) = array_get_plan al dst e i.
Proof. exact bridge_plan_array_get. Qed.
Theorem C12_code_array_replace_plan : forall al dst e i, e < 2^64 -> i < 2^64 ->
  Gcbor_array_replace (Z.of_N al) dst (Z.of_N e) (Z.of_N i) = array_replace_plan al dst e i.
Proof. exact bridge_plan_array_replace. Qed.
Theorem C12_code_array_set_plan : forall al dst e i c, e < 2^64 -> i < 2^64 ->
  Gcbor_array_set (Z.of_N al) dst (Z.of_N e) (Z.of_N i) c = array_set_plan al dst e i c.
Proof. exact bridge_plan_array_set. Qed.
Theorem C12_code_map_add_key_plan : forall definite e al ok, e < 2^64 -> al < 2^64 ->
  G_cbor_map_add_key (Z.of_N al) (dst_z definite) (Z.of_N e) ok = map_add_key_plan definite e al ok.
Proof. exact bridge_plan_map_add_key. Qed.
Theorem C12_code_map_add_value_plan : forall al dst e, e < 2^64 ->
  G_cbor_map_add_value (Z.of_N al) dst (Z.of_N e) = map_add_value_plan al dst e.
Proof. exact bridge_plan_map_add_value. Qed.
Theorem C12_code_map_add_plan : forall c0 c1, Gcbor_map_add c0 c1 = map_add_plan c0 c1.
Proof. exact bridge_plan_map_add. Qed.
Theorem C12_code_add_chunk_plans : forall cnt cap ok, cnt < 2^64 -> cap < 2^64 ->
  Gcbor_bytestring_add_chunk (Z.of_N cap) (Z.of_N cnt) ok = add_chunk_plan cnt cap ok /\
  Gcbor_string_add_chunk (Z.of_N cap) (Z.of_N cnt) ok = add_chunk_plan cnt cap ok.
Proof. intros cnt cap ok H1 H2. split; [exact (bridge_plan_bytestring_add_chunk cnt cap ok H1 H2) | exact (bridge_plan_string_add_chunk cnt cap ok H1 H2)]. Qed.
Theorem C12_code_constructor_plans : forall n ok0 ok1, n < 2^64 ->
  Gcbor_new_definite_array (Z.of_N n) ok0 ok1 = new_definite_array_plan n ok0 ok1 /\
  Gcbor_new_definite_map (Z.of_N n) ok0 ok1 = new_definite_map_plan n ok0 ok1 /\
  Gcbor_new_indefinite_array ok0 = new_indefinite_array_plan ok0.
Proof. intros n ok0 ok1 H. split; [exact (bridge_plan_new_definite_array n ok0 ok1 H) | split; [exact (bridge_plan_new_definite_map n ok0 ok1 H) | exact (bridge_plan_new_indefinite_array ok0)]]. Qed.
Print Assumptions C12_code_array_push_plan.
Print Assumptions C12_code_map_add_key_plan.
Print Assumptions C12_code_add_chunk_plans.

(* H's array_push does what the plan generated from cbor_array_push says: return value, capacity
   and size afterwards, the allocator requests with their sizes in order, one reference taken
   exactly when the element is stored, nothing changed on refusal *)
Theorem C12_code_array_push_followed :
  forall refuse a x w rc indef data allocated elems rcx nx,
  wf w ->
  heap w a = Some (CItem rc (NArr indef data allocated elems)) ->
  block_inv w data allocated ->
  heap w x = Some (CItem rcx nx) ->
  a <> x ->
  allocated < 2 ^ 64 -> len elems <= allocated ->
  let p := Gcbor_array_push (Z.of_N allocated) (dst_z (negb indef)) (Z.of_N (len elems))
                            (grow_ok refuse (nreq w) SZ_PTR allocated) in
  let elems' := if ret_bool p then elems ++ [x] else elems in
  exists w' data',
    array_push refuse a x w = Ret (ret_bool p) w' /\
    heap w' a = Some (CItem rc (NArr indef data' (fieldN "allocated" p) elems')) /\
    len elems' = fieldN "end_ptr" p /\
    heap w' x = Some (CItem (bump (increfs_arg 1 p) rcx) nx) /\
    trace w' = req_events data (if ret_bool p then Some (next w) else None) (p_reqs p) ++ trace w /\
    (ret_bool p = false -> same_heap w w').
Proof. exact code_array_push_followed. Qed.
Print Assumptions C12_code_array_push_followed.

Theorem C12_code_map_add_key_followed :
  forall refuse a k w rc indef data allocated pairs rck nk,
  wf w ->
  heap w a = Some (CItem rc (NMap indef data allocated pairs)) ->
  block_inv w data allocated ->
  heap w k = Some (CItem rck nk) ->
  a <> k ->
  allocated < 2 ^ 64 -> len pairs <= allocated ->
  let p := G_cbor_map_add_key (Z.of_N allocated) (dst_z (negb indef)) (Z.of_N (len pairs))
                              (grow_ok refuse (nreq w) SZ_PAIR allocated) in
  let pairs' := if ret_bool p then pairs ++ [(k, None)] else pairs in
  exists w' data',
    map_add_key refuse a k w = Ret (ret_bool p) w' /\
    heap w' a = Some (CItem rc (NMap indef data' (fieldN "allocated" p) pairs')) /\
    len pairs' = fieldN "end_ptr" p /\
    heap w' k = Some (CItem (bump (increfs_arg 1 p) rck) nk) /\
    trace w' = req_events data (if ret_bool p then Some (next w) else None) (p_reqs p) ++ trace w /\
    (ret_bool p = false -> same_heap w w').
Proof. exact code_map_add_key_followed. Qed.
Print Assumptions C12_code_map_add_key_followed.

Theorem C12_code_add_chunk_followed :
  forall refuse a x w rc text hdr hsz arr cap chunks rcx nx,
  wf w ->
  heap w a = Some (CItem rc (NChunked text hdr arr cap chunks)) ->
  heap w hdr = Some (CData hsz) ->
  block_inv w arr cap -> arr <> Some hdr ->
  heap w x = Some (CItem rcx nx) -> chunk_ok text nx ->
  a <> x ->
  cap < 2 ^ 64 -> len chunks <= cap ->
  let p := (if text then Gcbor_string_add_chunk else Gcbor_bytestring_add_chunk)
             (Z.of_N cap) (Z.of_N (len chunks)) (grow_ok refuse (nreq w) SZ_PTR cap) in
  let chunks' := if ret_bool p then chunks ++ [x] else chunks in
  exists w' arr',
    add_chunk refuse a x w = Ret (ret_bool p) w' /\
    heap w' a = Some (CItem rc (NChunked text hdr arr' (fieldN "chunk_capacity" p) chunks')) /\
    len chunks' = fieldN "chunk_count" p /\
    heap w' x = Some (CItem (bump (increfs_arg 1 p) rcx) nx) /\
    trace w' = req_events arr (if ret_bool p then Some (next w) else None) (p_reqs p) ++ trace w /\
    (ret_bool p = false -> same_heap w w').
Proof. exact code_add_chunk_followed. Qed.
Print Assumptions C12_code_add_chunk_followed.

(* cbor_array_get / cbor_array_replace / cbor_array_set against their (hand-written) plans *)
Theorem C12_array_get_follows_plan :
  forall a i w rc indef d sz allocated elems dst,
  heap w a = Some (CItem rc (NArr indef (Some d) allocated elems)) ->
  heap w d = Some (CData sz) ->
  (forall e, In e elems -> is_item w e) ->
  let p := array_get_plan allocated dst (len elems) i in
  (ret_null p = true ->
     p_effs p = [] /\
     exists w', array_get a i w = Ret None w' /\ same_heap w w' /\ trace w' = trace w) /\
  (ret_null p = false ->
     p_ret p = RP (PSlot (PField (PArg 0) "data") (Z.of_N i) "") /\
     p_effs p = [Incref (PSlot (PField (PArg 0) "data") (Z.of_N i) "")] /\
     exists e rce ne w',
       nth_error elems (N.to_nat i) = Some e /\ heap w e = Some (CItem rce ne) /\
       array_get a i w = Ret (Some e) w' /\
       heap w' e = Some (CItem (wrap64 (rce + len (p_effs p))) ne) /\ trace w' = trace w).
Proof. exact array_get_follows_plan. Qed.
Theorem C12_array_set_follows_plan :
  forall refuse a i v w rc indef data allocated elems dst c,
  heap w a = Some (CItem rc (NArr indef data allocated elems)) ->
  let p := array_set_plan allocated dst (len elems) i c in
  (i = len elems ->
     p_reqs p = [ReqCall "cbor_array_push" [AP (PArg 0); AP (PArg 2)]] /\ p_ret p = RZ c /\
     array_set refuse a i v w = array_push refuse a v (w_log (AccR a) w)) /\
  (i < len elems ->
     p_reqs p = [ReqCall "cbor_array_replace" [AP (PArg 0); AZ (Z.of_N i); AP (PArg 2)]] /\ p_ret p = RZ c /\
     array_set refuse a i v w = array_replace a i v (w_log (AccR a) w)) /\
  (len elems < i ->
     p_reqs p = [] /\ p_ret p = RZ 0 /\ array_set refuse a i v w = Ret false (w_log (AccR a) w)).
Proof. exact array_set_follows_plan. Qed.
Print Assumptions C12_array_get_follows_plan.
Print Assumptions C12_array_set_follows_plan.
Local Open Scope N_scope.

(* ---- containers as abstract sequences over WHOLE operation sequences (theories/HSeq_proofs.v) ----
   The abstract models (HSeq_proofs): alist = { a_indef; a_cap; a_elems } with apush / aget / aset /
   areplace returning the results documented in arrays.h; amap with amadd (cbor_map_add); achunks with
   acadd (cbor_(byte)string_add_chunk).  [granted refuse isz w c] is the allocator's answer to the one
   growth request a call may make in world w at capacity c (slot size isz; a growth the size guards
   refuse counts as not granted).  arr_at w p l: the node of item p in w is an array with
   elems = a_elems l, allocated = a_cap l, and len elems <= allocated (likewise map_at, chunks_at).
   Restriction, explicit in the statements: the history after the container has been set up is in the
   sub-language [arr_lang h] = the ten plain constructors + push / get / set / replace on the handle h
   of the container, with ARBITRARY indices and ARBITRARY operand handles (legality itself forbids
   inserting the array into itself); [map_lang h]: constructors + map_add on h; [chunk_lang h]:
   constructors + add_chunk on h.  Legality is exactly that of C04_history. *)

(* the documented index rules, as properties of the abstract operations *)
Theorem C12_abstract_rules : forall g l i x,
  (aget l i = None <-> (len (a_elems l) <= i)%N) /\
  (fst (areplace l i x) = false <-> (len (a_elems l) <= i)%N) /\
  aset g l (len (a_elems l)) x = apush g l x /\
  ((i < len (a_elems l))%N -> aset g l i x = areplace l i x) /\
  ((len (a_elems l) < i)%N -> aset g l i x = (false, l)).
Proof.
  intros g l i x. split; [apply aget_none|]. split; [apply areplace_false|]. split; [apply aset_push|].
  split; [apply aset_replace|apply aset_beyond].
Qed.
(* a definite array refuses a push exactly when it is full; an indefinite one accepts whenever the
   allocator grants the growth *)
Theorem C12_abstract_push : forall g l x, (len (a_elems l) <= a_cap l)%N ->
  (a_indef l = false -> (fst (apush g l x) = false <-> len (a_elems l) = a_cap l)) /\
  (a_indef l = true -> g = true -> fst (apush g l x) = true).
Proof.
  intros g l x Hle. unfold apush. split.
  - intros ->. cbn [andb]. destruct (N.ltb_spec (len (a_elems l)) (a_cap l)) as [Lt|Ge]; cbn [fst]; split; intros H;
      try discriminate H; try reflexivity.
    + rewrite H in Lt. exfalso. exact (N.lt_irrefl _ Lt).
    + apply N.le_antisymm; assumption.
  - intros -> ->. destruct (len (a_elems l) <? a_cap l); reflexivity.
Qed.

(* what [seq_ok] says about one call: it returns, the client observes the abstract output, the node
   of the array is the abstract list, and the same holds for the rest of the history *)
Theorem C12_seq_ok_reading : forall refuse L p o r s w l,
  seq_ok refuse L p (o :: r) s w l <->
  exists s' out w',
    step refuse L s o w = Ret (s', out) w' /\
    out_agrees (fst (astep refuse s w o l)) s' out /\
    arr_at w' p (snd (astep refuse s w o l)) /\
    seq_ok refuse L p r s' w' (snd (astep refuse s w o l)).
Proof. intros. reflexivity. Qed.

(* arrays: for every allocator oracle, every nesting limit, every legal history of the sub-language
   applied to one array handle (any indices, any operand items): no fault, every output is the
   abstract one, and after every call elems = a_elems, allocated = a_cap, len elems <= allocated *)
Theorem C12_array_sequence : forall refuse L h p ops s own ownd w l,
  Inv own ownd [] w -> caps w -> hget s h = Some p -> (0 < own p)%N -> arr_at w p l ->
  Forall (arr_lang h) ops -> legal_history refuse L ops s own w -> seq_ok refuse L p ops s w l.
Proof. exact HSeq_proofs.C12_array_sequence. Qed.
Print Assumptions C12_array_sequence.

(* ... for an array created anywhere in a legal history that starts in the empty world *)
Theorem C12_array_sequence_from_empty : forall refuse L h p pre ops s outs w l,
  legal_history refuse L (pre ++ ops) s0 own0 world0 ->
  run_hist refuse L pre s0 [] world0 = Ret (s, outs) w ->
  hget s h = Some p -> (0 < own_hist refuse L pre s0 own0 world0 p)%N -> arr_at w p l ->
  Forall (arr_lang h) ops -> seq_ok refuse L p ops s w l.
Proof. exact HSeq_proofs.C12_array_sequence_from_empty. Qed.
Print Assumptions C12_array_sequence_from_empty.

(* ... read off the whole run: run_hist returns, its outputs are the abstract ones in order, and the
   array at the end is the abstract list *)
Theorem C12_array_run : forall refuse L p ops s w l acc,
  arr_at w p l -> seq_ok refuse L p ops s w l ->
  exists s' outs w',
    run_hist refuse L ops s acc w = Ret (s', rev acc ++ outs) w' /\
    Forall2 out_matches (fst (aouts refuse L ops s w l)) outs /\
    arr_at w' p (snd (aouts refuse L ops s w l)).
Proof. exact seq_ok_run. Qed.
Print Assumptions C12_array_run.

(* maps: cbor_map_add on definite / indefinite maps against the abstract list of pairs *)
Theorem C12_map_sequence : forall refuse L h p ops s own ownd w m,
  Inv own ownd [] w -> caps w -> hget s h = Some p -> (0 < own p)%N -> map_at w p m ->
  Forall (map_lang h) ops -> legal_history refuse L ops s own w -> mseq_ok refuse L p ops s w m.
Proof. exact HSeq_proofs.C12_map_sequence. Qed.
Print Assumptions C12_map_sequence.
Theorem C12_map_sequence_from_empty : forall refuse L h p pre ops s outs w m,
  legal_history refuse L (pre ++ ops) s0 own0 world0 ->
  run_hist refuse L pre s0 [] world0 = Ret (s, outs) w ->
  hget s h = Some p -> (0 < own_hist refuse L pre s0 own0 world0 p)%N -> map_at w p m ->
  Forall (map_lang h) ops -> mseq_ok refuse L p ops s w m.
Proof. exact HSeq_proofs.C12_map_sequence_from_empty. Qed.
Print Assumptions C12_map_sequence_from_empty.
Theorem C12_mseq_ok_reading : forall refuse L p o r s w m,
  mseq_ok refuse L p (o :: r) s w m <->
  exists s' out w',
    step refuse L s o w = Ret (s', out) w' /\
    out_agrees (fst (mstep refuse s w o m)) s' out /\
    map_at w' p (snd (mstep refuse s w o m)) /\
    mseq_ok refuse L p r s' w' (snd (mstep refuse s w o m)).
Proof. intros. reflexivity. Qed.

(* chunked strings: cbor_string_add_chunk / cbor_bytestring_add_chunk *)
Theorem C12_chunk_sequence : forall refuse L h p ops s own ownd w c,
  Inv own ownd [] w -> caps w -> hget s h = Some p -> (0 < own p)%N -> chunks_at w p c ->
  Forall (chunk_lang h) ops -> legal_history refuse L ops s own w -> cseq_ok refuse L p ops s w c.
Proof. exact HSeq_proofs.C12_chunk_sequence. Qed.
Print Assumptions C12_chunk_sequence.
Theorem C12_chunk_sequence_from_empty : forall refuse L h p pre ops s outs w c,
  legal_history refuse L (pre ++ ops) s0 own0 world0 ->
  run_hist refuse L pre s0 [] world0 = Ret (s, outs) w ->
  hget s h = Some p -> (0 < own_hist refuse L pre s0 own0 world0 p)%N -> chunks_at w p c ->
  Forall (chunk_lang h) ops -> cseq_ok refuse L p ops s w c.
Proof. exact HSeq_proofs.C12_chunk_sequence_from_empty. Qed.
Print Assumptions C12_chunk_sequence_from_empty.
Theorem C12_cseq_ok_reading : forall refuse L p o r s w c,
  cseq_ok refuse L p (o :: r) s w c <->
  exists s' out w',
    step refuse L s o w = Ret (s', out) w' /\
    out_agrees (fst (cstep refuse s w o c)) s' out /\
    chunks_at w' p (snd (cstep refuse s w o c)) /\
    cseq_ok refuse L p r s' w' (snd (cstep refuse s w o c)).
Proof. intros. reflexivity. Qed.

(* non-vacuity.  A definite array of capacity 2 holding the only reference to a 7: push 9 (accepted),
   push 11 (refused: full), get 5 (NULL), get 1, set 2 (= push: refused), set 7 (beyond: refused),
   replace 0 (accepted; the 7 is released), set 1 (= replace), replace 9 (refused), push through a
   NULL handle (not made), get 0.  The history is legal, the theorem applies to it (exA_sequence), and
   the abstract outputs equal the concrete ones (evaluated). *)
Example C12_example_array_applies :
  exists s outs w,
    run_hist HRef_proofs.never 8 exA_pre s0 [] world0 = Ret (s, outs) w /\
    arr_at w 1 (mkalist false 2 [3%N]) /\
    seq_ok HRef_proofs.never 8 1 exA_ops s w (mkalist false 2 [3%N]).
Proof. exact exA_sequence. Qed.
Example C12_example_array_outputs :
  match run_hist HRef_proofs.never 8 exA_pre s0 [] world0 with
  | Ret (s, _) w =>
      aouts HRef_proofs.never 8 exA_ops s w (mkalist false 2 [3%N]) =
        ([AONew; AOBool true; AONew; AOBool false; AOGet None; AOGet (Some 4%N); AOBool false; AOBool false;
          AOBool true; AOBool true; AOBool false; AOSkip; AOGet (Some 5%N)], mkalist false 2 [5%N; 5%N]) /\
      match run_hist HRef_proofs.never 8 exA_ops s [] w with
      | Ret (s', outs) w' =>
          outs = [OutHandle true; OutBool true; OutHandle true; OutBool false; OutHandle false; OutHandle true;
                  OutBool false; OutBool false; OutBool true; OutBool true; OutBool false; OutSkip; OutHandle true] /\
          heap w' 1%N = Some (CItem 1 (NArr false (Some 2%N) 2 [5%N; 5%N])) /\ heap w' 3%N = None
      | Fault _ => False
      end
  | Fault _ => False
  end.
Proof. vm_compute. repeat split. Qed.
(* an indefinite array with a refused growth (exB), a definite and an indefinite map with key = value
   (exM, exN), an indefinite string with a refused growth of its chunk array (exC) *)
Example C12_example_indefinite_applies :
  exists s outs w, run_hist exB_refuse 8 exB_pre s0 [] world0 = Ret (s, outs) w /\
    seq_ok exB_refuse 8 1 exB_ops s w (mkalist true 0 []).
Proof. destruct exB_sequence as (s & outs & w & H). exists s, outs, w. tauto. Qed.
Example C12_example_map_applies :
  exists s outs w, run_hist HRef_proofs.never 8 exM_pre s0 [] world0 = Ret (s, outs) w /\
    mseq_ok HRef_proofs.never 8 1 exM_ops s w (mkamap false 2 []).
Proof. destruct exM_sequence as (s & outs & w & H). exists s, outs, w. tauto. Qed.
Example C12_example_chunk_applies :
  exists s outs w, run_hist exC_refuse 8 exC_pre s0 [] world0 = Ret (s, outs) w /\
    cseq_ok exC_refuse 8 1 exC_ops s w (mkachunks 0 []).
Proof. exact exC_sequence. Qed.
(* the assertions on the chunk (AUDIT.md D3 / D3b; stream audit-asserts compares these calls with the
   assert-enabled build): cbor_bytestring_add_chunk aborts on a chunk that is not a byte string (FAssert 20:
   an integer, a text string) or not definite (FAssert 21); cbor_string_add_chunk takes anything and the next
   cbor_serialize_string aborts on the chunk (FAssert 73); a definite byte string passes and is serialized.
   None of the four faulting histories is legal: [legal (OAddChunk ..)] asks for a definite string of the
   same kind, so C04_step ("a legal step does not fault") is not contradicted. *)
Example C12_example_chunk_asserts :
  run_hist HRef_proofs.never 8 [OBuildInt false PStream.I8 1; ONewIndefString false; OAddChunk 1 0]%nat s0 [] world0
    = Fault (FAssert 20) /\
  run_hist HRef_proofs.never 8 [OBuildString true [97%N]; ONewIndefString false; OAddChunk 1 0]%nat s0 [] world0
    = Fault (FAssert 20) /\
  run_hist HRef_proofs.never 8 [ONewIndefString false; ONewIndefString false; OAddChunk 1 0]%nat s0 [] world0
    = Fault (FAssert 21) /\
  run_hist HRef_proofs.never 8 [OBuildString false [97%N]; ONewIndefString true; OAddChunk 1 0; OSerialize 1 8]%nat s0 [] world0
    = Fault (FAssert 73) /\
  match run_hist HRef_proofs.never 8 [OBuildString false [97%N]; ONewIndefString false; OAddChunk 1 0; OSerialize 1 8]%nat
          s0 [] world0 with
  | Ret (_, outs) _ => outs = [OutHandle true; OutHandle true; OutBool true; OutBytes 4 [95%N; 65%N; 97%N; 255%N]]
  | Fault _ => False
  end.
Proof. vm_compute. repeat split. Qed.

(* ---- OBSERVABLE CONTENTS (theories/HAbs_proofs.v): the abstraction [abs_of] (heap item -> P tree:
   what serialization and every reader sees) after each mutating call of a rule-following client.
   Hypotheses of every theorem: the world before satisfies Inv / caps / acyclic, the call is legal and
   respects the no-cycle rule below_rule - exactly the hypotheses under which HHist_proofs
   re-establishes the three invariants (C04_step, step_caps, step_acyclic), so they hold along every
   history that follows the rules.  chunked_item text cs = ITextI cs / IBytesI cs. ---- *)
From CB Require Import PItem HRead_proofs HAbs_proofs.

Theorem C12_abs_after_push : forall refuse L s own ownd w ha hx a x s' b w' i xs tx wa wx,
  Inv own ownd [] w -> caps w -> acyclic w ->
  legal s own w (OPush ha hx) -> below_rule s w (OPush ha hx) ->
  hget s ha = Some a -> hget s hx = Some x ->
  abs_of a w = Ret (IArray i xs) wa -> abs_of x w = Ret tx wx ->
  step refuse L s (OPush ha hx) w = Ret (s', OutBool b) w' ->
  exists w2, abs_of a w' = Ret (IArray i (if b then xs ++ [tx] else xs)) w2.
Proof. exact abs_after_push. Qed.
Print Assumptions C12_abs_after_push.

Theorem C12_abs_after_map_add : forall refuse L s own ownd w hm hk hv a k v s' b w' i kvs tk tv wa wk wv,
  Inv own ownd [] w -> caps w -> acyclic w ->
  legal s own w (OMapAdd hm hk hv) -> below_rule s w (OMapAdd hm hk hv) ->
  hget s hm = Some a -> hget s hk = Some k -> hget s hv = Some v ->
  abs_of a w = Ret (IMap i kvs) wa -> abs_of k w = Ret tk wk -> abs_of v w = Ret tv wv ->
  step refuse L s (OMapAdd hm hk hv) w = Ret (s', OutBool b) w' ->
  exists w2, abs_of a w' = Ret (IMap i (if b then kvs ++ [(tk, tv)] else kvs)) w2.
Proof. exact abs_after_map_add. Qed.
Print Assumptions C12_abs_after_map_add.

(* P keeps the payloads of the chunks, H keeps the chunk items *)
Theorem C12_abs_after_add_chunk : forall refuse L s own ownd w hc hx a x s' b w' text cs bs wa wx,
  Inv own ownd [] w -> caps w -> acyclic w ->
  legal s own w (OAddChunk hc hx) -> below_rule s w (OAddChunk hc hx) ->
  hget s hc = Some a -> hget s hx = Some x ->
  abs_of a w = Ret (chunked_item text cs) wa ->
  (abs_of x w = Ret (IText bs) wx \/ abs_of x w = Ret (IBytes bs) wx) ->
  step refuse L s (OAddChunk hc hx) w = Ret (s', OutBool b) w' ->
  exists w2, abs_of a w' = Ret (chunked_item text (if b then cs ++ [bs] else cs)) w2.
Proof. exact abs_after_add_chunk. Qed.
Print Assumptions C12_abs_after_add_chunk.

Theorem C12_abs_after_tag_set : forall refuse L s own ownd w ht hx t x s' r w' rc v c0 tx wx,
  Inv own ownd [] w -> caps w -> acyclic w ->
  legal s own w (OTagSet ht hx) -> below_rule s w (OTagSet ht hx) ->
  hget s ht = Some t -> hget s hx = Some x ->
  heap w t = Some (CItem rc (NTag v c0)) -> abs_of x w = Ret tx wx ->
  step refuse L s (OTagSet ht hx) w = Ret (s', r) w' ->
  exists w2, abs_of t w' = Ret (ITag v tx) w2.
Proof. exact abs_after_tag_set. Qed.
Print Assumptions C12_abs_after_tag_set.

Theorem C12_abs_after_build_tag : forall refuse L s own ownd w v hx x s' ok w' tx wx,
  Inv own ownd [] w -> caps w -> acyclic w ->
  legal s own w (OBuildTag v hx) -> hget s hx = Some x ->
  abs_of x w = Ret tx wx ->
  step refuse L s (OBuildTag v hx) w = Ret (s', OutHandle ok) w' ->
  if ok then exists t w2, new_handle s' = Some t /\ next w <= t /\ abs_of t w' = Ret (ITag v tx) w2
  else forall b, heap w' b = heap w b.
Proof. exact abs_after_build_tag. Qed.
Print Assumptions C12_abs_after_build_tag.

Theorem C12_abs_after_replace : forall refuse L s own ownd w ha hx a x i s' b w' ind xs tx wa wx,
  Inv own ownd [] w -> caps w -> acyclic w ->
  legal s own w (OReplace ha i hx) -> below_rule s w (OReplace ha i hx) ->
  hget s ha = Some a -> hget s hx = Some x ->
  abs_of a w = Ret (IArray ind xs) wa -> abs_of x w = Ret tx wx ->
  step refuse L s (OReplace ha i hx) w = Ret (s', OutBool b) w' ->
  (b = true <-> i < len xs) /\
  exists w2, abs_of a w' = Ret (IArray ind (if b then set_nth xs (N.to_nat i) tx else xs)) w2.
Proof. exact abs_after_replace. Qed.
Print Assumptions C12_abs_after_replace.

Theorem C12_abs_after_set : forall refuse L s own ownd w ha hx a x i s' b w' ind xs tx wa wx,
  Inv own ownd [] w -> caps w -> acyclic w ->
  legal s own w (OSet ha i hx) -> below_rule s w (OSet ha i hx) ->
  hget s ha = Some a -> hget s hx = Some x ->
  abs_of a w = Ret (IArray ind xs) wa -> abs_of x w = Ret tx wx ->
  step refuse L s (OSet ha i hx) w = Ret (s', OutBool b) w' ->
  (len xs < i -> b = false) /\ (i < len xs -> b = true) /\
  exists w2, abs_of a w' =
    Ret (IArray ind (if b then (if i =? len xs then xs ++ [tx] else set_nth xs (N.to_nat i) tx) else xs)) w2.
Proof. exact abs_after_set. Qed.
Print Assumptions C12_abs_after_set.

(* sharing semantics.  [mutated s o] is the container the call mutates, [inserts o] says that the call
   inserts without releasing anything (push, map_add, add_chunk, tag_set_item).  Negative half: the
   call is invisible through every item that does not reach the container ... *)
Theorem C12_abs_frame : forall refuse L s own ownd w o s' r w' a e t we,
  Inv own ownd [] w -> caps w -> acyclic w -> legal s own w o -> below_rule s w o ->
  inserts o = true -> mutated s o = Some a ->
  step refuse L s o w = Ret (s', r) w' ->
  ~ reach w e a -> abs_of e w = Ret t we ->
  exists w2, abs_of e w' = Ret t w2.
Proof. exact abs_frame. Qed.
Print Assumptions C12_abs_frame.
(* ... also for replace / set, which may release the overwritten element: every item that does not
   reach the array and is still there keeps its tree *)
Theorem C12_abs_frame_replace : forall refuse L s own ownd w o s' r w' a e t we,
  Inv own ownd [] w -> caps w -> acyclic w -> legal s own w o -> below_rule s w o ->
  (exists ha i hx, o = OReplace ha i hx \/ o = OSet ha i hx) -> mutated s o = Some a ->
  step refuse L s o w = Ret (s', r) w' ->
  ~ reach w e a -> (exists rc n, heap w' e = Some (CItem rc n)) -> abs_of e w = Ret t we ->
  exists w2, abs_of e w' = Ret t w2.
Proof. exact abs_frame_replace. Qed.
Print Assumptions C12_abs_frame_replace.
(* positive half: a direct array parent p of the mutated container a sees the new tree of a at
   exactly the positions that hold a (subst_at), whether or not it holds a several times, and keeps
   the trees of its other elements (which are assumed not to reach a by another path) *)
Theorem C12_abs_parent_array : forall refuse L s own ownd w o s' r w' a p ip ys wp ta' wa',
  Inv own ownd [] w -> caps w -> acyclic w -> legal s own w o -> below_rule s w o ->
  inserts o = true -> mutated s o = Some a ->
  step refuse L s o w = Ret (s', r) w' ->
  p <> a -> abs_of p w = Ret (IArray ip ys) wp ->
  (forall rc d c lp, heap w p = Some (CItem rc (NArr ip d c lp)) -> forall e, In e lp -> e <> a -> ~ reach w e a) ->
  abs_of a w' = Ret ta' wa' ->
  exists lp w2, (exists rc d c, heap w p = Some (CItem rc (NArr ip d c lp))) /\
    abs_of p w' = Ret (IArray ip (subst_at a ta' lp ys)) w2.
Proof. exact abs_parent_array. Qed.
Print Assumptions C12_abs_parent_array.

(* cbor_copy: the copy reads as the source, and the source still reads the same *)
Theorem C12_abs_after_copy : forall refuse L s own ownd w h a s' ok w' t wa,
  Inv own ownd [] w -> caps w -> acyclic w -> legal s own w (OCopy h) -> hget s h = Some a ->
  abs_of a w = Ret t wa ->
  step refuse L s (OCopy h) w = Ret (s', OutHandle ok) w' ->
  (exists w3, abs_of a w' = Ret t w3) /\
  (ok = true -> exists a' w2, new_handle s' = Some a' /\ next w <= a' /\ abs_of a' w' = Ret t w2).
Proof. exact abs_after_copy. Qed.
Print Assumptions C12_abs_after_copy.

(* the default fuel of abs_of is always enough in a world that satisfies Inv and is acyclic *)
Theorem C12_abs_of_complete : forall own ownd w f a t w1,
  Inv own ownd [] w -> acyclic w -> abs f a w = Ret t w1 -> exists w2, abs_of a w = Ret t w2 /\ heap w2 = heap w.
Proof. exact abs_of_complete. Qed.
Print Assumptions C12_abs_of_complete.

(* arrays over histories of the third layer: the calls above, the constructors of the third layer
   and the idiom cbor_array_push(a, cbor_move(x)) (arr_lang3) *)
From CB Require Import HHist2 HHist3 HHist3_proofs.
Theorem C12_array_sequence3 : forall refuse L h p ops s own ownd w l,
  Inv own ownd [] w -> caps w -> hget (base s) h = Some p -> 0 < own p -> arr_at w p l ->
  Forall (arr_lang3 h) ops -> legal_history3 refuse L ops s own w -> seq_ok3 refuse L p ops s w l.
Proof. exact HSeq_proofs.C12_array_sequence3. Qed.
Print Assumptions C12_array_sequence3.
Theorem C12_seq_ok3_reading : forall refuse L p o r s w l,
  seq_ok3 refuse L p (o :: r) s w l <->
  exists s' out w',
    step3 refuse L s o w = Ret (s', out) w' /\
    out_agrees3 (fst (astep3 refuse s w o l)) s' out /\
    arr_at w' p (snd (astep3 refuse s w o l)) /\
    seq_ok3 refuse L p r s' w' (snd (astep3 refuse s w o l)).
Proof. intros. reflexivity. Qed.

(* non-vacuity: the theorems applied to a concrete history - an array [7] shared by a second array
   [[7], "hi"]; the client pushes "hi" to the first: seen through the parent, not through "hi" *)
Example C12_example_abs : forall s' w',
  step HRef_proofs.never 8 (fst exAbs_sw) exAbs_op (snd exAbs_sw) = Ret (s', OutBool true) w' ->
  (exists w2, abs_of 1 w' = Ret (IArray false [IUint I8 7; IText [104; 105]]) w2) /\
  (exists w2, abs_of 6 w' = Ret (IArray false [IArray false [IUint I8 7; IText [104; 105]]; IText [104; 105]]) w2) /\
  (exists w2, abs_of 4 w' = Ret (IText [104; 105]) w2) /\
  (exists w2, serialize_h 1 16 w' = Ret (Some (5, [130; 7; 98; 104; 105])) w2).
Proof. exact exAbs_theorems. Qed.
Example C12_example_abs_runs :
  exists s' w', step HRef_proofs.never 8 (fst exAbs_sw) exAbs_op (snd exAbs_sw) = Ret (s', OutBool true) w'.
Proof. exact exAbs_step. Qed.
Example C12_example_sequence3 :
  exists s outs w,
    run_hist3 HRef_proofs.never 8 ex3S_pre s3_0 [] world0 = Ret (s, outs) w /\
    seq_ok3 HRef_proofs.never 8 1 ex3S_ops s w (mkalist false 2 []).
Proof. exact ex3S_sequence. Qed.

