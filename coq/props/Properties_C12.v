(* C12 — arrays, maps and chunked strings behave as bounded / unbounded sequences.
   Statements only (generated from the types of the lemmas proved in theories/HCont_proofs.v, where
   same_heap / heap_but / no_new_write / wf / block_inv / grow_req / push_many / cap_after /
   reallocs are defined).  Each lemma is the refinement step of one container operation against
   the abstract list held in the node: contents after = contents before ++ [x] on success, nothing
   changed on refusal. *)
From CB Require Import Word PMem HHeap HItems HCont_proofs.
(* definite array: refuses (touching nothing) exactly when full; otherwise appends and takes one reference; no allocator event *)
Theorem C12_push_definite :
  forall (refuse : N -> N -> bool) (a x : addr) 
           (w : world) (rc : N) (d : addr) (sz allocated : N)
           (elems : list addr) (rcx : N) (nx : node),
         heap w a = Some (CItem rc (NArr false (Some d) allocated elems)) ->
         heap w d = Some (CData sz) ->
         heap w x = Some (CItem rcx nx) ->
         a <> x ->
         exists w' : world,
           ((allocated <= len elems)%N ->
            array_push refuse a x w = Ret false w' /\
            same_heap w w' /\
            no_new_write w w' /\ trace w' = trace w /\ nreq w' = nreq w) /\
           ((len elems < allocated)%N ->
            array_push refuse a x w = Ret true w' /\
            heap w' a =
            Some (CItem rc (NArr false (Some d) allocated (elems ++ [x]))) /\
            heap w' x = Some (CItem (wrap64 (rcx + 1)) nx) /\
            heap_but [a; x] w w' /\
            next w' = next w /\ nreq w' = nreq w /\ trace w' = trace w).
Proof. exact push_definite. Qed.
Print Assumptions C12_push_definite.
(* a definite array accepts exactly as many entries as were preallocated and then refuses *)
Theorem C12_definite_accepts_exactly :
  forall (refuse : N -> N -> bool) (n : N) (w : world) 
           (a : addr) (w1 : world) (xs : list addr),
         wf w ->
         new_definite_array refuse n w = Ret (Some a) w1 ->
         (forall x : addr, In x xs -> is_item w1 x /\ x <> a) ->
         exists w' : world,
           push_many refuse a xs w1 =
           Ret
             (repeat true (PeanoNat.Nat.min (N.to_nat n) (length xs)) ++
              repeat false (length xs - N.to_nat n)) w' /\
           heap w' a =
           Some
             (CItem 1 (NArr false (Some (a + 1)%N) n (firstn (N.to_nat n) xs))) /\
           next w' = next w1 /\ nreq w' = nreq w1 /\ trace w' = trace w1.
Proof. exact definite_accepts_exactly. Qed.
Print Assumptions C12_definite_accepts_exactly.
(* indefinite array: appends; grows to max 1 (2*capacity) when full with exactly one realloc request of exactly 8*c bytes; a refused growth changes nothing *)
Theorem C12_push_indefinite :
  forall (refuse : N -> N -> bool) (a x : addr) 
           (w : world) (rc : N) (data : option addr) 
           (allocated : N) (elems : list addr) (rcx : N) 
           (nx : node),
         wf w ->
         heap w a = Some (CItem rc (NArr true data allocated elems)) ->
         block_inv w data allocated ->
         heap w x = Some (CItem rcx nx) ->
         a <> x ->
         (allocated < 2 ^ 64)%N ->
         ((len elems < allocated)%N ->
          exists w' : world,
            array_push refuse a x w = Ret true w' /\
            heap w' a =
            Some (CItem rc (NArr true data allocated (elems ++ [x]))) /\
            heap w' x = Some (CItem (wrap64 (rcx + 1)) nx) /\
            heap_but [a; x] w w' /\
            next w' = next w /\ nreq w' = nreq w /\ trace w' = trace w) /\
         ((allocated <= len elems)%N ->
          match grow_req SZ_PTR allocated with
          | Some (c, bytes) =>
              c = N.max 1 (2 * allocated) /\
              (allocated < c)%N /\
              bytes = (8 * c)%N /\
              (bytes < 2 ^ 64)%N /\
              (if refuse (nreq w) bytes
               then
                exists w' : world,
                  array_push refuse a x w = Ret false w' /\
                  same_heap w w' /\
                  no_new_write w w' /\
                  trace w' = EvRealloc data bytes None :: trace w /\
                  nreq w' = (nreq w + 1)%N
               else
                exists w' : world,
                  array_push refuse a x w = Ret true w' /\
                  heap w' a =
                  Some (CItem rc (NArr true (Some (next w)) c (elems ++ [x]))) /\
                  heap w' x = Some (CItem (wrap64 (rcx + 1)) nx) /\
                  heap w' (next w) = Some (CData bytes) /\
                  (forall d : addr, data = Some d -> heap w' d = None) /\
                  heap_but (a :: x :: next w :: opt_list data) w w' /\
                  next w' = (next w + 1)%N /\
                  nreq w' = (nreq w + 1)%N /\
                  trace w' = EvRealloc data bytes (Some (next w)) :: trace w /\
                  wf w')
          | None =>
              exists w' : world,
                array_push refuse a x w = Ret false w' /\
                same_heap w w' /\
                no_new_write w w' /\ trace w' = trace w /\ nreq w' = nreq w
          end).
Proof. exact push_indefinite. Qed.
Print Assumptions C12_push_indefinite.
(* geometric growth: n insertions cost reallocs n <= log2 n + 2 reallocation requests; size never exceeds capacity *)
Theorem C12_capacity_sequence :
  forall (refuse : N -> N -> bool) (xs : list addr) 
           (w : world) (a : addr) (w1 : world),
         wf w ->
         new_indefinite_array refuse w = Ret (Some a) w1 ->
         (forall x : addr, In x xs -> is_item w1 x /\ x <> a) ->
         (len xs < 2 ^ 58)%N ->
         (forall i s : N, refuse i s = false) ->
         exists (w' : world) (data' : option addr) (evs : list event),
           push_many refuse a xs w1 = Ret (repeat true (length xs)) w' /\
           heap w' a =
           Some (CItem 1 (NArr true data' (cap_after (length xs)) xs)) /\
           block_inv w' data' (cap_after (length xs)) /\
           wf w' /\
           trace w' = evs ++ trace w1 /\
           len evs = reallocs (length xs) /\
           Forall is_realloc evs /\
           (reallocs (length xs) <= N.log2 (len xs) + 2)%N.
Proof. exact capacity_sequence. Qed.
Print Assumptions C12_capacity_sequence.
(* the logarithmic bound *)
Theorem C12_reallocs_log :
  forall n : nat, (reallocs n <= N.log2 (N.of_nat n) + 2)%N.
Proof. exact reallocs_log. Qed.
Print Assumptions C12_reallocs_log.
(* get: out of range -> NULL without any store; in range -> the element with one more reference *)
Theorem C12_get_spec :
  forall (a : addr) (i : N) (w : world) (rc : N) 
           (indef : bool) (d : addr) (sz allocated : N) 
           (elems : list addr),
         heap w a = Some (CItem rc (NArr indef (Some d) allocated elems)) ->
         heap w d = Some (CData sz) ->
         (forall e : addr, In e elems -> is_item w e) ->
         ((len elems <= i)%N ->
          exists w' : world,
            array_get a i w = Ret None w' /\
            same_heap w w' /\
            no_new_write w w' /\ trace w' = trace w /\ nreq w' = nreq w) /\
         ((i < len elems)%N ->
          exists (e : addr) (rce : N) (ne : node) (w' : world),
            nth_error elems (N.to_nat i) = Some e /\
            heap w e = Some (CItem rce ne) /\
            array_get a i w = Ret (Some e) w' /\
            heap w' e = Some (CItem (wrap64 (rce + 1)) ne) /\
            heap_but [e] w w' /\
            next w' = next w /\ nreq w' = nreq w /\ trace w' = trace w).
Proof. exact get_spec. Qed.
Print Assumptions C12_get_spec.
(* replace with an out-of-range index is refused without touching memory *)
Theorem C12_replace_spec_out :
  forall (a : addr) (i : N) (v : addr) (w : world) 
           (rc : N) (indef : bool) (data : option addr) 
           (allocated : N) (elems : list addr),
         heap w a = Some (CItem rc (NArr indef data allocated elems)) ->
         (len elems <= i)%N ->
         exists w' : world,
           array_replace a i v w = Ret false w' /\
           same_heap w w' /\
           no_new_write w w' /\ trace w' = trace w /\ nreq w' = nreq w.
Proof. exact replace_spec_out. Qed.
Print Assumptions C12_replace_spec_out.
(* set with an index beyond the end is refused without touching memory *)
Theorem C12_set_spec_out :
  forall (refuse : N -> N -> bool) (a : addr) 
           (i : N) (v : addr) (w : world) (rc : N) (indef : bool)
           (data : option addr) (allocated : N) (elems : list addr),
         heap w a = Some (CItem rc (NArr indef data allocated elems)) ->
         (len elems < i)%N ->
         exists w' : world,
           array_set refuse a i v w = Ret false w' /\
           same_heap w w' /\
           no_new_write w w' /\ trace w' = trace w /\ nreq w' = nreq w.
Proof. exact set_spec_out. Qed.
Print Assumptions C12_set_spec_out.
(* definite map: refuses when full; otherwise appends the pair and takes one reference on key and value *)
Theorem C12_map_add_definite :
  forall (refuse : N -> N -> bool) (a k v : addr) 
           (w : world) (rc : N) (d : addr) (sz allocated : N)
           (pairs : list (addr * option addr)) (rck : N) 
           (nk : node) (rcv : N) (nv : node),
         heap w a = Some (CItem rc (NMap false (Some d) allocated pairs)) ->
         heap w d = Some (CData sz) ->
         heap w k = Some (CItem rck nk) ->
         heap w v = Some (CItem rcv nv) ->
         a <> k ->
         a <> v ->
         k <> v ->
         exists w' : world,
           ((allocated <= len pairs)%N ->
            map_add refuse a k v w = Ret false w' /\
            same_heap w w' /\
            no_new_write w w' /\ trace w' = trace w /\ nreq w' = nreq w) /\
           ((len pairs < allocated)%N ->
            map_add refuse a k v w = Ret true w' /\
            heap w' a =
            Some
              (CItem rc
                 (NMap false (Some d) allocated (pairs ++ [(k, Some v)]))) /\
            heap w' k = Some (CItem (wrap64 (rck + 1)) nk) /\
            heap w' v = Some (CItem (wrap64 (rcv + 1)) nv) /\
            heap_but [a; k; v] w w' /\
            next w' = next w /\ nreq w' = nreq w /\ trace w' = trace w).
Proof. exact map_add_definite. Qed.
Print Assumptions C12_map_add_definite.
(* indefinite map: geometric growth of 16-byte pairs; refused growth changes nothing (the key is not referenced) *)
Theorem C12_map_add_indefinite :
  forall (refuse : N -> N -> bool) (a k v : addr) 
           (w : world) (rc : N) (data : option addr) 
           (allocated : N) (pairs : list (addr * option addr)) 
           (rck : N) (nk : node) (rcv : N) (nv : node),
         wf w ->
         heap w a = Some (CItem rc (NMap true data allocated pairs)) ->
         block_inv w data allocated ->
         heap w k = Some (CItem rck nk) ->
         heap w v = Some (CItem rcv nv) ->
         a <> k ->
         a <> v ->
         k <> v ->
         (allocated < 2 ^ 64)%N ->
         ((len pairs < allocated)%N ->
          exists w' : world,
            map_add refuse a k v w = Ret true w' /\
            heap w' a =
            Some (CItem rc (NMap true data allocated (pairs ++ [(k, Some v)]))) /\
            heap w' k = Some (CItem (wrap64 (rck + 1)) nk) /\
            heap w' v = Some (CItem (wrap64 (rcv + 1)) nv) /\
            heap_but [a; k; v] w w' /\
            next w' = next w /\ nreq w' = nreq w /\ trace w' = trace w) /\
         ((allocated <= len pairs)%N ->
          match grow_req SZ_PAIR allocated with
          | Some (c, bytes) =>
              c = N.max 1 (2 * allocated) /\
              (allocated < c)%N /\
              bytes = (16 * c)%N /\
              (bytes < 2 ^ 64)%N /\
              (if refuse (nreq w) bytes
               then
                exists w' : world,
                  map_add refuse a k v w = Ret false w' /\
                  same_heap w w' /\
                  no_new_write w w' /\
                  trace w' = EvRealloc data bytes None :: trace w /\
                  nreq w' = (nreq w + 1)%N
               else
                exists w' : world,
                  map_add refuse a k v w = Ret true w' /\
                  heap w' a =
                  Some
                    (CItem rc
                       (NMap true (Some (next w)) c (pairs ++ [(k, Some v)]))) /\
                  heap w' k = Some (CItem (wrap64 (rck + 1)) nk) /\
                  heap w' v = Some (CItem (wrap64 (rcv + 1)) nv) /\
                  heap w' (next w) = Some (CData bytes) /\
                  (forall d : addr, data = Some d -> heap w' d = None) /\
                  heap_but (a :: k :: v :: next w :: opt_list data) w w' /\
                  next w' = (next w + 1)%N /\
                  nreq w' = (nreq w + 1)%N /\
                  trace w' = EvRealloc data bytes (Some (next w)) :: trace w /\
                  wf w')
          | None =>
              exists w' : world,
                map_add refuse a k v w = Ret false w' /\
                same_heap w w' /\
                no_new_write w w' /\ trace w' = trace w /\ nreq w' = nreq w
          end).
Proof. exact map_add_indefinite. Qed.
Print Assumptions C12_map_add_indefinite.
(* chunked strings: appends the chunk, doubling the chunk array when full; refused growth changes nothing *)
Theorem C12_add_chunk_spec :
  forall (refuse : N -> N -> bool) (a x : addr) 
           (w : world) (rc : N) (text : bool) (hdr : addr) 
           (hsz : N) (arr : option addr) (cap : N) (chunks : list addr)
           (rcx : N) (nx : node),
         wf w ->
         heap w a = Some (CItem rc (NChunked text hdr arr cap chunks)) ->
         heap w hdr = Some (CData hsz) ->
         block_inv w arr cap ->
         arr <> Some hdr ->
         heap w x = Some (CItem rcx nx) ->
         a <> x ->
         (cap < 2 ^ 64)%N ->
         (len chunks <> cap ->
          cap <> 0%N ->
          exists w' : world,
            add_chunk refuse a x w = Ret true w' /\
            heap w' a =
            Some (CItem rc (NChunked text hdr arr cap (chunks ++ [x]))) /\
            heap w' x = Some (CItem (wrap64 (rcx + 1)) nx) /\
            heap_but [a; x] w w' /\
            next w' = next w /\ nreq w' = nreq w /\ trace w' = trace w) /\
         (len chunks = cap ->
          match grow_req SZ_PTR cap with
          | Some (c, bytes) =>
              c = N.max 1 (2 * cap) /\
              (cap < c)%N /\
              bytes = (8 * c)%N /\
              (bytes < 2 ^ 64)%N /\
              (if refuse (nreq w) bytes
               then
                exists w' : world,
                  add_chunk refuse a x w = Ret false w' /\
                  same_heap w w' /\
                  no_new_write w w' /\
                  trace w' = EvRealloc arr bytes None :: trace w /\
                  nreq w' = (nreq w + 1)%N
               else
                exists w' : world,
                  add_chunk refuse a x w = Ret true w' /\
                  heap w' a =
                  Some
                    (CItem rc
                       (NChunked text hdr (Some (next w)) c (chunks ++ [x]))) /\
                  heap w' x = Some (CItem (wrap64 (rcx + 1)) nx) /\
                  heap w' (next w) = Some (CData bytes) /\
                  (forall d : addr, arr = Some d -> heap w' d = None) /\
                  heap_but (a :: x :: next w :: opt_list arr) w w' /\
                  next w' = (next w + 1)%N /\
                  nreq w' = (nreq w + 1)%N /\
                  trace w' = EvRealloc arr bytes (Some (next w)) :: trace w /\
                  wf w')
          | None =>
              exists w' : world,
                add_chunk refuse a x w = Ret false w' /\
                same_heap w w' /\
                no_new_write w w' /\ trace w' = trace w /\ nreq w' = nreq w
          end).
Proof. exact add_chunk_spec. Qed.
Print Assumptions C12_add_chunk_spec.
