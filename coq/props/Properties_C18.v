(* C18 — read-only operations never write to the items they inspect.
   Statements only; proofs in theories/HRead_proofs.v.  Model H logs EVERY store to an existing
   block (alog, AccW), so a store that is undone later would still be in the log. *)
From CB Require Import Word HHeap HItems HOps HHist PItem HRead_proofs.
Local Open Scope N_scope.

(* serializing an item performs no store at all, on any heap, for any buffer size *)
Theorem C18_no_writes : forall a n w r w', serialize_h a n w = Ret r w' ->
  forall b, In (AccW b) (alog w') -> In (AccW b) (alog w).
Proof. exact HRead_proofs.C18_no_writes. Qed.
Print Assumptions C18_no_writes.

Theorem C18_no_writes_size : forall a w r w', serialized_size_h a w = Ret r w' ->
  forall b, In (AccW b) (alog w') -> In (AccW b) (alog w).
Proof. exact HRead_proofs.C18_no_writes_size. Qed.
Print Assumptions C18_no_writes_size.

(* ... and leaves every cell of the heap bit-for-bit as it was *)
Theorem C18_heap_unchanged : forall a n w r w', serialize_h a n w = Ret r w' -> forall b, heap w' b = heap w b.
Proof. exact HRead_proofs.C18_heap_unchanged. Qed.
Print Assumptions C18_heap_unchanged.

(* the traversal every read-only operation is built on: only reads, no allocator request *)
Theorem C18_traversal_readonly : forall fuel a w t w', abs fuel a w = Ret t w' ->
  heap w' = heap w /\ next w' = next w /\ nreq w' = nreq w /\ trace w' = trace w /\
  (exists reads, alog w' = reads ++ alog w /\ Forall (fun x => exists b, x = AccR b) reads).
Proof. exact abs_readonly. Qed.
Print Assumptions C18_traversal_readonly.

(* getters that hand out no reference *)
Theorem C18_refcount_readonly : forall a, readonly (refcount a).
Proof. exact refcount_readonly. Qed.

(* non-vacuity of the log: an accessor that does hand out a reference (cbor_tag_item) is logged
   as a store to the child — exactly the store the unrepaired serializer performed *)
Theorem C18_log_sees_refcount_stores : forall t w x w', tag_item t w = Ret x w' ->
  alog w' = AccW x :: AccR x :: AccR t :: alog w.
Proof. exact tag_item_writes. Qed.
Print Assumptions C18_log_sees_refcount_stores.
