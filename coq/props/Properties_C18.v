(* C18 — read-only operations never write to the items they inspect.
   Statements only; proofs in theories/HRead_proofs.v.  Model H logs EVERY store to an existing
   block (alog, AccW), so a store that is undone later would still be in the log. *)
From CB Require Import Word HHeap HItems HOps HHist PItem HRead_proofs.
Local Open Scope N_scope.

(* serializing an item performs no store at all, on any heap, for any buffer size *)
Theorem C18_no_writes : forall a n w r w', serialize_h a n w = Ret r w' ->
  forall b, In (AccW b) (alog w') -> In (AccW b) (alog w).
Proof. exact HRead_proofs.C18_no_writes. Qed.
Print Assumptions C18_no_writes.

Theorem C18_no_writes_size : forall a w r w', serialized_size_h a w = Ret r w' ->
  forall b, In (AccW b) (alog w') -> In (AccW b) (alog w).
Proof. exact HRead_proofs.C18_no_writes_size. Qed.
Print Assumptions C18_no_writes_size.

(* ... and leaves every cell of the heap bit-for-bit as it was *)
Theorem C18_heap_unchanged : forall a n w r w', serialize_h a n w = Ret r w' -> forall b, heap w' b = heap w b.
Proof. exact HRead_proofs.C18_heap_unchanged. Qed.
Print Assumptions C18_heap_unchanged.

(* the traversal every read-only operation is built on: only reads, no allocator request *)
Theorem C18_traversal_readonly : forall fuel a w t w', abs fuel a w = Ret t w' ->
  heap w' = heap w /\ next w' = next w /\ nreq w' = nreq w /\ trace w' = trace w /\
  (exists reads, alog w' = reads ++ alog w /\ Forall (fun x => exists b, x = AccR b) reads).
Proof. exact abs_readonly. Qed.
Print Assumptions C18_traversal_readonly.

(* getters that hand out no reference *)
Theorem C18_refcount_readonly : forall a, readonly (refcount a).
Proof. exact refcount_readonly. Qed.

(* non-vacuity of the log: an accessor that does hand out a reference (cbor_tag_item) is logged
   as a store to the child — exactly the store the unrepaired serializer performed *)
Theorem C18_log_sees_refcount_stores : forall t w x w', tag_item t w = Ret x w' ->
  alog w' = AccW x :: AccR x :: AccR t :: alog w.
Proof. exact tag_item_writes. Qed.
Print Assumptions C18_log_sees_refcount_stores.

(* ---- the read-only calls of the third layer (HHist3.v): the eight type-specific serializers
   cbor_serialize_uint .. cbor_serialize_float_ctrl called directly ([serialize_typed]), and every predicate
   and getter that hands out no reference ([preds3]: cbor_typeof, cbor_isa_*, cbor_is_*, the width getters,
   cbor_bytestring_ / cbor_string_ length, code-point count, is_definite, is_indefinite, chunk_count,
   cbor_array_ / cbor_map_ size, allocated, is_definite, is_indefinite, cbor_tag_value, cbor_refcount;
   [vals3]: the same plus cbor_get_int, cbor_get_uint8..64, cbor_float_get_float2/4/8, cbor_float_get_float,
   cbor_ctrl_value, cbor_get_bool).  For EVERY world, client state and handle -- no legality is asked --
   they append only reads to the access log and leave the heap, the bump pointer, the request counter and
   the allocator trace as they were. ---- *)
From CB Require Import HHist2 HHist3 HHist3_proofs.

Theorem C18_serialize_typed_readonly : forall s k h n, readonly (serialize_typed s k h n).
Proof. exact serialize_typed_readonly. Qed.
Print Assumptions C18_serialize_typed_readonly.
Theorem C18_preds_readonly : forall s h, readonly (preds3 s h).
Proof. exact preds3_readonly. Qed.
Print Assumptions C18_preds_readonly.
Theorem C18_vals_readonly : forall s h, readonly (vals3 s h).
Proof. exact vals3_readonly. Qed.
Print Assumptions C18_vals_readonly.

(* spelled out as C18_no_writes / C18_heap_unchanged above *)
Theorem C18_serialize_typed_no_writes : forall s k h n w r w', serialize_typed s k h n w = Ret r w' ->
  (forall b, In (AccW b) (alog w') -> In (AccW b) (alog w)) /\ (forall b, heap w' b = heap w b) /\
  next w' = next w /\ nreq w' = nreq w /\ trace w' = trace w.
Proof. exact serialize_typed_no_writes. Qed.
Print Assumptions C18_serialize_typed_no_writes.
Theorem C18_preds_no_writes : forall s h w r w', preds3 s h w = Ret r w' ->
  (forall b, In (AccW b) (alog w') -> In (AccW b) (alog w)) /\ (forall b, heap w' b = heap w b) /\
  next w' = next w /\ nreq w' = nreq w /\ trace w' = trace w.
Proof. exact preds3_no_writes. Qed.
Print Assumptions C18_preds_no_writes.
Theorem C18_vals_no_writes : forall s h w r w', vals3 s h w = Ret r w' ->
  (forall b, In (AccW b) (alog w') -> In (AccW b) (alog w)) /\ (forall b, heap w' b = heap w b) /\
  next w' = next w /\ nreq w' = nreq w /\ trace w' = trace w.
Proof. exact vals3_no_writes. Qed.
Print Assumptions C18_vals_no_writes.

(* the pointer getters cbor_bytestring_handle / cbor_string_handle / cbor_bytestring_chunks_handle /
   cbor_string_chunks_handle / cbor_array_handle / cbor_map_handle ([ptrs3]: the block designated and what the
   client finds there) *)
Theorem C18_ptrs_readonly : forall s h, readonly (ptrs3 s h).
Proof. exact ptrs3_readonly. Qed.
Print Assumptions C18_ptrs_readonly.
Theorem C18_ptrs_no_writes : forall s h w r w', ptrs3 s h w = Ret r w' ->
  (forall b, In (AccW b) (alog w') -> In (AccW b) (alog w)) /\ (forall b, heap w' b = heap w b) /\
  next w' = next w /\ nreq w' = nreq w /\ trace w' = trace w.
Proof. exact ptrs3_no_writes. Qed.
Print Assumptions C18_ptrs_no_writes.

(* non-vacuity: on a tag around a negative integer the three calls return (bytes, numbers) and the log
   gains reads only; cbor_move, by contrast, is logged as a store *)
Example C18_layer3_nonvacuous :
  match run_hist3 (fun _ _ => false) 8
          [O3NewInt I8; O3SetUint I8 0 200; O3Mark true 0; O3BuildTagMove 7 0]%nat s3_0 [] world0 with
  | Ret (s, _) w =>
      match (r1 <- serialize_typed s KTag 1 4 ;; r2 <- preds3 s 1 ;; r3 <- vals3 s 0 ;; ret (snd r1, snd r2, snd r3)) w with
      | Ret r w' =>
          r = (Out (OutBytes 3 [199; 56; 200]),
               OutVals [6; 0; 0; 0; 0; 0; 0; 1; 0; 0; 0; 0; 0; 0; 7; 1],
               OutVals [1; 0; 1; 0; 0; 0; 0; 0; 0; 1; 0; 0; 0; 0; 0; 1; 200; 200]) /\
          alog w' = [AccR 1; AccR 2; AccR 1; AccR 2; AccR 2] ++ alog w
      | Fault _ => False
      end /\
      match move_op s 1 w with Ret _ w' => alog w' = AccW 2 :: AccR 2 :: alog w | Fault _ => False end
  | Fault _ => False
  end.
Proof. vm_compute. repeat split. Qed.


(* ------------------------------------------------------------------------------------------ *)
(* The same on the C source of this run (translator/effects.py, gen/Gen_effects_ser.v,
   Bridge_effects_ser.v): the plans generated from serialization.c contain no store to the item — the
   translator reports every field a function writes (p_fields, SetInt / SetPtr), and the hand plans
   they are bridge-equal to report none; the one effect is the payload copy into the BUFFER. *)
From Coq Require Import ZArith String List.
From CB Require Import HPlans HPlansSer HPlansSer_proofs Bridge_effects_ser.
From CBGen Require Import Gen_effects_ser.
Import ListNotations.
Local Open Scope string_scope.

Theorem C18_code_serializer_writes_nothing_to_the_item :
  (forall ty bs c, p_fields (serialize_plan ty bs c) = [] /\ p_effs (serialize_plan ty bs c) = []) /\
  (forall definite size k written bs c, p_effs (array_round_plan definite size k written bs c) = [] /\
     forall nm v, In (nm, v) (p_fields (array_round_plan definite size k written bs c)) -> nm = "acc0" \/ nm = "round") /\
  (forall text definite length bs c e, In e (p_effs (string_plan text definite length bs c)) ->
     exists off n, e = CopyAt (PArg 1) off (PField item0 "data") n).
Proof. exact code_serializer_writes_nothing_to_the_item. Qed.
Print Assumptions C18_code_serializer_writes_nothing_to_the_item.

Theorem C18_code_array_round_plan : forall al definite e bs k a c,
  (e < 2^64)%N -> (bs < 2^64)%N -> (k <= e)%N -> (a < 2^64)%N -> (c < 2^64)%N ->
  Gcbor_serialize_array_loop0 al (dst_z definite) (Z.of_N e) (Z.of_N bs) (Z.of_N k) (Z.of_N a) (Z.of_N c) =
  array_round_plan definite e k a bs c.
Proof. exact bridge_plan_serialize_array_round. Qed.

(* "every predicate or getter that does not hand out a new reference" as written in C: in the call graph regenerated from the
   AST of this run, no function that stores through memory (a pointer, a member or element of a pointed-to object, a variable
   with static storage) is reachable from any of the 53 predicates / getters, none of them calls through a pointer, and the only
   functions without a body under src/ they reach are side-effect-free builtins (theories/Bridge_inventory.v) *)
From CB Require Import Bridge_inventory.
From CBGen Require Import Gen_inventory.
Theorem C18_getters_store_free :
  match gen_callgraph with [] => true | _ => forallb getter_pure readonly_getters end = true.
Proof. exact bridge_readonly_getters. Qed.
Print Assumptions C18_getters_store_free.
(* non-vacuity: the same test rejects cbor_array_get (which hands out a reference: cbor_incref stores) and sees the allocator from cbor_load *)
Example C18_getters_store_free_nonvacuous :
  match gen_callgraph with [] => true | _ => negb (fn_allocfree "cbor_load") && negb (getter_pure "cbor_array_get") end = true.
Proof. exact cg_closure_sees_the_allocator. Qed.
