(* C02 — cbor_load accepts exactly the well-formed items and builds the faithful tree.
   Statements only; proofs in theories/PBuild_proofs.v.  Well-formedness within libcbor's profile
   is SpecParse.load_spec: a recursive-descent parser over the RFC 8949 heads (SpecHead.head_spec):
   definite count, indefinite until break, key/value pairing, one item per tag, chunked strings of
   same-type definite chunks, simple values 20..23 only, nesting within L, no refused allocation. *)
From CB Require Import Word PStream SpecHead PItem PBuild SpecParse PRun PBuild_proofs PFinal PFinal2.
Local Open Scope N_scope.

(* cbor_load succeeds iff the specification accepts, with the same tree — types, widths, values,
   tag numbers, flavour, chunk boundaries, order — and the same count of bytes read *)
Theorem C02_accepts_iff : forall L cap buf t n, bytes_ok buf -> len buf < SIZE_MAX ->
  (load L cap buf = LOk t n <-> load_spec L cap buf = LOk t n).
Proof. exact load_accepts_iff. Qed.
Print Assumptions C02_accepts_iff.

Theorem C02_machine_is_spec : forall L cap tl ts,
  run L cap tl ts [] = lres_of_pres (parse cap tl (S (2 * length ts + 1)) (N.to_nat L) ts).
Proof. exact run_is_parse_strong. Qed.
Print Assumptions C02_machine_is_spec.

(* the byte-level loop of cbor_load factors through the head sequence *)
Theorem C02_load_is_run : forall L cap buf, bytes_ok buf -> len buf < SIZE_MAX ->
  load L cap buf = if len buf =? 0 then LErr ENoData 0 0
                   else let (ts, tl) := tokenize (S (length buf)) 0 buf in run L cap tl ts [].
Proof. exact load_is_run_full. Qed.
Print Assumptions C02_load_is_run.

Example C02_examples :
  load 2048 (2^20) [0x83; 0x01; 0x82; 0x02; 0x03; 0xF9; 0x7E; 0x00; 0xFF] =
    LOk (IArray false [IUint I8 1; IArray false [IUint I8 2; IUint I8 3]; IFloat F16 0x7FC00000]) 8 /\
  load 2048 (2^20) [0xBF; 0x61; 0x61; 0x5F; 0x41; 0x01; 0x40; 0xFF; 0xFF] =
    LOk (IMap true [(IText [0x61], IBytesI [[0x01]; []])]) 9 /\
  load 2048 (2^20) [0xC1; 0x1A; 0x00; 0x00; 0x00; 0x05] = LOk (ITag 1 (IUint I32 5)) 6.
Proof. repeat split; vm_compute; reflexivity. Qed.
