(* C02 — cbor_load accepts exactly the well-formed items and builds the faithful tree.
   Statements only; proofs in theories/PBuild_proofs.v.  Well-formedness within libcbor's profile
   is SpecParse.load_spec: a recursive-descent parser over the RFC 8949 heads (SpecHead.head_spec):
   definite count, indefinite until break, key/value pairing, one item per tag, chunked strings of
   same-type definite chunks, simple values 20..23 only, nesting within L, no refused allocation. *)
From CB Require Import Word PStream SpecHead PItem PBuild SpecParse PRun PBuild_proofs PFinal PFinal2 HHeap HItems HOps HRef_proofs HCont_proofs HRead_proofs HLoad_proofs PIdeal_proofs.
Local Open Scope N_scope.

(* cbor_load succeeds iff the specification accepts, with the same tree — types, widths, values,
   tag numbers, flavour, chunk boundaries, order — and the same count of bytes read *)
Theorem C02_accepts_iff : forall L cap buf t n, bytes_ok buf -> len buf < SIZE_MAX ->
  (load L cap buf = LOk t n <-> load_spec L cap buf = LOk t n).
Proof. exact load_accepts_iff. Qed.
Print Assumptions C02_accepts_iff.

Theorem C02_machine_is_spec : forall L cap tl ts,
  run L cap tl ts [] = lres_of_pres (parse cap tl (S (2 * length ts + 1)) (N.to_nat L) ts).
Proof. exact run_is_parse_strong. Qed.
Print Assumptions C02_machine_is_spec.

(* the byte-level loop of cbor_load factors through the head sequence *)
Theorem C02_load_is_run : forall L cap buf, bytes_ok buf -> len buf < SIZE_MAX ->
  load L cap buf = if len buf =? 0 then LErr ENoData 0 0
                   else let (ts, tl) := tokenize (S (length buf)) 0 buf in run L cap tl ts [].
Proof. exact load_is_run_full. Qed.
Print Assumptions C02_load_is_run.

Example C02_examples :
  load 2048 (2^20) [0x83; 0x01; 0x82; 0x02; 0x03; 0xF9; 0x7E; 0x00; 0xFF] =
    LOk (IArray false [IUint I8 1; IArray false [IUint I8 2; IUint I8 3]; IFloat F16 0x7FC00000]) 8 /\
  load 2048 (2^20) [0xBF; 0x61; 0x61; 0x5F; 0x41; 0x01; 0x40; 0xFF; 0xFF] =
    LOk (IMap true [(IText [0x61], IBytesI [[0x01]; []])]) 9 /\
  load 2048 (2^20) [0xC1; 0x1A; 0x00; 0x00; 0x00; 0x05] = LOk (ITag 1 (IUint I32 5)) 6.
Proof. repeat split; vm_compute; reflexivity. Qed.

(* ownership: on success every node of the returned tree has reference count one, the fresh live cells are exactly those reachable from it (no decoder stack record survives), no pre-existing cell was touched (payloads are copied into fresh blocks) *)
Theorem C02_load_h_success :
  forall (refuse : N -> N -> bool) (L : N) (own ownd : addr -> N)
           (buf : list N) (w : world) (a : addr) (code : lerr) 
           (pos rd : N) (w' : world),
         bytes_ok buf ->
         (len buf < SIZE_MAX)%N ->
         HCont_proofs.wf w ->
         Inv own ownd [] w ->
         load_h refuse L buf w = Ret (Some a, code, pos, rd) w' ->
         code = ENone /\
         pos = 0%N /\
         (next w <= a)%N /\
         (forall b : N, (b < next w)%N -> heap w' b = heap w b) /\
         (forall (b rc : N) (n : node),
          (next w <= b)%N -> heap w' b = Some (CItem rc n) -> rc = 1%N) /\
         Inv (fun x : addr => (own x + (if x =? a then 1 else 0))%N) ownd [] w' /\
         (forall b : N,
          (next w <= b)%N -> heap w' b <> None <-> HRead_proofs.reach w' a b) /\
         (forall b sz : N,
          (next w <= b)%N ->
          heap w' b = Some (CData sz) ->
          exists (p rc : N) (n : node),
            (next w <= p)%N /\
            heap w' p = Some (CItem rc n) /\ In b (HRead_proofs.node_blocks n)).
Proof. exact load_h_success. Qed.
Print Assumptions C02_load_h_success.

(* the heap-level decoder refines the pure one: same acceptance, the returned heap tree abstracts to the pure tree, same read count, same error code and position *)
Theorem C02_load_h_refines :
  forall (L cap : N) (own ownd : addr -> N) (buf : list N) (w : world),
         (SIZE_MAX <= cap)%N ->
         bytes_ok buf ->
         (len buf < 2 ^ 57)%N ->
         HCont_proofs.wf w ->
         Inv own ownd [] w ->
         match load L cap buf with
         | LFault => False
         | LOk t n =>
             exists (a : addr) (w' w'' : world),
               load_h grant L buf w = Ret (Some a, ENone, 0%N, n) w' /\
               abs_of a w' = Ret t w''
         | LErr code p q =>
             exists w' : world,
               load_h grant L buf w = Ret (None, code, p, q) w'
         end.
Proof. exact load_h_refines. Qed.
Print Assumptions C02_load_h_refines.


(* acceptance coincides with the independent first-violation parser (PIdeal_proofs.parse_ideal):
   the library's lazy handling of chunked strings never makes it accept something ill-formed, nor
   reject something well-formed *)
Theorem C02_accepts_ideal : forall L cap buf t n, bytes_ok buf -> len buf < SIZE_MAX ->
  (load L cap buf = LOk t n <-> load_ideal L cap buf = LOk t n).
Proof. exact PIdeal_proofs.C02_accepts_ideal. Qed.
Print Assumptions C02_accepts_ideal.

(* ------------------------------------------------------------------------------------------ *)
(* Translator tie of the decoder glue (translator/effects.py, gen/Gen_effects_load.v regenerated from
   builder_callbacks.c and cbor.c on every run; Bridge_effects_load.v; HPlansLoad_proofs.v): the
   model's [append] — the case analysis on the item on top of the stack, the count-down of a
   definite container with the cascade at 0, the key / value parity of a map, the tag case — and
   the acceptance condition of a break are what the plans generated from _cbor_builder_append and
   cbor_builder_indef_break_callback say; a definite map of n pairs is pushed expecting 2 n items. *)
From Coq Require Import ZArith String.
From CB Require Import GenLeafTypes HPlans HPlansLoad HPlans_proofs HPlansLoad_proofs Bridge_effects_load.
From CBGen Require Import Gen_effects_load.
Local Open Scope string_scope.
Local Open Scope list_scope.
Local Open Scope N_scope.

Theorem C02_code_append_plan : forall cf se size sub ty definite c,
  size < 2^64 -> sub < 2^64 -> (0 <= ty < 2^32)%Z ->
  G_cbor_builder_append cf (Z.of_N size) (Z.of_N sub) se (dst_z definite) ty c =
  builder_append_plan cf se size sub ty definite c.
Proof. exact bridge_plan_builder_append. Qed.
Print Assumptions C02_code_append_plan.

Theorem C02_code_append_followed : forall it f rest,
  frame_wf f -> frame_sub f < 2 ^ 64 -> len (f :: rest) < 2 ^ 64 ->
  let stk := f :: rest in
  let p := G_cbor_builder_append 0 (Z.of_N (len stk)) (Z.of_N (frame_sub f)) 0
             (dst_z (negb (frame_indef f))) (frame_ty f) (insert_ok f) in
  PBuild.append it stk =
    if plan_cascades p then PBuild.append (frame_close f it) rest
    else if (fieldZ "creation_failed" p =? 1)%Z then fail_mem stk
    else if (fieldZ "syntax_error" p =? 1)%Z then fail_syntax stk
    else ok_stack (frame_put f it (fieldN "subitems" p) :: rest).
Proof. exact code_append_followed. Qed.
Print Assumptions C02_code_append_followed.

Theorem C02_cascade_pops_first : forall cf se size sub ty definite c,
  let p := builder_append_plan cf se size sub ty definite c in
  plan_cascades p = true ->
  exists evs, p_reqs p = evs ++ [call_pop 1; call_append (top_item 1) 1] /\
              existsb (is_call "_cbor_builder_append") evs = false /\
              existsb (is_call "_cbor_stack_pop") evs = false.
Proof. exact cascade_pops_first. Qed.

Theorem C02_map_parity_rule : forall cf se size sub definite c,
  size <> 0 ->
  let p := builder_append_plan cf se size sub TY_MAP definite c in
  (existsb (is_call "_cbor_map_add_value") (p_reqs p) = odd sub) /\
  (existsb (is_call "_cbor_map_add_key") (p_reqs p) = negb (odd sub)).
Proof. exact map_parity_rule. Qed.

Theorem C02_code_break_followed : forall L cap f rest dst,
  frame_wf f -> frame_sub f < 2 ^ 64 -> len (f :: rest) < 2 ^ 64 ->
  let stk := f :: rest in
  let p := Gcbor_builder_indef_break_callback (Z.of_N (len stk)) (Z.of_N (frame_sub f)) 0 dst (frame_ty f)
             (if frame_indef f then 1 else 0)%Z in
  callback L cap TBreak stk = (if plan_cascades p then PBuild.append (frame_break_close f) rest else fail_syntax stk) /\
  (plan_cascades p = true ->
     p_reqs p = [ReqCall "_cbor_is_indefinite" [AP (top_item 0)]; call_pop 0; call_append (top_item 0) 0]) /\
  (plan_cascades p = false -> fieldZ "syntax_error" p = 1%Z).
Proof. exact code_break_followed. Qed.
Print Assumptions C02_code_break_followed.

Theorem C02_code_map_start_followed : forall L cap n stk,
  n < 2 ^ 64 -> len stk < 2 ^ 64 ->
  let p := Gcbor_builder_map_start_callback 0 (Z.of_N (len stk)) (Z.of_N n) (alloc_ok cap 64 16 n) (negb (len stk =? L)) in
  callback L cap (TMap n) stk =
    if plan_cascades p then PBuild.append (IMap false []) stk
    else if (fieldZ "creation_failed" p =? 1)%Z then fail_mem stk
    else ok_stack (FMap false [] None n (push_subitems p) :: stk).
Proof. exact code_map_start_followed. Qed.
Print Assumptions C02_code_map_start_followed.
