(* C02 — cbor_load accepts exactly the well-formed items and builds the faithful tree.
   Statements only; proofs in theories/PBuild_proofs.v.  Well-formedness within libcbor's profile
   is SpecParse.load_spec: a recursive-descent parser over the RFC 8949 heads (SpecHead.head_spec):
   definite count, indefinite until break, key/value pairing, one item per tag, chunked strings of
   same-type definite chunks, simple values 20..23 only, nesting within L, no refused allocation. *)
From CB Require Import Word PStream SpecHead PItem PBuild SpecParse PRun PBuild_proofs PFinal PFinal2 HHeap HItems HOps HRef_proofs HCont_proofs HRead_proofs HLoad_proofs PIdeal_proofs.
Local Open Scope N_scope.

(* cbor_load succeeds iff the specification accepts, with the same tree — types, widths, values,
   tag numbers, flavour, chunk boundaries, order — and the same count of bytes read *)
Theorem C02_accepts_iff : forall L cap buf t n, bytes_ok buf -> len buf < SIZE_MAX ->
  (load L cap buf = LOk t n <-> load_spec L cap buf = LOk t n).
Proof. exact load_accepts_iff. Qed.
Print Assumptions C02_accepts_iff.

Theorem C02_machine_is_spec : forall L cap tl ts,
  run L cap tl ts [] = lres_of_pres (parse cap tl (S (2 * length ts + 1)) (N.to_nat L) ts).
Proof. exact run_is_parse_strong. Qed.
Print Assumptions C02_machine_is_spec.

(* the byte-level loop of cbor_load factors through the head sequence *)
Theorem C02_load_is_run : forall L cap buf, bytes_ok buf -> len buf < SIZE_MAX ->
  load L cap buf = if len buf =? 0 then LErr ENoData 0 0
                   else let (ts, tl) := tokenize (S (length buf)) 0 buf in run L cap tl ts [].
Proof. exact load_is_run_full. Qed.
Print Assumptions C02_load_is_run.

Example C02_examples :
  load 2048 (2^20) [0x83; 0x01; 0x82; 0x02; 0x03; 0xF9; 0x7E; 0x00; 0xFF] =
    LOk (IArray false [IUint I8 1; IArray false [IUint I8 2; IUint I8 3]; IFloat F16 0x7FC00000]) 8 /\
  load 2048 (2^20) [0xBF; 0x61; 0x61; 0x5F; 0x41; 0x01; 0x40; 0xFF; 0xFF] =
    LOk (IMap true [(IText [0x61], IBytesI [[0x01]; []])]) 9 /\
  load 2048 (2^20) [0xC1; 0x1A; 0x00; 0x00; 0x00; 0x05] = LOk (ITag 1 (IUint I32 5)) 6.
Proof. repeat split; vm_compute; reflexivity. Qed.

(* ownership: on success every node of the returned tree has reference count one, the fresh live cells are exactly those reachable from it (no decoder stack record survives), no pre-existing cell was touched (payloads are copied into fresh blocks) *)
Theorem C02_load_h_success :
  forall (refuse : N -> N -> bool) (L : N) (own ownd : addr -> N)
           (buf : list N) (w : world) (a : addr) (code : lerr) 
           (pos rd : N) (w' : world),
         bytes_ok buf ->
         (len buf < SIZE_MAX)%N ->
         HCont_proofs.wf w ->
         Inv own ownd [] w ->
         load_h refuse L buf w = Ret (Some a, code, pos, rd) w' ->
         code = ENone /\
         pos = 0%N /\
         (next w <= a)%N /\
         (forall b : N, (b < next w)%N -> heap w' b = heap w b) /\
         (forall (b rc : N) (n : node),
          (next w <= b)%N -> heap w' b = Some (CItem rc n) -> rc = 1%N) /\
         Inv (fun x : addr => (own x + (if x =? a then 1 else 0))%N) ownd [] w' /\
         (forall b : N,
          (next w <= b)%N -> heap w' b <> None <-> HRead_proofs.reach w' a b) /\
         (forall b sz : N,
          (next w <= b)%N ->
          heap w' b = Some (CData sz) ->
          exists (p rc : N) (n : node),
            (next w <= p)%N /\
            heap w' p = Some (CItem rc n) /\ In b (HRead_proofs.node_blocks n)).
Proof. exact load_h_success. Qed.
Print Assumptions C02_load_h_success.

(* the heap-level decoder refines the pure one: same acceptance, the returned heap tree abstracts to the pure tree, same read count, same error code and position *)
Theorem C02_load_h_refines :
  forall (L cap : N) (own ownd : addr -> N) (buf : list N) (w : world),
         (SIZE_MAX <= cap)%N ->
         bytes_ok buf ->
         (len buf < 2 ^ 57)%N ->
         HCont_proofs.wf w ->
         Inv own ownd [] w ->
         match load L cap buf with
         | LFault => False
         | LOk t n =>
             exists (a : addr) (w' w'' : world),
               load_h grant L buf w = Ret (Some a, ENone, 0%N, n) w' /\
               abs_of a w' = Ret t w''
         | LErr code p q =>
             exists w' : world,
               load_h grant L buf w = Ret (None, code, p, q) w'
         end.
Proof. exact load_h_refines. Qed.
Print Assumptions C02_load_h_refines.


(* acceptance coincides with the independent first-violation parser (PIdeal_proofs.parse_ideal):
   the library's lazy handling of chunked strings never makes it accept something ill-formed, nor
   reject something well-formed *)
Theorem C02_accepts_ideal : forall L cap buf t n, bytes_ok buf -> len buf < SIZE_MAX ->
  (load L cap buf = LOk t n <-> load_ideal L cap buf = LOk t n).
Proof. exact PIdeal_proofs.C02_accepts_ideal. Qed.
Print Assumptions C02_accepts_ideal.
