(* C15 — floating-point values keep their exact bits through decode and encode.
   Statements only; proofs in theories/PFloat_proofs.v.  The *_value theorems speak about Flocq's
   IEEE-754 binary16/binary32 values and therefore rest on the standard library's real-number
   axioms (listed by Print Assumptions below); all others are closed. *)
From CB Require Import Word PStream PEnc PFloat_proofs.
From Flocq Require Import Core IEEE754.Binary IEEE754.Bits.
Local Open Scope N_scope.

(* every non-NaN half pattern decodes to the float with exactly the IEEE-754 value it denotes *)
Theorem C15_half_value : forall h, h < 65536 -> half_is_nan h = false ->
  B2R _ _ (b32 (decode_half h)) = B2R _ _ (b16 h).
Proof. exact PFloat_proofs.C15_half_value. Qed.
Print Assumptions C15_half_value.

(* ... including the sign of zeros and infinities *)
Theorem C15_half_class : forall h, h < 65536 -> half_is_nan h = false ->
  is_nan _ _ (b32 (decode_half h)) = false /\ is_nan _ _ (b16 h) = false /\
  is_finite _ _ (b32 (decode_half h)) = is_finite _ _ (b16 h) /\
  Bsign _ _ (b32 (decode_half h)) = Bsign _ _ (b16 h) /\
  (forall s, b32 (decode_half h) = B754_zero _ _ s <-> b16 h = B754_zero _ _ s) /\
  (forall s, b32 (decode_half h) = B754_infinity _ _ s <-> b16 h = B754_infinity _ _ s).
Proof. exact PFloat_proofs.C15_half_class_value. Qed.
Print Assumptions C15_half_class.

(* every NaN half decodes to NaN (one canonical pattern in the model) *)
Theorem C15_half_nan : forall h, h < 65536 -> half_is_nan h = true -> decode_half h = 0x7FC00000.
Proof. exact PFloat_proofs.C15_half_nan. Qed.
Print Assumptions C15_half_nan.

(* encoding an item holding the decoded value reproduces the original bytes; NaN -> 0x7E00 *)
Theorem C15_half_roundtrip : forall h, h < 65536 ->
  encode_half_bits (decode_half h) = Some (if half_is_nan h then 0x7E00 else h).
Proof. exact PFloat_proofs.C15_half_roundtrip. Qed.
Print Assumptions C15_half_roundtrip.

(* encoding is total: any float handed to the half encoder produces its bytes without an
   out-of-range shift (undefined behaviour) *)
Theorem C15_half_total : forall v, encode_half_bits v <> None.
Proof. exact PFloat_proofs.C15_half_total_all. Qed.
Print Assumptions C15_half_total.

(* singles and doubles: bit-for-bit, NaN to the canonical quiet NaN of the width *)
Theorem C15_single : forall v, v < 2^32 ->
  snd (encode_single v 5) = 0xFA :: be_bytes 4 (canon32 v) /\
  (forall rest, stream_decode (snd (encode_single v 5) ++ rest)
                = SRes (mkdres Finished 5 0) (Some (TFloat F32 (canon32 v)))) /\
  (f32_is_nan v = false -> canon32 v = v).
Proof. exact PFloat_proofs.C15_single. Qed.
Print Assumptions C15_single.

Theorem C15_double : forall v, v < 2^64 ->
  snd (encode_double v 9) = 0xFB :: be_bytes 8 (canon64 v) /\
  (forall rest, stream_decode (snd (encode_double v 9) ++ rest)
                = SRes (mkdres Finished 9 0) (Some (TFloat F64 (canon64 v)))) /\
  (f64_is_nan v = false -> canon64 v = v).
Proof. exact PFloat_proofs.C15_double. Qed.
Print Assumptions C15_double.

Example C15_examples :
  decode_half 0x3C00 = 0x3F800000 /\ decode_half 0x0001 = 0x33800000 /\ decode_half 0xFC00 = 0xFF800000 /\
  encode_half_bits 0x33800000 = Some 0x0001 /\ half_is_nan 0x7C01 = true /\ half_is_nan 0x7C00 = false.
Proof. repeat split; vm_compute; reflexivity. Qed.

(* ---- cbor_float_get_float: the one getter that returns a value of another width.  For a half / single item it returns
   the stored float converted to double; [float_get_float_bits w bits] (PWiden.v, printed by HHist3.values_of and compared
   with the C getter's result by the api3 stream) is that double as a binary64 pattern.  Proofs in theories/PWiden_proofs.v
   (structural: no sweep over the 2^32 patterns). ---- *)
From CB Require Import PWiden PWiden_proofs.

(* a half or single item holding the non-NaN float [bits]: the double has exactly the same real value *)
Theorem C15_get_float_value : forall w bits, w <> F64 -> bits < 2^32 -> f32_is_nan bits = false ->
  B2R _ _ (b64 (float_get_float_bits w bits)) = B2R _ _ (b32 bits).
Proof. exact PWiden_proofs.C15_get_float_value. Qed.
Print Assumptions C15_get_float_value.

(* ... and the same class and sign (zeros, infinities) *)
Theorem C15_get_float_class : forall w bits, w <> F64 -> bits < 2^32 -> f32_is_nan bits = false ->
  is_nan _ _ (b64 (float_get_float_bits w bits)) = false /\ is_nan _ _ (b32 bits) = false /\
  is_finite _ _ (b64 (float_get_float_bits w bits)) = is_finite _ _ (b32 bits) /\
  Bsign _ _ (b64 (float_get_float_bits w bits)) = Bsign _ _ (b32 bits) /\
  (forall s, b64 (float_get_float_bits w bits) = B754_zero _ _ s <-> b32 bits = B754_zero _ _ s) /\
  (forall s, b64 (float_get_float_bits w bits) = B754_infinity _ _ s <-> b32 bits = B754_infinity _ _ s).
Proof. exact PWiden_proofs.C15_get_float_class_value. Qed.
Print Assumptions C15_get_float_class.

(* a decoded half: the double returned for the item has the IEEE-754 value of the binary16 pattern *)
Theorem C15_get_float_half_value : forall h, h < 65536 -> half_is_nan h = false ->
  B2R _ _ (b64 (float_get_float_bits F16 (decode_half h))) = B2R _ _ (b16 h).
Proof. exact PWiden_proofs.C15_get_float_half_value. Qed.
Print Assumptions C15_get_float_half_value.

(* a double item: the stored bits *)
Theorem C15_get_float_double : forall bits, f64_is_nan bits = false -> float_get_float_bits F64 bits = bits.
Proof. exact PWiden_proofs.C15_get_float_double. Qed.
Print Assumptions C15_get_float_double.

(* NaN of any width: NaN (one canonical pattern in the model, as for the width-specific getters) *)
Theorem C15_get_float_nan : forall w bits,
  (match w with F64 => f64_is_nan bits | _ => f32_is_nan bits end) = true ->
  float_get_float_bits w bits = 0x7FF8000000000000.
Proof. exact PWiden_proofs.C15_get_float_nan. Qed.
Print Assumptions C15_get_float_nan.

(* the widening loses nothing: distinct non-NaN floats give distinct doubles, all of them 64-bit patterns *)
Theorem C15_widen_injective : forall v1 v2, v1 < 2^32 -> v2 < 2^32 ->
  f32_is_nan v1 = false -> f32_is_nan v2 = false -> widen32 v1 = widen32 v2 -> v1 = v2.
Proof. exact PWiden_proofs.C15_widen_injective. Qed.
Theorem C15_widen_bound : forall v, v < 2^32 -> widen32 v < 2^64.
Proof. exact PWiden_proofs.C15_widen_bound. Qed.
Print Assumptions C15_widen_injective.
Print Assumptions C15_widen_bound.

(* 1.0f; the smallest and the largest binary32 subnormals (normal doubles); the largest float; -infinity; a signalling NaN;
   the smallest subnormal half 2^-24 through decode_half *)
Example C15_get_float_examples :
  widen32 0x3F800000 = 0x3FF0000000000000 /\ widen32 0x00000001 = 0x36A0000000000000 /\
  widen32 0x007FFFFF = 0x380FFFFFC0000000 /\ widen32 0x7F7FFFFF = 0x47EFFFFFE0000000 /\
  widen32 0xFF800000 = 0xFFF0000000000000 /\ widen32 0x7F800001 = 0x7FF8000000000000 /\
  float_get_float_bits F16 (decode_half 0x0001) = 0x3E70000000000000 /\
  float_get_float_bits F64 0x3FF0000000000001 = 0x3FF0000000000001.
Proof. repeat split; vm_compute; reflexivity. Qed.

(* ---- translator tie, second wave: the float encoders and _cbor_decode_half as translated from this run's clang
   AST (float parameters as bit patterns, isnan as the bit test, ldexp as a constructor) are the model's ---- *)
From Coq Require Import ZArith.
From CB Require Import PHalfShape GenLeafTypes Bridge_leaf_float Bridge_leaf_ehalf Bridge_leaf_dechalf.
From CBGen Require Import Gen_leaf.
Theorem C15_code_encode_half : forall val size, val < 2^32 ->
  gcbor_encode_half (Z.of_N val) (Z.of_N size) = option_map zres (encode_half val size).
Proof. exact bridge_encode_half. Qed.
Theorem C15_code_encode_single : forall v size, v < 2^32 ->
  gcbor_encode_single (Z.of_N v) (Z.of_N size) = zres (encode_single v size).
Proof. exact bridge_encode_single. Qed.
Theorem C15_code_encode_double : forall v size, v < 2^64 ->
  gcbor_encode_double (Z.of_N v) (Z.of_N size) = zres (encode_double v size).
Proof. exact bridge_encode_double. Qed.
Theorem C15_code_decode_half : forall b0 b1, b0 < 256 -> b1 < 256 ->
  f32_bits (g_cbor_decode_half (srcf [b0; b1])) = decode_half (be_val [b0; b1]).
Proof. exact bridge_decode_half. Qed.
Theorem C15_code_decode_half_kind : forall b0 b1, b0 < 256 -> b1 < 256 ->
  fkind_of (g_cbor_decode_half (srcf [b0; b1])) = fkind_of (decode_half_shape (b0 * 256 + b1)).
Proof. exact bridge_decode_half_kind. Qed.
Theorem C15_decode_half_shape : forall h, h < 2^16 -> f32_bits (decode_half_shape h) = decode_half h.
Proof. exact decode_half_shape_bits. Qed.
Print Assumptions C15_code_encode_half.
Print Assumptions C15_code_decode_half.
