(* C01 — decoding arbitrary bytes is memory-safe, assertion-clean and always terminates.
   Statements only.  In the models every out-of-bounds read, read of an unset field, store outside a
   block, touch of released memory, failed CBOR_ASSERT and fuel exhaustion is the value Fault /
   LFault / SFault / None, so "memory-safe, assertion-clean, terminates" is "never that value". *)
From CB Require Import Word PStream SpecHead PItem SpecItem PBuild SpecParse PRun
  PStream_proofs PItem_proofs PLoad_proofs PFinal PFinal2 HHeap HItems HRef_proofs HOps HRead_proofs HCont_proofs HCopy_proofs HLoad_proofs.
Local Open Scope N_scope.

(* the streaming decoder reads only bytes inside the caller's buffer, for every buffer *)
Theorem C01_stream_reads_in_bounds : forall buf, bytes_ok buf -> len buf < SIZE_MAX -> stream_decode buf <> SFault.
Proof. exact C08_no_fault. Qed.
Print Assumptions C01_stream_reads_in_bounds.

(* the tree decoder: for every buffer, every limit, every allocator cap — no out-of-bounds read,
   no read of an unset root, no inconsistent builder state, and the loop terminates within its fuel *)
Theorem C01_load_never_faults : forall L cap buf, bytes_ok buf -> len buf < SIZE_MAX -> load L cap buf <> LFault.
Proof. exact load_never_faults. Qed.
Print Assumptions C01_load_never_faults.

(* the outcome is either an item, or a null item plus an error code: there is no third outcome *)
Theorem C01_outcome : forall L cap buf, bytes_ok buf -> len buf < SIZE_MAX ->
  (exists t n, load L cap buf = LOk t n) \/ (exists c p, load L cap buf = LErr c p p /\ c <> ENone).
Proof. exact load_outcome. Qed.
Print Assumptions C01_outcome.

(* what a client then does with a decoded tree: size and serialize are total on every tree (no
   undefined shift in the half encoder, no store outside the buffer: C07_into) *)
Theorem C01_serialize_total : forall t size, wf_item t -> size < 2^64 -> serialize_into t size <> None.
Proof. exact serialize_total. Qed.
Print Assumptions C01_serialize_total.

(* size / serialize over heap items only read (no store anywhere), release of an owned reference
   never touches released memory, never double-frees, never trips the refcount assertion *)
Theorem C01_serialize_readonly : forall a n w r w', serialize_h a n w = Ret r w' -> forall b, heap w' b = heap w b.
Proof. exact C18_heap_unchanged. Qed.
Theorem C01_release_safe : forall own own' ownd a w,
  (forall x, own' x = own x + (if x =? a then 1 else 0)) -> Inv own' ownd [] w ->
  exists w', decref a w = Ret tt w' /\ Inv own ownd [] w' /\ exists evs, Seg w evs w'.
Proof. exact decref_ok. Qed.
Print Assumptions C01_release_safe.

(* the heap-level decoder: for every buffer, limit and allocator behaviour it returns; no assertion of the builder fails, no push overflows its container, no released or NULL memory is touched *)
Theorem C01_load_h_never_faults :
  forall (refuse : N -> N -> bool) (L : N) (own ownd : addr -> N)
           (buf : list N) (w : world),
         bytes_ok buf ->
         (len buf < SIZE_MAX)%N ->
         HCont_proofs.wf w ->
         Inv own ownd [] w ->
         exists (r : hres) (w' : world), load_h refuse L buf w = Ret r w'.
Proof. exact load_h_never_faults. Qed.
Print Assumptions C01_load_h_never_faults.

(* cbor_copy of any readable tree never faults *)
Theorem C01_copy_never_faults :
  forall (refuse : N -> N -> bool) (fuel : nat) 
           (a : addr) (w : world) (own ownd : addr -> N) 
           (k : fkind),
         Inv own ownd [] w ->
         shaped fuel (heap w) a -> copy refuse fuel a w <> Fault k.
Proof. exact copy_never_faults. Qed.
Print Assumptions C01_copy_never_faults.

