(* C01 — decoding arbitrary bytes is memory-safe, assertion-clean and always terminates.
   Statements only.  In the models every out-of-bounds read, read of an unset field, store outside a
   block, touch of released memory, failed CBOR_ASSERT and fuel exhaustion is the value Fault /
   LFault / SFault / None, so "memory-safe, assertion-clean, terminates" is "never that value". *)
From CB Require Import Word PStream SpecHead PItem SpecItem PBuild SpecParse PRun
  PStream_proofs PItem_proofs PLoad_proofs PFinal PFinal2 HHeap HItems HRef_proofs HOps HRead_proofs HCont_proofs HCopy_proofs HLoad_proofs.
Local Open Scope N_scope.

(* the streaming decoder reads only bytes inside the caller's buffer, for every buffer *)
Theorem C01_stream_reads_in_bounds : forall buf, bytes_ok buf -> len buf < SIZE_MAX -> stream_decode buf <> SFault.
Proof. exact C08_no_fault. Qed.
Print Assumptions C01_stream_reads_in_bounds.

(* the tree decoder: for every buffer, every limit, every allocator cap — no out-of-bounds read,
   no read of an unset root, no inconsistent builder state, and the loop terminates within its fuel *)
Theorem C01_load_never_faults : forall L cap buf, bytes_ok buf -> len buf < SIZE_MAX -> load L cap buf <> LFault.
Proof. exact load_never_faults. Qed.
Print Assumptions C01_load_never_faults.

(* the outcome is either an item, or a null item plus an error code: there is no third outcome *)
Theorem C01_outcome : forall L cap buf, bytes_ok buf -> len buf < SIZE_MAX ->
  (exists t n, load L cap buf = LOk t n) \/ (exists c p, load L cap buf = LErr c p p /\ c <> ENone).
Proof. exact load_outcome. Qed.
Print Assumptions C01_outcome.

(* what a client then does with a decoded tree: size and serialize are total on every tree (no
   undefined shift in the half encoder, no store outside the buffer: C07_into) *)
Theorem C01_serialize_total : forall t size, wf_item t -> size < 2^64 -> serialize_into t size <> None.
Proof. exact serialize_total. Qed.
Print Assumptions C01_serialize_total.

(* size / serialize over heap items only read (no store anywhere), release of an owned reference
   never touches released memory, never double-frees, never trips the refcount assertion *)
Theorem C01_serialize_readonly : forall a n w r w', serialize_h a n w = Ret r w' -> forall b, heap w' b = heap w b.
Proof. exact C18_heap_unchanged. Qed.
Theorem C01_release_safe : forall own own' ownd a w,
  (forall x, own' x = own x + (if x =? a then 1 else 0)) -> Inv own' ownd [] w ->
  exists w', decref a w = Ret tt w' /\ Inv own ownd [] w' /\ exists evs, Seg w evs w'.
Proof. exact decref_ok. Qed.
Print Assumptions C01_release_safe.

(* the heap-level decoder: for every buffer, limit and allocator behaviour it returns; no assertion of the builder fails, no push overflows its container, no released or NULL memory is touched *)
Theorem C01_load_h_never_faults :
  forall (refuse : N -> N -> bool) (L : N) (own ownd : addr -> N)
           (buf : list N) (w : world),
         bytes_ok buf ->
         (len buf < SIZE_MAX)%N ->
         HCont_proofs.wf w ->
         Inv own ownd [] w ->
         exists (r : hres) (w' : world), load_h refuse L buf w = Ret r w'.
Proof. exact load_h_never_faults. Qed.
Print Assumptions C01_load_h_never_faults.

(* cbor_copy of any readable tree never faults *)
Theorem C01_copy_never_faults :
  forall (refuse : N -> N -> bool) (fuel : nat) 
           (a : addr) (w : world) (own ownd : addr -> N) 
           (k : fkind),
         Inv own ownd [] w ->
         shaped fuel (heap w) a -> copy refuse fuel a w <> Fault k.
Proof. exact copy_never_faults. Qed.
Print Assumptions C01_copy_never_faults.


(* ------------------------------------------------------------------------------------------ *)
(* THE WHOLE CLIENT PIPELINE AS ONE STATEMENT (theories/HPipeline_proofs.v).

   client_pipeline refuse L buf n, one monadic program over model H:
     r <- cbor_load (buf);  if r is an item a:
       cbor_describe (a);  cbor_serialized_size (a);  cbor_serialize (a, out, n);
       cbor_serialize_alloc (a, &p, &sz) then free (p) when non-NULL;
       c <- cbor_copy (a);  if c: cbor_serialized_size (c); cbor_decref (&c);
       cbor_decref (&a)
   with outcome PErr code pos (NULL item) or PItem code pos read size ser alloc copy_size.

   For EVERY allocator oracle, stack limit, byte buffer (bytes below 256, shorter than SIZE_MAX) and output
   size, from every world in which the client's accounting holds (Inv own ownd [] w; in particular the
   empty world): the program never yields Fault - the monad stops at the first Fault, so no step faults
   and every step returns, whatever the oracle refuses and wherever -; the outcome has one of the two
   documented shapes (pipe_ok); afterwards the heap is cell for cell what it was before the load (nothing
   leaked, nothing that existed touched) and Inv / caps / acyclic hold again. *)
From CB Require Import PRound_proofs HHist_proofs HHist2_proofs HPipeline_proofs.
From Coq Require Import List NArith.
Import ListNotations.

(* the two outcomes, in terms of the pure model P: an error is P's error, or a memory error that needed a
   refused request (or 2^57 items); an item comes with code none, position 0, P's [read], and every
   observation is P's function of the tree P decodes: size = ssize t, the bytes = serialize_into t n *)
Theorem C01_pipe_ok_reading : forall refuse L buf n o,
  pipe_ok refuse L buf n o <->
  match o with
  | PErr code pos =>
      code <> ENone /\
      ((exists q, load L SIZE_MAX buf = LErr code pos q) \/
       (code = EMem /\ ((exists i s, refuse i s = true) \/ 2 ^ 57 <= len buf)))
  | PItem code pos rd size ser al csz =>
      code = ENone /\ pos = 0 /\
      exists t, load L SIZE_MAX buf = LOk t rd /\
        size = ssize t /\ ser = serialize_into t n /\
        (al = (0, []) \/ serialize_into t (ssize t) = Some al) /\
        (csz = None \/ csz = Some (ssize t))
  end.
Proof. intros. reflexivity. Qed.

Theorem C01_client_pipeline : forall refuse L buf n own ownd w,
  bytes_ok buf -> len buf < SIZE_MAX -> n < 2 ^ 64 ->
  Inv own ownd [] w -> caps w -> acyclic w ->
  (forall k, client_pipeline refuse L buf n w <> Fault k) /\
  exists o w', client_pipeline refuse L buf n w = Ret o w' /\
    pipe_ok refuse L buf n o /\
    (forall b, heap w' b = heap w b) /\
    Inv own ownd [] w' /\ caps w' /\ acyclic w' /\ next w <= next w'.
Proof. exact HPipeline_proofs.C01_client_pipeline. Qed.
Print Assumptions C01_client_pipeline.

(* the same without the hypotheses that are not needed (no bound on n, no caps, no acyclic) *)
Theorem C01_client_pipeline_spec : forall refuse L buf n own ownd w,
  bytes_ok buf -> len buf < SIZE_MAX -> Inv own ownd [] w ->
  exists o w', client_pipeline refuse L buf n w = Ret o w' /\
    (forall b, heap w' b = heap w b) /\ Inv own ownd [] w' /\ next w <= next w' /\ pipe_ok refuse L buf n o.
Proof. exact client_pipeline_spec. Qed.
Print Assumptions C01_client_pipeline_spec.

Theorem C01_client_pipeline_world0 : forall refuse L buf n,
  bytes_ok buf -> len buf < SIZE_MAX ->
  exists o w', client_pipeline refuse L buf n world0 = Ret o w' /\
    pipe_ok refuse L buf n o /\ forall b, heap w' b = None.
Proof. exact HPipeline_proofs.C01_client_pipeline_world0. Qed.
Print Assumptions C01_client_pipeline_world0.

(* the program of the statement *)
Theorem C01_client_pipeline_reading : forall refuse L buf n,
  client_pipeline refuse L buf n =
  (r <- load_h refuse L buf ;;
   match r with
   | (None, code, pos, _) => ret (PErr code pos)
   | (Some a, code, pos, rd) =>
       describe_h a ;;;
       size <- serialized_size_h a ;;
       ser <- serialize_h a n ;;
       al <- (r <- serialize_alloc_h refuse a ;;
              match r with
              | (wr, Some p, bytes) => free (Some p) ;;; ret (wr, bytes)
              | (wr, None, bytes) => ret (wr, bytes)
              end) ;;
       csz <- (c <- copy_h refuse a ;;
               match c with
               | Some a' => sz <- serialized_size_h a' ;; decref a' ;;; ret (Some sz)
               | None => ret None
               end) ;;
       decref a ;;;
       ret (PItem code pos rd size ser al csz)
   end) /\
  forall a w, describe_h a w = describe_walk (abs_fuel w) a w.
Proof. intros. split; reflexivity. Qed.

(* what made the composition possible: under ANY allocator a successful cbor_load has built exactly the
   tree of the pure model (HLoad_proofs; the refinement theorem was for the granting allocator and
   inputs below 2^57 bytes), so every traversal of the item succeeds *)
Theorem C01_load_h_refines_any : forall L cap own ownd refuse buf w,
  SIZE_MAX <= cap -> bytes_ok buf -> len buf < SIZE_MAX -> HCont_proofs.wf w -> Inv own ownd [] w ->
  exists r w', load_h refuse L buf w = Ret r w' /\
    (match load L cap buf with
     | LOk t n => exists a w'', r = (Some a, ENone, 0, n) /\ abs_of a w' = Ret t w''
     | LErr code p q => r = (None, code, p, q)
     | LFault => False
     end \/
     (((exists i s, refuse i s = true) \/ 2 ^ 57 <= len buf) /\ exists p q, r = (None, EMem, p, q))).
Proof. exact load_h_refines_any. Qed.
Print Assumptions C01_load_h_refines_any.

Theorem C01_load_h_ok_is_load_any : forall L cap own ownd refuse buf w a c p r w',
  SIZE_MAX <= cap -> bytes_ok buf -> len buf < SIZE_MAX -> HCont_proofs.wf w -> Inv own ownd [] w ->
  load_h refuse L buf w = Ret (Some a, c, p, r) w' ->
  exists t w'', load L cap buf = LOk t r /\ abs_of a w' = Ret t w'' /\ c = ENone /\ p = 0.
Proof. exact load_h_ok_is_load_any. Qed.
Print Assumptions C01_load_h_ok_is_load_any.

(* P-level companion: the bytes cbor_serialize reports for the decoded item are the RFC 8949 encoding of
   the tree P decodes - all of them when they fit, and otherwise the return value is 0 with a prefix stored *)
Theorem C01_pipeline_serialize_is_rfc : forall refuse L buf n code pos rd size ser al csz,
  pipe_ok refuse L buf n (PItem code pos rd size ser al csz) ->
  exists t, load L SIZE_MAX buf = LOk t rd /\
    (len (encode_rfc t) <= n -> ser = Some (len (encode_rfc t), encode_rfc t)) /\
    (n < len (encode_rfc t) -> exists out, ser = Some (0, out) /\ len out <= n /\ exists sfx, encode_rfc t = out ++ sfx).
Proof. exact pipeline_serialize_is_rfc. Qed.
Print Assumptions C01_pipeline_serialize_is_rfc.

(* decode-then-serialize is the identity on canonical encodings, whatever the allocator does *)
Theorem C01_pipeline_roundtrip : forall refuse L t0 n own ownd w code pos rd size ser al csz w',
  rt_ok L SIZE_MAX t0 -> len (encode_rfc t0) < SIZE_MAX -> len (encode_rfc t0) <= n -> Inv own ownd [] w ->
  client_pipeline refuse L (encode_rfc t0) n w = Ret (PItem code pos rd size ser al csz) w' ->
  rd = len (encode_rfc t0) /\ ser = Some (len (encode_rfc t0), encode_rfc t0).
Proof. exact pipeline_roundtrip. Qed.
Print Assumptions C01_pipeline_roundtrip.

(* non-vacuity (evaluated): [ (_ h'61'), 1(1) ] - an array holding a chunked byte string and a tag - under an
   oracle that refuses the 17th request, which falls inside cbor_copy (the load takes requests 0..11,
   cbor_serialize_alloc request 12, the copy would take 13..21): the copy is NULL and nothing is left;
   the same input truncated: NULL item, NOTENOUGHDATA at 6; a refusal inside the load: MEMERROR *)
Example C01_example_pipeline :
  match client_pipeline ex_refuse 8 ex_buf 16 world0,
        client_pipeline (fun _ _ => false) 8 ex_buf 16 world0,
        client_pipeline ex_refuse 8 [0x82; 0x5F; 0x41; 0x61; 0xFF; 0xC1] 16 world0,
        client_pipeline (fun i _ => i =? 5) 8 ex_buf 16 world0 with
  | Ret o1 w1, Ret o2 w2, Ret o3 w3, Ret o4 w4 =>
      o1 = PItem ENone 0 7 7 (Some (7, ex_buf)) (7, ex_buf) None /\ live_cells w1 = [] /\ nreq w1 = 17 /\
      o2 = PItem ENone 0 7 7 (Some (7, ex_buf)) (7, ex_buf) (Some 7) /\ live_cells w2 = [] /\ nreq w2 = 22 /\
      o3 = PErr ENotEnough 6 /\ live_cells w3 = [] /\
      o4 = PErr EMem 2 /\ live_cells w4 = []
  | _, _, _, _ => False
  end /\
  ex_refuse = (fun i _ => i =? 16) /\ ex_buf = [0x82; 0x5F; 0x41; 0x61; 0xFF; 0xC1; 0x01] /\
  load 8 SIZE_MAX ex_buf = LOk (IArray false [IBytesI [[97]]; ITag 1 (IUint I8 1)]) 7.
Proof. split; [vm_compute; repeat split|]. split; [reflexivity|]. split; [reflexivity|]. vm_compute. reflexivity. Qed.
Example C01_example_pipeline_theorem_applies :
  exists o w', client_pipeline ex_refuse 8 ex_buf 16 world0 = Ret o w' /\
    pipe_ok ex_refuse 8 ex_buf 16 o /\ forall b, heap w' b = None.
Proof. exact ex_pipeline_theorem. Qed.
