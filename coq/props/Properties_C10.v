(* C10 — low-level encoders and the streaming decoder are exact inverses.
   Statements only; proofs in theories/PEnc_proofs.v (tables int_like / enc_mt / enc_w / enc_dom /
   rfc_head / tok_of / byte_enc / ctrl_bytes / ctrl_spec are defined there) and PFloat_proofs.v. *)
From CB Require Import Word PStream PEnc SpecHead SpecItem PStream_proofs PEnc_proofs GenLeafTypes Bridge_leaf_enc.
From CBGen Require Import Gen_leaf.
From Coq Require Import ZArith.
Local Open Scope N_scope.

(* integer-like encoders (uint*, negint*, array/map start, tag): the bytes are the RFC 8949 head —
   fixed-width variants at their named width (8-bit: immediate up to 23, one-byte argument above),
   width-agnostic ones in the shortest form ([head_shortest]) *)
Theorem C10_int_encode : forall e v size, int_like e = true -> v < enc_dom e -> 9 <= size ->
  encode e v size = Some (len (rfc_head e v), rfc_head e v).
Proof. exact PEnc_proofs.C10_int_encode. Qed.
Print Assumptions C10_int_encode.

Theorem C10_shortest : forall mt v, head mt v = head_w mt (w_of v) v.
Proof. exact head_shortest. Qed.

(* ... and decoding them fires the callback of the matching kind with the identical value and
   consumes exactly the bytes written, whatever follows *)
Theorem C10_int_stream : forall e v rest, int_like e = true -> v < enc_dom e -> bytes_ok rest ->
  len (rfc_head e v ++ rest) < SIZE_MAX ->
  stream_decode (rfc_head e v ++ rest) = SRes (mkdres Finished (len (rfc_head e v)) 0) (Some (tok_of e v)).
Proof. exact PEnc_proofs.C10_int_stream. Qed.
Print Assumptions C10_int_stream.

(* one-byte encoders: indefinite starts, bool, null, undef, break *)
Theorem C10_byte : forall e v size b t rest, byte_enc e v = Some (b, t) -> 1 <= size ->
  encode e v size = Some (1, [b]) /\ head_spec (b :: rest) = HTok t 1.
Proof. exact PEnc_proofs.C10_byte. Qed.
Print Assumptions C10_byte.

(* simple values: encoded per the RFC for every v < 256; only 20..23 are decodable *)
Theorem C10_ctrl : forall v size rest, v < 256 -> 2 <= size ->
  encode e_ctrl v size = Some (len (ctrl_bytes v), ctrl_bytes v) /\
  head_spec (ctrl_bytes v ++ rest) = ctrl_spec v.
Proof. exact PEnc_proofs.C10_ctrl. Qed.
Print Assumptions C10_ctrl.

(* string starts followed by exactly the declared payload *)
Theorem C10_string_start : forall e n size, e = e_bytestring_start \/ e = e_string_start ->
  n < 2^64 -> 9 <= size -> encode e n size = Some (len (head (enc_mt e) n), head (enc_mt e) n).
Proof. exact C10_string_start_encode. Qed.
Theorem C10_bytestring_decode : forall pay rest, len pay < 2^64 ->
  head_spec (head 2 (len pay) ++ pay ++ rest) =
  HTok (TBytes (len (head 2 (len pay))) pay) (len (head 2 (len pay)) + len pay).
Proof. exact PEnc_proofs.C10_bytestring_decode. Qed.
Theorem C10_string_decode : forall pay rest, len pay < 2^64 ->
  head_spec (head 3 (len pay) ++ pay ++ rest) =
  HTok (TText (len (head 3 (len pay))) pay) (len (head 3 (len pay)) + len pay).
Proof. exact PEnc_proofs.C10_string_decode. Qed.
Print Assumptions C10_string_decode.

(* single and double floats *)
Theorem C10_single : forall v size rest, v < 2^32 -> 5 <= size ->
  encode e_single v size = Some (5, 0xFA :: be_bytes 4 (canon32 v)) /\
  head_spec ((0xFA :: be_bytes 4 (canon32 v)) ++ rest) = HTok (TFloat F32 (canon32 v)) 5.
Proof. exact PEnc_proofs.C10_single. Qed.
Theorem C10_double : forall v size rest, v < 2^64 -> 9 <= size ->
  encode e_double v size = Some (9, 0xFB :: be_bytes 8 (canon64 v)) /\
  head_spec ((0xFB :: be_bytes 8 (canon64 v)) ++ rest) = HTok (TFloat F64 (canon64 v)) 9.
Proof. exact PEnc_proofs.C10_double. Qed.
Print Assumptions C10_double.

(* the head specification is what the decoder does (C08), so every head_spec statement above is a
   statement about cbor_stream_decode *)
Theorem C10_decode_of_spec : forall buf t n, bytes_ok buf -> len buf < SIZE_MAX ->
  head_spec buf = HTok t n -> stream_decode buf = SRes (mkdres Finished n 0) (Some t).
Proof. exact decode_of_spec. Qed.
Print Assumptions C10_decode_of_spec.

Example C10_examples :
  encode e_uint 1000 9 = Some (3, [0x19; 0x03; 0xE8]) /\ encode e_uint16 5 3 = Some (3, [0x19; 0; 5]) /\
  encode e_negint8 24 2 = Some (2, [0x38; 24]) /\ encode e_tag (2^32) 9 = Some (9, [0xDB; 0; 0; 0; 1; 0; 0; 0; 0]) /\
  stream_decode [0xDB; 0; 0; 0; 1; 0; 0; 0; 0; 0xFF] = SRes (mkdres Finished 9 0) (Some (TTag (2^32))).
Proof. repeat split; vm_compute; reflexivity. Qed.

(* every public encoder of encoding.c, as translated from this run's clang AST (which internal
   encoder it calls, with which major-type offset), is the model's [encode]: e.g. for e_negint16,
   [encode e_negint16 v size = Some (enc_uint16 v size 0x20)] by definition *)
Theorem C10_code_encode_uint : forall v size off, v < 2^64 -> off < 2^8 ->
  g_cbor_encode_uint (Z.of_N v) (Z.of_N size) (Z.of_N off) = zres (enc_uint v size off).
Proof. exact bridge_encode_uint. Qed.
Theorem C10_code_uint8 : forall v size, v < 2^8 -> gcbor_encode_uint8 (Z.of_N v) (Z.of_N size) = zres (enc_uint8 v size 0).
Proof. exact bridge_pub_uint8. Qed.
Theorem C10_code_uint16 : forall v size, v < 2^16 -> gcbor_encode_uint16 (Z.of_N v) (Z.of_N size) = zres (enc_uint16 v size 0).
Proof. exact bridge_pub_uint16. Qed.
Theorem C10_code_uint32 : forall v size, v < 2^32 -> gcbor_encode_uint32 (Z.of_N v) (Z.of_N size) = zres (enc_uint32 v size 0).
Proof. exact bridge_pub_uint32. Qed.
Theorem C10_code_uint64 : forall v size, v < 2^64 -> gcbor_encode_uint64 (Z.of_N v) (Z.of_N size) = zres (enc_uint64 v size 0).
Proof. exact bridge_pub_uint64. Qed.
Theorem C10_code_uint : forall v size, v < 2^64 -> gcbor_encode_uint (Z.of_N v) (Z.of_N size) = zres (enc_uint v size 0).
Proof. exact bridge_pub_uint. Qed.
Theorem C10_code_negint8 : forall v size, v < 2^8 -> gcbor_encode_negint8 (Z.of_N v) (Z.of_N size) = zres (enc_uint8 v size 32).
Proof. exact bridge_pub_negint8. Qed.
Theorem C10_code_negint16 : forall v size, v < 2^16 -> gcbor_encode_negint16 (Z.of_N v) (Z.of_N size) = zres (enc_uint16 v size 32).
Proof. exact bridge_pub_negint16. Qed.
Theorem C10_code_negint32 : forall v size, v < 2^32 -> gcbor_encode_negint32 (Z.of_N v) (Z.of_N size) = zres (enc_uint32 v size 32).
Proof. exact bridge_pub_negint32. Qed.
Theorem C10_code_negint64 : forall v size, v < 2^64 -> gcbor_encode_negint64 (Z.of_N v) (Z.of_N size) = zres (enc_uint64 v size 32).
Proof. exact bridge_pub_negint64. Qed.
Theorem C10_code_negint : forall v size, v < 2^64 -> gcbor_encode_negint (Z.of_N v) (Z.of_N size) = zres (enc_uint v size 32).
Proof. exact bridge_pub_negint. Qed.
Theorem C10_code_bytestring_start : forall v size, v < 2^64 -> gcbor_encode_bytestring_start (Z.of_N v) (Z.of_N size) = zres (enc_uint v size 64).
Proof. exact bridge_pub_bytestring_start. Qed.
Theorem C10_code_string_start : forall v size, v < 2^64 -> gcbor_encode_string_start (Z.of_N v) (Z.of_N size) = zres (enc_uint v size 96).
Proof. exact bridge_pub_string_start. Qed.
Theorem C10_code_array_start : forall v size, v < 2^64 -> gcbor_encode_array_start (Z.of_N v) (Z.of_N size) = zres (enc_uint v size 128).
Proof. exact bridge_pub_array_start. Qed.
Theorem C10_code_map_start : forall v size, v < 2^64 -> gcbor_encode_map_start (Z.of_N v) (Z.of_N size) = zres (enc_uint v size 160).
Proof. exact bridge_pub_map_start. Qed.
Theorem C10_code_tag : forall v size, v < 2^64 -> gcbor_encode_tag (Z.of_N v) (Z.of_N size) = zres (enc_uint v size 192).
Proof. exact bridge_pub_tag. Qed.
Theorem C10_code_ctrl : forall v size, v < 2^8 -> gcbor_encode_ctrl (Z.of_N v) (Z.of_N size) = zres (enc_uint8 v size 224).
Proof. exact bridge_pub_ctrl. Qed.
Theorem C10_code_bool : forall v size, gcbor_encode_bool (Z.of_N v) (Z.of_N size) = zres (if v =? 0 then enc_byte 0xF4 size else enc_byte 0xF5 size).
Proof. exact bridge_pub_bool. Qed.
Theorem C10_code_indef_bytestring_start : forall size, gcbor_encode_indef_bytestring_start (Z.of_N size) = zres (enc_byte 95 size).
Proof. exact bridge_pub_indef_bytestring_start. Qed.
Theorem C10_code_indef_string_start : forall size, gcbor_encode_indef_string_start (Z.of_N size) = zres (enc_byte 127 size).
Proof. exact bridge_pub_indef_string_start. Qed.
Theorem C10_code_indef_array_start : forall size, gcbor_encode_indef_array_start (Z.of_N size) = zres (enc_byte 159 size).
Proof. exact bridge_pub_indef_array_start. Qed.
Theorem C10_code_indef_map_start : forall size, gcbor_encode_indef_map_start (Z.of_N size) = zres (enc_byte 191 size).
Proof. exact bridge_pub_indef_map_start. Qed.
Theorem C10_code_null : forall size, gcbor_encode_null (Z.of_N size) = zres (enc_byte 246 size).
Proof. exact bridge_pub_null. Qed.
Theorem C10_code_undef : forall size, gcbor_encode_undef (Z.of_N size) = zres (enc_byte 247 size).
Proof. exact bridge_pub_undef. Qed.
Theorem C10_code_break : forall size, gcbor_encode_break (Z.of_N size) = zres (enc_byte 255 size).
Proof. exact bridge_pub_break. Qed.
Print Assumptions C10_code_tag.

(* ---- translator tie, second wave: the float encoders as translated from this run's clang AST ---- *)
From CB Require Import Bridge_leaf_float Bridge_leaf_ehalf.
Theorem C10_code_half : forall val size, val < 2^32 ->
  gcbor_encode_half (Z.of_N val) (Z.of_N size) = option_map zres (encode_half val size).
Proof. exact bridge_encode_half. Qed.
Theorem C10_code_single : forall v size, v < 2^32 ->
  gcbor_encode_single (Z.of_N v) (Z.of_N size) = zres (encode_single v size).
Proof. exact bridge_encode_single. Qed.
Theorem C10_code_double : forall v size, v < 2^64 ->
  gcbor_encode_double (Z.of_N v) (Z.of_N size) = zres (encode_double v size).
Proof. exact bridge_encode_double. Qed.
Print Assumptions C10_code_half.

(* "keeps no state between calls": no variable with static storage duration in the files of the streaming
   decoder, the loaders, the encoders, the UTF-8 counter and the size guards is mutable or ever assigned
   (inventory regenerated from the AST of this run; theories/Bridge_inventory.v) *)
From CB Require Import Bridge_inventory.
From CBGen Require Import Gen_inventory.
Theorem C10_no_static_state : forallb stateless_ok gen_globals = true.
Proof. exact bridge_stateless_files. Qed.
Print Assumptions C10_no_static_state.
