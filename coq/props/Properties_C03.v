(* C03 — serialization emits exactly the RFC 8949 encoding of the tree and round-trips.
   Statements only; proofs in theories/PItem_proofs.v (emission) and PRound_proofs.v (round trip;
   [canon] — identity except that NaN floats become the canonical quiet NaN — and [rt_ok] — the
   hypotheses of the property: assigned simple values, half-representable half items, nesting
   within L, no allocation refused — are defined there). *)
From CB Require Import Word PStream PItem SpecItem PBuild SpecParse PItem_proofs PRound_proofs PFinal.
Local Open Scope N_scope.

(* cbor_serialize into a large enough buffer emits precisely the RFC 8949 encoding the tree
   determines (SpecItem.encode_rfc: stored widths for ints and floats, shortest heads for lengths,
   counts and tags, start byte .. break for indefinite items, canonical NaN) *)
Theorem C03_is_rfc : forall t size, wf_item t -> size < 2^64 -> len (encode_rfc t) <= size ->
  serialize_into t size = Some (len (encode_rfc t), encode_rfc t).
Proof. exact serialize_is_rfc. Qed.
Print Assumptions C03_is_rfc.

(* loading those bytes consumes all of them and yields the original tree (NaN equal to NaN),
   whatever follows them in the buffer *)
Theorem C03_roundtrip : forall L cap t rest, rt_ok L cap t -> bytes_ok rest ->
  len (encode_rfc t ++ rest) < SIZE_MAX ->
  load L cap (encode_rfc t ++ rest) = LOk (canon t) (len (encode_rfc t)).
Proof. exact C03_roundtrip_load. Qed.
Print Assumptions C03_roundtrip.

(* serializing that tree again yields the identical bytes *)
Theorem C03_idempotent : forall L cap t, rt_ok L cap t -> encode_rfc (canon t) = encode_rfc t.
Proof. exact PRound_proofs.C03_idempotent. Qed.
Print Assumptions C03_idempotent.

Theorem C03_canon_idempotent : forall cap t, rt_loc cap t -> canon (canon t) = canon t.
Proof. exact canon_canon. Qed.

Example C03_example :
  let t := IMap true [(IText [0x61], IArray false [IFloat F32 0x7F800001; ITag 24 (IBytesI [[1]; []])])] in
  encode_rfc t = [0xBF; 0x61; 0x61; 0x82; 0xFA; 0x7F; 0xC0; 0; 0; 0xD8; 24; 0x5F; 0x41; 1; 0x40; 0xFF; 0xFF] /\
  load 2048 (2^20) (encode_rfc t ++ [0xFF]) = LOk (canon t) 17.
Proof. split; vm_compute; reflexivity. Qed.

(* ---- C03 for API-built / API-modified trees (theories/HAbs_proofs.v): what cbor_serialize emits for
   a heap item is the RFC 8949 encoding of its abstraction, and after a mutating call the abstraction
   is the one the documented list semantics gives (Properties_C12, the C12_abs_after theorems) ---- *)
From CB Require Import HHeap HItems HOps HHist HRef_proofs HCont_proofs HHist_proofs HLoad_proofs HAbs_proofs.
From Coq Require Import List.
Import ListNotations.

Theorem C03_api_serialize : forall a size w t,
  (exists w2, abs_of a w = Ret t w2) -> wf_item t -> size < 2 ^ 64 -> len (encode_rfc t) <= size ->
  exists w2, serialize_h a size w = Ret (Some (len (encode_rfc t), encode_rfc t)) w2.
Proof. exact HAbs_proofs.C03_api_serialize. Qed.
Print Assumptions C03_api_serialize.

Theorem C03_push_serialize : forall refuse L s own ownd w ha hx a x s' w' i xs tx wa wx size,
  Inv own ownd [] w -> caps w -> acyclic w ->
  legal s own w (OPush ha hx) -> below_rule s w (OPush ha hx) ->
  hget s ha = Some a -> hget s hx = Some x ->
  abs_of a w = Ret (IArray i xs) wa -> abs_of x w = Ret tx wx ->
  step refuse L s (OPush ha hx) w = Ret (s', OutBool true) w' ->
  wf_item (IArray i (xs ++ [tx])) -> size < 2 ^ 64 -> len (encode_rfc (IArray i (xs ++ [tx]))) <= size ->
  exists w2, serialize_h a size w' =
    Ret (Some (len (encode_rfc (IArray i (xs ++ [tx]))), encode_rfc (IArray i (xs ++ [tx])))) w2.
Proof. exact HAbs_proofs.C03_push_serialize. Qed.
Print Assumptions C03_push_serialize.

Theorem C03_map_add_serialize : forall refuse L s own ownd w hm hk hv a k v s' w' i kvs tk tv wa wk wv size,
  Inv own ownd [] w -> caps w -> acyclic w ->
  legal s own w (OMapAdd hm hk hv) -> below_rule s w (OMapAdd hm hk hv) ->
  hget s hm = Some a -> hget s hk = Some k -> hget s hv = Some v ->
  abs_of a w = Ret (IMap i kvs) wa -> abs_of k w = Ret tk wk -> abs_of v w = Ret tv wv ->
  step refuse L s (OMapAdd hm hk hv) w = Ret (s', OutBool true) w' ->
  wf_item (IMap i (kvs ++ [(tk, tv)])) -> size < 2 ^ 64 -> len (encode_rfc (IMap i (kvs ++ [(tk, tv)]))) <= size ->
  exists w2, serialize_h a size w' =
    Ret (Some (len (encode_rfc (IMap i (kvs ++ [(tk, tv)]))), encode_rfc (IMap i (kvs ++ [(tk, tv)])))) w2.
Proof. exact HAbs_proofs.C03_map_add_serialize. Qed.
Print Assumptions C03_map_add_serialize.

(* decoded items: abs_of of the item cbor_load returns is the tree the pure load returns
   (HLoad_proofs.load_h_refines; allocator granting every request) *)
Theorem C03_abs_after_load : forall L cap own ownd buf w,
  SIZE_MAX <= cap -> bytes_ok buf -> len buf < 2 ^ 57 -> HCont_proofs.wf w -> Inv own ownd [] w ->
  match load L cap buf with
  | LOk t n => exists a w' w'', load_h grant L buf w = Ret (Some a, ENone, 0, n) w' /\ abs_of a w' = Ret t w''
  | LErr code p q => exists w', load_h grant L buf w = Ret (None, code, p, q) w'
  | LFault => False
  end.
Proof. exact load_h_refines. Qed.
Print Assumptions C03_abs_after_load.
(* ... and under ANY allocator, for any input shorter than SIZE_MAX: if cbor_load returns an item, its
   abstraction is the tree the pure load returns (and every traversal budget that covers the cells
   allocated after the root reads it) *)
Theorem C03_abs_after_load_any : forall L cap own ownd refuse buf w a c p r w',
  SIZE_MAX <= cap -> bytes_ok buf -> len buf < SIZE_MAX -> HCont_proofs.wf w -> Inv own ownd [] w ->
  load_h refuse L buf w = Ret (Some a, c, p, r) w' ->
  exists t, load L cap buf = LOk t r /\ c = ENone /\ p = 0 /\
    forall fuel, (N.to_nat (next w' - a) <= fuel)%nat -> exists w'', abs fuel a w' = Ret t w''.
Proof. exact load_h_ok_abs_any. Qed.
Print Assumptions C03_abs_after_load_any.

Example C03_example_api : forall s' w',
  step HRef_proofs.never 8 (fst exAbs_sw) exAbs_op (snd exAbs_sw) = Ret (s', OutBool true) w' ->
  exists w2, serialize_h 1 16 w' = Ret (Some (5, [130; 7; 98; 104; 105])) w2.
Proof. intros s' w' E. apply (exAbs_theorems s' w' E). Qed.

(* ------------------------------------------------------------------------------------------ *)
(* Translator tie of what the serializer emits in which order (translator/effects.py,
   gen/Gen_effects_ser.v, Bridge_effects_ser.v, HPlansSer_proofs.v): the head of an array / a map is the
   encoder of its SIZE (or the indefinite start byte), then the elements in storage order, then a
   break iff indefinite; an integer of width w goes through the fixed-width encoder of w. *)
From Coq Require Import ZArith String.
From CB Require Import PEnc GenLeafTypes HPlans HPlansSer HPlans_proofs HPlansSer_proofs Bridge_effects_ser.
From CBGen Require Import Gen_effects_ser.
Local Open Scope string_scope.
Local Open Scope list_scope.
Local Open Scope N_scope.

Theorem C03_code_array_entry_followed : forall al (indef : bool) (xs : list item) size k a,
  size < 2 ^ 64 -> len xs < 2 ^ 64 ->
  fst (if indef then enc_byte 0x9F size else enc_uint (len xs) size 0x80) < 2 ^ 64 ->
  let hd := if indef then enc_byte 0x9F size else enc_uint (len xs) size 0x80 in
  let p := Gcbor_serialize_array al (dst_z (negb indef)) (Z.of_N (len xs)) (Z.of_N size) k a (Z.of_N (fst hd)) in
  p_reqs p = [if indef then ReqCall "cbor_encode_indef_array_start" (whole size)
              else ReqCall "cbor_encode_array_start" (AZ (Z.of_N (len xs)) :: whole size)] /\
  serialize_into (IArray indef xs) size =
    if returns p then Some (0, snd hd)
    else ser_close indef size (ser_seq serialize_into xs size (fieldN "acc0" p) (snd hd)).
Proof. exact code_array_entry_followed. Qed.
Print Assumptions C03_code_array_entry_followed.

Theorem C03_code_int_followed : forall (neg : bool) w g8 g16 g32 g64 size c,
  size < 2 ^ 64 -> c < 2 ^ 64 ->
  let p := (if neg then Gcbor_serialize_negint else Gcbor_serialize_uint) (iw_z w) (Z.of_N size) g16 g32 g64 g8 (Z.of_N c) in
  let payload := match w with I8 => g8 | I16 => g16 | I32 => g32 | I64 => g64 end in
  p_reqs p = [ReqCall (int_encoder neg w) (AZ payload :: whole size)] /\ ret_N p = c /\
  encoder_model (int_encoder neg w) = Some (fun v s => ser_int (if neg then 0x20 else 0x00) w v s).
Proof. exact code_int_followed. Qed.
Print Assumptions C03_code_int_followed.

Theorem C03_map_round_follows_plan : forall definite total k kv size written w1 o1 w2 o2,
  written <= size -> size < 2 ^ 64 -> k < total ->
  serialize_into (fst kv) (size - written) = Some (w1, o1) -> w1 <= size - written ->
  (w1 <> 0 -> serialize_into (snd kv) (size - written - w1) = Some (w2, o2) /\ w2 <= size - written - w1) ->
  let p := map_round_plan definite total k written size w1 w2 in
  (w1 <> 0 -> p_reqs p =
     [ReqCall "cbor_serialize" [AP (PSlot slots0 (Z.of_N k) "key"); APO (PArg 1) (Z.of_N written); AZ (Z.of_N (size - written))];
      ReqCall "cbor_serialize" [AP (PSlot slots0 (Z.of_N k) "value"); APO (PArg 1) (Z.of_N (written + w1)); AZ (Z.of_N (size - (written + w1)))]]) /\
  (w1 = 0 -> returns p = true /\ ret_N p = 0 /\ ser_pair kv (size - written) = Some (0, o1)) /\
  (w1 <> 0 -> w2 = 0 -> returns p = true /\ ret_N p = 0 /\ ser_pair kv (size - written) = Some (0, o1 ++ o2)) /\
  (w1 <> 0 -> w2 <> 0 -> to_head 0 p = true /\ fieldN "round" p = k + 1 /\ fieldN "acc0" p = written + (w1 + w2) /\
                         ser_pair kv (size - written) = Some (w1 + w2, o1 ++ o2)).
Proof. exact map_round_follows_plan. Qed.

Theorem C03_float_follows_plan : forall w bits ctrl size c,
  let p := float_plan (fw_z w) ctrl size c in
  p_reqs p = [ReqCall (fst (float_encoder w)) (AVal (snd (float_encoder w)) item0 :: whole size)] /\ ret_N p = c /\
  serialize_into (IFloat w bits) size = float_model (fst (float_encoder w)) bits size.
Proof. exact float_follows_plan. Qed.
