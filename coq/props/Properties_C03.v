(* C03 — serialization emits exactly the RFC 8949 encoding of the tree and round-trips.
   Statements only; proofs in theories/PItem_proofs.v (emission) and PRound_proofs.v (round trip;
   [canon] — identity except that NaN floats become the canonical quiet NaN — and [rt_ok] — the
   hypotheses of the property: assigned simple values, half-representable half items, nesting
   within L, no allocation refused — are defined there). *)
From CB Require Import Word PStream PItem SpecItem PBuild SpecParse PItem_proofs PRound_proofs PFinal.
Local Open Scope N_scope.

(* cbor_serialize into a large enough buffer emits precisely the RFC 8949 encoding the tree
   determines (SpecItem.encode_rfc: stored widths for ints and floats, shortest heads for lengths,
   counts and tags, start byte .. break for indefinite items, canonical NaN) *)
Theorem C03_is_rfc : forall t size, wf_item t -> size < 2^64 -> len (encode_rfc t) <= size ->
  serialize_into t size = Some (len (encode_rfc t), encode_rfc t).
Proof. exact serialize_is_rfc. Qed.
Print Assumptions C03_is_rfc.

(* loading those bytes consumes all of them and yields the original tree (NaN equal to NaN),
   whatever follows them in the buffer *)
Theorem C03_roundtrip : forall L cap t rest, rt_ok L cap t -> bytes_ok rest ->
  len (encode_rfc t ++ rest) < SIZE_MAX ->
  load L cap (encode_rfc t ++ rest) = LOk (canon t) (len (encode_rfc t)).
Proof. exact C03_roundtrip_load. Qed.
Print Assumptions C03_roundtrip.

(* serializing that tree again yields the identical bytes *)
Theorem C03_idempotent : forall L cap t, rt_ok L cap t -> encode_rfc (canon t) = encode_rfc t.
Proof. exact PRound_proofs.C03_idempotent. Qed.
Print Assumptions C03_idempotent.

Theorem C03_canon_idempotent : forall cap t, rt_loc cap t -> canon (canon t) = canon t.
Proof. exact canon_canon. Qed.

Example C03_example :
  let t := IMap true [(IText [0x61], IArray false [IFloat F32 0x7F800001; ITag 24 (IBytesI [[1]; []])])] in
  encode_rfc t = [0xBF; 0x61; 0x61; 0x82; 0xFA; 0x7F; 0xC0; 0; 0; 0xD8; 24; 0x5F; 0x41; 1; 0x40; 0xFF; 0xFF] /\
  load 2048 (2^20) (encode_rfc t ++ [0xFF]) = LOk (canon t) 17.
Proof. split; vm_compute; reflexivity. Qed.
