(* C08 — each streaming-decoder call obeys its status / read / required contract.
   Statements only; proofs in theories/PStream_proofs.v. *)
From CB Require Import Word PStream SpecHead PRun GenTypes PStream_proofs Bridge_dispatch.
From CBGen Require Import Gen_dispatch Gen_leaf.
From CB Require Import GenLeafTypes Bridge_leaf_dec.
From Coq Require Import ZArith.
Local Open Scope N_scope.

(* for every buffer, exactly one of: FINISHED with exactly the event of the RFC 8949 head at the
   start of the buffer and read = its encoded length (plus payload); NEDATA with read 0 and
   len buf < required <= full length of the pending head and payload; ERROR with read 0 for a
   reserved / unsupported initial byte.  (contract is defined in theories/PRun.v against
   SpecHead.head_spec.) *)
Theorem C08_contract : forall buf, bytes_ok buf -> len buf < SIZE_MAX -> contract buf.
Proof. exact PStream_proofs.C08_contract. Qed.
Print Assumptions C08_contract.

(* the call never reads outside the buffer (a read outside is SFault in the model) *)
Theorem C08_no_fault : forall buf, bytes_ok buf -> len buf < SIZE_MAX -> stream_decode buf <> SFault.
Proof. exact PStream_proofs.C08_no_fault. Qed.
Print Assumptions C08_no_fault.

(* a FINISHED result does not depend on any byte beyond those it reports as read *)
Theorem C08_prefix_indep : forall buf t n, bytes_ok buf -> head_spec buf = HTok t n ->
  n <= len buf /\ forall ext, head_spec (firstnN n buf ++ ext) = HTok t n.
Proof. exact PStream_proofs.C08_prefix_indep. Qed.
Print Assumptions C08_prefix_indep.

(* any payload pointer lies inside the buffer, inside the bytes reported as read *)
Theorem C08_payload_inside : forall buf t off data n, bytes_ok buf -> head_spec buf = HTok t n ->
  t = TBytes off data \/ t = TText off data ->
  1 <= off /\ off + len data = n /\ n <= len buf /\ data = firstnN (len data) (skipnN off buf).
Proof. exact PStream_proofs.C08_payload_inside. Qed.
Print Assumptions C08_payload_inside.

(* the switch of cbor_stream_decode as regenerated from the source on this run is the model's *)
Theorem C08_switch_is_model : forall b g, In (b, g) gen_rows -> g = expected (dispatch b).
Proof. exact bridge_dispatch. Qed.
Print Assumptions C08_switch_is_model.

(* non-vacuity: a FINISHED, a NEDATA (declared length 2^64-1: required saturates at SIZE_MAX) and an ERROR instance *)
Example C08_examples :
  stream_decode [0x19; 0x03; 0xE8; 0xFF] = SRes (mkdres Finished 3 0) (Some (TUint I16 1000)) /\
  stream_decode [0x5B; 255; 255; 255; 255; 255; 255; 255; 255; 1] = SRes (mkdres Nedata 0 SIZE_MAX) None /\
  stream_decode [0x1C] = SRes (mkdres DError 0 0) None /\ bytes_ok [0x19; 0x03; 0xE8; 0xFF].
Proof. repeat split; try (vm_compute; reflexivity). repeat constructor. Qed.

(* claim_bytes and the big-endian loaders, as translated from this run's clang AST, are the model's *)
Theorem C08_code_claim_bytes : forall required provided r, required < 2^64 -> provided < 2^64 -> rd r < 2^64 ->
  gclaim_bytes (Z.of_N required) (Z.of_N provided) (Z.of_N (rd r)) (zstatus (st r)) (Z.of_N (req r)) =
  let (ok, r') := claim_bytes required provided r in (b2z ok, Z.of_N (rd r'), zstatus (st r'), Z.of_N (req r')).
Proof. exact bridge_claim_bytes. Qed.
Theorem C08_code_load_uint16 : forall b0 b1, b0 < 256 -> b1 < 256 -> g_cbor_load_uint16 (srcf [b0; b1]) = Z.of_N (be_val [b0; b1]).
Proof. exact bridge_load_uint16. Qed.
Theorem C08_code_load_uint32 : forall b0 b1 b2 b3, b0 < 256 -> b1 < 256 -> b2 < 256 -> b3 < 256 ->
  g_cbor_load_uint32 (srcf [b0; b1; b2; b3]) = Z.of_N (be_val [b0; b1; b2; b3]).
Proof. exact bridge_load_uint32. Qed.
Theorem C08_code_load_uint64 : forall b0 b1 b2 b3 b4 b5 b6 b7,
  b0 < 256 -> b1 < 256 -> b2 < 256 -> b3 < 256 -> b4 < 256 -> b5 < 256 -> b6 < 256 -> b7 < 256 ->
  g_cbor_load_uint64 (srcf [b0; b1; b2; b3; b4; b5; b6; b7]) = Z.of_N (be_val [b0; b1; b2; b3; b4; b5; b6; b7]).
Proof. exact bridge_load_uint64. Qed.
Print Assumptions C08_code_claim_bytes.

(* "keeps no state between calls": no variable with static storage duration in the files of the streaming
   decoder, the loaders, the encoders, the UTF-8 counter and the size guards is mutable or ever assigned
   (inventory regenerated from the AST of this run; theories/Bridge_inventory.v) *)
From CB Require Import Bridge_inventory.
From CBGen Require Import Gen_inventory.
Theorem C08_no_static_state : forallb stateless_ok gen_globals = true.
Proof. exact bridge_stateless_files. Qed.
Print Assumptions C08_no_static_state.

(* "The call allocates nothing": neither the allocator pointers nor a libc allocation function is reachable from
   cbor_stream_decode (nor from the encoders / serializers) in the call graph of this run *)
Theorem C08_allocates_nothing :
  match gen_callgraph with [] => true | _ => forallb fn_allocfree no_alloc_api end = true.
Proof. exact bridge_no_alloc_reachable. Qed.
Print Assumptions C08_allocates_nothing.
